import HdVerif.Model.SegGeom
import HdVerif.Proofs.TilingStd
import Mathlib.Tactic.Ring
import Mathlib.Tactic.Linarith
import Mathlib.Tactic.LinearCombination
import Mathlib.Tactic.FieldSimp
import Mathlib.Tactic.Push
import Mathlib.Data.List.Nodup
import Mathlib.Data.List.Perm.Basic
import Mathlib.Tactic.Positivity
import HdVerif.Proofs.RatFloor
/-! Helper lemmas for C03 (`Props/C03.lean`): the Python-slice specification of the translated
`stdSliceIndices` (T2), vector algebra over ℚ (Gram / Cramer identities, normal of an orthonormal frame),
minimum/maximum folds, and the read-back of positions lying on a line (`volumePositions_line`). -/
namespace HdVerif.SegGeomLemmas
open HdVerif HdVerif.Gen HdVerif.SegGeom HdVerif.SegGeom.V3 HdVerif.TilingLemmas

/-! ## T2: `_standardize_slice_indices` means the Python slice -/
/-- what a 1-based number / 0-based index argument denotes as a Python index (before wrap of negatives) -/
def convArg (k : Int) (asIdx : Bool) : Option Int :=
  if asIdx then some k else if k = 0 then none else some (if 0 < k then k - 1 else k)

/-- Python meaning of a negative index -/
def wrapIdx (k n : Int) : Int := if k < 0 then n + k else k

/-- the Python-slice meaning of a (start, end) request on an axis of length `n`; `none` = to be refused -/
def sliceSpec (st en : Option Int) (n : Int) (asIdx : Bool) : Option (Int × Int) :=
  let s? : Option Int := match st with
    | none => some 0
    | some k => (convArg k asIdx).map (wrapIdx · n)
  let e? : Option Int := match en with
    | none => some n
    | some k => (convArg k asIdx).map (wrapIdx · n)
  match s?, e? with
  | some s, some e => if 0 ≤ s ∧ s < e ∧ e ≤ n then some (s, e) else none
  | _, _ => none

theorem stdSlice_nn (n : Int) (ai : Bool) (r : Int × Int) :
    stdSliceIndices none none n ai = .ok r ↔ sliceSpec none none n ai = some r := by
  obtain ⟨s, e⟩ := r
  unfold stdSliceIndices sliceSpec
  grind (splits := 40)

theorem stdSlice_ns (en : Int) (n : Int) (ai : Bool) (r : Int × Int) :
    stdSliceIndices none (some en) n ai = .ok r ↔ sliceSpec none (some en) n ai = some r := by
  obtain ⟨s, e⟩ := r
  unfold stdSliceIndices sliceSpec convArg wrapIdx
  grind (splits := 60)

theorem stdSlice_sn (st : Int) (n : Int) (ai : Bool) (r : Int × Int) :
    stdSliceIndices (some st) none n ai = .ok r ↔ sliceSpec (some st) none n ai = some r := by
  obtain ⟨s, e⟩ := r
  unfold stdSliceIndices sliceSpec convArg wrapIdx
  grind (splits := 60)

theorem stdSlice_ss (st en : Int) (n : Int) (ai : Bool) (r : Int × Int) :
    stdSliceIndices (some st) (some en) n ai = .ok r ↔ sliceSpec (some st) (some en) n ai = some r := by
  obtain ⟨s, e⟩ := r
  unfold stdSliceIndices sliceSpec convArg wrapIdx
  grind (splits := 80)

theorem stdSlice_ok_iff (st en : Option Int) (n : Int) (ai : Bool) (r : Int × Int) :
    stdSliceIndices st en n ai = .ok r ↔ sliceSpec st en n ai = some r := by
  cases st <;> cases en
  · exact stdSlice_nn ..
  · exact stdSlice_ns ..
  · exact stdSlice_sn ..
  · exact stdSlice_ss ..

theorem sliceSpec_range {st en : Option Int} {n : Int} {ai : Bool} {s e : Int}
    (h : sliceSpec st en n ai = some (s, e)) : 0 ≤ s ∧ s < e ∧ e ≤ n := by
  unfold sliceSpec at h
  grind

theorem stdSlice_refuses (st en : Option Int) (n : Int) (ai : Bool) (h : sliceSpec st en n ai = none) :
    ∃ k, stdSliceIndices st en n ai = .error k := by
  cases hr : stdSliceIndices st en n ai with
  | error k => exact ⟨k, rfl⟩
  | ok r => rw [stdSlice_ok_iff] at hr; rw [h] at hr; cases hr

/-! ## vector algebra -/

theorem v3_ext {a b : V3} (hx : a.x = b.x) (hy : a.y = b.y) (hz : a.z = b.z) : a = b := by
  cases a; cases b; simp_all

/-- Gram identity: det² = det of the Gram matrix -/
theorem gram_identity (a b c : V3) :
    dot a (cross b c) * dot a (cross b c) =
      dot a a * dot b b * dot c c + 2 * dot a b * dot b c * dot a c
        - dot a a * (dot b c * dot b c) - dot b b * (dot a c * dot a c) - dot c c * (dot a b * dot a b) := by
  cases a; cases b; cases c; simp only [dot, cross]; ring

/-- Cramer / adjugate identity: det · w = (w·a)(b×c) + (w·b)(c×a) + (w·c)(a×b) -/
theorem cramer_identity (a b c w : V3) :
    smul (dot a (cross b c)) w =
      add (add (smul (dot w a) (cross b c)) (smul (dot w b) (cross c a))) (smul (dot w c) (cross a b)) := by
  cases a; cases b; cases c; cases w
  simp only [dot, cross, smul, add, V3.mk.injEq]
  refine ⟨by ring, by ring, by ring⟩

structure Orthonormal (a b c : V3) : Prop where
  aa : dot a a = 1
  bb : dot b b = 1
  cc : dot c c = 1
  ab : dot a b = 0
  ac : dot a c = 0
  bc : dot b c = 0

theorem det_sq_eq_one {a b c : V3} (h : Orthonormal a b c) : dot a (cross b c) * dot a (cross b c) = 1 := by
  rw [gram_identity, h.aa, h.bb, h.cc, h.ab, h.ac, h.bc]; ring

theorem det_eq_one_or {a b c : V3} (h : Orthonormal a b c) : dot a (cross b c) = 1 ∨ dot a (cross b c) = -1 := by
  have h2 := det_sq_eq_one h
  have : (dot a (cross b c) - 1) * (dot a (cross b c) + 1) = 0 := by linear_combination h2
  rcases mul_eq_zero.mp this with h1 | h1
  · left; linarith
  · right; linarith

theorem dot_cross_self_left (b c : V3) : dot (cross b c) b = 0 := by
  cases b; cases c; simp only [dot, cross]; ring
theorem dot_cross_self_right (b c : V3) : dot (cross b c) c = 0 := by
  cases b; cases c; simp only [dot, cross]; ring
theorem dot_comm (a b : V3) : dot a b = dot b a := by
  cases a; cases b; simp only [dot]; ring

/-- for orthonormal directions the in-plane normal is ± the stacking direction -/
theorem cross_orthonormal {a b c : V3} (h : Orthonormal a b c) : cross b c = smul (dot a (cross b c)) a := by
  set δ := dot a (cross b c) with hδ
  -- w = b×c − δ a is orthogonal to a, b, c
  let w : V3 := sub (cross b c) (smul δ a)
  have hwa : dot w a = 0 := by
    have : dot w a = dot (cross b c) a - δ * dot a a := by
      cases a; cases b; cases c; simp only [w, dot, cross, sub, smul]; ring
    rw [this, h.aa, dot_comm]; ring
  have hwb : dot w b = 0 := by
    have : dot w b = dot (cross b c) b - δ * dot a b := by
      cases a; cases b; cases c; simp only [w, dot, cross, sub, smul]; ring
    rw [this, h.ab, dot_cross_self_left]; ring
  have hwc : dot w c = 0 := by
    have : dot w c = dot (cross b c) c - δ * dot a c := by
      cases a; cases b; cases c; simp only [w, dot, cross, sub, smul]; ring
    rw [this, h.ac, dot_cross_self_right]; ring
  have hc := cramer_identity a b c w
  rw [hwa, hwb, hwc, ← hδ] at hc
  have hδ2 : δ * δ = 1 := det_sq_eq_one h
  have hδ0 : δ ≠ 0 := by intro h0; rw [h0] at hδ2; norm_num at hδ2
  -- δ w = 0 ⇒ w = 0
  have hw : w = ⟨0, 0, 0⟩ := by
    have e : smul δ w = ⟨0, 0, 0⟩ := by
      rw [hc]; simp only [smul, add]; norm_num
    cases hw' : w with
    | mk x y z =>
      rw [hw'] at e
      simp only [smul, V3.mk.injEq] at e
      obtain ⟨e1, e2, e3⟩ := e
      simp only [V3.mk.injEq]
      exact ⟨(mul_eq_zero.mp e1).resolve_left hδ0, (mul_eq_zero.mp e2).resolve_left hδ0,
        (mul_eq_zero.mp e3).resolve_left hδ0⟩
  have : sub (cross b c) (smul δ a) = ⟨0, 0, 0⟩ := hw
  cases hbc : cross b c with
  | mk x y z =>
    cases hsa : smul δ a with
    | mk x' y' z' =>
      rw [hbc, hsa] at this
      simp only [sub, V3.mk.injEq] at this
      obtain ⟨e1, e2, e3⟩ := this
      simp only [V3.mk.injEq]
      exact ⟨by linarith, by linarith, by linarith⟩

/-! ## folds -/
theorem rmin_le_left (a b : Rat) : rmin a b ≤ a := by unfold rmin; split <;> linarith
theorem rmin_le_right (a b : Rat) : rmin a b ≤ b := by unfold rmin; split <;> linarith
theorem rmin_eq (a b : Rat) : rmin a b = a ∨ rmin a b = b := by unfold rmin; split <;> simp
theorem rmax_ge_left (a b : Rat) : a ≤ rmax a b := by unfold rmax; split <;> linarith
theorem rmax_ge_right (a b : Rat) : b ≤ rmax a b := by unfold rmax; split <;> linarith
theorem rmax_eq (a b : Rat) : rmax a b = a ∨ rmax a b = b := by unfold rmax; split <;> simp
theorem imax_ge_left (a b : Int) : a ≤ imax a b := by unfold imax; split <;> omega
theorem imax_ge_right (a b : Int) : b ≤ imax a b := by unfold imax; split <;> omega
theorem imax_eq (a b : Int) : imax a b = a ∨ imax a b = b := by unfold imax; split <;> simp

theorem listMin_le (a : Rat) (l : List Rat) : ∀ x ∈ a :: l, listMin a l ≤ x := by
  induction l generalizing a with
  | nil => intro x hx; simp at hx; subst hx; simp [listMin]
  | cons b t ih =>
    intro x hx
    have e : listMin a (b :: t) = listMin (rmin a b) t := by simp [listMin]
    rw [e]
    simp only [List.mem_cons] at hx
    rcases hx with rfl | rfl | hx
    · exact le_trans (ih (rmin x b) (rmin x b) (by simp)) (rmin_le_left _ _)
    · exact le_trans (ih (rmin a x) (rmin a x) (by simp)) (rmin_le_right _ _)
    · exact ih _ _ (by simp [hx])

theorem listMin_mem (a : Rat) (l : List Rat) : listMin a l ∈ a :: l := by
  induction l generalizing a with
  | nil => simp [listMin]
  | cons b t ih =>
    have e : listMin a (b :: t) = listMin (rmin a b) t := by simp [listMin]
    rw [e]
    have := ih (rmin a b)
    simp only [List.mem_cons] at this ⊢
    rcases this with h | h
    · rcases rmin_eq a b with h' | h'
      · left; exact h.trans h'
      · right; left; exact h.trans h'
    · right; right; exact h

theorem listMax_ge (a : Rat) (l : List Rat) : ∀ x ∈ a :: l, x ≤ listMax a l := by
  induction l generalizing a with
  | nil => intro x hx; simp at hx; subst hx; simp [listMax]
  | cons b t ih =>
    intro x hx
    have e : listMax a (b :: t) = listMax (rmax a b) t := by simp [listMax]
    rw [e]
    simp only [List.mem_cons] at hx
    rcases hx with rfl | rfl | hx
    · exact le_trans (rmax_ge_left _ _) (ih (rmax x b) (rmax x b) (by simp))
    · exact le_trans (rmax_ge_right _ _) (ih (rmax a x) (rmax a x) (by simp))
    · exact ih _ _ (by simp [hx])

theorem listMax_mem (a : Rat) (l : List Rat) : listMax a l ∈ a :: l := by
  induction l generalizing a with
  | nil => simp [listMax]
  | cons b t ih =>
    have e : listMax a (b :: t) = listMax (rmax a b) t := by simp [listMax]
    rw [e]
    have := ih (rmax a b)
    simp only [List.mem_cons] at this ⊢
    rcases this with h | h
    · rcases rmax_eq a b with h' | h'
      · left; exact h.trans h'
      · right; left; exact h.trans h'
    · right; right; exact h

theorem listMaxInt_ge (a : Int) (l : List Int) : ∀ x ∈ a :: l, x ≤ listMaxInt a l := by
  induction l generalizing a with
  | nil => intro x hx; simp at hx; subst hx; simp [listMaxInt]
  | cons b t ih =>
    intro x hx
    have e : listMaxInt a (b :: t) = listMaxInt (imax a b) t := by simp [listMaxInt]
    rw [e]
    simp only [List.mem_cons] at hx
    rcases hx with rfl | rfl | hx
    · exact le_trans (imax_ge_left _ _) (ih (imax x b) (imax x b) (by simp))
    · exact le_trans (imax_ge_right _ _) (ih (imax a x) (imax a x) (by simp))
    · exact ih _ _ (by simp [hx])

theorem listMaxInt_mem (a : Int) (l : List Int) : listMaxInt a l ∈ a :: l := by
  induction l generalizing a with
  | nil => simp [listMaxInt]
  | cons b t ih =>
    have e : listMaxInt a (b :: t) = listMaxInt (imax a b) t := by simp [listMaxInt]
    rw [e]
    have := ih (imax a b)
    simp only [List.mem_cons] at this ⊢
    rcases this with h | h
    · rcases imax_eq a b with h' | h'
      · left; exact h.trans h'
      · right; left; exact h.trans h'
    · right; right; exact h

theorem rabs_of_pos {x : Rat} (h : 0 < x) : rabs x = x := by
  unfold rabs; split
  · linarith
  · rfl

theorem rabs_zero : rabs 0 = 0 := by unfold rabs; simp

theorem round_intCast (z : Int) : roundHalfEven (z : Rat) = z := by
  unfold roundHalfEven
  simp only [Rat.floor_intCast, sub_self]
  norm_num


/-! ## positions on a line -/

/-- positions on a line along the unit normal `n`: `base + (e·sp)·n` -/
def linePos (n base : V3) (sp : Rat) (e : Int) : V3 := add base (smul ((e : Rat) * sp) n)

theorem dot_linePos (n base : V3) (sp : Rat) (e : Int) (hn : dot n n = 1) :
    dot n (linePos n base sp e) = dot n base + (e : Rat) * sp := by
  cases n; cases base
  simp only [linePos, dot, add, smul] at *
  linear_combination ((e : Rat) * sp) * hn

theorem linePos_inj (n base : V3) (sp : Rat) (hsp : 0 < sp) (hn : dot n n = 1) (e e' : Int)
    (h : dot n (linePos n base sp e) = dot n (linePos n base sp e')) : e = e' := by
  rw [dot_linePos _ _ _ _ hn, dot_linePos _ _ _ _ hn] at h
  have : ((e : Rat) - e') * sp = 0 := by linarith
  rcases mul_eq_zero.mp this with h1 | h1
  · have : (e : Rat) = e' := by linarith
    exact_mod_cast this
  · linarith

theorem sub_linePos (n base : V3) (sp : Rat) (e e' : Int) :
    sub (linePos n base sp e) (linePos n base sp e') = smul (((e : Rat) - e') * sp) n := by
  cases n; cases base
  simp only [linePos, add, smul, sub, V3.mk.injEq]
  refine ⟨by ring, by ring, by ring⟩

theorem rabs_nonneg (x : Rat) : 0 ≤ rabs x := by unfold rabs; split <;> linarith

theorem isClose_self (z : Rat) : isClose z z tolSpacing = true := by
  unfold isClose tolSpacing
  simp only [sub_self, rabs_zero, decide_eq_true_eq]
  have := rabs_nonneg z
  positivity

theorem isPerp_line (n : V3) (c : Rat) (hn : dot n n = 1) (hc : c ≠ 0) : isPerp n (smul c n) = true := by
  have h1 : dot n (smul c n) = c := by
    cases n; simp only [dot, smul] at *; linear_combination c * hn
  have h2 : dot (smul c n) (smul c n) = c * c := by
    cases n; simp only [dot, smul] at *; linear_combination (c * c) * hn
  unfold isPerp
  simp only [h1, h2, tolPerp, Bool.and_eq_true, decide_eq_true_eq]
  have : 0 < c * c := mul_self_pos.mpr hc
  constructor <;> nlinarith


theorem lexMin_mem (a : V3) (l : List V3) : lexMin a l ∈ a :: l := by
  induction l generalizing a with
  | nil => simp [lexMin]
  | cons b t ih =>
    have e : lexMin a (b :: t) = lexMin (if lexLe a b then a else b) t := by simp [lexMin]
    rw [e]
    by_cases hc : lexLe a b = true
    · rw [if_pos hc]
      rcases List.mem_cons.mp (ih a) with h | h
      · rw [h]; simp
      · simp [h]
    · rw [if_neg hc]
      rcases List.mem_cons.mp (ih b) with h | h
      · rw [h]; simp
      · simp [h]

theorem lexMax_mem (a : V3) (l : List V3) : lexMax a l ∈ a :: l := by
  induction l generalizing a with
  | nil => simp [lexMax]
  | cons b t ih =>
    have e : lexMax a (b :: t) = lexMax (if lexLe a b then b else a) t := by simp [lexMax]
    rw [e]
    by_cases hc : lexLe a b = true
    · rw [if_pos hc]
      rcases List.mem_cons.mp (ih b) with h | h
      · rw [h]; simp
      · simp [h]
    · rw [if_neg hc]
      rcases List.mem_cons.mp (ih a) with h | h
      · rw [h]; simp
      · simp [h]

/-- positions `es.map P` whose distance along `n` determines the multiple: the extreme positions are `P emin`, `P emax`
whatever the order among equal positions -/
theorem extremes_of_inj (n : V3) (P : Int → V3) (hinj : ∀ e e', dot n (P e) = dot n (P e') → e = e') (es : List Int)
    (p0 : V3) (emin emax : Int) (hemin : emin ∈ es) (hemax : emax ∈ es)
    (h1 : listMin (dot n p0) ((es.map P).map (dot n)) = dot n (P emin))
    (h2 : listMax (dot n p0) ((es.map P).map (dot n)) = dot n (P emax)) :
    extremes (es.map P) n p0 = some (dot n (P emin), dot n (P emax), P emin, P emax) := by
  have hall : ∀ e ∈ es, ∀ p ∈ (es.map P).filter (fun p => dot n p == dot n (P e)), p = P e := by
    intro e _ p hp
    obtain ⟨hm, hd⟩ := List.mem_filter.mp hp
    obtain ⟨e', _, rfl⟩ := List.mem_map.mp hm
    simp only [beq_iff_eq] at hd
    rw [hinj e' e hd]
  have hne : ∀ e ∈ es, P e ∈ (es.map P).filter (fun p => dot n p == dot n (P e)) := by
    intro e he
    exact List.mem_filter.mpr ⟨List.mem_map.mpr ⟨e, he, rfl⟩, by simp⟩
  unfold extremes
  simp only [h1, h2]
  cases hf1 : (es.map P).filter (fun p => dot n p == dot n (P emin)) with
  | nil => have := hne emin hemin; rw [hf1] at this; cases this
  | cons a t =>
    cases hf2 : (es.map P).filter (fun p => dot n p == dot n (P emax)) with
    | nil => have := hne emax hemax; rw [hf2] at this; cases this
    | cons b u =>
      simp only
      have m1 := lexMin_mem a t
      rw [← hf1] at m1
      have m2 := lexMax_mem b u
      rw [← hf2] at m2
      rw [hall emin hemin _ m1, hall emax hemax _ m2]

theorem find_line (n base : V3) (sp : Rat) (hsp : 0 < sp) (hn : dot n n = 1) (es : List Int) (e : Int) (he : e ∈ es) :
    (es.map (linePos n base sp)).find? (fun p => dot n p == dot n base + (e : Rat) * sp) = some (linePos n base sp e) := by
  cases h : (es.map (linePos n base sp)).find? (fun p => dot n p == dot n base + (e : Rat) * sp) with
  | none =>
    rw [List.find?_eq_none] at h
    have := h (linePos n base sp e) (List.mem_map.mpr ⟨e, he, rfl⟩)
    simp [dot_linePos _ _ _ _ hn] at this
  | some p1 =>
    have hp := List.find?_some h
    have hm := List.mem_of_find?_eq_some h
    obtain ⟨e', _, rfl⟩ := List.mem_map.mp hm
    simp only [beq_iff_eq] at hp
    rw [← dot_linePos n base sp e hn] at hp
    rw [linePos_inj n base sp hsp hn e' e hp]

theorem extremes_line (n base : V3) (sp : Rat) (hsp : 0 < sp) (hn : dot n n = 1) (e0 : Int) (t : List Int) :
    ∃ emin ∈ e0 :: t, ∃ emax ∈ e0 :: t, (∀ e ∈ e0 :: t, emin ≤ e ∧ e ≤ emax) ∧
      extremes ((e0 :: t).map (linePos n base sp)) n (linePos n base sp e0) =
        some (dot n base + (emin : Rat) * sp, dot n base + (emax : Rat) * sp, linePos n base sp emin, linePos n base sp emax) := by
  set es := e0 :: t with hes
  set c := dot n base with hc
  have hds : (es.map (linePos n base sp)).map (dot n) = es.map (fun (e : Int) => c + (e : Rat) * sp) := by
    rw [List.map_map]; apply List.map_congr_left; intro e _; simp [dot_linePos _ _ _ _ hn, hc]
  have h0 : dot n (linePos n base sp e0) = c + (e0 : Rat) * sp := dot_linePos _ _ _ _ hn
  -- minimum
  have hmem := listMin_mem (c + (e0 : Rat) * sp) (es.map (fun (e : Int) => c + (e : Rat) * sp))
  have hmem' : listMin (c + (e0 : Rat) * sp) (es.map (fun (e : Int) => c + (e : Rat) * sp)) ∈ es.map (fun (e : Int) => c + (e : Rat) * sp) := by
    rcases List.mem_cons.mp hmem with h | h
    · rw [h]; exact List.mem_map.mpr ⟨e0, by simp [hes], rfl⟩
    · exact h
  obtain ⟨emin, hemin, hmin⟩ := List.mem_map.mp hmem'
  have hle := listMin_le (c + (e0 : Rat) * sp) (es.map (fun (e : Int) => c + (e : Rat) * sp))
  have hMmem := listMax_mem (c + (e0 : Rat) * sp) (es.map (fun (e : Int) => c + (e : Rat) * sp))
  have hMmem' : listMax (c + (e0 : Rat) * sp) (es.map (fun (e : Int) => c + (e : Rat) * sp)) ∈ es.map (fun (e : Int) => c + (e : Rat) * sp) := by
    rcases List.mem_cons.mp hMmem with h | h
    · rw [h]; exact List.mem_map.mpr ⟨e0, by simp [hes], rfl⟩
    · exact h
  obtain ⟨emax, hemax, hmax⟩ := List.mem_map.mp hMmem'
  have hge := listMax_ge (c + (e0 : Rat) * sp) (es.map (fun (e : Int) => c + (e : Rat) * sp))
  refine ⟨emin, hemin, emax, hemax, ?_, ?_⟩
  · intro e he
    have h1 := hle (c + (e : Rat) * sp) (List.mem_cons_of_mem _ (List.mem_map.mpr ⟨e, he, rfl⟩))
    have h2 := hge (c + (e : Rat) * sp) (List.mem_cons_of_mem _ (List.mem_map.mpr ⟨e, he, rfl⟩))
    rw [← hmin] at h1
    rw [← hmax] at h2
    constructor
    · have : (emin : Rat) ≤ e := by nlinarith
      exact_mod_cast this
    · have : (e : Rat) ≤ emax := by nlinarith
      exact_mod_cast this
  · have hd : ∀ e : Int, dot n (linePos n base sp e) = c + (e : Rat) * sp := fun e => dot_linePos _ _ _ _ hn
    have := extremes_of_inj n (linePos n base sp) (fun e e' h => linePos_inj n base sp hsp hn e e' h) es
      (linePos n base sp e0) emin emax hemin hemax (by rw [hds, h0, hd emin]; exact hmin.symm) (by rw [hds, h0, hd emax]; exact hmax.symm)
    rw [this, hd emin, hd emax]


theorem mem_dedup (a : V3) (l : List V3) : a ∈ dedup l ↔ a ∈ l := by
  induction l with
  | nil => simp [dedup]
  | cons b t ih =>
    simp only [dedup, List.mem_cons, List.mem_filter, ih, bne_iff_ne, ne_eq]
    constructor
    · rintro (h | ⟨h, _⟩)
      · exact Or.inl h
      · exact Or.inr h
    · rintro (h | h)
      · exact Or.inl h
      · by_cases hab : a = b
        · exact Or.inl hab
        · exact Or.inr ⟨h, hab⟩

theorem nodup_dedup (l : List V3) : (dedup l).Nodup := by
  induction l with
  | nil => simp [dedup]
  | cons b t ih =>
    simp only [dedup, List.nodup_cons, List.mem_filter, bne_iff_ne, ne_eq, not_true_eq_false, and_false,
      not_false_eq_true, true_and]
    exact ih.filter _

theorem allDistinct_iff_nodup {α : Type} [DecidableEq α] (l : List α) : allDistinct l = true ↔ l.Nodup := by
  induction l with
  | nil => simp [allDistinct]
  | cons a t ih =>
    simp only [allDistinct, Bool.and_eq_true, Bool.not_eq_true', List.nodup_cons, ih]
    constructor
    · rintro ⟨h1, h2⟩
      exact ⟨by simpa using h1, h2⟩
    · rintro ⟨h1, h2⟩
      exact ⟨by simpa using h1, h2⟩

/-- distinct positions `P e` whose rounded multiple is `e − emin` get pairwise different multiples (the test
`len(np.unique(inverse_sort_index)) < len(inverse_sort_index)` of the gaps-allowed branch passes) -/
theorem dedup_round_distinct (n : V3) (P : Int → V3) (es : List Int) (dmin sp : Rat) (emin : Int)
    (hr : ∀ e ∈ es, roundHalfEven ((dot n (P e) - dmin) / sp) = e - emin) :
    allDistinct (((dedup (es.map P)).map (dot n)).map (fun d => roundHalfEven ((d - dmin) / sp))) = true := by
  rw [allDistinct_iff_nodup, List.map_map]
  apply List.Nodup.map_on _ (nodup_dedup _)
  intro p hp q hq hpq
  obtain ⟨e, he, rfl⟩ := List.mem_map.mp ((mem_dedup p _).mp hp)
  obtain ⟨e', he', rfl⟩ := List.mem_map.mp ((mem_dedup q _).mp hq)
  simp only [Function.comp] at hpq
  rw [hr e he, hr e' he'] at hpq
  have : e = e' := by omega
  rw [this]

theorem regularMissing_line (c sp : Rat) (hsp : 0 < sp) (es : List Int) (emin : Int) (du : List Rat)
    (hdist : allDistinct (du.map (fun d => roundHalfEven ((d - (c + (emin : Rat) * sp)) / sp))) = true) :
    regularMissing (es.map (fun (e : Int) => c + (e : Rat) * sp)) du (c + (emin : Rat) * sp) (some sp) true
      = some (sp, es.map (fun e => e - emin)) := by
  have hne : sp ≠ 0 := ne_of_gt hsp
  have hmult : (es.map (fun (e : Int) => c + (e : Rat) * sp)).map (fun d => (d - (c + (emin : Rat) * sp)) / sp)
      = es.map (fun (e : Int) => (((e - emin : Int)) : Rat)) := by
    rw [List.map_map]; apply List.map_congr_left; intro e _
    simp only [Function.comp]
    push_cast
    field_simp
    ring
  unfold regularMissing
  simp only [hmult, beq_iff_eq, hne, ↓reduceIte, Bool.and_true, hdist]
  have hall : (es.map (fun (e : Int) => (((e - emin : Int)) : Rat))).all nearWhole = true := by
    rw [List.all_eq_true]; intro m hm
    obtain ⟨e, _, rfl⟩ := List.mem_map.mp hm
    unfold nearWhole
    rw [round_intCast, sub_self]
    simp [rabs, tolSpacing]
  rw [hall]
  simp only [↓reduceIte, rabs_of_pos hsp, List.map_map]
  congr 2
  apply List.map_congr_left; intro e _
  simp only [Function.comp, round_intCast]


theorem normHint_pos {sp : Rat} (hsp : 0 < sp) : normHint (some sp) = .ok (some sp) := by
  unfold normHint
  have : (sp == 0) = false := by simpa using ne_of_gt hsp
  simp [this, rabs_of_pos hsp]

theorem volumePositions_cons2 (a b : V3) (l : List V3) (rowCos colCos : V3) (h : Rat) (hh : 0 < h) (am : Bool) :
    volumePositions (a :: b :: l) rowCos colCos (some h) am
      = volumePositionsMany (a :: b :: l) a rowCos colCos (some h) am true := by
  unfold volumePositions; rw [normHint_pos hh]

/-- **Positions on a line read back at their own multiples**: frames whose positions are
`base + (e·sp)·n` (any integers `e`, any order, repetitions allowed) with the recorded spacing `sp` get the
volume positions `e − min e`. -/
theorem volumePositions_line (rowCos colCos base : V3) (sp : Rat) (hsp : 0 < sp)
    (hn : dot (normal rowCos colCos) (normal rowCos colCos) = 1) (es : List Int) (hes : es ≠ []) :
    ∃ emin ∈ es, (∀ e ∈ es, emin ≤ e) ∧
      volumePositions (es.map (linePos (normal rowCos colCos) base sp)) rowCos colCos (some sp) true
        = .ok (some (sp, es.map (fun e => e - emin))) := by
  set n := normal rowCos colCos with hnd
  match es, hes with
  | [e], _ =>
    refine ⟨e, by simp, by simp, ?_⟩
    unfold volumePositions
    rw [normHint_pos hsp]
    simp [defaultSpacing]
  | e0 :: e1 :: t, _ =>
    have key : volumePositions ((e0 :: e1 :: t).map (linePos n base sp)) rowCos colCos (some sp) true
        = volumePositionsMany ((e0 :: e1 :: t).map (linePos n base sp)) (linePos n base sp e0) rowCos colCos (some sp) true true := by
      rw [List.map_cons, List.map_cons, volumePositions_cons2 _ _ _ _ _ _ hsp]
    rw [key]
    unfold volumePositionsMany
    simp only [Bool.not_true, Bool.false_and, Bool.false_eq_true, if_false]
    by_cases hall : ((e0 :: e1 :: t).map (linePos n base sp)).all (fun p => p == linePos n base sp e0) = true
    · rw [if_pos hall]
      have heq : ∀ e ∈ e0 :: e1 :: t, e = e0 := by
        intro e he
        rw [List.all_eq_true] at hall
        have := hall (linePos n base sp e) (List.mem_map.mpr ⟨e, he, rfl⟩)
        simp only [beq_iff_eq] at this
        exact linePos_inj n base sp hsp hn e e0 (by rw [this])
      refine ⟨e0, by simp, fun e he => le_of_eq (heq e he).symm, ?_⟩
      have hz : ((e0 :: e1 :: t).map (linePos n base sp)).map (fun _ => (0 : Int)) = (e0 :: e1 :: t).map (fun e => e - e0) := by
        rw [List.map_map]
        apply List.map_congr_left
        intro e he
        simp [heq e he]
      rw [hz]
      simp only [defaultSpacing]
    · rw [if_neg hall]
      obtain ⟨emin, hemin, emax, hemax, hbound, hext⟩ := extremes_line n base sp hsp hn e0 (e1 :: t)
      refine ⟨emin, hemin, fun e he => (hbound e he).1, ?_⟩
      simp only [← hnd, hext]
      have hds : ((e0 :: e1 :: t).map (linePos n base sp)).map (dot n)
          = (e0 :: e1 :: t).map (fun (e : Int) => dot n base + (e : Rat) * sp) := by
        rw [List.map_map]; apply List.map_congr_left; intro e _; simp [dot_linePos _ _ _ _ hn]
      have hne : emax ≠ emin := by
        intro h
        apply hall
        rw [List.all_eq_true]
        intro p hp
        obtain ⟨e, he, rfl⟩ := List.mem_map.mp hp
        have h1 := hbound e he
        have h2 := hbound e0 (by simp)
        have : e = e0 := by omega
        simp [this]
      have hperp : isPerp n (sub (linePos n base sp emax) (linePos n base sp emin)) = true := by
        rw [sub_linePos]
        apply isPerp_line n _ hn
        have : ((emax : Rat) - emin) ≠ 0 := by
          intro h0
          apply hne
          have : (emax : Rat) = emin := by linarith
          exact_mod_cast this
        exact mul_ne_zero this (ne_of_gt hsp)
      rw [hperp, hds]
      simp only [↓reduceIte]
      rw [regularMissing_line _ _ hsp]
      apply dedup_round_distinct n (linePos n base sp) (e0 :: e1 :: t) _ sp emin
      intro e _
      rw [dot_linePos _ _ _ _ hn]
      have : (dot n base + (e : Rat) * sp - (dot n base + (emin : Rat) * sp)) / sp = (((e - emin : Int)) : Rat) := by
        push_cast
        field_simp
        ring
      rw [this, round_intCast]


/-! ## slicing, stack recognition and sub-volumes for frames on a line -/

/-! ### the translated slicing / stacking expressions say what the model assumed (tie T: these are the
statements that stop holding when the source changes) -/

theorem stackInitialSlices_eq (m : Int) : stackInitialSlices m = .ok (m + 1) := rfl
theorem stackGeomSlice_eq (s e : Int) : stackGeomSlice s e = .ok (s, e) := rfl
theorem stackGeomSliceOf_eq (k : Kind) (a b c d : Int) : stackGeomSliceOf k a b c d = .ok (a, b, c, d) := by
  cases k <;> rfl
theorem stackArraySliceOf_eq (k : Kind) (a b c d : Int) : stackArraySliceOf k a b c d = .ok (a, b, c, d) := by
  cases k <;> rfl
theorem tiledGeomLowerOf_eq (k : Kind) (a b c d : Int) : tiledGeomLowerOf k a b c d = .ok (a, c) := by
  cases k <;> rfl

/-- the translated loop body keeps the frames of slots `s..e-1` and moves them down by `s` -/
theorem framePositions_eq (vps : List Int) (s e : Int) :
    framePositions vps s e
      = (vps.zipIdx).filterMap (fun (p : Int × Nat) => if s ≤ p.1 && p.1 < e then some (p.2, p.1 - s) else none) := by
  unfold framePositions
  congr 1
  funext p
  obtain ⟨vp, i⟩ := p
  simp only [stackFrameSlot, ge_iff_le]
  by_cases h : (decide (s ≤ vp) && decide (vp < e)) = true
  · simp [h]
  · have : (decide (s ≤ vp) && decide (vp < e)) = false := by simpa using h
    simp [this]

theorem npFirst_inrange (a n : Int) (h0 : 0 ≤ a) (h1 : a ≤ n) : npFirst a n = a := by
  unfold npFirst imin imax; grind
theorem npLen_inrange (a b n : Int) (h0 : 0 ≤ a) (h1 : a ≤ b) (h2 : b ≤ n) : npLen a b n = b - a := by
  unfold npLen npFirst imin imax; grind

theorem getitemAxis_inrange (s e n : Int) (h0 : 0 ≤ s) (h1 : s < e) (h2 : e ≤ n) :
    getitemAxis (some s) (some e) n = .ok (s, e - s) := by
  unfold getitemAxis imax imin
  grind

theorem getitemAxis_from (s n : Int) (h0 : 0 ≤ s) (h1 : s < n) :
    getitemAxis (some s) none n = .ok (s, n - s) := by
  unfold getitemAxis imax imin
  grind

theorem getitemAxis_empty (a b n : Int) (h0 : 0 ≤ a) (h1 : a < n) (h2 : 0 ≤ b) (h3 : b ≤ n) (h : b ≤ a) :
    getitemAxis (some a) (some b) n = .error .index := by
  unfold getitemAxis imax imin
  grind

theorem indexOf?_mem (v : Int) (l : List Int) (h : v ∈ l) : ∃ i, indexOf? v l = some i ∧ l[i]? = some v := by
  induction l with
  | nil => simp at h
  | cons a t ih =>
    unfold indexOf?
    by_cases ha : a = v
    · exact ⟨0, by simp [ha], by simp [ha]⟩
    · have : v ∈ t := by
        rcases List.mem_cons.mp h with h' | h'
        · exact absurd h'.symm ha
        · exact h'
      obtain ⟨i, hi, hl⟩ := ih this
      refine ⟨i + 1, ?_, by simpa using hl⟩
      have : (a == v) = false := by simpa using ha
      simp [this, hi]

theorem aff_shift_zero (a : Aff) : a.shift 0 0 0 = a := by
  cases a with
  | mk c0 c1 c2 t =>
    cases c0; cases c1; cases c2; cases t
    simp [Aff.shift, Aff.apply, add, smul]

theorem aff_shift_apply (a : Aff) (i j k i' j' k' : Int) :
    (a.shift i j k).apply i' j' k' = a.apply (i + i') (j + j') (k + k') := by
  cases a with
  | mk c0 c1 c2 t =>
    cases c0; cases c1; cases c2; cases t
    simp only [Aff.shift, Aff.apply, add, smul, V3.mk.injEq]
    push_cast
    refine ⟨by ring, by ring, by ring⟩

theorem aff_shift_shift (a : Aff) (i j k i' j' k' : Int) :
    (a.shift i j k).shift i' j' k' = a.shift (i + i') (j + j') (k + k') := by
  have h := aff_shift_apply a i j k i' j' k'
  cases a with
  | mk c0 c1 c2 t =>
    simp only [Aff.shift] at h ⊢
    rw [h]

/-- maximum of the volume positions `e − emin` -/
theorem listMaxInt_offsets (es : List Int) (emin : Int) (hemin : emin ∈ es) (hmin : ∀ e ∈ es, emin ≤ e) :
    ∃ emax ∈ es, (∀ e ∈ es, e ≤ emax) ∧ listMaxInt 0 (es.map (fun e => e - emin)) = emax - emin := by
  have hmem := listMaxInt_mem 0 (es.map (fun e => e - emin))
  have hge := listMaxInt_ge 0 (es.map (fun e => e - emin))
  rcases List.mem_cons.mp hmem with h | h
  · refine ⟨emin, hemin, ?_, by rw [h]; ring⟩
    intro e he
    have := hge (e - emin) (List.mem_cons_of_mem _ (List.mem_map.mpr ⟨e, he, rfl⟩))
    rw [h] at this
    have := hmin e he
    omega
  · obtain ⟨emax, hemax, hx⟩ := List.mem_map.mp h
    refine ⟨emax, hemax, ?_, hx.symm⟩
    intro e he
    have := hge (e - emin) (List.mem_cons_of_mem _ (List.mem_map.mpr ⟨e, he, rfl⟩))
    rw [← hx] at this
    omega


theorem fromAttributes_ok (origin rowCos colCos : V3) (psRow psCol sp : Rat) (h1 : 0 < psRow) (h2 : 0 < psCol)
    (horth : dot colCos rowCos = 0) :
    fromAttributes origin rowCos colCos psRow psCol sp
      = .ok ⟨smul sp (normal rowCos colCos), smul psRow colCos, smul psCol rowCos, origin⟩ := by
  unfold fromAttributes
  have hb : (decide (psRow ≤ 0) || decide (psCol ≤ 0)) = false := by
    simp only [Bool.or_eq_false_iff, decide_eq_false_iff_not, not_le]; exact ⟨h1, h2⟩
  rw [if_neg (by simp [hb])]
  have e1 : dot (smul sp (normal rowCos colCos)) (smul psRow colCos) = 0 := by
    have := dot_cross_self_left colCos rowCos
    cases rowCos; cases colCos
    simp only [normal, dot, cross, smul] at *
    linear_combination (sp * psRow) * this
  have e2 : dot (smul sp (normal rowCos colCos)) (smul psCol rowCos) = 0 := by
    have := dot_cross_self_right colCos rowCos
    cases rowCos; cases colCos
    simp only [normal, dot, cross, smul] at *
    linear_combination (sp * psCol) * this
  have e3 : dot (smul psRow colCos) (smul psCol rowCos) = 0 := by
    cases rowCos; cases colCos
    simp only [dot, smul] at *
    linear_combination (psRow * psCol) * horth
  have : orthogonalCols ⟨smul sp (normal rowCos colCos), smul psRow colCos, smul psCol rowCos, origin⟩ = true := by
    unfold orthogonalCols
    simp only [e1, e2, e3, rabs_zero, tolEq]
    norm_num
  rw [if_pos this]

/-- hypotheses on the stored orientation / measures of a stack -/
structure StackOK (st : Stack) : Prop where
  unitN : dot (normal st.rowCos st.colCos) (normal st.rowCos st.colCos) = 1
  orth : dot st.colCos st.rowCos = 0
  psRow : 0 < st.psRow
  psCol : 0 < st.psCol

/-- the affine read back for frames at positions `P e` with returned spacing `sp`, before any slicing -/
def lineAffP (st : Stack) (P : Int → V3) (sp : Rat) (emin : Int) : Aff :=
  ⟨smul sp (normal st.rowCos st.colCos), smul st.psRow st.colCos, smul st.psCol st.rowCos, P emin⟩

/-- … for frames exactly on a line -/
def lineAff (st : Stack) (base : V3) (sp : Rat) (emin : Int) : Aff :=
  lineAffP st (linePos (normal st.rowCos st.colCos) base sp) sp emin

/-- **Stack recognition for frames on a line** with any accepted slice request. -/
theorem stackedGeometry_line_gen (am : Bool) (st : Stack) (hst : StackOK st) (P : Int → V3) (sp : Rat)
    (es : List Int) (hes : es ≠ []) (hpos : st.pos = es.map P)
    (hvp : ∃ emin ∈ es, (∀ e ∈ es, emin ≤ e) ∧
      volumePositions (es.map P) st.rowCos st.colCos st.hint am
        = .ok (some (sp, es.map (fun e => e - emin))))
    (rows cols : Int) :
    ∃ emin ∈ es, ∃ emax ∈ es, (∀ e ∈ es, emin ≤ e ∧ e ≤ emax) ∧
      (∀ (ss se : Option Int) (asIdx : Bool) (s e : Int), sliceSpec ss se (emax - emin + 1) asIdx = some (s, e) →
        stackedGeometry st rows cols am ss se asIdx
          = .ok { aff := (lineAffP st P sp emin).shift s 0 0, n := e - s, rows := rows, cols := cols,
                  frames := framePositions (es.map (fun x => x - emin)) s e }) ∧
      (∀ (ss se : Option Int) (asIdx : Bool), sliceSpec ss se (emax - emin + 1) asIdx = none →
        ∃ k, stackedGeometry st rows cols am ss se asIdx = .error k) := by
  obtain ⟨emin, hemin, hmin, hvp⟩ := hvp
  obtain ⟨emax, hemax, hmax, hM⟩ := listMaxInt_offsets es emin hemin hmin
  refine ⟨emin, hemin, emax, hemax, fun e he => ⟨hmin e he, hmax e he⟩, ?_, ?_⟩
  rotate_left
  · intro ss se asIdx hreq
    obtain ⟨k, hk⟩ := stdSlice_refuses ss se (emax - emin + 1) asIdx hreq
    unfold stackedGeometry
    rw [hpos, hvp]
    simp only [hM, stackInitialSlices_eq]
    rw [hk]
    exact ⟨k, rfl⟩
  intro ss se asIdx s e hreq
  have hrange := sliceSpec_range hreq
  unfold stackedGeometry
  rw [hpos, hvp]
  simp only [hM, stackInitialSlices_eq]
  rw [(stdSlice_ok_iff ss se (emax - emin + 1) asIdx (s, e)).mpr hreq]
  simp only
  obtain ⟨oi, hoi, hget⟩ := indexOf?_mem 0 (es.map (fun x => x - emin)) (List.mem_map.mpr ⟨emin, hemin, by ring⟩)
  rw [hoi]
  simp only
  have hpo : (es.map P)[oi]? = some (P emin) := by
    rw [List.getElem?_map] at hget ⊢
    cases hx : es[oi]? with
    | none => rw [hx] at hget; simp at hget
    | some x =>
      rw [hx] at hget
      simp only [Option.map_some, Option.some.injEq] at hget ⊢
      have : x = emin := by omega
      rw [this]
  rw [hpo]
  simp only
  rw [fromAttributes_ok _ _ _ _ _ _ hst.psRow hst.psCol hst.orth]
  simp only [stackGeomSlice_eq]
  rw [getitemAxis_inrange s e _ hrange.1 hrange.2.1 hrange.2.2]
  rfl


/-- `allow_missing_positions=True` (segmentations) with the recorded spacing as hint -/
theorem stackedGeometry_line (st : Stack) (hst : StackOK st) (base : V3) (sp : Rat) (hsp : 0 < sp)
    (es : List Int) (hes : es ≠ []) (hpos : st.pos = es.map (linePos (normal st.rowCos st.colCos) base sp))
    (hhint : st.hint = some sp) (rows cols : Int) :
    ∃ emin ∈ es, ∃ emax ∈ es, (∀ e ∈ es, emin ≤ e ∧ e ≤ emax) ∧
      (∀ (ss se : Option Int) (asIdx : Bool) (s e : Int), sliceSpec ss se (emax - emin + 1) asIdx = some (s, e) →
        stackedGeometry st rows cols true ss se asIdx
          = .ok { aff := (lineAff st base sp emin).shift s 0 0, n := e - s, rows := rows, cols := cols,
                  frames := framePositions (es.map (fun x => x - emin)) s e }) ∧
      (∀ (ss se : Option Int) (asIdx : Bool), sliceSpec ss se (emax - emin + 1) asIdx = none →
        ∃ k, stackedGeometry st rows cols true ss se asIdx = .error k) :=
  stackedGeometry_line_gen true st hst (linePos (normal st.rowCos st.colCos) base sp) sp es hes hpos
    (by rw [hhint]; exact volumePositions_line st.rowCos st.colCos base sp hsp hst.unitN es hes) rows cols

/-- C04's per-argument specification of T3 and the Python-slice specification say the same for non-empty regions -/
theorem rowSpec_iff (rs re : Option Int) (n : Int) (ai : Bool) (a b : Int) :
    (normStart rs n ai = some (a + 1) ∧ normEnd re n ai = some (b + 1) ∧ a < b) ↔ sliceSpec rs re n ai = some (a, b) := by
  cases rs <;> cases re <;> (unfold normStart normEnd sliceSpec convArg wrapIdx; grind (splits := 80))

/-- T3 with index outputs against the Python-slice specification (non-empty regions) -/
theorem stdRowCol_idx_spec (rs re cs ce : Option Int) (rows cols : Int) (ai : Bool) (a b c d : Int) :
    (stdRowColIndices rs re cs ce rows cols ai true = .ok (a, b, c, d) ∧ a < b ∧ c < d) ↔
      (sliceSpec rs re rows ai = some (a, b) ∧ sliceSpec cs ce cols ai = some (c, d)) := by
  rw [stdRowCol_ok_iff, ← rowSpec_iff, ← rowSpec_iff]
  have e1 : outShift true = 1 := rfl
  rw [e1]
  tauto


/-- **Sub-volume of a stack on a line**: an accepted request returns the block it means, with the affine
translated to the position of the block's first voxel. -/
theorem getVolumeStack_line_gen (am : Bool) (k : Kind) (st : Stack) (hst : StackOK st) (P : Int → V3) (sp : Rat)
    (es : List Int) (hes : es ≠ []) (hpos : st.pos = es.map P)
    (hvp : ∃ emin ∈ es, (∀ e ∈ es, emin ≤ e) ∧
      volumePositions (es.map P) st.rowCos st.colCos st.hint am
        = .ok (some (sp, es.map (fun e => e - emin))))
    (hu : framesUnique k st = true) (rows cols : Int) :
    ∃ emin ∈ es, ∃ emax ∈ es, (∀ e ∈ es, emin ≤ e ∧ e ≤ emax) ∧
      (∀ (rq : Request) (s0 e0 s1 e1 s2 e2 : Int),
        sliceSpec rq.sliceStart rq.sliceEnd (emax - emin + 1) rq.asIdx = some (s0, e0) →
        sliceSpec rq.rowStart rq.rowEnd rows rq.asIdx = some (s1, e1) →
        sliceSpec rq.colStart rq.colEnd cols rq.asIdx = some (s2, e2) →
        getVolumeStack k st rows cols am rq
          = .ok { aff := (lineAffP st P sp emin).shift s0 s1 s2, n := e0 - s0, rows := e1 - s1, cols := e2 - s2,
                  frames := framePositions (es.map (fun x => x - emin)) s0 e0, rowFirst := s1, colFirst := s2 }) ∧
      (∀ (rq : Request),
        (sliceSpec rq.sliceStart rq.sliceEnd (emax - emin + 1) rq.asIdx = none ∨
         sliceSpec rq.rowStart rq.rowEnd rows rq.asIdx = none ∨
         sliceSpec rq.colStart rq.colEnd cols rq.asIdx = none) →
        ∃ kk, getVolumeStack k st rows cols am rq = .error kk) := by
  obtain ⟨emin, hemin, emax, hemax, hb, hsg, hsgr⟩ :=
    stackedGeometry_line_gen am st hst P sp es hes hpos hvp rows cols
  refine ⟨emin, hemin, emax, hemax, hb, ?_, ?_⟩
  rotate_left
  · intro rq hbad
    unfold getVolumeStack
    cases hT3 : stdRowColIndices rq.rowStart rq.rowEnd rq.colStart rq.colEnd rows cols rq.asIdx true with
    | error k => exact ⟨k, rfl⟩
    | ok r =>
      obtain ⟨a, b, c, d⟩ := r
      simp only [hu, Bool.not_true, Bool.false_eq_true, if_false]
      have hr := stdRowCol_range_idx hT3
      obtain ⟨n1, n2, n3, n4⟩ := (stdRowCol_ok_iff _ _ _ _ _ _ _ _ a b c d).mp hT3
      have e1 : outShift true = 1 := rfl
      rw [e1] at n1 n2 n3 n4
      cases hsgv : stackedGeometry st rows cols am rq.sliceStart rq.sliceEnd rq.asIdx with
      | error k => exact ⟨k, rfl⟩
      | ok sg =>
        simp only [stackArraySliceOf_eq, stackGeomSliceOf_eq]
        rcases hbad with hb0 | hb1 | hb2
        · obtain ⟨k', hk⟩ := hsgr _ _ _ hb0
          rw [hk] at hsgv; cases hsgv
        · have hab : b ≤ a := by
            by_contra hlt
            have := (rowSpec_iff rq.rowStart rq.rowEnd rows rq.asIdx a b).mp ⟨n1, n2, by omega⟩
            rw [hb1] at this; cases this
          rw [getitemAxis_empty a b rows hr.1 hr.2.1 hr.2.2.1 hr.2.2.2.1 hab]
          exact ⟨_, rfl⟩
        · have hcd : d ≤ c := by
            by_contra hlt
            have := (rowSpec_iff rq.colStart rq.colEnd cols rq.asIdx c d).mp ⟨n3, n4, by omega⟩
            rw [hb2] at this; cases this
          rw [getitemAxis_empty c d cols hr.2.2.2.2.1 hr.2.2.2.2.2.1 hr.2.2.2.2.2.2.1 hr.2.2.2.2.2.2.2 hcd]
          cases getitemAxis (some a) (some b) rows with
          | error k => exact ⟨k, rfl⟩
          | ok v => exact ⟨_, rfl⟩
  intro rq s0 e0 s1 e1 s2 e2 h0 h1 h2
  have hrc := (stdRowCol_idx_spec rq.rowStart rq.rowEnd rq.colStart rq.colEnd rows cols rq.asIdx s1 e1 s2 e2).mpr ⟨h1, h2⟩
  have r1 := sliceSpec_range h1
  have r2 := sliceSpec_range h2
  unfold getVolumeStack
  rw [hrc.1]
  simp only [hu, Bool.not_true, Bool.false_eq_true, if_false]
  rw [hsg rq.sliceStart rq.sliceEnd rq.asIdx s0 e0 h0]
  simp only [stackArraySliceOf_eq, stackGeomSliceOf_eq]
  rw [getitemAxis_inrange s1 e1 rows r1.1 r1.2.1 r1.2.2, getitemAxis_inrange s2 e2 cols r2.1 r2.2.1 r2.2.2]
  simp only [aff_shift_shift, npLen_inrange s1 e1 rows r1.1 (le_of_lt r1.2.1) r1.2.2,
    npLen_inrange s2 e2 cols r2.1 (le_of_lt r2.2.1) r2.2.2, npFirst_inrange s1 rows r1.1 (by omega),
    npFirst_inrange s2 cols r2.1 (by omega)]
  simp



/-- `allow_missing_positions=True` (segmentations) with the recorded spacing as hint -/
theorem getVolumeStack_line (k : Kind) (st : Stack) (hst : StackOK st) (base : V3) (sp : Rat) (hsp : 0 < sp)
    (es : List Int) (hes : es ≠ []) (hpos : st.pos = es.map (linePos (normal st.rowCos st.colCos) base sp))
    (hhint : st.hint = some sp) (hu : framesUnique k st = true) (rows cols : Int) :
    ∃ emin ∈ es, ∃ emax ∈ es, (∀ e ∈ es, emin ≤ e ∧ e ≤ emax) ∧
      (∀ (rq : Request) (s0 e0 s1 e1 s2 e2 : Int),
        sliceSpec rq.sliceStart rq.sliceEnd (emax - emin + 1) rq.asIdx = some (s0, e0) →
        sliceSpec rq.rowStart rq.rowEnd rows rq.asIdx = some (s1, e1) →
        sliceSpec rq.colStart rq.colEnd cols rq.asIdx = some (s2, e2) →
        getVolumeStack k st rows cols true rq
          = .ok { aff := (lineAff st base sp emin).shift s0 s1 s2, n := e0 - s0, rows := e1 - s1, cols := e2 - s2,
                  frames := framePositions (es.map (fun x => x - emin)) s0 e0, rowFirst := s1, colFirst := s2 }) ∧
      (∀ (rq : Request),
        (sliceSpec rq.sliceStart rq.sliceEnd (emax - emin + 1) rq.asIdx = none ∨
         sliceSpec rq.rowStart rq.rowEnd rows rq.asIdx = none ∨
         sliceSpec rq.colStart rq.colEnd cols rq.asIdx = none) →
        ∃ kk, getVolumeStack k st rows cols true rq = .error kk) :=
  getVolumeStack_line_gen true k st hst (linePos (normal st.rowCos st.colCos) base sp) sp es hes hpos
    (by rw [hhint]; exact volumePositions_line st.rowCos st.colCos base sp hsp hst.unitN es hes) hu rows cols

/-! ## volume → stored stack → volume -/

/-- admissible volume geometry: orthonormal directions, positive spacings -/
structure Admissible (g : Geom) : Prop where
  on : Orthonormal g.d0 g.d1 g.d2
  s0 : 0 < g.s0
  s1 : 0 < g.s1
  s2 : 0 < g.s2

/-- handedness as an integer: +1 / −1 -/
def handInt (g : Geom) : Int := if g.det = 1 then 1 else -1

theorem handInt_cast {g : Geom} (hg : Admissible g) : ((handInt g : Int) : Rat) = g.det := by
  unfold handInt
  rcases det_eq_one_or hg.on with h | h
  · have : g.det = 1 := h
    rw [if_pos this, this]; norm_num
  · have : g.det = -1 := h
    have hne : ¬ (g.det = 1) := by rw [this]; norm_num
    rw [if_neg hne, this]; norm_num

theorem handInt_sq (g : Geom) : handInt g * handInt g = 1 := by
  unfold handInt; split <;> simp

theorem normal_store {g : Geom} (hg : Admissible g) : normal g.d2 g.d1 = smul g.det g.d0 := by
  unfold normal Geom.det
  exact cross_orthonormal hg.on

theorem det_sq {g : Geom} (hg : Admissible g) : g.det * g.det = 1 := det_sq_eq_one hg.on

theorem planePosition_line {g : Geom} (hg : Admissible g) (k : Nat) :
    planePosition g k = linePos (normal g.d2 g.d1) g.p g.s0 (handInt g * (k : Int)) := by
  rw [normal_store hg]
  have h2 := det_sq hg
  have hc := handInt_cast hg
  unfold planePosition linePos Geom.aff Aff.apply
  push_cast
  rw [hc]
  generalize g.det = δ at *
  generalize g.s0 = s at *
  obtain ⟨dx, dy, dz⟩ := g.d0
  obtain ⟨px, py, pz⟩ := g.p
  simp only [add, smul, V3.mk.injEq, zero_mul, add_zero]
  refine ⟨?_, ?_, ?_⟩
  · linear_combination (-((k : Rat) * s * dx)) * h2
  · linear_combination (-((k : Rat) * s * dy)) * h2
  · linear_combination (-((k : Rat) * s * dz)) * h2


theorem stackOK_store {g : Geom} (hg : Admissible g) (ks : List Nat) : StackOK (storeStack g ks) := by
  refine ⟨?_, ?_, hg.s1, hg.s2⟩
  · show dot (normal g.d2 g.d1) (normal g.d2 g.d1) = 1
    rw [normal_store hg]
    have h2 := det_sq hg
    have h0 := hg.on.aa
    generalize g.det = δ at *
    generalize g.d0 = d at *
    obtain ⟨dx, dy, dz⟩ := d
    simp only [dot, smul] at *
    linear_combination (dx * dx + dy * dy + dz * dz) * h2 + h0
  · show dot g.d1 g.d2 = 0
    exact hg.on.bc

theorem lineAff_apply (st : Stack) (base : V3) (sp : Rat) (emin v r c : Int) :
    (lineAff st base sp emin).apply v r c =
      add (add (linePos (normal st.rowCos st.colCos) base sp (emin + v)) (smul ((r : Rat) * st.psRow) st.colCos))
        (smul ((c : Rat) * st.psCol) st.rowCos) := by
  unfold lineAff lineAffP Aff.apply linePos
  generalize normal st.rowCos st.colCos = n
  obtain ⟨nx, ny, nz⟩ := n
  obtain ⟨bx, b_y, bz⟩ := base
  obtain ⟨cx, cy, cz⟩ := st.colCos
  obtain ⟨rx, ry, rz⟩ := st.rowCos
  simp only [add, smul, V3.mk.injEq]
  push_cast
  refine ⟨by ring, by ring, by ring⟩

theorem geom_apply_nat (g : Geom) (k : Nat) (r c : Int) :
    g.aff.apply (k : Int) r c =
      add (add (planePosition g k) (smul ((r : Rat) * g.s1) g.d1)) (smul ((c : Rat) * g.s2) g.d2) := by
  unfold planePosition Geom.aff Aff.apply
  obtain ⟨ax, ay, az⟩ := g.d0
  obtain ⟨bx, b_y, bz⟩ := g.d1
  obtain ⟨cx, cy, cz⟩ := g.d2
  obtain ⟨px, py, pz⟩ := g.p
  simp only [add, smul, V3.mk.injEq]
  push_cast
  refine ⟨by ring, by ring, by ring⟩

/-- the affine read back maps slot `h·k − emin` (and any row/column) to where the input volume has plane `k` -/
theorem lineAff_store_apply {g : Geom} (hg : Admissible g) (ks : List Nat) (emin : Int) (k : Nat) (r c : Int) :
    (lineAff (storeStack g ks) g.p g.s0 emin).apply (handInt g * (k : Int) - emin) r c = g.aff.apply (k : Int) r c := by
  rw [lineAff_apply, geom_apply_nat, planePosition_line hg]
  have : emin + (handInt g * (k : Int) - emin) = handInt g * (k : Int) := by ring
  rw [this]
  rfl

theorem filterMap_eq_map_of {α β : Type} (f : α → Option β) (g : α → β) (l : List α) (h : ∀ x ∈ l, f x = some (g x)) :
    l.filterMap f = l.map g := by
  induction l with
  | nil => rfl
  | cons a t ih =>
    rw [List.filterMap_cons, h a (by simp), List.map_cons, ih (fun x hx => h x (by simp [hx]))]

theorem framePositions_all (vps : List Int) (n : Int) (h : ∀ v ∈ vps, 0 ≤ v ∧ v < n) :
    framePositions vps 0 n = vps.zipIdx.map (fun (p : Int × Nat) => (p.2, p.1)) := by
  rw [framePositions_eq]
  apply filterMap_eq_map_of
  intro x hx
  have hv := h x.1 (List.fst_mem_of_mem_zipIdx hx)
  obtain ⟨vp, i⟩ := x
  simp only at hv ⊢
  simp [hv.1, hv.2]


/-- **Write then read**: the stack a volume stores for the kept planes `ks` is recognised again, for every
sub-volume request.  `k₁` is the kept plane that becomes slot 0 (the first kept plane of a right-handed input,
the last one of a left-handed input), slot of plane `k` is `h·(k − k₁)`. -/
theorem roundtrip_store (kd : Kind) {g : Geom} (hg : Admissible g) (ks : List Nat) (hks : ks ≠ []) (chans : List Nat)
    (hu : framesUnique kd (withChan (storeStack g ks) chans) = true) (rows cols : Int) :
    ∃ k₁ ∈ ks, ∃ k₂ ∈ ks,
      (∀ k ∈ ks, 0 ≤ handInt g * ((k : Int) - k₁) ∧ handInt g * ((k : Int) - k₁) ≤ handInt g * ((k₂ : Int) - k₁)) ∧
      (∀ (rq : Request) (s0 e0 s1 e1 s2 e2 : Int),
        sliceSpec rq.sliceStart rq.sliceEnd (handInt g * ((k₂ : Int) - k₁) + 1) rq.asIdx = some (s0, e0) →
        sliceSpec rq.rowStart rq.rowEnd rows rq.asIdx = some (s1, e1) →
        sliceSpec rq.colStart rq.colEnd cols rq.asIdx = some (s2, e2) →
        getVolumeStack kd (withChan (storeStack g ks) chans) rows cols true rq
          = .ok { aff := (lineAff (storeStack g ks) g.p g.s0 (handInt g * (k₁ : Int))).shift s0 s1 s2,
                  n := e0 - s0, rows := e1 - s1, cols := e2 - s2,
                  frames := framePositions (ks.map (fun (k : Nat) => handInt g * ((k : Int) - k₁))) s0 e0,
                  rowFirst := s1, colFirst := s2 }) ∧
      (∀ (rq : Request),
        (sliceSpec rq.sliceStart rq.sliceEnd (handInt g * ((k₂ : Int) - k₁) + 1) rq.asIdx = none ∨
         sliceSpec rq.rowStart rq.rowEnd rows rq.asIdx = none ∨
         sliceSpec rq.colStart rq.colEnd cols rq.asIdx = none) →
        ∃ kk, getVolumeStack kd (withChan (storeStack g ks) chans) rows cols true rq = .error kk) := by
  set h := handInt g with hh
  have hpos : (storeStack g ks).pos
      = (ks.map (fun (k : Nat) => h * (k : Int))).map (linePos (normal (storeStack g ks).rowCos (storeStack g ks).colCos) g.p g.s0) := by
    show ks.map (planePosition g) = _
    rw [List.map_map]
    apply List.map_congr_left
    intro k _
    exact planePosition_line hg k
  have hes : ks.map (fun (k : Nat) => h * (k : Int)) ≠ [] := by simpa using hks
  obtain ⟨emin, hemin, emax, hemax, hb, hok, hbad⟩ :=
    getVolumeStack_line kd (withChan (storeStack g ks) chans)
      ⟨(stackOK_store hg ks).unitN, (stackOK_store hg ks).orth, (stackOK_store hg ks).psRow, (stackOK_store hg ks).psCol⟩
      g.p g.s0 hg.s0 _ hes hpos rfl hu rows cols
  obtain ⟨k₁, hk₁, rfl⟩ := List.mem_map.mp hemin
  obtain ⟨k₂, hk₂, rfl⟩ := List.mem_map.mp hemax
  have hN : h * (k₂ : Int) - h * (k₁ : Int) + 1 = h * ((k₂ : Int) - k₁) + 1 := by ring
  have hvps : (ks.map (fun (k : Nat) => h * (k : Int))).map (fun x => x - h * (k₁ : Int)) = ks.map (fun (k : Nat) => h * ((k : Int) - k₁)) := by
    rw [List.map_map]; apply List.map_congr_left; intro k _; simp only [Function.comp]; ring
  rw [hN] at hok hbad
  rw [hvps] at hok
  refine ⟨k₁, hk₁, k₂, hk₂, ?_, hok, hbad⟩
  intro k hk
  have := hb (h * (k : Int)) (List.mem_map.mpr ⟨k, hk, rfl⟩)
  constructor
  · have : h * ((k : Int) - k₁) = h * k - h * k₁ := by ring
    omega
  · have e1 : h * ((k : Int) - k₁) = h * k - h * k₁ := by ring
    have e2 : h * ((k₂ : Int) - k₁) = h * k₂ - h * k₁ := by ring
    omega


/-! ## any stack: sub-volumes relative to the full volume -/

theorem listMaxInt_nonneg (l : List Int) : 0 ≤ listMaxInt 0 l := listMaxInt_ge 0 l 0 (by simp)

theorem sliceSpec_default (n : Int) (hn : 1 ≤ n) (ai : Bool) : sliceSpec none none n ai = some (0, n) := by
  unfold sliceSpec; simp; omega

theorem mem_framePositions (vps : List Int) (s e : Int) (i : Nat) (v : Int) :
    (i, v) ∈ framePositions vps s e ↔ ∃ vp, vps[i]? = some vp ∧ s ≤ vp ∧ vp < e ∧ v = vp - s := by
  rw [framePositions_eq]
  rw [List.mem_filterMap]
  constructor
  · rintro ⟨⟨vp, j⟩, hm, hf⟩
    have := List.mem_zipIdx hm
    simp only [Nat.zero_le, Nat.zero_add, Nat.sub_zero, true_and] at this
    simp only at hf
    split at hf
    · rename_i hc
      simp only [Option.some.injEq, Prod.mk.injEq] at hf
      obtain ⟨rfl, rfl⟩ := hf
      simp only [Bool.and_eq_true, decide_eq_true_eq] at hc
      exact ⟨vp, by rw [List.getElem?_eq_getElem this.1]; exact congrArg some this.2.symm, hc.1, hc.2, rfl⟩
    · cases hf
  · rintro ⟨vp, hget, h1, h2, rfl⟩
    have hi : i < vps.length := by
      by_contra hlt
      rw [List.getElem?_eq_none (by omega)] at hget; cases hget
    have hv : vps[i] = vp := by
      rw [List.getElem?_eq_getElem hi] at hget; exact Option.some.inj hget
    refine ⟨(vp, i), ?_, ?_⟩
    · rw [← hv]; exact List.mem_zipIdx_iff_getElem?.mpr (by simp [hi]) 
    · simp [h1, h2]


/-- **Any stack, any slice request**: whatever `_get_stacked_volume_geometry` returns for a request is the
default (full) geometry cut to the Python-slice meaning `[s, e)` of the request: same columns, translation at
the position of slice `s`, frames of slots `s..e-1` moved down by `s`. -/
theorem stackedGeometry_sub (st : Stack) (rows cols : Int) (am : Bool) (ss se : Option Int) (ai : Bool) (sg : StackGeom)
    (h : stackedGeometry st rows cols am ss se ai = .ok sg) :
    ∃ full s e, stackedGeometry st rows cols am none none false = .ok full ∧
      sliceSpec ss se full.n ai = some (s, e) ∧ sg.aff = full.aff.shift s 0 0 ∧ sg.n = e - s ∧
      sg.rows = rows ∧ sg.cols = cols ∧ full.rows = rows ∧ full.cols = cols ∧
      (∀ i v, (i, v) ∈ sg.frames ↔ ((i, v + s) ∈ full.frames ∧ 0 ≤ v ∧ v < e - s)) := by
  unfold stackedGeometry at h ⊢
  simp only [stackInitialSlices_eq, stackGeomSlice_eq] at h ⊢
  cases hvp : volumePositions st.pos st.rowCos st.colCos st.hint am with
  | error k => rw [hvp] at h; cases h
  | ok r =>
    rw [hvp] at h
    cases r with
    | none => cases h
    | some r =>
      obtain ⟨spacing, vps⟩ := r
      simp only at h ⊢
      set N := listMaxInt 0 vps + 1 with hN
      have hN1 : 1 ≤ N := by have := listMaxInt_nonneg vps; omega
      cases hsl : stdSliceIndices ss se N ai with
      | error k => rw [hsl] at h; cases h
      | ok r2 =>
        obtain ⟨s, e⟩ := r2
        rw [hsl] at h
        simp only at h
        have hspec := (stdSlice_ok_iff ss se N ai (s, e)).mp hsl
        have hrange := sliceSpec_range hspec
        rw [(stdSlice_ok_iff none none N false (0, N)).mpr (sliceSpec_default N hN1 false)]
        simp only
        cases hio : indexOf? 0 vps with
        | none => rw [hio] at h; cases h
        | some oi =>
          rw [hio] at h
          simp only at h ⊢
          cases hpo : st.pos[oi]? with
          | none => rw [hpo] at h; cases h
          | some origin =>
            rw [hpo] at h
            simp only at h ⊢
            cases hfa : fromAttributes origin st.rowCos st.colCos st.psRow st.psCol spacing with
            | error k => rw [hfa] at h; cases h
            | ok a =>
              rw [hfa] at h
              simp only at h ⊢
              rw [getitemAxis_inrange s e N hrange.1 hrange.2.1 hrange.2.2] at h
              rw [getitemAxis_inrange 0 N N (le_refl 0) (by omega) (le_refl N)]
              simp only [Except.ok.injEq] at h
              subst h
              refine ⟨_, s, e, rfl, ?_, ?_, rfl, rfl, rfl, rfl, rfl, ?_⟩
              · simpa using hspec
              · simp only [aff_shift_zero]
              · intro i v
                simp only [mem_framePositions]
                constructor
                · rintro ⟨vp, hg, h1, h2, rfl⟩
                  exact ⟨⟨vp, hg, by omega, by omega, by ring⟩, by omega, by omega⟩
                · rintro ⟨⟨vp, hg, h1, h2, h3⟩, h4, h5⟩
                  exact ⟨vp, hg, by omega, by omega, by omega⟩


theorem getitemAxis_ok {a b n f sz : Int} (h0 : 0 ≤ a) (h1 : a < n) (h2 : 0 ≤ b) (h3 : b ≤ n)
    (h : getitemAxis (some a) (some b) n = .ok (f, sz)) : a < b ∧ a = f ∧ b - a = sz := by
  unfold getitemAxis imax imin at h
  grind

/-- **Any stack, any sub-volume request** (stacked branch of `get_volume`): an accepted request returns the
default (full) volume cut to the Python-slice meaning of the request on each axis; the affine is the full one
translated to the position of the first voxel of the block. -/
theorem getVolumeStack_sub (k : Kind) (st : Stack) (rows cols : Int) (am : Bool) (rq : Request) (out : VolOut)
    (h : getVolumeStack k st rows cols am rq = .ok out) :
    ∃ full s0 e0 s1 e1 s2 e2, stackedGeometry st rows cols am none none false = .ok full ∧
      sliceSpec rq.sliceStart rq.sliceEnd full.n rq.asIdx = some (s0, e0) ∧
      sliceSpec rq.rowStart rq.rowEnd rows rq.asIdx = some (s1, e1) ∧
      sliceSpec rq.colStart rq.colEnd cols rq.asIdx = some (s2, e2) ∧
      out.aff = full.aff.shift s0 s1 s2 ∧ out.n = e0 - s0 ∧ out.rows = e1 - s1 ∧ out.cols = e2 - s2 ∧
      out.rowFirst = s1 ∧ out.colFirst = s2 ∧
      (∀ i v, (i, v) ∈ out.frames ↔ ((i, v + s0) ∈ full.frames ∧ 0 ≤ v ∧ v < e0 - s0)) ∧
      framesUnique k st = true := by
  unfold getVolumeStack at h
  cases hT3 : stdRowColIndices rq.rowStart rq.rowEnd rq.colStart rq.colEnd rows cols rq.asIdx true with
  | error k => rw [hT3] at h; cases h
  | ok r =>
    obtain ⟨a, b, c, d⟩ := r
    rw [hT3] at h
    simp only at h
    have hr := stdRowCol_range_idx hT3
    have hq : framesUnique k st = true := by
      by_contra hq
      have : framesUnique k st = false := by simpa using hq
      rw [this] at h
      simp at h
    simp only [hq, Bool.not_true, Bool.false_eq_true, if_false] at h
    cases hsg : stackedGeometry st rows cols am rq.sliceStart rq.sliceEnd rq.asIdx with
    | error k => rw [hsg] at h; cases h
    | ok sg =>
      rw [hsg] at h
      simp only [stackArraySliceOf_eq, stackGeomSliceOf_eq] at h
      obtain ⟨full, s0, e0, hfull, hs0, haff, hn, _, _, _, _, hfr⟩ := stackedGeometry_sub st rows cols am _ _ _ sg hsg
      cases hg1 : getitemAxis (some a) (some b) rows with
      | error k => rw [hg1] at h; cases h
      | ok r1 =>
        obtain ⟨f1, z1⟩ := r1
        cases hg2 : getitemAxis (some c) (some d) cols with
        | error k => rw [hg1, hg2] at h; cases h
        | ok r2 =>
          obtain ⟨f2, z2⟩ := r2
          rw [hg1, hg2] at h
          simp only [Except.ok.injEq] at h
          subst h
          obtain ⟨hab, rfl, rfl⟩ := getitemAxis_ok hr.1 hr.2.1 hr.2.2.1 hr.2.2.2.1 hg1
          obtain ⟨hcd, rfl, rfl⟩ := getitemAxis_ok hr.2.2.2.2.1 hr.2.2.2.2.2.1 hr.2.2.2.2.2.2.1 hr.2.2.2.2.2.2.2 hg2
          obtain ⟨hrow, hcol⟩ := (stdRowCol_idx_spec _ _ _ _ rows cols rq.asIdx a b c d).mp ⟨hT3, hab, hcd⟩
          refine ⟨full, s0, e0, a, b, c, d, hfull, hs0, hrow, hcol, ?_, hn,
            npLen_inrange a b rows hr.1 (le_of_lt hab) hr.2.2.2.1,
            npLen_inrange c d cols hr.2.2.2.2.1 (le_of_lt hcd) hr.2.2.2.2.2.2.2,
            npFirst_inrange a rows hr.1 (le_of_lt hr.2.1), npFirst_inrange c cols hr.2.2.2.2.1 (le_of_lt hr.2.2.2.2.2.1), hfr, hq⟩
          simp only [haff, aff_shift_shift]
          simp

/-- a refused axis request is refused by `get_volume` (stacked branch) whenever the image is a stack at all -/
theorem getVolumeStack_refuses (k : Kind) (st : Stack) (rows cols : Int) (am : Bool) (rq : Request) (full : StackGeom)
    (hfull : stackedGeometry st rows cols am none none false = .ok full)
    (hbad : sliceSpec rq.sliceStart rq.sliceEnd full.n rq.asIdx = none ∨
      sliceSpec rq.rowStart rq.rowEnd rows rq.asIdx = none ∨ sliceSpec rq.colStart rq.colEnd cols rq.asIdx = none) :
    ∃ kk, getVolumeStack k st rows cols am rq = .error kk := by
  cases hgv : getVolumeStack k st rows cols am rq with
  | error kk => exact ⟨kk, rfl⟩
  | ok out =>
    obtain ⟨full', s0, e0, s1, e1, s2, e2, hf', h0, h1, h2, _⟩ := getVolumeStack_sub k st rows cols am rq out hgv
    rw [hfull] at hf'
    cases hf'
    rcases hbad with hb | hb | hb
    · rw [hb] at h0; cases h0
    · rw [hb] at h1; cases h1
    · rw [hb] at h2; cases h2

/-- default request: the volume an image returns has exactly the geometry it reports (stacked images) -/
theorem getVolumeStack_default (k : Kind) (st : Stack) (rows cols : Int) (hr : 1 ≤ rows) (hc : 1 ≤ cols) (am : Bool) (full : StackGeom)
    (hfull : volumeGeometryStack st rows cols am = .ok full) (hu : framesUnique k st = true) :
    getVolumeStack k st rows cols am ({} : Request) = .ok { aff := full.aff, n := full.n, frames := full.frames, rowFirst := 0, colFirst := 0, rows := rows, cols := cols } := by
  unfold volumeGeometryStack at hfull
  unfold getVolumeStack
  have hT3 : stdRowColIndices none none none none rows cols false true = .ok (0, rows, 0, cols) := by
    simp only [stdRowColIndices]
    grind
  simp only [hT3, hfull, stackArraySliceOf_eq, stackGeomSliceOf_eq, hu, Bool.not_true, Bool.false_eq_true, if_false]
  rw [getitemAxis_inrange 0 rows rows (le_refl 0) (by omega) (le_refl rows),
    getitemAxis_inrange 0 cols cols (le_refl 0) (by omega) (le_refl cols)]
  simp [aff_shift_zero, npLen_inrange 0 rows rows (le_refl 0) (by omega) (le_refl rows),
    npLen_inrange 0 cols cols (le_refl 0) (by omega) (le_refl cols), npFirst_inrange 0 rows (le_refl 0) (by omega),
    npFirst_inrange 0 cols (le_refl 0) (by omega)]


/-! ## tiled images -/

theorem stdRowCol_restandardise (a b c d rows cols : Int) (h : 0 ≤ a ∧ a < rows ∧ 0 ≤ b ∧ b ≤ rows ∧ 0 ≤ c ∧ c < cols ∧ 0 ≤ d ∧ d ≤ cols) :
    stdRowColIndices (some a) (some b) (some c) (some d) rows cols true false = .ok (a + 1, b + 1, c + 1, d + 1) := by
  rw [stdRowCol_ok_iff]
  have e0 : outShift false = 0 := rfl
  rw [e0]
  unfold normStart normEnd
  refine ⟨?_, ?_, ?_, ?_⟩ <;> grind

/-- **Tiled branch of `get_volume`**: an accepted request returns the geometry of the total pixel matrix
translated to the position of the first requested row and column (`a`, `c` = what the translated
`_standardize_row_column_indices` makes of the request), with the requested extent. -/
theorem tiledVolume_sub (k : Kind) (origin rowCos colCos : V3) (psRow psCol : Rat) (sbs : Option Rat) (R C : Int) (rq : Request)
    (out : VolOut) (h : tiledVolume k origin rowCos colCos psRow psCol sbs R C rq = .ok out) :
    ∃ full a b c d, volumeGeometryTiled origin rowCos colCos psRow psCol sbs = .ok full ∧
      stdRowColIndices rq.rowStart rq.rowEnd rq.colStart rq.colEnd R C rq.asIdx true = .ok (a, b, c, d) ∧
      sliceSpec rq.sliceStart rq.sliceEnd 1 rq.asIdx = some (0, 1) ∧
      out.aff = full.shift 0 a c ∧ out.n = 1 ∧ out.rows = b - a ∧ out.cols = d - c ∧ a ≤ b ∧ c ≤ d ∧
      out.rowFirst = a ∧ out.colFirst = c := by
  unfold tiledVolume at h
  unfold volumeGeometryTiled
  cases hT3 : stdRowColIndices rq.rowStart rq.rowEnd rq.colStart rq.colEnd R C rq.asIdx true with
  | error k => rw [hT3] at h; cases h
  | ok r =>
    obtain ⟨a, b, c, d⟩ := r
    rw [hT3] at h
    simp only at h
    have hr := stdRowCol_range_idx hT3
    cases hfa : fromAttributes origin rowCos colCos psRow psCol (defaultSpacing sbs) with
    | error k => rw [hfa] at h; cases h
    | ok A =>
      rw [hfa] at h
      simp only at h
      cases hsl : stdSliceIndices rq.sliceStart rq.sliceEnd 1 rq.asIdx with
      | error k => rw [hsl] at h; cases h
      | ok se =>
        rw [hsl] at h
        simp only at h
        rw [stdRowCol_restandardise a b c d R C hr] at h
        simp only at h
        have hspec := (stdSlice_ok_iff _ _ _ _ se).mp hsl
        have hse : se = (0, 1) := by
          obtain ⟨s, e⟩ := se
          have := sliceSpec_range hspec
          simp only [Prod.mk.injEq]; omega
        split at h
        · cases h
        · rename_i hneg
          simp only [Bool.or_eq_true, decide_eq_true_eq, not_or, not_lt] at hneg
          simp only [tiledGeomLowerOf_eq] at h
          rw [getitemAxis_from a R hr.1 hr.2.1, getitemAxis_from c C hr.2.2.2.2.1 hr.2.2.2.2.2.1] at h
          simp only [Except.ok.injEq] at h
          subst h
          refine ⟨A, a, b, c, d, rfl, rfl, by rw [hspec, hse], rfl, rfl, by simp only; ring, by simp only; ring, by omega, by omega, rfl, rfl⟩

/-- default request on a tiled image: the geometry it reports -/
theorem tiledVolume_default (k : Kind) (origin rowCos colCos : V3) (psRow psCol : Rat) (sbs : Option Rat) (R C : Int)
    (hR : 1 ≤ R) (hC : 1 ≤ C) (full : Aff) (hfull : volumeGeometryTiled origin rowCos colCos psRow psCol sbs = .ok full) :
    tiledVolume k origin rowCos colCos psRow psCol sbs R C ({} : Request)
      = .ok { aff := full, n := 1, frames := [], rowFirst := 0, colFirst := 0, rows := R, cols := C } := by
  unfold volumeGeometryTiled at hfull
  unfold tiledVolume
  have hT3 : stdRowColIndices none none none none R C false true = .ok (0, R, 0, C) := by
    simp only [stdRowColIndices]
    grind
  have hT2 : stdSliceIndices none none 1 false = .ok (0, 1) := by
    rw [stdSlice_ok_iff]; exact sliceSpec_default 1 (le_refl 1) false
  simp only [hT3, hfull, hT2]
  rw [stdRowCol_restandardise 0 R 0 C R C (by omega)]
  simp only [tiledGeomLowerOf_eq]
  rw [getitemAxis_from 0 R (le_refl 0) (by omega), getitemAxis_from 0 C (le_refl 0) (by omega)]
  simp only [aff_shift_zero]
  have h1 : (decide (R + 1 - (0 + 1) < 0) || decide (C + 1 - (0 + 1) < 0)) = false := by
    simp only [Bool.or_eq_false_iff, decide_eq_false_iff_not]; omega
  rw [h1]
  simp

/-! ## pyramid -/

/-- rows / columns of a total-pixel-matrix mask of rank 2 `(R, C)`, 3 `(1, R, C)` or 4 `(1, R, C, S)` -/
def maskRows (ndim s0 s1 : Int) : Int := if ndim = 2 then s0 else s1
def maskCols (ndim s1 s2 : Int) : Int := if ndim = 2 then s1 else s2

theorem pyramidSpacing_extent (pr pc : Rat) (nd0 a0 a1 a2 nd b0 b1 b2 : Int) (rs cs : Rat)
    (h : pyramidSpacing pr pc nd0 a0 a1 a2 nd b0 b1 b2 = .ok (rs, cs))
    (hr : maskRows nd b0 b1 ≠ 0) (hc : maskCols nd b1 b2 ≠ 0) :
    (maskRows nd b0 b1 : Rat) * rs = (maskRows nd0 a0 a1 : Rat) * pr ∧
    (maskCols nd b1 b2 : Rat) * cs = (maskCols nd0 a1 a2 : Rat) * pc := by
  unfold pyramidSpacing at h
  simp only [Except.ok.injEq, Prod.mk.injEq] at h
  obtain ⟨rfl, rfl⟩ := h
  unfold maskRows maskCols at *
  have e1 : ∀ (x y : Int), (if (nd == (2 : Int)) = true then x else y) = if nd = 2 then x else y := by
    intro x y; by_cases h : nd = 2 <;> simp [h]
  have e0 : ∀ (x y : Int), (if (nd0 == (2 : Int)) = true then x else y) = if nd0 = 2 then x else y := by
    intro x y; by_cases h : nd0 = 2 <;> simp [h]
  simp only [e1, e0]
  have hr' : ((if nd = 2 then b0 else b1 : Int) : Rat) ≠ 0 := by exact_mod_cast hr
  have hc' : ((if nd = 2 then b1 else b2 : Int) : Rat) ≠ 0 := by exact_mod_cast hc
  constructor
  · field_simp
  · field_simp


/-- size of a down-sampled level: `int(total / f)` is at least 1 (and at most the full size) for `1 ≤ f ≤ total` -/
theorem pyramidLevelSize_pos (f : Rat) (hf : 1 ≤ f) (R C : Int) (hR : f ≤ (R : Rat)) (hC : f ≤ (C : Rat)) :
    ∃ cl rl, pyramidLevelSize f C R = .ok (cl, rl) ∧ 1 ≤ cl ∧ cl ≤ C ∧ 1 ≤ rl ∧ rl ≤ R := by
  have hf0 : 0 < f := by linarith
  unfold pyramidLevelSize
  have hc0 : ¬ ((C : Rat) / f < 0) := by
    have : 0 ≤ (C : Rat) / f := div_nonneg (by linarith) (le_of_lt hf0)
    linarith
  have hr0 : ¬ ((R : Rat) / f < 0) := by
    have : 0 ≤ (R : Rat) / f := div_nonneg (by linarith) (le_of_lt hf0)
    linarith
  refine ⟨_, _, rfl, ?_, ?_, ?_, ?_⟩
  · simp only [if_neg hc0]
    rw [Rat.le_floor_iff]; push_cast; rw [le_div_iff₀ hf0]; linarith
  · simp only [if_neg hc0]
    have : (C : Rat) / f ≤ C := by rw [div_le_iff₀ hf0]; nlinarith
    have h2 : ((C : Rat) / f).floor < C + 1 := by
      rw [Rat.floor_lt_iff]; push_cast; linarith
    omega
  · simp only [if_neg hr0]
    rw [Rat.le_floor_iff]; push_cast; rw [le_div_iff₀ hf0]; linarith
  · simp only [if_neg hr0]
    have : (R : Rat) / f ≤ R := by rw [div_le_iff₀ hf0]; nlinarith
    have h2 : ((R : Rat) / f).floor < R + 1 := by
      rw [Rat.floor_lt_iff]; push_cast; linarith
    omega


theorem linePos_store {g : Geom} (hg : Admissible g) (e : Int) :
    linePos (normal g.d2 g.d1) g.p g.s0 e = g.aff.apply (handInt g * e) 0 0 := by
  rw [normal_store hg]
  have h2 := det_sq hg
  have hc := handInt_cast hg
  unfold linePos Geom.aff Aff.apply
  push_cast
  rw [hc]
  generalize g.det = δ at *
  generalize g.s0 = s at *
  obtain ⟨dx, dy, dz⟩ := g.d0
  obtain ⟨px, py, pz⟩ := g.p
  simp only [add, smul, V3.mk.injEq, zero_mul, add_zero]
  refine ⟨by ring, by ring, by ring⟩

theorem geom_apply_split (g : Geom) (i r c : Int) :
    g.aff.apply i r c = add (add (g.aff.apply i 0 0) (smul ((r : Rat) * g.s1) g.d1)) (smul ((c : Rat) * g.s2) g.d2) := by
  unfold Geom.aff Aff.apply
  obtain ⟨ax, ay, az⟩ := g.d0
  obtain ⟨bx, b_y, bz⟩ := g.d1
  obtain ⟨cx, cy, cz⟩ := g.d2
  obtain ⟨px, py, pz⟩ := g.p
  simp only [add, smul, V3.mk.injEq]
  push_cast
  refine ⟨by ring, by ring, by ring⟩

/-- the affine read back, at any slot `v`: the input volume's position of plane `h·(emin + v)` -/
theorem lineAff_store_apply_int {g : Geom} (hg : Admissible g) (ks : List Nat) (emin v r c : Int) :
    (lineAff (storeStack g ks) g.p g.s0 emin).apply v r c = g.aff.apply (handInt g * (emin + v)) r c := by
  rw [lineAff_apply, geom_apply_split g (handInt g * (emin + v)) r c, ← linePos_store hg]
  rfl


/-- an affine is determined by where it sends the index triples -/
theorem aff_ext_of_apply (a b : Aff) (h : ∀ v r c : Int, a.apply v r c = b.apply v r c) : a = b := by
  have e0 := h 0 0 0
  have e1 := h 1 0 0
  have e2 := h 0 1 0
  have e3 := h 0 0 1
  obtain ⟨⟨a0x, a0y, a0z⟩, ⟨a1x, a1y, a1z⟩, ⟨a2x, a2y, a2z⟩, ⟨atx, aty, atz⟩⟩ := a
  obtain ⟨⟨b0x, b0y, b0z⟩, ⟨b1x, b1y, b1z⟩, ⟨b2x, b2y, b2z⟩, ⟨btx, bty, btz⟩⟩ := b
  simp only [Aff.apply, add, smul, V3.mk.injEq, Aff.mk.injEq] at *
  norm_num at e0 e1 e2 e3
  obtain ⟨e0x, e0y, e0z⟩ := e0
  obtain ⟨e1x, e1y, e1z⟩ := e1
  obtain ⟨e2x, e2y, e2z⟩ := e2
  obtain ⟨e3x, e3y, e3z⟩ := e3
  refine ⟨⟨by linarith, by linarith, by linarith⟩, ⟨by linarith, by linarith, by linarith⟩,
    ⟨by linarith, by linarith, by linarith⟩, ⟨e0x, e0y, e0z⟩⟩


/-! ## strict branch of `get_volume_positions` (complete stacks, `Image.get_volume`, spacing inference) -/

theorem insertSorted_perm (a : Rat) (l : List Rat) : (insertSorted a l).Perm (a :: l) := by
  induction l with
  | nil => simp [insertSorted]
  | cons b t ih =>
    unfold insertSorted
    split
    · exact List.Perm.refl _
    · exact (List.Perm.cons b ih).trans (List.Perm.swap a b t)

theorem sortRat_perm (l : List Rat) : (sortRat l).Perm l := by
  induction l with
  | nil => simp [sortRat]
  | cons a t ih =>
    unfold sortRat
    exact (insertSorted_perm a (sortRat t)).trans (List.Perm.cons a ih)

theorem insertSorted_sorted (a : Rat) (l : List Rat) (h : l.Pairwise (· ≤ ·)) : (insertSorted a l).Pairwise (· ≤ ·) := by
  induction l with
  | nil => simp [insertSorted]
  | cons b t ih =>
    unfold insertSorted
    split
    · rename_i hab
      rw [List.pairwise_cons]
      refine ⟨?_, h⟩
      intro x hx
      rcases List.mem_cons.mp hx with rfl | hx
      · exact hab
      · exact le_trans hab (List.rel_of_pairwise_cons h hx)
    · rename_i hab
      rw [List.pairwise_cons]
      refine ⟨?_, ih h.tail⟩
      intro x hx
      have := (insertSorted_perm a t).subset hx
      rcases List.mem_cons.mp this with rfl | hx'
      · exact le_of_lt (not_le.mp hab)
      · exact List.rel_of_pairwise_cons h hx'

theorem sortRat_sorted (l : List Rat) : (sortRat l).Pairwise (· ≤ ·) := by
  induction l with
  | nil => simp [sortRat]
  | cons a t ih => unfold sortRat; exact insertSorted_sorted a _ ih

/-- arithmetic progression of distances `c + (emin + j)·sp`, `j = 0..m` -/
def prog (c sp : Rat) (emin : Int) (m : Nat) : List Rat :=
  (List.range (m + 1)).map (fun (j : Nat) => c + (((emin + (j : Int)) : Int) : Rat) * sp)

theorem prog_sorted (c sp : Rat) (hsp : 0 < sp) (emin : Int) (m : Nat) : (prog c sp emin m).Pairwise (· ≤ ·) := by
  unfold prog
  rw [List.pairwise_map]
  refine List.Pairwise.imp ?_ (List.pairwise_lt_range (n := m + 1))
  intro a b hab
  have : ((emin + (a : Int) : Int) : Rat) ≤ ((emin + (b : Int) : Int) : Rat) := by exact_mod_cast (by omega : emin + (a : Int) ≤ emin + (b : Int))
  nlinarith

theorem mem_diffs (l : List Rat) (d : Rat) (h : d ∈ diffs l) :
    ∃ i, ∃ (h1 : i + 1 < l.length), d = l[i + 1] - l[i] := by
  induction l with
  | nil => simp [diffs] at h
  | cons a t ih =>
    cases t with
    | nil => simp [diffs] at h
    | cons b t' =>
      simp only [diffs, List.mem_cons] at h
      rcases h with rfl | h
      · exact ⟨0, by simp, by simp⟩
      · obtain ⟨i, h1, hd⟩ := ih h
        exact ⟨i + 1, by simp at h1 ⊢; omega, by simpa using hd⟩

theorem prog_getElem (c sp : Rat) (emin : Int) (m i : Nat) (h : i < (prog c sp emin m).length) :
    (prog c sp emin m)[i] = c + (((emin + (i : Int)) : Int) : Rat) * sp := by
  simp [prog]

theorem diffs_prog (c sp : Rat) (emin : Int) (m : Nat) : ∀ d ∈ diffs (prog c sp emin m), d = sp := by
  intro d hd
  obtain ⟨i, h1, rfl⟩ := mem_diffs _ d hd
  rw [prog_getElem, prog_getElem]
  push_cast
  ring


theorem range_filter_lt (n k : Nat) (h : k ≤ n) : ((List.range n).filter (fun j => decide (j < k))).length = k := by
  induction n with
  | zero => simp at h; simp [h]
  | succ n ih =>
    rw [List.range_succ, List.filter_append, List.length_append]
    by_cases hk : k ≤ n
    · rw [ih hk]
      have : ¬ (n < k) := by omega
      simp [this]
    · have hk' : k = n + 1 := by omega
      have hall : (List.range n).filter (fun j => decide (j < k)) = List.range n := by
        apply List.filter_eq_self.mpr
        intro j hj
        have := List.mem_range.mp hj
        simp; omega
      rw [hall]
      have : n < k := by omega
      simp [this, hk']

theorem prog_nodup (c sp : Rat) (hsp : 0 < sp) (emin : Int) (m : Nat) : (prog c sp emin m).Nodup := by
  unfold prog
  apply List.Nodup.map_on _ List.nodup_range
  intro x _ y _ hxy
  have : (((emin + (x : Int)) : Int) : Rat) * sp = (((emin + (y : Int)) : Int) : Rat) * sp := by linarith
  have h2 := mul_right_cancel₀ (ne_of_gt hsp) this
  have : emin + (x : Int) = emin + (y : Int) := by exact_mod_cast h2
  omega

theorem mem_prog (c sp : Rat) (emin : Int) (m : Nat) (d : Rat) :
    d ∈ prog c sp emin m ↔ ∃ z : Int, emin ≤ z ∧ z ≤ emin + m ∧ d = c + (z : Rat) * sp := by
  unfold prog
  simp only [List.mem_map, List.mem_range]
  constructor
  · rintro ⟨j, hj, rfl⟩
    exact ⟨emin + j, by omega, by omega, rfl⟩
  · rintro ⟨z, h1, h2, rfl⟩
    refine ⟨(z - emin).toNat, by omega, ?_⟩
    have : emin + ((z - emin).toNat : Int) = z := by omega
    rw [this]

/-- the distinct distances of a complete stack on a line are, up to order, the arithmetic progression -/
theorem du_perm_prog (n base : V3) (sp : Rat) (hsp : 0 < sp) (hn : dot n n = 1) (es : List Int) (emin emax : Int)
    (hb : ∀ e ∈ es, emin ≤ e ∧ e ≤ emax) (hcomplete : ∀ z, emin ≤ z → z ≤ emax → z ∈ es) (hle : emin ≤ emax) :
    ((dedup (es.map (linePos n base sp))).map (dot n)).Perm (prog (dot n base) sp emin (emax - emin).toNat) := by
  rw [List.perm_ext_iff_of_nodup]
  · intro d
    rw [mem_prog]
    simp only [List.mem_map, mem_dedup]
    constructor
    · rintro ⟨p, ⟨e, he, rfl⟩, rfl⟩
      exact ⟨e, (hb e he).1, by have := (hb e he).2; omega, dot_linePos _ _ _ _ hn⟩
    · rintro ⟨z, h1, h2, rfl⟩
      exact ⟨linePos n base sp z, ⟨z, hcomplete z h1 (by omega), rfl⟩, dot_linePos _ _ _ _ hn⟩
  · apply List.Nodup.map_on _ (nodup_dedup _)
    intro x hx y hy hxy
    rw [mem_dedup] at hx hy
    obtain ⟨e, _, rfl⟩ := List.mem_map.mp hx
    obtain ⟨e', _, rfl⟩ := List.mem_map.mp hy
    rw [linePos_inj n base sp hsp hn e e' hxy]
  · exact prog_nodup _ _ hsp _ _

theorem sort_du_eq_prog (n base : V3) (sp : Rat) (hsp : 0 < sp) (hn : dot n n = 1) (es : List Int) (emin emax : Int)
    (hb : ∀ e ∈ es, emin ≤ e ∧ e ≤ emax) (hcomplete : ∀ z, emin ≤ z → z ≤ emax → z ∈ es) (hle : emin ≤ emax) :
    sortRat ((dedup (es.map (linePos n base sp))).map (dot n)) = prog (dot n base) sp emin (emax - emin).toNat := by
  apply List.Perm.eq_of_pairwise (le := (· ≤ ·))
  · intro a b _ _ h1 h2; exact le_antisymm h1 h2
  · exact sortRat_sorted _
  · exact prog_sorted _ _ hsp _ _
  · exact (sortRat_perm _).trans (du_perm_prog n base sp hsp hn es emin emax hb hcomplete hle)


theorem regularStrict_line (n base : V3) (sp : Rat) (hsp : 0 < sp) (hn : dot n n = 1) (es : List Int) (emin emax : Int)
    (hb : ∀ e ∈ es, emin ≤ e ∧ e ≤ emax) (hcomplete : ∀ z, emin ≤ z → z ≤ emax → z ∈ es) (hlt : emin < emax)
    (hint : Option Rat) (hhint : hint = none ∨ hint = some sp) :
    regularStrict (es.map (fun (e : Int) => dot n base + (e : Rat) * sp))
        ((dedup (es.map (linePos n base sp))).map (dot n))
        (dot n base + (emin : Rat) * sp) (dot n base + (emax : Rat) * sp) hint true
      = .ok (some (sp, es.map (fun e => e - emin))) := by
  set c := dot n base with hc
  set du := (dedup (es.map (linePos n base sp))).map (dot n) with hdu
  have hperm := du_perm_prog n base sp hsp hn es emin emax hb hcomplete (le_of_lt hlt)
  have hsort := sort_du_eq_prog n base sp hsp hn es emin emax hb hcomplete (le_of_lt hlt)
  rw [← hdu, ← hc] at hperm hsort
  have hlen : du.length = (emax - emin).toNat + 1 := by
    rw [hperm.length_eq]; simp [prog]
  have hm : (((emax - emin).toNat : Int) : Rat) = (emax : Rat) - emin := by
    have : ((emax - emin).toNat : Int) = emax - emin := by omega
    rw [this]; push_cast; ring
  have hsp' : (c + (emax : Rat) * sp - (c + (emin : Rat) * sp)) / ((((du.length : Nat) : Int) : Rat) - 1) = sp := by
    rw [hlen]
    push_cast
    have hm' : (((emax - emin).toNat : Nat) : Rat) = (emax : Rat) - emin := by
      have := hm; push_cast at this; exact this
    rw [hm']
    have hne : (emax : Rat) - emin ≠ 0 := by
      have : (emin : Rat) < emax := by exact_mod_cast hlt
      linarith
    have e1 : c + (emax : Rat) * sp - (c + (emin : Rat) * sp) = ((emax : Rat) - emin) * sp := by ring
    rw [e1, add_sub_cancel_right, mul_div_cancel_left₀ sp hne]
  unfold regularStrict
  simp only [hsp', hsort]
  have hbad : hintMismatch sp hint = false := by
    rcases hhint with rfl | rfl
    · rfl
    · simp [hintMismatch, rabs_of_pos hsp, isClose_self]
  rw [hbad]
  simp only [Bool.false_eq_true, if_false]
  have hreg : (diffs (prog c sp emin (emax - emin).toNat)).all (fun d => isClose d sp tolSpacing) = true := by
    rw [List.all_eq_true]
    intro d hd
    rw [diffs_prog c sp emin _ d hd]
    exact isClose_self sp
  rw [hreg]
  simp only [Bool.and_self, if_true, rabs_of_pos hsp]
  congr 3
  rw [List.map_map]
  apply List.map_congr_left
  intro e he
  simp only [Function.comp]
  have hbe := hb e he
  -- rank = number of distinct distances below
  have hcount : (du.filter (fun x => decide (x < c + (e : Rat) * sp))).length
      = ((prog c sp emin (emax - emin).toNat).filter (fun x => decide (x < c + (e : Rat) * sp))).length :=
    (hperm.filter _).length_eq
  rw [hcount]
  unfold prog
  rw [List.filter_map, List.length_map]
  have hfun : ((fun x => decide (x < c + (e : Rat) * sp)) ∘ fun (j : Nat) => c + (((emin + (j : Int)) : Int) : Rat) * sp)
      = fun (j : Nat) => decide (j < (e - emin).toNat) := by
    funext j
    simp only [Function.comp, decide_eq_decide]
    constructor
    · intro h
      have h1 : (((emin + (j : Int)) : Int) : Rat) < (e : Rat) := by nlinarith
      have : emin + (j : Int) < e := by exact_mod_cast h1
      omega
    · intro h
      have : emin + (j : Int) < e := by omega
      have h1 : (((emin + (j : Int)) : Int) : Rat) < (e : Rat) := by exact_mod_cast this
      nlinarith
  rw [hfun, range_filter_lt _ _ (by omega)]
  omega


theorem dedup_of_nodup (l : List V3) (h : l.Nodup) : dedup l = l := by
  induction l with
  | nil => rfl
  | cons a t ih =>
    rw [List.nodup_cons] at h
    simp only [dedup, ih h.2]
    congr 1
    apply List.filter_eq_self.mpr
    intro b hb
    simp only [bne_iff_ne, ne_eq]
    intro hba
    exact h.1 (hba ▸ hb)

theorem linePos_nodup (n base : V3) (sp : Rat) (hsp : 0 < sp) (hn : dot n n = 1) (es : List Int) (h : es.Nodup) :
    (es.map (linePos n base sp)).Nodup := by
  apply List.Nodup.map_on _ h
  intro x _ y _ hxy
  exact linePos_inj n base sp hsp hn x y (by rw [hxy])

theorem normHint_none : normHint none = .ok none := rfl

/-- **Complete stacks in the strict branch** (`allow_missing_positions=False`: `Image.get_volume`, and the
inference of SpacingBetweenSlices when a segmentation is created): frames at `base + (e·sp)·n` whose multiples
`e` fill an interval of at least two integers (any order, repetitions allowed), with no hint or the true spacing
as hint, get spacing `sp` and the volume positions `e − min e`. -/
theorem volumePositions_line_strict (rowCos colCos base : V3) (sp : Rat) (hsp : 0 < sp)
    (hn : dot (normal rowCos colCos) (normal rowCos colCos) = 1) (es : List Int) (emin emax : Int)
    (hemin : emin ∈ es) (hemax : emax ∈ es) (hb : ∀ e ∈ es, emin ≤ e ∧ e ≤ emax)
    (hcomplete : ∀ z, emin ≤ z → z ≤ emax → z ∈ es) (hlt : emin < emax)
    (hint : Option Rat) (hhint : hint = none ∨ hint = some sp) (allowDup : Bool) (hdup : allowDup = true ∨ es.Nodup) :
    volumePositions (es.map (linePos (normal rowCos colCos) base sp)) rowCos colCos hint false allowDup
      = .ok (some (sp, es.map (fun e => e - emin))) := by
  set n := normal rowCos colCos with hnd
  have hnodup : (!allowDup && decide ((dedup (es.map (linePos n base sp))).length < (es.map (linePos n base sp)).length)) = false := by
    rcases hdup with rfl | hnd'
    · rfl
    · rw [dedup_of_nodup _ (linePos_nodup n base sp hsp hn es hnd')]
      simp
  have hnh : normHint hint = .ok hint := by
    rcases hhint with rfl | rfl
    · rfl
    · exact normHint_pos hsp
  match es, hemin, hemax, hb, hcomplete, hnodup with
  | [e], hemin, hemax, _, _, _ =>
    simp only [List.mem_singleton] at hemin hemax
    omega
  | e0 :: e1 :: t, hemin, hemax, hb, hcomplete, hnodup =>
    have key : volumePositions ((e0 :: e1 :: t).map (linePos n base sp)) rowCos colCos hint false allowDup
        = volumePositionsMany ((e0 :: e1 :: t).map (linePos n base sp)) (linePos n base sp e0) rowCos colCos hint false allowDup := by
      rw [List.map_cons, List.map_cons]
      unfold volumePositions
      rw [hnh]
    rw [key]
    unfold volumePositionsMany
    rw [hnodup]
    simp only [Bool.false_eq_true, if_false]
    have hall : ¬ (((e0 :: e1 :: t).map (linePos n base sp)).all (fun p => p == linePos n base sp e0) = true) := by
      intro hall
      rw [List.all_eq_true] at hall
      have h1 := hall (linePos n base sp emin) (List.mem_map.mpr ⟨emin, hemin, rfl⟩)
      have h2 := hall (linePos n base sp emax) (List.mem_map.mpr ⟨emax, hemax, rfl⟩)
      simp only [beq_iff_eq] at h1 h2
      have := linePos_inj n base sp hsp hn emin emax (by rw [h1, h2])
      omega
    rw [if_neg hall]
    obtain ⟨emin', hemin', emax', hemax', hbound, hext⟩ := extremes_line n base sp hsp hn e0 (e1 :: t)
    have e1' : emin' = emin := by
      have := (hbound emin hemin).1; have := (hb emin' hemin').1; omega
    have e2' : emax' = emax := by
      have := (hbound emax hemax).2; have := (hb emax' hemax').2; omega
    subst e1' e2'
    simp only [← hnd, hext]
    have hds : ((e0 :: e1 :: t).map (linePos n base sp)).map (dot n)
        = (e0 :: e1 :: t).map (fun (e : Int) => dot n base + (e : Rat) * sp) := by
      rw [List.map_map]; apply List.map_congr_left; intro e _; simp [dot_linePos _ _ _ _ hn]
    have hperp : isPerp n (sub (linePos n base sp emax') (linePos n base sp emin')) = true := by
      rw [sub_linePos]
      apply isPerp_line n _ hn
      have : ((emax' : Rat) - emin') ≠ 0 := by
        have : (emin' : Rat) < emax' := by exact_mod_cast hlt
        linarith
      exact mul_ne_zero this (ne_of_gt hsp)
    rw [hperp, hds]
    exact regularStrict_line n base sp hsp hn _ emin' emax' hb hcomplete hlt hint hhint


theorem mapM_getElem?_map {α β : Type} (f : α → β) (l : List α) (ks : List Nat) (vs : List α)
    (h : ks.mapM (fun k => l[k]?) = some vs) : ks.mapM (fun k => (l.map f)[k]?) = some (vs.map f) := by
  induction ks generalizing vs with
  | nil => simp at h ⊢; exact h ▸ rfl
  | cons a t ih =>
    rw [List.mapM_cons] at h ⊢
    rw [List.getElem?_map]
    cases ha : l[a]? with
    | none => rw [ha] at h; simp at h
    | some v =>
      rw [ha] at h
      simp only [Option.pure_def, Option.bind_eq_bind, Option.bind_some, Option.map_some] at h ⊢
      cases ht : t.mapM (fun k => l[k]?) with
      | none => rw [ht] at h; simp at h
      | some vt =>
        rw [ht] at h
        simp only [Option.bind_some, Option.some.injEq] at h
        subst h
        rw [ih vt ht]
        simp

theorem mapM_getElem?_mem {α : Type} (l : List α) (ks : List Nat) (vs : List α)
    (h : ks.mapM (fun k => l[k]?) = some vs) : ∀ v ∈ vs, v ∈ l := by
  induction ks generalizing vs with
  | nil => simp at h; subst h; simp
  | cons a t ih =>
    rw [List.mapM_cons] at h
    cases ha : l[a]? with
    | none => rw [ha] at h; simp at h
    | some v =>
      rw [ha] at h
      simp only [Option.pure_def, Option.bind_eq_bind, Option.bind_some] at h
      cases ht : t.mapM (fun k => l[k]?) with
      | none => rw [ht] at h; simp at h
      | some vt =>
        rw [ht] at h
        simp only [Option.bind_some, Option.some.injEq] at h
        subst h
        intro x hx
        rcases List.mem_cons.mp hx with rfl | hx
        · exact List.mem_of_getElem? ha
        · exact ih vt ht x hx

/-- **The spacing a segmentation records for a regular source stack is the stack's spacing**: source planes at
`base + (e·sp)·n`, the `e` pairwise different and filling an interval of at least two integers, in any order;
a value already present in the source's pixel measures is kept. -/
theorem recordedHint_regular (rowCos colCos base : V3) (sp : Rat) (hsp : 0 < sp)
    (hn : dot (normal rowCos colCos) (normal rowCos colCos) = 1) (es : List Int) (emin emax : Int)
    (hemin : emin ∈ es) (hemax : emax ∈ es) (hb : ∀ e ∈ es, emin ≤ e ∧ e ≤ emax)
    (hcomplete : ∀ z, emin ≤ z → z ≤ emax → z ∈ es) (hlt : emin < emax) (hnodup : es.Nodup)
    (srcHint : Option Rat) (hsrc : srcHint = none ∨ srcHint = some sp) :
    recordedHint srcHint (es.map (linePos (normal rowCos colCos) base sp)) rowCos colCos = .ok (some sp) := by
  have hlen : ¬ ((es.map (linePos (normal rowCos colCos) base sp)).length ≤ 1) := by
    rw [List.length_map]
    match es, hemin, hemax with
    | [], h, _ => cases h
    | [a], h1, h2 =>
      simp only [List.mem_singleton] at h1 h2
      omega
    | _ :: _ :: _, _, _ => simp
  unfold recordedHint
  rcases hsrc with rfl | rfl
  · simp only [if_neg hlen]
    rw [volumePositions_line_strict rowCos colCos base sp hsp hn es emin emax hemin hemax hb hcomplete hlt none
      (Or.inl rfl) false (Or.inr hnodup)]
  · rfl


/-- a tiled segmentation written from a SLIDE volume reports a geometry whose plane is the volume's plane 0 -/
theorem tiled_store_geometry {g : Geom} (hg : Admissible g) :
    ∃ full, volumeGeometryTiled (storeTiled g).origin (storeTiled g).rowCos (storeTiled g).colCos (storeTiled g).psRow
        (storeTiled g).psCol (storeTiled g).sbs = .ok full ∧
      ∀ r c : Int, full.apply 0 r c = g.aff.apply 0 r c := by
  unfold volumeGeometryTiled storeTiled
  simp only [defaultSpacing]
  rw [fromAttributes_ok _ _ _ _ _ _ hg.s1 hg.s2 hg.on.bc]
  refine ⟨_, rfl, ?_⟩
  intro r c
  have := geom_apply_nat g 0 r c
  simp only [Nat.cast_zero] at this
  rw [this]
  unfold Aff.apply
  generalize normal g.d2 g.d1 = n
  generalize planePosition g 0 = p
  obtain ⟨nx, ny, nz⟩ := n
  obtain ⟨px, py, pz⟩ := p
  obtain ⟨bx, b_y, bz⟩ := g.d1
  obtain ⟨cx, cy, cz⟩ := g.d2
  simp only [add, smul, V3.mk.injEq]
  push_cast
  refine ⟨by ring, by ring, by ring⟩


/-! ## robustness of the placement against rounding of positions and spacing -/

/-- Cauchy–Schwarz over ℚ³ (Lagrange identity) -/
theorem dot_sq_le (a b : V3) : dot a b * dot a b ≤ dot a a * dot b b := by
  have h : dot a a * dot b b - dot a b * dot a b = dot (cross a b) (cross a b) := by
    cases a; cases b; simp only [dot, cross]; ring
  have h2 : 0 ≤ dot (cross a b) (cross a b) := by
    cases hc : cross a b with
    | mk x y z => simp only [dot]; nlinarith [mul_self_nonneg x, mul_self_nonneg y, mul_self_nonneg z]
  linarith

theorem abs_le_of_sq_le {x b : Rat} (hb : 0 ≤ b) (h : x * x ≤ b * b) : -b ≤ x ∧ x ≤ b := by
  constructor <;> nlinarith [sq_nonneg (x - b), sq_nonneg (x + b)]

/-- find? on positions with injective distances -/
theorem find_mono (n : V3) (P : Int → V3) (hinj : ∀ e e', dot n (P e) = dot n (P e') → e = e') (es : List Int)
    (e : Int) (he : e ∈ es) :
    (es.map P).find? (fun p => dot n p == dot n (P e)) = some (P e) := by
  cases h : (es.map P).find? (fun p => dot n p == dot n (P e)) with
  | none =>
    rw [List.find?_eq_none] at h
    have := h (P e) (List.mem_map.mpr ⟨e, he, rfl⟩)
    simp at this
  | some p1 =>
    have hp := List.find?_some h
    have hm := List.mem_of_find?_eq_some h
    obtain ⟨e', _, rfl⟩ := List.mem_map.mp hm
    simp only [beq_iff_eq] at hp
    rw [hinj e' e hp]

/-- extremes for positions whose distance along `n` increases strictly with the multiple -/
theorem extremes_mono (n : V3) (P : Int → V3) (hmono : ∀ e e', e < e' → dot n (P e) < dot n (P e')) (e0 : Int) (t : List Int) :
    ∃ emin ∈ e0 :: t, ∃ emax ∈ e0 :: t, (∀ e ∈ e0 :: t, emin ≤ e ∧ e ≤ emax) ∧
      extremes ((e0 :: t).map P) n (P e0) = some (dot n (P emin), dot n (P emax), P emin, P emax) := by
  have hinj : ∀ e e', dot n (P e) = dot n (P e') → e = e' := by
    intro e e' h
    rcases lt_trichotomy e e' with hl | he | hg
    · have := hmono e e' hl; linarith
    · exact he
    · have := hmono e' e hg; linarith
  have hle : ∀ e e', dot n (P e) ≤ dot n (P e') → e ≤ e' := by
    intro e e' h
    by_contra hc
    have := hmono e' e (by omega); linarith
  set es := e0 :: t with hes
  set f : Int → Rat := fun e => dot n (P e) with hf
  have hds : (es.map P).map (dot n) = es.map f := by rw [List.map_map]; rfl
  have hmem := listMin_mem (f e0) (es.map f)
  have hmem' : listMin (f e0) (es.map f) ∈ es.map f := by
    rcases List.mem_cons.mp hmem with h | h
    · rw [h]; exact List.mem_map.mpr ⟨e0, by simp [hes], rfl⟩
    · exact h
  obtain ⟨emin, hemin, hmin⟩ := List.mem_map.mp hmem'
  have hlemin := listMin_le (f e0) (es.map f)
  have hMmem := listMax_mem (f e0) (es.map f)
  have hMmem' : listMax (f e0) (es.map f) ∈ es.map f := by
    rcases List.mem_cons.mp hMmem with h | h
    · rw [h]; exact List.mem_map.mpr ⟨e0, by simp [hes], rfl⟩
    · exact h
  obtain ⟨emax, hemax, hmax⟩ := List.mem_map.mp hMmem'
  have hge := listMax_ge (f e0) (es.map f)
  refine ⟨emin, hemin, emax, hemax, ?_, ?_⟩
  · intro e he
    have h1 := hlemin (f e) (List.mem_cons_of_mem _ (List.mem_map.mpr ⟨e, he, rfl⟩))
    have h2 := hge (f e) (List.mem_cons_of_mem _ (List.mem_map.mpr ⟨e, he, rfl⟩))
    rw [← hmin] at h1
    rw [← hmax] at h2
    exact ⟨hle _ _ h1, hle _ _ h2⟩
  · have e1 : listMin (dot n (P e0)) (es.map f) = dot n (P emin) := hmin.symm
    have e2 : listMax (dot n (P e0)) (es.map f) = dot n (P emax) := hmax.symm
    exact extremes_of_inj n P hinj es (P e0) emin emax hemin hemax (by rw [hds]; exact e1) (by rw [hds]; exact e2)


/-- recorded positions: the ideal position on the line plus a rounding error of length ≤ sp/1000 that depends on
the plane only -/
structure Pert (n base : V3) (sp : Rat) (P : Int → V3) : Prop where
  near : ∀ e, ∃ ξ : V3, P e = add (linePos n base sp e) ξ ∧ dot ξ ξ ≤ (sp / 1000) * (sp / 1000)

/-- recorded positions at decimal-string precision: within `sp/100000` of the ideal position -/
structure PertF (n base : V3) (sp : Rat) (P : Int → V3) : Prop where
  near : ∀ e, ∃ ξ : V3, P e = add (linePos n base sp e) ξ ∧ dot ξ ξ ≤ (sp / 100000) * (sp / 100000)

theorem PertF.toPert {n base : V3} {sp : Rat} {P : Int → V3} (hsp : 0 < sp) (h : PertF n base sp P) : Pert n base sp P := by
  refine ⟨fun e => ?_⟩
  obtain ⟨ξ, h1, h2⟩ := h.near e
  refine ⟨ξ, h1, le_trans h2 ?_⟩
  nlinarith [mul_pos hsp hsp]

theorem dot_add_right (a b c : V3) : dot a (add b c) = dot a b + dot a c := by
  cases a; cases b; cases c; simp only [dot, add]; ring

theorem pert_dist {n base : V3} {sp : Rat} {P : Int → V3} (hsp : 0 < sp) (hn : dot n n = 1) (hP : Pert n base sp P) (e : Int) :
    ∃ η : Rat, dot n (P e) = dot n base + (e : Rat) * sp + η ∧ -(sp / 1000) ≤ η ∧ η ≤ sp / 1000 := by
  obtain ⟨ξ, hξ, hb⟩ := hP.near e
  refine ⟨dot n ξ, ?_, ?_⟩
  · rw [hξ, dot_add_right, dot_linePos _ _ _ _ hn]
  · have h1 := dot_sq_le n ξ
    rw [hn, one_mul] at h1
    exact abs_le_of_sq_le (by positivity) (le_trans h1 hb)

theorem pertF_dist {n base : V3} {sp : Rat} {P : Int → V3} (hsp : 0 < sp) (hn : dot n n = 1) (hP : PertF n base sp P) (e : Int) :
    ∃ η : Rat, dot n (P e) = dot n base + (e : Rat) * sp + η ∧ -(sp / 100000) ≤ η ∧ η ≤ sp / 100000 := by
  obtain ⟨ξ, hξ, hb⟩ := hP.near e
  refine ⟨dot n ξ, ?_, ?_⟩
  · rw [hξ, dot_add_right, dot_linePos _ _ _ _ hn]
  · have h1 := dot_sq_le n ξ
    rw [hn, one_mul] at h1
    exact abs_le_of_sq_le (by positivity) (le_trans h1 hb)

theorem pert_mono {n base : V3} {sp : Rat} {P : Int → V3} (hsp : 0 < sp) (hn : dot n n = 1) (hP : Pert n base sp P)
    (e e' : Int) (h : e < e') : dot n (P e) < dot n (P e') := by
  obtain ⟨η, h1, h2, h3⟩ := pert_dist hsp hn hP e
  obtain ⟨η', h1', h2', h3'⟩ := pert_dist hsp hn hP e'
  rw [h1, h1']
  have : (e : Rat) + 1 ≤ e' := by exact_mod_cast (by omega : e + 1 ≤ e')
  nlinarith

theorem round_near (x : Rat) (k : Int) (h1 : (k : Rat) - 1 / 2 < x) (h2 : x < (k : Rat) + 1 / 2) : roundHalfEven x = k := by
  unfold roundHalfEven
  by_cases hx : (k : Rat) ≤ x
  · have hf : x.floor = k := rat_floor_eq x k hx (by linarith)
    simp only [hf]
    have : x - (k : Rat) < 1 / 2 := by linarith
    rw [if_pos this]
  · have hx' : x < k := not_le.mp hx
    have hf : x.floor = k - 1 := rat_floor_eq x (k - 1) (by push_cast; linarith) (by push_cast; linarith)
    simp only [hf]
    have h3 : ¬ (x - (((k - 1 : Int)) : Rat) < 1 / 2) := by push_cast; linarith
    have h4 : 1 / 2 < x - (((k - 1 : Int)) : Rat) := by push_cast; linarith
    rw [if_neg h3, if_pos h4]
    ring


theorem rabs_le_iff (x b : Rat) : rabs x ≤ b ↔ -b ≤ x ∧ x ≤ b := by
  unfold rabs; split <;> constructor <;> intro h <;> (try constructor) <;> (first | linarith | (obtain ⟨h1, h2⟩ := h; linarith))

theorem rabs_intCast_nonneg (k : Int) (hk : 0 ≤ k) : rabs (k : Rat) = k := by
  unfold rabs
  have : ¬ ((k : Rat) < 0) := by
    have : (0 : Rat) ≤ k := by exact_mod_cast hk
    linarith
  rw [if_neg this]

/-- one multiple: the distance of plane `e` from the first plane, divided by the (rounded) spacing, rounds to
`e − emin` and passes the regularity test (within 1 % of a spacing of the whole multiple) -/
theorem multiple_pert {n base : V3} {sp : Rat} {P : Int → V3} (hsp : 0 < sp) (hn : dot n n = 1) (hP : PertF n base sp P)
    (sp' : Rat) (h1 : sp * (99999 / 100000) ≤ sp') (h2 : sp' ≤ sp * (100001 / 100000)) (emin e : Int) (hk0 : emin ≤ e)
    (hk1 : e - emin ≤ 500) :
    roundHalfEven ((dot n (P e) - dot n (P emin)) / sp') = e - emin ∧
    nearWhole ((dot n (P e) - dot n (P emin)) / sp') = true := by
  have hsp' : 0 < sp' := by nlinarith
  by_cases hz : e = emin
  · subst hz
    simp only [sub_self, zero_div]
    have hr : roundHalfEven (0 : Rat) = 0 := by have := round_intCast 0; simpa using this
    refine ⟨hr, ?_⟩
    unfold nearWhole
    rw [hr]
    simp [rabs, tolSpacing]
  · have hk : 1 ≤ e - emin := by omega
    obtain ⟨η, hd, hη1, hη2⟩ := pertF_dist hsp hn hP e
    obtain ⟨η0, hd0, hη01, hη02⟩ := pertF_dist hsp hn hP emin
    set k : Int := e - emin with hkdef
    set x : Rat := (dot n (P e) - dot n (P emin)) / sp' with hx
    have hkq : (k : Rat) = (e : Rat) - emin := by rw [hkdef]; push_cast; ring
    have hk1q : (1 : Rat) ≤ k := by exact_mod_cast hk
    have hk100 : (k : Rat) ≤ 500 := by exact_mod_cast hk1
    have key : (x - k) * sp' = (k : Rat) * (sp - sp') + (η - η0) := by
      rw [hx, hd, hd0, hkq]
      field_simp
      ring
    -- |x − k| ≤ (k + 2)/99999
    have hub : x - k ≤ ((k : Rat) + 2) / 99999 := by
      have : (x - k) * sp' ≤ (((k : Rat) + 2) / 99999) * sp' := by
        rw [key]; nlinarith
      exact le_of_mul_le_mul_right this hsp'
    have hlb : -(((k : Rat) + 2) / 99999) ≤ x - k := by
      have : (-(((k : Rat) + 2) / 99999)) * sp' ≤ (x - k) * sp' := by
        rw [key]; nlinarith
      exact le_of_mul_le_mul_right this hsp'
    have hr : roundHalfEven x = k := by apply round_near <;> linarith
    refine ⟨hr, ?_⟩
    unfold nearWhole tolSpacing
    rw [hr, decide_eq_true_eq, rabs_le_iff]
    constructor <;> linarith


theorem sub_add_linePos (n base : V3) (sp : Rat) (e e' : Int) (ξ ξ' : V3) :
    sub (add (linePos n base sp e) ξ) (add (linePos n base sp e') ξ') = add (smul (((e : Rat) - e') * sp) n) (sub ξ ξ') := by
  cases n; cases base; cases ξ; cases ξ'
  simp only [linePos, add, smul, sub, V3.mk.injEq]
  refine ⟨by ring, by ring, by ring⟩

theorem dot_sub_self_le (a b : V3) : dot (sub a b) (sub a b) ≤ 2 * dot a a + 2 * dot b b := by
  cases a with | mk ax ay az => cases b with | mk bx b_y bz =>
  simp only [dot, sub]
  nlinarith [sq_nonneg (ax + bx), sq_nonneg (ay + b_y), sq_nonneg (az + bz)]

/-- the span between the extreme recorded positions is still along the normal within the library's tolerance -/
theorem isPerp_pert {n base : V3} {sp : Rat} {P : Int → V3} (hsp : 0 < sp) (hn : dot n n = 1) (hP : Pert n base sp P)
    (emin emax : Int) (hlt : emin < emax) : isPerp n (sub (P emax) (P emin)) = true := by
  obtain ⟨ξ2, h2, b2⟩ := hP.near emax
  obtain ⟨ξ1, h1, b1⟩ := hP.near emin
  rw [h2, h1, sub_add_linePos]
  set a : Rat := ((emax : Rat) - emin) * sp with ha
  set w := sub ξ2 ξ1 with hw
  have hK : (1 : Rat) ≤ (emax : Rat) - emin := by
    have : (emin : Rat) + 1 ≤ emax := by exact_mod_cast (by omega : emin + 1 ≤ emax)
    linarith
  have ha1 : sp ≤ a := by rw [ha]; nlinarith
  have hW : dot w w ≤ 4 * ((sp / 1000) * (sp / 1000)) := by
    have := dot_sub_self_le ξ2 ξ1
    rw [← hw] at this
    linarith
  have hb := dot_sq_le n w
  rw [hn, one_mul] at hb
  -- |n·w| ≤ 2 sp / 1000
  have hbb : -(2 * (sp / 1000)) ≤ dot n w ∧ dot n w ≤ 2 * (sp / 1000) :=
    abs_le_of_sq_le (by positivity) (by nlinarith)
  have e1 : dot n (add (smul a n) w) = a + dot n w := by
    rw [dot_add_right]
    congr 1
    cases n; simp only [dot, smul] at *; linear_combination a * hn
  have e2 : dot (add (smul a n) w) (add (smul a n) w) = a * a + 2 * a * dot n w + dot w w := by
    cases hn' : n with | mk nx ny nz => cases hw' : w with | mk wx wy wz =>
    rw [hn'] at hn
    simp only [dot, smul, add] at *
    linear_combination (a * a) * hn
  unfold isPerp
  rw [e1, e2]
  set b := dot n w with hbdef
  set W := dot w w with hWdef
  have hs2 : 0 < sp * sp := by positivity
  have hq : sp * sp * ((499 / 500) * (499 / 500)) ≤ (a + b) * (a + b) := by
    have : sp * (499 / 500) ≤ a + b := by linarith [hbb.1]
    nlinarith
  have hm : a * a + 2 * a * b + W = (a + b) * (a + b) + (W - b * b) := by ring
  rw [hm]
  set Q := (a + b) * (a + b) with hQ
  have hbn := mul_self_nonneg b
  rw [Bool.and_eq_true, decide_eq_true_eq, decide_eq_true_eq]
  unfold tolPerp
  constructor
  · linarith
  · linarith


/-- **Placement is robust against rounding**: recorded positions within `sp/100000` of the ideal positions
`base + (e·sp)·n`, recorded spacing `sp'` within 0.001 % of `sp`, at most 501 slots: the volume positions are still
`e − min e` (and the spacing returned is the recorded one). -/
theorem volumePositions_robust (rowCos colCos base : V3) (sp : Rat) (hsp : 0 < sp)
    (hn : dot (normal rowCos colCos) (normal rowCos colCos) = 1) (P : Int → V3) (hPF : PertF (normal rowCos colCos) base sp P)
    (sp' : Rat) (h1 : sp * (99999 / 100000) ≤ sp') (h2 : sp' ≤ sp * (100001 / 100000))
    (es : List Int) (hes : es ≠ []) (hspan : ∀ e ∈ es, ∀ e' ∈ es, e' - e ≤ 500) :
    ∃ emin ∈ es, (∀ e ∈ es, emin ≤ e) ∧
      volumePositions (es.map P) rowCos colCos (some sp') true = .ok (some (sp', es.map (fun e => e - emin))) := by
  have hP := hPF.toPert hsp
  set n := normal rowCos colCos with hnd
  have hsp' : 0 < sp' := by nlinarith
  have hmono := pert_mono hsp hn hP
  have hinj : ∀ e e', dot n (P e) = dot n (P e') → e = e' := by
    intro e e' h
    rcases lt_trichotomy e e' with hl | he | hg
    · have := hmono e e' hl; linarith
    · exact he
    · have := hmono e' e hg; linarith
  match es, hes, hspan with
  | [e], _, _ =>
    refine ⟨e, by simp, by simp, ?_⟩
    unfold volumePositions
    rw [normHint_pos hsp']
    simp [defaultSpacing]
  | e0 :: e1 :: t, _, hspan =>
    have key : volumePositions ((e0 :: e1 :: t).map P) rowCos colCos (some sp') true
        = volumePositionsMany ((e0 :: e1 :: t).map P) (P e0) rowCos colCos (some sp') true true := by
      rw [List.map_cons, List.map_cons, volumePositions_cons2 _ _ _ _ _ _ hsp']
    rw [key]
    unfold volumePositionsMany
    simp only [Bool.not_true, Bool.false_and, Bool.false_eq_true, if_false]
    by_cases hall : ((e0 :: e1 :: t).map P).all (fun p => p == P e0) = true
    · rw [if_pos hall]
      have heq : ∀ e ∈ e0 :: e1 :: t, e = e0 := by
        intro e he
        rw [List.all_eq_true] at hall
        have := hall (P e) (List.mem_map.mpr ⟨e, he, rfl⟩)
        simp only [beq_iff_eq] at this
        exact hinj e e0 (by rw [this])
      refine ⟨e0, by simp, fun e he => le_of_eq (heq e he).symm, ?_⟩
      have hz : ((e0 :: e1 :: t).map P).map (fun _ => (0 : Int)) = (e0 :: e1 :: t).map (fun e => e - e0) := by
        rw [List.map_map]
        apply List.map_congr_left
        intro e he
        simp [heq e he]
      rw [hz]
      simp only [defaultSpacing]
    · rw [if_neg hall]
      obtain ⟨emin, hemin, emax, hemax, hbound, hext⟩ := extremes_mono n P hmono e0 (e1 :: t)
      refine ⟨emin, hemin, fun e he => (hbound e he).1, ?_⟩
      simp only [← hnd, hext]
      have hne : emin < emax := by
        by_contra hge
        apply hall
        rw [List.all_eq_true]
        intro p hp
        obtain ⟨e, he, rfl⟩ := List.mem_map.mp hp
        have h1 := hbound e he
        have h2 := hbound e0 (by simp)
        have : e = e0 := by omega
        simp [this]
      rw [isPerp_pert hsp hn hP emin emax hne]
      simp only [if_true]
      -- the multiples
      unfold regularMissing
      have hne0 : (sp' == 0) = false := by simpa using ne_of_gt hsp'
      simp only [hne0, Bool.false_eq_true, if_false, Bool.and_true]
      have hmult : ∀ e ∈ e0 :: e1 :: t,
          roundHalfEven ((dot n (P e) - dot n (P emin)) / sp') = e - emin ∧
          nearWhole ((dot n (P e) - dot n (P emin)) / sp') = true := by
        intro e he
        exact multiple_pert hsp hn hPF sp' h1 h2 emin e (hbound e he).1 (hspan emin hemin e he)
      have hall2 : ((((e0 :: e1 :: t).map P).map (dot n)).map (fun d => (d - dot n (P emin)) / sp')).all
          nearWhole = true := by
        rw [List.all_eq_true]
        intro m hm
        simp only [List.map_map, List.mem_map, Function.comp] at hm
        obtain ⟨e, he, rfl⟩ := hm
        exact (hmult e he).2
      rw [hall2]
      have hdist2 := dedup_round_distinct n P (e0 :: e1 :: t) (dot n (P emin)) sp' emin (fun e he => (hmult e he).1)
      simp only [hdist2, Bool.and_true, if_true, rabs_of_pos hsp']
      congr 3
      simp only [List.map_map]
      apply List.map_congr_left
      intro e he
      simp only [Function.comp]
      exact (hmult e he).1


/-! ## which planes are stored -/

theorem mem_nonemptyIdx (l : List Bool) (k : Nat) :
    k ∈ (l.zipIdx.filter (fun p => p.1)).map (fun p => p.2) ↔ l[k]? = some true := by
  simp only [List.mem_map, List.mem_filter]
  constructor
  · rintro ⟨⟨b, i⟩, ⟨hm, hb⟩, rfl⟩
    have := List.mem_zipIdx hm
    simp only [Nat.zero_le, Nat.zero_add, Nat.sub_zero, true_and] at this
    simp only at hb
    rw [List.getElem?_eq_getElem this.1, ← this.2, hb]
  · intro h
    have hk : k < l.length := by
      by_contra hc
      rw [List.getElem?_eq_none (by omega)] at h; cases h
    refine ⟨(true, k), ⟨List.mem_zipIdx_iff_getElem?.mpr (by simpa using h), rfl⟩, rfl⟩

theorem keptPlanes_contains (l : List Bool) (om : Bool) (k : Nat) (h : l[k]? = some true) : k ∈ keptPlanes l om := by
  unfold keptPlanes
  simp only
  split
  · exact (mem_nonemptyIdx l k).mpr h
  · have hk : k < l.length := by
      by_contra hc
      rw [List.getElem?_eq_none (by omega)] at h; cases h
    exact List.mem_range.mpr hk

theorem keptPlanes_bound (l : List Bool) (om : Bool) (k : Nat) (h : k ∈ keptPlanes l om) : k < l.length := by
  unfold keptPlanes at h
  simp only at h
  split at h
  · have := (mem_nonemptyIdx l k).mp h
    by_contra hc
    rw [List.getElem?_eq_none (by omega)] at this; cases this
  · exact List.mem_range.mp h

theorem keptPlanes_ne_nil (l : List Bool) (om : Bool) (hl : l ≠ []) : keptPlanes l om ≠ [] := by
  unfold keptPlanes
  simp only
  split
  · rename_i hc
    simp only [Bool.and_eq_true, Bool.not_eq_true', List.isEmpty_eq_false_iff] at hc
    exact hc.2
  · intro h
    have : l.length = 0 := by simpa using h
    exact hl (List.length_eq_zero_iff.mp this)

/-- a plane that is not stored when empty planes are omitted (and some plane is non-empty) is empty -/
theorem not_kept_is_empty (l : List Bool) (k : Nat) (hk : k < l.length) (h : k ∉ keptPlanes l true) : l[k]? = some false := by
  have : l[k]? ≠ some true := fun h' => h (keptPlanes_contains l true k h')
  rw [List.getElem?_eq_getElem hk] at this ⊢
  cases hb : l[k] with
  | true => rw [hb] at this; exact absurd rfl this
  | false => rfl


/-! ## frames must be distinguishable; single-frame images -/

/-- frames of pairwise different planes are distinguishable by position alone -/
theorem framesUnique_of_nodup (k : Kind) (st : Stack) (hc : st.chan = []) (h : st.pos.Nodup) : framesUnique k st = true := by
  unfold framesUnique
  cases k with
  | image => exact (allDistinct_iff_nodup _).mpr h
  | seg =>
    simp only [hc, List.length_nil]
    split
    · rename_i he
      have : st.pos = [] := by
        have h0 : st.pos.length = 0 := by
          have := he; simp only [beq_iff_eq] at this; exact this.symm
        exact List.length_eq_zero_iff.mp h0
      rw [this]; rfl
    · exact (allDistinct_iff_nodup _).mpr h

theorem planePosition_nodup {g : Geom} (hg : Admissible g) (ks : List Nat) (h : ks.Nodup) : (ks.map (planePosition g)).Nodup := by
  apply List.Nodup.map_on _ h
  intro x _ y _ hxy
  rw [planePosition_line hg, planePosition_line hg] at hxy
  have hn : dot (normal g.d2 g.d1) (normal g.d2 g.d1) = 1 := (stackOK_store hg []).unitN
  have hxy' := linePos_inj (normal g.d2 g.d1) g.p g.s0 hg.s0 hn (handInt g * (x : Int)) (handInt g * (y : Int)) (by rw [hxy])
  have h2 := handInt_sq g
  have : handInt g * (handInt g * (x : Int)) = handInt g * (handInt g * (y : Int)) := by rw [hxy']
  rw [← mul_assoc, ← mul_assoc, h2, one_mul, one_mul] at this
  exact_mod_cast this

theorem keptPlanes_nodup (l : List Bool) (om : Bool) : (keptPlanes l om).Nodup := by
  unfold keptPlanes
  simp only
  split
  · have hz : (l.zipIdx.map (fun p => p.2)).Nodup := by
      rw [List.zipIdx_map_snd]; exact List.nodup_range' ..
    have h1 : ((l.zipIdx.filter (fun p => p.1)).map (fun p => p.2)).Sublist (l.zipIdx.map (fun p => p.2)) :=
      (List.filter_sublist).map _
    exact hz.sublist h1
  · exact List.nodup_range

theorem singleFrameSpacing_eq (hint : Option Rat) :
    singleFrameSpacing (defaultSpacing hint)
      = (match normHint hint with
         | .error e => .error e
         | .ok h => .ok (defaultSpacing h)) := by
  cases hint with
  | none => unfold singleFrameSpacing normHint defaultSpacing; norm_num
  | some h =>
    unfold singleFrameSpacing normHint defaultSpacing rabs
    simp only
    by_cases h0 : h = 0
    · subst h0; simp
    · by_cases hneg : h < 0
      · have : ¬ (-h = 0) := by intro hh; apply h0; linarith
        simp [hneg, h0, this]
      · simp [hneg, h0]


/-- a single frame: `_get_stacked_volume_geometry` (the path `get_volume` takes) builds exactly the geometry of the
single-frame branch of `_get_volume_geometry` (the path `get_volume_geometry` takes), and refuses when it refuses -/
theorem stackedGeometry_single (st : Stack) (p : V3) (hp : st.pos = [p]) (rows cols : Int) (am : Bool) :
    stackedGeometry st rows cols am none none false
      = (match volumeGeometrySingle p st.rowCos st.colCos st.psRow st.psCol st.hint with
         | .error e => .error e
         | .ok a => .ok { aff := a, n := 1, rows := rows, cols := cols, frames := [(0, 0)] }) := by
  unfold stackedGeometry volumeGeometrySingle
  rw [hp, singleFrameSpacing_eq]
  unfold volumePositions
  cases hnh : normHint st.hint with
  | error e => rfl
  | ok h =>
    simp only [stackInitialSlices_eq, stackGeomSlice_eq]
    have hm : listMaxInt 0 [0] + 1 = 1 := by simp [listMaxInt, imax]
    rw [hm, (stdSlice_ok_iff none none 1 false (0, 1)).mpr (sliceSpec_default 1 (le_refl 1) false)]
    simp only [indexOf?, beq_self_eq_true, if_true, List.getElem?_cons_zero]
    cases hfa : fromAttributes p st.rowCos st.colCos st.psRow st.psCol (defaultSpacing h) with
    | error e => rfl
    | ok a =>
      simp only
      rw [getitemAxis_inrange 0 1 1 (le_refl 0) (by omega) (le_refl 1)]
      simp only [aff_shift_zero, sub_zero]
      have : framePositions [0] 0 1 = [(0, 0)] := by
        rw [framePositions_eq]; simp
      rw [this]


end HdVerif.SegGeomLemmas
