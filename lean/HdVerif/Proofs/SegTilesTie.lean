import HdVerif.Proofs.SegTiles
import HdVerif.Proofs.TilingCut
/-! C01 tie for tiled masks: the tiles `tileMask` cuts (`tilesOf`, plain list arithmetic) are the frames the source's own
functions produce -- `get_tile_array` (C04's `Tiling.getTileArray`, bounds regenerated as T6) at every offset of
`compute_tile_positions_per_frame` (`Tiling.tileOffsets`, tile counts regenerated as T7b), flattened row-major. -/
namespace HdVerif.SegEncodeLemmas
open HdVerif HdVerif.Gen HdVerif.SegEncode HdVerif.Tiling HdVerif.TilingLemmas

theorem nTiles_toNat (n t : Nat) (hn : 1 ≤ n) (ht : 1 ≤ t) : (nTiles (n : Int) (t : Int)).toNat = tilesAlong n t := by
  unfold nTiles tilesAlong
  have e1 : ((n : Int) - 1) = ((n - 1 : Nat) : Int) := by omega
  have e3 : ((n - 1 : Nat) : Int) / (t : Int) = (((n - 1) / t : Nat) : Int) := by norm_cast
  have e2 : n + t - 1 = (n - 1) + t := by omega
  rw [e1, e3, e2, Nat.add_div_right _ (by omega)]
  clear e1 e2 e3
  generalize (n - 1) / t = x
  omega

/-- the offsets of `compute_tile_positions_per_frame`, with natural-number tile indices -/
theorem tileOffsets_nat (R C tr tc : Nat) (hR : 1 ≤ R) (hC : 1 ≤ C) (htr : 1 ≤ tr) (htc : 1 ≤ tc) :
    tileOffsets (tr : Int) (tc : Int) (R : Int) (C : Int) =
      .ok ((List.range (tilesAlong R tr)).flatMap fun (k : Nat) => (List.range (tilesAlong C tc)).map fun (l : Nat) =>
        ((1 + (tc : Int) * (l : Int), 1 + (tr : Int) * (k : Int)) : Int × Int)) := by
  rw [tileOffsets_eq _ _ _ _ (by omega) (by omega) (by omega) (by omega)]
  unfold gridPos iota
  rw [nTiles_toNat R tr hR htr, nTiles_toNat C tc hC htc]
  simp only [List.flatMap_map, List.map_flatMap, List.map_map]
  rfl

/-- one tile through `get_tile_array` is the gathered tile -/
theorem tilePx_eq {α} (z : α) (R C tr tc : Nat) (htr : 1 ≤ tr) (htc : 1 ≤ tc) (px : List α) (k l : Nat)
    (hk : k * tr < R) (hl : l * tc < C) :
    tilePx z R C tr tc px ((1 + (tc : Int) * (l : Int), 1 + (tr : Int) * (k : Int)) : Int × Int) =
      .ok (gatherL z px (tileIdx R C tr tc k l)) := by
  unfold tilePx
  have hk' : (tr : Int) * (k : Int) < (R : Int) := by
    have : ((k * tr : Nat) : Int) < (R : Int) := by exact_mod_cast hk
    rw [Nat.cast_mul] at this; rw [Int.mul_comm]; exact this
  have hl' : (tc : Int) * (l : Int) < (C : Int) := by
    have : ((l * tc : Nat) : Int) < (C : Int) := by exact_mod_cast hl
    rw [Nat.cast_mul] at this; rw [Int.mul_comm]; exact this
  have hk0 : 0 ≤ (tr : Int) * (k : Int) := Int.mul_nonneg (by omega) (by omega)
  have hl0 : 0 ≤ (tc : Int) * (l : Int) := Int.mul_nonneg (by omega) (by omega)
  obtain ⟨fr, hfr, hspec⟩ := getTileArray_spec z (planeImg z C px) (R : Int) (C : Int) (1 + (tr : Int) * (k : Int))
    (1 + (tc : Int) * (l : Int)) (tr : Int) (tc : Int) (by omega) (by omega) (by omega) (by omega) (by omega) (by omega)
  simp only [hfr]
  congr 1
  unfold gatherL tileIdx
  rw [List.map_flatMap]
  apply List.flatMap_congr
  intro a ha
  rw [List.map_map]
  apply List.map_congr_left
  intro b hb
  have ha' := List.mem_range.mp ha
  have hb' := List.mem_range.mp hb
  rw [hspec (a : Int) (b : Int) (by omega) (by exact_mod_cast ha') (by omega) (by exact_mod_cast hb')]
  simp only [Function.comp]
  have ea : (1 + (tr : Int) * (k : Int) - 1 + (a : Int)) = ((k * tr + a : Nat) : Int) := by
    push_cast; rw [Int.mul_comm]; omega
  have eb : (1 + (tc : Int) * (l : Int) - 1 + (b : Int)) = ((l * tc + b : Nat) : Int) := by
    push_cast; rw [Int.mul_comm]; omega
  rw [ea, eb]
  by_cases hin : k * tr + a < R ∧ l * tc + b < C
  · have hin' : ((k * tr + a : Nat) : Int) < (R : Int) ∧ ((l * tc + b : Nat) : Int) < (C : Int) := by
      exact ⟨by exact_mod_cast hin.1, by exact_mod_cast hin.2⟩
    rw [if_pos hin', if_pos hin]
    unfold planeImg pick
    rw [if_pos ⟨by omega, by omega, hin'.2⟩]
    simp only [Int.toNat_natCast]
  · have hin' : ¬ (((k * tr + a : Nat) : Int) < (R : Int) ∧ ((l * tc + b : Nat) : Int) < (C : Int)) := by
      intro hc; apply hin; exact ⟨by exact_mod_cast hc.1, by exact_mod_cast hc.2⟩
    rw [if_neg hin', if_neg hin]
    rfl

theorem lt_of_lt_tilesAlong (n t k : Nat) (hn : 1 ≤ n) (ht : 1 ≤ t) (hk : k < tilesAlong n t) : k * t < n := by
  unfold tilesAlong at hk
  have h1 : (n + t - 1) / t * t ≤ n + t - 1 := Nat.div_mul_le_self _ _
  have h2 : (k + 1) * t ≤ (n + t - 1) / t * t := Nat.mul_le_mul_right t hk
  rw [Nat.succ_mul] at h2
  omega

/-- **Bridge (T6, T7b).**  The tiles the model cuts are `get_tile_array` at the offsets of
    `compute_tile_positions_per_frame`, in that order. -/
theorem tilesViaSource_eq {α} (z : α) (R C tr tc : Nat) (hR : 1 ≤ R) (hC : 1 ≤ C) (htr : 1 ≤ tr) (htc : 1 ≤ tc)
    (px : List α) : tilesViaSource z R C tr tc px = .ok (tilesOf z R C tr tc px) := by
  unfold tilesViaSource
  rw [tileOffsets_nat R C tr tc hR hC htr htc]
  simp only
  have := mapE_ok_of_forall (tilePx z R C tr tc px)
    (fun off : Int × Int => gatherL z px (tileIdx R C tr tc ((off.2 - 1) / (tr : Int)).toNat ((off.1 - 1) / (tc : Int)).toNat))
    ((List.range (tilesAlong R tr)).flatMap fun (k : Nat) => (List.range (tilesAlong C tc)).map fun (l : Nat) =>
        ((1 + (tc : Int) * (l : Int), 1 + (tr : Int) * (k : Int)) : Int × Int))
    (by
      intro off hoff
      obtain ⟨k, hk, hmem⟩ := List.mem_flatMap.mp hoff
      obtain ⟨l, hl, rfl⟩ := List.mem_map.mp hmem
      have hk' := lt_of_lt_tilesAlong R tr k hR htr (List.mem_range.mp hk)
      have hl' := lt_of_lt_tilesAlong C tc l hC htc (List.mem_range.mp hl)
      rw [tilePx_eq z R C tr tc htr htc px k l hk' hl']
      have e1 : ((1 + (tr : Int) * (k : Int) - 1) / (tr : Int)).toNat = k := by
        have : (1 + (tr : Int) * (k : Int) - 1) = (tr : Int) * (k : Int) := by omega
        rw [this, Int.mul_ediv_cancel_left _ (by omega)]; simp
      have e2 : ((1 + (tc : Int) * (l : Int) - 1) / (tc : Int)).toNat = l := by
        have : (1 + (tc : Int) * (l : Int) - 1) = (tc : Int) * (l : Int) := by omega
        rw [this, Int.mul_ediv_cancel_left _ (by omega)]; simp
      simp only [e1, e2])
  rw [this]
  congr 1
  unfold tilesOf
  rw [List.map_flatMap]
  apply List.flatMap_congr
  intro k _
  rw [List.map_map]
  apply List.map_congr_left
  intro l _
  simp only [Function.comp]
  have e1 : ((1 + (tr : Int) * (k : Int) - 1) / (tr : Int)).toNat = k := by
    have : (1 + (tr : Int) * (k : Int) - 1) = (tr : Int) * (k : Int) := by omega
    rw [this, Int.mul_ediv_cancel_left _ (by omega)]; simp
  have e2 : ((1 + (tc : Int) * (l : Int) - 1) / (tc : Int)).toNat = l := by
    have : (1 + (tc : Int) * (l : Int) - 1) = (tc : Int) * (l : Int) := by omega
    rw [this, Int.mul_ediv_cancel_left _ (by omega)]; simp
  rw [e1, e2]

end HdVerif.SegEncodeLemmas
