import HdVerif.Proofs.Tiling
import HdVerif.Generated.T5w
import HdVerif.Generated.T5g
import HdVerif.Generated.T4c
import HdVerif.Generated.T4fi
import HdVerif.Generated.T4fs
/-! C04 bridges: the hand-written glue of `Model/Tiling.lean` uses exactly the expressions of the current source
(regenerated on every run as `Generated/T5w.lean` — WHERE clause —, `T5g.lean` — missing-frame test —, `T4c.lean` —
argument forwarding of the two `get_tile_array` calls of the Segmentation constructor).  A change of a comparison
operator of the query, of the flags / organisation / comparison of the missing-frame test, or of an argument handed to
`get_tile_array` breaks one of these statements. -/
namespace HdVerif.TilingLemmas
open HdVerif HdVerif.Gen HdVerif.Tiling

/-- **WHERE clause**: the model's list filter is the regenerated predicate applied to the translated offset starts -/
theorem selected_eq_where (rs re cs ce th tw : Int) (r : LutRow) :
    selected rs re cs ce th tw r =
      (match tiledRegion rs re cs ce r.rp r.cp th tw with
       | .ok (ros, cos, _, _, _, _) =>
         (match tiledRegionWhere r.rp r.cp ros re cos ce rs cs with
          | .ok b => b
          | .error _ => false)
       | .error _ => false) := by
  unfold selected tiledRegionWhere
  cases tiledRegion rs re cs ce r.rp r.cp th tw with
  | error e => rfl
  | ok v =>
    obtain ⟨ros, cos, vf, hf, a, b⟩ := v
    simp only [ge_iff_le]

/-- the organisation string the missing-frame test looks at -/
def orgString (full : Bool) : String := if full then "TILED_FULL" else "TILED_SPARSE"

/-- **missing-frame test**: the regenerated test refuses exactly when the model's guard fires, and lets the read go on
otherwise (for a query without channel tables; `allow_missing_values` forces `allow_missing_combinations`) -/
theorem missingFrameTest_iff (amv am full : Bool) (vf hf n : Int) :
    (missingFrameTest amv am vf hf n (orgString full) = .error .runtime ↔
      (!(amv || am) && !full && decide (n ≠ vf * hf)) = true) ∧
    (missingFrameTest amv am vf hf n (orgString full) ≠ .error .runtime →
      missingFrameTest amv am vf hf n (orgString full) = .ok true) := by
  unfold missingFrameTest orgString
  cases amv <;> cases am <;> cases full <;> by_cases h : n = vf * hf <;> simp [h]

/-- the model's `readRegion` with the regenerated missing-frame test in place of its hand-written guard -/
theorem readRegion_uses_missingFrameTest {α} (z : α) (lut : List LutRow) (frames : List (Img α)) (rows cols th tw : Int)
    (chan : Option Int) (rs re cs ce : Option Int) (asIdx full am : Bool) :
    readRegion z lut frames rows cols th tw chan rs re cs ce asIdx full am =
      (if !(uniqueKey chan lut) then .error .runtime else
       match stdRowColIndices rs re cs ce rows cols asIdx false with
       | .error e => .error e
       | .ok (r0, r1, c0, c1) =>
         match tiledRegion r0 r1 c0 c1 0 0 th tw with
         | .error e => .error e
         | .ok (_, _, vf, hf, _, _) =>
           let sel := ((chanRows chan lut).filter (selected r0 r1 c0 c1 th tw)).mergeSort lutLe
           match missingFrameTest false am vf hf (sel.length : Int) (orgString full) with
           | .error e => .error e
           | .ok _ =>
             if r1 - r0 < 0 ∨ c1 - c0 < 0 then .error .value else
             match copyLoop frames r0 r1 c0 c1 th tw (r1 - r0) (c1 - c0) sel (fun _ _ => z) with
             | .error e => .error e
             | .ok out => .ok (r1 - r0, c1 - c0, out)) := by
  unfold readRegion expectedCount
  split
  · rfl
  · cases stdRowColIndices rs re cs ce rows cols asIdx false with
    | error e => rfl
    | ok v =>
      obtain ⟨r0, r1, c0, c1⟩ := v
      simp only
      cases tiledRegion r0 r1 c0 c1 0 0 th tw with
      | error e => rfl
      | ok w =>
        obtain ⟨ros, cos, vf, hf, a, b⟩ := w
        simp only
        unfold missingFrameTest orgString
        simp only [List.length_mergeSort]
        cases am <;> cases full <;>
          by_cases h : (((chanRows chan lut).filter (selected r0 r1 c0 c1 th tw)).length : Int) = vf * hf <;>
          (simp [h]; try rfl)

/-- **argument forwarding, emptiness scan**: `tileNonEmpty` hands `get_tile_array` exactly what `_get_nonempty_tile_indices` does
(row position as row offset, column position as column offset, tile rows, tile columns — in this order) -/
theorem tileNonEmpty_uses_call {α} [BEq α] (z : α) (R C tr tc : Int) (m : Int × Img α) (o : Int × Int) :
    tileNonEmpty z R C tr tc m o =
      (match nonemptyTileCall tr tc o.2 o.1 with
       | .error e => .error e
       | .ok (ro, co, a, b) =>
         match getTileArray z m.2 R C ro co a b with
         | .error e => .error e
         | .ok t => .ok (!(imgAllZero z t tr tc))) := by
  unfold tileNonEmpty nonemptyTileCall
  rfl

/-- **argument forwarding, tiling loop**: for both organisations the tile offsets are the plane position and the call hands
`get_tile_array` (row offset, column offset, Rows, Columns) -/
theorem ctorTileCall_forwarding (rowPos colPos tr tc : Int) :
    (match ctorTileOffsetsSparse rowPos colPos with
     | .ok (a, b) => ctorTileCall a b tr tc
     | .error e => .error e) = .ok (rowPos, colPos, tr, tc) ∧
    (match ctorTileOffsetsFull rowPos colPos with
     | .ok (a, b) => ctorTileCall a b tr tc
     | .error e => .error e) = .ok (rowPos, colPos, tr, tc) := by
  unfold ctorTileOffsetsSparse ctorTileOffsetsFull ctorTileCall
  exact ⟨rfl, rfl⟩

/-- one kept tile of the model's tiling loop, written with the regenerated call -/
theorem cutTilesAux_cons_uses_call {α} (z : α) (M : Img α) (R C tr tc ch : Int) (co ro : Int) (offs : List (Int × Int))
    (keep : List Bool) (base : Nat) :
    cutTilesAux z M R C tr tc ch ((co, ro) :: offs) (true :: keep) base =
      (match (match ctorTileOffsetsSparse ro co with
              | .ok (a, b) => ctorTileCall a b tr tc
              | .error e => .error e) with
       | .error e => .error e
       | .ok (a, b, c, d) =>
         match getTileArray z M R C a b c d with
         | .error e => .error e
         | .ok t =>
           if getTileShape R C a b c d ≠ .ok (c, d) then .error .value else
           match cutTilesAux z M R C tr tc ch offs keep (base + 1) with
           | .error e => .error e
           | .ok (rows, frs) => .ok (⟨a, b, base, ch⟩ :: rows, t :: frs)) := by
  rw [(ctorTileCall_forwarding ro co tr tc).1]
  simp only [cutTilesAux, if_true]
  cases getTileArray z M R C ro co tr tc with
  | error e => rfl
  | ok t =>
    simp only
    by_cases h : getTileShape R C ro co tr tc = .ok (tr, tc)
    · rw [if_neg (by simpa using h), if_neg (by simpa using h)]
      cases cutTilesAux z M R C tr tc ch offs keep (base + 1) with
      | error e => rfl
      | ok v => rfl
    · rw [if_pos (by simpa using h), if_pos (by simpa using h)]

/-- `Image.get_total_pixel_matrix` hands its four region arguments and `as_indices` on unchanged, with both missing-frame flags off -/
theorem imageTpmCall_forwarding (a b c d : Int) (ai : Bool) : imageTpmCall a b c d ai = .ok (a, b, c, d, ai, false, false) := by
  unfold imageTpmCall; rfl

/-- `Segmentation.get_total_pixel_matrix` hands them on unchanged, with both missing-frame flags on -/
theorem segTpmCall_forwarding (a b c d : Int) (ai : Bool) : segTpmCall a b c d ai = .ok (a, b, c, d, ai, true, true) := by
  unfold segTpmCall; rfl


end HdVerif.TilingLemmas
