import HdVerif.Proofs.PixelFlags
import HdVerif.Proofs.PixelPipeline
import HdVerif.Generated.T6j
import HdVerif.Generated.T6k
import HdVerif.Generated.T6m
import HdVerif.Generated.T6n
/-! C06: the hand-written parts of `Model/PixelPipeline.lean` use exactly the expressions the current source contains
(regenerated as `Generated/T6j.lean`, `T6k.lean`, `T6m.lean` on every run): the guards of the three searches and the four
"required but missing" refusals of `_CombinedPixelTransform.__init__`, the range test / affine step / branch order of
`__call__`, the order of the searched datasets and of the VOI search within one dataset. -/
namespace HdVerif.PixelTie
open HdVerif HdVerif.Gen HdVerif.PixelPipeline HdVerif.PixelFlags HdVerif.PixelPipelineLemmas

/-! ### `__init__` after the flag block (T6j) -/

/-- the rest of `__init__` written with the regenerated guards only -/
def stageFromGuards (useRw reqRw useMod reqMod useVoi reqVoi usePal useIcc reqIcc pres : Bool) (ct : CType) (p : Present) :
    Except ErrKind Stages := do
  let mono := ct == .mono
  let sRw ← searchRwvm useRw
  let hasRw := mono && sRw && p.rwvm
  let rRw ← refuseRwvm reqRw hasRw
  if mono && rRw then throw .runtime
  let sMod ← searchModality hasRw useMod
  let foundMod := mono && sMod && p.modality
  let rMod ← refuseModality reqMod foundMod foundMod
  if mono && rMod then throw .runtime
  let sVoi ← searchVoi hasRw useVoi
  let foundVoi := mono && sVoi && p.voi
  let rVoi ← refuseVoi reqVoi foundVoi foundVoi
  if mono && rVoi then throw .runtime
  let invert := mono && !hasRw && pres && p.inverse
  let pal := ct == .palette && usePal
  let sIcc ← searchIcc useIcc mono
  let icc := sIcc && p.icc
  let rIcc ← refuseIcc reqIcc icc
  if rIcc then throw .runtime
  pure ⟨hasRw, foundMod, foundVoi, invert, pal, icc⟩

/-- the model's `stageOutcome` with the flag block (T6a) followed by the regenerated guards -/
def stageOutcomeGen (fl : Flags) (ct : CType) (p : Present) : Except ErrKind Stages :=
  match cptFlags fl.rw.toOpt fl.mod.toOpt fl.voi.toOpt fl.pal.toOpt fl.icc.toOpt ct.name with
  | .error e => .error e
  | .ok (useRw, reqRw, useMod, reqMod, useVoi, reqVoi, usePal, _reqPal, useIcc, reqIcc) =>
    stageFromGuards useRw reqRw useMod reqMod useVoi reqVoi usePal useIcc reqIcc fl.pres ct p

/-- **Bridge (T6j).**  On every cell of the flag table the hand-written `stageOutcome` is the flag block followed by the
guards and refusals of the current source: a changed search guard (`not has_rwvm and use_voi`, `use_icc and not monochrome`
...) or refusal test breaks this statement. -/
theorem stageOutcome_uses_source_guards : ∀ (rw mod voi pal icc : Tri) (pres : Bool) (ct : CType) (a b c d e : Bool),
    stageOutcome ⟨rw, mod, voi, pal, icc, pres⟩ ct ⟨a, b, c, d, e⟩ = stageOutcomeGen ⟨rw, mod, voi, pal, icc, pres⟩ ct ⟨a, b, c, d, e⟩ := by
  decide +kernel

/-! ### `__call__` (T6k) -/

theorem callAffine_eq (x a b : Rat) : callAffine x a b = .ok (x * a + b) := by
  unfold callAffine
  by_cases ha : a = 1 <;> by_cases hb : b = 0 <;> simp [ha, hb]

/-- **Bridge (T6k).**  The slope / intercept branch of the model's `applyEff` is the regenerated range test followed by
the regenerated affine step (`* slope` unless 1, `+ intercept` unless 0 - the same number). -/
theorem applyEff_affine_uses_source (lo hi a b : Rat) (chk : Option (Rat × Rat)) (s : Int) :
    applyEff lo hi (.affine a b chk) s =
      (match chk with
       | some (first, last) =>
         match callRangeRefused first last (s : Rat) with
         | .ok true => .error .value
         | .ok false => (match callAffine (s : Rat) a b with | .ok y => .ok (.val y) | .error e => .error e)
         | .error e => .error e
       | none => match callAffine (s : Rat) a b with | .ok y => .ok (.val y) | .error e => .error e) := by
  simp only [applyEff, callAffine_eq, callRangeRefused]
  cases chk with
  | none => rfl
  | some fl =>
    obtain ⟨first, last⟩ := fl
    by_cases h : (s : Rat) < first ∨ (s : Rat) > last
    · have : (decide ((s : Rat) < first) || decide ((s : Rat) > last)) = true := by
        rcases h with h | h <;> simp [h]
      simp [h, this]
    · have h' := h
      push Not at h'
      have : (decide ((s : Rat) < first) || decide ((s : Rat) > last)) = false := by
        simp [not_lt.mpr h'.1, not_lt.mpr h'.2]
      simp [h, this]

/-- the constructor of the effective transform and the branch `__call__` takes (table, else slope / intercept, else
window, else nothing) -/
def effBranch : Eff → Int
  | .lut .. => 1 | .affine .. => 2 | .window .. => 3 | .ident => 0

/-- **Bridge (T6k).**  `applyEff` dispatches like the if / elif chain of the source: a table is applied by `apply_lut` with
the stored first mapped value and clip flag, else slope / intercept, else the window with the stored centre, width,
function and inversion. -/
theorem applyEff_branch_uses_source (lo hi : Rat) (e : Eff) (s : Int) :
    callBranch (effBranch e == 1) (effBranch e == 2) (effBranch e == 3) = .ok (effBranch e) ∧
    (∀ first data clip, e = .lut first data clip → applyEff lo hi e s = applyLut data first clip s) ∧
    (∀ fn c w inv, e = .window fn c w inv → applyEff lo hi e s = windowOut fn c w lo hi inv (s : Rat)) := by
  refine ⟨by cases e <;> rfl, ?_, ?_⟩
  · intro first data clip h; subst h; rfl
  · intro fn c w inv h; subst h; rfl

/-! ### search order (T6m) -/

/-- the dataset of a placement named as in the regenerated list -/
def pickDataset {α} (pl : Placed α) (own : Option α) : String → Option α
  | "perframe" => own
  | "shared" => pl.shared
  | "image" => pl.image
  | _ => none

/-- **Bridge (T6m).**  The candidates the model searches for frame `f` are the datasets of the current source in the
source's order with the source's shared-by-all-frames flags (per-frame item first, flagged not shared). -/
theorem candidates_follow_source_order {α} (pl : Placed α) (f : Nat) (own : Option α) (h : pl.perFrame[f]? = some own) :
    pl.candidates f = datasetOrder.map fun ks => (pickDataset pl own ks.1, ks.2) := by
  simp [Placed.candidates, h, datasetOrder, pickDataset]

/-- without per-frame functional groups the remaining datasets keep their order -/
theorem candidates_follow_source_order_no_perframe {α} (pl : Placed α) (f : Nat) (h : pl.perFrame[f]? = none) :
    pl.candidates f = (datasetOrder.filter fun ks => ks.1 != "perframe").map fun ks => (pickDataset pl none ks.1, ks.2) := by
  simp [Placed.candidates, h, datasetOrder, pickDataset]

/-- first present of a list of options -/
def firstSome {α} : List (Option α) → Option α
  | [] => none
  | some a :: _ => some a
  | none :: t => firstSome t

/-- **Bridge (T6m).**  Within one dataset the model prefers what the source's VOI search tests first. -/
theorem voiItem_follows_source_order {l w} (luts : Option l) (win : Option w) :
    voiItem luts win = firstSome (voiWithinDataset.map fun k => if k == "lut" then luts.map Sum.inl else win.map Sum.inr) := by
  cases luts <;> cases win <;> simp [voiItem, voiWithinDataset, firstSome]

/-! ### LUT descriptor constants (T6n) -/

set_option linter.unusedSimpArgs false in
/-- **Bridge (T6n).**  `numberOfEntries` of the model is the regenerated `LUT.number_of_entries` on the first descriptor
value (the constant 2^16 for a stored 0 comes from the source). -/
theorem numberOfEntries_uses_source (ds : LutDs) :
    numberOfEntries ds = (match descr ds 0 with | .ok v => lutNumberOfEntries v | .error e => .error e) := by
  unfold numberOfEntries lutNumberOfEntries
  cases descr ds 0 with
  | error e => rfl
  | ok v =>
    by_cases h : v = 0
    · subst h; rfl
    · have : (v == 0) = false := by simpa using h
      simp [h, this]

set_option linter.unusedSimpArgs false in
/-- **Bridge (T6n).**  `lutInit` refuses exactly what the admission tests of `LUT.__init__` refuse and stores the entry
count they compute (2^16 entries as 0), for arrays of uint8 / uint16. -/
theorem lutInit_uses_source (first : Int) (bits : Nat) (data : List Nat) (hb : bits = 8 ∨ bits = 16) :
    lutInit first bits data =
      (match lutInitCheck first (data.length : Int) with
       | .error e => .error e
       | .ok d0 => .ok ⟨[d0, first, (bits : Int)],
           encodeEntries bits data ++ (if bits = 8 ∧ data.length % 2 = 1 then [0] else [])⟩) := by
  have h5 : ¬ (bits ≠ 16 ∧ bits ≠ 8) := by rcases hb with rfl | rfl <;> simp
  unfold lutInit lutInitCheck
  by_cases h1 : first < 0
  · simp [h1]
  by_cases h2 : (65536 : Int) ≤ first
  · simp [h1, h2]
  have h2' : first < 65536 := by omega
  by_cases h3 : data = []
  · subst h3; simp [h1, h2, h2']
  have hl : 0 < data.length := List.length_pos_iff.mpr h3
  by_cases h4 : 65536 < data.length
  · simp [h1, h2, h2', h3, h4]
  have h4' : data.length ≤ 65536 := by omega
  by_cases h6 : data.length = 65536
  · have c : ((data.length : Int) = 65536) := by omega
    simp [h1, h2, h2', h3, h4, h4', h5, h6]
  · have c : ¬ ((data.length : Int) = 65536) := by omega
    simp [h1, h2, h2', h3, h4, h4', h5, h6, c]

end HdVerif.PixelTie
