import HdVerif.Proofs.TilingFull
import HdVerif.Model.TilingChannels
import HdVerif.Proofs.TilingChannels
/-! C04, write side: closed form of what the tiling loop of the Segmentation constructor stores — which (segment, tile) pairs, at
which frame index, in which order. -/
namespace HdVerif.TilingLemmas
open HdVerif HdVerif.Gen HdVerif.Tiling

/-- the offsets whose `keep` flag is set, in order -/
def keptOffs (offs : List (Int × Int)) (keep : List Bool) : List (Int × Int) :=
  ((offs.zip keep).filter (fun x => x.2)).map Prod.fst

theorem keptOffs_cons_true (o : Int × Int) (offs : List (Int × Int)) (ks : List Bool) :
    keptOffs (o :: offs) (true :: ks) = o :: keptOffs offs ks := by
  simp [keptOffs]

theorem keptOffs_cons_false (o : Int × Int) (offs : List (Int × Int)) (ks : List Bool) :
    keptOffs (o :: offs) (false :: ks) = keptOffs offs ks := by
  simp [keptOffs]

theorem keptOffs_sublist (offs : List (Int × Int)) (keep : List Bool) : (keptOffs offs keep).Sublist offs := by
  induction offs generalizing keep with
  | nil => simp [keptOffs]
  | cons o offs ih =>
    cases keep with
    | nil => simp [keptOffs]
    | cons k ks =>
      cases k with
      | true => rw [keptOffs_cons_true]; exact List.Sublist.cons_cons _ (ih ks)
      | false => rw [keptOffs_cons_false]; exact List.Sublist.cons _ (ih ks)

theorem keptOffs_allTrue (offs : List (Int × Int)) (keep : List Bool) (hl : keep.length = offs.length) (h : ∀ b ∈ keep, b = true) :
    keptOffs offs keep = offs := by
  induction offs generalizing keep with
  | nil => simp [keptOffs]
  | cons o offs ih =>
    cases keep with
    | nil => simp at hl
    | cons k ks =>
      have : k = true := h k (by simp)
      subst this
      rw [keptOffs_cons_true, ih ks (by simpa using hl) (fun b hb => h b (by simp [hb]))]

/-- membership in the kept offsets, by position -/
theorem mem_keptOffs (offs : List (Int × Int)) (keep : List Bool) (o : Int × Int) :
    o ∈ keptOffs offs keep ↔ ∃ t : Nat, offs[t]? = some o ∧ keep[t]? = some true := by
  induction offs generalizing keep with
  | nil => simp [keptOffs]
  | cons o' offs ih =>
    cases keep with
    | nil => simp [keptOffs]
    | cons k ks =>
      cases k with
      | true =>
        rw [keptOffs_cons_true, List.mem_cons, ih ks]
        constructor
        · rintro (rfl | ⟨t, h1, h2⟩)
          · exact ⟨0, by simp, by simp⟩
          · exact ⟨t + 1, by simpa using h1, by simpa using h2⟩
        · rintro ⟨t, h1, h2⟩
          cases t with
          | zero => left; simpa using h1.symm
          | succ t => right; exact ⟨t, by simpa using h1, by simpa using h2⟩
      | false =>
        rw [keptOffs_cons_false, ih ks]
        constructor
        · rintro ⟨t, h1, h2⟩
          exact ⟨t + 1, by simpa using h1, by simpa using h2⟩
        · rintro ⟨t, h1, h2⟩
          cases t with
          | zero => simp at h2
          | succ t => exact ⟨t, by simpa using h1, by simpa using h2⟩

theorem rowsOf_cons (ch : Int) (o : Int × Int) (l : List (Int × Int)) (base : Nat) :
    rowsOf ch (o :: l) base = ⟨o.2, o.1, base, ch⟩ :: rowsOf ch l (base + 1) := by
  simp [rowsOf, List.zipIdx_cons]

/-- **closed form of the tiling loop for one segment**: the stored rows are the kept offsets in order, frame indices counting up -/
theorem cutTilesAux_closed {α} (z : α) (M : Img α) (R C tr tc ch : Int) (offs : List (Int × Int)) :
    ∀ (keep : List Bool) (base : Nat) (rows : List LutRow) (frs : List (Img α)),
    cutTilesAux z M R C tr tc ch offs keep base = .ok (rows, frs) →
    rows = rowsOf ch (keptOffs offs keep) base ∧ frs.length = (keptOffs offs keep).length := by
  induction offs with
  | nil =>
    intro keep base rows frs h
    unfold cutTilesAux at h
    simp only [Except.ok.injEq, Prod.mk.injEq] at h
    obtain ⟨rfl, rfl⟩ := h
    simp [rowsOf, keptOffs]
  | cons o offs ih =>
    intro keep base rows frs h
    obtain ⟨co, ro⟩ := o
    cases keep with
    | nil => simp [cutTilesAux] at h
    | cons k ks =>
      unfold cutTilesAux at h
      cases k with
      | true =>
        simp only [if_true] at h
        cases hg : getTileArray z M R C ro co tr tc with
        | error e => simp [hg] at h
        | ok t =>
          rw [hg] at h
          simp only at h
          split at h
          · simp at h
          cases hrec : cutTilesAux z M R C tr tc ch offs ks (base + 1) with
          | error e => simp [hrec] at h
          | ok v =>
            obtain ⟨rows', frs'⟩ := v
            rw [hrec] at h
            simp only [Except.ok.injEq, Prod.mk.injEq] at h
            obtain ⟨rfl, rfl⟩ := h
            obtain ⟨i1, i2⟩ := ih ks (base + 1) rows' frs' hrec
            rw [keptOffs_cons_true, rowsOf_cons, i1]
            simp [i2]
      | false =>
        simp only [Bool.false_eq_true, if_false] at h
        rw [keptOffs_cons_false]
        exact ih ks base rows frs h

/-- the kept (segment, row position, column position) triples of all segments: segments outermost in the order given, tiles in
the order of the offset list -/
def keptList (offs : List (Int × Int)) : List Int → List (List Bool) → List (Int × Int × Int)
  | ch :: chs, k :: ks => (keptOffs offs k).map (fun o => (ch, o.2, o.1)) ++ keptList offs chs ks
  | _, _ => []

/-- table rows for a list of (segment, row position, column position) triples, frame indices counting up from `base` -/
def rowsOfKept (l : List (Int × Int × Int)) (base : Nat) : List LutRow :=
  (l.zipIdx base).map (fun x => ⟨x.1.2.1, x.1.2.2, x.2, x.1.1⟩)

theorem rowsOfKept_append (l l' : List (Int × Int × Int)) (base : Nat) :
    rowsOfKept (l ++ l') base = rowsOfKept l base ++ rowsOfKept l' (base + l.length) := by
  simp [rowsOfKept, List.zipIdx_append]

theorem rowsOf_eq_kept (ch : Int) (l : List (Int × Int)) (base : Nat) :
    rowsOf ch l base = rowsOfKept (l.map (fun o => (ch, o.2, o.1))) base := by
  simp [rowsOf, rowsOfKept, List.zipIdx_map]

/-- **closed form of the tiling loop**: frame `base + n` is the `n`-th kept (segment, tile) pair -/
theorem cutSegments_closed {α} (z : α) (R C tr tc : Int) (offs : List (Int × Int)) :
    ∀ (Ms : List (Int × Img α)) (keep : List (List Bool)) (base : Nat) (rows : List LutRow) (frames : List (Img α)),
    cutSegments z R C tr tc offs Ms keep base = .ok (rows, frames) →
    rows = rowsOfKept (keptList offs (Ms.map Prod.fst) keep) base ∧ frames.length = (keptList offs (Ms.map Prod.fst) keep).length := by
  intro Ms
  induction Ms with
  | nil =>
    intro keep base rows frames h
    unfold cutSegments at h
    simp only [Except.ok.injEq, Prod.mk.injEq] at h
    obtain ⟨rfl, rfl⟩ := h
    simp [keptList, rowsOfKept]
  | cons m Ms ih =>
    intro keep base rows frames h
    obtain ⟨ch, M⟩ := m
    cases keep with
    | nil => simp [cutSegments] at h
    | cons k ks =>
      unfold cutSegments at h
      cases h1 : cutTilesAux z M R C tr tc ch offs k base with
      | error e => simp [h1] at h
      | ok v =>
        obtain ⟨rows1, frs1⟩ := v
        rw [h1] at h
        simp only at h
        cases h2 : cutSegments z R C tr tc offs Ms ks (base + frs1.length) with
        | error e => simp [h2] at h
        | ok v =>
          obtain ⟨rows2, frs2⟩ := v
          rw [h2] at h
          simp only [Except.ok.injEq, Prod.mk.injEq] at h
          obtain ⟨rfl, rfl⟩ := h
          obtain ⟨a1, a2⟩ := cutTilesAux_closed z M R C tr tc ch offs k base rows1 frs1 h1
          obtain ⟨b1, b2⟩ := ih ks (base + frs1.length) rows2 frs2 h2
          simp only [List.map_cons, keptList]
          rw [rowsOfKept_append, a1, b1, rowsOf_eq_kept, a2]
          simp [a2, b2]

theorem keptList_sublist (offs : List (Int × Int)) : ∀ (chs : List Int) (keep : List (List Bool)), keep.length = chs.length →
    (keptList offs chs keep).Sublist (chs.flatMap (fun c => offs.map (fun o => (c, o.2, o.1)))) := by
  intro chs
  induction chs with
  | nil => intro keep _; simp [keptList]
  | cons c chs ih =>
    intro keep hl
    cases keep with
    | nil => simp at hl
    | cons k ks =>
      simp only [keptList, List.flatMap_cons]
      exact List.Sublist.append ((keptOffs_sublist offs k).map _) (ih ks (by simpa using hl))

theorem keptList_allTrue (offs : List (Int × Int)) : ∀ (chs : List Int) (keep : List (List Bool)), keep.length = chs.length →
    (∀ k ∈ keep, k.length = offs.length ∧ ∀ b ∈ k, b = true) →
    keptList offs chs keep = chs.flatMap (fun c => offs.map (fun o => (c, o.2, o.1))) := by
  intro chs
  induction chs with
  | nil => intro keep _ _; simp [keptList]
  | cons c chs ih =>
    intro keep hl hk
    cases keep with
    | nil => simp at hl
    | cons k ks =>
      simp only [keptList, List.flatMap_cons]
      rw [keptOffs_allTrue offs k (hk k (by simp)).1 (hk k (by simp)).2, ih ks (by simpa using hl) (fun k' hk' => hk k' (by simp [hk']))]

/-- membership in the kept list, by segment position and tile position -/
theorem mem_keptList (offs : List (Int × Int)) : ∀ (chs : List Int) (keep : List (List Bool)) (c rp cp : Int),
    (c, rp, cp) ∈ keptList offs chs keep ↔
      ∃ (s : Nat) (k : List Bool) (t : Nat), chs[s]? = some c ∧ keep[s]? = some k ∧ offs[t]? = some (cp, rp) ∧ k[t]? = some true := by
  intro chs
  induction chs with
  | nil => intro keep c rp cp; simp [keptList]
  | cons c' chs ih =>
    intro keep c rp cp
    cases keep with
    | nil => simp [keptList]
    | cons k ks =>
      simp only [keptList, List.mem_append, List.mem_map]
      rw [ih ks c rp cp]
      constructor
      · rintro (⟨o, ho, he⟩ | ⟨s, k', t, h1, h2, h3, h4⟩)
        · simp only [Prod.mk.injEq] at he
          obtain ⟨rfl, rfl, rfl⟩ := he
          obtain ⟨t, h1, h2⟩ := (mem_keptOffs offs k o).mp ho
          exact ⟨0, k, t, by simp, by simp, by simpa using h1, h2⟩
        · exact ⟨s + 1, k', t, by simpa using h1, by simpa using h2, h3, h4⟩
      · rintro ⟨s, k', t, h1, h2, h3, h4⟩
        cases s with
        | zero =>
          left
          simp only [List.getElem?_cons_zero, Option.some.injEq] at h1 h2
          subst h1 h2
          exact ⟨(cp, rp), (mem_keptOffs offs _ _).mpr ⟨t, h3, h4⟩, rfl⟩
        | succ s =>
          right
          exact ⟨s, k', t, by simpa using h1, by simpa using h2, h3, h4⟩

/-- with `omit_empty_frames`: either every tile of every segment is empty (and all are kept), or exactly the non-empty ones are kept -/
theorem keepMask_omit_spec {α} [BEq α] (z : α) (Ms : List (Int × Img α)) (R C tr tc : Int) (offs : List (Int × Int))
    (keep : List (List Bool)) (h : keepMask z Ms R C tr tc offs true = .ok keep) :
    (∀ m ∈ Ms, ∀ o ∈ offs, ∃ tile, getTileArray z m.2 R C o.2 o.1 tr tc = .ok tile ∧ imgAllZero z tile tr tc = true) ∨
    (∀ (s t : Nat) (m : Int × Img α) (k : List Bool) (o : Int × Int), Ms[s]? = some m → keep[s]? = some k → offs[t]? = some o →
      k[t]? = some true → ∃ tile, getTileArray z m.2 R C o.2 o.1 tr tc = .ok tile ∧ imgAllZero z tile tr tc = false) := by
  unfold keepMask at h
  cases hne : Ms.mapM (fun m => offs.mapM (tileNonEmpty z R C tr tc m)) with
  | error e => rw [hne] at h; simp at h
  | ok ne =>
    rw [hne] at h
    simp only [Bool.not_true, Bool.false_eq_true, if_false] at h
    obtain ⟨n1, n2⟩ := mapM_ok_spec _ Ms ne hne
    -- what an entry of `ne` says
    have entry : ∀ (s t : Nat) (m : Int × Img α) (k : List Bool) (o : Int × Int) (b : Bool), Ms[s]? = some m → ne[s]? = some k →
        offs[t]? = some o → k[t]? = some b → ∃ tile, getTileArray z m.2 R C o.2 o.1 tr tc = .ok tile ∧ imgAllZero z tile tr tc = !b := by
      intro s t m k o b hm hk ho hkt
      obtain ⟨y, hy1, hy2⟩ := n2 s m hm
      rw [hk] at hy1
      simp only [Option.some.injEq] at hy1
      subst hy1
      obtain ⟨b', hb1, hb2⟩ := (mapM_ok_spec _ offs k hy2).2 t o ho
      rw [hkt] at hb1
      simp only [Option.some.injEq] at hb1
      subst hb1
      unfold tileNonEmpty at hb2
      cases hg : getTileArray z m.2 R C o.2 o.1 tr tc with
      | error e => rw [hg] at hb2; simp at hb2
      | ok tile =>
        rw [hg] at hb2
        simp only [Except.ok.injEq] at hb2
        exact ⟨tile, rfl, by rw [← hb2]; simp⟩
    split at h
    · -- everything empty
      rename_i hall
      left
      intro m hm o ho
      obtain ⟨s, hs⟩ := List.getElem?_of_mem hm
      obtain ⟨t, ht⟩ := List.getElem?_of_mem ho
      obtain ⟨k, hk1, hk2⟩ := n2 s m hs
      obtain ⟨b, hb1, _⟩ := (mapM_ok_spec _ offs k hk2).2 t o ht
      obtain ⟨tile, h1, h2⟩ := entry s t m k o b hs hk1 ht hb1
      have hb : b = false := by
        rw [List.all_eq_true] at hall
        have := hall k (List.mem_of_getElem? hk1)
        rw [List.all_eq_true] at this
        simpa using this b (List.mem_of_getElem? hb1)
      subst hb
      exact ⟨tile, h1, by simpa using h2⟩
    · right
      simp only [Except.ok.injEq] at h
      subst h
      intro s t m k o hm hk ho hkt
      obtain ⟨tile, h1, h2⟩ := entry s t m k o true hm hk ho hkt
      exact ⟨tile, h1, by simpa using h2⟩


theorem flatMap_swap_eq {α} (Ms : List (Int × α)) (G : List (Int × Int)) :
    (Ms.map Prod.fst).flatMap (fun c => (G.map (fun p => (p.2, p.1))).map (fun o => (c, o.2, o.1))) =
      Ms.flatMap (fun m => G.map (fun p => (m.1, p.1, p.2))) := by
  induction Ms with
  | nil => rfl
  | cons m Ms ih =>
    rw [List.map_cons, List.flatMap_cons, List.flatMap_cons, ih, List.map_map]
    rfl

/-- **What the constructor stores, in closed form** (explicit positions).  `kept` lists the stored (segment, row position, column
position) triples. -/
theorem tiledSegTable_stored {α} [BEq α] [LawfulBEq α] (z : α) (Ms : List (Int × Img α)) (R C tr tc : Int)
    (hr : 1 ≤ tr) (hc : 1 ≤ tc) (hR : 1 ≤ R) (hC : 1 ≤ C) (hnd : (Ms.map Prod.fst).Nodup) (omitEmpty : Bool)
    (rows : List LutRow) (frames : List (Img α)) (h : tiledSegTable z Ms R C tr tc false omitEmpty = .ok (rows, frames)) :
    ∃ kept : List (Int × Int × Int),
      kept.Sublist (Ms.flatMap (fun m => (gridPos R C tr tc).map (fun p => (m.1, p.1, p.2)))) ∧
      rows = rowsOfKept kept 0 ∧ frames.length = kept.length ∧
      (∀ (n : Nat) (c rp cp : Int), kept[n]? = some (c, rp, cp) →
        ∃ M t, (c, M) ∈ Ms ∧ frames[n]? = some t ∧ getTileArray z M R C rp cp tr tc = .ok t) ∧
      (omitEmpty = false → kept = Ms.flatMap (fun m => (gridPos R C tr tc).map (fun p => (m.1, p.1, p.2)))) ∧
      (∀ c M p, (c, M) ∈ Ms → p ∈ gridPos R C tr tc → (c, p.1, p.2) ∉ kept →
        ∃ t, getTileArray z M R C p.1 p.2 tr tc = .ok t ∧ imgAllZero z t tr tc = true) ∧
      ((∀ m ∈ Ms, ∀ p ∈ gridPos R C tr tc, ∃ t, getTileArray z m.2 R C p.1 p.2 tr tc = .ok t ∧ imgAllZero z t tr tc = true) ∨
        omitEmpty = false ∨
        (∀ c M rp cp, (c, M) ∈ Ms → (c, rp, cp) ∈ kept →
          ∃ t, getTileArray z M R C rp cp tr tc = .ok t ∧ imgAllZero z t tr tc = false)) := by
  have hoffs := tileOffsets_eq tr tc R C hr hc hR hC
  unfold tiledSegTable at h
  simp only [Bool.false_and, Bool.false_eq_true, if_false, hoffs] at h
  cases hkeep : keepMask z Ms R C tr tc ((gridPos R C tr tc).map (fun p => (p.2, p.1))) omitEmpty with
  | error e => rw [hkeep] at h; simp at h
  | ok keep =>
    rw [hkeep] at h
    simp only at h
    cases hcs : cutSegments z R C tr tc ((gridPos R C tr tc).map (fun p => (p.2, p.1))) Ms keep 0 with
    | error e => rw [hcs] at h; simp at h
    | ok v =>
      obtain ⟨rows', frames'⟩ := v
      rw [hcs] at h
      simp only [Except.ok.injEq, Prod.mk.injEq] at h
      obtain ⟨rfl, rfl⟩ := h
      obtain ⟨k1, k2, k3, k4⟩ := keepMask_spec z Ms R C tr tc _ omitEmpty keep hkeep
      obtain ⟨c1, c2⟩ := cutSegments_closed z R C tr tc _ Ms keep 0 rows' frames' hcs
      obtain ⟨s1, _, _⟩ := cutSegments_spec z R C tr tc _ Ms keep 0 rows' frames' hcs
      have hfst : ∀ (s : Nat) (c : Int) (M : Img α), Ms[s]? = some (c, M) → (Ms.map Prod.fst)[s]? = some c := by
        intro s c M hs; simp [hs]
      refine ⟨keptList ((gridPos R C tr tc).map (fun p => (p.2, p.1))) (Ms.map Prod.fst) keep, ?_, c1, c2, ?_, ?_, ?_, ?_⟩
      · have := keptList_sublist ((gridPos R C tr tc).map (fun p => (p.2, p.1))) (Ms.map Prod.fst) keep (by simp [k1])
        rw [flatMap_swap_eq] at this
        exact this
      · intro n c rp cp hn
        -- the n-th row of the table
        have hrow : rows'[n]? = some ⟨rp, cp, n, c⟩ := by
          rw [c1, rowsOfKept, List.getElem?_map, List.getElem?_zipIdx, hn]
          simp
        obtain ⟨_, _, m, hm, hmc, fr, hfr, hgt⟩ := s1 _ (List.mem_of_getElem? hrow)
        simp only at hmc hfr hgt
        refine ⟨m.2, fr, ?_, by simpa using hfr, hgt⟩
        have : m = (c, m.2) := Prod.ext hmc.symm rfl
        rw [← this]; exact hm
      · intro ho
        subst ho
        have := keptList_allTrue ((gridPos R C tr tc).map (fun p => (p.2, p.1))) (Ms.map Prod.fst) keep (by simp [k1])
          (fun k hk => by
            obtain ⟨s, hs⟩ := List.getElem?_of_mem hk
            refine ⟨k2 s k hs, fun b hb => ?_⟩
            obtain ⟨t, ht⟩ := List.getElem?_of_mem hb
            exact k4 rfl s t k b hs ht)
        rw [flatMap_swap_eq] at this
        exact this
      · intro c M p hM hp hnot
        obtain ⟨s, hs⟩ := List.getElem?_of_mem hM
        have ho : (p.2, p.1) ∈ (gridPos R C tr tc).map (fun p => (p.2, p.1)) := List.mem_map.mpr ⟨p, hp, rfl⟩
        obtain ⟨t, ht⟩ := List.getElem?_of_mem ho
        have hsl : s < keep.length := by
          have := (List.getElem?_eq_some_iff.mp hs).1; omega
        have hk : keep[s]? = some keep[s] := List.getElem?_eq_getElem hsl
        have htl : t < keep[s].length := by
          have := k2 s keep[s] hk
          have := (List.getElem?_eq_some_iff.mp ht).1
          omega
        have hkt : keep[s][t]? = some keep[s][t] := List.getElem?_eq_getElem htl
        cases hb : keep[s][t] with
        | true =>
          exfalso
          rw [hb] at hkt
          exact hnot ((mem_keptList _ _ _ c p.1 p.2).mpr ⟨s, keep[s], t, hfst s c M hs, hk, ht, hkt⟩)
        | false =>
          rw [hb] at hkt
          obtain ⟨tile, htile, hzero⟩ := k3 s t (c, M) keep[s] _ hs hk ht hkt
          exact ⟨tile, htile, hzero⟩
      · cases omitEmpty with
        | false => right; left; rfl
        | true =>
          rcases keepMask_omit_spec z Ms R C tr tc _ keep hkeep with hall | hne
          · left
            intro m hm p hp
            exact hall m hm (p.2, p.1) (List.mem_map.mpr ⟨p, hp, rfl⟩)
          · right; right
            intro c M rp cp hM hk
            obtain ⟨s, k, t, h1, h2, h3, h4⟩ := (mem_keptList _ _ _ c rp cp).mp hk
            -- the segment at position s is (c, M): numbers are distinct
            have hsl : s < Ms.length := by
              have := (List.getElem?_eq_some_iff.mp h1).1; simpa using this
            have hms : Ms[s]? = some Ms[s] := List.getElem?_eq_getElem hsl
            have hc' : (Ms[s]).1 = c := by
              have := hfst s (Ms[s]).1 (Ms[s]).2 (by simp)
              rw [h1] at this
              simpa using this.symm
            have hmeq : Ms[s] = (c, M) :=
              List.inj_on_of_nodup_map hnd (List.getElem_mem hsl) hM (by simpa using hc')
            rw [hmeq] at hms
            exact hne s t (c, M) k (cp, rp) hms h2 h3 h4


/-! ## LABELMAP: one stored matrix, read without a channel query -/

/-- a LABELMAP read is the plain region read; the state of the connection is not touched -/
theorem stepRead_labelmap {α} (z : α) (lut : List LutRow) (frames : List (Img α)) (R C th tw : Int) (full am : Bool)
    (rs re cs ce : Option Int) (ai : Bool) (st : TempState) :
    stepRead z lut frames R C th tw full am (labelmapRequest rs re cs ce ai) st =
      (st, match readRegion z lut frames R C th tw none rs re cs ce ai full am with
           | .error e => .error e
           | .ok (h, w, out) => .ok (h, w, fun _ => out)) := by
  unfold stepRead labelmapRequest
  simp only [if_true]
  cases readRegion z lut frames R C th tw none rs re cs ce ai full am with
  | error e => rfl
  | ok v => obtain ⟨h, w, o⟩ := v; simp

/-- **LABELMAP tile-then-read**: the label matrix `L` tiled by the constructor (stored as ONE channel, number 0) and read back without a
channel query, after any history: the requested part of `L`. -/
theorem tileThenHistory_labelmap {α} [BEq α] [LawfulBEq α] (z : α) (L : Img α) (R C tr tc : Int)
    (hr : 1 ≤ tr) (hc : 1 ≤ tc) (hR : 1 ≤ R) (hC : 1 ≤ C) (full omitEmpty : Bool) (hfo : (full && omitEmpty) = false)
    (steps : List ChanRead) (n : Nat) (rs re cs ce : Option Int) (ai : Bool)
    (hstep : steps[n]? = some (labelmapRequest rs re cs ce ai)) (r0 r1 c0 c1 : Int)
    (hstd : stdRowColIndices rs re cs ce R C ai false = .ok (r0, r1, c0, c1)) (hr01 : r0 ≤ r1) (hc01 : c0 ≤ c1) :
    ∃ results out, tileThenHistory z [(0, L)] R C tr tc full omitEmpty steps = .ok results ∧
      results[n]? = some (.ok (r1 - r0, c1 - c0, out)) ∧
      ∀ (k : Int) i j, 0 ≤ i → i < r1 - r0 → 0 ≤ j → j < c1 - c0 → out k i j = L (r0 - 1 + i) (c0 - 1 + j) := by
  obtain ⟨g1, g2, g3, g4, g5, g6, g7, g8⟩ := stdRowCol_range_num hstd
  have hnd : (([((0 : Int), L)] : List (Int × Img α)).map Prod.fst).Nodup := by simp
  have htab : ∃ oe, tiledSegTable z [(0, L)] R C tr tc full omitEmpty = tiledSegTable z [(0, L)] R C tr tc false oe := by
    cases full with
    | false => exact ⟨omitEmpty, rfl⟩
    | true =>
      have : omitEmpty = false := by simpa using hfo
      subst this
      exact ⟨false, tiledSegTable_full_eq_sparse z _ R C tr tc hr hc hR hC⟩
  obtain ⟨oe, htab⟩ := htab
  obtain ⟨rows, frames, hrows, hu, hspec⟩ := tiledSegTable_sparse_spec z [(0, L)] R C tr tc hr hc hR hC hnd oe
  obtain ⟨hcut, hzero⟩ := hspec 0 L (by simp)
  -- every stored row belongs to channel 0
  have hch : ∀ r ∈ rows, r.ch = 0 := by
    obtain ⟨kept, hsub, hrk, _⟩ := tiledSegTable_stored z [(0, L)] R C tr tc hr hc hR hC hnd oe rows frames hrows
    intro r hrm
    rw [hrk, rowsOfKept, List.mem_map] at hrm
    obtain ⟨x, hx, rfl⟩ := hrm
    have hk : x.1 ∈ kept := (List.mem_zipIdx hx).2.2 ▸ List.getElem_mem _
    have := hsub.subset hk
    simp only [List.flatMap_cons, List.flatMap_nil, List.append_nil, List.mem_map] at this
    obtain ⟨p, _, hp⟩ := this
    rw [← hp]
  have hfilter : chanRows (some 0) rows = rows := by
    unfold chanRows
    exact List.filter_eq_self.mpr (fun r hrm => by simpa using hch r hrm)
  have hmapid : rows.map (fun r => { r with ch := 0 }) = rows := by
    conv_rhs => rw [← List.map_id rows]
    apply List.map_congr_left
    intro r hrm
    have := hch r hrm
    cases r
    simp only at this
    simp [this]
  have hu' : uniqueKey none rows = true := by
    unfold uniqueKey
    simp only
    rw [hmapid]
    exact hu
  rw [hfilter] at hcut hzero
  obtain ⟨out, hout, hpix⟩ := readRegion_general z L rows frames R C tr tc none rs re cs ce ai full true hr hc hu'
    (by unfold chanRows; exact hcut) r0 r1 c0 c1 hstd (Or.inl rfl) hr01 hc01
  refine ⟨(runHistory z rows frames R C tr tc full true steps none).1, fun _ => out, ?_, ?_, ?_⟩
  · unfold tileThenHistory
    rw [htab, hrows]
  · rw [runHistory_indep, List.getElem?_map, hstep]
    simp only [Option.map_some, stepRead_labelmap, hout]
  · intro k i j hi0 hi1 hj0 hj1
    show out i j = L (r0 - 1 + i) (c0 - 1 + j)
    obtain ⟨p1, p2⟩ := hpix i j hi0 hi1 hj0 hj1
    unfold chanRows at p1 p2
    by_cases hcov : ∃ r ∈ rows, inTile tr tc r (r0 + i) (c0 + j)
    · exact p1 hcov
    · rw [p2 hcov]
      have := hzero (r0 + i) (c0 + j) (by omega) (by omega) (by omega) (by omega) hcov
      rw [← this]
      congr 1 <;> omega


/-! ## Table locks: with the cursor closed on exit the lock-free machine is the whole story -/

theorem tempOpL_unlocked (op : Nat × Bool) (data : ChanTable) (st : TempState) : tempOpL false op data st = tempOp op data st := by
  simp [tempOpL]

theorem runOpsL_unlocked : ∀ (ops : List (Nat × Bool)) (data : ChanTable) (st : TempState), runOpsL false ops data st = runOps ops data st := by
  intro ops
  induction ops with
  | nil => intro data st; rfl
  | cons op ops ih =>
    intro data st
    simp only [runOpsL, runOps, tempOpL_unlocked]
    cases tempOp op data st with
    | mk st' e =>
      cases e with
      | none => exact ih data st'
      | some e => rfl

/-- if the iterator closes the cursor of its frame query on every exit, a read on an unlocked connection is the read of the lock-free
machine and leaves the connection unlocked — whether the caller keeps exceptions or not -/
theorem stepReadL_closed {α} (z : α) (lut : List LutRow) (frames : List (Img α)) (rows cols th tw : Int) (full am kept : Bool)
    (q : ChanRead) (st : TempState) :
    stepReadL z lut frames rows cols th tw full am true kept q ⟨st, false⟩ =
      (⟨(stepRead z lut frames rows cols th tw full am q st).1, false⟩, (stepRead z lut frames rows cols th tw full am q st).2) := by
  unfold stepReadL stepRead
  simp only [runOpsL_unlocked, Bool.not_true, Bool.and_false, Bool.false_and]
  by_cases hl : q.labelmap = true
  · simp only [hl, if_true]
  · simp only [hl, Bool.false_eq_true, if_false]
    split
    · rfl
    · split
      · rfl
      · split
        · rfl
        · split
          · rfl
          · split
            · rfl
            · split <;> rfl

theorem runHistoryL_closed {α} (z : α) (lut : List LutRow) (frames : List (Img α)) (rows cols th tw : Int) (full am kept : Bool) :
    ∀ (steps : List ChanRead) (st : TempState),
    (runHistoryL z lut frames rows cols th tw full am true kept steps ⟨st, false⟩).1 =
      (runHistory z lut frames rows cols th tw full am steps st).1 := by
  intro steps
  induction steps with
  | nil => intro st; rfl
  | cons q qs ih =>
    intro st
    simp only [runHistoryL, runHistory, stepReadL_closed]
    rw [ih]


/-- the set-up on a locked, existing table: the DROP fails, nothing changes -/
theorem tempSetup_locked (data t : ChanTable) : runOpsL true tempTableSetup data (some t) = (some t, some .other) := by
  simp [tempTableSetup, runOpsL, tempOpL]

/-- **a refused read leaves a lock** (iterator that does not close its cursor, caller keeps the exception): if the frame query has
at least one row -/
theorem stepReadL_refused_locks {α} (z : α) (lut : List LutRow) (frames : List (Img α)) (rows cols th tw : Int) (full am : Bool)
    (q : ChanRead) (st : TempState) (r0 r1 c0 c1 cnt : Int)
    (hl : q.labelmap = false) (hu : uniquePos lut = true)
    (hstd : stdRowColIndices q.rs q.re q.cs q.ce rows cols q.asIdx false = .ok (r0, r1, c0, c1))
    (hcnt : expectedCount r0 r1 c0 c1 th tw = .ok cnt) (hk : (q.data.map Prod.fst).Nodup) (href : q.bodyRefuses = true)
    (r : LutRow) (hr : r ∈ lut) (hsel : selected r0 r1 c0 c1 th tw r = true) (t : Int × Int) (ht : t ∈ q.data) (htr : t.2 = r.ch) :
    stepReadL z lut frames rows cols th tw full am false true q ⟨st, false⟩ = (⟨some q.data, true⟩, .error .value) := by
  have hrows : (joinRows ((lut.filter (selected r0 r1 c0 c1 th tw)).mergeSort lutLe) q.data).isEmpty = false := by
    have hm : (r, t.1) ∈ joinRows ((lut.filter (selected r0 r1 c0 c1 th tw)).mergeSort lutLe) q.data := by
      unfold joinRows
      rw [List.mem_flatMap]
      refine ⟨r, (mem_sel_iff _ _ _ _ _ _ _ r).mpr ⟨hr, hsel⟩, ?_⟩
      rw [List.mem_map]
      exact ⟨t, by rw [List.mem_filter]; exact ⟨ht, by simp [htr]⟩, rfl⟩
    cases hj : joinRows ((lut.filter (selected r0 r1 c0 c1 th tw)).mergeSort lutLe) q.data with
    | nil => rw [hj] at hm; simp at hm
    | cons a l => rfl
  -- a clean-up in a `finally` would hit the locked table as well: the DROP fails, the table stays
  have hclean : (runOpsL true tempTableCleanup q.data (some q.data)).1 = some q.data := by
    simp [tempTableCleanup, runOpsL, tempOpL]
  unfold stepReadL
  by_cases hnc : tempTableCleanupOnError = true
  · simp only [hl, Bool.false_eq_true, if_false, hu, Bool.not_true, hstd, hcnt, runOpsL_unlocked, tempSetup_exact q.data st hk, href,
      if_true, hnc, hrows, Bool.not_false, Bool.and_self, hclean]
  · simp only [hl, Bool.false_eq_true, if_false, hu, Bool.not_true, hstd, hcnt, runOpsL_unlocked, tempSetup_exact q.data st hk, href,
      if_true, hnc, hrows, Bool.not_false, Bool.and_self]

/-- **a locked connection refuses every segment-aware read** that gets as far as the set-up -/
theorem stepReadL_locked_refuses {α} (z : α) (lut : List LutRow) (frames : List (Img α)) (rows cols th tw : Int) (full am closes kept : Bool)
    (q : ChanRead) (t : ChanTable) (r0 r1 c0 c1 cnt : Int)
    (hl : q.labelmap = false) (hu : uniquePos lut = true)
    (hstd : stdRowColIndices q.rs q.re q.cs q.ce rows cols q.asIdx false = .ok (r0, r1, c0, c1))
    (hcnt : expectedCount r0 r1 c0 c1 th tw = .ok cnt) :
    stepReadL z lut frames rows cols th tw full am closes kept q ⟨some t, true⟩ = (⟨some t, true⟩, .error .other) := by
  unfold stepReadL
  simp only [hl, Bool.false_eq_true, if_false, hu, Bool.not_true, hstd, hcnt, tempSetup_locked]


end HdVerif.TilingLemmas
