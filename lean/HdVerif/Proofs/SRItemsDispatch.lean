import HdVerif.Proofs.SRItems
/-! C13, round 2: the dispatch tables REGENERATED from `sr/value_types.py` (`Gen.srDispatch` = `python_types` of
`_get_content_item_class`, `Gen.srFromDatasetAsserts` = the value type each class's `from_dataset` asserts,
`Gen.srCtorValueType` = the value type each `__init__` writes, `Gen.c13ValueTypes` = `ValueTypeValues`) as a bijection
between the 15 value types and the 15 classes, with the two class → value-type tables as its inverse; and what follows
for parsing: every class's `from_dataset` refuses the data sets of each of the other 14 value types.

Every statement about a bare table is a closed term decided by the kernel: it fails when a row is added, dropped,
duplicated or points to another class. -/
namespace HdVerif.SRItemsDispatch
open HdVerif HdVerif.SRItems HdVerif.SRItemsLemmas

/-! ## the tables as finite maps -/

/-- keys of the dispatch table = member names of `ValueTypeValues`, each exactly once; classes each exactly once;
the class names are the 15 of the model -/
theorem dispatch_shape :
    (Gen.srDispatch.map (·.1)).Nodup ∧ (Gen.srDispatch.map (·.2)).Nodup ∧
    (∀ k ∈ Gen.srDispatch.map (·.1), k ∈ Gen.c13ValueTypes.map (·.1)) ∧
    (∀ k ∈ Gen.c13ValueTypes.map (·.1), k ∈ Gen.srDispatch.map (·.1)) ∧
    (∀ k ∈ Gen.srDispatch.map (·.2), k ∈ Cls.all.map Cls.pyName) ∧
    (∀ k ∈ Cls.all.map Cls.pyName, k ∈ Gen.srDispatch.map (·.2)) ∧
    Gen.srDispatch.length = 15 ∧ (Gen.c13ValueTypes.map (·.1)).Nodup ∧ (Gen.c13ValueTypes.map (·.2)).Nodup ∧
    (Cls.all.map Cls.pyName).Nodup := by
  refine ⟨by decide, by decide, by decide, by decide, by decide, by decide, by decide, by decide, by decide, by decide⟩

theorem lookup_of_mem_nodup {β} [DecidableEq β] : ∀ (l : List (String × β)) (k : String) (v : β),
    (l.map (·.1)).Nodup → (k, v) ∈ l → l.lookup k = some v
  | [], _, _, _, h => by cases h
  | (k', v') :: r, k, v, hn, h => by
    simp only [List.map_cons, List.nodup_cons] at hn
    simp only [List.mem_cons] at h
    rcases h with h | h
    · cases h; simp [List.lookup]
    · have hne : k ≠ k' := by
        intro e; subst e
        exact hn.1 (List.mem_map.mpr ⟨(k, v), h, rfl⟩)
      have : (k == k') = false := by simpa using hne
      simp only [List.lookup, this]
      exact lookup_of_mem_nodup r k v hn.2 h

/-- **the value type → class map is injective**: two value types dispatched to one class are the same value type -/
theorem dispatch_injective (vt1 vt2 c : String) (h1 : Gen.srDispatch.lookup vt1 = some c)
    (h2 : Gen.srDispatch.lookup vt2 = some c) : vt1 = vt2 := by
  have m1 := mem_of_lookup _ _ _ h1
  have m2 := mem_of_lookup _ _ _ h2
  have key : ∀ p ∈ Gen.srDispatch, ∀ q ∈ Gen.srDispatch, p.2 = q.2 → p.1 = q.1 := by decide
  exact key _ m1 _ m2 rfl

/-- **the class → asserted value type table is the inverse of the value type → class table** (and so is the
class → written value type table): `C.from_dataset` asserts `vt` ⇔ `vt` is dispatched to `C` ⇔ `C.__init__` writes `vt` -/
theorem asserts_inverse_of_dispatch (c vt : String) :
    (Gen.srFromDatasetAsserts.lookup c = some vt ↔ Gen.srDispatch.lookup vt = some c) ∧
    (Gen.srCtorValueType.lookup c = some vt ↔ Gen.srDispatch.lookup vt = some c) := by
  have hd : (Gen.srDispatch.map (·.1)).Nodup := by decide
  have ha : (Gen.srFromDatasetAsserts.map (·.1)).Nodup := by decide
  have hc : (Gen.srCtorValueType.map (·.1)).Nodup := by decide
  have k1 : ∀ p ∈ Gen.srFromDatasetAsserts, (p.2, p.1) ∈ Gen.srDispatch := by decide
  have k2 : ∀ p ∈ Gen.srDispatch, (p.2, p.1) ∈ Gen.srFromDatasetAsserts := by decide
  have k3 : ∀ p ∈ Gen.srCtorValueType, (p.2, p.1) ∈ Gen.srDispatch := by decide
  have k4 : ∀ p ∈ Gen.srDispatch, (p.2, p.1) ∈ Gen.srCtorValueType := by decide
  refine ⟨⟨fun h => ?_, fun h => ?_⟩, ⟨fun h => ?_, fun h => ?_⟩⟩
  · exact lookup_of_mem_nodup _ _ _ hd (k1 _ (mem_of_lookup _ _ _ h))
  · exact lookup_of_mem_nodup _ _ _ ha (k2 _ (mem_of_lookup _ _ _ h))
  · exact lookup_of_mem_nodup _ _ _ hd (k3 _ (mem_of_lookup _ _ _ h))
  · exact lookup_of_mem_nodup _ _ _ hc (k4 _ (mem_of_lookup _ _ _ h))

/-- **exactly one class per value type**: total (every member of `ValueTypeValues` has a row) and functional (the row
is unique, by `lookup`), and that class is one of the model's 15 -/
theorem dispatch_exactly_one (p : String × String) (hp : p ∈ Gen.c13ValueTypes) :
    ∃ c : Cls, Gen.srDispatch.lookup p.1 = some c.pyName ∧
      ∀ c' : Cls, Gen.srDispatch.lookup p.1 = some c'.pyName → c' = c := by
  have key : ∀ p ∈ Gen.c13ValueTypes, ∃ c ∈ Cls.all, Gen.srDispatch.lookup p.1 = some c.pyName := by decide
  obtain ⟨c, _, hc⟩ := key p hp
  refine ⟨c, hc, ?_⟩
  intro c' hc'
  rw [hc] at hc'
  have : c.pyName = c'.pyName := Option.some.inj hc'
  have inj : ∀ a ∈ Cls.all, ∀ b ∈ Cls.all, a.pyName = b.pyName → a = b := by decide
  have mem : ∀ a : Cls, a ∈ Cls.all := by intro a; cases a <;> decide
  exact (inj c (mem c) c' (mem c') this).symm

/-! ## one row set per class (`TableOk`) and what it implies across classes -/

theorem tableOk_of_cls (c : Cls) : ∃ vtName vt req, TableOk c vtName vt req := by
  cases c
  · exact ⟨_, _, _, tableOk_code⟩
  · exact ⟨_, _, _, tableOk_composite⟩
  · exact ⟨_, _, _, tableOk_container⟩
  · exact ⟨_, _, _, tableOk_date⟩
  · exact ⟨_, _, _, tableOk_datetime⟩
  · exact ⟨_, _, _, tableOk_image⟩
  · exact ⟨_, _, _, tableOk_num⟩
  · exact ⟨_, _, _, tableOk_pname⟩
  · exact ⟨_, _, _, tableOk_scoord⟩
  · exact ⟨_, _, _, tableOk_scoord3d⟩
  · exact ⟨_, _, _, tableOk_tcoord⟩
  · exact ⟨_, _, _, tableOk_text⟩
  · exact ⟨_, _, _, tableOk_time⟩
  · exact ⟨_, _, _, tableOk_uidref⟩
  · exact ⟨_, _, _, tableOk_waveform⟩

/-- two classes whose consistent table rows carry the same value-type string are the same class (no case analysis:
`enumName`, the dispatch row and `Cls.ofPyName` are functions) -/
theorem tableOk_vt_injective {c c' : Cls} {n n' v v' : String} {r r' : List String} (T : TableOk c n v r)
    (T' : TableOk c' n' v' r') (hv : v = v') : c = c' := by
  subst hv
  have hn : n = n' := Option.some.inj (T.name.symm.trans T'.name)
  subst hn
  have hp : c.pyName = c'.pyName := Option.some.inj (T.dispatch.symm.trans T'.dispatch)
  have := T.ofPy
  rw [hp, T'.ofPy] at this
  exact (Option.some.inj this).symm

/-- the value type of the consistent rows of a class is determined by the class -/
theorem tableOk_unique {c : Cls} {n n' v v' : String} {r r' : List String} (T : TableOk c n v r) (T' : TableOk c n' v' r') :
    n = n' ∧ v = v' ∧ r = r' := by
  have hn : n = n' := Option.some.inj (T.ctor.symm.trans T'.ctor)
  subst hn
  exact ⟨rfl, Option.some.inj (T.value.symm.trans T'.value), Option.some.inj (T.required.symm.trans T'.required)⟩

theorem ofPyName_name {s : String} {c : Cls} (h : Cls.ofPyName s = some c) : c.pyName = s := by
  unfold Cls.ofPyName at h
  have := List.find?_some h
  simpa using this

theorem enumName_value {tbl : List (String × String)} {v n : String} (h : enumName tbl v = some n) : (n, v) ∈ tbl := by
  unfold enumName at h
  cases hf : tbl.find? (fun p => p.2 == v) with
  | none => simp [hf] at h
  | some p =>
    simp only [hf, Option.map_some, Option.some.injEq] at h
    have hm := List.mem_of_find?_eq_some hf
    have hp := List.find?_some hf
    simp only [beq_iff_eq] at hp
    obtain ⟨p1, p2⟩ := p
    simp only at h hp
    subst h; subst hp
    exact hm

/-- what `classify` having accepted a data set as class `cls` says about its `ValueType`: it is THE value type of the
class's rows -/
theorem classified_valueType {attrs attrs' : Attrs} {cls : Cls} (h : classify attrs = .ok (cls, attrs'))
    {vtName vt : String} {req : List String} (T : TableOk cls vtName vt req) :
    attrs.lookup "ValueType" = some (.str vt) := by
  unfold classify at h
  cases hv : attrs.lookup "ValueType" with
  | none => simp only [hv] at h; cases h
  | some a =>
    cases a with
    | str v0 =>
      simp only [hv] at h
      cases hn : enumName Gen.c13ValueTypes v0 with
      | none => simp only [hn] at h; cases h
      | some n0 =>
        simp only [hn] at h
        cases hd : Gen.srDispatch.lookup n0 with
        | none => simp only [hd] at h; cases h
        | some cn =>
          simp only [hd] at h
          cases ho : Cls.ofPyName cn with
          | none => simp only [ho] at h; cases h
          | some c0 =>
            simp only [ho] at h
            cases hc : classifyAs c0 attrs with
            | error e => simp only [hc] at h; cases h
            | ok a' =>
              simp only [hc, Except.ok.injEq, Prod.mk.injEq] at h
              obtain ⟨e1, _⟩ := h
              subst e1
              have hcn : c0.pyName = cn := ofPyName_name ho
              subst hcn
              have hnn : n0 = vtName := dispatch_injective _ _ _ hd T.dispatch
              subst hnn
              have m0 := enumName_value hn
              have m1 := enumName_value T.name
              have key : ∀ p ∈ Gen.c13ValueTypes, ∀ q ∈ Gen.c13ValueTypes, p.1 = q.1 → p.2 = q.2 := by decide
              have : v0 = vt := key _ m0 _ m1 rfl
              rw [this]
    | _ => simp only [hv] at h; cases h

/-- a built item carries the value type of its class -/
theorem Built.valueType {it : Item} (h : Built it) {vtName vt : String} {req : List String}
    (T : TableOk it.cls vtName vt req) : it.attrs.lookup "ValueType" = some (.str vt) := by
  have hw := h.wf
  cases it with
  | mk cls attrs content =>
    unfold wf at hw
    simp only [Bool.and_eq_true] at hw
    exact classified_valueType (beq_except_eq hw.1) T

theorem parseAs_err (c : Cls) (d : DS) (e : ErrKind) (h : classifyAs c d.attrs = .error e) : parseAs c d = .error e := by
  cases d with
  | mk attrs content => exact parseAs_of_classifyAs_err c attrs content e h

/-- **15 × 15, off the diagonal**: the `from_dataset` of class `c` refuses (ValueError) the data set of any built item
of another class `c'` -/
theorem wrong_class_refused {it : Item} (h : Built it) (c : Cls) (hne : c ≠ it.cls) :
    parseAs c (serialise it) = .error .value := by
  obtain ⟨n, v, r, T⟩ := tableOk_of_cls c
  obtain ⟨n', v', r', T'⟩ := tableOk_of_cls it.cls
  have hv := Built.valueType h T'
  have hvv : v' ≠ v := fun e => hne (tableOk_vt_injective T T' e.symm)
  rw [← serialise_attrs] at hv
  exact parseAs_err c (serialise it) _ (classifyAs_mismatch T _ v' hv hvv)

/-- and the diagonal: the item's own class, and only it, gives the item back -/
theorem parseAs_ok_iff_own_class {it : Item} (h : Built it) (hown : parseAs it.cls (serialise it) = .ok it) (c : Cls) :
    (∃ back, parseAs c (serialise it) = .ok back) ↔ c = it.cls := by
  constructor
  · rintro ⟨back, hb⟩
    by_cases hne : c = it.cls
    · exact hne
    · rw [wrong_class_refused h c hne] at hb
      cases hb
  · rintro rfl
    exact ⟨it, hown⟩

theorem withAttrs_cls {cls : Cls} {vtName vt : String} {req : List String} (T : TableOk cls vtName vt req) {name : Coded}
    {rel : Option String} {extra : Attrs} {it : Item} (h : withAttrs cls name rel extra = .ok it) : it.cls = cls := by
  rw [withAttrs_shape T name rel extra it h]; rfl

end HdVerif.SRItemsDispatch
