import HdVerif.Proofs.TilingGrid
/-! Region reads of grid tables: the uniqueness test, full assembly, exactly-once, omitted tiles. -/
namespace HdVerif.TilingLemmas
open HdVerif HdVerif.Gen HdVerif.Tiling

/-- the key the uniqueness test looks at -/
def key3 (r : LutRow) : Int × Int × Int := (r.rp, r.cp, r.ch)

theorem uniquePos_iff (l : List LutRow) : uniquePos l = true ↔ (l.map key3).Nodup := by
  induction l with
  | nil => simp [uniquePos]
  | cons a l ih =>
    rw [uniquePos, List.map_cons, List.nodup_cons, Bool.and_eq_true, ih]
    apply and_congr_left'
    rw [List.all_eq_true]
    constructor
    · intro h hm
      obtain ⟨s, hs, he⟩ := List.mem_map.mp hm
      have := h s hs
      unfold key3 at he
      simp only [Prod.mk.injEq] at he
      simp [he.1, he.2.1, he.2.2] at this
    · intro h s hs
      simp only [Bool.not_eq_true', Bool.and_eq_false_iff, decide_eq_false_iff_not]
      by_contra hc
      simp only [not_or, not_not] at hc
      apply h
      rw [List.mem_map]
      exact ⟨s, hs, by unfold key3; rw [hc.1.1, hc.1.2, hc.2]⟩

/-- a table without repeated positions passes the uniqueness test of a query without channels -/
theorem uniqueKey_none_of_nodup (lut : List LutRow) (h : (lut.map pos).Nodup) : uniqueKey none lut = true := by
  unfold uniqueKey
  simp only
  rw [uniquePos_iff, List.map_map]
  have : (key3 ∘ fun r : LutRow => { r with ch := 0 }) = (fun p : Int × Int => (p.1, p.2, (0 : Int))) ∘ pos := by
    funext r; rfl
  rw [this, ← List.map_map]
  apply List.Nodup.map _ h
  intro p q hpq
  simp only [Prod.mk.injEq, and_true] at hpq
  exact Prod.ext hpq.1 hpq.2

theorem isGridTable_nodup (R C th tw : Int) (ht : 1 ≤ th) (hw : 1 ≤ tw) (rows : List LutRow)
    (hg : IsGridTable R C th tw rows) : (rows.map pos).Nodup :=
  hg.nodup_iff.mpr (gridPos_nodup R C th tw ht hw)


/-- **Region read of a complete grid table** (any frame order, every combination of TILED_FULL /
`allow_missing_combinations`, no channel query): the result is the requested part of the matrix. -/
theorem readRegion_grid {α} (z : α) (M : Img α) (lut : List LutRow) (frames : List (Img α)) (R C th tw : Int)
    (ht : 1 ≤ th) (hw : 1 ≤ tw) (hg : IsGridTable R C th tw lut) (hcut : TableCutFrom M R C th tw lut frames)
    (rs re cs ce : Option Int) (asIdx full allowMissing : Bool)
    (r0 r1 c0 c1 : Int) (hstd : stdRowColIndices rs re cs ce R C asIdx false = .ok (r0, r1, c0, c1))
    (hr : r0 ≤ r1) (hc : c0 ≤ c1) :
    ∃ out, readRegion z lut frames R C th tw none rs re cs ce asIdx full allowMissing = .ok (r1 - r0, c1 - c0, out) ∧
      ∀ i j, 0 ≤ i → i < r1 - r0 → 0 ≤ j → j < c1 - c0 → out i j = M (r0 - 1 + i) (c0 - 1 + j) := by
  obtain ⟨g1, g2, g3, g4, g5, g6, g7, g8⟩ := stdRowCol_range_num hstd
  have hu := uniqueKey_none_of_nodup lut (isGridTable_nodup R C th tw ht hw lut hg)
  have hcnt := selected_count R C th tw ht hw lut hg r0 r1 c0 c1 g1 g2 hr g4 g5 g6 hc g8
  obtain ⟨out, hout, hpix⟩ := readRegion_general z M lut frames R C th tw none rs re cs ce asIdx full allowMissing ht hw hu
    hcut r0 r1 c0 c1 hstd (Or.inr (Or.inr hcnt)) hr hc
  refine ⟨out, hout, ?_⟩
  intro i j hi0 hi1 hj0 hj1
  apply (hpix i j hi0 hi1 hj0 hj1).1
  exact grid_covers R C th tw ht hw lut hg (r0 + i) (c0 + j) (by omega) (by omega) (by omega) (by omega)

/-! ## Each output pixel is written exactly once -/

theorem mapM_ok {β γ} (f : β → Except ErrKind γ) (g : β → γ) (hf : ∀ x, f x = .ok (g x)) (l : List β) :
    l.mapM f = .ok (l.map g) := by
  induction l with
  | nil => rfl
  | cons a l ih =>
    rw [List.mapM_cons, hf a, ih]
    rfl

/-- the closed form of the instruction of a table row -/
def instrFn (rs re cs ce th tw : Int) (r : LutRow) : Instr :=
  ⟨r.fi, max (rs - r.rp) 0, min (re - r.rp) th, max (cs - r.cp) 0, min (ce - r.cp) tw,
    max (r.rp - rs) 0, min (r.rp + th - rs) (re - rs), max (r.cp - cs) 0, min (r.cp + tw - cs) (ce - cs)⟩

/-- **written exactly once**: for a complete grid table the instruction list exists, and for every pixel of
the output exactly one instruction's output slice contains it -/
theorem region_written_once (lut : List LutRow) (R C th tw : Int) (ht : 1 ≤ th) (hw : 1 ≤ tw)
    (hg : IsGridTable R C th tw lut) (r0 r1 c0 c1 : Int) (h1 : 1 ≤ r0) (h2 : r1 ≤ R + 1) (h3 : 1 ≤ c0) (h4 : c1 ≤ C + 1)
    (hr : r0 ≤ r1) (hc : c0 ≤ c1) :
    ∃ instrs, regionInstrs lut r0 r1 c0 c1 th tw = .ok instrs ∧
      ∀ i j, 0 ≤ i → i < r1 - r0 → 0 ≤ j → j < c1 - c0 →
        (instrs.filter (fun ins => decide (writes ins i j))).length = 1 := by
  refine ⟨_, mapM_ok _ (instrFn r0 r1 c0 c1 th tw) (instrOf_eq r0 r1 c0 c1 th tw) _, ?_⟩
  intro i j hi0 hi1 hj0 hj1
  rw [List.filter_map, List.length_map]
  -- a selected row writes (i, j) iff its tile contains the matrix pixel (r0 + i, c0 + j)
  have hperm := List.mergeSort_perm (lut.filter (selected r0 r1 c0 c1 th tw)) lutLe
  rw [(hperm.filter _).length_eq, List.filter_filter]
  have hcongr : lut.filter (fun r => ((fun ins => decide (writes ins i j)) ∘ instrFn r0 r1 c0 c1 th tw) r && selected r0 r1 c0 c1 th tw r) =
      lut.filter (fun r => decide (inTile th tw r (r0 + i) (c0 + j))) := by
    apply List.filter_congr
    intro r _
    rw [Bool.eq_iff_iff]
    simp only [Function.comp, Bool.and_eq_true, decide_eq_true_eq, selected_iff]
    unfold writes instrFn inTile
    simp only
    constructor
    · rintro ⟨hwr, s1, s2, s3, s4⟩
      have := (axis_slices r0 r1 r.rp th ht hr s1 s2).2.2.2.2.2.2.2.1 i
      have := (axis_slices c0 c1 r.cp tw hw hc s3 s4).2.2.2.2.2.2.2.1 j
      omega
    · intro hin
      have s1 : r0 - th + 1 ≤ r.rp := by omega
      have s2 : r.rp < r1 := by omega
      have s3 : c0 - tw + 1 ≤ r.cp := by omega
      have s4 : r.cp < c1 := by omega
      have := (axis_slices r0 r1 r.rp th ht hr s1 s2).2.2.2.2.2.2.2.1 i
      have := (axis_slices c0 c1 r.cp tw hw hc s3 s4).2.2.2.2.2.2.2.1 j
      exact ⟨by omega, s1, s2, s3, s4⟩
  rw [hcongr]
  exact grid_exactly_one R C th tw ht hw lut hg (r0 + i) (c0 + j) (by omega) (by omega) (by omega) (by omega)

end HdVerif.TilingLemmas
