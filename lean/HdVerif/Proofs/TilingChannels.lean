import HdVerif.Model.TilingChannels
import HdVerif.Proofs.TilingCut
import HdVerif.Proofs.TilingStd
import HdVerif.Proofs.TilingFull
/-! C04: lemmas about the temporary channel table (state machine over histories of reads) and the channel axis of
segment-aware region reads. -/
namespace HdVerif.TilingLemmas
open HdVerif HdVerif.Gen HdVerif.Tiling

/-! ## The temporary table -/

theorem keyFree_iff (t : ChanTable) (k : Int) : keyFree t k = true ↔ k ∉ t.map Prod.fst := by
  unfold keyFree
  rw [List.all_eq_true]
  constructor
  · intro h hk
    obtain ⟨r, hr, rfl⟩ := List.mem_map.mp hk
    have := h r hr
    simp at this
  · intro h r hr
    have : r.1 ≠ k := fun e => h (List.mem_map.mpr ⟨r, hr, e⟩)
    simpa using this

/-- inserting rows whose OutputChannelIndex values are new and pairwise distinct appends them -/
theorem insertRows_fresh (orReplace : Bool) : ∀ (data t : ChanTable), ((t ++ data).map Prod.fst).Nodup →
    insertRows orReplace t data = some (t ++ data) := by
  intro data
  induction data with
  | nil => intro t _; simp [insertRows]
  | cons r rest ih =>
    intro t hnd
    unfold insertRows
    have hfree : keyFree t r.1 = true := by
      rw [keyFree_iff]
      intro hk
      rw [List.map_append, List.nodup_append] at hnd
      exact hnd.2.2 _ hk _ (by simp) rfl
    rw [if_pos hfree, ih (t ++ [r]) (by simpa using hnd)]
    simp

/-- **Set-up (T4t).**  Whatever a previous read left behind, after the regenerated set-up program the table holds exactly the
rows of THIS request (distinct output channel indices). -/
theorem tempSetup_exact (data : ChanTable) (st : TempState) (hk : (data.map Prod.fst).Nodup) :
    runOps tempTableSetup data st = (some data, none) := by
  have := insertRows_fresh false data [] (by simpa using hk)
  simp only [List.nil_append] at this
  simp [tempTableSetup, runOps, tempOp, this]

/-- **Set-up forgets the past (T4t)**, for every request (also one whose rows violate the UNIQUE constraint). -/
theorem tempSetup_forgets (data : ChanTable) (st : TempState) :
    runOps tempTableSetup data st = runOps tempTableSetup data none := by
  simp [tempTableSetup, runOps, tempOp]

/-- the regenerated clean-up program removes an existing table -/
theorem tempCleanup_exact (data t : ChanTable) : runOps tempTableCleanup data (some t) = (none, none) := by
  simp [tempTableCleanup, runOps, tempOp]

/-- the result of a read does not depend on the state left by earlier reads -/
theorem stepRead_result_indep {α} (z : α) (lut : List LutRow) (frames : List (Img α)) (rows cols th tw : Int) (full am : Bool)
    (q : ChanRead) (st : TempState) :
    (stepRead z lut frames rows cols th tw full am q st).2 = (stepRead z lut frames rows cols th tw full am q none).2 := by
  unfold stepRead
  rw [tempSetup_forgets q.data st]
  by_cases hl : q.labelmap = true
  · simp only [hl, if_true]
  · simp only [hl, Bool.false_eq_true, if_false]
    split
    · rfl
    · split
      · rfl
      · split
        · rfl
        · rfl

theorem runHistory_indep {α} (z : α) (lut : List LutRow) (frames : List (Img α)) (rows cols th tw : Int) (full am : Bool) :
    ∀ (steps : List ChanRead) (st : TempState),
    (runHistory z lut frames rows cols th tw full am steps st).1 =
      steps.map (fun q => (stepRead z lut frames rows cols th tw full am q none).2) := by
  intro steps
  induction steps with
  | nil => intro st; rfl
  | cons q qs ih =>
    intro st
    simp only [runHistory, List.map_cons]
    rw [ih, stepRead_result_indep]

/-! ## The state a read leaves behind -/

theorem insertRows_false_cases : ∀ (data t : ChanTable), insertRows false t data = some (t ++ data) ∨ insertRows false t data = none := by
  intro data
  induction data with
  | nil => intro t; left; simp [insertRows]
  | cons r rest ih =>
    intro t
    unfold insertRows
    by_cases hf : keyFree t r.1 = true
    · rw [if_pos hf]
      rcases ih (t ++ [r]) with h | h
      · left; rw [h]; simp
      · right; exact h
    · rw [if_neg hf]
      right
      simp

/-- the regenerated set-up program from any state: the table of this request, or — rows violating the UNIQUE constraint — an
empty table and an error -/
theorem tempSetup_cases (data : ChanTable) (st : TempState) :
    runOps tempTableSetup data st = (some data, none) ∨ runOps tempTableSetup data st = (some [], some .other) := by
  rw [tempSetup_forgets]
  rcases insertRows_false_cases data [] with h | h
  · left; simp only [List.nil_append] at h; simp [tempTableSetup, runOps, tempOp, h]
  · right; simp [tempTableSetup, runOps, tempOp, h]

/-- **What one read leaves in the connection**: the state it found (refused before the look-up is set up), no table (completed),
the table of this request (refused inside the `with` block), or an empty table (its rows were refused by SQLite). -/
theorem stepRead_state_cases {α} (z : α) (lut : List LutRow) (frames : List (Img α)) (rows cols th tw : Int) (full am : Bool)
    (q : ChanRead) (st : TempState) :
    (stepRead z lut frames rows cols th tw full am q st).1 = st ∨ (stepRead z lut frames rows cols th tw full am q st).1 = none ∨
    (stepRead z lut frames rows cols th tw full am q st).1 = some q.data ∨ (stepRead z lut frames rows cols th tw full am q st).1 = some [] := by
  unfold stepRead
  by_cases hl : q.labelmap = true
  · left; simp only [hl, if_true]
  · simp only [hl, Bool.false_eq_true, if_false]
    split
    · left; rfl
    · split
      · left; rfl
      · split
        · left; rfl
        · rcases tempSetup_cases q.data st with h | h
          · rw [h]
            simp only
            split
            · by_cases hc : tempTableCleanupOnError = true
              · right; left
                simp only [hc, if_true]
                rw [tempCleanup_exact]
              · right; right; left
                simp only [hc, if_false, Bool.false_eq_true]
            · right; left
              rw [tempCleanup_exact]
          · rw [h]
            right; right; right
            rfl


/-! ## The channel axis -/

/-- The copy loop with a channel axis is, channel by channel, the plain copy loop over the joined rows of that channel. -/
theorem copyLoopCh_channels {α} (frames : List (Img α)) (r0 r1 c0 c1 th tw oh ow nch : Int) :
    ∀ (J : List (LutRow × Int)) (out0 outk : Int → Img α),
    (∀ x ∈ J, 0 ≤ x.2 ∧ x.2 < nch) →
    (∀ k, 0 ≤ k → k < nch →
      copyLoop frames r0 r1 c0 c1 th tw oh ow ((J.filter (fun x => x.2 == k)).map Prod.fst) (out0 k) = .ok (outk k)) →
    ∃ out, copyLoopCh frames r0 r1 c0 c1 th tw oh ow nch J out0 = .ok out ∧ ∀ k, 0 ≤ k → k < nch → out k = outk k := by
  intro J
  induction J with
  | nil =>
    intro out0 outk _ h
    refine ⟨out0, rfl, ?_⟩
    intro k hk0 hk1
    have := h k hk0 hk1
    simp only [List.filter_nil, List.map_nil, copyLoop, Except.ok.injEq] at this
    exact this
  | cons x rest ih =>
    intro out0 outk hkeys h
    obtain ⟨r, k⟩ := x
    obtain ⟨hk0, hk1⟩ := hkeys (r, k) (by simp)
    have hk := h k hk0 hk1
    simp only [List.filter_cons, beq_self_eq_true, if_true, List.map_cons] at hk
    unfold copyLoop at hk
    unfold copyLoopCh
    cases hins : instrOf r0 r1 c0 c1 th tw r with
    | error e => rw [hins] at hk; simp at hk
    | ok ins =>
      rw [hins] at hk
      simp only at hk ⊢
      cases hfr : frames[r.fi]? with
      | none => rw [hfr] at hk; simp at hk
      | some fr =>
        rw [hfr] at hk
        simp only at hk ⊢
        rw [if_neg (by omega), if_neg (by omega)]
        cases hass : assignSlice (out0 k) oh ow fr th tw ins with
        | error e => rw [hass] at hk; simp at hk
        | ok o' =>
          rw [hass] at hk
          simp only at hk ⊢
          obtain ⟨out, hout, hch⟩ := ih (fun c => if c = k then o' else out0 c) outk
            (fun x hx => hkeys x (by simp [hx]))
            (by
              intro c hc0 hc1
              by_cases hck : c = k
              · subst hck
                simp only [if_true]
                exact hk
              · have := h c hc0 hc1
                have hne : (k == c) = false := by simpa using fun e => hck e.symm
                simp only [List.filter_cons, hne, Bool.false_eq_true, if_false] at this
                simp only [if_neg hck]
                exact this)
          exact ⟨out, hout, hch⟩

/-- rows of the channel table of a stacked request: `(k, s)` is a row iff `segs[k] = s` -/
theorem mem_stackedData (segs : List Int) (k s : Int) :
    (k, s) ∈ (segs.zipIdx).map (fun (p : Int × Nat) => ((p.2 : Int), p.1)) ↔ ∃ n : Nat, (n : Int) = k ∧ segs[n]? = some s := by
  rw [List.mem_map]
  constructor
  · rintro ⟨⟨a, n⟩, hp, he⟩
    simp only [Prod.mk.injEq] at he
    obtain ⟨rfl, rfl⟩ := he
    rw [List.mem_zipIdx_iff_getElem?] at hp
    exact ⟨n, rfl, by simpa using hp⟩
  · rintro ⟨n, rfl, hs⟩
    exact ⟨(s, n), by rw [List.mem_zipIdx_iff_getElem?]; simpa using hs, rfl⟩

theorem stackedData_keys_nodup (segs : List Int) :
    (((segs.zipIdx).map (fun (p : Int × Nat) => ((p.2 : Int), p.1))).map Prod.fst).Nodup := by
  rw [List.map_map]
  have : (Prod.fst ∘ fun (p : Int × Nat) => ((p.2 : Int), p.1)) = (fun n : Nat => (n : Int)) ∘ Prod.snd := by
    funext p; rfl
  rw [this, ← List.map_map]
  apply List.Nodup.map
  · intro a b h; exact Int.ofNat.inj h
  · rw [List.zipIdx_map_snd]
    exact List.nodup_range' ..

/-- the joined rows of output channel `k` of a stacked request are the selected rows of segment `segs[k]` -/
theorem mem_join_channel (sel : List LutRow) (segs : List Int) (n : Nat) (s : Int) (hs : segs[n]? = some s) (r : LutRow) :
    r ∈ ((joinRows sel ((segs.zipIdx).map (fun (p : Int × Nat) => ((p.2 : Int), p.1)))).filter (fun x => x.2 == (n : Int))).map Prod.fst ↔
      r ∈ sel ∧ r.ch = s := by
  unfold joinRows
  rw [List.mem_map]
  constructor
  · rintro ⟨⟨r', k⟩, hx, rfl⟩
    rw [List.mem_filter, List.mem_flatMap] at hx
    obtain ⟨⟨r'', hr'', hm⟩, hk⟩ := hx
    rw [List.mem_map] at hm
    obtain ⟨t, ht, he⟩ := hm
    simp only [Prod.mk.injEq] at he
    obtain ⟨rfl, rfl⟩ := he
    rw [List.mem_filter] at ht
    obtain ⟨ht1, ht2⟩ := ht
    simp only [beq_iff_eq] at hk ht2
    have hmem : (t.1, t.2) ∈ (segs.zipIdx).map (fun (p : Int × Nat) => ((p.2 : Int), p.1)) := ht1
    rw [mem_stackedData] at hmem
    obtain ⟨n', hn', hs'⟩ := hmem
    have : n' = n := by omega
    subst this
    rw [hs] at hs'
    simp only [Option.some.injEq] at hs'
    exact ⟨hr'', by show r''.ch = s; omega⟩
  · rintro ⟨hr, hch⟩
    refine ⟨(r, (n : Int)), ?_, rfl⟩
    rw [List.mem_filter, List.mem_flatMap]
    refine ⟨⟨r, hr, ?_⟩, by simp⟩
    rw [List.mem_map]
    refine ⟨((n : Int), s), ?_, rfl⟩
    rw [List.mem_filter]
    exact ⟨(mem_stackedData segs n s).mpr ⟨n, rfl, hs⟩, by simp [hch]⟩

theorem join_keys_in_range (sel : List LutRow) (segs : List Int) :
    ∀ x ∈ joinRows sel ((segs.zipIdx).map (fun (p : Int × Nat) => ((p.2 : Int), p.1))), 0 ≤ x.2 ∧ x.2 < (segs.length : Int) := by
  intro x hx
  unfold joinRows at hx
  rw [List.mem_flatMap] at hx
  obtain ⟨r, _, hm⟩ := hx
  rw [List.mem_map] at hm
  obtain ⟨t, ht, rfl⟩ := hm
  rw [List.mem_filter] at ht
  have hmem : (t.1, t.2) ∈ (segs.zipIdx).map (fun (p : Int × Nat) => ((p.2 : Int), p.1)) := ht.1
  rw [mem_stackedData] at hmem
  obtain ⟨n, hn, hs⟩ := hmem
  have := (List.getElem?_eq_some_iff.mp hs).1
  simp only
  omega


/-- **One stacked read** (`get_total_pixel_matrix(segment_numbers=segs)`, any subset in any order) on an object in ANY temporary-table
state: accepted; output channel `n` holds, for every pixel covered by a stored tile of segment `segs[n]`, the value of that
segment's matrix, zero elsewhere; the temporary table is gone afterwards. -/
theorem stepRead_stacked_spec {α} (z : α) (Mseg : Int → Img α) (lut : List LutRow) (frames : List (Img α)) (R C th tw : Int)
    (ht : 1 ≤ th) (hw : 1 ≤ tw) (hu : uniquePos lut = true) (segs : List Int)
    (hcut : ∀ s ∈ segs, TableCutFrom (Mseg s) R C th tw (chanRows (some s) lut) frames)
    (rs re cs ce : Option Int) (ai full : Bool) (st : TempState) (r0 r1 c0 c1 : Int)
    (hstd : stdRowColIndices rs re cs ce R C ai false = .ok (r0, r1, c0, c1)) (hr : r0 ≤ r1) (hc : c0 ≤ c1) :
    ∃ out, stepRead z lut frames R C th tw full true (stackedRequest segs rs re cs ce ai) st = (none, .ok (r1 - r0, c1 - c0, out)) ∧
      ∀ (n : Nat) (s : Int), segs[n]? = some s → ∀ i j, 0 ≤ i → i < r1 - r0 → 0 ≤ j → j < c1 - c0 →
        ((∃ r ∈ chanRows (some s) lut, inTile th tw r (r0 + i) (c0 + j)) → out n i j = Mseg s (r0 - 1 + i) (c0 - 1 + j)) ∧
        ((¬ ∃ r ∈ chanRows (some s) lut, inTile th tw r (r0 + i) (c0 + j)) → out n i j = z) := by
  obtain ⟨g1, g2, g3, g4, g5, g6, g7, g8⟩ := stdRowCol_range_num hstd
  let data : ChanTable := (segs.zipIdx).map (fun (p : Int × Nat) => ((p.2 : Int), p.1))
  let sel := (lut.filter (selected r0 r1 c0 c1 th tw)).mergeSort lutLe
  let J := joinRows sel data
  -- per channel: the plain copy loop over the rows of that channel
  have hper : ∀ k : Int, ∃ o : Img α, 0 ≤ k → k < (segs.length : Int) →
      copyLoop frames r0 r1 c0 c1 th tw (r1 - r0) (c1 - c0) ((J.filter (fun x => x.2 == k)).map Prod.fst) (fun _ _ => z) = .ok o ∧
      ∀ s, segs[k.toNat]? = some s → ∀ i j, 0 ≤ i → i < r1 - r0 → 0 ≤ j → j < c1 - c0 →
        ((∃ r ∈ chanRows (some s) lut, inTile th tw r (r0 + i) (c0 + j)) → o i j = Mseg s (r0 - 1 + i) (c0 - 1 + j)) ∧
        ((¬ ∃ r ∈ chanRows (some s) lut, inTile th tw r (r0 + i) (c0 + j)) → o i j = z) := by
    intro k
    by_cases hk : 0 ≤ k ∧ k < (segs.length : Int)
    · obtain ⟨hk0, hk1⟩ := hk
      have hlt : k.toNat < segs.length := by omega
      have hs : segs[k.toNat]? = some segs[k.toNat] := List.getElem?_eq_getElem hlt
      have hkn : ((k.toNat : Nat) : Int) = k := by omega
      have hmem : ∀ r, r ∈ ((J.filter (fun x => x.2 == k)).map Prod.fst) ↔ r ∈ sel ∧ r.ch = segs[k.toNat] := by
        intro r
        have := mem_join_channel sel segs k.toNat _ hs r
        rw [hkn] at this
        exact this
      have hspec := copyLoop_spec (Mseg segs[k.toNat]) frames r0 r1 c0 c1 th tw ht hw hr hc
        ((J.filter (fun x => x.2 == k)).map Prod.fst)
        (fun r hrm => ((mem_sel_iff _ _ _ _ _ _ _ r).mp ((hmem r).mp hrm).1).2)
        (fun r hrm => by
          obtain ⟨hrs, hch⟩ := (hmem r).mp hrm
          have hrl := ((mem_sel_iff _ _ _ _ _ _ _ r).mp hrs).1
          obtain ⟨fr, hfr, hcf⟩ := hcut segs[k.toNat] (List.getElem_mem hlt) r (by
            unfold chanRows
            simp only [List.mem_filter, decide_eq_true_eq]
            exact ⟨hrl, hch⟩)
          refine ⟨fr, hfr, ?_⟩
          intro i j hi0 hi1 hj0 hj1 hcov
          unfold covers at hcov
          have := hcf (r0 + i - r.rp) (c0 + j - r.cp) (by omega) (by omega) (by omega) (by omega) (by omega) (by omega)
          rw [this]
          congr 1 <;> omega)
        (fun _ _ => z)
      obtain ⟨o, ho, hpix⟩ := hspec
      refine ⟨o, fun _ _ => ⟨ho, ?_⟩⟩
      intro s hs' i j hi0 hi1 hj0 hj1
      rw [hs] at hs'
      simp only [Option.some.injEq] at hs'
      subst hs'
      obtain ⟨h1, h2⟩ := hpix i j hi0 hi1 hj0 hj1
      constructor
      · rintro ⟨r, hrm, hin⟩
        unfold inTile at hin
        unfold chanRows at hrm
        simp only [List.mem_filter, decide_eq_true_eq] at hrm
        have hsel : selected r0 r1 c0 c1 th tw r = true := by
          rw [selected_iff]; omega
        have := h1 ⟨r, (hmem r).mpr ⟨(mem_sel_iff _ _ _ _ _ _ _ r).mpr ⟨hrm.1, hsel⟩, hrm.2⟩, by unfold covers; omega⟩
        rw [this]
        congr 1 <;> omega
      · intro hno
        apply h2
        rintro ⟨r, hrm, hcov⟩
        obtain ⟨hrs, hch⟩ := (hmem r).mp hrm
        apply hno
        refine ⟨r, ?_, by unfold covers at hcov; unfold inTile; omega⟩
        unfold chanRows
        simp only [List.mem_filter, decide_eq_true_eq]
        exact ⟨((mem_sel_iff _ _ _ _ _ _ _ r).mp hrs).1, hch⟩
    · exact ⟨fun _ _ => z, fun h0 h1 => absurd ⟨h0, h1⟩ hk⟩
  obtain ⟨outk, houtk⟩ := Classical.axiomOfChoice hper
  obtain ⟨out, hout, hch⟩ := copyLoopCh_channels frames r0 r1 c0 c1 th tw (r1 - r0) (c1 - c0) (segs.length : Int) J
    (fun _ _ _ => z) outk (join_keys_in_range sel segs) (fun k hk0 hk1 => (houtk k hk0 hk1).1)
  refine ⟨out, ?_, ?_⟩
  · unfold stepRead stackedRequest
    simp only [Bool.false_eq_true, if_false, hu, Bool.not_true, hstd, expectedCount_eq]
    rw [tempSetup_exact _ st (stackedData_keys_nodup segs)]
    simp only [stackedBody, Bool.not_true, Bool.false_and, Bool.false_eq_true, if_false]
    rw [if_neg (by omega)]
    have : copyLoopCh frames r0 r1 c0 c1 th tw (r1 - r0) (c1 - c0) (segs.length : Int) J (fun _ _ _ => z) = .ok out := hout
    simp only [J, sel, data] at this
    rw [this]
    simp only
    rw [tempCleanup_exact]
  · intro n s hs i j hi0 hi1 hj0 hj1
    have hlt := (List.getElem?_eq_some_iff.mp hs).1
    have e := hch (n : Int) (by omega) (by omega)
    rw [e]
    have := (houtk (n : Int) (by omega) (by omega)).2 s (by simpa using hs) i j hi0 hi1 hj0 hj1
    exact this


/-! ## The table the constructor writes -/

/-- `tileThenRead` is `tiledSegTable` followed by the single-channel read -/
theorem tileThenRead_eq_table {α} [BEq α] (z : α) (Ms : List (Int × Img α)) (R C tr tc : Int) (full omitEmpty : Bool)
    (chan : Int) (rs re cs ce : Option Int) (asIdx : Bool) :
    tileThenRead z Ms R C tr tc full omitEmpty chan rs re cs ce asIdx =
      (match tiledSegTable z Ms R C tr tc full omitEmpty with
       | .error e => .error e
       | .ok (lut, frames) => readRegion z lut frames R C tr tc (some chan) rs re cs ce asIdx full true) := by
  unfold tileThenRead tiledSegTable
  cases tileOffsets tr tc R C with
  | error e => rfl
  | ok offs =>
    simp only
    cases keepMask z Ms R C tr tc offs omitEmpty with
    | error e => rfl
    | ok keep =>
      simp only
      cases (if (full && omitEmpty) = true then allTilesEmpty z Ms R C tr tc offs else Except.ok true) with
      | error e => rfl
      | ok ae =>
        simp only
        split
        · rfl
        · cases cutSegments z R C tr tc offs Ms keep 0 with
          | error e => rfl
          | ok v =>
            obtain ⟨l, f⟩ := v
            simp only
            cases (if full = true then tiledFullLut (Ms.map (fun m => some m.1)) 1 tr tc R C else Except.ok l) with
            | error e => rfl
            | ok lut => rfl

/-- **What `Segmentation(tile_pixel_array=True)` stores** (explicit positions): a table that passes the uniqueness test; for every
segment the rows of its channel point to frames cut from that segment's matrix; and a matrix pixel covered by NO stored tile of
the segment (its tile was omitted as empty) is zero in the matrix. -/
theorem tiledSegTable_sparse_spec {α} [BEq α] [LawfulBEq α] (z : α) (Ms : List (Int × Img α)) (R C tr tc : Int)
    (hr : 1 ≤ tr) (hc : 1 ≤ tc) (hR : 1 ≤ R) (hC : 1 ≤ C) (hnd : (Ms.map Prod.fst).Nodup) (omitEmpty : Bool) :
    ∃ rows frames, tiledSegTable z Ms R C tr tc false omitEmpty = .ok (rows, frames) ∧ uniquePos rows = true ∧
      ∀ c M, (c, M) ∈ Ms → TableCutFrom M R C tr tc (chanRows (some c) rows) frames ∧
        ∀ gr gc, 1 ≤ gr → gr ≤ R → 1 ≤ gc → gc ≤ C → (¬ ∃ r ∈ chanRows (some c) rows, inTile tr tc r gr gc) → M (gr - 1) (gc - 1) = z := by
  have hoffs := tileOffsets_eq tr tc R C hr hc hR hC
  have hget : ∀ m ∈ Ms, ∀ o ∈ (gridPos R C tr tc).map (fun p => (p.2, p.1)),
      (∃ t, getTileArray z m.2 R C o.2 o.1 tr tc = .ok t) ∧ getTileShape R C o.2 o.1 tr tc = .ok (tr, tc) := by
    intro m _ o ho
    obtain ⟨p, hp, rfl⟩ := List.mem_map.mp ho
    obtain ⟨b1, b2, b3, b4⟩ := gridPos_in_matrix R C tr tc hr hc p hp
    obtain ⟨fr, hfr, _⟩ := getTileArray_spec z m.2 R C p.1 p.2 tr tc hr hc b1 b2 b3 b4
    exact ⟨⟨fr, hfr⟩, getTileShape_spec R C p.1 p.2 tr tc hr hc b1 b2 b3 b4⟩
  obtain ⟨keep, hkeep⟩ := keepMask_total z Ms R C tr tc _ omitEmpty (fun m hm o ho => (hget m hm o ho).1)
  obtain ⟨k1, k2, k3, _⟩ := keepMask_spec z Ms R C tr tc _ omitEmpty keep hkeep
  obtain ⟨rows, frames, hcs⟩ := cutSegments_total z R C tr tc _ Ms keep 0 k1 k2 hget
  obtain ⟨s1, s2, s3⟩ := cutSegments_spec z R C tr tc _ Ms keep 0 rows frames hcs
  have hoffnd : ((gridPos R C tr tc).map (fun p => (p.2, p.1))).Nodup := (gridPos_nodup R C tr tc hr hc).map swap_inj
  refine ⟨rows, frames, ?_, (uniquePos_iff rows).mpr (s2 hoffnd hnd), ?_⟩
  · unfold tiledSegTable
    simp only [Bool.false_and, Bool.false_eq_true, if_false, hoffs, hkeep, hcs]
  · intro c M hM
    constructor
    · intro r hrm
      unfold chanRows at hrm
      simp only [List.mem_filter, decide_eq_true_eq] at hrm
      obtain ⟨hrr, hch⟩ := hrm
      obtain ⟨hin, _, m, hm, hmc, fr, hfr, hgt⟩ := s1 r hrr
      have hmeq : m = (c, M) := by
        have h1 : m.1 = c := by omega
        exact List.inj_on_of_nodup_map hnd hm hM (by simpa using h1)
      subst hmeq
      obtain ⟨p, hp, hpe⟩ := List.mem_map.mp hin
      simp only [Prod.mk.injEq] at hpe
      obtain ⟨b1, b2, b3, b4⟩ := gridPos_in_matrix R C tr tc hr hc p hp
      obtain ⟨fr', hfr', hspec⟩ := getTileArray_spec z M R C r.rp r.cp tr tc hr hc (by omega) (by omega) (by omega) (by omega)
      simp only at hgt
      rw [hgt] at hfr'
      simp only [Except.ok.injEq] at hfr'
      subst hfr'
      refine ⟨fr, by simpa using hfr, ?_⟩
      intro a b ha0 ha1 hb0 hb1 hra hcb
      rw [hspec a b ha0 ha1 hb0 hb1, if_pos ⟨hra, hcb⟩]
    · intro gr gc hg1 hg2 hg3 hg4 hcov
      -- the grid tile containing the pixel was omitted, hence is zero in M
      obtain ⟨e0, e1, e2⟩ := axis_cover_exists tr gr hr hg1
      obtain ⟨f0, f1, f2⟩ := axis_cover_exists tc gc hc hg3
      have hp : (1 + tr * ((gr - 1) / tr), 1 + tc * ((gc - 1) / tc)) ∈ gridPos R C tr tc := by
        rw [mem_gridPos]
        exact ⟨_, _, e0, axis_index_lt tr R gr hr hg2, f0, axis_index_lt tc C gc hc hg4, rfl, rfl⟩
      have ho : (1 + tc * ((gc - 1) / tc), 1 + tr * ((gr - 1) / tr)) ∈ (gridPos R C tr tc).map (fun p => (p.2, p.1)) :=
        List.mem_map.mpr ⟨_, hp, rfl⟩
      obtain ⟨t, ht⟩ := List.getElem?_of_mem ho
      obtain ⟨s, hs⟩ := List.getElem?_of_mem hM
      have hsl : s < keep.length := by
        have := (List.getElem?_eq_some_iff.mp hs).1; omega
      have hk : keep[s]? = some keep[s] := List.getElem?_eq_getElem hsl
      have htl : t < keep[s].length := by
        have := k2 s keep[s] hk
        have := (List.getElem?_eq_some_iff.mp ht).1
        omega
      have hkt : keep[s][t]? = some keep[s][t] := List.getElem?_eq_getElem htl
      cases hb : keep[s][t] with
      | true =>
        exfalso
        rw [hb] at hkt
        obtain ⟨r, hrr, hrc, hrp⟩ := s3 s (c, M) keep[s] hs hk t _ ht hkt
        simp only [Prod.mk.injEq] at hrp
        apply hcov
        refine ⟨r, ?_, ?_⟩
        · unfold chanRows
          simp only [List.mem_filter, decide_eq_true_eq]
          exact ⟨hrr, hrc⟩
        · unfold inTile
          omega
      | false =>
        rw [hb] at hkt
        obtain ⟨tile, htile, hzero⟩ := k3 s t (c, M) keep[s] _ hs hk ht hkt
        obtain ⟨b1, b2, b3, b4⟩ := gridPos_in_matrix R C tr tc hr hc _ hp
        simp only at b1 b2 b3 b4 htile
        obtain ⟨fr', hfr', hspec⟩ := getTileArray_spec z M R C (1 + tr * ((gr - 1) / tr)) (1 + tc * ((gc - 1) / tc)) tr tc hr hc b1 b2 b3 b4
        rw [htile] at hfr'
        simp only [Except.ok.injEq] at hfr'
        subst hfr'
        have hz := imgAllZero_spec z tile tr tc hzero (gr - (1 + tr * ((gr - 1) / tr))) (gc - (1 + tc * ((gc - 1) / tc)))
          (by omega) (by omega) (by omega) (by omega)
        rw [hspec _ _ (by omega) (by omega) (by omega) (by omega), if_pos (by omega)] at hz
        rw [← hz]
        congr 1 <;> omega

/-- with nothing omitted, the table a reader derives for TILED_FULL from frame order is the table written explicitly -/
theorem tiledSegTable_full_eq_sparse {α} [BEq α] (z : α) (Ms : List (Int × Img α)) (R C tr tc : Int)
    (hr : 1 ≤ tr) (hc : 1 ≤ tc) (hR : 1 ≤ R) (hC : 1 ≤ C) :
    tiledSegTable z Ms R C tr tc true false = tiledSegTable z Ms R C tr tc false false := by
  unfold tiledSegTable
  simp only [Bool.and_false, Bool.false_eq_true, if_false, if_true]
  rw [tileOffsets_eq tr tc R C hr hc hR hC]
  simp only
  cases hk : keepMask z Ms R C tr tc ((gridPos R C tr tc).map (fun p => (p.2, p.1))) false with
  | error e => rfl
  | ok keep =>
    simp only
    cases hcs : cutSegments z R C tr tc ((gridPos R C tr tc).map (fun p => (p.2, p.1))) Ms keep 0 with
    | error e => rfl
    | ok v =>
      obtain ⟨rows, frames⟩ := v
      simp only
      obtain ⟨_, _, _, k4⟩ := keepMask_spec z Ms R C tr tc _ false keep hk
      have hall : ∀ k ∈ keep, ∀ b ∈ k, b = true := by
        intro k hkm b hb
        obtain ⟨s, hs⟩ := List.getElem?_of_mem hkm
        obtain ⟨t, ht⟩ := List.getElem?_of_mem hb
        exact k4 rfl s t k b hs ht
      have hrows := cutSegments_allTrue z R C tr tc _ Ms keep 0 rows frames hall hcs
      have hfull : tiledFullLut (Ms.map (fun m => some m.1)) 1 tr tc R C = .ok rows := by
        have : Ms.map (fun m => some m.1) = (Ms.map Prod.fst).map some := by rw [List.map_map]; rfl
        rw [this, tiledFullLut_eq _ tr tc R C hr hc hR hC, hrows]
      rw [hfull]


/-! ## `get_volume` on a tiled image: normalising twice -/

/-- 0-based results of the normalisation, read again as indices, denote the same region as the original request -/
theorem stdRowCol_renormalise (rs re cs ce : Option Int) (R C : Int) (ai : Bool) (a b c d : Int)
    (h : stdRowColIndices rs re cs ce R C ai true = .ok (a, b, c, d)) :
    stdRowColIndices (some a) (some b) (some c) (some d) R C true false = .ok (a + 1, b + 1, c + 1, d + 1) ∧
    stdRowColIndices rs re cs ce R C ai false = .ok (a + 1, b + 1, c + 1, d + 1) := by
  obtain ⟨g1, g2, g3, g4, g5, g6, g7, g8⟩ := stdRowCol_range_idx h
  obtain ⟨h1, h2, h3, h4⟩ := (stdRowCol_ok_iff rs re cs ce R C ai true a b c d).mp h
  have e1 : outShift true = 1 := rfl
  have e0 : outShift false = 0 := rfl
  rw [e1] at h1 h2 h3 h4
  constructor
  · rw [stdRowCol_ok_iff, e0]
    refine ⟨?_, ?_, ?_, ?_⟩
    · unfold normStart; simp only; grind
    · unfold normEnd; simp only; grind
    · unfold normStart; simp only; grind
    · unfold normEnd; simp only; grind
  · rw [stdRowCol_ok_iff, e0]
    simp only [Int.add_zero]
    exact ⟨h1, h2, h3, h4⟩

/-- a request refused by the 0-based normalisation is refused by the 1-based one as well -/
theorem stdRowCol_error_both (rs re cs ce : Option Int) (R C : Int) (ai : Bool) (e : ErrKind)
    (h : stdRowColIndices rs re cs ce R C ai true = .error e) : ∃ e', stdRowColIndices rs re cs ce R C ai false = .error e' := by
  cases h' : stdRowColIndices rs re cs ce R C ai false with
  | error e' => exact ⟨e', rfl⟩
  | ok v =>
    exfalso
    obtain ⟨a, b, c, d⟩ := v
    have := (stdRowCol_ok_iff rs re cs ce R C ai false a b c d).mp h'
    have e0 : outShift false = 0 := rfl
    rw [e0] at this
    have hok : stdRowColIndices rs re cs ce R C ai true = .ok (a - 1, b - 1, c - 1, d - 1) := by
      rw [stdRowCol_ok_iff]
      have e1 : outShift true = 1 := rfl
      rw [e1]
      simp only [Int.add_zero, Int.sub_add_cancel] at this ⊢
      exact this
    rw [hok] at h
    cases h

/-- **`get_volume` reads the region `get_total_pixel_matrix` reads.** -/
theorem readVolumeRegion_eq {α} (z : α) (lut : List LutRow) (frames : List (Img α)) (R C th tw : Int)
    (chan : Option Int) (rs re cs ce : Option Int) (ai full am : Bool) :
    (∀ a b c d, stdRowColIndices rs re cs ce R C ai true = .ok (a, b, c, d) →
      readVolumeRegion z lut frames R C th tw chan rs re cs ce ai full am = readRegion z lut frames R C th tw chan rs re cs ce ai full am) ∧
    (∀ e, stdRowColIndices rs re cs ce R C ai true = .error e →
      readVolumeRegion z lut frames R C th tw chan rs re cs ce ai full am = .error e ∧
      ∃ e', readRegion z lut frames R C th tw chan rs re cs ce ai full am = .error e') := by
  constructor
  · intro a b c d h
    obtain ⟨r1, r2⟩ := stdRowCol_renormalise rs re cs ce R C ai a b c d h
    unfold readVolumeRegion
    simp only [volumeStdCall, volumeTpmCall, h]
    unfold readRegion
    rw [r1, r2]
  · intro e h
    constructor
    · unfold readVolumeRegion
      simp only [volumeStdCall, h]
    · obtain ⟨e', he'⟩ := stdRowCol_error_both rs re cs ce R C ai e h
      unfold readRegion
      split
      · exact ⟨_, rfl⟩
      · rw [he']; exact ⟨_, rfl⟩


end HdVerif.TilingLemmas
