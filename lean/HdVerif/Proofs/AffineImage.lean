import HdVerif.Model.AffineImage
import HdVerif.Proofs.Affine
import Mathlib.Tactic.Ring
import Mathlib.Tactic.Linarith
set_option linter.unusedSimpArgs false
namespace HdVerif.Affine

/-- blocks of equal length laid end to end: element `j` of block `i` sits at `i * m + j` -/
theorem flatMap_range_getElem? {α : Type} (f : Nat → List α) (m : Nat) (hf : ∀ i, (f i).length = m) (n i j : Nat)
    (hi : i < n) (hj : j < m) : ((List.range n).flatMap f)[i * m + j]? = (f i)[j]? := by
  induction n with
  | zero => omega
  | succ n ih =>
    rw [List.range_succ, List.flatMap_append]
    have hlen : ((List.range n).flatMap f).length = n * m := by
      clear ih hi
      induction n with
      | zero => simp
      | succ k ihk => rw [List.range_succ, List.flatMap_append, List.length_append, ihk]; simp [hf, Nat.succ_mul]
    by_cases hin : i < n
    · rw [List.getElem?_append_left (by rw [hlen]; nlinarith)]
      exact ih hin
    · have : i = n := by omega
      subst this
      rw [List.getElem?_append_right (by rw [hlen]; omega), hlen]
      simp

theorem flatMap_range_length {α : Type} (f : Nat → List α) (m : Nat) (hf : ∀ i, (f i).length = m) (n : Nat) :
    ((List.range n).flatMap f).length = n * m := by
  induction n with
  | zero => simp
  | succ k ihk => rw [List.range_succ, List.flatMap_append, List.length_append, ihk]; simp [hf, Nat.succ_mul]


/-! ## the frames of a TILED_FULL image -/

/-- number of tile columns / tile rows as `compute_tile_positions_per_frame` computes them -/
def TiledFull.ntc (tf : TiledFull) : Nat := (genInt (Gen.tilesPerColumn tf.totalCols tf.cols)).toNat
def TiledFull.ntr (tf : TiledFull) : Nat := (genInt (Gen.tilesPerRow tf.totalRows tf.rows)).toNat
def TiledFull.npl (tf : TiledFull) : Nat := tf.focalPlanes.getD Gen.iterDefaultFocalPlanes

/-- `(total − 1) // tile + 1` tiles along each direction: the last, partial tile counts -/
theorem TiledFull.ntc_eq (tf : TiledFull) (h : 0 < tf.cols) : tf.ntc = ((tf.totalCols - 1) / tf.cols + 1).toNat := by
  simp [TiledFull.ntc, genInt, Gen.tilesPerColumn, Int.fdiv_eq_ediv_of_nonneg _ (Int.le_of_lt h)]
theorem TiledFull.ntr_eq (tf : TiledFull) (h : 0 < tf.rows) : tf.ntr = ((tf.totalRows - 1) / tf.rows + 1).toNat := by
  simp [TiledFull.ntr, genInt, Gen.tilesPerRow, Int.fdiv_eq_ediv_of_nonneg _ (Int.le_of_lt h)]

theorem tileGrid_length (tf : TiledFull) : (tileGrid tf).length = tf.ntr * tf.ntc := by
  show ((List.range tf.ntr).flatMap fun (tr : Nat) => (List.range tf.ntc).map fun (tc : Nat) => (((tc : Nat) : Int), ((tr : Nat) : Int))).length = _
  exact flatMap_range_length _ tf.ntc (fun _ => by simp) tf.ntr

/-- tiles are numbered row by row: tile `(tc, tr)` is number `tr · ntc + tc` -/
theorem tileGrid_get (tf : TiledFull) (tr tc : Nat) (hr : tr < tf.ntr) (hc : tc < tf.ntc) :
    (tileGrid tf)[tr * tf.ntc + tc]? = some ((tc : Int), (tr : Int)) := by
  show ((List.range tf.ntr).flatMap fun (tr : Nat) => (List.range tf.ntc).map fun (tc : Nat) => (((tc : Nat) : Int), ((tr : Nat) : Int)))[tr * tf.ntc + tc]? = _
  rw [flatMap_range_getElem? _ tf.ntc (fun _ => by simp) tf.ntr tr tc hr hc]
  simp only [List.getElem?_map]
  rw [List.getElem?_range hc]
  rfl

theorem frameNest_length (nch npl : Nat) (tiles : List (Int × Int)) :
    (frameNest Gen.iterLoopNest nch npl tiles).length = nch * (npl * tiles.length) := by
  simp only [frameNest, Gen.iterLoopNest, if_true]
  exact flatMap_range_length _ (npl * tiles.length)
    (fun _ => flatMap_range_length _ tiles.length (fun _ => by simp) npl) nch

/-- **frame order of a TILED_FULL image**: channels outermost, then focal planes, then the tiles: the frame of channel `ch`, focal
plane `pl`, tile number `t` (all 0-based) is number `(ch · planes + pl) · tiles + t` -/
theorem frameNest_get (nch npl : Nat) (tiles : List (Int × Int)) (ch pl t : Nat) (hch : ch < nch) (hpl : pl < npl)
    (ht : t < tiles.length) :
    (frameNest Gen.iterLoopNest nch npl tiles)[(ch * npl + pl) * tiles.length + t]? = (tiles[t]?).map fun x => (ch, pl, x) := by
  simp only [frameNest, Gen.iterLoopNest, if_true]
  have e : (ch * npl + pl) * tiles.length + t = ch * (npl * tiles.length) + (pl * tiles.length + t) := by ring
  rw [e, flatMap_range_getElem? _ (npl * tiles.length)
    (fun _ => flatMap_range_length _ tiles.length (fun _ => by simp) npl) nch ch (pl * tiles.length + t) hch
    (by nlinarith)]
  rw [flatMap_range_getElem? _ tiles.length (fun _ => by simp) npl pl t hpl ht]
  simp [List.getElem?_map]


/-- the 1-based frame number of channel `ch`, focal plane `pl`, tile row `tr`, tile column `tc` (all 0-based) -/
def TiledFull.frameNumber (tf : TiledFull) (ch pl tr tc : Nat) : Int :=
  (((ch * tf.npl + pl) * (tf.ntr * tf.ntc) + (tr * tf.ntc + tc) : Nat) : Int) + 1

def TiledFull.frames (tf : TiledFull) : Nat := tf.channels * (tf.npl * (tf.ntr * tf.ntc))

/-- every frame number `1 … frames` is the number of exactly one (channel, focal plane, tile row, tile column) -/
theorem TiledFull.frameNumber_surjective (tf : TiledFull) (f : Int) (h1 : 1 ≤ f) (h2 : f ≤ tf.frames) :
    ∃ ch pl tr tc, ch < tf.channels ∧ pl < tf.npl ∧ tr < tf.ntr ∧ tc < tf.ntc ∧ f = tf.frameNumber ch pl tr tc := by
  obtain ⟨k, rfl⟩ : ∃ k : Nat, f = (k : Int) + 1 := ⟨(f - 1).toNat, by omega⟩
  have hk : k < tf.channels * (tf.npl * (tf.ntr * tf.ntc)) := by
    have : ((k : Int) + 1) ≤ ((tf.channels * (tf.npl * (tf.ntr * tf.ntc)) : Nat) : Int) := h2
    omega
  set T := tf.ntr * tf.ntc with hT
  have hTpos : 0 < T := by
    rcases Nat.eq_zero_or_pos T with h0 | h0
    · rw [h0] at hk; simp at hk
    · exact h0
  have hcpos : 0 < tf.ntc := by
    rcases Nat.eq_zero_or_pos tf.ntc with h0 | h0
    · rw [hT, h0] at hTpos; simp at hTpos
    · exact h0
  have hnplpos : 0 < tf.npl := by
    rcases Nat.eq_zero_or_pos tf.npl with h0 | h0
    · rw [h0] at hk; simp at hk
    · exact h0
  refine ⟨k / (tf.npl * T), (k / T) % tf.npl, (k % T) / tf.ntc, (k % T) % tf.ntc, ?_, Nat.mod_lt _ hnplpos, ?_, Nat.mod_lt _ hcpos, ?_⟩
  · exact Nat.div_lt_of_lt_mul (by rw [Nat.mul_comm]; exact hk)
  · exact Nat.div_lt_of_lt_mul (by rw [Nat.mul_comm, ← hT]; exact Nat.mod_lt _ hTpos)
  · simp only [TiledFull.frameNumber, ← hT]
    congr 2
    have e1 : k % T / tf.ntc * tf.ntc + k % T % tf.ntc = k % T := Nat.div_add_mod' _ _
    have e2 : k / (tf.npl * T) * tf.npl + k / T % tf.npl = k / T := by
      rw [Nat.mul_comm tf.npl T, ← Nat.div_div_eq_div_mul]
      exact Nat.div_add_mod' _ _
    rw [e1, e2]
    exact (Nat.div_add_mod' k T).symm

theorem focalPlaneZ_eval (z0 s : Rat) (pl : Nat) : genRat (Gen.focalPlaneZ z0 ((pl : Int) + 1) s) = z0 + (pl : Rat) * s := by
  simp [genRat, Gen.focalPlaneZ]

/-- **position of a frame of a TILED_FULL image** = `compute_tile_positions_per_frame` for its tile, on the total pixel matrix lifted to
its focal plane: the channel does not enter -/
theorem tiledFramePosition_eval (ds : ImageDs) (tf : TiledFull) {x y : Rat} {z : Option Rat} {ps : List Rat} {sbs : Option Rat}
    (ho : ds.totalOrigin = some (x, y, z)) (hm : ds.shared.measures = some (ps, sbs)) (hr : tf.rows ≠ 0) (hc : tf.cols ≠ 0)
    (ha : Gen.tiledAllowedSopClasses.contains tf.source.sopClass = true) (ch pl tr tc : Nat) (hch : ch < tf.channels) (hpl : pl < tf.npl) (htr : tr < tf.ntr) (htc : tc < tf.ntc) :
    tiledFramePosition ds tf (tf.frameNumber ch pl tr tc)
      = (tilePosition tf.rows tf.cols [x, y, z.getD 0 + (pl : Rat) * sbs.getD 1] ds.oriSlide (.seq ps) tc tr).map (·.2.toList) := by
  unfold tiledFramePosition
  rw [ho, hm]
  simp only [hr, hc, ha, Bool.not_true, Bool.false_eq_true, or_self, if_false]
  have hs : genInt (Gen.tiledFrameStart (tf.frameNumber ch pl tr tc))
      = (((ch * tf.npl + pl) * (tf.ntr * tf.ntc) + (tr * tf.ntc + tc) : Nat) : Int) := by
    simp [genInt, Gen.tiledFrameStart, TiledFull.frameNumber]
  have he : genInt (Gen.tiledFrameStop (tf.frameNumber ch pl tr tc))
      = (((ch * tf.npl + pl) * (tf.ntr * tf.ntc) + (tr * tf.ntc + tc) : Nat) : Int) + 1 := by
    simp [genInt, Gen.tiledFrameStop, TiledFull.frameNumber]
  rw [hs, he]
  rw [if_neg (by omega), if_neg (by omega), Int.toNat_natCast]
  have hg := frameNest_get tf.channels tf.npl (tileGrid tf) ch pl (tr * tf.ntc + tc) hch hpl
    (by rw [tileGrid_length]; nlinarith)
  rw [tileGrid_length] at hg
  rw [show tf.focalPlanes.getD Gen.iterDefaultFocalPlanes = tf.npl from rfl, hg, tileGrid_get tf tr tc htr htc]
  simp only [Option.map_some, focalPlaneZ_eval, Gen.iterDefaultZ, Gen.iterDefaultSliceSpacing]
  have e0 : ((0 : Rat) / 1) = 0 := by norm_num
  have e1 : ((1 : Rat) / 1) = 1 := by norm_num
  rw [e0, e1]
  cases tilePosition tf.rows tf.cols [x, y, z.getD 0 + (pl : Rat) * sbs.getD 1] ds.oriSlide (.seq ps) tc tr <;> rfl


/-! ## `_get_spatial_information` / `for_image` on a TILED_FULL slide image -/

/-- a TILED_FULL image in the slide coordinate system whose total pixel matrix is the plane `P` (z of the origin possibly absent),
pixel measures in the shared groups -/
structure TiledSlide (ds : ImageDs) (tf : TiledFull) (P : Plane) (z sbs : Option Rat) : Prop where
  coord : ds.coord = some .slide
  multiframe : ds.multiframe = true
  tiled : ds.tiledFull = some tf
  origin : ds.totalOrigin = some (P.pos.x, P.pos.y, z)
  zpos : P.pos.z = z.getD 0
  measures : ds.shared.measures = some ([P.sr, P.sc], sbs)
  ori : ds.oriSlide = P.oriL
  rows : 0 < tf.rows
  cols : 0 < tf.cols
  allowed : Gen.tiledAllowedSopClasses.contains tf.source.sopClass = true
  hr : 0 < P.sr
  hc : 0 < P.sc

theorem chainOrder_measures : chainOrder "PixelMeasuresSequence" = ['s', 'f'] := by decide
theorem chainOrder_posSlide : chainOrder "PlanePositionSlideSequence" = ['s', 'f'] := by decide
theorem chainOrder_posPatient : chainOrder "PlanePositionSequence" = ['s', 'f'] := by decide
theorem chainOrder_oriPatient : chainOrder "PlaneOrientationSequence" = ['s', 'f'] := by decide

/-- shared groups win: a group present in the shared item is what the lookup returns, whatever the frame item holds -/
theorem lookupIn_shared {α : Type} (shared : Groups) (frame : Option Groups) (sel : Groups → Option α) (v : α)
    (h : sel shared = some v) : lookupIn ['s', 'f'] shared frame sel = .ok v := by
  simp [lookupIn, h]

/-- … otherwise the frame's own item is read … -/
theorem lookupIn_frame {α : Type} (shared : Groups) (g : Groups) (sel : Groups → Option α) (v : α)
    (hs : sel shared = none) (h : sel g = some v) : lookupIn ['s', 'f'] shared (some g) sel = .ok v := by
  simp [lookupIn, hs, h]

/-- … and a group found nowhere is a ValueError -/
theorem lookupIn_none {α : Type} (shared : Groups) (frame : Option Groups) (sel : Groups → Option α)
    (hs : sel shared = none) (hf : ∀ g, frame = some g → sel g = none) : lookupIn ['s', 'f'] shared frame sel = .error .value := by
  cases frame with
  | none => simp [lookupIn, hs]
  | some g => simp [lookupIn, hs, hf g rfl]

/-- the total pixel matrix: origin (z = 0 when absent), slide orientation, shared pixel measures -/
theorem spatialInfo_total {ds : ImageDs} {tf : TiledFull} {P : Plane} {z sbs : Option Rat} (h : TiledSlide ds tf P z sbs)
    (f : Option Int) : getSpatialInformation ds f true = .ok (P.posL, P.oriL, [P.sr, P.sc], sbs) := by
  unfold getSpatialInformation
  rw [h.coord]
  simp only [if_true, h.origin, Gen.totalMatrixMeasuresLookup, lookupIn, List.filterMap_cons, List.filterMap_nil, if_true,
    h.measures, bind, Except.bind, pure, Except.pure, h.ori, Plane.posL, h.zpos, Gen.totalMatrixDefaultZ]
  norm_num

/-- the plane of the total pixel matrix lifted to focal plane `pl` -/
def Plane.lift (P : Plane) (d : Rat) : Plane := ⟨⟨P.pos.x, P.pos.y, P.pos.z + d⟩, P.o, P.sr, P.sc⟩

theorem Plane.lift_fwd_apply (P : Plane) (d s : Rat) (v : V3) : ((P.lift d).fwd s).apply v = ((P.fwd s).apply v).add ⟨0, 0, d⟩ := by
  obtain ⟨⟨px, py, pz⟩, ⟨⟨a1, a2, a3⟩, ⟨b1, b2, b3⟩⟩, sr, sc⟩ := P
  obtain ⟨x, y, zz⟩ := v
  simp only [Plane.lift, Plane.fwd, Aff.apply, M3.mulVec, V3.smul, V3.add, Plane.nrm, V3.cross, V3.mk.injEq]
  refine ⟨?_, ?_, ?_⟩ <;> ring

/-- frame `(ch, pl, tr, tc)`: the tile's position on the total pixel matrix lifted by `pl` slice spacings (1.0 when absent), the
slide orientation, the shared pixel measures -/
theorem spatialInfo_tiled_frame {ds : ImageDs} {tf : TiledFull} {P : Plane} {z sbs : Option Rat} (h : TiledSlide ds tf P z sbs)
    (ch pl tr tc : Nat) (hch : ch < tf.channels) (hpl : pl < tf.npl) (htr : tr < tf.ntr) (htc : tc < tf.ntc) :
    getSpatialInformation ds (some (tf.frameNumber ch pl tr tc)) false
      = .ok (((((P.lift ((pl : Rat) * sbs.getD 1)).fwd 1).apply ⟨(((tc : Int) * tf.cols : Int) : Rat), (((tr : Int) * tf.rows : Int) : Rat), 0⟩)).toList,
             P.oriL, [P.sr, P.sc], sbs) := by
  unfold getSpatialInformation
  rw [h.coord]
  have hge : ¬ (tf.frameNumber ch pl tr tc < Gen.firstFrameNumber) := by
    simp only [TiledFull.frameNumber, Gen.firstFrameNumber]; omega
  simp only [h.multiframe, h.tiled, Option.isSome_some, Gen.tiledFullHasNoFrameGroups, Bool.and_self, if_true, hge,
    Bool.false_eq_true, if_false, bind, Except.bind, pure, Except.pure, chainOrder_measures,
    lookupIn_shared ds.shared none (·.measures) _ h.measures]
  rw [tiledFramePosition_eval ds tf h.origin h.measures (ne_of_gt h.rows) (ne_of_gt h.cols) h.allowed ch pl tr tc hch hpl htr htc]
  have hpos : [P.pos.x, P.pos.y, z.getD 0 + (pl : Rat) * sbs.getD 1] = (P.lift ((pl : Rat) * sbs.getD 1)).posL := by
    simp [Plane.lift, Plane.posL, h.zpos]
  have hev := pixToRefAffine_eval (P.lift ((pl : Rat) * sbs.getD 1)) h.hr h.hc
  have e2 : (P.lift ((pl : Rat) * sbs.getD 1)).oriL = P.oriL := rfl
  have e3 : (P.lift ((pl : Rat) * sbs.getD 1)).ps = .seq [P.sr, P.sc] := rfl
  rw [e2, e3] at hev
  rw [hpos, h.ori]
  simp only [tilePosition, pixToRef, hev, bind, Except.bind, pure, Except.pure, Except.map]


theorem V3.toList_eq_posL (v : V3) (o : Ori) (sr sc : Rat) : v.toList = (Plane.mk v o sr sc).posL := by
  cases v; rfl

/-- **frame vs total pixel matrix, every channel, every focal plane, every tile**: the `for_image` transformer of the total pixel
matrix is the plane's own affine, the transformer of frame `(ch, pl, tr, tc)` exists and maps pixel `(c, r)` of the frame to what the
total pixel matrix maps pixel `(tc·Columns + c, tr·Rows + r)` to, lifted by `pl` slice spacings along z of the slide -/
theorem forImage_frame_vs_total {ds : ImageDs} {tf : TiledFull} {P : Plane} {z sbs : Option Rat} (h : TiledSlide ds tf P z sbs)
    (ch pl tr tc : Nat) (hch : ch < tf.channels) (hpl : pl < tf.npl) (htr : tr < tf.ntr) (htc : tc < tf.ntc) :
    pixToRefForImage ds none true = .ok (P.fwd 1) ∧
    ∃ F, pixToRefForImage ds (some (tf.frameNumber ch pl tr tc)) false = .ok F ∧
      ∀ c r : Rat, F.apply ⟨c, r, 0⟩
        = ((P.fwd 1).apply ⟨(((tc : Int) * tf.cols : Int) : Rat) + c, (((tr : Int) * tf.rows : Int) : Rat) + r, 0⟩).add
            ⟨0, 0, (pl : Rat) * sbs.getD 1⟩ := by
  constructor
  · simp only [pixToRefForImage, spatialInfo_total h none, bind, Except.bind, Gen.pixToRefForImage]
    exact pixToRefAffine_eval P h.hr h.hc
  · set posf := ((P.lift ((pl : Rat) * sbs.getD 1)).fwd 1).apply
      ⟨(((tc : Int) * tf.cols : Int) : Rat), (((tr : Int) * tf.rows : Int) : Rat), 0⟩ with hposf
    have hev := pixToRefAffine_eval (Plane.mk posf P.o P.sr P.sc) h.hr h.hc
    refine ⟨(Plane.mk posf P.o P.sr P.sc).fwd 1, ?_, ?_⟩
    · simp only [pixToRefForImage, spatialInfo_tiled_frame h ch pl tr tc hch hpl htr htc, bind, Except.bind,
        Gen.pixToRefForImage, ← hposf, V3.toList_eq_posL posf P.o P.sr P.sc]
      exact hev
    · intro c r
      rw [hposf, Plane.lift_fwd_apply]
      obtain ⟨⟨px, py, pz⟩, ⟨⟨a1, a2, a3⟩, ⟨b1, b2, b3⟩⟩, sr, sc⟩ := P
      simp only [Plane.fwd, Aff.apply, M3.mulVec, V3.smul, V3.add, Plane.nrm, V3.cross, V3.mk.injEq]
      refine ⟨?_, ?_, ?_⟩ <;> ring

/-- the inverse transformers of a frame use the frame's own position and the declared slice spacing (1 when there is none) -/
theorem forImage_inverse_of_frame {ds : ImageDs} {tf : TiledFull} {P : Plane} {z sbs : Option Rat} (h : TiledSlide ds tf P z sbs)
    (ch pl tr tc : Nat) (hch : ch < tf.channels) (hpl : pl < tf.npl) (htr : tr < tf.ntr) (htc : tc < tf.ntc) :
    refToPixForImage ds (some (tf.frameNumber ch pl tr tc)) false
      = invAffineFromAttributes
          (((P.lift ((pl : Rat) * sbs.getD 1)).fwd 1).apply ⟨(((tc : Int) * tf.cols : Int) : Rat), (((tr : Int) * tf.rows : Int) : Rat), 0⟩).toList
          P.oriL (.seq [P.sr, P.sc]) (sbs.getD 1) := by
  simp only [refToPixForImage, spatialInfo_tiled_frame h ch pl tr tc hch hpl htr htc, bind, Except.bind, Gen.refToPixForImage,
    Gen.refToPixForImageDefaultSliceSpacing, Option.getD_some]
  norm_num

/-- **a frame number below 1 is refused (IndexError) by every multi-frame image**, tiled or not (repaired defect
C10-frame-number-lower-bound: before the fix a non-tiled image answered with a frame counted from the END) -/
theorem spatialInfo_nonpositive_refused (ds : ImageDs) (c : Coord) (hc : ds.coord = some c) (hm : ds.multiframe = true) (f : Int)
    (hf : f < 1) : getSpatialInformation ds (some f) false = .error .index := by
  unfold getSpatialInformation
  rw [hc]
  have : f < Gen.firstFrameNumber := hf
  simp only [hm, if_true, Bool.false_eq_true, if_false, this]

/-- **frame numbers outside `1 … frames` are refused** (TILED_FULL) -/
theorem spatialInfo_tiled_out_of_range {ds : ImageDs} {tf : TiledFull} {P : Plane} {z sbs : Option Rat} (h : TiledSlide ds tf P z sbs)
    (f : Int) (hf : f < 1 ∨ (tf.frames : Int) < f) : ∃ e, getSpatialInformation ds (some f) false = .error e := by
  rcases hf with hf | hf
  · exact ⟨_, spatialInfo_nonpositive_refused ds _ h.coord h.multiframe f hf⟩
  unfold getSpatialInformation
  rw [h.coord]
  have hge : ¬ (f < Gen.firstFrameNumber) := by
    have : (0 : Int) ≤ (tf.frames : Int) := Int.natCast_nonneg _
    simp only [Gen.firstFrameNumber]; omega
  simp only [h.multiframe, h.tiled, Option.isSome_some, Gen.tiledFullHasNoFrameGroups, Bool.and_self, if_true, hge,
    Bool.false_eq_true, if_false, bind, Except.bind, pure, Except.pure, chainOrder_measures,
    lookupIn_shared ds.shared none (·.measures) _ h.measures]
  unfold tiledFramePosition
  rw [h.origin, h.measures]
  simp only [ne_of_gt h.rows, ne_of_gt h.cols, h.allowed, Bool.not_true, Bool.false_eq_true, or_self, if_false]
  have hs : genInt (Gen.tiledFrameStart f) = f - 1 := by simp [genInt, Gen.tiledFrameStart]
  have he : genInt (Gen.tiledFrameStop f) = f := by simp [genInt, Gen.tiledFrameStop]
  rw [hs, he]
  have h0 : ¬ (f - 1 < 0 ∨ f < 0) := by
    have : (0 : Int) ≤ (tf.frames : Int) := Int.natCast_nonneg _
    omega
  rw [if_neg h0, if_neg (by omega)]
  have hlen : (frameNest Gen.iterLoopNest tf.channels (tf.focalPlanes.getD Gen.iterDefaultFocalPlanes) (tileGrid tf)).length
      = tf.frames := by
    rw [frameNest_length, tileGrid_length]; rfl
  have hbig : tf.frames ≤ (f - 1).toNat := by omega
  rw [List.getElem?_eq_none (by rw [hlen]; exact hbig)]
  exact ⟨_, rfl⟩

/-- … and EXACTLY those: a TILED_FULL slide image answers a frame number iff it lies in `1 … frames` -/
theorem spatialInfo_tiled_refused_iff {ds : ImageDs} {tf : TiledFull} {P : Plane} {z sbs : Option Rat} (h : TiledSlide ds tf P z sbs)
    (f : Int) : (∃ e, getSpatialInformation ds (some f) false = .error e) ↔ (f < 1 ∨ (tf.frames : Int) < f) := by
  constructor
  · rintro ⟨e, he⟩
    by_contra hin
    have h1 : 1 ≤ f := by omega
    have h2 : f ≤ tf.frames := by omega
    obtain ⟨ch, pl, tr, tc, hch, hpl, htr, htc, rfl⟩ := tf.frameNumber_surjective f h1 h2
    rw [spatialInfo_tiled_frame h ch pl tr tc hch hpl htr htc] at he
    cases he
  · exact spatialInfo_tiled_out_of_range h f

/-! ## multi-frame images with explicit groups, single frames -/

theorem pyIndex_natCast {α : Type} (l : List α) (k : Nat) (x : α) (h : l[k]? = some x) : pyIndex l (k : Int) = .ok x := by
  unfold pyIndex
  simp only [show ¬ ((k : Int) < 0) by omega, if_false, Int.toNat_natCast, h]

theorem frameGroupIndex_succ (k : Nat) : genInt (Gen.frameGroupIndex ((k : Int) + 1)) = (k : Int) := by
  simp [genInt, Gen.frameGroupIndex]

/-- **a frame's own groups**: when the shared item holds none of the groups, frame `k` (1-based) gets exactly what ITS per-frame
item holds - position, orientation, pixel spacing and slice spacing of frame `k`, not of any other frame -/
theorem spatialInfo_per_frame_own (ds : ImageDs) (hc : ds.coord = some .patient) (hm : ds.multiframe = true)
    (ht : ds.tiledFull = none) (hs1 : ds.shared.measures = none) (hs2 : ds.shared.posPatient = none)
    (hs3 : ds.shared.oriPatient = none) (k : Nat) (g : Groups) (hk : ds.perFrame[k]? = some g)
    (pos ori ps : List Rat) (sbs : Option Rat) (h1 : g.measures = some (ps, sbs)) (h2 : g.posPatient = some pos)
    (h3 : g.oriPatient = some ori) :
    getSpatialInformation ds (some ((k : Int) + 1)) false = .ok (pos, ori, ps, sbs) := by
  unfold getSpatialInformation
  rw [hc]
  have hidx : pyIndex ds.perFrame (genInt (Gen.frameGroupIndex ((k : Int) + 1))) = .ok g := by
    rw [frameGroupIndex_succ]; exact pyIndex_natCast _ _ _ hk
  have hge : ¬ ((k : Int) + 1 < Gen.firstFrameNumber) := by simp only [Gen.firstFrameNumber]; omega
  simp only [hm, ht, Option.isSome_none, Bool.false_and, Bool.false_eq_true, if_false, if_true, hidx, hge, Except.map, bind,
    Except.bind, pure, Except.pure, chainOrder_measures, chainOrder_posPatient, chainOrder_oriPatient,
    lookupIn_frame ds.shared g (·.measures) _ hs1 h1, lookupIn_frame ds.shared g (·.posPatient) _ hs2 h2,
    lookupIn_frame ds.shared g (·.oriPatient) _ hs3 h3]

/-- **shared groups win** over whatever the per-frame item holds (one plane for all frames) -/
theorem spatialInfo_shared_wins (ds : ImageDs) (hc : ds.coord = some .patient) (hm : ds.multiframe = true)
    (ht : ds.tiledFull = none) (pos ori ps : List Rat) (sbs : Option Rat) (h1 : ds.shared.measures = some (ps, sbs))
    (h2 : ds.shared.posPatient = some pos) (h3 : ds.shared.oriPatient = some ori) (k : Nat) (hk : k < ds.perFrame.length) :
    getSpatialInformation ds (some ((k : Int) + 1)) false = .ok (pos, ori, ps, sbs) := by
  unfold getSpatialInformation
  rw [hc]
  obtain ⟨g, hg⟩ : ∃ g, ds.perFrame[k]? = some g := ⟨ds.perFrame[k], List.getElem?_eq_getElem hk⟩
  have hidx : pyIndex ds.perFrame (genInt (Gen.frameGroupIndex ((k : Int) + 1))) = .ok g := by
    rw [frameGroupIndex_succ]; exact pyIndex_natCast _ _ _ hg
  have hge : ¬ ((k : Int) + 1 < Gen.firstFrameNumber) := by simp only [Gen.firstFrameNumber]; omega
  simp only [hm, ht, Option.isSome_none, Bool.false_and, Bool.false_eq_true, if_false, if_true, hidx, hge, Except.map, bind,
    Except.bind, pure, Except.pure, chainOrder_measures, chainOrder_posPatient, chainOrder_oriPatient,
    lookupIn_shared ds.shared (some g) (·.measures) _ h1, lookupIn_shared ds.shared (some g) (·.posPatient) _ h2,
    lookupIn_shared ds.shared (some g) (·.oriPatient) _ h3]

theorem pyIndex_beyond {α : Type} (l : List α) (i : Int) (h : (l.length : Int) ≤ i) : pyIndex l i = (.error .index : Except ErrKind α) := by
  unfold pyIndex
  have h0 : ¬ (i < 0) := by have : (0 : Int) ≤ (l.length : Int) := Int.natCast_nonneg _; omega
  simp only [h0, if_false]
  rw [List.getElem?_eq_none (by omega)]

/-- **a multi-frame image with per-frame groups refuses exactly the frame numbers outside `1 … n`** (both with IndexError), n = number of
per-frame items: below 1 by the explicit test, above n by the index into the per-frame sequence -/
theorem spatialInfo_per_frame_outside_refused (ds : ImageDs) (c : Coord) (hc : ds.coord = some c) (hm : ds.multiframe = true)
    (ht : ds.tiledFull = none) (f : Int) (hf : f < 1 ∨ (ds.perFrame.length : Int) < f) :
    getSpatialInformation ds (some f) false = .error .index := by
  rcases hf with hf | hf
  · exact spatialInfo_nonpositive_refused ds c hc hm f hf
  unfold getSpatialInformation
  rw [hc]
  have hge : ¬ (f < Gen.firstFrameNumber) := by
    have : (0 : Int) ≤ (ds.perFrame.length : Int) := Int.natCast_nonneg _
    simp only [Gen.firstFrameNumber]; omega
  have hidx : pyIndex ds.perFrame (genInt (Gen.frameGroupIndex f)) = .error .index := by
    apply pyIndex_beyond
    simp only [genInt, Gen.frameGroupIndex]; omega
  simp only [hm, ht, Option.isSome_none, Bool.false_and, Bool.false_eq_true, if_false, if_true, hge, hidx, Except.map, bind,
    Except.bind]

/-- … and EXACTLY those, when every per-frame item carries its plane (position, orientation, pixel measures) -/
theorem spatialInfo_per_frame_refused_iff (ds : ImageDs) (hc : ds.coord = some .patient) (hm : ds.multiframe = true)
    (ht : ds.tiledFull = none) (hs1 : ds.shared.measures = none) (hs2 : ds.shared.posPatient = none)
    (hs3 : ds.shared.oriPatient = none)
    (hall : ∀ g ∈ ds.perFrame, g.measures.isSome = true ∧ g.posPatient.isSome = true ∧ g.oriPatient.isSome = true) (f : Int) :
    (∃ e, getSpatialInformation ds (some f) false = .error e) ↔ (f < 1 ∨ (ds.perFrame.length : Int) < f) := by
  constructor
  · rintro ⟨e, he⟩
    by_contra hin
    obtain ⟨k, rfl⟩ : ∃ k : Nat, f = (k : Int) + 1 := ⟨(f - 1).toNat, by omega⟩
    have hk : k < ds.perFrame.length := by omega
    have hg : ds.perFrame[k]? = some ds.perFrame[k] := List.getElem?_eq_getElem hk
    obtain ⟨h1, h2, h3⟩ := hall ds.perFrame[k] (List.getElem_mem hk)
    obtain ⟨⟨ps, sbs⟩, h1⟩ := Option.isSome_iff_exists.mp h1
    obtain ⟨pos, h2⟩ := Option.isSome_iff_exists.mp h2
    obtain ⟨ori, h3⟩ := Option.isSome_iff_exists.mp h3
    rw [spatialInfo_per_frame_own ds hc hm ht hs1 hs2 hs3 k _ hg pos ori ps sbs h1 h2 h3] at he
    cases he
  · intro hf
    exact ⟨_, spatialInfo_per_frame_outside_refused ds _ hc hm ht f hf⟩

/-- single-frame image: its own attributes for frame number None or 1, a TypeError for any other frame number; a multi-frame image
needs a frame number; an image without coordinate system is refused; a total pixel matrix needs its origin -/
theorem spatialInfo_rules (ds : ImageDs) (c : Coord) (hc : ds.coord = some c) :
    (ds.multiframe = false → getSpatialInformation ds none false = .ok (ds.rootPos, ds.rootOri, ds.rootPs, ds.rootSbs) ∧
        getSpatialInformation ds (some 1) false = .ok (ds.rootPos, ds.rootOri, ds.rootPs, ds.rootSbs) ∧
        ∀ f : Int, f ≠ 1 → getSpatialInformation ds (some f) false = .error .type) ∧
    (ds.multiframe = true → getSpatialInformation ds none false = .error .type) ∧
    (ds.totalOrigin = none → ∀ f, getSpatialInformation ds f true = .error .value) ∧
    (∀ f t, getSpatialInformation { ds with coord := none } f t = .error .value) := by
  refine ⟨fun hm => ⟨?_, ?_, fun f hf => ?_⟩, fun hm => ?_, fun ho f => ?_, fun f t => ?_⟩
  · simp [getSpatialInformation, hc, hm, pure, Except.pure]
  · simp [getSpatialInformation, hc, hm, pure, Except.pure]
  · simp [getSpatialInformation, hc, hm, hf]
  · simp [getSpatialInformation, hc, hm]
  · simp [getSpatialInformation, hc, ho]
  · simp [getSpatialInformation]


/-! ## the transformers built for one image / frame are mutually inverse -/

/-- **for_image pairs are mutually inverse**: whenever `_get_spatial_information` yields a valid plane (any image kind, any frame,
total pixel matrix or not), `PixelToReferenceTransformer.for_image` and `ReferenceToPixelTransformer.for_image` of the same request
exist, reference → pixel undoes pixel → reference on every (sub-)pixel index, and - with the slice axis of the declared slice spacing
(1 when there is none) - pixel → reference undoes reference → pixel on every point; likewise for the image-coordinate pair -/
theorem forImage_mutually_inverse (ds : ImageDs) (f : Option Int) (t : Bool) (P : Plane) (hP : P.Valid) (sbs : Option Rat)
    (h : getSpatialInformation ds f t = .ok (P.posL, P.oriL, [P.sr, P.sc], sbs)) (hs : sbs.getD 1 ≠ 0) :
    ∃ A B I J, pixToRefForImage ds f t = .ok A ∧ refToPixForImage ds f t = .ok B ∧
      imgToRefForImage ds f t = .ok I ∧ refToImgForImage ds f t = .ok J ∧
      (∀ c r : Rat, B.apply (A.apply ⟨c, r, 0⟩) = ⟨c, r, 0⟩) ∧
      (∀ v : V3, (P.fwd (sbs.getD 1)).apply (B.apply v) = v) ∧
      (∀ x y : Rat, J.apply (I.apply ⟨x, y, 0⟩) = ⟨x, y, 0⟩) := by
  obtain ⟨mi, hmi, hinv⟩ := invAffine_eval P hP hs
  have hfwd := pixToRefAffine_eval P hP.hr hP.hc
  have e1 : ((1 : Rat) / 1) = 1 := by norm_num
  have hz : ∀ x y : Rat, (P.fwd 1).apply ⟨x, y, 0⟩ = (P.fwd (sbs.getD 1)).apply ⟨x, y, 0⟩ := by
    intro x y; simp [Plane.fwd, Aff.apply, M3.mulVec, V3.smul, V3.add]
  have hps : Spacing.seq [P.sr, P.sc] = P.ps := rfl
  refine ⟨P.fwd 1, ⟨mi, (mi.mulVec P.pos).neg⟩, (P.fwd 1).comp (Aff.shift (vecOfTriple Gen.imgToRefCorrection)),
    (Aff.shift (vecOfTriple Gen.refToImgCorrection)).comp ⟨mi, (mi.mulVec P.pos).neg⟩, ?_, ?_, ?_, ?_, ?_, ?_, ?_⟩
  · simp only [pixToRefForImage, h, bind, Except.bind, Gen.pixToRefForImage, hps]; exact hfwd
  · simp only [refToPixForImage, h, bind, Except.bind, Gen.refToPixForImage, Gen.refToPixForImageDefaultSliceSpacing,
      Option.getD_some, e1, hps]
    exact hinv
  · have := hfwd
    unfold pixToRefAffine at this
    simp only [imgToRefForImage, h, bind, Except.bind, Gen.imgToRefForImage, hps, imgToRefAffine, this, pure, Except.pure]
  · simp only [refToImgForImage, h, bind, Except.bind, Gen.refToImgForImage, Gen.refToImgForImageDefaultSliceSpacing,
      Option.getD_some, e1, hps, refToImgAffine, hinv, pure, Except.pure]
  · intro c r
    rw [hz]
    have := Aff.inv_apply_left hmi P.pos ⟨c, r, 0⟩
    simp only [Plane.fwd] at this ⊢
    exact this
  · intro v
    exact Aff.inv_apply_right hmi P.pos v
  · intro x y
    rw [Aff.comp_apply, Aff.comp_apply, Aff.shift_apply, Aff.shift_apply]
    have e : (⟨x, y, 0⟩ : V3).add (vecOfTriple Gen.imgToRefCorrection) = ⟨x - 1 / 2, y - 1 / 2, 0⟩ := by
      simp only [vecOfTriple, Gen.imgToRefCorrection, V3.add, V3.mk.injEq]; refine ⟨?_, ?_, ?_⟩ <;> ring
    rw [e, hz]
    have := Aff.inv_apply_left hmi P.pos ⟨x - 1 / 2, y - 1 / 2, 0⟩
    simp only [Plane.fwd] at this ⊢
    rw [this]
    simp only [vecOfTriple, Gen.refToImgCorrection, V3.add, V3.mk.injEq]; refine ⟨?_, ?_, ?_⟩ <;> ring


/-! ## PATIENT vs SLIDE -/

theorem imageCoordinateSystem_slide_iff (d : CoordInput) :
    imageCoordinateSystem d = .ok (some .slide) ↔
      d.present.contains "FrameOfReferenceUID" = true ∧
      (d.present.contains "ImageOrientationSlide" = true ∨ d.present.contains "ImageCenterPointCoordinatesSequence" = true) := by
  unfold imageCoordinateSystem
  simp only [Gen.slideMarkers, Gen.patientGroupSequences, List.any_cons, List.any_nil, Bool.or_false, patientFromGroups]
  cases h1 : d.present.contains "FrameOfReferenceUID" <;> cases h2 : d.present.contains "ImageOrientationSlide" <;>
    cases h3 : d.present.contains "ImageCenterPointCoordinatesSequence" <;> simp <;>
    (repeat' split) <;> simp

theorem imageCoordinateSystem_patient_iff (d : CoordInput) (he : d.emptyAtFirstItem = []) :
    imageCoordinateSystem d = .ok (some .patient) ↔
      d.present.contains "FrameOfReferenceUID" = true ∧
      d.present.contains "ImageOrientationSlide" = false ∧ d.present.contains "ImageCenterPointCoordinatesSequence" = false ∧
      (d.present.contains "ImagePositionPatient" = true ∨
        (d.present.contains "SharedFunctionalGroupsSequence" = true ∧ d.firstItemHasPatientPosition.contains "SharedFunctionalGroupsSequence" = true) ∨
        (d.present.contains "PerFrameFunctionalGroupsSequence" = true ∧ d.firstItemHasPatientPosition.contains "PerFrameFunctionalGroupsSequence" = true)) := by
  unfold imageCoordinateSystem
  simp only [Gen.slideMarkers, Gen.patientGroupSequences, List.any_cons, List.any_nil, Bool.or_false, patientFromGroups, he,
    List.contains_nil, Bool.false_eq_true, if_false]
  cases h1 : d.present.contains "FrameOfReferenceUID" <;> cases h2 : d.present.contains "ImageOrientationSlide" <;>
    cases h3 : d.present.contains "ImageCenterPointCoordinatesSequence" <;> cases h4 : d.present.contains "ImagePositionPatient" <;>
    cases h5 : d.present.contains "SharedFunctionalGroupsSequence" <;>
    cases h6 : d.firstItemHasPatientPosition.contains "SharedFunctionalGroupsSequence" <;>
    cases h7 : d.present.contains "PerFrameFunctionalGroupsSequence" <;>
    cases h8 : d.firstItemHasPatientPosition.contains "PerFrameFunctionalGroupsSequence" <;> simp

/-- the answer is never an error unless a functional-group sequence that has to be searched cannot be indexed -/
theorem imageCoordinateSystem_total (d : CoordInput) (he : d.emptyAtFirstItem = []) : ∃ c, imageCoordinateSystem d = .ok c := by
  unfold imageCoordinateSystem
  simp only [Gen.patientGroupSequences, patientFromGroups, he, List.contains_nil, Bool.false_eq_true, if_false]
  repeat' split
  all_goals exact ⟨_, rfl⟩


/-- DICOM (PS3.3 C.7.6.16.1.2) demands that every item of the Per-frame Functional Groups Sequence contains the SAME set of functional
groups.  Under that assumption the FIRST item, the only one `get_image_coordinate_system` reads, speaks for all frames. -/
theorem first_item_speaks_for_all (perFrame : List Groups)
    (huni : ∀ g ∈ perFrame, ∀ g' ∈ perFrame, g.posPatient.isSome = g'.posPatient.isSome) :
    ((perFrame.head?.bind (·.posPatient)).isSome = true) ↔ (perFrame ≠ [] ∧ ∀ g ∈ perFrame, g.posPatient.isSome = true) := by
  cases perFrame with
  | nil => simp
  | cons g0 gs =>
    simp only [List.head?_cons, Option.bind_some, ne_eq, reduceCtorEq, not_false_eq_true, true_and]
    constructor
    · intro h g hg
      rw [huni g hg g0 (List.mem_cons_self)]; exact h
    · intro h; exact h g0 (List.mem_cons_self)

/-! ## `for_images`: one frame of reference -/

/-- **two images are related only through a common frame of reference**: `for_images` of both two-image classes refuses (ValueError) when
one of the datasets has no FrameOfReferenceUID or the two differ - before any spatial information is read -/
theorem forImages_needs_common_frame_of_reference (dsF dsT : ImageDs) (ff ft : Option Int) (tf tt : Bool)
    (h : dsF.frameOfReference = none ∨ dsT.frameOfReference = none ∨ dsF.frameOfReference ≠ dsT.frameOfReference) :
    pixToPixForImages dsF dsT ff ft tf tt = .error .value ∧ imgToImgForImages dsF dsT ff ft tf tt = .error .value := by
  have hs : sameFrameOfReference dsF dsT = .error .value := by
    unfold sameFrameOfReference
    cases ha : dsF.frameOfReference with
    | none => rfl
    | some a =>
      cases hb : dsT.frameOfReference with
      | none => rfl
      | some b =>
        rcases h with h | h | h
        · rw [ha] at h; cases h
        · rw [hb] at h; cases h
        · rw [ha, hb] at h
          have : a ≠ b := fun e => h (by rw [e])
          simp [this]
  simp only [pixToPixForImages, imgToImgForImages, hs, bind, Except.bind, and_self]

/-- … and with a common frame of reference `for_images` is the constructor on the spatial information of the two sides -/
theorem forImages_eq_constructor (dsF dsT : ImageDs) (u : String) (hF : dsF.frameOfReference = some u) (hT : dsT.frameOfReference = some u)
    (ff ft : Option Int) (tf tt : Bool) (f t : List Rat × List Rat × List Rat × Option Rat)
    (h1 : getSpatialInformation dsF ff tf = .ok f) (h2 : getSpatialInformation dsT ft tt = .ok t) :
    pixToPixForImages dsF dsT ff ft tf tt = pixToPixAffine f.1 f.2.1 (.seq f.2.2.1) t.1 t.2.1 (.seq t.2.2.1) ∧
    imgToImgForImages dsF dsT ff ft tf tt = imgToImgAffine f.1 f.2.1 (.seq f.2.2.1) t.1 t.2.1 (.seq t.2.2.1) := by
  have hs : sameFrameOfReference dsF dsT = .ok () := by simp [sameFrameOfReference, hF, hT]
  simp only [pixToPixForImages, imgToImgForImages, hs, h1, h2, bind, Except.bind, Gen.pixToPixForImages, Gen.imgToImgForImages, and_self]

/-! ## number of channels -/

/-- **the number of channels of a TILED_FULL image, as the library derives it** (regenerated decision): a LABELMAP segmentation has one,
any other segmentation one per item of SegmentSequence, every other image the declared NumberOfOpticalPaths or, when that is absent,
one per item of OpticalPathSequence -/
theorem tiledChannels_spec (tf : TiledFull) :
    (Gen.segmentationSopClasses.contains tf.source.sopClass = true → tf.source.segmentationType = "LABELMAP" → tf.channels = 1) ∧
    (Gen.segmentationSopClasses.contains tf.source.sopClass = true → tf.source.segmentationType ≠ "LABELMAP" → tf.channels = tf.source.segments) ∧
    (Gen.segmentationSopClasses.contains tf.source.sopClass = false → ∀ n, tf.source.declaredPaths = some n → tf.channels = n) ∧
    (Gen.segmentationSopClasses.contains tf.source.sopClass = false → tf.source.declaredPaths = none → tf.channels = tf.source.pathItems) ∧
    (∀ c ∈ Gen.segmentationSopClasses, c ∈ Gen.tiledAllowedSopClasses) := by
  refine ⟨fun h1 h2 => ?_, fun h1 h2 => ?_, fun h1 n h2 => ?_, fun h1 h2 => ?_, by decide⟩ <;>
    simp only [TiledFull.channels, Gen.tiledChannelCount, h1, h2, if_true, if_false, Bool.false_eq_true, Option.getD_some, Option.getD_none]

end HdVerif.Affine
