import HdVerif.Model.Volume
import HdVerif.Proofs.RatFloor
import Mathlib.Tactic.Ring
import Mathlib.Tactic.Linarith
import Mathlib.Tactic.Push
/-! Helper lemmas for C08 (`Props/C08.lean`): affine algebra of re-indexing, slice arithmetic, per-operation
soundness, composition. -/
namespace HdVerif.VolLemmas
open HdVerif HdVerif.Gen HdVerif.Vol

theorem bind_ok {ε α β} {x : Except ε α} {f : α → Except ε β} {b : β} :
    (x >>= f) = .ok b ↔ ∃ a, x = .ok a ∧ f a = .ok b := by
  cases x <;> simp [bind, Except.bind]

/-! ## affine algebra -/

theorem pos_remap (sz : AxMap → Int) (g : Geom) (m0 m1 m2 : AxMap) (j : I3) :
    (g.remap sz m0 m1 m2).pos j = g.pos (remapSrc m0 m1 m2 j) := by
  simp only [Geom.remap, Geom.pos, remapSrc, V3.add, V3.smul, V3.mk.injEq]
  push_cast
  refine ⟨?_, ?_, ?_⟩ <;> ring

theorem dot_smul (a b : Rat) (u v : V3) : (V3.smul a u).dot (V3.smul b v) = a * b * u.dot v := by
  simp only [V3.smul, V3.dot]; ring

theorem orth_remap (sz : AxMap → Int) (g : Geom) (m0 m1 m2 : AxMap) (h : g.Orth)
    (h0 : m0.step ≠ 0) (h1 : m1.step ≠ 0) (h2 : m2.step ≠ 0) : (g.remap sz m0 m1 m2).Orth := by
  obtain ⟨o1, o2, o3, o4, o5, o6⟩ := h
  have q0 : (m0.step : Rat) ≠ 0 := by exact_mod_cast h0
  have q1 : (m1.step : Rat) ≠ 0 := by exact_mod_cast h1
  have q2 : (m2.step : Rat) ≠ 0 := by exact_mod_cast h2
  simp only [Geom.Orth, Geom.remap, dot_smul, o1, o2, o3, mul_zero, true_and]
  exact ⟨mul_ne_zero (mul_ne_zero q0 q0) o4, mul_ne_zero (mul_ne_zero q1 q1) o5, mul_ne_zero (mul_ne_zero q2 q2) o6⟩

/-- a permutation of the three axes: pairwise distinct entries -/
def PermValid (p : Perm) : Prop := p.1 ≠ p.2.1 ∧ p.1 ≠ p.2.2 ∧ p.2.1 ≠ p.2.2

theorem permOfList_valid {l : List Int} {p : Perm} (h : permOfList l = .ok p) : PermValid p := by
  unfold permOfList at h
  split at h
  · split at h
    · split at h
      · cases h; assumption
      · cases h
    · cases h
  · cases h

theorem pos_permute (g : Geom) (p : Perm) (hp : PermValid p) (j : I3) :
    (g.permute p).pos j = g.pos (permSrc p j) := by
  obtain ⟨a, b, c⟩ := p
  obtain ⟨h1, h2, h3⟩ := hp
  cases a <;> cases b <;> cases c <;> simp at h1 h2 h3 <;>
    (simp only [Geom.permute, Geom.pos, permSrc, Geom.col, V3.add, V3.smul, V3.mk.injEq, reduceCtorEq, if_true, if_false]
      <;> (refine ⟨?_, ?_, ?_⟩ <;> ring))

theorem orth_permute (g : Geom) (p : Perm) (hp : PermValid p) (h : g.Orth) : (g.permute p).Orth := by
  obtain ⟨a, b, c⟩ := p
  obtain ⟨h1, h2, h3⟩ := hp
  obtain ⟨o1, o2, o3, o4, o5, o6⟩ := h
  have s1 : g.c1.dot g.c0 = 0 := by unfold V3.dot at *; linarith
  have s2 : g.c2.dot g.c0 = 0 := by unfold V3.dot at *; linarith
  have s3 : g.c2.dot g.c1 = 0 := by unfold V3.dot at *; linarith
  cases a <;> cases b <;> cases c <;> simp at h1 h2 h3 <;>
    simp [Geom.permute, Geom.Orth, Geom.col, *]

theorem pos_permute_shape (g : Geom) (p : Perm) (h : g.Pos) : (g.permute p).Pos := by
  obtain ⟨a, b, c⟩ := p
  obtain ⟨h0, h1, h2⟩ := h
  cases a <;> cases b <;> cases c <;> simp [Geom.permute, Geom.Pos, Geom.size, *]

theorem inRange_iff (g : Geom) (i : I3) :
    g.inRange i = true ↔ (0 ≤ i.i0 ∧ i.i0 < g.n0) ∧ (0 ≤ i.i1 ∧ i.i1 < g.n1) ∧ (0 ≤ i.i2 ∧ i.i2 < g.n2) := by
  simp only [Geom.inRange, Bool.and_eq_true, decide_eq_true_eq]
  constructor
  · rintro ⟨⟨⟨⟨⟨a, b⟩, c⟩, d⟩, e⟩, f⟩; exact ⟨⟨a, b⟩, ⟨c, d⟩, ⟨e, f⟩⟩
  · rintro ⟨⟨a, b⟩, ⟨c, d⟩, ⟨e, f⟩⟩; exact ⟨⟨⟨⟨⟨a, b⟩, c⟩, d⟩, e⟩, f⟩

theorem inRange_permute (g : Geom) (p : Perm) (hp : PermValid p) (j : I3) :
    (g.permute p).inRange j = g.inRange (permSrc p j) := by
  obtain ⟨a, b, c⟩ := p
  obtain ⟨h1, h2, h3⟩ := hp
  rw [Bool.eq_iff_iff, inRange_iff, inRange_iff]
  cases a <;> cases b <;> cases c <;> simp at h1 h2 h3 <;>
    simp only [Geom.permute, permSrc, Geom.size, reduceCtorEq, if_true, if_false] <;> tauto

/-! ## slice arithmetic -/

theorem stride_bound (d s k : Int) (hs : 0 < s) (hk : k < d / s + 1) : s * k ≤ d := by
  have h1 : k ≤ d / s := by omega
  have h2 : s * k ≤ s * (d / s) := Int.mul_le_mul_of_nonneg_left h1 (Int.le_of_lt hs)
  have h3 : s * (d / s) ≤ d := Int.mul_ediv_self_le (Int.ne_of_gt hs)
  omega

/-- T10a: what the size / emptiness arithmetic of `_prepare_getitem_index` accepts and returns -/
theorem getitemAxisItem_ok {f l st a b c : Int} (hst : st ≠ 0) (h : getitemAxisItem f l st = .ok (a, b, c)) :
    a = f ∧ b = st ∧ ((0 < st ∧ f < l ∧ c = (l - f - 1) / st + 1) ∨ (st < 0 ∧ l < f ∧ c = (f - l - 1) / (-st) + 1)) := by
  unfold getitemAxisItem at h
  by_cases hs : 0 < st
  · have hs' : ¬ st < 0 := by omega
    by_cases hr : l - f < 0
    · simp [hr, hs'] at h
    · by_cases hr0 : l - f = 0
      · simp [hr0] at h
      · simp [hr, hs', hr0, fdiv_pos _ _ hs] at h
        obtain ⟨h1, h2, h3⟩ := h
        refine ⟨h1.symm, h2.symm, Or.inl ⟨hs, by omega, ?_⟩⟩
        rw [← h3]
  · have hs' : st < 0 := by omega
    by_cases hr : l - f < 0
    · have hr0 : ¬ l - f = 0 := by omega
      have : 0 < -st := by omega
      simp [hr, hs', hr0, fdiv_pos _ _ this] at h
      obtain ⟨h1, h2, h3⟩ := h
      refine ⟨h1.symm, h2.symm, Or.inr ⟨hs', by omega, ?_⟩⟩
      rw [Int.ediv_neg]; omega
    · simp [hr, hs'] at h

/-- and it refuses exactly the empty selections -/
theorem getitemAxisItem_err {f l st : Int} (hst : st ≠ 0) :
    (∃ e, getitemAxisItem f l st = .error e) ↔ sliceLen f l st = 0 := by
  unfold getitemAxisItem sliceLen
  by_cases hs : 0 < st
  · have hs' : ¬ st < 0 := by omega
    have hs2 : st > 0 := hs
    by_cases hr : l - f < 0
    · have : ¬ f < l := by omega
      simp [hr, hs', hs2, this]
    · by_cases hr0 : l - f = 0
      · have : ¬ f < l := by omega
        simp [hr0, hs2, this]
      · have : f < l := by omega
        have hq : 0 ≤ (l - f - 1) / st := Int.ediv_nonneg (by omega) (by omega)
        simp [hr, hs', hr0, hs2, this]
        omega
  · have hs' : st < 0 := by omega
    have hs2 : ¬ st > 0 := by omega
    by_cases hr : l - f < 0
    · have hr0 : ¬ l - f = 0 := by omega
      have : l < f := by omega
      have hq : 0 ≤ (f - l - 1) / (-st) := Int.ediv_nonneg (by omega) (by omega)
      simp [hr, hs', hr0, hs2, this]
      rw [Int.ediv_neg] at hq
      omega
    · have : ¬ l < f := by omega
      simp [hr, hs', hs2, this]

theorem sliceIndices_ok {a b c : Option Int} {n f l st : Int} (hn : 0 ≤ n) (h : sliceIndices a b c n = .ok (f, l, st)) :
    st ≠ 0 ∧ (0 < st → 0 ≤ f ∧ f ≤ n ∧ 0 ≤ l ∧ l ≤ n) ∧ (st < 0 → -1 ≤ f ∧ f ≤ n - 1 ∧ -1 ≤ l ∧ l ≤ n - 1) := by
  unfold sliceIndices at h
  cases a <;> cases b <;> cases c <;> simp only at h <;> split at h <;>
    first
    | (cases h; done)
    | (simp only [Except.ok.injEq, Prod.mk.injEq] at h
       obtain ⟨rfl, rfl, rfl⟩ := h
       refine ⟨by omega, ?_, ?_⟩ <;> intro hs <;> (repeat' split) <;> omega)

/-- an axis map is well formed: non-zero stride, at least one voxel, and numpy's length is the computed size -/
def AxGood (m : AxMap) : Prop := m.step ≠ 0 ∧ 1 ≤ m.size ∧ m.alen = m.size
/-- every output index of the axis reads an existing input voxel -/
def AxInside (m : AxMap) (n : Int) : Prop :=
  ∀ k, 0 ≤ k → k < m.size → 0 ≤ m.first + m.step * k ∧ m.first + m.step * k < n

theorem axisOfSlice_some_sound {a b c : Option Int} {n : Int} {m : AxMap} (hn : 0 ≤ n)
    (h : axisOfSlice (some (a, b, c)) n = .ok m) : AxGood m ∧ AxInside m n := by
  simp only [axisOfSlice] at h
  obtain ⟨⟨f, l, st⟩, h1, h⟩ := bind_ok.mp h
  dsimp only at h
  obtain ⟨⟨first, step, size⟩, h2, h⟩ := bind_ok.mp h
  simp only [pure, Except.pure, Except.ok.injEq] at h
  subst h
  obtain ⟨hst, hpos, hneg⟩ := sliceIndices_ok hn h1
  obtain ⟨e1, e2, h3⟩ := getitemAxisItem_ok hst h2
  subst e1 e2
  simp only [AxGood, AxInside]
  rcases h3 with ⟨hs, hfl, hc⟩ | ⟨hs, hfl, hc⟩
  · obtain ⟨p1, p2, p3, p4⟩ := hpos hs
    have hq : 0 ≤ (l - first - 1) / step := Int.ediv_nonneg (by omega) (by omega)
    refine ⟨⟨hst, by omega, ?_⟩, ?_⟩
    · simp only [sliceLen]
      have : step > 0 := hs
      simp [this, hfl, hc]
    · intro k hk0 hk
      have := stride_bound (l - first - 1) step k hs (by omega)
      have h0 : 0 ≤ step * k := Int.mul_nonneg (by omega) hk0
      omega
  · obtain ⟨p1, p2, p3, p4⟩ := hneg hs
    have hs2 : 0 < -step := by omega
    have hq : 0 ≤ (first - l - 1) / (-step) := Int.ediv_nonneg (by omega) (by omega)
    refine ⟨⟨hst, by omega, ?_⟩, ?_⟩
    · simp only [sliceLen]
      have h1 : ¬ step > 0 := by omega
      simp [h1, hs, hfl, hc]
    · intro k hk0 hk
      have := stride_bound (first - l - 1) (-step) k hs2 (by omega)
      have h0 : 0 ≤ (-step) * k := Int.mul_nonneg (by omega) hk0
      have e : (-step) * k = -(step * k) := by ring
      omega

theorem axisOfSlice_none_sound {n : Int} {m : AxMap} (hn : 0 < n) (h : axisOfSlice none n = .ok m) :
    AxGood m ∧ AxInside m n ∧ m = ⟨0, 1, n, n⟩ := by
  simp only [axisOfSlice, getitemAxisNone, bind, Except.bind, pure, Except.pure, Except.ok.injEq] at h
  subst h
  refine ⟨⟨by simp, hn, rfl⟩, ?_, rfl⟩
  intro k hk0 hk
  simp only at hk ⊢
  omega

theorem axisOfSlice_sound {s : Option PySlice} {n : Int} {m : AxMap} (hn : 0 < n) (h : axisOfSlice s n = .ok m) :
    AxGood m ∧ AxInside m n := by
  cases s with
  | none => exact ⟨(axisOfSlice_none_sound hn h).1, (axisOfSlice_none_sound hn h).2.1⟩
  | some s => obtain ⟨a, b, c⟩ := s; exact axisOfSlice_some_sound (by omega) h

/-! ## `__getitem__` -/

/-- `getitemMaps` succeeded: the slices per axis it went through -/
theorem getitemMaps_ok {g : Geom} {items : List Item} {m0 m1 m2 : AxMap}
    (h : getitemMaps g items = .ok (m0, m1, m2)) :
    items.length ≤ 3 ∧ ∃ s0 s1 s2, optItemSlice items[0]? g.n0 = .ok s0 ∧ optItemSlice items[1]? g.n1 = .ok s1 ∧
      optItemSlice items[2]? g.n2 = .ok s2 ∧ axisOfSlice s0 g.n0 = .ok m0 ∧ axisOfSlice s1 g.n1 = .ok m1 ∧
      axisOfSlice s2 g.n2 = .ok m2 := by
  simp only [getitemMaps] at h
  split at h
  · cases h
  · rename_i hl
    simp only [pure, Except.pure] at h
    obtain ⟨s0, e0, h⟩ := bind_ok.mp h
    obtain ⟨s1, e1, h⟩ := bind_ok.mp h
    obtain ⟨s2, e2, h⟩ := bind_ok.mp h
    obtain ⟨a0, f0, h⟩ := bind_ok.mp h
    obtain ⟨a1, f1, h⟩ := bind_ok.mp h
    obtain ⟨a2, f2, h⟩ := bind_ok.mp h
    simp only [Except.ok.injEq, Prod.mk.injEq] at h
    obtain ⟨rfl, rfl, rfl⟩ := h
    exact ⟨by omega, s0, s1, s2, e0, e1, e2, f0, f1, f2⟩

theorem getitemMaps_sound {g : Geom} {items : List Item} {m0 m1 m2 : AxMap} (hp : g.Pos)
    (h : getitemMaps g items = .ok (m0, m1, m2)) :
    (AxGood m0 ∧ AxInside m0 g.n0) ∧ (AxGood m1 ∧ AxInside m1 g.n1) ∧ (AxGood m2 ∧ AxInside m2 g.n2) := by
  obtain ⟨_, s0, s1, s2, _, _, _, f0, f1, f2⟩ := getitemMaps_ok h
  exact ⟨axisOfSlice_sound hp.1 f0, axisOfSlice_sound hp.2.1 f1, axisOfSlice_sound hp.2.2 f2⟩

/-- both ways of taking the new size agree on well-formed axis maps -/
def SzOk (sz : AxMap → Int) : Prop := ∀ m, m.alen = m.size → sz m = m.size

theorem szOk_size : SzOk AxMap.size := fun _ _ => rfl
theorem szOk_alen : SzOk AxMap.alen := fun _ h => h

theorem remap_pos_shape (sz : AxMap → Int) (hsz : SzOk sz) (g : Geom) {m0 m1 m2 : AxMap}
    (h0 : AxGood m0) (h1 : AxGood m1) (h2 : AxGood m2) : (g.remap sz m0 m1 m2).Pos := by
  simp only [Geom.Pos, Geom.remap, hsz m0 h0.2.2, hsz m1 h1.2.2, hsz m2 h2.2.2]
  exact ⟨by have := h0.2.1; omega, by have := h1.2.1; omega, by have := h2.2.1; omega⟩

theorem remap_sz_eq (sz : AxMap → Int) (hsz : SzOk sz) (g : Geom) {m0 m1 m2 : AxMap}
    (h0 : AxGood m0) (h1 : AxGood m1) (h2 : AxGood m2) : g.remap sz m0 m1 m2 = g.remap AxMap.size m0 m1 m2 := by
  simp only [Geom.remap, hsz m0 h0.2.2, hsz m1 h1.2.2, hsz m2 h2.2.2]

/-- what a correct step on a geometry guarantees -/
structure StepOk (g : Geom) (r : GStep) : Prop where
  position : ∀ j, r.1.pos j = g.pos (r.2 j)
  orth : g.Orth → r.1.Orth
  shape : r.1.Pos

/-- no voxel of the result is new -/
def NoNew (g : Geom) (r : GStep) : Prop := ∀ j, r.1.inRange j = true → g.inRange (r.2 j) = true

theorem remap_noNew (sz : AxMap → Int) (hsz : SzOk sz) (g : Geom) {m0 m1 m2 : AxMap}
    (h0 : AxGood m0 ∧ AxInside m0 g.n0) (h1 : AxGood m1 ∧ AxInside m1 g.n1) (h2 : AxGood m2 ∧ AxInside m2 g.n2) :
    NoNew g (g.remap sz m0 m1 m2, remapSrc m0 m1 m2) := by
  intro j hj
  rw [inRange_iff] at hj ⊢
  simp only [Geom.remap, hsz m0 h0.1.2.2, hsz m1 h1.1.2.2, hsz m2 h2.1.2.2] at hj
  obtain ⟨⟨a0, a1⟩, ⟨b0, b1⟩, ⟨c0, c1⟩⟩ := hj
  exact ⟨h0.2 _ a0 a1, h1.2 _ b0 b1, h2.2 _ c0 c1⟩

theorem getitemG_sound (sz : AxMap → Int) (hsz : SzOk sz) {g : Geom} {items : List Item} {r : GStep} (hp : g.Pos)
    (h : getitemG sz g items = .ok r) :
    StepOk g r ∧ NoNew g r ∧ ∀ sz', SzOk sz' → getitemG sz' g items = .ok r := by
  simp only [getitemG] at h ⊢
  obtain ⟨⟨m0, m1, m2⟩, hm, h⟩ := bind_ok.mp h
  simp only [pure, Except.pure, Except.ok.injEq] at h
  subst h
  obtain ⟨s0, s1, s2⟩ := getitemMaps_sound hp hm
  refine ⟨⟨fun j => pos_remap sz g m0 m1 m2 j, fun ho => orth_remap sz g m0 m1 m2 ho s0.1.1 s1.1.1 s2.1.1,
    remap_pos_shape sz hsz g s0.1 s1.1 s2.1⟩, remap_noNew sz hsz g s0 s1 s2, ?_⟩
  intro sz' hsz'
  rw [hm]
  simp only [bind, Except.bind, pure, Except.pure, remap_sz_eq sz hsz g s0.1 s1.1 s2.1,
    remap_sz_eq sz' hsz' g s0.1 s1.1 s2.1]

theorem StepOk.comp {g : Geom} {r1 r2 : GStep} (h1 : StepOk g r1) (h2 : StepOk r1.1 r2) :
    StepOk g (r2.1, fun j => r1.2 (r2.2 j)) :=
  ⟨fun j => by simp only; rw [h2.position, h1.position], fun ho => h2.orth (h1.orth ho), h2.shape⟩

theorem NoNew.comp {g : Geom} {r1 r2 : GStep} (h1 : NoNew g r1) (h2 : NoNew r1.1 r2) :
    NoNew g (r2.1, fun j => r1.2 (r2.2 j)) := fun j hj => h1 _ (h2 j hj)

theorem stepOk_id {g : Geom} (hp : g.Pos) : StepOk g (g, id) := ⟨fun _ => rfl, fun h => h, hp⟩
theorem noNew_id (g : Geom) : NoNew g (g, id) := fun _ h => h

theorem flipG_sound (sz : AxMap → Int) (hsz : SzOk sz) {g : Geom} {axes : List Int} {r : GStep} (hp : g.Pos)
    (h : flipG sz g axes = .ok r) : StepOk g r ∧ NoNew g r ∧ ∀ sz', SzOk sz' → flipG sz' g axes = .ok r := by
  simp only [flipG] at h ⊢
  obtain ⟨items, hi, h⟩ := bind_ok.mp h
  obtain ⟨a, b, c⟩ := getitemG_sound sz hsz hp h
  refine ⟨a, b, fun sz' hsz' => ?_⟩
  rw [hi]; exact c sz' hsz'

theorem permuteG_sound {g : Geom} {p : List Int} {r : GStep} (hp : g.Pos) (h : permuteG g p = .ok r) :
    StepOk g r ∧ NoNew g r := by
  simp only [permuteG] at h
  obtain ⟨q, hq, h⟩ := bind_ok.mp h
  simp only [pure, Except.pure, Except.ok.injEq] at h
  subst h
  have hv := permOfList_valid hq
  exact ⟨⟨fun j => pos_permute g q hv j, orth_permute g q hv, pos_permute_shape g q hp⟩,
    fun j hj => by simpa [inRange_permute g q hv j] using hj⟩

theorem swapG_sound {g : Geom} {a b : Int} {r : GStep} (hp : g.Pos) (h : swapG g a b = .ok r) :
    StepOk g r ∧ NoNew g r := by
  simp only [swapG] at h
  obtain ⟨p, _, h⟩ := bind_ok.mp h
  exact permuteG_sound hp h

theorem fullPadWidth_nonneg {w : PadWidth} {full : FullPad} (h : fullPadWidth w = .ok full) :
    0 ≤ full.1.1 ∧ 0 ≤ full.1.2 ∧ 0 ≤ full.2.1.1 ∧ 0 ≤ full.2.1.2 ∧ 0 ≤ full.2.2.1 ∧ 0 ≤ full.2.2.2 := by
  simp only [fullPadWidth] at h
  obtain ⟨f, _, h⟩ := bind_ok.mp h
  split at h
  · cases h
  · rename_i hn
    simp only [pure, Except.pure, Except.ok.injEq] at h
    subst h
    simp only [fullNeg, Bool.or_eq_true, decide_eq_true_eq, not_or, not_lt] at hn
    obtain ⟨⟨⟨⟨⟨a, b⟩, c⟩, d⟩, e⟩, f⟩ := hn
    exact ⟨a, b, c, d, e, f⟩

theorem padAxis_good {n b a : Int} (hn : 0 < n) (hb : 0 ≤ b) (ha : 0 ≤ a) : AxGood (padAxis n b a) :=
  ⟨by simp [padAxis], by simp only [padAxis]; omega, rfl⟩

theorem padFullG_sound (sz : AxMap → Int) (hsz : SzOk sz) {g : Geom} {full : FullPad} (hp : g.Pos)
    (hf : 0 ≤ full.1.1 ∧ 0 ≤ full.1.2 ∧ 0 ≤ full.2.1.1 ∧ 0 ≤ full.2.1.2 ∧ 0 ≤ full.2.2.1 ∧ 0 ≤ full.2.2.2) :
    StepOk g (padFullG sz g full) ∧ ∀ sz', SzOk sz' → padFullG sz' g full = padFullG sz g full := by
  obtain ⟨f0, f1, f2, f3, f4, f5⟩ := hf
  have g0 := padAxis_good hp.1 f0 f1
  have g1 := padAxis_good hp.2.1 f2 f3
  have g2 := padAxis_good hp.2.2 f4 f5
  refine ⟨⟨fun j => pos_remap sz g _ _ _ j, fun ho => orth_remap sz g _ _ _ ho g0.1 g1.1 g2.1,
    remap_pos_shape sz hsz g g0 g1 g2⟩, fun sz' hsz' => ?_⟩
  simp only [padFullG, remap_sz_eq sz hsz g g0 g1 g2, remap_sz_eq sz' hsz' g g0 g1 g2]

theorem padG_sound (sz : AxMap → Int) (hsz : SzOk sz) {g : Geom} {w : PadWidth} {r : GStep} (hp : g.Pos)
    (h : padG sz g w = .ok r) : StepOk g r ∧ ∀ sz', SzOk sz' → padG sz' g w = .ok r := by
  simp only [padG] at h ⊢
  obtain ⟨full, hf, h⟩ := bind_ok.mp h
  simp only [pure, Except.pure, Except.ok.injEq] at h
  subst h
  obtain ⟨a, b⟩ := padFullG_sound sz hsz hp (fullPadWidth_nonneg hf)
  refine ⟨a, fun sz' hsz' => ?_⟩
  rw [hf]; simp only [bind, Except.bind, pure, Except.pure, b sz' hsz']

theorem padToG_sound (sz : AxMap → Int) (hsz : SzOk sz) {g : Geom} {s : List Int} {r : GStep} (hp : g.Pos)
    (h : padToG sz g s = .ok r) : StepOk g r ∧ ∀ sz', SzOk sz' → padToG sz' g s = .ok r := by
  simp only [padToG] at h ⊢
  obtain ⟨w, hw, h⟩ := bind_ok.mp h
  obtain ⟨a, b⟩ := padG_sound sz hsz hp h
  refine ⟨a, fun sz' hsz' => ?_⟩
  rw [hw]; exact b sz' hsz'

theorem cropToG_sound (sz : AxMap → Int) (hsz : SzOk sz) {g : Geom} {s : List Int} {r : GStep} (hp : g.Pos)
    (h : cropToG sz g s = .ok r) : StepOk g r ∧ NoNew g r ∧ ∀ sz', SzOk sz' → cropToG sz' g s = .ok r := by
  simp only [cropToG] at h ⊢
  obtain ⟨items, hi, h⟩ := bind_ok.mp h
  obtain ⟨a, b, c⟩ := getitemG_sound sz hsz hp h
  refine ⟨a, b, fun sz' hsz' => ?_⟩
  rw [hi]; exact c sz' hsz'

theorem padOrCropG_sound (sz : AxMap → Int) (hsz : SzOk sz) {g : Geom} {s : List Int} {r : GStep} (hp : g.Pos)
    (h : padOrCropG sz g s = .ok r) : StepOk g r ∧ ∀ sz', SzOk sz' → padOrCropG sz' g s = .ok r := by
  simp only [padOrCropG] at h ⊢
  obtain ⟨⟨items, w⟩, hpl, h⟩ := bind_ok.mp h
  dsimp only at h
  obtain ⟨⟨g1, f1⟩, h1, h⟩ := bind_ok.mp h
  dsimp only at h
  obtain ⟨⟨g2, f2⟩, h2, h⟩ := bind_ok.mp h
  simp only [pure, Except.pure, Except.ok.injEq] at h
  subst h
  obtain ⟨a1, _, c1⟩ := getitemG_sound sz hsz hp h1
  obtain ⟨a2, c2⟩ := padG_sound sz hsz a1.shape h2
  refine ⟨StepOk.comp a1 a2, fun sz' hsz' => ?_⟩
  rw [hpl]
  simp only [bind, Except.bind, c1 sz' hsz', c2 sz' hsz', pure, Except.pure]

theorem flipIfAny_sound (sz : AxMap → Int) (hsz : SzOk sz) {g : Geom} {flips : List Int} {r : GStep} (hp : g.Pos)
    (h : flipIfAny sz g flips = .ok r) : StepOk g r ∧ NoNew g r ∧ ∀ sz', SzOk sz' → flipIfAny sz' g flips = .ok r := by
  simp only [flipIfAny] at h ⊢
  split at h
  · rename_i he
    simp only [Except.ok.injEq] at h
    subst h
    exact ⟨stepOk_id hp, noNew_id g, fun _ _ => by simp [he]⟩
  · rename_i he
    obtain ⟨a, b, c⟩ := flipG_sound sz hsz hp h
    exact ⟨a, b, fun sz' hsz' => by simp only [he]; exact c sz' hsz'⟩

theorem toOrientationG_sound (sz : AxMap → Int) (hsz : SzOk sz) {coord : Coord} {g : Geom} {o : List Char} {r : GStep}
    (hp : g.Pos) (h : toOrientationG sz coord g o = .ok r) :
    StepOk g r ∧ NoNew g r ∧ ∀ sz', SzOk sz' → toOrientationG sz' coord g o = .ok r := by
  simp only [toOrientationG] at h ⊢
  split at h
  · cases h
  · rename_i hc
    simp only [pure, Except.pure] at h ⊢
    obtain ⟨des, hd, h⟩ := bind_ok.mp h
    obtain ⟨⟨perm, flips⟩, hpl, h⟩ := bind_ok.mp h
    dsimp only at h
    obtain ⟨⟨g1, f1⟩, h1, h⟩ := bind_ok.mp h
    dsimp only at h
    obtain ⟨⟨g2, f2⟩, h2, h⟩ := bind_ok.mp h
    simp only [Except.ok.injEq] at h
    subst h
    obtain ⟨a1, b1, c1⟩ := flipIfAny_sound sz hsz hp h1
    obtain ⟨a2, b2⟩ := permuteG_sound a1.shape h2
    refine ⟨StepOk.comp a1 a2, NoNew.comp b1 b2, fun sz' hsz' => ?_⟩
    simp only [hc, if_false]
    rw [hd]
    simp only [bind, Except.bind, hpl, c1 sz' hsz', h2]

theorem ensureHandednessG_sound (sz : AxMap → Int) (hsz : SzOk sz) {g : Geom} {hd : String} {fa : Option Int}
    {sa : Option (List Int)} {r : GStep} (hp : g.Pos) (h : ensureHandednessG sz g hd fa sa = .ok r) :
    StepOk g r ∧ NoNew g r ∧ ∀ sz', SzOk sz' → ensureHandednessG sz' g hd fa sa = .ok r := by
  unfold ensureHandednessG at h ⊢
  split at h
  · cases h
  · rename_i hc
    split at h
    · cases h
    · rename_i wantLeft hw
      split at h
      · rename_i he
        simp only [Except.ok.injEq] at h
        subst h
        refine ⟨stepOk_id hp, noNew_id g, fun sz' _ => ?_⟩
        simp only [hc, he]; rfl
      · rename_i he
        split at h
        · obtain ⟨a, b, c⟩ := flipG_sound sz hsz hp h
          refine ⟨a, b, fun sz' hsz' => ?_⟩
          simp only [hc, he]; exact c sz' hsz'
        · obtain ⟨a, b⟩ := swapG_sound hp h
          refine ⟨a, b, fun sz' _ => ?_⟩
          simp only [hc, he]; exact h
        · cases h
        · cases h

/-! ## all spatial operations -/

theorem applyG_sound (sz : AxMap → Int) (hsz : SzOk sz) {coord : Coord} {g : Geom} {op : SOp} {r : GStep} (hp : g.Pos)
    (h : op.applyG sz coord g = .ok r) :
    StepOk g r ∧ (SOp.cropping op = true → NoNew g r) ∧ ∀ sz', SzOk sz' → op.applyG sz' coord g = .ok r := by
  cases op with
  | getitem items => obtain ⟨a, b, c⟩ := getitemG_sound sz hsz hp h; exact ⟨a, fun _ => b, c⟩
  | flip axes => obtain ⟨a, b, c⟩ := flipG_sound sz hsz hp h; exact ⟨a, fun _ => b, c⟩
  | permute p => obtain ⟨a, b⟩ := permuteG_sound hp h; exact ⟨a, fun _ => b, fun _ _ => h⟩
  | swap x y => obtain ⟨a, b⟩ := swapG_sound hp h; exact ⟨a, fun _ => b, fun _ _ => h⟩
  | pad w o => obtain ⟨a, c⟩ := padG_sound sz hsz hp h; exact ⟨a, fun hc => by simp [SOp.cropping] at hc, c⟩
  | padTo s o => obtain ⟨a, c⟩ := padToG_sound sz hsz hp h; exact ⟨a, fun hc => by simp [SOp.cropping] at hc, c⟩
  | cropTo s => obtain ⟨a, b, c⟩ := cropToG_sound sz hsz hp h; exact ⟨a, fun _ => b, c⟩
  | padOrCropTo s o => obtain ⟨a, c⟩ := padOrCropG_sound sz hsz hp h; exact ⟨a, fun hc => by simp [SOp.cropping] at hc, c⟩
  | toOrientation o => obtain ⟨a, b, c⟩ := toOrientationG_sound sz hsz hp h; exact ⟨a, fun _ => b, c⟩
  | ensureHandedness hd fa sa => obtain ⟨a, b, c⟩ := ensureHandednessG_sound sz hsz hp h; exact ⟨a, fun _ => b, c⟩
  | copy =>
    simp only [SOp.applyG, Except.ok.injEq] at h
    subst h
    exact ⟨stepOk_id hp, fun _ => noNew_id g, fun _ _ => rfl⟩

/-! ## volumes -/

/-- position part of a step on a volume -/
structure VPosOk (v : Vol) (r : VStep) : Prop where
  retained : ∀ j i, r.2 j = some i → r.1.geom.pos j = v.geom.pos i ∧ v.geom.inRange i = true
  orth : v.geom.Orth → r.1.geom.Orth
  shape : r.1.geom.Pos

/-- value / channel part of a spatial step on a volume -/
structure VValOk (v : Vol) (r : VStep) : Prop where
  values : ∀ j i, r.2 j = some i → ∀ c, r.1.arr j c = v.arr i c
  cshape : r.1.cshape = v.cshape
  chans : r.1.chans = v.chans

theorem provOf_some {g : Geom} {f : I3 → I3} {j i : I3} (h : provOf g f j = some i) : i = f j ∧ g.inRange (f j) = true := by
  simp only [provOf] at h
  split at h
  · rename_i hr; simp only [Option.some.injEq] at h; exact ⟨h.symm, hr⟩
  · cases h

theorem provOf_none {g : Geom} {f : I3 → I3} {j : I3} (h : provOf g f j = none) : g.inRange (f j) = false := by
  simp only [provOf] at h
  split at h
  · cases h
  · rename_i hr; simpa using hr

theorem reindex_ok {v : Vol} {r : GStep} (h : StepOk v.geom r) : VPosOk v (v.reindex r) ∧ VValOk v (v.reindex r) := by
  refine ⟨⟨?_, h.orth, h.shape⟩, ⟨?_, rfl, rfl⟩⟩
  · intro j i hj
    obtain ⟨rfl, hr⟩ := provOf_some hj
    exact ⟨h.position j, hr⟩
  · intro j i hj c
    obtain ⟨rfl, _⟩ := provOf_some hj
    rfl

theorem reindex_noNew {v : Vol} {r : GStep} (h : NoNew v.geom r) (j : I3) (hj : (v.reindex r).1.geom.inRange j = true) :
    (v.reindex r).2 j = some (r.2 j) := by
  simp only [Vol.reindex, provOf, h j hj, if_true]

theorem padArray_retained {v : Vol} {f : I3 → I3} {o : PadOpts} {a : I3 → List Nat → Rat} {b : Bool}
    (h : padArray v f o = .ok (a, b)) (j : I3) (hj : v.geom.inRange (f j) = true) (c : List Nat) :
    a j c = v.arr (f j) c := by
  unfold padArray at h
  split at h
  · cases h
  · rename_i mode hm
    dsimp only at h
    split at h
    · simp only [Except.ok.injEq, Prod.mk.injEq] at h; obtain ⟨rfl, _⟩ := h; simp [hj]
    · simp only [Except.ok.injEq, Prod.mk.injEq] at h; obtain ⟨rfl, _⟩ := h; simp [hj]
    · split at h
      · split at h
        · cases h
        · simp only [Except.ok.injEq, Prod.mk.injEq] at h; obtain ⟨rfl, _⟩ := h; simp [hj]
      · split at h
        · cases h
        · simp only [Except.ok.injEq, Prod.mk.injEq] at h; obtain ⟨rfl, _⟩ := h; simp [hj]

theorem padStep_ok {v : Vol} {r : GStep} {o : PadOpts} {w : VStep} (hs : StepOk v.geom r) (h : v.padStep r o = .ok w) :
    VPosOk v w ∧ VValOk v w ∧ w.1.geom = r.1 ∧ w.2 = provOf v.geom r.2 := by
  simp only [Vol.padStep] at h
  obtain ⟨⟨a, b⟩, ha, h⟩ := bind_ok.mp h
  simp only [pure, Except.pure, Except.ok.injEq] at h
  subst h
  refine ⟨⟨?_, hs.orth, hs.shape⟩, ⟨?_, rfl, rfl⟩, rfl, rfl⟩
  · intro j i hj
    obtain ⟨rfl, hr⟩ := provOf_some hj
    exact ⟨hs.position j, hr⟩
  · intro j i hj c
    obtain ⟨rfl, hr⟩ := provOf_some hj
    exact padArray_retained ha j hr c

theorem comp_some {later earlier : Prov} {j i : I3} (h : Prov.comp later earlier j = some i) :
    ∃ k, later j = some k ∧ earlier k = some i := by
  simp only [Prov.comp] at h
  cases hk : later j with
  | none => rw [hk] at h; cases h
  | some k => rw [hk] at h; exact ⟨k, rfl, h⟩

theorem VPosOk.comp {v : Vol} {r1 r2 : VStep} (h1 : VPosOk v r1) (h2 : VPosOk r1.1 r2) :
    VPosOk v (r2.1, r2.2.comp r1.2) := by
  refine ⟨?_, fun ho => h2.orth (h1.orth ho), h2.shape⟩
  intro j i hj
  obtain ⟨k, hk, hi⟩ := comp_some hj
  obtain ⟨a, _⟩ := h2.retained j k hk
  obtain ⟨b, c⟩ := h1.retained k i hi
  exact ⟨a.trans b, c⟩

theorem VValOk.comp {v : Vol} {r1 r2 : VStep} (h1 : VValOk v r1) (h2 : VValOk r1.1 r2) :
    VValOk v (r2.1, r2.2.comp r1.2) := by
  refine ⟨?_, h2.cshape.trans h1.cshape, h2.chans.trans h1.chans⟩
  intro j i hj c
  obtain ⟨k, hk, hi⟩ := comp_some hj
  exact (h2.values j k hk c).trans (h1.values k i hi c)

theorem applyVol_sound {coord : Coord} {v : Vol} {op : SOp} {w : VStep} (hp : v.geom.Pos)
    (h : op.applyVol coord v = .ok w) :
    VPosOk v w ∧ VValOk v w ∧ (∃ f, op.applyGeom coord v.geom = .ok (w.1.geom, f)) ∧
    (op.cropping = true → ∀ j, w.1.geom.inRange j = true → w.2 j ≠ none) := by
  have generic : ∀ {op : SOp}, op.cropping = true →
      (do let r ← op.applyG AxMap.alen coord v.geom; pure (v.reindex r) : Except ErrKind VStep) = .ok w →
      VPosOk v w ∧ VValOk v w ∧ (∃ f, op.applyGeom coord v.geom = .ok (w.1.geom, f)) ∧
      (op.cropping = true → ∀ j, w.1.geom.inRange j = true → w.2 j ≠ none) := by
    intro op hc h
    obtain ⟨r, hr, h⟩ := bind_ok.mp h
    simp only [pure, Except.pure, Except.ok.injEq] at h
    subst h
    obtain ⟨a, b, c⟩ := applyG_sound AxMap.alen szOk_alen hp hr
    obtain ⟨p1, p2⟩ := reindex_ok a
    refine ⟨p1, p2, ⟨r.2, c AxMap.size szOk_size⟩, fun _ j hj => ?_⟩
    rw [reindex_noNew (b hc) j hj]; simp
  cases op with
  | pad wd o =>
    simp only [SOp.applyVol] at h
    obtain ⟨_, _, h⟩ := bind_ok.mp h
    obtain ⟨r, hr, h⟩ := bind_ok.mp h
    obtain ⟨a, c⟩ := padG_sound AxMap.alen szOk_alen hp hr
    obtain ⟨p1, p2, p3, _⟩ := padStep_ok a h
    exact ⟨p1, p2, ⟨r.2, by rw [p3]; exact c AxMap.size szOk_size⟩, fun hc => by simp [SOp.cropping] at hc⟩
  | padTo s o =>
    simp only [SOp.applyVol] at h
    obtain ⟨wd, hw, h⟩ := bind_ok.mp h
    obtain ⟨_, _, h⟩ := bind_ok.mp h
    obtain ⟨r, hr, h⟩ := bind_ok.mp h
    obtain ⟨a, c⟩ := padG_sound AxMap.alen szOk_alen hp hr
    obtain ⟨p1, p2, p3, _⟩ := padStep_ok a h
    refine ⟨p1, p2, ⟨r.2, ?_⟩, fun hc => by simp [SOp.cropping] at hc⟩
    simp only [SOp.applyGeom, SOp.applyG, padToG, hw, bind, Except.bind, p3]
    exact c AxMap.size szOk_size
  | padOrCropTo s o =>
    simp only [SOp.applyVol] at h
    obtain ⟨⟨items, wd⟩, hpl, h⟩ := bind_ok.mp h
    dsimp only at h
    obtain ⟨r1, hr1, h⟩ := bind_ok.mp h
    obtain ⟨_, _, h⟩ := bind_ok.mp h
    obtain ⟨r2, hr2, h⟩ := bind_ok.mp h
    obtain ⟨⟨v2, p2⟩, hv2, h⟩ := bind_ok.mp h
    simp only [pure, Except.pure, Except.ok.injEq] at h
    subst h
    obtain ⟨a1, _, c1⟩ := getitemG_sound AxMap.alen szOk_alen hp hr1
    obtain ⟨q1, q2⟩ := reindex_ok a1
    have hp1 : (v.reindex r1).1.geom.Pos := a1.shape
    obtain ⟨a2, c2⟩ := padG_sound AxMap.alen szOk_alen hp1 hr2
    obtain ⟨t1, t2, t3, _⟩ := padStep_ok a2 hv2
    refine ⟨VPosOk.comp q1 t1, VValOk.comp q2 t2, ⟨fun j => r1.2 (r2.2 j), ?_⟩, fun hc => by simp [SOp.cropping] at hc⟩
    simp only [SOp.applyGeom, SOp.applyG, padOrCropG, hpl, bind, Except.bind, c1 AxMap.size szOk_size]
    have := c2 AxMap.size szOk_size
    simp only [Vol.reindex] at this
    simp only [this, pure, Except.pure]
    have t3' : v2.geom = r2.1 := t3
    rw [t3']
  | getitem items => exact generic rfl h
  | flip axes => exact generic rfl h
  | permute p => exact generic rfl h
  | swap a b => exact generic rfl h
  | cropTo s => exact generic rfl h
  | toOrientation o => exact generic rfl h
  | ensureHandedness hd fa sa => exact generic rfl h
  | copy => exact generic rfl h

/-! ## histories -/

/-- channel selection / permutation and `with_array` leave the geometry alone -/
theorem nonspatial_geom {coord : Coord} {v : Vol} {op : Op} {w : VStep} (hns : ∀ s, op ≠ .spatial s)
    (h : op.apply coord v = .ok w) : w.1.geom = v.geom ∧ w.2 = provOf v.geom id := by
  cases op with
  | spatial s => exact absurd rfl (hns s)
  | getChannel sel keep =>
    simp only [Op.apply, getChannelV] at h
    split at h
    · cases h
    · split at h
      · cases h
      · split at h
        · obtain ⟨chans, _, h⟩ := bind_ok.mp h
          simp only [pure, Except.pure, Except.ok.injEq] at h
          subst h; exact ⟨rfl, rfl⟩
        · simp only [Except.ok.injEq] at h
          subst h; exact ⟨rfl, rfl⟩
  | permuteChannels p =>
    simp only [Op.apply, permuteChannelsV] at h
    split at h
    · cases h
    · simp only [Except.ok.injEq] at h
      subst h; exact ⟨rfl, rfl⟩
  | withArray shape a isInt =>
    simp only [Op.apply, withArrayV] at h
    split at h
    · split at h
      · cases h
      · split at h
        · simp only [Except.ok.injEq] at h
          subst h; exact ⟨rfl, rfl⟩
        · split at h
          · cases h
          · simp only [Except.ok.injEq] at h
            subst h; exact ⟨rfl, rfl⟩
    · cases h

theorem vposOk_of_geom_eq {v : Vol} {w : VStep} (hp : v.geom.Pos) (h : w.1.geom = v.geom ∧ w.2 = provOf v.geom id) :
    VPosOk v w := by
  obtain ⟨h1, h2⟩ := h
  refine ⟨?_, fun ho => by rw [h1]; exact ho, by rw [h1]; exact hp⟩
  intro j i hj
  rw [h2] at hj
  obtain ⟨rfl, hr⟩ := provOf_some hj
  rw [h1]; exact ⟨rfl, hr⟩

theorem apply_pos {coord : Coord} {v : Vol} {op : Op} {w : VStep} (hp : v.geom.Pos) (h : op.apply coord v = .ok w) :
    VPosOk v w := by
  cases op with
  | spatial s => exact (applyVol_sound hp h).1
  | getChannel sel keep => exact vposOk_of_geom_eq hp (nonspatial_geom (by intro s hs; cases hs) h)
  | permuteChannels p => exact vposOk_of_geom_eq hp (nonspatial_geom (by intro s hs; cases hs) h)
  | withArray shape a isInt => exact vposOk_of_geom_eq hp (nonspatial_geom (by intro s hs; cases hs) h)

theorem vposOk_refl {v : Vol} (hp : v.geom.Pos) : VPosOk v (v, provOf v.geom id) :=
  vposOk_of_geom_eq hp ⟨rfl, rfl⟩

theorem vvalOk_refl (v : Vol) : VValOk v (v, provOf v.geom id) := by
  refine ⟨?_, rfl, rfl⟩
  intro j i hj c
  obtain ⟨rfl, _⟩ := provOf_some hj
  rfl

/-- **history invariant, position part**: any finite sequence of accepted operations -/
theorem runHistory_pos {coord : Coord} (ops : List Op) : ∀ {v : Vol} {w : VStep}, v.geom.Pos →
    runHistory coord v ops = .ok w → VPosOk v w := by
  induction ops with
  | nil =>
    intro v w hp h
    simp only [runHistory, Except.ok.injEq] at h
    subst h
    exact vposOk_refl hp
  | cons op rest ih =>
    intro v w hp h
    simp only [runHistory] at h
    obtain ⟨⟨v1, p1⟩, h1, h⟩ := bind_ok.mp h
    dsimp only at h
    obtain ⟨⟨v2, p2⟩, h2, h⟩ := bind_ok.mp h
    simp only [pure, Except.pure, Except.ok.injEq] at h
    subst h
    have a1 := apply_pos hp h1
    have a2 := ih a1.shape h2
    exact VPosOk.comp a1 a2

/-- **history invariant, value part**: sequences of spatial operations -/
theorem runHistory_val {coord : Coord} (ops : List Op) : ∀ {v : Vol} {w : VStep}, v.geom.Pos →
    (∀ op ∈ ops, Op.isSpatial op = true) → runHistory coord v ops = .ok w → VValOk v w := by
  induction ops with
  | nil =>
    intro v w hp _ h
    simp only [runHistory, Except.ok.injEq] at h
    subst h
    exact vvalOk_refl v
  | cons op rest ih =>
    intro v w hp hs h
    simp only [runHistory] at h
    obtain ⟨⟨v1, p1⟩, h1, h⟩ := bind_ok.mp h
    dsimp only at h
    obtain ⟨⟨v2, p2⟩, h2, h⟩ := bind_ok.mp h
    simp only [pure, Except.pure, Except.ok.injEq] at h
    subst h
    have hop := hs op (List.mem_cons_self ..)
    cases op with
    | spatial s =>
      obtain ⟨a1, b1, _⟩ := applyVol_sound hp h1
      have b2 := ih a1.shape (fun o ho => hs o (List.mem_cons_of_mem _ ho)) h2
      exact VValOk.comp b1 b2
    | getChannel sel keep => simp [Op.isSpatial] at hop
    | permuteChannels p => simp [Op.isSpatial] at hop
    | withArray shape a isInt => simp [Op.isSpatial] at hop

/-- the geometry-only object run through the same history ends with the volume's geometry -/
theorem runHistory_geom {coord : Coord} (ops : List Op) : ∀ {v : Vol} {w : VStep}, v.geom.Pos →
    runHistory coord v ops = .ok w → runHistoryGeom coord v.geom ops = .ok w.1.geom := by
  induction ops with
  | nil =>
    intro v w hp h
    simp only [runHistory, Except.ok.injEq] at h
    subst h
    rfl
  | cons op rest ih =>
    intro v w hp h
    simp only [runHistory] at h
    obtain ⟨⟨v1, p1⟩, h1, h⟩ := bind_ok.mp h
    dsimp only at h
    obtain ⟨⟨v2, p2⟩, h2, h⟩ := bind_ok.mp h
    simp only [pure, Except.pure, Except.ok.injEq] at h
    subst h
    have a1 := apply_pos hp h1
    have a2 := ih a1.shape h2
    cases op with
    | spatial s =>
      obtain ⟨_, _, ⟨f, hf⟩, _⟩ := applyVol_sound hp h1
      simp only [runHistoryGeom, hf, bind, Except.bind]
      exact a2
    | getChannel sel keep =>
      have := (nonspatial_geom (by intro s hs; cases hs) h1).1
      simp only [runHistoryGeom]; rw [← this]; exact a2
    | permuteChannels p =>
      have := (nonspatial_geom (by intro s hs; cases hs) h1).1
      simp only [runHistoryGeom]; rw [← this]; exact a2
    | withArray shape a isInt =>
      have := (nonspatial_geom (by intro s hs; cases hs) h1).1
      simp only [runHistoryGeom]; rw [← this]; exact a2

end HdVerif.VolLemmas
