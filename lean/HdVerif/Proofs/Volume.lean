import HdVerif.Model.Volume
import HdVerif.Proofs.RatFloor
import Mathlib.Tactic.Ring
import Mathlib.Tactic.Linarith
import Mathlib.Tactic.Push
import Mathlib.Tactic.FieldSimp
/-! Helper lemmas for C08 (`Props/C08.lean`): affine algebra of re-indexing, slice arithmetic, per-operation
soundness, composition. -/
namespace HdVerif.VolLemmas
open HdVerif HdVerif.Gen HdVerif.Vol

theorem bind_ok {ε α β} {x : Except ε α} {f : α → Except ε β} {b : β} :
    (x >>= f) = .ok b ↔ ∃ a, x = .ok a ∧ f a = .ok b := by
  cases x <;> simp [bind, Except.bind]

/-! ## affine algebra -/

/-- array side and affine side of an axis map agree -/
def AxTied (m : AxMap) : Prop := m.afirst = m.first ∧ m.astep = m.step

theorem pos_remap (sz : AxMap → Int) (g : Geom) (m0 m1 m2 : AxMap) (t0 : AxTied m0) (t1 : AxTied m1) (t2 : AxTied m2)
    (j : I3) : (g.remap sz m0 m1 m2).pos j = g.pos (remapSrc m0 m1 m2 j) := by
  simp only [Geom.remap, Geom.pos, remapSrc, V3.add, V3.smul, V3.mk.injEq, t0.1, t0.2, t1.1, t1.2, t2.1, t2.2]
  push_cast
  refine ⟨?_, ?_, ?_⟩ <;> ring

theorem dot_smul (a b : Rat) (u v : V3) : (V3.smul a u).dot (V3.smul b v) = a * b * u.dot v := by
  simp only [V3.smul, V3.dot]; ring

theorem orth_remap (sz : AxMap → Int) (g : Geom) (m0 m1 m2 : AxMap) (h : g.Orth)
    (h0 : m0.step ≠ 0) (h1 : m1.step ≠ 0) (h2 : m2.step ≠ 0) : (g.remap sz m0 m1 m2).Orth := by
  obtain ⟨o1, o2, o3, o4, o5, o6⟩ := h
  have q0 : (m0.step : Rat) ≠ 0 := by exact_mod_cast h0
  have q1 : (m1.step : Rat) ≠ 0 := by exact_mod_cast h1
  have q2 : (m2.step : Rat) ≠ 0 := by exact_mod_cast h2
  simp only [Geom.Orth, Geom.remap, dot_smul, o1, o2, o3, mul_zero, true_and]
  exact ⟨mul_ne_zero (mul_ne_zero q0 q0) o4, mul_ne_zero (mul_ne_zero q1 q1) o5, mul_ne_zero (mul_ne_zero q2 q2) o6⟩

/-- a permutation of the three axes: pairwise distinct entries -/
def PermValid (p : Perm) : Prop := p.1 ≠ p.2.1 ∧ p.1 ≠ p.2.2 ∧ p.2.1 ≠ p.2.2

theorem permOfList_valid {l : List Int} {p : Perm} (h : permOfList l = .ok p) : PermValid p := by
  unfold permOfList at h
  split at h
  · split at h
    · split at h
      · cases h; assumption
      · cases h
    · cases h
  · cases h

theorem pos_permute (g : Geom) (p : Perm) (hp : PermValid p) (j : I3) :
    (g.permute p).pos j = g.pos (permSrc p j) := by
  obtain ⟨a, b, c⟩ := p
  obtain ⟨h1, h2, h3⟩ := hp
  cases a <;> cases b <;> cases c <;> simp at h1 h2 h3 <;>
    (simp only [Geom.permute, Geom.pos, permSrc, Geom.col, V3.add, V3.smul, V3.mk.injEq, reduceCtorEq, if_true, if_false]
      <;> (refine ⟨?_, ?_, ?_⟩ <;> ring))

theorem orth_permute (g : Geom) (p : Perm) (hp : PermValid p) (h : g.Orth) : (g.permute p).Orth := by
  obtain ⟨a, b, c⟩ := p
  obtain ⟨h1, h2, h3⟩ := hp
  obtain ⟨o1, o2, o3, o4, o5, o6⟩ := h
  have s1 : g.c1.dot g.c0 = 0 := by unfold V3.dot at *; linarith
  have s2 : g.c2.dot g.c0 = 0 := by unfold V3.dot at *; linarith
  have s3 : g.c2.dot g.c1 = 0 := by unfold V3.dot at *; linarith
  cases a <;> cases b <;> cases c <;> simp at h1 h2 h3 <;>
    simp [Geom.permute, Geom.Orth, Geom.col, *]

theorem pos_permute_shape (g : Geom) (p : Perm) (h : g.Pos) : (g.permute p).Pos := by
  obtain ⟨a, b, c⟩ := p
  obtain ⟨h0, h1, h2⟩ := h
  cases a <;> cases b <;> cases c <;> simp [Geom.permute, Geom.Pos, Geom.size, *]

theorem inRange_iff (g : Geom) (i : I3) :
    g.inRange i = true ↔ (0 ≤ i.i0 ∧ i.i0 < g.n0) ∧ (0 ≤ i.i1 ∧ i.i1 < g.n1) ∧ (0 ≤ i.i2 ∧ i.i2 < g.n2) := by
  simp only [Geom.inRange, Bool.and_eq_true, decide_eq_true_eq]
  constructor
  · rintro ⟨⟨⟨⟨⟨a, b⟩, c⟩, d⟩, e⟩, f⟩; exact ⟨⟨a, b⟩, ⟨c, d⟩, ⟨e, f⟩⟩
  · rintro ⟨⟨a, b⟩, ⟨c, d⟩, ⟨e, f⟩⟩; exact ⟨⟨⟨⟨⟨a, b⟩, c⟩, d⟩, e⟩, f⟩

theorem inRange_permute (g : Geom) (p : Perm) (hp : PermValid p) (j : I3) :
    (g.permute p).inRange j = g.inRange (permSrc p j) := by
  obtain ⟨a, b, c⟩ := p
  obtain ⟨h1, h2, h3⟩ := hp
  rw [Bool.eq_iff_iff, inRange_iff, inRange_iff]
  cases a <;> cases b <;> cases c <;> simp at h1 h2 h3 <;>
    simp only [Geom.permute, permSrc, Geom.size, reduceCtorEq, if_true, if_false] <;> tauto

/-! ## slice arithmetic -/

theorem stride_bound (d s k : Int) (hs : 0 < s) (hk : k < d / s + 1) : s * k ≤ d := by
  have h1 : k ≤ d / s := by omega
  have h2 : s * k ≤ s * (d / s) := Int.mul_le_mul_of_nonneg_left h1 (Int.le_of_lt hs)
  have h3 : s * (d / s) ≤ d := Int.mul_ediv_self_le (Int.ne_of_gt hs)
  omega

/-- T10a: what the size / emptiness arithmetic of `_prepare_getitem_index` accepts and returns -/
theorem getitemAxisItem_ok {f l st a b c : Int} (hst : st ≠ 0) (h : getitemAxisItem f l st = .ok (a, b, c)) :
    a = f ∧ b = st ∧ ((0 < st ∧ f < l ∧ c = (l - f - 1) / st + 1) ∨ (st < 0 ∧ l < f ∧ c = (f - l - 1) / (-st) + 1)) := by
  unfold getitemAxisItem at h
  by_cases hs : 0 < st
  · have hs' : ¬ st < 0 := by omega
    by_cases hr : l - f < 0
    · simp [hr, hs'] at h
    · by_cases hr0 : l - f = 0
      · simp [hr0] at h
      · simp [hr, hs', hr0, fdiv_pos _ _ hs] at h
        obtain ⟨h1, h2, h3⟩ := h
        refine ⟨h1.symm, h2.symm, Or.inl ⟨hs, by omega, ?_⟩⟩
        rw [← h3]
  · have hs' : st < 0 := by omega
    by_cases hr : l - f < 0
    · have hr0 : ¬ l - f = 0 := by omega
      have : 0 < -st := by omega
      simp [hr, hs', hr0, fdiv_pos _ _ this] at h
      obtain ⟨h1, h2, h3⟩ := h
      refine ⟨h1.symm, h2.symm, Or.inr ⟨hs', by omega, ?_⟩⟩
      rw [Int.ediv_neg]; omega
    · simp [hr, hs'] at h

/-- and it refuses exactly the empty selections -/
theorem getitemAxisItem_err {f l st : Int} (hst : st ≠ 0) :
    (∃ e, getitemAxisItem f l st = .error e) ↔ sliceLen f l st = 0 := by
  unfold getitemAxisItem sliceLen
  by_cases hs : 0 < st
  · have hs' : ¬ st < 0 := by omega
    have hs2 : st > 0 := hs
    by_cases hr : l - f < 0
    · have : ¬ f < l := by omega
      simp [hr, hs', hs2, this]
    · by_cases hr0 : l - f = 0
      · have : ¬ f < l := by omega
        simp [hr0, hs2, this]
      · have : f < l := by omega
        have hq : 0 ≤ (l - f - 1) / st := Int.ediv_nonneg (by omega) (by omega)
        simp [hr, hs', hr0, hs2, this]
        omega
  · have hs' : st < 0 := by omega
    have hs2 : ¬ st > 0 := by omega
    by_cases hr : l - f < 0
    · have hr0 : ¬ l - f = 0 := by omega
      have : l < f := by omega
      have hq : 0 ≤ (f - l - 1) / (-st) := Int.ediv_nonneg (by omega) (by omega)
      simp [hr, hs', hr0, hs2, this]
      rw [Int.ediv_neg] at hq
      omega
    · have : ¬ l < f := by omega
      simp [hr, hs', hs2, this]

theorem sliceIndices_ok {a b c : Option Int} {n f l st : Int} (hn : 0 ≤ n) (h : sliceIndices a b c n = .ok (f, l, st)) :
    st ≠ 0 ∧ (0 < st → 0 ≤ f ∧ f ≤ n ∧ 0 ≤ l ∧ l ≤ n) ∧ (st < 0 → -1 ≤ f ∧ f ≤ n - 1 ∧ -1 ≤ l ∧ l ≤ n - 1) := by
  unfold sliceIndices at h
  cases a <;> cases b <;> cases c <;> simp only at h <;> split at h <;>
    first
    | (cases h; done)
    | (simp only [Except.ok.injEq, Prod.mk.injEq] at h
       obtain ⟨rfl, rfl, rfl⟩ := h
       refine ⟨by omega, ?_, ?_⟩ <;> intro hs <;> (repeat' split) <;> omega)

/-- an axis map is well formed: non-zero stride, at least one voxel, and numpy's length is the computed size -/
def AxGood (m : AxMap) : Prop := m.step ≠ 0 ∧ 1 ≤ m.size ∧ m.alen = m.size ∧ AxTied m
/-- every output index of the axis reads an existing input voxel -/
def AxInside (m : AxMap) (n : Int) : Prop :=
  ∀ k, 0 ≤ k → k < m.size → 0 ≤ m.afirst + m.astep * k ∧ m.afirst + m.astep * k < n

theorem axisOfSlice_some_sound {a b c : Option Int} {n : Int} {m : AxMap} (hn : 0 ≤ n)
    (h : axisOfSlice (some (a, b, c)) n = .ok m) : AxGood m ∧ AxInside m n := by
  simp only [axisOfSlice] at h
  obtain ⟨⟨f, l, st⟩, h1, h⟩ := bind_ok.mp h
  dsimp only at h
  obtain ⟨⟨first, step, size⟩, h2, h⟩ := bind_ok.mp h
  simp only [pure, Except.pure, Except.ok.injEq] at h
  subst h
  obtain ⟨hst, hpos, hneg⟩ := sliceIndices_ok hn h1
  obtain ⟨e1, e2, h3⟩ := getitemAxisItem_ok hst h2
  subst e1 e2
  simp only [AxGood, AxInside]
  rcases h3 with ⟨hs, hfl, hc⟩ | ⟨hs, hfl, hc⟩
  · obtain ⟨p1, p2, p3, p4⟩ := hpos hs
    have hq : 0 ≤ (l - first - 1) / step := Int.ediv_nonneg (by omega) (by omega)
    refine ⟨⟨hst, by omega, ?_, ⟨rfl, rfl⟩⟩, ?_⟩
    · simp only [sliceLen]
      have : step > 0 := hs
      simp [this, hfl, hc]
    · intro k hk0 hk
      have := stride_bound (l - first - 1) step k hs (by omega)
      have h0 : 0 ≤ step * k := Int.mul_nonneg (by omega) hk0
      omega
  · obtain ⟨p1, p2, p3, p4⟩ := hneg hs
    have hs2 : 0 < -step := by omega
    have hq : 0 ≤ (first - l - 1) / (-step) := Int.ediv_nonneg (by omega) (by omega)
    refine ⟨⟨hst, by omega, ?_, ⟨rfl, rfl⟩⟩, ?_⟩
    · simp only [sliceLen]
      have h1 : ¬ step > 0 := by omega
      simp [h1, hs, hfl, hc]
    · intro k hk0 hk
      have := stride_bound (first - l - 1) (-step) k hs2 (by omega)
      have h0 : 0 ≤ (-step) * k := Int.mul_nonneg (by omega) hk0
      have e : (-step) * k = -(step * k) := by ring
      omega

theorem axisOfSlice_none_sound {n : Int} {m : AxMap} (hn : 0 < n) (h : axisOfSlice none n = .ok m) :
    AxGood m ∧ AxInside m n ∧ m = ⟨0, 1, n, n, 0, 1⟩ := by
  simp only [axisOfSlice, getitemAxisNone, bind, Except.bind, pure, Except.pure, Except.ok.injEq] at h
  subst h
  refine ⟨⟨by simp, hn, rfl, ⟨rfl, rfl⟩⟩, ?_, rfl⟩
  intro k hk0 hk
  simp only at hk ⊢
  omega

theorem axisOfSlice_sound {s : Option PySlice} {n : Int} {m : AxMap} (hn : 0 < n) (h : axisOfSlice s n = .ok m) :
    AxGood m ∧ AxInside m n := by
  cases s with
  | none => exact ⟨(axisOfSlice_none_sound hn h).1, (axisOfSlice_none_sound hn h).2.1⟩
  | some s => obtain ⟨a, b, c⟩ := s; exact axisOfSlice_some_sound (by omega) h

/-! ## `__getitem__` -/

/-- `getitemMaps` succeeded: the slices per axis it went through -/
theorem getitemMaps_ok {g : Geom} {items : List Item} {m0 m1 m2 : AxMap}
    (h : getitemMaps g items = .ok (m0, m1, m2)) :
    items.length ≤ 3 ∧ ∃ s0 s1 s2, optItemSlice items[0]? g.n0 = .ok s0 ∧ optItemSlice items[1]? g.n1 = .ok s1 ∧
      optItemSlice items[2]? g.n2 = .ok s2 ∧ axisOfSlice s0 g.n0 = .ok m0 ∧ axisOfSlice s1 g.n1 = .ok m1 ∧
      axisOfSlice s2 g.n2 = .ok m2 := by
  simp only [getitemMaps] at h
  split at h
  · cases h
  · rename_i hl
    simp only [pure, Except.pure] at h
    obtain ⟨s0, e0, h⟩ := bind_ok.mp h
    obtain ⟨s1, e1, h⟩ := bind_ok.mp h
    obtain ⟨s2, e2, h⟩ := bind_ok.mp h
    obtain ⟨a0, f0, h⟩ := bind_ok.mp h
    obtain ⟨a1, f1, h⟩ := bind_ok.mp h
    obtain ⟨a2, f2, h⟩ := bind_ok.mp h
    simp only [Except.ok.injEq, Prod.mk.injEq] at h
    obtain ⟨rfl, rfl, rfl⟩ := h
    exact ⟨by omega, s0, s1, s2, e0, e1, e2, f0, f1, f2⟩

theorem getitemMaps_sound {g : Geom} {items : List Item} {m0 m1 m2 : AxMap} (hp : g.Pos)
    (h : getitemMaps g items = .ok (m0, m1, m2)) :
    (AxGood m0 ∧ AxInside m0 g.n0) ∧ (AxGood m1 ∧ AxInside m1 g.n1) ∧ (AxGood m2 ∧ AxInside m2 g.n2) := by
  obtain ⟨_, s0, s1, s2, _, _, _, f0, f1, f2⟩ := getitemMaps_ok h
  exact ⟨axisOfSlice_sound hp.1 f0, axisOfSlice_sound hp.2.1 f1, axisOfSlice_sound hp.2.2 f2⟩

/-- both ways of taking the new size agree on well-formed axis maps -/
def SzOk (sz : AxMap → Int) : Prop := ∀ m, m.alen = m.size → sz m = m.size

theorem szOk_size : SzOk AxMap.size := fun _ _ => rfl
theorem szOk_alen : SzOk AxMap.alen := fun _ h => h

theorem remap_pos_shape (sz : AxMap → Int) (hsz : SzOk sz) (g : Geom) {m0 m1 m2 : AxMap}
    (h0 : AxGood m0) (h1 : AxGood m1) (h2 : AxGood m2) : (g.remap sz m0 m1 m2).Pos := by
  simp only [Geom.Pos, Geom.remap, hsz m0 h0.2.2.1, hsz m1 h1.2.2.1, hsz m2 h2.2.2.1]
  exact ⟨by have := h0.2.1; omega, by have := h1.2.1; omega, by have := h2.2.1; omega⟩

theorem remap_sz_eq (sz : AxMap → Int) (hsz : SzOk sz) (g : Geom) {m0 m1 m2 : AxMap}
    (h0 : AxGood m0) (h1 : AxGood m1) (h2 : AxGood m2) : g.remap sz m0 m1 m2 = g.remap AxMap.size m0 m1 m2 := by
  simp only [Geom.remap, hsz m0 h0.2.2.1, hsz m1 h1.2.2.1, hsz m2 h2.2.2.1]

/-- what a correct step on a geometry guarantees -/
structure StepOk (g : Geom) (r : GStep) : Prop where
  position : ∀ j, r.1.pos j = g.pos (r.2 j)
  orth : g.Orth → r.1.Orth
  shape : r.1.Pos

/-- no voxel of the result is new -/
def NoNew (g : Geom) (r : GStep) : Prop := ∀ j, r.1.inRange j = true → g.inRange (r.2 j) = true

theorem remap_noNew (sz : AxMap → Int) (hsz : SzOk sz) (g : Geom) {m0 m1 m2 : AxMap}
    (h0 : AxGood m0 ∧ AxInside m0 g.n0) (h1 : AxGood m1 ∧ AxInside m1 g.n1) (h2 : AxGood m2 ∧ AxInside m2 g.n2) :
    NoNew g (g.remap sz m0 m1 m2, remapSrc m0 m1 m2) := by
  intro j hj
  rw [inRange_iff] at hj ⊢
  simp only [Geom.remap, hsz m0 h0.1.2.2.1, hsz m1 h1.1.2.2.1, hsz m2 h2.1.2.2.1] at hj
  obtain ⟨⟨a0, a1⟩, ⟨b0, b1⟩, ⟨c0, c1⟩⟩ := hj
  exact ⟨h0.2 _ a0 a1, h1.2 _ b0 b1, h2.2 _ c0 c1⟩

theorem getitemG_sound (sz : AxMap → Int) (hsz : SzOk sz) {g : Geom} {items : List Item} {r : GStep} (hp : g.Pos)
    (h : getitemG sz g items = .ok r) :
    StepOk g r ∧ NoNew g r ∧ ∀ sz', SzOk sz' → getitemG sz' g items = .ok r := by
  simp only [getitemG] at h ⊢
  obtain ⟨⟨m0, m1, m2⟩, hm, h⟩ := bind_ok.mp h
  simp only [pure, Except.pure, Except.ok.injEq] at h
  subst h
  obtain ⟨s0, s1, s2⟩ := getitemMaps_sound hp hm
  refine ⟨⟨fun j => pos_remap sz g m0 m1 m2 s0.1.2.2.2 s1.1.2.2.2 s2.1.2.2.2 j, fun ho => orth_remap sz g m0 m1 m2 ho s0.1.1 s1.1.1 s2.1.1,
    remap_pos_shape sz hsz g s0.1 s1.1 s2.1⟩, remap_noNew sz hsz g s0 s1 s2, ?_⟩
  intro sz' hsz'
  rw [hm]
  simp only [bind, Except.bind, pure, Except.pure, remap_sz_eq sz hsz g s0.1 s1.1 s2.1,
    remap_sz_eq sz' hsz' g s0.1 s1.1 s2.1]

theorem StepOk.comp {g : Geom} {r1 r2 : GStep} (h1 : StepOk g r1) (h2 : StepOk r1.1 r2) :
    StepOk g (r2.1, fun j => r1.2 (r2.2 j)) :=
  ⟨fun j => by simp only; rw [h2.position, h1.position], fun ho => h2.orth (h1.orth ho), h2.shape⟩

theorem NoNew.comp {g : Geom} {r1 r2 : GStep} (h1 : NoNew g r1) (h2 : NoNew r1.1 r2) :
    NoNew g (r2.1, fun j => r1.2 (r2.2 j)) := fun j hj => h1 _ (h2 j hj)

theorem stepOk_id {g : Geom} (hp : g.Pos) : StepOk g (g, id) := ⟨fun _ => rfl, fun h => h, hp⟩
theorem noNew_id (g : Geom) : NoNew g (g, id) := fun _ h => h

theorem flipG_sound (sz : AxMap → Int) (hsz : SzOk sz) {g : Geom} {axes : List Int} {r : GStep} (hp : g.Pos)
    (h : flipG sz g axes = .ok r) : StepOk g r ∧ NoNew g r ∧ ∀ sz', SzOk sz' → flipG sz' g axes = .ok r := by
  simp only [flipG] at h ⊢
  obtain ⟨items, hi, h⟩ := bind_ok.mp h
  obtain ⟨a, b, c⟩ := getitemG_sound sz hsz hp h
  refine ⟨a, b, fun sz' hsz' => ?_⟩
  rw [hi]; exact c sz' hsz'

theorem permuteG_sound {g : Geom} {p : List Int} {r : GStep} (hp : g.Pos) (h : permuteG g p = .ok r) :
    StepOk g r ∧ NoNew g r := by
  simp only [permuteG] at h
  obtain ⟨q, hq, h⟩ := bind_ok.mp h
  simp only [pure, Except.pure, Except.ok.injEq] at h
  subst h
  have hv := permOfList_valid hq
  exact ⟨⟨fun j => pos_permute g q hv j, orth_permute g q hv, pos_permute_shape g q hp⟩,
    fun j hj => by simpa [inRange_permute g q hv j] using hj⟩

theorem swapG_sound {g : Geom} {a b : Int} {r : GStep} (hp : g.Pos) (h : swapG g a b = .ok r) :
    StepOk g r ∧ NoNew g r := by
  simp only [swapG] at h
  obtain ⟨p, _, h⟩ := bind_ok.mp h
  exact permuteG_sound hp h

theorem fullPadWidth_nonneg {w : PadWidth} {full : FullPad} (h : fullPadWidth w = .ok full) :
    0 ≤ full.1.1 ∧ 0 ≤ full.1.2 ∧ 0 ≤ full.2.1.1 ∧ 0 ≤ full.2.1.2 ∧ 0 ≤ full.2.2.1 ∧ 0 ≤ full.2.2.2 := by
  simp only [fullPadWidth] at h
  obtain ⟨f, _, h⟩ := bind_ok.mp h
  split at h
  · cases h
  · rename_i hn
    simp only [pure, Except.pure, Except.ok.injEq] at h
    subst h
    simp only [fullNeg, Bool.or_eq_true, decide_eq_true_eq, not_or, not_lt] at hn
    obtain ⟨⟨⟨⟨⟨a, b⟩, c⟩, d⟩, e⟩, f⟩ := hn
    exact ⟨a, b, c, d, e, f⟩

/-- T9e: origin offset and new size of a padded axis as the library computes them agree with what `numpy.pad` does -/
theorem padAxis_ok {n b a : Int} {m : AxMap} (h : padAxis n b a = .ok m) : m = ⟨-b, 1, n + b + a, n + b + a, -b, 1⟩ := by
  simp only [padAxis, padOriginOffset, padNewSize, bind, Except.bind, pure, Except.pure, Except.ok.injEq] at h
  exact h.symm

theorem padAxis_good {n b a : Int} {m : AxMap} (h : padAxis n b a = .ok m) (hn : 0 < n) (hb : 0 ≤ b) (ha : 0 ≤ a) : AxGood m := by
  rw [padAxis_ok h]
  exact ⟨by simp, by simp only; omega, rfl, ⟨rfl, rfl⟩⟩

theorem padFullG_sound (sz : AxMap → Int) (hsz : SzOk sz) {g : Geom} {full : FullPad} {r : GStep} (hp : g.Pos)
    (hf : 0 ≤ full.1.1 ∧ 0 ≤ full.1.2 ∧ 0 ≤ full.2.1.1 ∧ 0 ≤ full.2.1.2 ∧ 0 ≤ full.2.2.1 ∧ 0 ≤ full.2.2.2)
    (h : padFullG sz g full = .ok r) :
    StepOk g r ∧ ∀ sz', SzOk sz' → padFullG sz' g full = .ok r := by
  obtain ⟨f0, f1, f2, f3, f4, f5⟩ := hf
  simp only [padFullG] at h ⊢
  obtain ⟨m0, e0, h⟩ := bind_ok.mp h
  obtain ⟨m1, e1, h⟩ := bind_ok.mp h
  obtain ⟨m2, e2, h⟩ := bind_ok.mp h
  simp only [pure, Except.pure, Except.ok.injEq] at h
  subst h
  have g0 := padAxis_good e0 hp.1 f0 f1
  have g1 := padAxis_good e1 hp.2.1 f2 f3
  have g2 := padAxis_good e2 hp.2.2 f4 f5
  refine ⟨⟨fun j => pos_remap sz g _ _ _ g0.2.2.2 g1.2.2.2 g2.2.2.2 j, fun ho => orth_remap sz g _ _ _ ho g0.1 g1.1 g2.1,
    remap_pos_shape sz hsz g g0 g1 g2⟩, fun sz' hsz' => ?_⟩
  simp only [e0, e1, e2, bind, Except.bind, pure, Except.pure, remap_sz_eq sz hsz g g0 g1 g2, remap_sz_eq sz' hsz' g g0 g1 g2]

theorem padG_sound (sz : AxMap → Int) (hsz : SzOk sz) {g : Geom} {w : PadWidth} {r : GStep} (hp : g.Pos)
    (h : padG sz g w = .ok r) : StepOk g r ∧ ∀ sz', SzOk sz' → padG sz' g w = .ok r := by
  simp only [padG] at h ⊢
  obtain ⟨full, hf, h⟩ := bind_ok.mp h
  obtain ⟨a, b⟩ := padFullG_sound sz hsz hp (fullPadWidth_nonneg hf) h
  refine ⟨a, fun sz' hsz' => ?_⟩
  rw [hf]; exact b sz' hsz'

theorem padToG_sound (sz : AxMap → Int) (hsz : SzOk sz) {g : Geom} {s : List Int} {r : GStep} (hp : g.Pos)
    (h : padToG sz g s = .ok r) : StepOk g r ∧ ∀ sz', SzOk sz' → padToG sz' g s = .ok r := by
  simp only [padToG] at h ⊢
  obtain ⟨w, hw, h⟩ := bind_ok.mp h
  obtain ⟨a, b⟩ := padG_sound sz hsz hp h
  refine ⟨a, fun sz' hsz' => ?_⟩
  rw [hw]; exact b sz' hsz'

theorem cropToG_sound (sz : AxMap → Int) (hsz : SzOk sz) {g : Geom} {s : List Int} {r : GStep} (hp : g.Pos)
    (h : cropToG sz g s = .ok r) : StepOk g r ∧ NoNew g r ∧ ∀ sz', SzOk sz' → cropToG sz' g s = .ok r := by
  simp only [cropToG] at h ⊢
  obtain ⟨items, hi, h⟩ := bind_ok.mp h
  obtain ⟨a, b, c⟩ := getitemG_sound sz hsz hp h
  refine ⟨a, b, fun sz' hsz' => ?_⟩
  rw [hi]; exact c sz' hsz'

theorem padOrCropG_sound (sz : AxMap → Int) (hsz : SzOk sz) {g : Geom} {s : List Int} {r : GStep} (hp : g.Pos)
    (h : padOrCropG sz g s = .ok r) : StepOk g r ∧ ∀ sz', SzOk sz' → padOrCropG sz' g s = .ok r := by
  simp only [padOrCropG] at h ⊢
  obtain ⟨⟨items, w⟩, hpl, h⟩ := bind_ok.mp h
  dsimp only at h
  obtain ⟨⟨g1, f1⟩, h1, h⟩ := bind_ok.mp h
  dsimp only at h
  obtain ⟨⟨g2, f2⟩, h2, h⟩ := bind_ok.mp h
  simp only [pure, Except.pure, Except.ok.injEq] at h
  subst h
  obtain ⟨a1, _, c1⟩ := getitemG_sound sz hsz hp h1
  obtain ⟨a2, c2⟩ := padG_sound sz hsz a1.shape h2
  refine ⟨StepOk.comp a1 a2, fun sz' hsz' => ?_⟩
  rw [hpl]
  simp only [bind, Except.bind, c1 sz' hsz', c2 sz' hsz', pure, Except.pure]

theorem flipIfAny_sound (sz : AxMap → Int) (hsz : SzOk sz) {g : Geom} {flips : List Int} {r : GStep} (hp : g.Pos)
    (h : flipIfAny sz g flips = .ok r) : StepOk g r ∧ NoNew g r ∧ ∀ sz', SzOk sz' → flipIfAny sz' g flips = .ok r := by
  simp only [flipIfAny] at h ⊢
  split at h
  · rename_i he
    simp only [Except.ok.injEq] at h
    subst h
    exact ⟨stepOk_id hp, noNew_id g, fun _ _ => by simp [he]⟩
  · rename_i he
    obtain ⟨a, b, c⟩ := flipG_sound sz hsz hp h
    exact ⟨a, b, fun sz' hsz' => by simp only [he]; exact c sz' hsz'⟩

theorem toOrientationG_sound (sz : AxMap → Int) (hsz : SzOk sz) {coord : Coord} {g : Geom} {o : List Char} {r : GStep}
    (hp : g.Pos) (h : toOrientationG sz coord g o = .ok r) :
    StepOk g r ∧ NoNew g r ∧ ∀ sz', SzOk sz' → toOrientationG sz' coord g o = .ok r := by
  simp only [toOrientationG] at h ⊢
  split at h
  · cases h
  · rename_i hc
    simp only [pure, Except.pure] at h ⊢
    obtain ⟨des, hd, h⟩ := bind_ok.mp h
    obtain ⟨⟨perm, flips⟩, hpl, h⟩ := bind_ok.mp h
    dsimp only at h
    obtain ⟨⟨g1, f1⟩, h1, h⟩ := bind_ok.mp h
    dsimp only at h
    obtain ⟨⟨g2, f2⟩, h2, h⟩ := bind_ok.mp h
    simp only [Except.ok.injEq] at h
    subst h
    obtain ⟨a1, b1, c1⟩ := flipIfAny_sound sz hsz hp h1
    obtain ⟨a2, b2⟩ := permuteG_sound a1.shape h2
    refine ⟨StepOk.comp a1 a2, NoNew.comp b1 b2, fun sz' hsz' => ?_⟩
    simp only [hc, if_false]
    rw [hd]
    simp only [bind, Except.bind, hpl, c1 sz' hsz', h2]

theorem ensureHandednessG_sound (sz : AxMap → Int) (hsz : SzOk sz) {g : Geom} {hd : String} {fa : Option Int}
    {sa : Option (List Int)} {r : GStep} (hp : g.Pos) (h : ensureHandednessG sz g hd fa sa = .ok r) :
    StepOk g r ∧ NoNew g r ∧ ∀ sz', SzOk sz' → ensureHandednessG sz' g hd fa sa = .ok r := by
  unfold ensureHandednessG at h ⊢
  split at h
  · cases h
  · rename_i hc
    split at h
    · cases h
    · rename_i wantLeft hw
      split at h
      · rename_i he
        simp only [Except.ok.injEq] at h
        subst h
        refine ⟨stepOk_id hp, noNew_id g, fun sz' _ => ?_⟩
        simp only [hc, he]; rfl
      · rename_i he
        split at h
        · obtain ⟨a, b, c⟩ := flipG_sound sz hsz hp h
          refine ⟨a, b, fun sz' hsz' => ?_⟩
          simp only [hc, he]; exact c sz' hsz'
        · obtain ⟨a, b⟩ := swapG_sound hp h
          refine ⟨a, b, fun sz' _ => ?_⟩
          simp only [hc, he]; exact h
        · cases h
        · cases h

/-! ## all spatial operations -/

theorem applyG_sound (sz : AxMap → Int) (hsz : SzOk sz) {coord : Coord} {g : Geom} {op : SOp} {r : GStep} (hp : g.Pos)
    (h : op.applyG sz coord g = .ok r) :
    StepOk g r ∧ (SOp.cropping op = true → NoNew g r) ∧ ∀ sz', SzOk sz' → op.applyG sz' coord g = .ok r := by
  cases op with
  | getitem items => obtain ⟨a, b, c⟩ := getitemG_sound sz hsz hp h; exact ⟨a, fun _ => b, c⟩
  | flip axes => obtain ⟨a, b, c⟩ := flipG_sound sz hsz hp h; exact ⟨a, fun _ => b, c⟩
  | permute p => obtain ⟨a, b⟩ := permuteG_sound hp h; exact ⟨a, fun _ => b, fun _ _ => h⟩
  | swap x y => obtain ⟨a, b⟩ := swapG_sound hp h; exact ⟨a, fun _ => b, fun _ _ => h⟩
  | pad w o => obtain ⟨a, c⟩ := padG_sound sz hsz hp h; exact ⟨a, fun hc => by simp [SOp.cropping] at hc, c⟩
  | padTo s o => obtain ⟨a, c⟩ := padToG_sound sz hsz hp h; exact ⟨a, fun hc => by simp [SOp.cropping] at hc, c⟩
  | cropTo s => obtain ⟨a, b, c⟩ := cropToG_sound sz hsz hp h; exact ⟨a, fun _ => b, c⟩
  | padOrCropTo s o => obtain ⟨a, c⟩ := padOrCropG_sound sz hsz hp h; exact ⟨a, fun hc => by simp [SOp.cropping] at hc, c⟩
  | toOrientation o => obtain ⟨a, b, c⟩ := toOrientationG_sound sz hsz hp h; exact ⟨a, fun _ => b, c⟩
  | ensureHandedness hd fa sa => obtain ⟨a, b, c⟩ := ensureHandednessG_sound sz hsz hp h; exact ⟨a, fun _ => b, c⟩
  | copy =>
    simp only [SOp.applyG, Except.ok.injEq] at h
    subst h
    exact ⟨stepOk_id hp, fun _ => noNew_id g, fun _ _ => rfl⟩

/-! ## volumes -/

/-- position part of a step on a volume -/
structure VPosOk (v : Vol) (r : VStep) : Prop where
  retained : ∀ j i, r.2 j = some i → r.1.geom.pos j = v.geom.pos i ∧ v.geom.inRange i = true
  orth : v.geom.Orth → r.1.geom.Orth
  shape : r.1.geom.Pos

/-- value / channel part of a spatial step on a volume -/
structure VValOk (v : Vol) (r : VStep) : Prop where
  values : ∀ j i, r.2 j = some i → ∀ c, r.1.arr j c = v.arr i c
  cshape : r.1.cshape = v.cshape
  chans : r.1.chans = v.chans

theorem provOf_some {g : Geom} {f : I3 → I3} {j i : I3} (h : provOf g f j = some i) : i = f j ∧ g.inRange (f j) = true := by
  simp only [provOf] at h
  split at h
  · rename_i hr; simp only [Option.some.injEq] at h; exact ⟨h.symm, hr⟩
  · cases h

theorem provOf_none {g : Geom} {f : I3 → I3} {j : I3} (h : provOf g f j = none) : g.inRange (f j) = false := by
  simp only [provOf] at h
  split at h
  · cases h
  · rename_i hr; simpa using hr

theorem reindex_ok {v : Vol} {r : GStep} (h : StepOk v.geom r) : VPosOk v (v.reindex r) ∧ VValOk v (v.reindex r) := by
  refine ⟨⟨?_, h.orth, h.shape⟩, ⟨?_, rfl, rfl⟩⟩
  · intro j i hj
    obtain ⟨rfl, hr⟩ := provOf_some hj
    exact ⟨h.position j, hr⟩
  · intro j i hj c
    obtain ⟨rfl, _⟩ := provOf_some hj
    rfl

theorem reindex_noNew {v : Vol} {r : GStep} (h : NoNew v.geom r) (j : I3) (hj : (v.reindex r).1.geom.inRange j = true) :
    (v.reindex r).2 j = some (r.2 j) := by
  simp only [Vol.reindex, provOf, h j hj, if_true]

def isStat (m : PadMode) : Bool := m == .minimum || m == .maximum || m == .mean || m == .median

/-- T9d: what the per-channel decision of `Volume.pad` (regenerated from source) computes -/
theorem padPerChannel_eq {s : String} {mode : PadMode} (hm : PadMode.parse s = some mode) (pc : Bool) (nd : Int) (one : Bool) :
    padPerChannel s pc nd one = .ok (pc && isStat mode && !(nd == 0 || one)) := by
  unfold PadMode.parse at hm
  unfold padPerChannel
  split at hm
  · rename_i h; subst h; cases hm; cases pc <;> cases one <;> simp [isStat, beq_eq_decide]
  · split at hm
    · rename_i h; subst h; cases hm; cases pc <;> cases one <;> simp [isStat, beq_eq_decide]
    · split at hm
      · rename_i h; subst h; cases hm; cases pc <;> cases one <;> simp [isStat, beq_eq_decide]
      · split at hm
        · rename_i h; subst h; cases hm; cases pc <;> cases one <;> simp [isStat, beq_eq_decide]
        · split at hm
          · rename_i h; subst h; cases hm; cases pc <;> cases one <;> simp [isStat, beq_eq_decide]
          · split at hm
            · rename_i h; subst h; cases hm; cases pc <;> cases one <;> simp [isStat, beq_eq_decide]
            · cases hm

theorem length_zero_beq (l : List Nat) : (Int.ofNat l.length == 0) = l.isEmpty := by
  cases l with
  | nil => rfl
  | cons x xs =>
    simp only [List.length_cons, List.isEmpty_cons, beq_eq_false_iff_ne, ne_eq]
    intro h
    have : (Int.ofNat (xs.length + 1)) = ((xs.length : Int) + 1) := rfl
    omega

theorem padArray_retained {v : Vol} {f : I3 → I3} {o : PadOpts} {a : I3 → List Nat → Rat} {b : Bool}
    (h : padArray v f o = .ok (a, b)) (j : I3) (hj : v.geom.inRange (f j) = true) (c : List Nat) :
    a j c = v.arr (f j) c := by
  unfold padArray at h
  split at h
  · cases h
  · rename_i mode hm
    rw [padPerChannel_eq hm] at h
    dsimp only at h
    split at h
    · simp only [Except.ok.injEq, Prod.mk.injEq] at h; obtain ⟨rfl, _⟩ := h; simp [hj]
    · simp only [Except.ok.injEq, Prod.mk.injEq] at h; obtain ⟨rfl, _⟩ := h; simp [hj]
    · split at h
      · split at h
        · cases h
        · simp only [Except.ok.injEq, Prod.mk.injEq] at h; obtain ⟨rfl, _⟩ := h; simp [hj]
      · split at h
        · cases h
        · simp only [Except.ok.injEq, Prod.mk.injEq] at h; obtain ⟨rfl, _⟩ := h; simp [hj]

theorem padStep_ok {v : Vol} {r : GStep} {o : PadOpts} {w : VStep} (hs : StepOk v.geom r) (h : v.padStep r o = .ok w) :
    VPosOk v w ∧ VValOk v w ∧ w.1.geom = r.1 ∧ w.2 = provOf v.geom r.2 := by
  simp only [Vol.padStep] at h
  obtain ⟨⟨a, b⟩, ha, h⟩ := bind_ok.mp h
  simp only [pure, Except.pure, Except.ok.injEq] at h
  subst h
  refine ⟨⟨?_, hs.orth, hs.shape⟩, ⟨?_, rfl, rfl⟩, rfl, rfl⟩
  · intro j i hj
    obtain ⟨rfl, hr⟩ := provOf_some hj
    exact ⟨hs.position j, hr⟩
  · intro j i hj c
    obtain ⟨rfl, hr⟩ := provOf_some hj
    exact padArray_retained ha j hr c

theorem comp_some {later earlier : Prov} {j i : I3} (h : Prov.comp later earlier j = some i) :
    ∃ k, later j = some k ∧ earlier k = some i := by
  simp only [Prov.comp] at h
  cases hk : later j with
  | none => rw [hk] at h; cases h
  | some k => rw [hk] at h; exact ⟨k, rfl, h⟩

theorem VPosOk.comp {v : Vol} {r1 r2 : VStep} (h1 : VPosOk v r1) (h2 : VPosOk r1.1 r2) :
    VPosOk v (r2.1, r2.2.comp r1.2) := by
  refine ⟨?_, fun ho => h2.orth (h1.orth ho), h2.shape⟩
  intro j i hj
  obtain ⟨k, hk, hi⟩ := comp_some hj
  obtain ⟨a, _⟩ := h2.retained j k hk
  obtain ⟨b, c⟩ := h1.retained k i hi
  exact ⟨a.trans b, c⟩

theorem VValOk.comp {v : Vol} {r1 r2 : VStep} (h1 : VValOk v r1) (h2 : VValOk r1.1 r2) :
    VValOk v (r2.1, r2.2.comp r1.2) := by
  refine ⟨?_, h2.cshape.trans h1.cshape, h2.chans.trans h1.chans⟩
  intro j i hj c
  obtain ⟨k, hk, hi⟩ := comp_some hj
  exact (h2.values j k hk c).trans (h1.values k i hi c)

theorem applyVol_sound {coord : Coord} {v : Vol} {op : SOp} {w : VStep} (hp : v.geom.Pos)
    (h : op.applyVol coord v = .ok w) :
    VPosOk v w ∧ VValOk v w ∧ (∃ f, op.applyGeom coord v.geom = .ok (w.1.geom, f)) ∧
    (op.cropping = true → ∀ j, w.1.geom.inRange j = true → w.2 j ≠ none) := by
  have generic : ∀ {op : SOp}, op.cropping = true →
      (do let r ← op.applyG AxMap.alen coord v.geom; pure (v.reindex r) : Except ErrKind VStep) = .ok w →
      VPosOk v w ∧ VValOk v w ∧ (∃ f, op.applyGeom coord v.geom = .ok (w.1.geom, f)) ∧
      (op.cropping = true → ∀ j, w.1.geom.inRange j = true → w.2 j ≠ none) := by
    intro op hc h
    obtain ⟨r, hr, h⟩ := bind_ok.mp h
    simp only [pure, Except.pure, Except.ok.injEq] at h
    subst h
    obtain ⟨a, b, c⟩ := applyG_sound AxMap.alen szOk_alen hp hr
    obtain ⟨p1, p2⟩ := reindex_ok a
    refine ⟨p1, p2, ⟨r.2, c AxMap.size szOk_size⟩, fun _ j hj => ?_⟩
    rw [reindex_noNew (b hc) j hj]; simp
  cases op with
  | pad wd o =>
    simp only [SOp.applyVol] at h
    obtain ⟨_, _, h⟩ := bind_ok.mp h
    obtain ⟨r, hr, h⟩ := bind_ok.mp h
    obtain ⟨a, c⟩ := padG_sound AxMap.alen szOk_alen hp hr
    obtain ⟨p1, p2, p3, _⟩ := padStep_ok a h
    exact ⟨p1, p2, ⟨r.2, by rw [p3]; exact c AxMap.size szOk_size⟩, fun hc => by simp [SOp.cropping] at hc⟩
  | padTo s o =>
    simp only [SOp.applyVol] at h
    obtain ⟨wd, hw, h⟩ := bind_ok.mp h
    obtain ⟨_, _, h⟩ := bind_ok.mp h
    obtain ⟨r, hr, h⟩ := bind_ok.mp h
    obtain ⟨a, c⟩ := padG_sound AxMap.alen szOk_alen hp hr
    obtain ⟨p1, p2, p3, _⟩ := padStep_ok a h
    refine ⟨p1, p2, ⟨r.2, ?_⟩, fun hc => by simp [SOp.cropping] at hc⟩
    simp only [SOp.applyGeom, SOp.applyG, padToG, hw, bind, Except.bind, p3]
    exact c AxMap.size szOk_size
  | padOrCropTo s o =>
    simp only [SOp.applyVol] at h
    obtain ⟨⟨items, wd⟩, hpl, h⟩ := bind_ok.mp h
    dsimp only at h
    obtain ⟨r1, hr1, h⟩ := bind_ok.mp h
    obtain ⟨_, _, h⟩ := bind_ok.mp h
    obtain ⟨r2, hr2, h⟩ := bind_ok.mp h
    obtain ⟨⟨v2, p2⟩, hv2, h⟩ := bind_ok.mp h
    simp only [pure, Except.pure, Except.ok.injEq] at h
    subst h
    obtain ⟨a1, _, c1⟩ := getitemG_sound AxMap.alen szOk_alen hp hr1
    obtain ⟨q1, q2⟩ := reindex_ok a1
    have hp1 : (v.reindex r1).1.geom.Pos := a1.shape
    obtain ⟨a2, c2⟩ := padG_sound AxMap.alen szOk_alen hp1 hr2
    obtain ⟨t1, t2, t3, _⟩ := padStep_ok a2 hv2
    refine ⟨VPosOk.comp q1 t1, VValOk.comp q2 t2, ⟨fun j => r1.2 (r2.2 j), ?_⟩, fun hc => by simp [SOp.cropping] at hc⟩
    simp only [SOp.applyGeom, SOp.applyG, padOrCropG, hpl, bind, Except.bind, c1 AxMap.size szOk_size]
    have := c2 AxMap.size szOk_size
    simp only [Vol.reindex] at this
    simp only [this, pure, Except.pure]
    have t3' : v2.geom = r2.1 := t3
    rw [t3']
  | getitem items => exact generic rfl h
  | flip axes => exact generic rfl h
  | permute p => exact generic rfl h
  | swap a b => exact generic rfl h
  | cropTo s => exact generic rfl h
  | toOrientation o => exact generic rfl h
  | ensureHandedness hd fa sa => exact generic rfl h
  | copy => exact generic rfl h

/-! ## histories -/

/-- channel selection / permutation and `with_array` leave the geometry alone -/
theorem nonspatial_geom {coord : Coord} {v : Vol} {op : Op} {w : VStep} (hns : ∀ s, op ≠ .spatial s)
    (h : op.apply coord v = .ok w) : w.1.geom = v.geom ∧ w.2 = provOf v.geom id := by
  cases op with
  | spatial s => exact absurd rfl (hns s)
  | getChannel sel keep =>
    simp only [Op.apply, getChannelV] at h
    split at h
    · cases h
    · split at h
      · cases h
      · split at h
        · obtain ⟨chans, _, h⟩ := bind_ok.mp h
          simp only [pure, Except.pure, Except.ok.injEq] at h
          subst h; exact ⟨rfl, rfl⟩
        · simp only [Except.ok.injEq] at h
          subst h; exact ⟨rfl, rfl⟩
  | permuteChannels p =>
    simp only [Op.apply, permuteChannelsV] at h
    split at h
    · cases h
    · simp only [Except.ok.injEq] at h
      subst h; exact ⟨rfl, rfl⟩
  | withArray shape a isInt =>
    simp only [Op.apply, withArrayV] at h
    split at h
    · split at h
      · cases h
      · split at h
        · simp only [Except.ok.injEq] at h
          subst h; exact ⟨rfl, rfl⟩
        · split at h
          · cases h
          · simp only [Except.ok.injEq] at h
            subst h; exact ⟨rfl, rfl⟩
    · cases h

theorem vposOk_of_geom_eq {v : Vol} {w : VStep} (hp : v.geom.Pos) (h : w.1.geom = v.geom ∧ w.2 = provOf v.geom id) :
    VPosOk v w := by
  obtain ⟨h1, h2⟩ := h
  refine ⟨?_, fun ho => by rw [h1]; exact ho, by rw [h1]; exact hp⟩
  intro j i hj
  rw [h2] at hj
  obtain ⟨rfl, hr⟩ := provOf_some hj
  rw [h1]; exact ⟨rfl, hr⟩

theorem apply_pos {coord : Coord} {v : Vol} {op : Op} {w : VStep} (hp : v.geom.Pos) (h : op.apply coord v = .ok w) :
    VPosOk v w := by
  cases op with
  | spatial s => exact (applyVol_sound hp h).1
  | getChannel sel keep => exact vposOk_of_geom_eq hp (nonspatial_geom (by intro s hs; cases hs) h)
  | permuteChannels p => exact vposOk_of_geom_eq hp (nonspatial_geom (by intro s hs; cases hs) h)
  | withArray shape a isInt => exact vposOk_of_geom_eq hp (nonspatial_geom (by intro s hs; cases hs) h)

theorem vposOk_refl {v : Vol} (hp : v.geom.Pos) : VPosOk v (v, provOf v.geom id) :=
  vposOk_of_geom_eq hp ⟨rfl, rfl⟩

theorem vvalOk_refl (v : Vol) : VValOk v (v, provOf v.geom id) := by
  refine ⟨?_, rfl, rfl⟩
  intro j i hj c
  obtain ⟨rfl, _⟩ := provOf_some hj
  rfl

/-- **history invariant, position part**: any finite sequence of accepted operations -/
theorem runHistory_pos {coord : Coord} (ops : List Op) : ∀ {v : Vol} {w : VStep}, v.geom.Pos →
    runHistory coord v ops = .ok w → VPosOk v w := by
  induction ops with
  | nil =>
    intro v w hp h
    simp only [runHistory, Except.ok.injEq] at h
    subst h
    exact vposOk_refl hp
  | cons op rest ih =>
    intro v w hp h
    simp only [runHistory] at h
    obtain ⟨⟨v1, p1⟩, h1, h⟩ := bind_ok.mp h
    dsimp only at h
    obtain ⟨⟨v2, p2⟩, h2, h⟩ := bind_ok.mp h
    simp only [pure, Except.pure, Except.ok.injEq] at h
    subst h
    have a1 := apply_pos hp h1
    have a2 := ih a1.shape h2
    exact VPosOk.comp a1 a2

/-- **history invariant, value part**: sequences of spatial operations -/
theorem runHistory_val {coord : Coord} (ops : List Op) : ∀ {v : Vol} {w : VStep}, v.geom.Pos →
    (∀ op ∈ ops, Op.isSpatial op = true) → runHistory coord v ops = .ok w → VValOk v w := by
  induction ops with
  | nil =>
    intro v w hp _ h
    simp only [runHistory, Except.ok.injEq] at h
    subst h
    exact vvalOk_refl v
  | cons op rest ih =>
    intro v w hp hs h
    simp only [runHistory] at h
    obtain ⟨⟨v1, p1⟩, h1, h⟩ := bind_ok.mp h
    dsimp only at h
    obtain ⟨⟨v2, p2⟩, h2, h⟩ := bind_ok.mp h
    simp only [pure, Except.pure, Except.ok.injEq] at h
    subst h
    have hop := hs op (List.mem_cons_self ..)
    cases op with
    | spatial s =>
      obtain ⟨a1, b1, _⟩ := applyVol_sound hp h1
      have b2 := ih a1.shape (fun o ho => hs o (List.mem_cons_of_mem _ ho)) h2
      exact VValOk.comp b1 b2
    | getChannel sel keep => simp [Op.isSpatial] at hop
    | permuteChannels p => simp [Op.isSpatial] at hop
    | withArray shape a isInt => simp [Op.isSpatial] at hop

/-- the geometry-only object run through the same history ends with the volume's geometry -/
theorem runHistory_geom {coord : Coord} (ops : List Op) : ∀ {v : Vol} {w : VStep}, v.geom.Pos →
    runHistory coord v ops = .ok w → runHistoryGeom coord v.geom ops = .ok w.1.geom := by
  induction ops with
  | nil =>
    intro v w hp h
    simp only [runHistory, Except.ok.injEq] at h
    subst h
    rfl
  | cons op rest ih =>
    intro v w hp h
    simp only [runHistory] at h
    obtain ⟨⟨v1, p1⟩, h1, h⟩ := bind_ok.mp h
    dsimp only at h
    obtain ⟨⟨v2, p2⟩, h2, h⟩ := bind_ok.mp h
    simp only [pure, Except.pure, Except.ok.injEq] at h
    subst h
    have a1 := apply_pos hp h1
    have a2 := ih a1.shape h2
    cases op with
    | spatial s =>
      obtain ⟨_, _, ⟨f, hf⟩, _⟩ := applyVol_sound hp h1
      simp only [runHistoryGeom, hf, bind, Except.bind]
      exact a2
    | getChannel sel keep =>
      have := (nonspatial_geom (by intro s hs; cases hs) h1).1
      simp only [runHistoryGeom]; rw [← this]; exact a2
    | permuteChannels p =>
      have := (nonspatial_geom (by intro s hs; cases hs) h1).1
      simp only [runHistoryGeom]; rw [← this]; exact a2
    | withArray shape a isInt =>
      have := (nonspatial_geom (by intro s hs; cases hs) h1).1
      simp only [runHistoryGeom]; rw [← this]; exact a2

/-! ## values over mixed histories (channel provenance) -/

/-- one accepted operation other than `with_array`: a retained voxel holds, at channel index `c`, the input's value at
the source voxel and the source channel index -/
theorem apply_val {coord : Coord} {v : Vol} {op : Op} {w : VStep} (hp : v.geom.Pos) (hw : op.isWithArray = false)
    (h : op.apply coord v = .ok w) (j i : I3) (hj : w.2 j = some i) (c : List Nat) :
    w.1.arr j c = v.arr i (op.chanSrc v c) := by
  cases op with
  | spatial s => exact (applyVol_sound hp h).2.1.values j i hj c
  | withArray shape a isInt => simp [Op.isWithArray] at hw
  | getChannel sel keep =>
    simp only [Op.apply, getChannelV] at h
    split at h
    · cases h
    · split at h
      · cases h
      · cases keep
        · simp only [Bool.false_eq_true, if_false, Except.ok.injEq] at h
          subst h
          obtain ⟨rfl, _⟩ := provOf_some hj
          simp [Op.chanSrc]
        · simp only [if_true] at h
          obtain ⟨chans, _, h⟩ := bind_ok.mp h
          simp only [pure, Except.pure, Except.ok.injEq] at h
          subst h
          obtain ⟨rfl, _⟩ := provOf_some hj
          simp [Op.chanSrc]
  | permuteChannels p =>
    simp only [Op.apply, permuteChannelsV] at h
    split at h
    · cases h
    · simp only [Except.ok.injEq] at h
      subst h
      obtain ⟨rfl, _⟩ := provOf_some hj
      simp [Op.chanSrc]

/-- **history invariant, value part, every history without `with_array`** (spatial operations mixed with channel
selection / permutation): a surviving voxel holds, at channel index `c`, the original value at the composed source
channel index -/
theorem runHistory_val_all {coord : Coord} (ops : List Op) : ∀ {v : Vol} {w : VStep}, v.geom.Pos →
    (∀ op ∈ ops, Op.isWithArray op = false) → runHistory coord v ops = .ok w →
    ∀ j i, w.2 j = some i → ∀ c, w.1.arr j c = v.arr i (historyChanSrc coord v ops c) := by
  induction ops with
  | nil =>
    intro v w hp _ h j i hj c
    simp only [runHistory, Except.ok.injEq] at h
    subst h
    obtain ⟨rfl, _⟩ := provOf_some hj
    rfl
  | cons op rest ih =>
    intro v w hp hs h j i hj c
    simp only [runHistory] at h
    obtain ⟨⟨v1, p1⟩, h1, h⟩ := bind_ok.mp h
    dsimp only at h
    obtain ⟨⟨v2, p2⟩, h2, h⟩ := bind_ok.mp h
    simp only [pure, Except.pure, Except.ok.injEq] at h
    subst h
    obtain ⟨k, hk, hi⟩ := comp_some hj
    have a1 := apply_pos hp h1
    have e2 := ih a1.shape (fun o ho => hs o (List.mem_cons_of_mem _ ho)) h2 j k hk c
    have e1 := apply_val hp (hs op (List.mem_cons_self ..)) h1 k i hi (historyChanSrc coord v1 rest c)
    simp only [historyChanSrc, h1]
    exact e2.trans e1

/-- over spatial operations alone the channel provenance is the identity -/
theorem historyChanSrc_spatial {coord : Coord} (ops : List Op) : ∀ {v : Vol} {w : VStep},
    (∀ op ∈ ops, Op.isSpatial op = true) → runHistory coord v ops = .ok w → ∀ c, historyChanSrc coord v ops c = c := by
  induction ops with
  | nil => intro v w _ _ c; rfl
  | cons op rest ih =>
    intro v w hs h c
    simp only [runHistory] at h
    obtain ⟨⟨v1, p1⟩, h1, h⟩ := bind_ok.mp h
    dsimp only at h
    obtain ⟨⟨v2, p2⟩, h2, _⟩ := bind_ok.mp h
    have hop := hs op (List.mem_cons_self ..)
    cases op with
    | spatial s =>
      simp only [historyChanSrc, h1, Op.chanSrc, id]
      exact ih (fun o ho => hs o (List.mem_cons_of_mem _ ho)) h2 c
    | getChannel sel keep => simp [Op.isSpatial] at hop
    | permuteChannels p => simp [Op.isSpatial] at hop
    | withArray shape a isInt => simp [Op.isSpatial] at hop

/-- what the channel provenance is on the cells of a volume with two channel dimensions -/
theorem chanSrc_two (v : Vol) (a b : Nat) (hs : v.cshape = [a, b]) (k x y : Nat) :
    Op.chanSrc v (.getChannel [(0, k)] false) [y] = [k, y] ∧ Op.chanSrc v (.getChannel [(1, k)] false) [y] = [y, k] ∧
    Op.chanSrc v (.getChannel [(0, k)] true) [0, y] = [k, y] ∧ Op.chanSrc v (.getChannel [(1, k)] true) [y, 0] = [y, k] ∧
    Op.chanSrc v (.permuteChannels [1, 0]) [x, y] = [y, x] ∧ Op.chanSrc v (.permuteChannels [0, 1]) [x, y] = [x, y] := by
  simp [Op.chanSrc, hs, expandChan, expandChan.go, fixChan, permChan, findIdx, findIdx.go, List.lookup, List.range,
    List.range.loop]

/-! ## flip, handedness -/

/-- the slice `flip_spatial` uses on a flipped axis reads the axis backwards, completely -/
theorem flip_axis_map (n : Int) (hn : 0 < n) :
    axisOfSlice (some (some (-1), none, some (-1))) n = .ok ⟨n - 1, -1, n, n, n - 1, -1⟩ := by
  have h1 : sliceIndices (some (-1)) none (some (-1)) n = .ok (n - 1, -1, -1) := by
    simp only [sliceIndices]
    have : max (-1 + n) (-1) = n - 1 := by omega
    simp [this]
  have h2 : getitemAxisItem (n - 1) (-1) (-1) = .ok (n - 1, -1, n) := by
    unfold getitemAxisItem
    have a : (-1 - (n - 1) : Int) = -n := by ring
    have b : ¬ (-n = 0) := by omega
    have c : -n < 0 := by omega
    have d : Int.fdiv (n - 1) 1 = n - 1 := by rw [fdiv_pos _ _ (by decide)]; simp
    have e : ¬ n ≤ 0 := by omega
    simp [a, b, c, d, e, hn]
  have h3 : sliceLen (n - 1) (-1) (-1) = n := by
    simp only [sliceLen]
    have : (n - 1 - -1 - 1) / (- -1) + 1 = n := by simp
    simp [hn]
  simp only [axisOfSlice, h1, bind, Except.bind, h2, pure, Except.pure, h3]

theorem full_axis_map (n : Int) (hn : 0 < n) :
    axisOfSlice (some (none, none, none)) n = .ok ⟨0, 1, n, n, 0, 1⟩ := by
  have h1 : sliceIndices none none none n = .ok (0, n, 1) := by
    simp [sliceIndices]
  have h2 : getitemAxisItem 0 n 1 = .ok (0, 1, n) := by
    unfold getitemAxisItem
    have b : ¬ (n = 0) := by omega
    have c : ¬ n < 0 := by omega
    have d : Int.fdiv (n - 1) 1 = n - 1 := by rw [fdiv_pos _ _ (by decide)]; simp
    simp [b, c, d]
  have h3 : sliceLen 0 n 1 = n := by
    simp [sliceLen, hn]
  simp only [axisOfSlice, h1, bind, Except.bind, h2, pure, Except.pure, h3]

def flipMap (b : Bool) (n : Int) : AxMap := if b then ⟨n - 1, -1, n, n, n - 1, -1⟩ else ⟨0, 1, n, n, 0, 1⟩

theorem flip_item_axis (b : Bool) (n : Int) (hn : 0 < n) :
    (do let s ← optItemSlice (some (if b then Item.slice (some (-1)) none (some (-1)) else Item.slice none none none)) n
        axisOfSlice s n) = .ok (flipMap b n) := by
  cases b
  · simp only [optItemSlice, itemSlice, checkSlice, bind, Except.bind, pure, Except.pure, Bool.false_eq_true, if_false]
    exact full_axis_map n hn
  · have c : checkSlice (some (-1)) none n = .ok 0 := by
      unfold checkSlice
      have : ¬ (-1 < -n) := by omega
      have : ¬ (-1 ≥ n) := by omega
      simp [*]
    simp only [optItemSlice, itemSlice, c, bind, Except.bind, pure, Except.pure, if_true]
    exact flip_axis_map n hn

theorem flipG_spec (sz : AxMap → Int) (g : Geom) (axes : List Int) (hp : g.Pos)
    (hv : (axes.length > 3 || axes.any (fun a => !validAxis a)) = false) :
    flipG sz g axes = .ok (g.remap sz (flipMap (axes.contains 0) g.n0) (flipMap (axes.contains 1) g.n1)
      (flipMap (axes.contains 2) g.n2),
      remapSrc (flipMap (axes.contains 0) g.n0) (flipMap (axes.contains 1) g.n1) (flipMap (axes.contains 2) g.n2)) := by
  simp only [flipG, flipItems, hv, Bool.false_eq_true, if_false, bind, Except.bind, getitemG, getitemMaps, List.map,
    List.length_cons, List.length_nil]
  generalize axes.contains 0 = b0
  generalize axes.contains 1 = b1
  generalize axes.contains 2 = b2
  have h0 := flip_item_axis b0 g.n0 hp.1
  have h1 := flip_item_axis b1 g.n1 hp.2.1
  have h2 := flip_item_axis b2 g.n2 hp.2.2
  obtain ⟨s0, e0, f0⟩ := bind_ok.mp h0
  obtain ⟨s1, e1, f1⟩ := bind_ok.mp h1
  obtain ⟨s2, e2, f2⟩ := bind_ok.mp h2
  simp only [List.getElem?_cons_zero, List.getElem?_cons_succ]
  have : ¬ (0 + 1 + 1 + 1 > 3) := by decide
  simp only [this, if_false, pure, Except.pure, e0, e1, e2, f0, f1, f2]

/-- Gram identity: `det² = ‖c0‖²‖c1‖²‖c2‖²` up to the terms with the mutual dot products -/
theorem triple_sq (g : Geom) :
    g.triple ^ 2 = g.c0.dot g.c0 * g.c1.dot g.c1 * g.c2.dot g.c2 + 2 * g.c0.dot g.c1 * g.c0.dot g.c2 * g.c1.dot g.c2
      - g.c0.dot g.c0 * (g.c1.dot g.c2) ^ 2 - g.c1.dot g.c1 * (g.c0.dot g.c2) ^ 2 - g.c2.dot g.c2 * (g.c0.dot g.c1) ^ 2 := by
  simp only [Geom.triple, V3.dot, V3.cross]; ring

theorem triple_ne_zero {g : Geom} (h : g.Orth) : g.triple ≠ 0 := by
  obtain ⟨o1, o2, o3, o4, o5, o6⟩ := h
  intro hz
  have := triple_sq g
  rw [hz, o1, o2, o3] at this
  have h2 : g.c0.dot g.c0 * g.c1.dot g.c1 * g.c2.dot g.c2 ≠ 0 := mul_ne_zero (mul_ne_zero o4 o5) o6
  apply h2
  linarith

theorem triple_remap (sz : AxMap → Int) (g : Geom) (m0 m1 m2 : AxMap) :
    (g.remap sz m0 m1 m2).triple = (m0.step * m1.step * m2.step : Int) * g.triple := by
  simp only [Geom.triple, Geom.remap, V3.dot, V3.cross, V3.smul]; push_cast; ring

theorem validAxis_cases {a : Int} (h : validAxis a = true) : a = 0 ∨ a = 1 ∨ a = 2 := by
  simp only [validAxis, Bool.or_eq_true, beq_iff_eq] at h
  rcases h with (h | h) | h <;> simp [h]

theorem flip_one_triple (sz : AxMap → Int) {g : Geom} {a : Int} {r : GStep} (hp : g.Pos) (h : flipG sz g [a] = .ok r) :
    r.1.triple = - g.triple := by
  by_cases hv : validAxis a = true
  · have hv' : (([a] : List Int).length > 3 || ([a] : List Int).any (fun a => !validAxis a)) = false := by simp [hv]
    rw [flipG_spec sz g [a] hp hv'] at h
    simp only [Except.ok.injEq] at h
    subst h
    rw [triple_remap]
    rcases validAxis_cases hv with rfl | rfl | rfl <;> simp [flipMap]
  · have : flipItems [a] = .error .value := by simp [flipItems, hv]
    simp [flipG, this, bind, Except.bind] at h

theorem swap_triple {g : Geom} {a b : Int} {r : GStep} (h : swapG g a b = .ok r) : r.1.triple = - g.triple := by
  simp only [swapG, swapList] at h
  split at h
  · simp [bind, Except.bind] at h
  · rename_i hv
    simp only [Bool.or_eq_true, Bool.not_eq_true', not_or, Bool.not_eq_false] at hv
    obtain ⟨ha, hb⟩ := hv
    split at h
    · simp [bind, Except.bind] at h
    · rename_i hne
      rcases validAxis_cases ha with rfl | rfl | rfl <;> rcases validAxis_cases hb with rfl | rfl | rfl <;>
        first
        | (exact absurd rfl hne)
        | (simp [bind, Except.bind, permuteG, permOfList, Ax.ofInt, pure, Except.pure] at h
           subst h
           simp only [Geom.triple, Geom.permute, Geom.col, V3.dot, V3.cross]; ring)

theorem ensureHandedness_spec (sz : AxMap → Int) {g : Geom} {hd : String} {fa : Option Int} {sa : Option (List Int)}
    {r : GStep} {wantLeft : Bool} (hp : g.Pos) (ho : g.Orth) (hw : parseHandedness hd = some wantLeft)
    (h : ensureHandednessG sz g hd fa sa = .ok r) : r.1.leftHanded = wantLeft := by
  have flipped : ∀ {r : GStep}, r.1.triple = - g.triple → (wantLeft == g.leftHanded) = false → r.1.leftHanded = wantLeft := by
    intro r ht hne
    have hnz := triple_ne_zero ho
    simp only [Geom.leftHanded, ht] at hne ⊢
    cases wantLeft
    · simp only [Bool.false_eq, beq_eq_false_iff_ne, ne_eq, Bool.not_eq_false, decide_eq_true_eq] at hne
      simp only [decide_eq_false_iff_not, not_lt]; linarith
    · simp only [beq_eq_false_iff_ne, ne_eq, Bool.true_eq, decide_eq_true_eq] at hne
      simp only [decide_eq_true_eq]
      rcases lt_or_gt_of_ne hnz with hlt | hgt
      · exact absurd hlt hne
      · linarith
  unfold ensureHandednessG at h
  split at h
  · cases h
  · rw [hw] at h
    dsimp only at h
    split at h
    · rename_i he
      simp only [Except.ok.injEq] at h
      subst h
      have : wantLeft = g.leftHanded := by simpa using he
      exact this.symm
    · rename_i he
      have he' : (wantLeft == g.leftHanded) = false := by simpa using he
      split at h
      · exact flipped (flip_one_triple sz hp h) he'
      · exact flipped (swap_triple h) he'
      · cases h
      · cases h

/-! ## pad / crop to a shape -/

/-- T9a: `pad_to_spatial_shape` on one axis -/
theorem padToAxis_ok {n o f b : Int} (h : padToAxis n o = .ok (f, b)) :
    n ≤ o ∧ f = (o - n) / 2 ∧ f + b = o - n := by
  unfold padToAxis at h
  simp only [fdiv_pos _ _ (by decide : (0 : Int) < 2)] at h
  split at h
  · cases h
  · rename_i hc
    simp only [decide_eq_true_eq, not_lt] at hc
    simp only [Bool.not_eq_true', decide_eq_false_iff_not, not_lt, hc, if_true, Except.ok.injEq, Prod.mk.injEq] at h
    obtain ⟨rfl, rfl⟩ := h
    omega

/-- T9b: `crop_to_spatial_shape` on one axis -/
theorem cropToAxis_ok {n o f e : Int} (h : cropToAxis n o = .ok (f, e)) :
    o ≤ n ∧ f = (n - o) / 2 ∧ e = f + o := by
  unfold cropToAxis at h
  simp only [fdiv_pos _ _ (by decide : (0 : Int) < 2)] at h
  split at h
  · cases h
  · rename_i hc
    simp only [decide_eq_true_eq, not_lt] at hc
    simp only [Bool.not_eq_true', decide_eq_false_iff_not, not_lt, hc, if_true, Except.ok.injEq, Prod.mk.injEq] at h
    obtain ⟨rfl, rfl⟩ := h
    omega

/-- T9c: `pad_or_crop_to_spatial_shape` on one axis -/
theorem padOrCropAxis_ok {n o pf pb cs ce : Int} (h : padOrCropAxis n o = .ok ((pf, pb), (cs, ce))) :
    (n < o → pf = (o - n) / 2 ∧ pf + pb = o - n ∧ cs = 0 ∧ ce = n) ∧
    (o < n → pf = 0 ∧ pb = 0 ∧ cs = (n - o) / 2 ∧ ce = cs + o) ∧
    (o = n → pf = 0 ∧ pb = 0 ∧ cs = 0 ∧ ce = n) := by
  unfold padOrCropAxis at h
  simp only [fdiv_pos _ _ (by decide : (0 : Int) < 2), Except.ok.injEq, Prod.mk.injEq] at h
  obtain ⟨⟨rfl, rfl⟩, ⟨rfl, rfl⟩⟩ := h
  refine ⟨fun hlt => ?_, fun hlt => ?_, fun heq => ?_⟩
  · have : o - n > 0 := by omega
    simp [this]; omega
  · have h1 : ¬ (o - n > 0) := by omega
    have h2 : o - n < 0 := by omega
    simp [h1, h2]; omega
  · subst heq
    simp

/-- a `start:stop` slice with non-negative in-range bounds selects `stop - start` voxels starting at `start` -/
def axisOfItem (it : Option Item) (n : Int) : Except ErrKind AxMap := do
  let s ← optItemSlice it n
  axisOfSlice s n

theorem checkSlice_ok {a b : Option Int} {n w : Int} (h : checkSlice a b n = .ok w) :
    (∀ f, a = some f → -n ≤ f ∧ f < n) ∧ (∀ e, b = some e → -n - 1 ≤ e ∧ e ≤ n) := by
  unfold checkSlice at h
  cases a <;> cases b <;> simp only at h <;> grind

theorem range_axis_map {n f e : Int} {m : AxMap} (h : axisOfItem (some (Item.slice (some f) (some e) none)) n = .ok m)
    (hf : 0 ≤ f) (he : f < n → 0 ≤ e) : m = ⟨f, 1, e - f, e - f, f, 1⟩ ∧ f < e ∧ e ≤ n := by
  obtain ⟨s, hs, h⟩ := bind_ok.mp h
  simp only [optItemSlice, itemSlice] at hs
  obtain ⟨s', hs', hs⟩ := bind_ok.mp hs
  obtain ⟨_, hc, hs'⟩ := bind_ok.mp hs'
  simp only [pure, Except.pure, Except.ok.injEq] at hs hs'
  subst hs' hs
  obtain ⟨hb1, hb2⟩ := checkSlice_ok hc
  have hb := hb1 f rfl
  have hb' := hb2 e rfl
  have he := he hb.2
  simp only [axisOfSlice] at h
  obtain ⟨⟨a, l, st⟩, h1, h⟩ := bind_ok.mp h
  dsimp only at h
  obtain ⟨⟨first, step, size⟩, h2, h⟩ := bind_ok.mp h
  simp only [pure, Except.pure, Except.ok.injEq] at h
  have e1 : a = f ∧ l = e ∧ st = 1 := by
    simp only [sliceIndices] at h1
    have h0 : ¬ ((1 : Int) = 0) := by decide
    have h3 : ¬ ((1 : Int) < 0) := by decide
    have h4 : ¬ f < 0 := by omega
    have h5 : ¬ e < 0 := by omega
    simp only [h0, h3, h4, h5, if_false, Except.ok.injEq, Prod.mk.injEq] at h1
    omega
  obtain ⟨ea, el, est⟩ := e1
  rw [ea, el, est] at h2 h
  obtain ⟨r1, r2, r3⟩ := getitemAxisItem_ok (by decide) h2
  rcases r3 with ⟨_, hlt, hsz⟩ | ⟨hneg, _, _⟩
  · have hsz' : size = e - f := by rw [hsz]; simp
    have hl : sliceLen f e 1 = e - f := by simp [sliceLen, hlt]
    rw [r1, r2, hsz', hl] at h
    exact ⟨h.symm, hlt, hb'.2⟩
  · exact absurd hneg (by decide)


theorem getitemMaps_axes {g : Geom} {items : List Item} {m0 m1 m2 : AxMap} (h : getitemMaps g items = .ok (m0, m1, m2)) :
    axisOfItem items[0]? g.n0 = .ok m0 ∧ axisOfItem items[1]? g.n1 = .ok m1 ∧ axisOfItem items[2]? g.n2 = .ok m2 := by
  obtain ⟨_, s0, s1, s2, e0, e1, e2, f0, f1, f2⟩ := getitemMaps_ok h
  simp only [axisOfItem, e0, e1, e2, bind, Except.bind, f0, f1, f2, and_self]

theorem shape3_ok {s : List Int} {a b c : Int} (h : shape3 s = .ok (a, b, c)) : s = [a, b, c] := by
  unfold shape3 at h
  split at h
  · simp only [Except.ok.injEq, Prod.mk.injEq] at h; obtain ⟨rfl, rfl, rfl⟩ := h; rfl
  · cases h

/-- `crop_to_spatial_shape`: an accepted request yields exactly the requested shape -/
theorem cropToG_shape (sz : AxMap → Int) (hsz : SzOk sz) {g : Geom} {s : List Int} {r : GStep}
    (h : cropToG sz g s = .ok r) : s = [r.1.n0, r.1.n1, r.1.n2] := by
  simp only [cropToG] at h
  obtain ⟨items, hi, h⟩ := bind_ok.mp h
  simp only [cropToItems] at hi
  obtain ⟨⟨o0, o1, o2⟩, hs, hi⟩ := bind_ok.mp hi
  dsimp only at hi
  obtain ⟨⟨f0, e0⟩, c0, hi⟩ := bind_ok.mp hi
  dsimp only at hi
  obtain ⟨⟨f1, e1⟩, c1, hi⟩ := bind_ok.mp hi
  dsimp only at hi
  obtain ⟨⟨f2, e2⟩, c2, hi⟩ := bind_ok.mp hi
  simp only [pure, Except.pure, Except.ok.injEq] at hi
  subst hi
  simp only [getitemG] at h
  obtain ⟨⟨m0, m1, m2⟩, hm, h⟩ := bind_ok.mp h
  simp only [pure, Except.pure, Except.ok.injEq] at h
  subst h
  obtain ⟨a0, a1, a2⟩ := getitemMaps_axes hm
  simp only [List.getElem?_cons_zero, List.getElem?_cons_succ] at a0 a1 a2
  obtain ⟨p0, q0, r0⟩ := cropToAxis_ok c0
  obtain ⟨p1, q1, r1⟩ := cropToAxis_ok c1
  obtain ⟨p2, q2, r2⟩ := cropToAxis_ok c2
  obtain ⟨x0, _, _⟩ := range_axis_map a0 (by omega) (by omega)
  obtain ⟨x1, _, _⟩ := range_axis_map a1 (by omega) (by omega)
  obtain ⟨x2, _, _⟩ := range_axis_map a2 (by omega) (by omega)
  rw [shape3_ok hs]
  have z0 : sz m0 = e0 - f0 := by rw [hsz m0 (by rw [x0]), x0]
  have z1 : sz m1 = e1 - f1 := by rw [hsz m1 (by rw [x1]), x1]
  have z2 : sz m2 = e2 - f2 := by rw [hsz m2 (by rw [x2]), x2]
  simp only [Geom.remap, z0, z1, z2]
  congr 1
  · omega
  · congr 1
    · omega
    · congr 1; omega


theorem fullPadWidth_nested2 {f0 b0 f1 b1 f2 b2 : Int} {full : FullPad}
    (h : fullPadWidth (.nested [[f0, b0], [f1, b1], [f2, b2]]) = .ok full) : full = ((f0, b0), (f1, b1), (f2, b2)) := by
  simp only [fullPadWidth, rawPadWidth, bind, Except.bind] at h
  split at h
  · cases h
  · simp only [pure, Except.pure, Except.ok.injEq] at h; exact h.symm

theorem padG_nested2_shape (sz : AxMap → Int) (hsz : SzOk sz) {g : Geom} {f0 b0 f1 b1 f2 b2 : Int} {r : GStep}
    (h : padG sz g (.nested [[f0, b0], [f1, b1], [f2, b2]]) = .ok r) :
    r.1.n0 = g.n0 + f0 + b0 ∧ r.1.n1 = g.n1 + f1 + b1 ∧ r.1.n2 = g.n2 + f2 + b2 := by
  simp only [padG] at h
  obtain ⟨full, hf, h⟩ := bind_ok.mp h
  rw [fullPadWidth_nested2 hf] at h
  simp only [padFullG] at h
  obtain ⟨m0, e0, h⟩ := bind_ok.mp h
  obtain ⟨m1, e1, h⟩ := bind_ok.mp h
  obtain ⟨m2, e2, h⟩ := bind_ok.mp h
  simp only [pure, Except.pure, Except.ok.injEq] at h
  subst h
  rw [padAxis_ok e0, padAxis_ok e1, padAxis_ok e2]
  simp only [Geom.remap]
  exact ⟨hsz _ rfl, hsz _ rfl, hsz _ rfl⟩

/-- `pad_to_spatial_shape`: an accepted request yields exactly the requested shape -/
theorem padToG_shape (sz : AxMap → Int) (hsz : SzOk sz) {g : Geom} {s : List Int} {r : GStep}
    (h : padToG sz g s = .ok r) : s = [r.1.n0, r.1.n1, r.1.n2] := by
  simp only [padToG] at h
  obtain ⟨w, hw, h⟩ := bind_ok.mp h
  simp only [padToWidth] at hw
  obtain ⟨⟨o0, o1, o2⟩, hs, hw⟩ := bind_ok.mp hw
  dsimp only at hw
  obtain ⟨⟨f0, b0⟩, c0, hw⟩ := bind_ok.mp hw
  dsimp only at hw
  obtain ⟨⟨f1, b1⟩, c1, hw⟩ := bind_ok.mp hw
  dsimp only at hw
  obtain ⟨⟨f2, b2⟩, c2, hw⟩ := bind_ok.mp hw
  simp only [pure, Except.pure, Except.ok.injEq] at hw
  subst hw
  obtain ⟨z0, z1, z2⟩ := padG_nested2_shape sz hsz h
  obtain ⟨_, _, r0⟩ := padToAxis_ok c0
  obtain ⟨_, _, r1⟩ := padToAxis_ok c1
  obtain ⟨_, _, r2⟩ := padToAxis_ok c2
  rw [shape3_ok hs, z0, z1, z2]
  congr 1
  · omega
  · congr 1
    · omega
    · congr 1; omega

/-- `pad_or_crop_to_spatial_shape`: an accepted request yields exactly the requested shape -/
theorem padOrCropG_shape (sz : AxMap → Int) (hsz : SzOk sz) {g : Geom} {s : List Int} {r : GStep}
    (h : padOrCropG sz g s = .ok r) : s = [r.1.n0, r.1.n1, r.1.n2] := by
  simp only [padOrCropG] at h
  obtain ⟨⟨items, w⟩, hpl, h⟩ := bind_ok.mp h
  dsimp only at h
  obtain ⟨⟨g1, f1⟩, h1, h⟩ := bind_ok.mp h
  dsimp only at h
  obtain ⟨⟨g2, f2⟩, h2, h⟩ := bind_ok.mp h
  simp only [pure, Except.pure, Except.ok.injEq] at h
  subst h
  simp only [padOrCropPlan] at hpl
  obtain ⟨⟨o0, o1, o2⟩, hs, hpl⟩ := bind_ok.mp hpl
  dsimp only at hpl
  obtain ⟨⟨⟨pf0, pb0⟩, ⟨cs0, ce0⟩⟩, c0, hpl⟩ := bind_ok.mp hpl
  dsimp only at hpl
  obtain ⟨⟨⟨pf1, pb1⟩, ⟨cs1, ce1⟩⟩, c1, hpl⟩ := bind_ok.mp hpl
  dsimp only at hpl
  obtain ⟨⟨⟨pf2, pb2⟩, ⟨cs2, ce2⟩⟩, c2, hpl⟩ := bind_ok.mp hpl
  simp only [pure, Except.pure, Except.ok.injEq, Prod.mk.injEq] at hpl
  obtain ⟨rfl, rfl⟩ := hpl
  simp only [getitemG] at h1
  obtain ⟨⟨m0, m1, m2⟩, hm, h1⟩ := bind_ok.mp h1
  simp only [pure, Except.pure, Except.ok.injEq, Prod.mk.injEq] at h1
  obtain ⟨rfl, rfl⟩ := h1
  obtain ⟨a0, a1, a2⟩ := getitemMaps_axes hm
  simp only [List.getElem?_cons_zero, List.getElem?_cons_succ] at a0 a1 a2
  obtain ⟨u0, v0, w0⟩ := padOrCropAxis_ok c0
  obtain ⟨u1, v1, w1⟩ := padOrCropAxis_ok c1
  obtain ⟨u2, v2, w2⟩ := padOrCropAxis_ok c2
  obtain ⟨x0, _, _⟩ := range_axis_map a0 (by omega) (by omega)
  obtain ⟨x1, _, _⟩ := range_axis_map a1 (by omega) (by omega)
  obtain ⟨x2, _, _⟩ := range_axis_map a2 (by omega) (by omega)
  have z0 : sz m0 = ce0 - cs0 := by rw [hsz m0 (by rw [x0]), x0]
  have z1 : sz m1 = ce1 - cs1 := by rw [hsz m1 (by rw [x1]), x1]
  have z2 : sz m2 = ce2 - cs2 := by rw [hsz m2 (by rw [x2]), x2]
  obtain ⟨y0, y1, y2⟩ := padG_nested2_shape sz hsz h2
  simp only [Geom.remap, z0, z1, z2] at y0 y1 y2
  rw [shape3_ok hs]
  simp only
  rw [y0, y1, y2]
  congr 1
  · omega
  · congr 1
    · omega
    · congr 1; omega

/-! ## padding values -/

theorem padArray_constant {v : Vol} {f : I3 → I3} {o : PadOpts} {a : I3 → List Nat → Rat} {b : Bool}
    (hm : o.mode = "CONSTANT") (h : padArray v f o = .ok (a, b)) (j : I3) (hj : v.geom.inRange (f j) = false) (c : List Nat) :
    a j c = castTo v.isInt o.cval ∧ b = v.isInt := by
  unfold padArray at h
  have : PadMode.parse o.mode = some .constant := by rw [hm]; decide
  rw [this, padPerChannel_eq this] at h
  simp only [Except.ok.injEq, Prod.mk.injEq] at h
  obtain ⟨rfl, rfl⟩ := h
  simp [hj]

theorem padArray_edge {v : Vol} {f : I3 → I3} {o : PadOpts} {a : I3 → List Nat → Rat} {b : Bool}
    (hm : o.mode = "EDGE") (h : padArray v f o = .ok (a, b)) (j : I3) (hj : v.geom.inRange (f j) = false) (c : List Nat) :
    a j c = v.arr (v.geom.clamp (f j)) c ∧ b = v.isInt := by
  unfold padArray at h
  have : PadMode.parse o.mode = some .edge := by rw [hm]; decide
  rw [this, padPerChannel_eq this] at h
  simp only [Except.ok.injEq, Prod.mk.injEq] at h
  obtain ⟨rfl, rfl⟩ := h
  simp [hj]

/-- the index `Geom.clamp` returns is a voxel, and it is the index itself for a voxel -/
theorem clamp_inRange {g : Geom} (hp : g.Pos) (i : I3) : g.inRange (g.clamp i) = true := by
  rw [inRange_iff]
  obtain ⟨h0, h1, h2⟩ := hp
  simp only [Geom.clamp, clampI]
  refine ⟨?_, ?_, ?_⟩ <;> (repeat' split) <;> omega

/-- per axis the clamped index is the nearest one inside `0 .. n-1` -/
theorem clampI_nearest {x n : Int} (k : Int) (hk : 0 ≤ k ∧ k < n) :
    (if clampI x n ≤ x then x - clampI x n else clampI x n - x) ≤ (if k ≤ x then x - k else k - x) := by
  simp only [clampI]
  (repeat' split) <;> omega

/-- statistic modes, whole array: every new voxel holds the statistic of all input values (cast to the dtype) -/
theorem padArray_stat_global {v : Vol} {f : I3 → I3} {o : PadOpts} {a : I3 → List Nat → Rat} {b : Bool} {mode : PadMode}
    (hm : PadMode.parse o.mode = some mode) (hs : isStat mode = true)
    (hpc : (o.perChannel && !(v.cshape.isEmpty || v.cshape == [1])) = false)
    (h : padArray v f o = .ok (a, b)) (j : I3) (hj : v.geom.inRange (f j) = false) (c : List Nat) :
    ∃ x, statOf mode v.values = some x ∧ a j c = castTo v.isInt x ∧ b = v.isInt := by
  unfold padArray at h
  rw [hm, padPerChannel_eq hm, length_zero_beq] at h
  dsimp only at h
  have hpc' : (o.perChannel && isStat mode && !(v.cshape.isEmpty || v.cshape == [1])) = false := by
    rw [hs, Bool.and_true]; exact hpc
  rw [hpc'] at h
  cases mode <;> simp [isStat] at hs <;> simp only [Bool.false_eq_true, if_false] at h <;>
  · split at h
    · cases h
    · rename_i x hx
      simp only [Except.ok.injEq, Prod.mk.injEq] at h
      obtain ⟨rfl, rfl⟩ := h
      exact ⟨x, hx, by simp [hj], rfl⟩


theorem lookup_map_self {α β} [BEq α] [LawfulBEq α] (l : List α) (g : α → β) (x : α) (hx : x ∈ l) :
    (l.map fun c => (c, g c)).lookup x = some (g x) := by
  induction l with
  | nil => cases hx
  | cons y ys ih =>
    simp only [List.map, List.lookup]
    by_cases hxy : x = y
    · subst hxy; simp
    · have : (x == y) = false := by simpa using hxy
      simp only [this]
      exact ih (by cases hx with | head => exact absurd rfl hxy | tail _ h => exact h)

theorem table_lookup {cs : List (List Nat)} {g : List Nat → Option Rat} {c : List Nat} {d : Rat} (hc : c ∈ cs)
    (hany : ((cs.map fun c => (c, g c)).any fun e => e.2.isNone) = false) :
    ∃ x, g c = some x ∧ tableGet (cs.map fun c => (c, g c)) c d = x := by
  simp only [tableGet]
  rw [lookup_map_self cs g c hc]
  simp only [List.any_eq_false, List.mem_map, forall_exists_index, and_imp] at hany
  have := hany _ c hc rfl
  cases hst : g c with
  | none => simp [hst] at this
  | some x => exact ⟨x, rfl, rfl⟩

/-- statistic modes, per channel: new voxels of channel `c` hold the statistic of that channel; the dtype is kept -/
theorem padArray_stat_perChannel {v : Vol} {f : I3 → I3} {o : PadOpts} {a : I3 → List Nat → Rat} {b : Bool} {mode : PadMode}
    (hm : PadMode.parse o.mode = some mode) (hs : isStat mode = true)
    (hpc : (o.perChannel && !(v.cshape.isEmpty || v.cshape == [1])) = true)
    (h : padArray v f o = .ok (a, b)) (j : I3) (hj : v.geom.inRange (f j) = false) (c : List Nat)
    (hc : c ∈ chanIndices v.cshape) :
    ∃ x, statOf mode (v.channelValues c) = some x ∧ a j c = castTo v.isInt x ∧ b = v.isInt := by
  unfold padArray at h
  rw [hm, padPerChannel_eq hm, length_zero_beq] at h
  dsimp only at h
  have hpc' : (o.perChannel && isStat mode && !(v.cshape.isEmpty || v.cshape == [1])) = true := by
    rw [hs, Bool.and_true]; exact hpc
  rw [hpc'] at h
  cases mode <;> simp [isStat] at hs <;> simp only [if_true] at h <;>
  · split at h
    · cases h
    · rename_i hany
      simp only [Except.ok.injEq, Prod.mk.injEq] at h
      obtain ⟨rfl, rfl⟩ := h
      simp only [Bool.not_eq_true] at hany
      obtain ⟨y, hy, hl⟩ := table_lookup (d := v.arr (f j) c) hc hany
      cases hst : statOf _ (v.channelValues c) with
      | none => simp [hst] at hy
      | some x =>
        refine ⟨x, rfl, ?_, rfl⟩
        simp only [hj, Bool.false_eq_true, if_false]
        rw [hl]
        simp [hst] at hy
        exact hy.symm

theorem foldl_min_le (l : List Rat) (m : Rat) :
    (l.foldl (fun m y => if y < m then y else m) m ≤ m) ∧ (∀ x ∈ l, l.foldl (fun m y => if y < m then y else m) m ≤ x) ∧
    (l.foldl (fun m y => if y < m then y else m) m = m ∨ l.foldl (fun m y => if y < m then y else m) m ∈ l) := by
  induction l generalizing m with
  | nil => simp
  | cons y ys ih =>
    simp only [List.foldl]
    obtain ⟨a, b, c⟩ := ih (if y < m then y else m)
    by_cases hym : y < m
    · simp only [hym, if_true] at a b c ⊢
      refine ⟨by linarith, ?_, ?_⟩
      · intro x hx
        cases hx with
        | head => exact a
        | tail _ h => exact b x h
      · rcases c with c | c
        · right; rw [c]; exact List.mem_cons_self ..
        · right; exact List.mem_cons_of_mem _ c
    · simp only [hym, if_false] at a b c ⊢
      refine ⟨a, ?_, ?_⟩
      · intro x hx
        cases hx with
        | head => linarith
        | tail _ h => exact b x h
      · rcases c with c | c
        · left; exact c
        · right; exact List.mem_cons_of_mem _ c

/-- `MINIMUM` really is the minimum of the values -/
theorem listMin_spec {l : List Rat} {m : Rat} (h : listMin l = some m) : m ∈ l ∧ ∀ x ∈ l, m ≤ x := by
  cases l with
  | nil => cases h
  | cons x xs =>
    simp only [listMin, Option.some.injEq] at h
    obtain ⟨a, b, c⟩ := foldl_min_le xs x
    rw [h] at a b c
    refine ⟨?_, ?_⟩
    · rcases c with c | c
      · rw [c]; exact List.mem_cons_self ..
      · exact List.mem_cons_of_mem _ c
    · intro y hy
      cases hy with
      | head => exact a
      | tail _ h' => exact b y h'

theorem foldl_max_ge (l : List Rat) (m : Rat) :
    (m ≤ l.foldl (fun m y => if m < y then y else m) m) ∧ (∀ x ∈ l, x ≤ l.foldl (fun m y => if m < y then y else m) m) ∧
    (l.foldl (fun m y => if m < y then y else m) m = m ∨ l.foldl (fun m y => if m < y then y else m) m ∈ l) := by
  induction l generalizing m with
  | nil => simp
  | cons y ys ih =>
    simp only [List.foldl]
    obtain ⟨a, b, c⟩ := ih (if m < y then y else m)
    by_cases hym : m < y
    · simp only [hym, if_true] at a b c ⊢
      refine ⟨by linarith, ?_, ?_⟩
      · intro x hx
        cases hx with
        | head => exact a
        | tail _ h => exact b x h
      · rcases c with c | c
        · right; rw [c]; exact List.mem_cons_self ..
        · right; exact List.mem_cons_of_mem _ c
    · simp only [hym, if_false] at a b c ⊢
      refine ⟨a, ?_, ?_⟩
      · intro x hx
        cases hx with
        | head => linarith
        | tail _ h => exact b x h
      · rcases c with c | c
        · left; exact c
        · right; exact List.mem_cons_of_mem _ c

/-- `MAXIMUM` really is the maximum of the values -/
theorem listMax_spec {l : List Rat} {m : Rat} (h : listMax l = some m) : m ∈ l ∧ ∀ x ∈ l, x ≤ m := by
  cases l with
  | nil => cases h
  | cons x xs =>
    simp only [listMax, Option.some.injEq] at h
    obtain ⟨a, b, c⟩ := foldl_max_ge xs x
    rw [h] at a b c
    refine ⟨?_, ?_⟩
    · rcases c with c | c
      · rw [c]; exact List.mem_cons_self ..
      · exact List.mem_cons_of_mem _ c
    · intro y hy
      cases hy with
      | head => exact a
      | tail _ h' => exact b y h'

/-! ## int indices -/

theorem unit_item (f : Int) : getitemAxisItem f (f + 1) 1 = .ok (f, 1, 1) := by
  unfold getitemAxisItem
  have a : f + 1 - f = 1 := by ring
  simp [a]

/-- an int index inside `-n .. n-1` selects exactly that plane (negative values count from the end) -/
theorem int_axis_map {k n : Int} (hn : 0 < n) (hk : -n ≤ k ∧ k < n) :
    axisOfItem (some (Item.int k)) n = .ok ⟨if k < 0 then k + n else k, 1, 1, 1, if k < 0 then k + n else k, 1⟩ := by
  have hc : checkInt k n = .ok k := by
    unfold checkInt
    have h1 : ¬ k < -n := by omega
    have h2 : ¬ k ≥ n := by omega
    simp [h1, h2]
  have hl : ∀ f, sliceLen f (f + 1) 1 = 1 := by intro f; simp [sliceLen]
  by_cases hm1 : k = -1
  · subst hm1
    have hs : sliceIndices (some (-1)) none none n = .ok (n - 1, n, 1) := by
      simp only [sliceIndices]
      have : max (-1 + n) 0 = n - 1 := by omega
      simp [this]
    have := unit_item (n - 1)
    rw [show n - 1 + 1 = n by ring] at this
    have hl' := hl (n - 1)
    rw [show n - 1 + 1 = n by ring] at hl'
    simp only [axisOfItem, optItemSlice, itemSlice, hc, intToSlice, bind, Except.bind, pure, Except.pure, axisOfSlice, hs, this, hl']
    have e1 : ((-1 : Int) == -1) = true := by decide
    simp only [e1, if_true, Bool.false_eq_true, if_false, hs, this, hl']
    have e2 : (-1 : Int) < 0 := by decide
    simp only [e2, if_true]
    have e3 : (-1 + n : Int) = n - 1 := by ring
    rw [e3]
  · by_cases hneg : k < 0
    · have hs : sliceIndices (some k) (some (k + 1)) none n = .ok (k + n, k + n + 1, 1) := by
        simp only [sliceIndices]
        have h1 : k + 1 < 0 := by omega
        have h2 : max (k + n) 0 = k + n := by omega
        have h3 : max (k + 1 + n) 0 = k + n + 1 := by omega
        simp [hneg, h1, h2, h3]
      have hb : (k == -1) = false := by simpa using hm1
      simp only [axisOfItem, optItemSlice, itemSlice, hc, intToSlice, bind, Except.bind, pure, Except.pure, axisOfSlice, hb,
        Bool.false_eq_true, if_false, if_true, hs, unit_item, hl, hneg]
    · have hs : sliceIndices (some k) (some (k + 1)) none n = .ok (k, k + 1, 1) := by
        simp only [sliceIndices]
        have h1 : ¬ k + 1 < 0 := by omega
        have h2 : min k n = k := by omega
        have h3 : min (k + 1) n = k + 1 := by omega
        simp [hneg, h1, h2, h3]
      have hb : (k == -1) = false := by simpa using hm1
      simp only [axisOfItem, optItemSlice, itemSlice, hc, intToSlice, bind, Except.bind, pure, Except.pure, axisOfSlice, hb,
        Bool.false_eq_true, if_false, if_true, hs, unit_item, hl, hneg]

/-- an int index outside `-n .. n-1` is refused with IndexError (never wrapped or clamped) -/
theorem int_axis_refused {k n : Int} (hk : k < -n ∨ n ≤ k) : axisOfItem (some (Item.int k)) n = .error .index := by
  have hc : checkInt k n = .error .index := by
    unfold checkInt
    rcases hk with h | h
    · simp [h]
    · have : k ≥ n := h
      simp [this]
  simp only [axisOfItem, optItemSlice, itemSlice, hc, bind, Except.bind]

/-! ## negative step down to index 0 -/

theorem down_item (k s : Int) (hk : 0 ≤ k) (hs : 0 < s) :
    getitemAxisItem k (-1) (-s) = .ok (k, -s, k / s + 1) := by
  unfold getitemAxisItem
  have a : (-1 - k : Int) < 0 := by omega
  have b : ¬ (-1 - k : Int) = 0 := by omega
  have c : -s < 0 := by omega
  have d : (if (-1 - k : Int) < 0 then -(-1 - k) else -1 - k) - 1 = k := by rw [if_pos a]; ring
  have e : (if -s < 0 then - -s else -s) = s := by rw [if_pos c]; ring
  simp only [d, e, fdiv_pos _ _ hs]
  have ns : ¬ s ≤ 0 := by omega
  simp [a, b, c, hs, ns]

/-- **negative step ending at index 0**: `v[k::-s]` (stop omitted) selects `k, k-s, …` down to the last index `≥ 0` -/
theorem reverse_to_zero_axis {k s n : Int} (hk : 0 ≤ k ∧ k < n) (hs : 0 < s) :
    axisOfItem (some (Item.slice (some k) none (some (-s)))) n = .ok ⟨k, -s, k / s + 1, k / s + 1, k, -s⟩ := by
  have hc : checkSlice (some k) none n = .ok 0 := by
    unfold checkSlice
    have h1 : ¬ k < -n := by omega
    have h2 : ¬ k ≥ n := by omega
    simp [h1, h2]
  have hsl : sliceIndices (some k) none (some (-s)) n = .ok (k, -1, -s) := by
    simp only [sliceIndices]
    have h0 : ¬ (-s = 0) := by omega
    have h1 : -s < 0 := by omega
    have h2 : ¬ k < 0 := by omega
    have h3 : min k (n - 1) = k := by omega
    have ns : ¬ s ≤ 0 := by omega
    simp [h0, h1, h2, h3, hs, ns]
  have hl : sliceLen k (-1) (-s) = k / s + 1 := by
    simp only [sliceLen]
    have h1 : ¬ (-s > 0) := by omega
    have h2 : -s < 0 := by omega
    have h3 : (-1 : Int) < k := by omega
    have h4 : (k - -1 - 1) = k := by ring
    have ns : ¬ s ≤ 0 := by omega
    have ns2 : ¬ s < 0 := by omega
    simp [h1, h2, h3, h4, hs, ns, ns2]
  simp only [axisOfItem, optItemSlice, itemSlice, hc, bind, Except.bind, pure, Except.pure, axisOfSlice, hsl,
    down_item k s hk.1 hs, hl]

/-- the same with the explicit stop `-n-1` (the only way to write "down to and including index 0" with a stop) -/
theorem reverse_to_zero_axis_explicit {k s n : Int} (hk : 0 ≤ k ∧ k < n) (hs : 0 < s) :
    axisOfItem (some (Item.slice (some k) (some (-n - 1)) (some (-s)))) n = .ok ⟨k, -s, k / s + 1, k / s + 1, k, -s⟩ := by
  have hc : checkSlice (some k) (some (-n - 1)) n = .ok 0 := by
    unfold checkSlice
    have h1 : ¬ k < -n := by omega
    have h2 : ¬ k ≥ n := by omega
    have h3 : ¬ (-n - 1 < -n - 1) := by omega
    have h4 : ¬ (-n - 1 > n) := by omega
    have ns : ¬ s ≤ 0 := by omega
    have ns2 : ¬ s < 0 := by omega
    simp [h1, h2, h3, h4, hs, ns, ns2]
  have hsl : sliceIndices (some k) (some (-n - 1)) (some (-s)) n = .ok (k, -1, -s) := by
    simp only [sliceIndices]
    have h0 : ¬ (-s = 0) := by omega
    have h1 : -s < 0 := by omega
    have h2 : ¬ k < 0 := by omega
    have h3 : min k (n - 1) = k := by omega
    have h4 : -n - 1 < 0 := by omega
    have h5 : max (-n - 1 + n) (-1) = -1 := by omega
    have ns : ¬ s ≤ 0 := by omega
    simp [h0, h1, h2, h3, h4, h5, hs, ns]
  have hl : sliceLen k (-1) (-s) = k / s + 1 := by
    simp only [sliceLen]
    have h1 : ¬ (-s > 0) := by omega
    have h2 : -s < 0 := by omega
    have h3 : (-1 : Int) < k := by omega
    have h4 : (k - -1 - 1) = k := by ring
    have ns : ¬ s ≤ 0 := by omega
    have ns2 : ¬ s < 0 := by omega
    simp [h1, h2, h3, h4, hs, ns, ns2]
  simp only [axisOfItem, optItemSlice, itemSlice, hc, bind, Except.bind, pure, Except.pure, axisOfSlice, hsl,
    down_item k s hk.1 hs, hl]

end HdVerif.VolLemmas
