import HdVerif.Model.SRItems
import HdVerif.Generated.T13k
/-! Helper lemmas for C13. -/
namespace HdVerif.SRItemsLemmas
open HdVerif HdVerif.SRItems

/-- the rows of the regenerated tables that concern one class, all in agreement -/
structure TableOk (cls : Cls) (vtName vt : String) (req : List String) : Prop where
  ctor : Gen.srCtorValueType.lookup cls.pyName = some vtName
  value : enumValue Gen.c13ValueTypes vtName = some vt
  name : enumName Gen.c13ValueTypes vt = some vtName
  known : enumHas Gen.c13ValueTypes vt = true
  dispatch : Gen.srDispatch.lookup vtName = some cls.pyName
  ofPy : Cls.ofPyName cls.pyName = some cls
  asserts : Gen.srFromDatasetAsserts.lookup cls.pyName = some vtName
  required : Gen.srRequiredAttrs.lookup vtName = some req
  reqFresh : ∀ k ∈ req, k ≠ "ValueType" ∧ k ≠ "ConceptNameCodeSequence" ∧ k ≠ "RelationshipType"

theorem tableOk_code : TableOk .code "CODE" "CODE" ["ConceptCodeSequence"] := by constructor <;> decide
theorem tableOk_composite : TableOk .composite "COMPOSITE" "COMPOSITE" ["ReferencedSOPSequence"] := by constructor <;> decide
theorem tableOk_container : TableOk .container "CONTAINER" "CONTAINER" ["ContinuityOfContent"] := by constructor <;> decide
theorem tableOk_date : TableOk .date "DATE" "DATE" ["Date"] := by constructor <;> decide
theorem tableOk_datetime : TableOk .datetime "DATETIME" "DATETIME" ["DateTime"] := by constructor <;> decide
theorem tableOk_image : TableOk .image "IMAGE" "IMAGE" ["ReferencedSOPSequence"] := by constructor <;> decide
theorem tableOk_num : TableOk .num "NUM" "NUM" ["MeasuredValueSequence"] := by constructor <;> decide
theorem tableOk_pname : TableOk .pname "PNAME" "PNAME" ["PersonName"] := by constructor <;> decide
theorem tableOk_scoord : TableOk .scoord "SCOORD" "SCOORD" ["GraphicType", "GraphicData"] := by constructor <;> decide
theorem tableOk_scoord3d : TableOk .scoord3d "SCOORD3D" "SCOORD3D" ["GraphicType", "GraphicData"] := by constructor <;> decide
theorem tableOk_tcoord : TableOk .tcoord "TCOORD" "TCOORD" ["TemporalRangeType"] := by constructor <;> decide
theorem tableOk_text : TableOk .text "TEXT" "TEXT" ["TextValue"] := by constructor <;> decide
theorem tableOk_time : TableOk .time "TIME" "TIME" ["Time"] := by constructor <;> decide
theorem tableOk_uidref : TableOk .uidref "UIDREF" "UIDREF" ["UID"] := by constructor <;> decide
theorem tableOk_waveform : TableOk .waveform "WAVEFORM" "WAVEFORM" ["ReferencedSOPSequence"] := by constructor <;> decide

/-! ## facts about the regenerated guards (closed terms: they fail when the source guard changes) -/

theorem assertHead_ok : Gen.srAssertHead true true = .ok true := by decide
theorem assertHead_noVt (b : Bool) : Gen.srAssertHead false b = .error .attribute := by cases b <;> decide
theorem assertHead_mismatch : Gen.srAssertHead true false = .error .value := by decide
theorem assertAttr_ok : Gen.srAssertAttr true = .ok true := by decide
theorem assertAttr_missing : Gen.srAssertAttr false = .error .attribute := by decide
theorem baseGuards_ok (b : Bool) : Gen.srBaseGuards true true b = .ok 0 := by cases b <;> decide
theorem baseGuards_noName_required : Gen.srBaseGuards true false false = .error .attribute := by decide
theorem baseGuards_noName_optional : Gen.srBaseGuards true false true = .ok 1 := by decide
theorem checkRel_ok (r s : Bool) : Gen.srCheckDatasetRel true r s = .ok true := by cases r <;> cases s <;> decide
theorem checkRel_missing : Gen.srCheckDatasetRel false false true = .error .attribute := by decide
theorem checkRel_nonSr (b : Bool) : Gen.srCheckDatasetRel b false false = .ok true := by cases b <;> decide

/-! ## attribute look-up -/

theorem has_append_right (k : String) (a e : Attrs) (h : has k e = true) : has k (a ++ e) = true := by
  unfold has at *
  rw [List.lookup_append]
  cases List.lookup k a <;> simp_all

theorem lookup_append_left {k : String} {a e : Attrs} {v : AVal} (h : a.lookup k = some v) : (a ++ e).lookup k = some v := by
  rw [List.lookup_append, h]; rfl

theorem lookup_append_right {k : String} {a e : Attrs} (h : a.lookup k = none) : (a ++ e).lookup k = e.lookup k := by
  rw [List.lookup_append, h]; rfl

/-- the loop of `_assert_value_type` -/
def reqLoop (attrs : Attrs) (req : List String) : Except ErrKind Unit :=
  req.foldl (fun acc k => match acc with
    | .error e => .error e
    | .ok _ => match Gen.srAssertAttr (has k attrs) with
      | .error e => .error e
      | .ok _ => .ok ()) (.ok ())

theorem foldl_err (attrs : Attrs) (req : List String) (e : ErrKind) :
    req.foldl (fun acc k => match acc with
      | .error e => .error e
      | .ok _ => match Gen.srAssertAttr (has k attrs) with
        | .error e => .error e
        | .ok _ => .ok ()) (.error e : Except ErrKind Unit) = .error e := by
  induction req with
  | nil => rfl
  | cons k r ih => simpa using ih

theorem reqLoop_ok (attrs : Attrs) (req : List String) (h : ∀ k ∈ req, has k attrs = true) : reqLoop attrs req = .ok () := by
  unfold reqLoop
  induction req with
  | nil => rfl
  | cons k r ih =>
    simp only [List.foldl_cons, h k (by simp), assertAttr_ok]
    exact ih (fun k hk => h k (by simp [hk]))

theorem reqLoop_missing (attrs : Attrs) (req : List String) (h : ∃ k ∈ req, has k attrs = false) :
    reqLoop attrs req = .error .attribute := by
  unfold reqLoop
  induction req with
  | nil => simp at h
  | cons k r ih =>
    simp only [List.foldl_cons]
    cases hk : has k attrs with
    | false => simp only [assertAttr_missing]; exact foldl_err attrs r .attribute
    | true =>
      simp only [assertAttr_ok]
      apply ih
      obtain ⟨k', hk', hf⟩ := h
      simp only [List.mem_cons] at hk'
      rcases hk' with rfl | hk'
      · rw [hk] at hf; cases hf
      · exact ⟨k', hk', hf⟩

theorem assertValueType_eq (attrs : Attrs) (vtName : String) :
    assertValueType attrs vtName =
      match Gen.srAssertHead (attrs.lookup "ValueType").isSome
          (match attrs.lookup "ValueType", enumValue Gen.c13ValueTypes vtName with
            | some (.str s), some v => s == v
            | _, _ => false) with
      | .error e => .error e
      | .ok _ => match Gen.srRequiredAttrs.lookup vtName with
        | none => .error .key
        | some req => reqLoop attrs req := rfl

/-- a data set with the class's value type, a name and all required attributes is classified as that
class and left as it is -/
theorem classify_ok {cls : Cls} {vtName vt : String} {req : List String} (T : TableOk cls vtName vt req) (attrs : Attrs)
    (c : Coded) (hvt : attrs.lookup "ValueType" = some (.str vt)) (hname : attrs.lookup "ConceptNameCodeSequence" = some (.code c))
    (hreq : ∀ k ∈ req, has k attrs = true) : classify attrs = .ok (cls, attrs) := by
  have hA : assertValueType attrs vtName = .ok () := by
    rw [assertValueType_eq, hvt, T.value]
    simp only [Option.isSome_some, beq_self_eq_true, assertHead_ok, T.required]
    exact reqLoop_ok attrs req hreq
  have hB : baseAttrs cls attrs = .ok attrs := by
    unfold baseAttrs
    have h1 : has "ValueType" attrs = true := by unfold has; rw [hvt]; rfl
    have h2 : has "ConceptNameCodeSequence" attrs = true := by unfold has; rw [hname]; rfl
    rw [h1, h2, baseGuards_ok]
    simp [hname]
  unfold classify
  simp only [hvt, T.name, T.dispatch, T.ofPy]
  unfold classifyAs
  simp only [T.asserts, hA, hB]

/-- the same for the per-class entry point -/
theorem classifyAs_ok {cls : Cls} {vtName vt : String} {req : List String} (T : TableOk cls vtName vt req) (attrs : Attrs)
    (c : Coded) (hvt : attrs.lookup "ValueType" = some (.str vt)) (hname : attrs.lookup "ConceptNameCodeSequence" = some (.code c))
    (hreq : ∀ k ∈ req, has k attrs = true) : classifyAs cls attrs = .ok attrs := by
  have := classify_ok T attrs c hvt hname hreq
  unfold classify at this
  simp only [hvt, T.name, T.dispatch, T.ofPy] at this
  cases h : classifyAs cls attrs with
  | error e => rw [h] at this; cases this
  | ok a => rw [h] at this; cases this; rfl

/-! ## parse ∘ serialise -/

theorem serialise_attrs (i : Item) : (serialise i).attrs = i.attrs := by
  cases i with
  | mk c a k => simp [serialise, DS.attrs, Item.attrs]

theorem beq_except_eq {α} [DecidableEq α] {a b : Except ErrKind α} (h : (a == b) = true) : a = b := by
  simpa using h

theorem wfList_ctorAll (l : List Item) (h : wfList l = true) : ctorAll false true l = .ok () := by
  induction l with
  | nil => rfl
  | cons i r ih =>
    unfold wfList at h
    simp only [Bool.and_eq_true] at h
    have h1 : ctorItem false true i = .ok () := beq_except_eq h.1.1.2
    simp only [ctorAll, h1]
    exact ih h.2

mutual
theorem parse_serialise_wf : ∀ (it : Item), wf it = true → parse (serialise it) = .ok it
  | .mk cls attrs content => by
    intro h
    unfold wf at h
    simp only [Bool.and_eq_true] at h
    have hc : classify attrs = .ok (cls, attrs) := beq_except_eq h.1
    cases content with
    | none => simp [serialise, parse, hc]
    | some l =>
      have hl := parseList_serialiseList_wf l h.2
      have hk := wfList_ctorAll l h.2
      simp [serialise, parse, hc, hl, hk]
theorem parseList_serialiseList_wf : ∀ (l : List Item), wfList l = true → parseList (serialiseList l) = .ok l
  | [] => by intro _; simp [serialiseList, parseList]
  | i :: r => by
    intro h
    unfold wfList at h
    simp only [Bool.and_eq_true] at h
    have h1 : checkDataset i.attrs false true = .ok () := beq_except_eq h.1.1.1
    have h2 := parse_serialise_wf i h.1.2
    have h3 := parseList_serialiseList_wf r h.2
    simp [serialiseList, parseList, serialise_attrs, h1, h2, h3]
end

/-! ## what the constructors write -/

def relPart : Option String → Attrs
  | none => []
  | some r => [("RelationshipType", .str r)]

theorem base_ok {cls : Cls} {vtName vt : String} {req : List String} (T : TableOk cls vtName vt req) (name : Coded)
    (rel : Option String) (a : Attrs) (h : base cls name rel = .ok a) :
    a = [("ValueType", .str vt), ("ConceptNameCodeSequence", .code name)] ++ relPart rel ∧
    (∀ r, rel = some r → enumHas Gen.c13RelationshipTypes r = true) := by
  unfold base at h
  simp only [T.ctor, T.value] at h
  cases rel with
  | none => cases h; exact ⟨rfl, by simp⟩
  | some r =>
    simp only at h
    by_cases hr : enumHas Gen.c13RelationshipTypes r = true
    · rw [if_pos hr] at h; cases h; exact ⟨rfl, by intro r' e; cases e; exact hr⟩
    · rw [if_neg hr] at h; cases h

/-- an unknown relationship type is the only thing `ContentItem.__init__` refuses -/
theorem base_err {cls : Cls} {vtName vt : String} {req : List String} (T : TableOk cls vtName vt req) (name : Coded)
    (rel : Option String) (e : ErrKind) (h : base cls name rel = .error e) :
    e = .value ∧ ∃ r, rel = some r ∧ enumHas Gen.c13RelationshipTypes r = false := by
  unfold base at h
  simp only [T.ctor, T.value] at h
  cases rel with
  | none => cases h
  | some r =>
    simp only at h
    by_cases hr : enumHas Gen.c13RelationshipTypes r = true
    · rw [if_pos hr] at h; cases h
    · rw [if_neg hr] at h; cases h; exact ⟨rfl, r, rfl, by simpa using hr⟩

theorem lookup_vt (vt : String) (name : Coded) (rel : Option String) (e : Attrs) :
    ([("ValueType", AVal.str vt), ("ConceptNameCodeSequence", .code name)] ++ relPart rel ++ e).lookup "ValueType" = some (.str vt) := by
  simp

theorem lookup_name (vt : String) (name : Coded) (rel : Option String) (e : Attrs) :
    ([("ValueType", AVal.str vt), ("ConceptNameCodeSequence", .code name)] ++ relPart rel ++ e).lookup "ConceptNameCodeSequence"
      = some (.code name) := by
  simp [List.lookup]

theorem lookup_rel (vt : String) (name : Coded) (rel : Option String) (e : Attrs) (he : e.lookup "RelationshipType" = none) :
    ([("ValueType", AVal.str vt), ("ConceptNameCodeSequence", .code name)] ++ relPart rel ++ e).lookup "RelationshipType"
      = rel.map AVal.str := by
  cases rel <;> simp [List.lookup, relPart, he]

theorem lookup_extra (vt : String) (name : Coded) (rel : Option String) (e : Attrs) (k : String)
    (h : k ≠ "ValueType" ∧ k ≠ "ConceptNameCodeSequence" ∧ k ≠ "RelationshipType") :
    ([("ValueType", AVal.str vt), ("ConceptNameCodeSequence", .code name)] ++ relPart rel ++ e).lookup k = e.lookup k := by
  obtain ⟨h1, h2, h3⟩ := h
  have e1 : (k == "ValueType") = false := by simpa using h1
  have e2 : (k == "ConceptNameCodeSequence") = false := by simpa using h2
  have e3 : (k == "RelationshipType") = false := by simpa using h3
  cases rel <;> simp [List.lookup, relPart, e1, e2, e3]

/-- every constructor result (attributes = base ++ extra with the required ones among the extra) is well-formed -/
theorem built_wf {cls : Cls} {vtName vt : String} {req : List String} (T : TableOk cls vtName vt req) (name : Coded)
    (rel : Option String) (a extra : Attrs) (hb : base cls name rel = .ok a) (hreq : ∀ k ∈ req, has k extra = true) :
    classify (a ++ extra) = .ok (cls, a ++ extra) ∧ wf (.mk cls (a ++ extra) none) = true := by
  obtain ⟨ha, _⟩ := base_ok T name rel a hb
  have hc : classify (a ++ extra) = .ok (cls, a ++ extra) := by
    apply classify_ok T (a ++ extra) name
    · rw [ha]; exact lookup_vt vt name rel extra
    · rw [ha]; exact lookup_name vt name rel extra
    · intro k hk; exact has_append_right k a extra (hreq k hk)
  refine ⟨hc, ?_⟩
  unfold wf
  simp [hc]

theorem withAttrs_wf {cls : Cls} {vtName vt : String} {req : List String} (T : TableOk cls vtName vt req) (name : Coded)
    (rel : Option String) (extra : Attrs) (it : Item) (h : withAttrs cls name rel extra = .ok it)
    (hreq : ∀ k ∈ req, has k extra = true) : wf it = true := by
  unfold withAttrs at h
  cases hb : base cls name rel with
  | error e => rw [hb] at h; cases h
  | ok a =>
    rw [hb] at h
    cases h
    exact (built_wf T name rel a extra hb hreq).2

/-- shape of everything `withAttrs` returns -/
theorem withAttrs_shape {cls : Cls} {vtName vt : String} {req : List String} (T : TableOk cls vtName vt req) (name : Coded)
    (rel : Option String) (extra : Attrs) (it : Item) (h : withAttrs cls name rel extra = .ok it) :
    it = .mk cls ([("ValueType", .str vt), ("ConceptNameCodeSequence", .code name)] ++ relPart rel ++ extra) none := by
  unfold withAttrs at h
  cases hb : base cls name rel with
  | error e => rw [hb] at h; cases h
  | ok a =>
    rw [hb] at h
    cases h
    rw [(base_ok T name rel a hb).1]

theorem shape_name_rel (cls : Cls) (vt : String) (name : Coded) (rel : Option String) (extra : Attrs)
    (he : extra.lookup "RelationshipType" = none) :
    nameOf (.mk cls ([("ValueType", .str vt), ("ConceptNameCodeSequence", .code name)] ++ relPart rel ++ extra) none) = some name ∧
    relOf (.mk cls ([("ValueType", .str vt), ("ConceptNameCodeSequence", .code name)] ++ relPart rel ++ extra) none) = rel := by
  unfold nameOf relOf
  simp only [Item.attrs, lookup_name, lookup_rel vt name rel extra he]
  cases rel <;> simp

/-! ## reshape ∘ flatten -/

theorem chunk_flatten (d : Nat) (hd : 0 < d) (rows : List (List Rat)) (h : ∀ r ∈ rows, r.length = d) (fuel : Nat)
    (hf : rows.length ≤ fuel) : chunk d fuel rows.flatten = rows := by
  induction rows generalizing fuel with
  | nil => cases fuel <;> simp [chunk]
  | cons r rs ih =>
    cases fuel with
    | zero => simp at hf
    | succ fuel =>
      have hr : r.length = d := h r (by simp)
      have hne : (r ++ rs.flatten).isEmpty = false := by
        cases r with
        | nil => simp at hr; omega
        | cons x xs => rfl
      simp only [List.flatten_cons, chunk, hne, Bool.false_eq_true, ↓reduceIte]
      rw [← hr, List.take_left, List.drop_left, hr]
      rw [ih (fun q hq => h q (by simp [hq])) fuel (by simpa using hf)]

theorem length_flatten_ge (d : Nat) (hd : 0 < d) (rows : List (List Rat)) (h : ∀ r ∈ rows, r.length = d) :
    rows.length ≤ rows.flatten.length := by
  induction rows with
  | nil => simp
  | cons r rs ih =>
    have hr : r.length = d := h r (by simp)
    have := ih (fun q hq => h q (by simp [hq]))
    simp only [List.flatten_cons, List.length_cons, List.length_append]
    omega

theorem reshape_flatten (d : Nat) (hd : 0 < d) (rows : List (List Rat)) (h : ∀ r ∈ rows, r.length = d) :
    chunk d rows.flatten.length rows.flatten = rows :=
  chunk_flatten d hd rows h _ (length_flatten_ge d hd rows h)

theorem pairUp_flattenPairs (l : List (Int × Int)) : pairUp (flattenPairs l) = l := by
  induction l with
  | nil => rfl
  | cons p r ih => cases p; simp [flattenPairs, pairUp, ih]

theorem asList_stored {α} (l : List α) : asList (stored l) = l := by
  match l with
  | [] => rfl
  | [x] => rfl
  | x :: y :: r => rfl

/-! ## the coordinate rules as the (regenerated) constructors state them -/

/-- the count rule of PS3.3 C.18.6.1.2 as the constructor states it -/
def count2Ok (g : String) (n : Int) : Prop :=
  (g = "POINT" → n = 1) ∧ (g = "CIRCLE" → n = 2) ∧ (g = "ELLIPSE" → n = 4) ∧
  (g ≠ "POINT" → g ≠ "CIRCLE" → g ≠ "ELLIPSE" → n > 1)

theorem scoordCheck_iff (g : String) (n d : Int) :
    Gen.scoordCheck g n d = .ok true ↔ (d = 2 ∧ count2Ok g n) := by
  unfold Gen.scoordCheck count2Ok
  grind (splits := 40)

theorem scoordCheck_err (g : String) (n d : Int) (h : ¬ (d = 2 ∧ count2Ok g n)) :
    Gen.scoordCheck g n d = .error .value := by
  unfold Gen.scoordCheck count2Ok at *
  grind (splits := 40)

def count3Ok (g : String) (n : Int) : Prop :=
  (g = "POINT" → n = 1) ∧ (g = "ELLIPSE" → n = 4) ∧ (g = "ELLIPSOID" → n = 6) ∧
  (g ≠ "POINT" → g ≠ "ELLIPSE" → g ≠ "ELLIPSOID" → n > 1)

theorem scoord3dCheck_iff (g : String) (n d : Int) (closed cop : Bool) :
    Gen.scoord3dCheck g n d closed cop = .ok true ↔
      (d = 3 ∧ count3Ok g n ∧ (g = "POLYGON" → closed = true) ∧ ((g = "POLYGON" ∨ g = "ELLIPSE") → cop = true)) := by
  unfold Gen.scoord3dCheck count3Ok
  grind (splits := 60)

theorem scoord3dCheck_err (g : String) (n d : Int) (closed cop : Bool)
    (h : ¬ (d = 3 ∧ count3Ok g n ∧ (g = "POLYGON" → closed = true) ∧ ((g = "POLYGON" ∨ g = "ELLIPSE") → cop = true))) :
    Gen.scoord3dCheck g n d closed cop = .error .value := by
  unfold Gen.scoord3dCheck count3Ok at *
  grind (splits := 60)

/-! ## SCOORD / SCOORD3D / TCOORD constructors -/

theorem has_cons_self (k : String) (v : AVal) (r : Attrs) : has k ((k, v) :: r) = true := by
  simp [has, List.lookup]

theorem axes_ok {n : Nat} {b : Bool} (h : Gen.scoordAxesCheck n = .ok b) : n = 2 := by
  unfold Gen.scoordAxesCheck at h
  by_cases e : n = 2
  · exact e
  · have : ((n : Int) != 2) = true := by simpa using (show (n : Int) ≠ 2 by omega)
    simp [this] at h

theorem axes3d_ok {n : Nat} {b : Bool} (h : Gen.scoord3dAxesCheck n = .ok b) : n = 2 := by
  unfold Gen.scoord3dAxesCheck at h
  by_cases e : n = 2
  · exact e
  · have : ((n : Int) != 2) = true := by simpa using (show (n : Int) ≠ 2 by omega)
    simp [this] at h

theorem mkScoord_ok_iff (fl : Rat → Rat) (name : Coded) (gt : String) (p : Points) (origin fiducial rel : Option String) (it : Item)
    (h : mkScoord fl name gt p origin fiducial rel = .ok it) :
    ∃ g, enumName Gen.c13GraphicTypes gt = some g ∧ p.ndim = 2 ∧ Gen.scoordCheck g p.rows.length p.d = .ok true ∧
      (∀ o, origin = some o → enumHas Gen.c13PixelOrigins o = true) ∧
      it = .mk .scoord ([("ValueType", .str "SCOORD"), ("ConceptNameCodeSequence", .code name)] ++ relPart rel ++
        ([("GraphicType", .str gt), ("GraphicData", .rats (p.rows.flatten.map fl))] ++ optAttr "PixelOriginInterpretation" origin
          ++ optAttr "FiducialUID" fiducial)) none := by
  unfold mkScoord at h
  cases hb : base .scoord name rel with
  | error e => simp only [hb] at h; cases h
  | ok a =>
    simp only [hb] at h
    have ha := (base_ok tableOk_scoord name rel a hb).1
    cases hg : enumName Gen.c13GraphicTypes gt with
    | none => simp only [hg] at h; cases h
    | some g =>
      simp only [hg] at h
      cases hx : Gen.scoordAxesCheck p.ndim with
      | error e => simp only [hx] at h; cases h
      | ok bx =>
      simp only [hx] at h
      cases hc : Gen.scoordCheck g p.rows.length p.d with
      | error e => simp only [hc] at h; cases h
      | ok b =>
        simp only [hc] at h
        have hb' : b = true := by
          cases b
          · exfalso; revert hc; unfold Gen.scoordCheck; grind (splits := 40)
          · rfl
        subst hb'
        refine ⟨g, rfl, axes_ok hx, hc, ?_⟩
        cases origin with
        | none =>
          simp only at h
          cases h
          refine ⟨by simp, ?_⟩
          rw [ha]; simp [optAttr, List.append_assoc]
        | some o =>
          simp only at h
          by_cases ho : enumHas Gen.c13PixelOrigins o = true
          · rw [if_pos ho] at h
            cases h
            refine ⟨by intro o' e; cases e; exact ho, ?_⟩
            rw [ha]; simp [optAttr, List.append_assoc]
          · rw [if_neg ho] at h; cases h

theorem mkScoord3d_ok_iff (fl : Rat → Rat) (name : Coded) (gt : String) (p : Points) (fo : String) (fiducial rel : Option String) (it : Item)
    (h : mkScoord3d fl name gt p fo fiducial rel = .ok it) :
    ∃ g, enumName Gen.c13GraphicTypes3D gt = some g ∧ p.ndim = 2 ∧
      Gen.scoord3dCheck g p.rows.length p.d (firstEqLast p.rows) (coplanar p.rows) = .ok true ∧
      it = .mk .scoord3d ([("ValueType", .str "SCOORD3D"), ("ConceptNameCodeSequence", .code name)] ++ relPart rel ++
        ([("GraphicType", .str gt), ("GraphicData", .rats (p.rows.flatten.map fl)), ("ReferencedFrameOfReferenceUID", .str fo)]
          ++ optAttr "FiducialUID" fiducial)) none := by
  unfold mkScoord3d at h
  cases hb : base .scoord3d name rel with
  | error e => simp only [hb] at h; cases h
  | ok a =>
    simp only [hb] at h
    have ha := (base_ok tableOk_scoord3d name rel a hb).1
    cases hg : enumName Gen.c13GraphicTypes3D gt with
    | none => simp only [hg] at h; cases h
    | some g =>
      simp only [hg] at h
      cases hx : Gen.scoord3dAxesCheck p.ndim with
      | error e => simp only [hx] at h; cases h
      | ok bx =>
      simp only [hx] at h
      cases hc : Gen.scoord3dCheck g p.rows.length p.d (firstEqLast p.rows) (coplanar p.rows) with
      | error e => simp only [hc] at h; cases h
      | ok b =>
        simp only [hc] at h
        have hb' : b = true := by
          cases b
          · exfalso; revert hc; unfold Gen.scoord3dCheck; grind (splits := 60)
          · rfl
        subst hb'
        cases h
        refine ⟨g, rfl, axes3d_ok hx, hc, ?_⟩
        rw [ha]; simp [List.append_assoc]

def tcoordAttrs (ds : Rat → Rat) (rangeType : String) : TArg → Attrs
  | .positions l => [("TemporalRangeType", .str rangeType), ("ReferencedSamplePositions", .ints l)]
  | .offsets l => [("TemporalRangeType", .str rangeType), ("ReferencedTimeOffsets", .rats (l.map ds))]
  | .datetimes l => [("TemporalRangeType", .str rangeType), ("ReferencedDateTime", .strs l)]

/-- the time points as they are stored: offsets go through `DS(v, auto_format=True)` -/
def tcoordStored (ds : Rat → Rat) : TArg → TArg
  | .positions l => .positions l
  | .offsets l => .offsets (l.map ds)
  | .datetimes l => .datetimes l

theorem mkTcoord_ok_iff (ds : Rat → Rat) (name : Coded) (rt : String) (arg : Option TArg) (rel : Option String) (it : Item)
    (h : mkTcoord ds name rt arg rel = .ok it) :
    enumHas Gen.c13TemporalRangeTypes rt = true ∧ ∃ t, arg = some t ∧
      it = .mk .tcoord ([("ValueType", .str "TCOORD"), ("ConceptNameCodeSequence", .code name)] ++ relPart rel ++ tcoordAttrs ds rt t) none := by
  unfold mkTcoord at h
  cases hb : base .tcoord name rel with
  | error e => simp only [hb] at h; cases h
  | ok a =>
    simp only [hb] at h
    have ha := (base_ok tableOk_tcoord name rel a hb).1
    by_cases hr : enumHas Gen.c13TemporalRangeTypes rt = true
    · simp only [hr, Bool.not_true, Bool.false_eq_true, ↓reduceIte] at h
      refine ⟨hr, ?_⟩
      cases arg with
      | none => cases h
      | some t =>
        refine ⟨t, rfl, ?_⟩
        cases t <;> (simp only at h; cases h; rw [ha]; rfl)
    · have : enumHas Gen.c13TemporalRangeTypes rt = false := by simpa using hr
      simp [this] at h

/-- well-formedness of anything of the shape the constructors produce -/
theorem shape_wf {cls : Cls} {vtName vt : String} {req : List String} (T : TableOk cls vtName vt req) (name : Coded)
    (rel : Option String) (extra : Attrs) (hreq : ∀ k ∈ req, has k extra = true) :
    wf (.mk cls ([("ValueType", .str vt), ("ConceptNameCodeSequence", .code name)] ++ relPart rel ++ extra) none) = true := by
  have hc : classify ([("ValueType", .str vt), ("ConceptNameCodeSequence", .code name)] ++ relPart rel ++ extra)
      = .ok (cls, [("ValueType", .str vt), ("ConceptNameCodeSequence", .code name)] ++ relPart rel ++ extra) := by
    apply classify_ok T _ name (lookup_vt vt name rel extra) (lookup_name vt name rel extra)
    intro k hk
    exact has_append_right k _ extra (hreq k hk)
  unfold wf
  rw [hc]
  simp

/-! ## nested content -/

theorem classify_vt {attrs : Attrs} {cls : Cls} {attrs' : Attrs} (h : classify attrs = .ok (cls, attrs')) :
    ∃ vt, attrs.lookup "ValueType" = some (.str vt) ∧ (enumName Gen.c13ValueTypes vt).isSome = true := by
  unfold classify at h
  cases hv : attrs.lookup "ValueType" with
  | none => simp only [hv] at h; cases h
  | some v =>
    cases v with
    | str vt =>
      simp only [hv] at h
      cases hn : enumName Gen.c13ValueTypes vt with
      | none => simp only [hn] at h; cases h
      | some n => exact ⟨vt, rfl, by rw [hn]; rfl⟩
    | _ => simp only [hv] at h; cases h

theorem enumHas_of_enumName {tbl : List (String × String)} {v : String} (h : (enumName tbl v).isSome = true) :
    enumHas tbl v = true := by
  unfold enumName at h
  unfold enumHas
  cases hf : tbl.find? (fun p => p.2 == v) with
  | none => simp [hf] at h
  | some p =>
    have := List.find?_some hf
    have hm := List.mem_of_find?_eq_some hf
    exact List.any_eq_true.mpr ⟨p, hm, this⟩

/-- a well-formed item with a relationship type passes `_check_dataset` of a nested sequence -/
theorem checkDataset_of_wf (c : Item) (h : wf c = true) (hr : has "RelationshipType" c.attrs = true) :
    checkDataset c.attrs false true = .ok () := by
  cases c with
  | mk cls attrs content =>
    unfold wf at h
    simp only [Bool.and_eq_true] at h
    obtain ⟨vt, hv, hn⟩ := classify_vt (beq_except_eq h.1)
    simp only [Item.attrs] at hr ⊢
    unfold checkDataset
    simp only [hv, enumHas_of_enumName hn, Bool.not_true, Bool.false_eq_true, ↓reduceIte, hr, checkRel_ok]

/-! the constructor guards of a nested (non-root SR) sequence, over the regenerated `Gen.csCtorCheck` -/
theorem ctorCheck_child_ok (c : Bool) : Gen.csCtorCheck false true true true c = .ok true := by cases c <;> decide
theorem ctorCheck_child_norel (c : Bool) : Gen.csCtorCheck false true true false c = .error .attribute := by cases c <;> decide
theorem ctorCheck_nonsr_ok (c : Bool) : Gen.csCtorCheck false false true false c = .ok true := by cases c <;> decide
theorem ctorCheck_nonsr_rel (c : Bool) : Gen.csCtorCheck false false true true c = .error .attribute := by cases c <;> decide
theorem ctorCheck_root_ok : Gen.csCtorCheck true true true false true = .ok true := by decide
theorem ctorCheck_root_rel (c : Bool) : Gen.csCtorCheck true true true true c = .error .attribute := by cases c <;> decide
theorem ctorCheck_root_noncontainer : Gen.csCtorCheck true true true false false = .error .type := by decide

theorem ctorItem_child_iff (c : Item) :
    ctorItem false true c = .ok () ↔ (relValid c.attrs = true ∧ has "RelationshipType" c.attrs = true) := by
  unfold ctorItem
  cases hv : relValid c.attrs <;> cases hr : has "RelationshipType" c.attrs <;>
    simp [ctorCheck_child_ok, ctorCheck_child_norel]

theorem wfList_of_all (cs : List Item) (h : ∀ c ∈ cs, wf c = true ∧ ctorItem false true c = .ok ()) :
    wfList cs = true := by
  induction cs with
  | nil => rfl
  | cons c r ih =>
    unfold wfList
    have hc := h c (by simp)
    have hr := ((ctorItem_child_iff c).mp hc.2).2
    simp only [Bool.and_eq_true]
    refine ⟨⟨⟨?_, ?_⟩, hc.1⟩, ih (fun q hq => h q (by simp [hq]))⟩
    · rw [checkDataset_of_wf c hc.1 hr]; simp
    · rw [hc.2]; simp

theorem ctorAll_ok_iff (r sr : Bool) (cs : List Item) : ctorAll r sr cs = .ok () ↔ ∀ c ∈ cs, ctorItem r sr c = .ok () := by
  induction cs with
  | nil => simp [ctorAll]
  | cons c l ih =>
    unfold ctorAll
    cases hc : ctorItem r sr c with
    | error e => simp [hc]
    | ok u => cases u; simp [ih, hc]

theorem setContent_ok {it : Item} {cs : List Item} {it' : Item} (h : setContent it cs = .ok it') :
    it' = .mk it.cls it.attrs (some cs) ∧ ∀ c ∈ cs, ctorItem false true c = .ok () := by
  unfold setContent at h
  cases hc : ctorAll false true cs with
  | error e => simp only [hc] at h; cases h
  | ok u =>
    simp only [hc] at h
    cases h
    cases u
    exact ⟨rfl, (ctorAll_ok_iff false true cs).mp hc⟩

theorem setContent_wf {it : Item} {cs : List Item} {it' : Item} (hw : wf it = true) (hcs : ∀ c ∈ cs, wf c = true)
    (h : setContent it cs = .ok it') : wf it' = true := by
  obtain ⟨e, hr⟩ := setContent_ok h
  subst e
  cases it with
  | mk cls attrs content =>
    unfold wf at hw ⊢
    simp only [Bool.and_eq_true] at hw ⊢
    exact ⟨hw.1, wfList_of_all cs (fun c hc => ⟨hcs c hc, hr c hc⟩)⟩

/-- a child without relationship type (or with one outside the enumeration) is refused by the attribute setter -/
theorem setContent_refuses (it : Item) (cs : List Item)
    (h : ∃ c ∈ cs, has "RelationshipType" c.attrs = false ∨ relValid c.attrs = false) : ∀ it', setContent it cs ≠ .ok it' := by
  intro it' hok
  obtain ⟨_, hall⟩ := setContent_ok hok
  obtain ⟨c, hc, hbad⟩ := h
  have := (ctorItem_child_iff c).mp (hall c hc)
  rcases hbad with hb | hb
  · rw [this.2] at hb; cases hb
  · rw [this.1] at hb; cases hb

/-! ## everything the public constructors can build -/

inductive Built : Item → Prop
  | code (name value : Coded) (rel : Option String) (it : Item) : mkCode name value rel = .ok it → Built it
  | text (name : Coded) (v : String) (rel : Option String) (it : Item) : mkText name v rel = .ok it → Built it
  | pname (name : Coded) (v : String) (rel : Option String) (it : Item) : mkPname name v rel = .ok it → Built it
  | date (name : Coded) (v : String) (rel : Option String) (it : Item) : mkDate name v rel = .ok it → Built it
  | time (name : Coded) (v : String) (rel : Option String) (it : Item) : mkTime name v rel = .ok it → Built it
  | datetime (name : Coded) (v : String) (rel : Option String) (it : Item) : mkDateTime name v rel = .ok it → Built it
  | uidref (name : Coded) (v : String) (rel : Option String) (it : Item) : mkUidRef name v rel = .ok it → Built it
  | num (ds : Rat → Rat) (name : Coded) (v : Rat) (f : Bool) (unit : Coded) (q : Option Coded) (rel : Option String) (it : Item) :
      mkNum ds name v f unit q rel = .ok it → Built it
  | container (name : Coded) (c : Bool) (t : Option String) (rel : Option String) (it : Item) :
      mkContainer name c t rel = .ok it → Built it
  | composite (name : Coded) (c i : String) (rel : Option String) (it : Item) : mkComposite name c i rel = .ok it → Built it
  | image (name : Coded) (c i : String) (f s : Option (List Int)) (rel : Option String) (it : Item) :
      mkImage name c i f s rel = .ok it → Built it
  | waveform (name : Coded) (c i : String) (ch : Option (List (Int × Int))) (rel : Option String) (it : Item) :
      mkWaveform name c i ch rel = .ok it → Built it
  | scoord (fl : Rat → Rat) (name : Coded) (gt : String) (p : Points) (o f rel : Option String) (it : Item) :
      mkScoord fl name gt p o f rel = .ok it → Built it
  | scoord3d (fl : Rat → Rat) (name : Coded) (gt : String) (p : Points) (fo : String) (f rel : Option String) (it : Item) :
      mkScoord3d fl name gt p fo f rel = .ok it → Built it
  | tcoord (ds : Rat → Rat) (name : Coded) (rt : String) (arg : Option TArg) (rel : Option String) (it : Item) :
      mkTcoord ds name rt arg rel = .ok it → Built it
  | content (it : Item) (cs : List Item) (it' : Item) : Built it → (∀ c ∈ cs, Built c) → setContent it cs = .ok it' → Built it'

/-! every built item carries a relationship type of the enumeration, or none -/

theorem shape_relValid (cls : Cls) (vt : String) (name : Coded) (rel : Option String) (extra : Attrs)
    (hv : ∀ r, rel = some r → enumHas Gen.c13RelationshipTypes r = true) (he : extra.lookup "RelationshipType" = none) :
    relValid (Item.mk cls ([("ValueType", .str vt), ("ConceptNameCodeSequence", .code name)] ++ relPart rel ++ extra) none).attrs = true := by
  unfold relValid
  simp only [Item.attrs, lookup_rel vt name rel extra he]
  cases rel with
  | none => rfl
  | some r => simpa using hv r rfl

theorem withAttrs_relValid {cls : Cls} {vtName vt : String} {req : List String} (T : TableOk cls vtName vt req) (name : Coded)
    (rel : Option String) (extra : Attrs) (it : Item) (h : withAttrs cls name rel extra = .ok it)
    (he : extra.lookup "RelationshipType" = none) : relValid it.attrs = true := by
  have hs := withAttrs_shape T name rel extra it h
  unfold withAttrs at h
  cases hb : base cls name rel with
  | error e => rw [hb] at h; cases h
  | ok a =>
    rw [hs]
    exact shape_relValid cls vt name rel extra (base_ok T name rel a hb).2 he

theorem base_of_mkScoord {fl name gt p o f rel it} (h : mkScoord fl name gt p o f rel = .ok it) :
    ∃ a, base .scoord name rel = .ok a := by
  unfold mkScoord at h
  cases hb : base .scoord name rel with
  | error e => simp only [hb] at h; cases h
  | ok a => exact ⟨a, rfl⟩

theorem base_of_mkScoord3d {fl name gt p fo f rel it} (h : mkScoord3d fl name gt p fo f rel = .ok it) :
    ∃ a, base .scoord3d name rel = .ok a := by
  unfold mkScoord3d at h
  cases hb : base .scoord3d name rel with
  | error e => simp only [hb] at h; cases h
  | ok a => exact ⟨a, rfl⟩

theorem base_of_mkTcoord {ds name rt arg rel it} (h : mkTcoord ds name rt arg rel = .ok it) :
    ∃ a, base .tcoord name rel = .ok a := by
  unfold mkTcoord at h
  cases hb : base .tcoord name rel with
  | error e => simp only [hb] at h; cases h
  | ok a => exact ⟨a, rfl⟩

theorem Built.relValid {it : Item} (h : Built it) : relValid it.attrs = true := by
  induction h with
  | code name value rel it h => exact withAttrs_relValid tableOk_code name rel _ it h (by simp [List.lookup])
  | text name v rel it h => exact withAttrs_relValid tableOk_text name rel _ it h (by simp [List.lookup])
  | pname name v rel it h => exact withAttrs_relValid tableOk_pname name rel _ it h (by simp [List.lookup])
  | date name v rel it h => exact withAttrs_relValid tableOk_date name rel _ it h (by simp [List.lookup])
  | time name v rel it h => exact withAttrs_relValid tableOk_time name rel _ it h (by simp [List.lookup])
  | datetime name v rel it h => exact withAttrs_relValid tableOk_datetime name rel _ it h (by simp [List.lookup])
  | uidref name v rel it h => exact withAttrs_relValid tableOk_uidref name rel _ it h (by simp [List.lookup])
  | num ds name v f unit q rel it h => exact withAttrs_relValid tableOk_num name rel _ it h (by cases q <;> simp [List.lookup])
  | container name c t rel it h => exact withAttrs_relValid tableOk_container name rel _ it h (by cases t <;> simp [List.lookup])
  | composite name c i rel it h => exact withAttrs_relValid tableOk_composite name rel _ it h (by simp [List.lookup])
  | image name c i f s rel it h => exact withAttrs_relValid tableOk_image name rel _ it h (by simp [List.lookup])
  | waveform name c i ch rel it h => exact withAttrs_relValid tableOk_waveform name rel _ it h (by simp [List.lookup])
  | scoord fl name gt p o f rel it h =>
    obtain ⟨a, hb⟩ := base_of_mkScoord h
    obtain ⟨g, _, _, _, _, e⟩ := mkScoord_ok_iff fl name gt p o f rel it h
    rw [e]
    exact shape_relValid _ _ name rel _ (base_ok tableOk_scoord name rel a hb).2 (by cases o <;> cases f <;> simp [List.lookup, optAttr])
  | scoord3d fl name gt p fo f rel it h =>
    obtain ⟨a, hb⟩ := base_of_mkScoord3d h
    obtain ⟨g, _, _, _, e⟩ := mkScoord3d_ok_iff fl name gt p fo f rel it h
    rw [e]
    exact shape_relValid _ _ name rel _ (base_ok tableOk_scoord3d name rel a hb).2 (by cases f <;> simp [List.lookup, optAttr])
  | tcoord ds name rt arg rel it h =>
    obtain ⟨a, hb⟩ := base_of_mkTcoord h
    obtain ⟨_, t, _, e⟩ := mkTcoord_ok_iff ds name rt arg rel it h
    rw [e]
    exact shape_relValid _ _ name rel _ (base_ok tableOk_tcoord name rel a hb).2 (by cases t <;> simp [List.lookup, tcoordAttrs])
  | content it cs it' _ _ h ih _ =>
    obtain ⟨e, _⟩ := setContent_ok h
    rw [e]
    cases it with
    | mk c a k => exact ih

theorem Built.wf {it : Item} (h : Built it) : wf it = true := by
  induction h with
  | code name value rel it h => exact withAttrs_wf tableOk_code name rel _ it h (by simp [has, List.lookup])
  | text name v rel it h => exact withAttrs_wf tableOk_text name rel _ it h (by simp [has, List.lookup])
  | pname name v rel it h => exact withAttrs_wf tableOk_pname name rel _ it h (by simp [has, List.lookup])
  | date name v rel it h => exact withAttrs_wf tableOk_date name rel _ it h (by simp [has, List.lookup])
  | time name v rel it h => exact withAttrs_wf tableOk_time name rel _ it h (by simp [has, List.lookup])
  | datetime name v rel it h => exact withAttrs_wf tableOk_datetime name rel _ it h (by simp [has, List.lookup])
  | uidref name v rel it h => exact withAttrs_wf tableOk_uidref name rel _ it h (by simp [has, List.lookup])
  | num ds name v f unit q rel it h => exact withAttrs_wf tableOk_num name rel _ it h (by simp [has, List.lookup])
  | container name c t rel it h => exact withAttrs_wf tableOk_container name rel _ it h (by simp [has, List.lookup])
  | composite name c i rel it h => exact withAttrs_wf tableOk_composite name rel _ it h (by simp [has, List.lookup])
  | image name c i f s rel it h => exact withAttrs_wf tableOk_image name rel _ it h (by simp [has, List.lookup])
  | waveform name c i ch rel it h => exact withAttrs_wf tableOk_waveform name rel _ it h (by simp [has, List.lookup])
  | scoord fl name gt p o f rel it h =>
    obtain ⟨g, _, _, _, _, e⟩ := mkScoord_ok_iff fl name gt p o f rel it h
    rw [e]
    exact shape_wf tableOk_scoord name rel _ (by simp [has, List.lookup])
  | scoord3d fl name gt p fo f rel it h =>
    obtain ⟨g, _, _, _, e⟩ := mkScoord3d_ok_iff fl name gt p fo f rel it h
    rw [e]
    exact shape_wf tableOk_scoord3d name rel _ (by simp [has, List.lookup])
  | tcoord ds name rt arg rel it h =>
    obtain ⟨_, t, _, e⟩ := mkTcoord_ok_iff ds name rt arg rel it h
    rw [e]
    exact shape_wf tableOk_tcoord name rel _ (by cases t <;> simp [has, List.lookup, tcoordAttrs])
  | content it cs it' _ _ h ih ihc => exact setContent_wf ih ihc h

/-! ## refusals on parsing -/

theorem classifyAs_missing {cls : Cls} {vtName vt : String} {req : List String} (T : TableOk cls vtName vt req) (attrs : Attrs)
    (hvt : attrs.lookup "ValueType" = some (.str vt)) (h : ∃ k ∈ req, has k attrs = false) :
    classifyAs cls attrs = .error .attribute := by
  unfold classifyAs
  simp only [T.asserts]
  rw [assertValueType_eq, hvt, T.value]
  simp only [Option.isSome_some, beq_self_eq_true, assertHead_ok, T.required, reqLoop_missing attrs req h]

theorem classify_missing {cls : Cls} {vtName vt : String} {req : List String} (T : TableOk cls vtName vt req) (attrs : Attrs)
    (hvt : attrs.lookup "ValueType" = some (.str vt)) (h : ∃ k ∈ req, has k attrs = false) :
    classify attrs = .error .attribute := by
  unfold classify
  simp only [hvt, T.name, T.dispatch, T.ofPy, classifyAs_missing T attrs hvt h]

theorem classifyAs_mismatch {cls : Cls} {vtName vt : String} {req : List String} (T : TableOk cls vtName vt req) (attrs : Attrs)
    (vt' : String) (hvt : attrs.lookup "ValueType" = some (.str vt')) (hne : vt' ≠ vt) :
    classifyAs cls attrs = .error .value := by
  unfold classifyAs
  simp only [T.asserts]
  rw [assertValueType_eq, hvt, T.value]
  have : (vt' == vt) = false := by simpa using hne
  simp only [Option.isSome_some, this, assertHead_mismatch]

theorem classifyAs_noValueType {cls : Cls} {vtName vt : String} {req : List String} (T : TableOk cls vtName vt req) (attrs : Attrs)
    (hvt : attrs.lookup "ValueType" = none) : classifyAs cls attrs = .error .attribute := by
  unfold classifyAs
  simp only [T.asserts]
  rw [assertValueType_eq, hvt]
  simp only [Option.isSome_none, assertHead_noVt]

theorem classify_noValueType (attrs : Attrs) (hvt : attrs.lookup "ValueType" = none) : classify attrs = .error .attribute := by
  unfold classify; simp only [hvt]

theorem classify_unknownValueType (attrs : Attrs) (vt : String) (hvt : attrs.lookup "ValueType" = some (.str vt))
    (hn : enumName Gen.c13ValueTypes vt = none) : classify attrs = .error .value := by
  unfold classify; simp only [hvt, hn]

/-- a name-less data set of a class whose name is mandatory -/
theorem classifyAs_noName {cls : Cls} {vtName vt : String} {req : List String} (T : TableOk cls vtName vt req) (attrs : Attrs)
    (hvt : attrs.lookup "ValueType" = some (.str vt)) (hreq : ∀ k ∈ req, has k attrs = true)
    (hn : has "ConceptNameCodeSequence" attrs = false) (hopt : Gen.c13OptionalNameClasses.contains cls.pyName = false) :
    classifyAs cls attrs = .error .attribute := by
  unfold classifyAs
  simp only [T.asserts]
  rw [assertValueType_eq, hvt, T.value]
  simp only [Option.isSome_some, beq_self_eq_true, assertHead_ok, T.required, reqLoop_ok attrs req hreq]
  unfold baseAttrs
  have h1 : has "ValueType" attrs = true := by unfold has; rw [hvt]; rfl
  simp only [h1, hn, hopt, baseGuards_noName_required]

theorem parse_of_classify_err (attrs : Attrs) (content : Option (List DS)) (e : ErrKind) (h : classify attrs = .error e) :
    parse (.mk attrs content) = .error e := by
  unfold parse; simp only [h]

theorem parseAs_of_classifyAs_err (cls : Cls) (attrs : Attrs) (content : Option (List DS)) (e : ErrKind)
    (h : classifyAs cls attrs = .error e) : parseAs cls (.mk attrs content) = .error e := by
  unfold parseAs; simp only [h]

theorem checkDataset_noRel (attrs : Attrs) (vt : String) (hvt : attrs.lookup "ValueType" = some (.str vt))
    (hk : enumHas Gen.c13ValueTypes vt = true) (hr : has "RelationshipType" attrs = false) :
    checkDataset attrs false true = .error .attribute := by
  unfold checkDataset
  simp only [hvt, hk, Bool.not_true, Bool.false_eq_true, ↓reduceIte, hr, checkRel_missing]

/-! ## exact coplanarity -/

theorem coplanar_false_of_det (rows : List (List Rat)) (p0 : List Rat) (rest : List (List Rat)) (hrows : rows = p0 :: rest)
    (hlen : 4 ≤ rows.length) (a b c : List Rat) (ha : a ∈ rows) (hb : b ∈ rows) (hc : c ∈ rows)
    (hdet : det3 (sub3 a p0) (sub3 b p0) (sub3 c p0) ≠ 0) : coplanar rows = false := by
  subst hrows
  unfold coplanar
  simp only [Bool.or_eq_false_iff]
  refine ⟨by simpa using hlen, ?_⟩
  rw [Bool.eq_false_iff]
  intro hall
  have h1 := List.all_eq_true.mp hall a ha
  have h2 := List.all_eq_true.mp h1 b hb
  have h3 := List.all_eq_true.mp h2 c hc
  exact hdet (by simpa using h3)

theorem coplanar_small (rows : List (List Rat)) (h : rows.length < 4) : coplanar rows = true := by
  unfold coplanar
  cases rows with
  | nil => rfl
  | cons p r =>
    have : decide ((p :: r).length < 4) = true := by simpa using h
    simp only [this, Bool.true_or]

theorem classifyAs_of_classify {attrs attrs' : Attrs} {cls : Cls} (h : classify attrs = .ok (cls, attrs')) :
    classifyAs cls attrs = .ok attrs' := by
  unfold classify at h
  split at h
  · cases h
  · split at h
    · cases h
    · split at h
      · cases h
      · split at h
        · cases h
        · split at h
          · cases h
          · rename_i c a hc
            cases h
            exact hc
  · cases h

/-! ## keyword tables regenerated from the constructors and the accessors (`T13k`) -/

/-- top-level keywords (with "always written") the regenerated tables give for a class, base class included -/
def topWrites (cls : Cls) : List (String × Bool) :=
  (Gen.srCtorWritesTop.filter (fun r => r.1 == "ContentItem" || r.1 == cls.pyName)).map (fun r => (r.2.1, r.2.2))

/-- the keys of an item agree with the regenerated constructor table: every always-written keyword is there,
and nothing is there that the constructor of that class does not write -/
def writesOkB (cls : Cls) (keys : List String) : Bool :=
  (topWrites cls).all (fun r => !r.2 || keys.contains r.1) && keys.all (fun k => (topWrites cls).any (fun r => r.1 == k))

def keysOf (it : Item) : List String := it.attrs.map (·.1)

/-- every attribute `_assert_value_type` requires of a value type is written by the constructor of the class the
value type dispatches to, on every path (both tables regenerated) -/
theorem required_subset_written :
    Gen.srRequiredAttrs.all (fun r =>
      match Gen.srDispatch.lookup r.1 with
      | none => false
      | some c => r.2.all (fun k => Gen.srCtorWritesTop.any (fun w => w.1 == c && w.2.1 == k && w.2.2))) = true := by
  decide

/-- every attribute an accessor reads is one the constructor of its class (or `ContentItem.__init__`) writes -/
theorem reads_subset_writes :
    Gen.srAccessorReads.all (fun a =>
      a.2.2.all (fun k =>
        Gen.srCtorWritesTop.any (fun w => (w.1 == a.1 || w.1 == "ContentItem") && w.2.1 == k) ||
        Gen.srCtorWritesNested.any (fun w => w.1 == a.1 && w.2.2.1 == k))) = true := by
  decide

theorem keys_shape (cls : Cls) (vt : String) (name : Coded) (rel : Option String) (extra : Attrs) :
    keysOf (.mk cls ([("ValueType", .str vt), ("ConceptNameCodeSequence", .code name)] ++ relPart rel ++ extra) none)
      = ["ValueType", "ConceptNameCodeSequence"] ++ (match rel with | none => [] | some _ => ["RelationshipType"]) ++ extra.map (·.1) := by
  cases rel <;> simp [keysOf, Item.attrs, relPart]


macro "keys_decide" : tactic =>
  `(tactic| (simp only [List.map, List.cons_append, List.nil_append, List.append_nil, List.append_assoc, optAttr, tcoordAttrs, Item.cls]; decide))

theorem writes_withAttrs {cls : Cls} {vtName vt : String} {req : List String} (T : TableOk cls vtName vt req) (name : Coded)
    (rel : Option String) (extra : Attrs) (it : Item) (h : withAttrs cls name rel extra = .ok it)
    (hk : ∀ r : Option String, writesOkB cls (["ValueType", "ConceptNameCodeSequence"] ++
      (match r with | none => [] | some _ => ["RelationshipType"]) ++ extra.map (·.1)) = true) :
    it.cls = cls ∧ writesOkB cls (keysOf it) = true := by
  rw [withAttrs_shape T name rel extra it h, keys_shape]
  exact ⟨rfl, hk rel⟩

theorem Built.writes {it : Item} (h : Built it) : writesOkB it.cls (keysOf it) = true := by
  induction h with
  | code name value rel it h =>
    obtain ⟨e, k⟩ := writes_withAttrs tableOk_code name rel _ it h (by intro r; cases r <;> keys_decide); rw [e]; exact k
  | text name v rel it h =>
    obtain ⟨e, k⟩ := writes_withAttrs tableOk_text name rel _ it h (by intro r; cases r <;> keys_decide); rw [e]; exact k
  | pname name v rel it h =>
    obtain ⟨e, k⟩ := writes_withAttrs tableOk_pname name rel _ it h (by intro r; cases r <;> keys_decide); rw [e]; exact k
  | date name v rel it h =>
    obtain ⟨e, k⟩ := writes_withAttrs tableOk_date name rel _ it h (by intro r; cases r <;> keys_decide); rw [e]; exact k
  | time name v rel it h =>
    obtain ⟨e, k⟩ := writes_withAttrs tableOk_time name rel _ it h (by intro r; cases r <;> keys_decide); rw [e]; exact k
  | datetime name v rel it h =>
    obtain ⟨e, k⟩ := writes_withAttrs tableOk_datetime name rel _ it h (by intro r; cases r <;> keys_decide); rw [e]; exact k
  | uidref name v rel it h =>
    obtain ⟨e, k⟩ := writes_withAttrs tableOk_uidref name rel _ it h (by intro r; cases r <;> keys_decide); rw [e]; exact k
  | num ds name v f unit q rel it h =>
    obtain ⟨e, k⟩ := writes_withAttrs tableOk_num name rel _ it h (by intro r; cases r <;> cases q <;> keys_decide); rw [e]; exact k
  | container name c t rel it h =>
    obtain ⟨e, k⟩ := writes_withAttrs tableOk_container name rel _ it h (by intro r; cases r <;> cases t <;> keys_decide); rw [e]; exact k
  | composite name c i rel it h =>
    obtain ⟨e, k⟩ := writes_withAttrs tableOk_composite name rel _ it h (by intro r; cases r <;> keys_decide); rw [e]; exact k
  | image name c i f s rel it h =>
    obtain ⟨e, k⟩ := writes_withAttrs tableOk_image name rel _ it h (by intro r; cases r <;> keys_decide); rw [e]; exact k
  | waveform name c i ch rel it h =>
    obtain ⟨e, k⟩ := writes_withAttrs tableOk_waveform name rel _ it h (by intro r; cases r <;> keys_decide); rw [e]; exact k
  | scoord fl name gt p o f rel it h =>
    obtain ⟨g, _, _, _, _, e⟩ := mkScoord_ok_iff fl name gt p o f rel it h
    rw [e, keys_shape]
    cases rel <;> cases o <;> cases f <;> keys_decide
  | scoord3d fl name gt p fo f rel it h =>
    obtain ⟨g, _, _, _, e⟩ := mkScoord3d_ok_iff fl name gt p fo f rel it h
    rw [e, keys_shape]
    cases rel <;> cases f <;> keys_decide
  | tcoord ds name rt arg rel it h =>
    obtain ⟨_, t, _, e⟩ := mkTcoord_ok_iff ds name rt arg rel it h
    rw [e, keys_shape]
    cases rel <;> cases t <;> keys_decide
  | content it cs it' _ _ h ih _ =>
    obtain ⟨e, _⟩ := setContent_ok h
    rw [e]
    cases it with
    | mk c a k => exact ih

/-- the attributes of the item itself that the regenerated table says a property reads -/
def readKeys (c p : String) : List String :=
  match Gen.srAccessorReads.find? (fun a => a.1 == c && a.2.1 == p) with
  | none => []
  | some a => a.2.2.filter (fun k => Gen.srCtorWritesTop.any (fun w => (w.1 == c || w.1 == "ContentItem") && w.2.1 == k))

/-- … and the attributes of the single item of a sequence attribute -/
def nestedReadKeys (c p : String) : List String :=
  match Gen.srAccessorReads.find? (fun a => a.1 == c && a.2.1 == p) with
  | none => []
  | some a => a.2.2.filter (fun k => Gen.srCtorWritesNested.any (fun w => w.1 == c && w.2.2.1 == k))

def SameOn (keys : List String) (it it' : Item) : Prop := ∀ k ∈ keys, it.attrs.lookup k = it'.attrs.lookup k

/-- every model accessor is a function of exactly the attributes its source property reads -/
theorem accessors_read_regenerated_keys (it it' : Item) :
    (SameOn (readKeys "ContentItem" "name") it it' → nameOf it = nameOf it') ∧
    (SameOn (readKeys "ContentItem" "relationship_type") it it' → relOf it = relOf it') ∧
    (SameOn (readKeys "CodeContentItem" "value") it it' → codeValue it = codeValue it') ∧
    (SameOn (readKeys "TextContentItem" "value") it it' → strValue "TextValue" it = strValue "TextValue" it') ∧
    (SameOn (readKeys "PnameContentItem" "value") it it' → strValue "PersonName" it = strValue "PersonName" it') ∧
    (SameOn (readKeys "DateContentItem" "value") it it' → strValue "Date" it = strValue "Date" it') ∧
    (SameOn (readKeys "TimeContentItem" "value") it it' → strValue "Time" it = strValue "Time" it') ∧
    (SameOn (readKeys "DateTimeContentItem" "value") it it' → strValue "DateTime" it = strValue "DateTime" it') ∧
    (SameOn (readKeys "UIDRefContentItem" "value") it it' → strValue "UID" it = strValue "UID" it') ∧
    (SameOn (readKeys "NumContentItem" "value") it it' → numValue it = numValue it') ∧
    (SameOn (readKeys "NumContentItem" "unit") it it' → numUnit it = numUnit it') ∧
    (SameOn (readKeys "NumContentItem" "qualifier") it it' → numQualifier it = numQualifier it') ∧
    (SameOn (readKeys "ContainerContentItem" "template_id") it it' → containerTemplate it = containerTemplate it') ∧
    (SameOn (readKeys "CompositeContentItem" "value") it it' → refValue it = refValue it') ∧
    (SameOn (readKeys "ImageContentItem" "value") it it' → refValue it = refValue it') ∧
    (SameOn (readKeys "WaveformContentItem" "value") it it' → refValue it = refValue it') ∧
    (SameOn (readKeys "ImageContentItem" "referenced_frame_numbers") it it' → imageFrames it = imageFrames it') ∧
    (SameOn (readKeys "ImageContentItem" "referenced_segment_numbers") it it' → imageSegments it = imageSegments it') ∧
    (SameOn (readKeys "WaveformContentItem" "referenced_waveform_channels") it it' → waveformChannels it = waveformChannels it') ∧
    (SameOn (readKeys "ScoordContentItem" "value") it it' → scoordValue it = scoordValue it') ∧
    (SameOn (readKeys "ScoordContentItem" "graphic_type") it it' → strValue "GraphicType" it = strValue "GraphicType" it') ∧
    (SameOn (readKeys "Scoord3DContentItem" "value") it it' → scoord3dValue it = scoord3dValue it') ∧
    (SameOn (readKeys "Scoord3DContentItem" "graphic_type") it it' → strValue "GraphicType" it = strValue "GraphicType" it') ∧
    (SameOn (readKeys "Scoord3DContentItem" "frame_of_reference_uid") it it' →
      strValue "ReferencedFrameOfReferenceUID" it = strValue "ReferencedFrameOfReferenceUID" it') ∧
    (SameOn (readKeys "TcoordContentItem" "value") it it' → tcoordValue it = tcoordValue it') ∧
    (SameOn (readKeys "TcoordContentItem" "temporal_range_type") it it' →
      strValue "TemporalRangeType" it = strValue "TemporalRangeType" it') := by
  refine ⟨?_, ?_, ?_, ?_, ?_, ?_, ?_, ?_, ?_, ?_, ?_, ?_, ?_, ?_, ?_, ?_, ?_, ?_, ?_, ?_, ?_, ?_, ?_, ?_, ?_, ?_⟩ <;> intro h
  · have := h "ConceptNameCodeSequence" (by decide); unfold nameOf; rw [this]
  · have := h "RelationshipType" (by decide); unfold relOf; rw [this]
  · have := h "ConceptCodeSequence" (by decide); unfold codeValue; rw [this]
  · have := h "TextValue" (by decide); unfold strValue; rw [this]
  · have := h "PersonName" (by decide); unfold strValue; rw [this]
  · have := h "Date" (by decide); unfold strValue; rw [this]
  · have := h "Time" (by decide); unfold strValue; rw [this]
  · have := h "DateTime" (by decide); unfold strValue; rw [this]
  · have := h "UID" (by decide); unfold strValue; rw [this]
  · have := h "MeasuredValueSequence" (by decide); unfold numValue; rw [this]
  · have := h "MeasuredValueSequence" (by decide); unfold numUnit; rw [this]
  · have := h "NumericValueQualifierCodeSequence" (by decide); unfold numQualifier; rw [this]
  · have := h "ContentTemplateSequence" (by decide); unfold containerTemplate; rw [this]
  · have := h "ReferencedSOPSequence" (by decide); unfold refValue; rw [this]
  · have := h "ReferencedSOPSequence" (by decide); unfold refValue; rw [this]
  · have := h "ReferencedSOPSequence" (by decide); unfold refValue; rw [this]
  · have := h "ReferencedSOPSequence" (by decide); unfold imageFrames; rw [this]
  · have := h "ReferencedSOPSequence" (by decide); unfold imageSegments; rw [this]
  · have := h "ReferencedSOPSequence" (by decide); unfold waveformChannels; rw [this]
  · have := h "GraphicData" (by decide); unfold scoordValue graphicData; rw [this]
  · have := h "GraphicType" (by decide); unfold strValue; rw [this]
  · have := h "GraphicData" (by decide); unfold scoord3dValue graphicData; rw [this]
  · have := h "GraphicType" (by decide); unfold strValue; rw [this]
  · have := h "ReferencedFrameOfReferenceUID" (by decide); unfold strValue; rw [this]
  · have h1 := h "ReferencedSamplePositions" (by decide)
    have h2 := h "ReferencedTimeOffsets" (by decide)
    have h3 := h "ReferencedDateTime" (by decide)
    unfold tcoordValue; rw [h1, h2, h3]
  · have := h "TemporalRangeType" (by decide); unfold strValue; rw [this]

/-- the fields of the structured one-item sequences the accessors look at (`AVal.measured num fp unit`,
`AVal.template _ id`, `AVal.sop cls inst frames segments channels`) are the nested keywords the source reads -/
theorem nested_reads_fingerprint :
    nestedReadKeys "NumContentItem" "value" = ["FloatingPointValue", "NumericValue"] ∧
    nestedReadKeys "NumContentItem" "unit" = ["MeasurementUnitsCodeSequence"] ∧
    nestedReadKeys "ContainerContentItem" "template_id" = ["TemplateIdentifier"] ∧
    nestedReadKeys "CompositeContentItem" "value" = ["ReferencedSOPClassUID", "ReferencedSOPInstanceUID"] ∧
    nestedReadKeys "ImageContentItem" "value" = ["ReferencedSOPClassUID", "ReferencedSOPInstanceUID"] ∧
    nestedReadKeys "WaveformContentItem" "value" = ["ReferencedSOPClassUID", "ReferencedSOPInstanceUID"] ∧
    nestedReadKeys "ImageContentItem" "referenced_frame_numbers" = ["ReferencedFrameNumber"] ∧
    nestedReadKeys "ImageContentItem" "referenced_segment_numbers" = ["ReferencedSegmentNumber"] ∧
    nestedReadKeys "WaveformContentItem" "referenced_waveform_channels" = ["ReferencedWaveformChannels"] := by
  decide

/-- … and the nested keywords the constructors write are the fields those structured values have -/
theorem nested_writes_fingerprint :
    Gen.srCtorWritesNested =
      [("NumContentItem", "MeasuredValueSequence", "NumericValue", true),
       ("NumContentItem", "MeasuredValueSequence", "FloatingPointValue", false),
       ("NumContentItem", "MeasuredValueSequence", "MeasurementUnitsCodeSequence", true),
       ("ContainerContentItem", "ContentTemplateSequence", "MappingResource", false),
       ("ContainerContentItem", "ContentTemplateSequence", "TemplateIdentifier", false),
       ("CompositeContentItem", "ReferencedSOPSequence", "ReferencedSOPClassUID", true),
       ("CompositeContentItem", "ReferencedSOPSequence", "ReferencedSOPInstanceUID", true),
       ("ImageContentItem", "ReferencedSOPSequence", "ReferencedSOPClassUID", true),
       ("ImageContentItem", "ReferencedSOPSequence", "ReferencedSOPInstanceUID", true),
       ("ImageContentItem", "ReferencedSOPSequence", "ReferencedFrameNumber", false),
       ("ImageContentItem", "ReferencedSOPSequence", "ReferencedSegmentNumber", false),
       ("WaveformContentItem", "ReferencedSOPSequence", "ReferencedSOPClassUID", true),
       ("WaveformContentItem", "ReferencedSOPSequence", "ReferencedSOPInstanceUID", true),
       ("WaveformContentItem", "ReferencedSOPSequence", "ReferencedWaveformChannels", false)] := by
  decide

theorem has_iff_mem_keys (k : String) (a : Attrs) : has k a = true ↔ k ∈ a.map (·.1) := by
  unfold has
  induction a with
  | nil => simp [List.lookup]
  | cons p r ih =>
    obtain ⟨k', v⟩ := p
    simp only [List.lookup, List.map_cons, List.mem_cons]
    by_cases h : k = k'
    · subst h; simp
    · have : (k == k') = false := by simpa using h
      simp [this, ih, h]

theorem mem_of_lookup {β} (k : String) (v : β) (l : List (String × β)) (h : l.lookup k = some v) : (k, v) ∈ l := by
  induction l with
  | nil => simp [List.lookup] at h
  | cons p r ih =>
    obtain ⟨k', v'⟩ := p
    simp only [List.lookup] at h
    by_cases e : k = k'
    · subst e; simp at h; subst h; simp
    · have : (k == k') = false := by simpa using e
      simp only [this] at h
      exact List.mem_cons_of_mem _ (ih h)

/-- the premise of the round trip, derived from the regenerated tables alone: the attributes
`_assert_value_type` demands of the item's value type are among those its constructor always writes, and a
built item carries all of those -/
theorem required_present_of_tables {it : Item} (h : Built it) {vtName vt : String} {req : List String}
    (T : TableOk it.cls vtName vt req) : ∀ k ∈ req, has k it.attrs = true := by
  intro k hk
  have hw := h.writes
  unfold writesOkB at hw
  simp only [Bool.and_eq_true] at hw
  have hall := List.all_eq_true.mp hw.1
  have hreq := List.all_eq_true.mp required_subset_written (vtName, req) (by
    exact mem_of_lookup _ _ _ T.required)
  simp only [T.dispatch] at hreq
  have hk' := List.all_eq_true.mp hreq k hk
  obtain ⟨w, hwm, hwc⟩ := List.any_eq_true.mp hk'
  simp only [Bool.and_eq_true, beq_iff_eq] at hwc
  have hrow : (k, true) ∈ topWrites it.cls := by
    unfold topWrites
    refine List.mem_map.mpr ⟨w, List.mem_filter.mpr ⟨hwm, ?_⟩, ?_⟩
    · simp [hwc.1.1]
    · obtain ⟨w1, w2, w3⟩ := w
      simp only at hwc
      simp [hwc.1.2, hwc.2]
  have := hall (k, true) hrow
  simp only [Bool.not_true, Bool.false_or] at this
  rw [has_iff_mem_keys]
  simpa [keysOf] using this

end HdVerif.SRItemsLemmas
