import HdVerif.Proofs.Tiling
import Mathlib.Data.List.Nodup
import Mathlib.Data.List.Perm.Basic
/-! The row-major tile grid: membership, covering of every matrix pixel by exactly one tile, counting. -/
namespace HdVerif.TilingLemmas
open HdVerif HdVerif.Gen HdVerif.Tiling

theorem mem_iota (n k : Int) : k ∈ iota n ↔ 0 ≤ k ∧ k < n := by
  unfold iota
  simp only [List.mem_map, List.mem_range]
  constructor
  · rintro ⟨m, hm, rfl⟩
    omega
  · rintro ⟨h0, h1⟩
    exact ⟨k.toNat, by omega, by omega⟩

theorem iota_nodup (n : Int) : (iota n).Nodup := by
  unfold iota
  apply List.Nodup.map
  · intro a b h; simpa using h
  · exact List.nodup_range

theorem iota_length (n : Int) : ((iota n).length : Int) = max n 0 := by
  unfold iota
  simp

theorem iota_succ (m : Nat) : iota ((m : Int) + 1) = iota m ++ [(m : Int)] := by
  unfold iota
  have : ((m : Int) + 1).toNat = m + 1 := by omega
  rw [this, List.range_succ]
  simp

/-! ## One axis -/

/-- the tile containing a 1-based line `g` exists … -/
theorem axis_cover_exists (t g : Int) (ht : 1 ≤ t) (hg : 1 ≤ g) :
    0 ≤ (g - 1) / t ∧ 1 + t * ((g - 1) / t) ≤ g ∧ g < 1 + t * ((g - 1) / t) + t := by
  refine ⟨Int.ediv_nonneg (by omega) (by omega), ?_, ?_⟩
  · have := Int.mul_ediv_self_le (x := g - 1) (k := t) (by omega)
    omega
  · have := Int.lt_mul_ediv_self_add (x := g - 1) (k := t) (by omega)
    omega

/-- … and is unique -/
theorem axis_cover_unique (t g k k' : Int) (ht : 1 ≤ t) (h1 : 1 + t * k ≤ g) (h2 : g < 1 + t * k + t)
    (h1' : 1 + t * k' ≤ g) (h2' : g < 1 + t * k' + t) : k = k' := by
  rcases Int.lt_trichotomy k k' with h | h | h
  · have := Int.mul_le_mul_of_nonneg_left (show k + 1 ≤ k' by omega) (show 0 ≤ t by omega)
    rw [Int.mul_add] at this
    omega
  · exact h
  · have := Int.mul_le_mul_of_nonneg_left (show k' + 1 ≤ k by omega) (show 0 ≤ t by omega)
    rw [Int.mul_add] at this
    omega

/-- the tile index of a line inside an axis of length `n` is below the number of tiles `(n - 1) / t + 1` -/
theorem axis_index_lt (t n g : Int) (ht : 1 ≤ t) (hg : g ≤ n) : (g - 1) / t < (n - 1) / t + 1 := by
  have := Int.ediv_le_ediv (show 0 < t by omega) (show g - 1 ≤ n - 1 by omega)
  omega

/-- every tile of the grid starts inside the axis -/
theorem axis_start_in (t n k : Int) (ht : 1 ≤ t) (_hk0 : 0 ≤ k) (hk : k < (n - 1) / t + 1) : 1 + t * k ≤ n := by
  have h1 : k ≤ (n - 1) / t := by omega
  have h2 := (Int.le_ediv_iff_mul_le (show 0 < t by omega)).mp h1
  rw [Int.mul_comm] at h2
  omega

/-! ## The grid -/

/-- number of tiles along an axis of length `n` with tile size `t` -/
def nTiles (n t : Int) : Int := (n - 1) / t + 1

/-- 1-based (row position, column position) of every tile of an `R × C` matrix, row-major -/
def gridPos (R C th tw : Int) : List (Int × Int) :=
  (iota (nTiles R th)).flatMap (fun k => (iota (nTiles C tw)).map (fun l => (1 + th * k, 1 + tw * l)))

theorem mem_gridPos (R C th tw a b : Int) :
    (a, b) ∈ gridPos R C th tw ↔
      ∃ k l, 0 ≤ k ∧ k < nTiles R th ∧ 0 ≤ l ∧ l < nTiles C tw ∧ a = 1 + th * k ∧ b = 1 + tw * l := by
  unfold gridPos
  simp only [List.mem_flatMap, List.mem_map, mem_iota, Prod.mk.injEq]
  constructor
  · rintro ⟨k, ⟨hk0, hk1⟩, l, ⟨hl0, hl1⟩, h1, h2⟩
    exact ⟨k, l, hk0, hk1, hl0, hl1, h1.symm, h2.symm⟩
  · rintro ⟨k, l, hk0, hk1, hl0, hl1, h1, h2⟩
    exact ⟨k, ⟨hk0, hk1⟩, l, ⟨hl0, hl1⟩, h1.symm, h2.symm⟩

theorem mul_left_inj_pos (t k k' : Int) (ht : 1 ≤ t) (h : 1 + t * k = 1 + t * k') : k = k' := by
  have : t * k = t * k' := by omega
  exact Int.eq_of_mul_eq_mul_left (by omega) this

theorem gridPos_nodup (R C th tw : Int) (ht : 1 ≤ th) (hw : 1 ≤ tw) : (gridPos R C th tw).Nodup := by
  unfold gridPos
  rw [List.nodup_flatMap]
  refine ⟨?_, ?_⟩
  · intro k _
    apply List.Nodup.map
    · intro l l' h
      simp only [Prod.mk.injEq, true_and] at h
      exact mul_left_inj_pos tw l l' hw h
    · exact iota_nodup _
  · apply List.Pairwise.imp _ (iota_nodup _)
    intro k k' hkk
    simp only [Function.onFun, List.disjoint_left, List.mem_map]
    rintro ⟨a, b⟩ ⟨l, _, h1⟩ ⟨l', _, h2⟩
    simp only [Prod.mk.injEq] at h1 h2
    exact hkk (mul_left_inj_pos th k k' ht (by omega))

/-- position of a table row -/
def pos (r : LutRow) : Int × Int := (r.rp, r.cp)

/-- **the table holds exactly the tiles of the grid**, in any frame order -/
def IsGridTable (R C th tw : Int) (rows : List LutRow) : Prop := (rows.map pos).Perm (gridPos R C th tw)

/-- every pixel of the matrix lies in some tile of a grid table -/
theorem grid_covers (R C th tw : Int) (ht : 1 ≤ th) (hw : 1 ≤ tw) (rows : List LutRow) (hg : IsGridTable R C th tw rows)
    (gr gc : Int) (h1 : 1 ≤ gr) (h2 : gr ≤ R) (h3 : 1 ≤ gc) (h4 : gc ≤ C) :
    ∃ r ∈ rows, inTile th tw r gr gc := by
  obtain ⟨k0, k1, k2⟩ := axis_cover_exists th gr ht h1
  obtain ⟨l0, l1, l2⟩ := axis_cover_exists tw gc hw h3
  have hm : (1 + th * ((gr - 1) / th), 1 + tw * ((gc - 1) / tw)) ∈ rows.map pos := by
    rw [hg.mem_iff, mem_gridPos]
    exact ⟨_, _, k0, axis_index_lt th R gr ht h2, l0, axis_index_lt tw C gc hw h4, rfl, rfl⟩
  obtain ⟨r, hr, hp⟩ := List.mem_map.mp hm
  refine ⟨r, hr, ?_⟩
  unfold pos at hp
  simp only [Prod.mk.injEq] at hp
  unfold inTile
  omega

/-- two tiles of a grid table containing the same pixel are at the same position -/
theorem grid_tile_unique (R C th tw : Int) (ht : 1 ≤ th) (hw : 1 ≤ tw) (rows : List LutRow) (hg : IsGridTable R C th tw rows)
    (gr gc : Int) (r r' : LutRow) (hr : r ∈ rows) (hr' : r' ∈ rows)
    (h : inTile th tw r gr gc) (h' : inTile th tw r' gr gc) : pos r = pos r' := by
  have m1 : pos r ∈ gridPos R C th tw := hg.mem_iff.mp (List.mem_map_of_mem hr)
  have m2 : pos r' ∈ gridPos R C th tw := hg.mem_iff.mp (List.mem_map_of_mem hr')
  unfold pos at *
  rw [mem_gridPos] at m1 m2
  obtain ⟨k, l, _, _, _, _, e1, e2⟩ := m1
  obtain ⟨k', l', _, _, _, _, e1', e2'⟩ := m2
  unfold inTile at h h'
  have hk := axis_cover_unique th gr k k' ht (by omega) (by omega) (by omega) (by omega)
  have hl := axis_cover_unique tw gc l l' hw (by omega) (by omega) (by omega) (by omega)
  subst hk hl
  rw [e1, e2, e1', e2']

/-- in a list without duplicate keys, a predicate that holds for some element and only for elements with one
and the same key selects exactly one element -/
theorem filter_length_one {β γ} (f : β → γ) (P : β → Bool) (l : List β) (hn : (l.map f).Nodup)
    (hex : ∃ x ∈ l, P x = true) (huniq : ∀ x ∈ l, ∀ y ∈ l, P x = true → P y = true → f x = f y) :
    (l.filter P).length = 1 := by
  induction l with
  | nil => obtain ⟨x, hx, _⟩ := hex; simp at hx
  | cons a l ih =>
    rw [List.map_cons, List.nodup_cons] at hn
    by_cases hpa : P a = true
    · rw [List.filter_cons_of_pos hpa]
      have : l.filter P = [] := by
        rw [List.filter_eq_nil_iff]
        intro y hy hpy
        have := huniq a (by simp) y (by simp [hy]) hpa hpy
        exact hn.1 (this ▸ List.mem_map_of_mem hy)
      rw [this]; rfl
    · rw [List.filter_cons_of_neg hpa]
      apply ih hn.2
      · obtain ⟨x, hx, hpx⟩ := hex
        rcases List.mem_cons.mp hx with rfl | h
        · exact absurd hpx hpa
        · exact ⟨x, h, hpx⟩
      · intro x hx y hy
        exact huniq x (by simp [hx]) y (by simp [hy])

instance (th tw : Int) (r : LutRow) (gr gc : Int) : Decidable (inTile th tw r gr gc) := by
  unfold inTile; infer_instance

/-- **exactly once**: of the tiles of a grid table, exactly one contains a given matrix pixel -/
theorem grid_exactly_one (R C th tw : Int) (ht : 1 ≤ th) (hw : 1 ≤ tw) (rows : List LutRow) (hg : IsGridTable R C th tw rows)
    (gr gc : Int) (h1 : 1 ≤ gr) (h2 : gr ≤ R) (h3 : 1 ≤ gc) (h4 : gc ≤ C) :
    (rows.filter (fun r => decide (inTile th tw r gr gc))).length = 1 := by
  apply filter_length_one pos
  · exact hg.nodup_iff.mpr (gridPos_nodup R C th tw ht hw)
  · obtain ⟨r, hr, hin⟩ := grid_covers R C th tw ht hw rows hg gr gc h1 h2 h3 h4
    exact ⟨r, hr, by simpa using hin⟩
  · intro x hx y hy px py
    exact grid_tile_unique R C th tw ht hw rows hg gr gc x y hx hy (by simpa using px) (by simpa using py)

/-! ## Counting the selected tiles -/

/-- number of indices of `0..m-1` inside `[a, b]` -/
theorem count_interval (m : Nat) (a b : Int) (ha : 0 ≤ a) :
    (((iota m).filter (fun k => decide (a ≤ k) && decide (k ≤ b))).length : Int) = max 0 (min b ((m : Int) - 1) - a + 1) := by
  induction m with
  | zero => simp [iota]; omega
  | succ m ih =>
    have : ((m + 1 : Nat) : Int) = (m : Int) + 1 := by omega
    rw [this, iota_succ, List.filter_append, List.length_append]
    push_cast
    rw [ih]
    by_cases h : a ≤ (m : Int) ∧ (m : Int) ≤ b
    · have : (List.filter (fun k => decide (a ≤ k) && decide (k ≤ b)) [(m : Int)]) = [(m : Int)] := by
        simp [h.1, h.2]
      rw [this]; simp; omega
    · have : (List.filter (fun k => decide (a ≤ k) && decide (k ≤ b)) [(m : Int)]) = [] := by
        simp; omega
      rw [this]; simp; omega

/-- a tile at `1 + t * k` is selected on an axis with region `[s, e)` iff its index lies between the indices of
the first and last requested line -/
theorem axis_selected_iff_index (t s e k : Int) (ht : 1 ≤ t) :
    (s - t + 1 ≤ 1 + t * k ∧ 1 + t * k < e) ↔ ((s - 1) / t ≤ k ∧ k ≤ (e - 2) / t) := by
  have htp : 0 < t := by omega
  constructor
  · rintro ⟨h1, h2⟩
    constructor
    · have : (s - 1) / t < k + 1 := by
        rw [Int.ediv_lt_iff_lt_mul htp, Int.add_mul, Int.mul_comm k t]; omega
      omega
    · rw [Int.le_ediv_iff_mul_le htp, Int.mul_comm]; omega
  · rintro ⟨h1, h2⟩
    constructor
    · have : (s - 1) / t < k + 1 := by omega
      rw [Int.ediv_lt_iff_lt_mul htp, Int.add_mul, Int.mul_comm k t] at this; omega
    · rw [Int.le_ediv_iff_mul_le htp, Int.mul_comm] at h2; omega

theorem prod_filter_length {β γ} (xs : List Int) (ys : List Int) (f : Int → β) (g : Int → γ) (P : β → Bool) (Q : γ → Bool) :
    ((xs.flatMap (fun k => ys.map (fun l => (f k, g l)))).filter (fun p => P p.1 && Q p.2)).length =
      (xs.filter (fun k => P (f k))).length * (ys.filter (fun l => Q (g l))).length := by
  induction xs with
  | nil => simp
  | cons x xs ih =>
    rw [List.flatMap_cons, List.filter_append, List.length_append, ih]
    have inner : ((ys.map (fun l => (f x, g l))).filter (fun p => P p.1 && Q p.2)).length =
        if P (f x) then (ys.filter (fun l => Q (g l))).length else 0 := by
      rw [List.filter_map, List.length_map]
      by_cases h : P (f x) = true
      · simp [h, Function.comp_def]
      · simp [h, Function.comp_def]
    rw [inner]
    by_cases h : P (f x) = true
    · rw [List.filter_cons_of_pos (by simpa using h)]
      simp [h, Nat.add_mul]; omega
    · rw [List.filter_cons_of_neg (by simpa using h)]
      simp [h]

theorem ediv_pred_ge (x t : Int) (ht : 1 ≤ t) : x / t - 1 ≤ (x - 1) / t := by
  have h1 : (x + (-1) * t) / t = x / t + -1 := Int.add_mul_ediv_right x (-1) (by omega)
  have h2 := Int.ediv_le_ediv (show 0 < t by omega) (show x + (-1) * t ≤ x - 1 by omega)
  omega

/-- the selection on the positions of the table rows -/
def selP (r0 r1 c0 c1 th tw : Int) (p : Int × Int) : Bool :=
  (decide (r0 - th + 1 ≤ p.1) && decide (p.1 < r1)) && (decide (c0 - tw + 1 ≤ p.2) && decide (p.2 < c1))

theorem selected_eq_selP (r0 r1 c0 c1 th tw : Int) (r : LutRow) :
    selected r0 r1 c0 c1 th tw r = selP r0 r1 c0 c1 th tw (pos r) := by
  rw [Bool.eq_iff_iff, selected_iff]
  unfold selP pos
  simp only [Bool.and_eq_true, decide_eq_true_eq]
  constructor
  · rintro ⟨a, b, c, d⟩; exact ⟨⟨a, b⟩, c, d⟩
  · rintro ⟨⟨a, b⟩, c, d⟩; exact ⟨a, b, c, d⟩

theorem axis_count (n t s e : Int) (ht : 1 ≤ t) (hs : 1 ≤ s) (hsn : s ≤ n) (hse : s ≤ e) (hen : e ≤ n + 1) :
    (((iota (nTiles n t)).filter (fun k => decide (s - t + 1 ≤ 1 + t * k) && decide (1 + t * k < e))).length : Int)
      = (e - 2) / t - (s - 1) / t + 1 := by
  have hfil : (iota (nTiles n t)).filter (fun k => decide (s - t + 1 ≤ 1 + t * k) && decide (1 + t * k < e)) =
      (iota (nTiles n t)).filter (fun k => decide ((s - 1) / t ≤ k) && decide (k ≤ (e - 2) / t)) := by
    apply List.filter_congr
    intro k _
    have := axis_selected_iff_index t s e k ht
    rw [Bool.eq_iff_iff]
    simpa using this
  rw [hfil]
  have hn : 0 ≤ (n - 1) / t := Int.ediv_nonneg (by omega) (by omega)
  have hm : nTiles n t = ((nTiles n t).toNat : Int) := by unfold nTiles; omega
  rw [hm, count_interval _ _ _ (Int.ediv_nonneg (by omega) (by omega))]
  rw [← hm]
  have h1 : (e - 2) / t ≤ (n - 1) / t := Int.ediv_le_ediv (by omega) (by omega)
  have h2 := ediv_pred_ge (s - 1) t ht
  have h3 : (s - 1 - 1) / t ≤ (e - 2) / t := Int.ediv_le_ediv (by omega) (by omega)
  unfold nTiles
  omega

/-- **the missing-frame test**: for a table holding exactly the grid, the number of selected rows is
`v_frames * h_frames` -/
theorem selected_count (R C th tw : Int) (ht : 1 ≤ th) (hw : 1 ≤ tw) (rows : List LutRow) (hg : IsGridTable R C th tw rows)
    (r0 r1 c0 c1 : Int) (h1 : 1 ≤ r0) (h1' : r0 ≤ R) (h2 : r0 ≤ r1) (h3 : r1 ≤ R + 1) (h4 : 1 ≤ c0) (h4' : c0 ≤ C) (h5 : c0 ≤ c1) (h6 : c1 ≤ C + 1) :
    ((rows.filter (selected r0 r1 c0 c1 th tw)).length : Int) =
      (Int.fdiv (r1 - 2) th - Int.fdiv (r0 - 1) th + 1) * (Int.fdiv (c1 - 2) tw - Int.fdiv (c0 - 1) tw + 1) := by
  have e1 : (rows.filter (selected r0 r1 c0 c1 th tw)).length = ((rows.map pos).filter (selP r0 r1 c0 c1 th tw)).length := by
    rw [List.filter_map, List.length_map]
    congr 1
    apply List.filter_congr
    intro r _
    exact selected_eq_selP r0 r1 c0 c1 th tw r
  have e2 : ((rows.map pos).filter (selP r0 r1 c0 c1 th tw)).length = ((gridPos R C th tw).filter (selP r0 r1 c0 c1 th tw)).length :=
    (hg.filter _).length_eq
  rw [e1, e2]
  unfold gridPos
  have e3 := prod_filter_length (iota (nTiles R th)) (iota (nTiles C tw)) (fun k => 1 + th * k) (fun l => 1 + tw * l)
    (fun a => decide (r0 - th + 1 ≤ a) && decide (a < r1)) (fun b => decide (c0 - tw + 1 ≤ b) && decide (b < c1))
  unfold selP
  rw [e3]
  push_cast
  rw [axis_count R th r0 r1 ht h1 h1' h2 h3, axis_count C tw c0 c1 hw h4 h4' h5 h6]
  rw [fdiv_pos _ _ (by omega), fdiv_pos _ _ (by omega), fdiv_pos _ _ (by omega), fdiv_pos _ _ (by omega)]

end HdVerif.TilingLemmas
