import HdVerif.Proofs.Volume
/-! C08: channel selection / permutation — the descriptors follow the data (volumes with one or two channel dimensions). -/
namespace HdVerif.VolLemmas
open HdVerif HdVerif.Gen HdVerif.Vol

/-- the (descriptor, value) labels of channel cell `c` -/
def labels (v : Vol) (c : List Nat) : List (Nat × Nat) :=
  (v.chans.zip c).filterMap fun e => (e.1.2[e.2]?).map fun x => (e.1.1, x)

/-- two-element index lists that contain 0 and 1 -/
theorem perm2_cases {p : List Int} (hl : p.length = 2) (h0 : p.contains (0 : Int) = true) (h1 : p.contains (1 : Int) = true) :
    p = [0, 1] ∨ p = [1, 0] := by
  match p, hl with
  | [a, b], _ =>
    simp only [List.contains_cons, List.contains_nil, Bool.or_false, Bool.or_eq_true, beq_iff_eq] at h0 h1
    rcases h0 with h0 | h0 <;> rcases h1 with h1 | h1 <;> subst_vars <;> simp_all

/-- **permute_channel_axes** on a volume with two channel dimensions: the cell `c'` of the result is the cell of the
input with the indices swapped back, and it carries the same (descriptor, value) labels (as a multiset). -/
theorem permuteChannels2_labels {v : Vol} {p : List Int} {w : VStep} {a b : Nat} {e0 e1 : Nat × List Nat}
    (hs : v.cshape = [a, b]) (hc : v.chans = [e0, e1]) (h : permuteChannelsV v p = .ok w) (x y : Nat) :
    (p = [0, 1] ∧ (∀ j, w.1.arr j [x, y] = v.arr j [x, y]) ∧ w.1.chans = v.chans ∧ w.1.cshape = v.cshape) ∨
    (p = [1, 0] ∧ (∀ j, w.1.arr j [x, y] = v.arr j [y, x]) ∧ w.1.chans = [e1, e0] ∧ w.1.cshape = [b, a] ∧
      (labels w.1 [x, y]).Perm (labels v [y, x])) := by
  simp only [permuteChannelsV, hs, List.length_cons, List.length_nil] at h
  split at h
  · cases h
  · rename_i hv
    simp only [Bool.or_eq_true, Bool.not_eq_true', not_or, Bool.not_eq_false, ne_eq, decide_eq_true_eq, not_not,
      bne_iff_ne] at hv
    obtain ⟨hl, hall⟩ := hv
    have hl' : p.length = 2 := by simpa using hl
    have h01 : p.contains (0 : Int) = true ∧ p.contains (1 : Int) = true := by
      have := hall
      simp only [List.all_eq_true, List.mem_range] at this
      exact ⟨by simpa using this 0 (by decide), by simpa using this 1 (by decide)⟩
    simp only [Except.ok.injEq] at h
    subst h
    rcases perm2_cases hl' h01.1 h01.2 with rfl | rfl
    · left
      refine ⟨rfl, ?_, ?_, ?_⟩
      · intro j
        simp [permChan, findIdx, findIdx.go, List.range, List.range.loop]
      · simp [hc]
      · simp [hs]
    · right
      refine ⟨rfl, ?_, ?_, ?_, ?_⟩
      · intro j
        simp [permChan, findIdx, findIdx.go, List.range, List.range.loop]
      · simp [hc]
      · simp [hs]
      · simp only [labels, hc]
        have e : (List.filterMap (fun x => [e0, e1][x]?) (List.map Int.toNat [1, 0])).zip [x, y] = [(e1, x), (e0, y)] := by
          simp
        rw [e]
        cases h1 : e1.2[x]? <;> cases h0 : e0.2[y]? <;> simp [List.filterMap, h0, h1, List.Perm.swap]


/-- **get_channel** selecting value index `k` of the first of two channel dimensions: cell `[y]` (resp. `[0, y]` with
keepdims) of the result is cell `[k, y]` of the input; the remaining descriptor keeps its values, the selected one is
dropped (resp. keeps exactly the selected value). -/
theorem getChannel2_first {v : Vol} {w : VStep} {a b k : Nat} {e0 e1 : Nat × List Nat} (keep : Bool)
    (hs : v.cshape = [a, b]) (hc : v.chans = [e0, e1]) (h : getChannelV v [(0, k)] keep = .ok w) (y : Nat) :
    k < a ∧ w.1.geom = v.geom ∧
    (keep = false → (∀ j, w.1.arr j [y] = v.arr j [k, y]) ∧ w.1.chans = [e1] ∧ w.1.cshape = [b]) ∧
    (keep = true → (∀ j, w.1.arr j [0, y] = v.arr j [k, y]) ∧ w.1.cshape = [1, b] ∧
      ∃ x, e0.2[k]? = some x ∧ w.1.chans = [(e0.1, [x]), e1]) := by
  simp only [getChannelV, hs, List.length_cons, List.length_nil] at h
  split at h
  · cases h
  · split at h
    · cases h
    · rename_i h1 h2
      have hk : k < a := by simpa using h2
      cases keep
      · simp only [Bool.false_eq_true, if_false, Except.ok.injEq] at h
        subst h
        refine ⟨hk, rfl, fun _ => ⟨?_, ?_, ?_⟩, fun hh => (by cases hh)⟩
        · intro j; simp [expandChan, expandChan.go, List.lookup]
        · simp [hc, List.range, List.range.loop]
        · simp [List.range, List.range.loop]
      · simp only [if_true] at h
        obtain ⟨chans, hch, h⟩ := bind_ok.mp h
        simp only [pure, Except.pure, Except.ok.injEq] at h
        subst h
        refine ⟨hk, rfl, fun hh => (by cases hh), fun _ => ⟨?_, ?_, ?_⟩⟩
        · intro j; simp [fixChan, List.lookup]
        · simp [keepShape, List.lookup]
        · simp only [hc, keepChans, List.lookup, beq_self_eq_true] at hch
          cases hx : e0.2[k]? with
          | none => simp [hx, bind, Except.bind] at hch
          | some x =>
            refine ⟨x, rfl, ?_⟩
            simp [hx, bind, Except.bind, pure, Except.pure] at hch
            exact hch.symm


/-- the same for the second of two channel dimensions: cell `[y]` (resp. `[y, 0]`) of the result is cell `[y, k]` -/
theorem getChannel2_second {v : Vol} {w : VStep} {a b k : Nat} {e0 e1 : Nat × List Nat} (keep : Bool)
    (hs : v.cshape = [a, b]) (hc : v.chans = [e0, e1]) (h : getChannelV v [(1, k)] keep = .ok w) (y : Nat) :
    k < b ∧ w.1.geom = v.geom ∧
    (keep = false → (∀ j, w.1.arr j [y] = v.arr j [y, k]) ∧ w.1.chans = [e0] ∧ w.1.cshape = [a]) ∧
    (keep = true → (∀ j, w.1.arr j [y, 0] = v.arr j [y, k]) ∧ w.1.cshape = [a, 1] ∧
      ∃ x, e1.2[k]? = some x ∧ w.1.chans = [e0, (e1.1, [x])]) := by
  simp only [getChannelV, hs, List.length_cons, List.length_nil] at h
  split at h
  · cases h
  · split at h
    · cases h
    · rename_i h1 h2
      have hk : k < b := by simpa using h2
      cases keep
      · simp only [Bool.false_eq_true, if_false, Except.ok.injEq] at h
        subst h
        refine ⟨hk, rfl, fun _ => ⟨?_, ?_, ?_⟩, fun hh => (by cases hh)⟩
        · intro j; simp [expandChan, expandChan.go, List.lookup]
        · simp [hc, List.range, List.range.loop]
        · simp [List.range, List.range.loop]
      · simp only [if_true] at h
        obtain ⟨chans, hch, h⟩ := bind_ok.mp h
        simp only [pure, Except.pure, Except.ok.injEq] at h
        subst h
        refine ⟨hk, rfl, fun hh => (by cases hh), fun _ => ⟨?_, ?_, ?_⟩⟩
        · intro j; simp [fixChan, List.lookup]
        · simp [keepShape, List.lookup]
        · simp only [hc, keepChans, List.lookup] at hch
          cases hx : e1.2[k]? with
          | none => simp [hx, bind, Except.bind, pure, Except.pure] at hch
          | some x =>
            refine ⟨x, rfl, ?_⟩
            simp [hx, bind, Except.bind, pure, Except.pure] at hch
            exact hch.symm

/-- a single channel dimension: cell `[]` (resp. `[0]`) of the result is cell `[k]` of the input -/
theorem getChannel1 {v : Vol} {w : VStep} {a k : Nat} {e0 : Nat × List Nat} (keep : Bool)
    (hs : v.cshape = [a]) (hc : v.chans = [e0]) (h : getChannelV v [(0, k)] keep = .ok w) :
    k < a ∧ w.1.geom = v.geom ∧
    (keep = false → (∀ j, w.1.arr j [] = v.arr j [k]) ∧ w.1.chans = [] ∧ w.1.cshape = []) ∧
    (keep = true → (∀ j, w.1.arr j [0] = v.arr j [k]) ∧ w.1.cshape = [1] ∧
      ∃ x, e0.2[k]? = some x ∧ w.1.chans = [(e0.1, [x])]) := by
  simp only [getChannelV, hs, List.length_cons, List.length_nil] at h
  split at h
  · cases h
  · split at h
    · cases h
    · rename_i h1 h2
      have hk : k < a := by simpa using h2
      cases keep
      · simp only [Bool.false_eq_true, if_false, Except.ok.injEq] at h
        subst h
        refine ⟨hk, rfl, fun _ => ⟨?_, ?_, ?_⟩, fun hh => (by cases hh)⟩
        · intro j; simp [expandChan, expandChan.go, List.lookup]
        · simp [List.range, List.range.loop]
        · simp [List.range, List.range.loop]
      · simp only [if_true] at h
        obtain ⟨chans, hch, h⟩ := bind_ok.mp h
        simp only [pure, Except.pure, Except.ok.injEq] at h
        subst h
        refine ⟨hk, rfl, fun hh => (by cases hh), fun _ => ⟨?_, ?_, ?_⟩⟩
        · intro j; simp [fixChan, List.lookup]
        · simp [keepShape, List.lookup]
        · simp only [hc, keepChans, List.lookup, beq_self_eq_true] at hch
          cases hx : e0.2[k]? with
          | none => simp [hx, bind, Except.bind] at hch
          | some x =>
            refine ⟨x, rfl, ?_⟩
            simp [hx, bind, Except.bind, pure, Except.pure] at hch
            exact hch.symm


/-- **get_channel** selecting both of two channel dimensions (no keepdims): the single cell `[]` is cell `[k, l]` -/
theorem getChannel2_both {v : Vol} {w : VStep} {a b k l : Nat} {e0 e1 : Nat × List Nat}
    (hs : v.cshape = [a, b]) (hc : v.chans = [e0, e1]) (h : getChannelV v [(0, k), (1, l)] false = .ok w) :
    k < a ∧ l < b ∧ w.1.geom = v.geom ∧ (∀ j, w.1.arr j [] = v.arr j [k, l]) ∧ w.1.chans = [] ∧ w.1.cshape = [] := by
  simp only [getChannelV, hs, List.length_cons, List.length_nil] at h
  split at h
  · cases h
  · split at h
    · cases h
    · rename_i h1 h2
      have hk : k < a ∧ l < b := by simpa using h2
      simp only [Bool.false_eq_true, if_false, Except.ok.injEq] at h
      subst h
      refine ⟨hk.1, hk.2, rfl, ?_, ?_, ?_⟩
      · intro j; simp [expandChan, expandChan.go, List.lookup]
      · simp [List.range, List.range.loop]
      · simp [List.range, List.range.loop]


end HdVerif.VolLemmas
