import HdVerif.Proofs.SegTie
import HdVerif.Model.SegFrames
/-! Helper lemmas for C01, part 2: the dimension index values recorded with the stored frames (order, uniqueness), reading
by dimension index = reading by source plane, reading frame by frame. -/
namespace HdVerif.SegEncodeLemmas
open HdVerif HdVerif.Gen HdVerif.SegEncode

/-! ## the join through another column of the frame table -/

theorem findKey_map_inj {κ ι} [DecidableEq κ] [DecidableEq ι] (f : κ → ι) (l : List κ) (x : κ)
    (hinj : ∀ a ∈ l, f a = f x → a = x) : findKey (l.map f) (f x) = findKey l x := by
  induction l with
  | nil => rfl
  | cons a t ih =>
    simp only [List.map_cons, findKey]
    by_cases h : a = x
    · simp [h]
    · have hne : f a ≠ f x := fun hc => h (hinj a (by simp) hc)
      simp only [h, hne, ↓reduceIte]
      rw [ih (fun b hb => hinj b (List.mem_cons_of_mem _ hb))]

theorem mapE_map {α β γ ε} (f : β → Except ε γ) (g : α → β) (l : List α) :
    mapE f (l.map g) = mapE (fun a => f (g a)) l := by
  induction l with
  | nil => rfl
  | cons a t ih => simp only [List.map_cons, mapE, ih]

theorem mapE_congr {α β ε} (f g : α → Except ε β) (l : List α) (h : ∀ a ∈ l, f a = g a) : mapE f l = mapE g l := by
  induction l with
  | nil => rfl
  | cons a t ih =>
    simp only [mapE, h a (by simp), ih (fun b hb => h b (List.mem_cons_of_mem _ hb))]

/-- the index vector determines the (segment, plane) cell among the visited planes -/
theorem dimIndexValues_inj (ord : List Nat) (a b : Option Nat × Nat) (ha : a.2 ∈ ord)
    (h : dimIndexValues ord a.1 a.2 = dimIndexValues ord b.1 b.2) : a = b := by
  obtain ⟨sa, pa⟩ := a
  obtain ⟨sb, pb⟩ := b
  simp only at ha
  unfold dimIndexValues at h
  cases sa <;> cases sb <;> simp only [segPrefix, List.nil_append, List.cons_append, List.cons.injEq, and_true,
    List.ne_cons_self, reduceCtorEq, and_false] at h
  · have : ord.idxOf pa = ord.idxOf pb := by omega
    rw [(List.idxOf_inj ha).mp this]
  · obtain ⟨h1, h2⟩ := h
    have : ord.idxOf pa = ord.idxOf pb := by omega
    rw [h1, (List.idxOf_inj ha).mp this]

theorem frameDims_nodup_iff (ord : List Nat) (keys : List (Option Nat × Nat)) (hk : ∀ k ∈ keys, k.2 ∈ ord) :
    (frameDims ord keys).Nodup ↔ keys.Nodup := by
  unfold frameDims List.Nodup
  rw [List.pairwise_map]
  constructor
  · intro h
    exact h.imp (fun {a b} hne hab => hne (by rw [hab]))
  · intro h
    exact h.imp_of_mem (fun {a b} ha _ hne hc => hne (dimIndexValues_inj ord a b (hk a ha) hc))

/-- the position index of the `i`-th visited plane is `i + start` -/
theorem dimIndexValues_getElem (ord : List Nat) (hnd : ord.Nodup) (sg : Option Nat) (i : Nat) (hi : i < ord.length) :
    dimIndexValues ord sg ord[i] = segPrefix sg ++ [i + segDimIndexStart] := by
  unfold dimIndexValues
  rw [hnd.idxOf_getElem i hi]

/-- **reading by dimension index values is reading by source plane**: position index `k` addresses the frames of the
    `(k - start)`-th visited plane -/
theorem readByDimIndex_eq (codec : Option Codec) (o : SegObj) (ord : List Nat) (hnd : ord.Nodup)
    (hk : ∀ k ∈ o.keys, k.2 ∈ ord) (ks : List Nat)
    (hks : ∀ k ∈ ks, segDimIndexStart ≤ k ∧ k - segDimIndexStart < ord.length) :
    readByDimIndex codec o (frameDims ord o.keys) ks =
      readBySource codec o (ks.map fun k => ord.getD (k - segDimIndexStart) 0) .assertEmpty := by
  unfold readByDimIndex readBySource
  by_cases hkn : o.keys.Nodup
  · have hdn : (frameDims ord o.keys).Nodup := (frameDims_nodup_iff ord o.keys hk).mpr hkn
    simp only [hkn, hdn, not_true_eq_false, ↓reduceIte, missingRefusal]
    rw [mapE_map]
    apply mapE_congr
    intro k hkm
    obtain ⟨h1, h2⟩ := hks k hkm
    have hget : ord.getD (k - segDimIndexStart) 0 = ord[k - segDimIndexStart] := by
      simp [List.getD_eq_getElem?_getD, List.getElem?_eq_getElem h2]
    rw [hget]
    have hkey : ∀ sg : Option Nat, readDimKey codec o (frameDims ord o.keys)
        (segPrefix sg ++ [k]) = readKey codec o (sg, ord[k - segDimIndexStart]) := by
      intro sg
      have hv : segPrefix sg ++ [k]
          = dimIndexValues ord (sg, ord[k - segDimIndexStart]).1 (sg, ord[k - segDimIndexStart]).2 := by
        rw [dimIndexValues_getElem ord hnd sg _ h2]
        congr 2
        omega
      unfold readDimKey readKey frameDims
      rw [hv, findKey_map_inj (fun k => dimIndexValues ord k.1 k.2) o.keys (sg, ord[k - segDimIndexStart])
        (fun a ha hc => dimIndexValues_inj ord a _ (hk a ha) hc)]
      cases findKey o.keys (sg, ord[k - segDimIndexStart]) <;> rfl
    unfold readDimRow readRow
    by_cases ht : o.t = .labelmap
    · simp only [ht, ↓reduceIte]
      have := hkey none
      simp only [segPrefix, List.nil_append] at this
      rw [this]
      cases readKey codec o (none, ord[k - segDimIndexStart]) <;> rfl
    · simp only [ht, ↓reduceIte]
      apply mapE_congr
      intro s _
      have := hkey (some s)
      simpa [segPrefix] using this
  · have hdn : ¬ (frameDims ord o.keys).Nodup := fun h => hkn ((frameDims_nodup_iff ord o.keys hk).mp h)
    simp only [hkn, hdn, not_false_eq_true, ↓reduceIte]

/-! ## reading by the source numbers the frames record -/

theorem readFrame_relabel (codec : Option Codec) (σ : Nat → Nat) (o : SegObj) (i : Nat) :
    readFrame codec (relabelSources σ o) i = readFrame codec o i := by
  unfold readFrame relabelSources
  simp only [List.length_map]

theorem readBySource_relabel (codec : Option Codec) (σ : Nat → Nat) (o : SegObj) (request : List Nat)
    (hinj : ∀ k ∈ o.keys, ∀ p, (p ∈ request ∨ ∃ k' ∈ o.keys, k'.2 = p) → σ k.2 = σ p → k.2 = p) :
    readBySource codec (relabelSources σ o) (request.map σ) .assertEmpty = readBySource codec o request .assertEmpty := by
  have hfinj : ∀ a ∈ o.keys, ∀ b : Option Nat × Nat, (b.2 ∈ request ∨ ∃ k' ∈ o.keys, k'.2 = b.2) →
      ((fun k : Option Nat × Nat => (k.1, σ k.2)) a = (fun k : Option Nat × Nat => (k.1, σ k.2)) b) → a = b := by
    intro a ha b hb hab
    simp only [Prod.mk.injEq] at hab
    have := hinj a ha b.2 hb hab.2
    exact Prod.ext hab.1 this
  have hnd : (relabelSources σ o).keys.Nodup ↔ o.keys.Nodup := by
    unfold relabelSources List.Nodup
    simp only
    rw [List.pairwise_map]
    constructor
    · intro h; exact h.imp (fun {a b} hne hab => hne (by rw [hab]))
    · intro h
      exact h.imp_of_mem (fun {a b} ha hb hne hc => hne (hfinj a ha b (Or.inr ⟨b, hb, rfl⟩) hc))
  unfold readBySource
  by_cases hk : o.keys.Nodup
  · simp only [hk, hnd.mpr hk, not_true_eq_false, ↓reduceIte, missingRefusal]
    rw [mapE_map]
    apply mapE_congr
    intro p hp
    have hkey : ∀ sg : Option Nat, readKey codec (relabelSources σ o) (sg, σ p) = readKey codec o (sg, p) := by
      intro sg
      unfold readKey
      have : (relabelSources σ o).keys = o.keys.map fun k => (k.1, σ k.2) := rfl
      rw [this]
      have e : ((sg, σ p) : Option Nat × Nat) = (fun k : Option Nat × Nat => (k.1, σ k.2)) (sg, p) := rfl
      rw [e, findKey_map_inj (fun k : Option Nat × Nat => (k.1, σ k.2)) o.keys (sg, p)
        (fun a ha hc => hfinj a ha (sg, p) (Or.inl hp) hc)]
      cases findKey o.keys (sg, p) with
      | none => rfl
      | some i => exact readFrame_relabel codec σ o i
    unfold readRow
    have ht : (relabelSources σ o).t = o.t := rfl
    have hsegs : (relabelSources σ o).segs = o.segs := rfl
    rw [ht, hsegs]
    by_cases hl : o.t = .labelmap
    · simp only [hl, ↓reduceIte, hkey]
    · simp only [hl, ↓reduceIte]
      apply mapE_congr
      intro s _
      exact hkey (some s)
  · simp only [hk, mt hnd.mp hk, not_false_eq_true, ↓reduceIte]

theorem mapO_sources (σ : Nat → Option Nat) (l ks : List (Option Nat × Nat))
    (h : mapO (fun k : Option Nat × Nat => (σ k.2).map fun f => (k.1, f)) l = some ks) :
    ks = l.map (fun k => (k.1, (σ k.2).getD 0)) ∧ ∀ k ∈ l, (σ k.2).isSome := by
  induction l generalizing ks with
  | nil => simp only [mapO, Option.some.injEq] at h; subst h; simp
  | cons a t ih =>
    simp only [mapO] at h
    cases hσ : σ a.2 with
    | none => rw [hσ] at h; simp at h
    | some v =>
      rw [hσ] at h
      cases ht : mapO (fun k : Option Nat × Nat => (σ k.2).map fun f => (k.1, f)) t with
      | none => rw [ht] at h; simp at h
      | some bs =>
        rw [ht] at h
        simp only [Option.map_some, Option.some.injEq] at h
        subst h
        obtain ⟨h1, h2⟩ := ih bs ht
        refine ⟨by simp [hσ, h1], ?_⟩
        intro k hk
        rcases List.mem_cons.mp hk with rfl | hk
        · simp [hσ]
        · exact h2 k hk

/-- a usable table of recorded source numbers is the relabelling by those numbers, and every stored frame has one -/
theorem recordedSources_eq (σ : Nat → Option Nat) (o o' : SegObj) (h : recordedSources σ o = some o') :
    o' = relabelSources (fun p => (σ p).getD 0) o ∧ ∀ k ∈ o.keys, (σ k.2).isSome := by
  unfold recordedSources at h
  cases hm : mapO (fun k : Option Nat × Nat => (σ k.2).map fun f => (k.1, f)) o.keys with
  | none => rw [hm] at h; simp at h
  | some ks =>
    rw [hm] at h
    simp only [Option.map_some, Option.some.injEq] at h
    obtain ⟨h1, h2⟩ := mapO_sources σ o.keys ks hm
    subst h
    exact ⟨by unfold relabelSources; rw [h1], h2⟩

/-! ## the frames are stored in dimension order -/

theorem lexLt_cons_lt (a b : Nat) (as bs : List Nat) (h : a < b) : lexLt (a :: as) (b :: bs) = true := by
  simp [lexLt, h]

theorem lexLt_cons_eq (a : Nat) (as bs : List Nat) (h : lexLt as bs = true) : lexLt (a :: as) (a :: bs) = true := by
  simp [lexLt, h]

theorem lexLt_single (a b : Nat) (h : a < b) : lexLt [a] [b] = true := by
  simp [lexLt, h]

/-- position indices increase along the visited planes -/
theorem ord_pairwise_idx (ord : List Nat) (hnd : ord.Nodup) :
    ord.Pairwise (fun p q => ord.idxOf p < ord.idxOf q) := by
  rw [List.pairwise_iff_getElem]
  intro i j hi hj hij
  rw [hnd.idxOf_getElem i hi, hnd.idxOf_getElem j hj]
  exact hij

/-- **the cells of the loop, hence the stored frames, carry lexicographically increasing index vectors** -/
theorem cells_dims_sorted (t : SegType) (segs ord : List Nat) (hs : SegsOK t segs) (hnd : ord.Nodup) :
    (cells t segs ord).Pairwise (fun c d => lexLt (dimIndexValues ord c.1 c.2) (dimIndexValues ord d.1 d.2) = true) := by
  unfold cells
  rw [List.pairwise_flatMap]
  constructor
  · intro sg _
    rw [List.pairwise_map]
    apply (ord_pairwise_idx ord hnd).imp
    intro p q hpq
    unfold dimIndexValues
    cases sg with
    | none => simp only [segPrefix, List.nil_append]; exact lexLt_single _ _ (by omega)
    | some s =>
      simp only [segPrefix, List.cons_append, List.nil_append]; exact lexLt_cons_eq _ _ _ (lexLt_single _ _ (by omega))
  · unfold segmentsIterable
    by_cases ht : t = .labelmap
    · simp [ht]
    · simp only [ht, ↓reduceIte]
      rw [List.pairwise_map]
      have hlt : segs.Pairwise (· < ·) := by
        rw [hs.consec ht]
        exact List.pairwise_lt_range' 1
      apply hlt.imp
      intro a b hab x hx y hy
      obtain ⟨p, _, rfl⟩ := List.mem_map.mp hx
      obtain ⟨q, _, rfl⟩ := List.mem_map.mp hy
      unfold dimIndexValues
      simp only [segPrefix, List.cons_append, List.nil_append]
      exact lexLt_cons_lt _ _ _ _ hab

theorem frameDims_sorted (t : SegType) (segs ord : List Nat) (hs : SegsOK t segs) (hnd : ord.Nodup)
    (keys : List (Option Nat × Nat)) (hsub : keys.Sublist (cells t segs ord)) :
    (frameDims ord keys).Pairwise (fun a b => lexLt a b = true) := by
  unfold frameDims
  rw [List.pairwise_map]
  exact (cells_dims_sorted t segs ord hs hnd).sublist hsub

/-- a source without frame of reference has one plane: the index vectors `[segment]` (`[1]` for LABELMAP) are still strictly
    increasing along the frames, hence pairwise different -/
theorem frameDimsNoFoR_sorted (t : SegType) (segs : List Nat) (p : Nat) (hs : SegsOK t segs)
    (keys : List (Option Nat × Nat)) (hsub : keys.Sublist (cells t segs [p])) :
    (frameDimsNoFoR keys).Pairwise (fun a b => lexLt a b = true) := by
  unfold frameDimsNoFoR
  rw [List.pairwise_map]
  refine List.Pairwise.sublist hsub ?_
  unfold cells segmentsIterable
  by_cases ht : t = .labelmap
  · simp [ht]
  · simp only [ht, ↓reduceIte, List.map_cons, List.map_nil]
    rw [List.pairwise_flatMap]
    constructor
    · intro sg _; simp
    · rw [List.pairwise_map]
      have hlt : segs.Pairwise (· < ·) := by
        rw [hs.consec ht]
        exact List.pairwise_lt_range' 1
      apply hlt.imp
      intro a b hab x hx y hy
      simp only [List.mem_singleton] at hx hy
      subst hx hy
      simp [dimIndexValuesNoFoR, lexLt, hab]

theorem lexLt_irrefl (a : List Nat) : lexLt a a = false := by
  induction a with
  | nil => rfl
  | cons x t ih => simp [lexLt, ih]

theorem nodup_of_pairwise_lexLt (l : List (List Nat)) (h : l.Pairwise (fun a b => lexLt a b = true)) : l.Nodup := by
  unfold List.Nodup
  apply h.imp
  intro a b hab hc
  rw [hc, lexLt_irrefl] at hab
  cases hab

theorem planOrder_sublist (arr : Mask) (mfv : Nat) (omt : Bool) (order : List Nat) :
    (planOrder arr mfv omt order).2.Sublist order := by
  unfold planOrder
  split
  · simp only []
    split
    · exact List.Sublist.refl _
    · exact List.filter_sublist
  · exact List.Sublist.refl _

theorem cells_sublist_single (t : SegType) (segs : List Nat) (ord : List Nat) (p : Nat) (h : ord.Sublist [p]) :
    (cells t segs ord).Sublist (cells t segs [p]) := by
  rcases List.sublist_singleton.mp h with rfl | rfl
  · have : cells t segs [] = [] := by
      unfold cells
      induction segmentsIterable t segs with
      | nil => rfl
      | cons a l ih => simpa using ih
    rw [this]; exact List.nil_sublist _
  · exact List.Sublist.refl _

/-! ## frame by frame -/

/-- **every stored frame, read on its own** (`get_stored_frame(i + 1)`, row `i` of `pixel_array`), is the cell of the
    loop its per-frame functional groups name: the (segment, plane) key is a cell of the loop over the visited planes and
    the pixels are that cell's -/
theorem frames_read (codec : Option Codec) (hcodec : ∀ c, codec = some c → ∀ x, c.dec (c.enc x) = x)
    (rows cols : Nat) (t : SegType) (segs : List Nat) (mfv : Nat) (omt : Bool) (order : List Nat) (m : Mask)
    (hin : ∀ p ∈ order, p < m.numPlanes) (o : SegObj) (hb : build codec rows cols t segs mfv omt order m = .ok o) :
    ∃ arr ov, castMask segs t m = .ok (arr, ov) ∧
      o.keys.Sublist (cells t segs (planOrder arr mfv omt order).2) ∧
      ∀ i (hi : i < o.keys.length), ∃ px, cellE arr segs t mfv o.keys[i].1 o.keys[i].2 = .ok px ∧
        readFrame codec o i = .ok px := by
  obtain ⟨bits, arr, ov, frames, pd, hca, hcm, hnp, hsz, hsf, hpd, rfl⟩ := build_inv _ _ _ _ _ _ _ _ _ _ hb
  obtain ⟨hcs, hmfv, _, hbits⟩ := checkArgs_inv _ _ _ _ _ hca
  have hs := checkSegs_ok t segs hcs
  obtain ⟨hrel, hnp0, hsz0⟩ := castMask_rel segs t m arr ov hs hcm
  obtain ⟨harr, hnum⟩ := arrOK_of_castRel segs t (rows * cols) m arr hs hrel hsz
  have hn : 0 < rows * cols := by
    have hl := planeSizes_length m
    have : m.planeSizes ≠ [] := by
      intro hc; rw [hc] at hl; simp at hl; exact hnp0 hl.symm
    obtain ⟨sz, hszm⟩ := List.exists_mem_of_ne_nil _ this
    have h1 := hsz sz hszm
    have h2 := hsz0 sz hszm
    omega
  have cellok : ∀ sg ∈ segmentsIterable t segs, ∀ p, p < m.numPlanes →
      ∃ px, cellE arr segs t mfv sg p = .ok px ∧ px.length = rows * cols ∧ (∀ v ∈ px, v < 2 ^ bits) := by
    intro sg hsg p hp
    obtain ⟨pl, hpl⟩ := plane?_of_lt arr p (by omega)
    obtain ⟨px, h1, h2, h3, _⟩ := cell_facts segs t mfv (rows * cols) arr hs harr (fun h => (hmfv h).2) bits hbits sg hsg p pl hpl
    exact ⟨px, h1, h2, h3⟩
  have hcell : ∀ c ∈ cells t segs (planOrder arr mfv omt order).2, ∃ px, cellE arr segs t mfv c.1 c.2 = .ok px := by
    intro c hc
    obtain ⟨h1, h2⟩ := (mem_cells t segs _ c).mp hc
    obtain ⟨px, hpx, _⟩ := cellok c.1 h1 c.2 (hin _ (planOrder_sub arr omt order _ h2))
    exact ⟨px, hpx⟩
  rw [storedFrames_eq arr segs t mfv omt order hcell] at hsf
  simp only [Except.ok.injEq] at hsf
  subst hsf
  refine ⟨arr, ov, hcm, ?_, ?_⟩
  · exact filterMap_key_sublist _ _ (fun c f h => cellFrame_key arr segs t mfv _ c f h) _
  have hfr : ∀ f ∈ (cells t segs (planOrder arr mfv omt order).2).filterMap (cellFrame arr segs t mfv (planOrder arr mfv omt order).1),
      cellE arr segs t mfv f.seg f.plane = .ok f.px ∧ f.px.length = rows * cols ∧ ∀ v ∈ f.px, v < 2 ^ bits := by
    intro f hf
    obtain ⟨c, hc, hcf⟩ := List.mem_filterMap.mp hf
    obtain ⟨h1, h2⟩ := (mem_cells t segs _ c).mp hc
    obtain ⟨px, hpx, hl, hr⟩ := cellok c.1 h1 c.2 (hin _ (planOrder_sub arr omt order _ h2))
    have hk := cellFrame_key _ _ _ _ _ _ _ hcf
    have := cellFrame_px _ _ _ _ _ _ _ hcf
    have e1 : f.seg = c.1 := by rw [← hk]
    have e2 : f.plane = c.2 := by rw [← hk]
    rw [e1, e2]
    rw [hpx] at this
    simp only [Except.ok.injEq] at this
    subst this
    exact ⟨hpx, hl, hr⟩
  obtain ⟨hb3, _, _, _⟩ := bits_bound t segs bits hbits
  intro i hi
  simp only [List.length_map] at hi
  have hmem := List.getElem_mem hi
  refine ⟨_, by simpa using (hfr _ hmem).1, ?_⟩
  have := readFrame_spec codec hcodec
    { rows := rows, cols := cols, bits := bits, t := t, mfv := mfv, segs := segs,
      keys := ((cells t segs (planOrder arr mfv omt order).2).filterMap
        (cellFrame arr segs t mfv (planOrder arr mfv omt order).1)).map (fun f => (f.seg, f.plane)), pd := pd }
    (((cells t segs (planOrder arr mfv omt order).2).filterMap
        (cellFrame arr segs t mfv (planOrder arr mfv omt order).1)).map (·.px))
    hb3 hn
    (by intro f hf; obtain ⟨g, hg, rfl⟩ := List.mem_map.mp hf; exact (hfr g hg).2.1)
    (by intro f hf; obtain ⟨g, hg, rfl⟩ := List.mem_map.mp hf; exact (hfr g hg).2.2)
    (by simp) hpd i (by simpa using hi)
  simpa using this

/-- ... and that cell is the property's expectation for the segment and source plane the frame names: a frame of
    segment `s` holds `expectedPlane` of `s` in that plane of the user's mask; the one-hot expansion of a LABELMAP frame holds
    it for every described segment -/
theorem frame_expected (codec : Option Codec) (hcodec : ∀ c, codec = some c → ∀ x, c.dec (c.enc x) = x)
    (rows cols : Nat) (t : SegType) (segs : List Nat) (mfv : Nat) (omt : Bool) (order : List Nat) (m : Mask)
    (hin : ∀ p ∈ order, p < m.numPlanes) (o : SegObj) (hb : build codec rows cols t segs mfv omt order m = .ok o)
    (i : Nat) (hi : i < o.keys.length) :
    ∃ px mpl, readFrame codec o i = .ok px ∧ m.plane? o.keys[i].2 = some mpl ∧
      (∀ s, o.keys[i].1 = some s → ∃ j, ∃ hj : j < segs.length, segs[j] = s ∧ expectedPlane t mfv j s mpl = some px) ∧
      (o.keys[i].1 = none → ∀ j (hj : j < segs.length),
          expectedPlane t mfv j segs[j] mpl = some (px.map fun v => if v = segs[j] then 1 else 0)) := by
  obtain ⟨arr, ov, hcm, hsub, hall⟩ := frames_read codec hcodec rows cols t segs mfv omt order m hin o hb
  obtain ⟨px, hpx, hrd⟩ := hall i hi
  obtain ⟨bits, arr', ov', frames, pd, hca, hcm', hnp, hsz, hsf, hpd, ho⟩ := build_inv _ _ _ _ _ _ _ _ _ _ hb
  rw [hcm] at hcm'
  simp only [Except.ok.injEq, Prod.mk.injEq] at hcm'
  obtain ⟨rfl, rfl⟩ := hcm'
  obtain ⟨hcs, hmfv, _, hbits⟩ := checkArgs_inv _ _ _ _ _ hca
  have hs := checkSegs_ok t segs hcs
  obtain ⟨hrel, _, _⟩ := castMask_rel segs t m arr ov hs hcm
  have hmem : o.keys[i] ∈ cells t segs (planOrder arr mfv omt order).2 := hsub.subset (List.getElem_mem hi)
  obtain ⟨hsg, hp⟩ := (mem_cells t segs _ _).mp hmem
  have hplt : o.keys[i].2 < m.numPlanes := hin _ (planOrder_sub arr omt order _ hp)
  obtain ⟨mpl, hmpl⟩ := plane?_of_lt m _ hplt
  refine ⟨px, mpl, hrd, hmpl, ?_, ?_⟩
  · intro s hs1
    rw [hs1] at hsg hpx
    have ht : t ≠ .labelmap := by
      intro hc
      simp [segmentsIterable, hc] at hsg
    have hsm : s ∈ segs := by
      simp only [segmentsIterable, ht, ↓reduceIte, List.mem_map, Option.some.injEq] at hsg
      obtain ⟨a, ha, rfl⟩ := hsg; exact ha
    obtain ⟨j, hj, rfl⟩ := List.getElem_of_mem hsm
    obtain ⟨e, he, h1, _⟩ := cell_spec segs t mfv (rows * cols) m arr hs hrel hsz (fun h => (hmfv h).2) bits hbits j hj _ mpl hmpl
    have := h1 ht
    rw [hpx] at this
    simp only [Except.ok.injEq] at this
    subst this
    exact ⟨j, hj, rfl, he⟩
  · intro hnone j hj
    rw [hnone] at hsg hpx
    have ht : t = .labelmap := by
      by_contra hc
      simp [segmentsIterable, hc] at hsg
    obtain ⟨e, he, _, h2⟩ := cell_spec segs t mfv (rows * cols) m arr hs hrel hsz (fun h => (hmfv h).2) bits hbits j hj _ mpl hmpl
    obtain ⟨lab, hlab, hmap⟩ := h2 ht
    rw [hpx] at hlab
    simp only [Except.ok.injEq] at hlab
    subst hlab
    rw [he, hmap]

/-! ## slide coordinates -/

theorem mem_insertUniq (v x : Rat) (l : List Rat) : x ∈ insertUniq v l ↔ x = v ∨ x ∈ l := by
  induction l with
  | nil => simp [insertUniq]
  | cons a t ih =>
    unfold insertUniq
    split
    · simp
    · split
      · rename_i h; simp only [List.mem_cons]; constructor
        · intro hx; right; exact hx
        · rintro (rfl | hx)
          · left; exact h
          · exact hx
      · simp only [List.mem_cons, ih]
        constructor
        · rintro (h | h | h)
          · right; left; exact h
          · left; exact h
          · right; right; exact h
        · rintro (h | h | h)
          · right; left; exact h
          · left; exact h
          · right; right; exact h

theorem insertUniq_sorted (v : Rat) (l : List Rat) (h : l.Pairwise (· < ·)) : (insertUniq v l).Pairwise (· < ·) := by
  induction l with
  | nil => simp [insertUniq]
  | cons a t ih =>
    have ht := (List.pairwise_cons.mp h).2
    have ha := (List.pairwise_cons.mp h).1
    unfold insertUniq
    split
    · rename_i hva
      apply List.pairwise_cons.mpr
      refine ⟨?_, h⟩
      intro x hx
      rcases List.mem_cons.mp hx with rfl | hx
      · exact hva
      · exact lt_trans hva (ha x hx)
    · split
      · exact h
      · rename_i h1 h2
        apply List.pairwise_cons.mpr
        refine ⟨?_, ih ht⟩
        intro x hx
        rcases (mem_insertUniq v x t).mp hx with rfl | hx
        · exact lt_of_le_of_ne (not_lt.mp h1) (Ne.symm h2)
        · exact ha x hx

theorem uniqueSorted_sorted (l : List Rat) : (uniqueSorted l).Pairwise (· < ·) := by
  unfold uniqueSorted
  induction l with
  | nil => simp
  | cons a t ih => exact insertUniq_sorted a _ ih

theorem mem_uniqueSorted (l : List Rat) (x : Rat) : x ∈ uniqueSorted l ↔ x ∈ l := by
  unfold uniqueSorted
  induction l with
  | nil => simp
  | cons a t ih => simp only [List.foldr_cons, mem_insertUniq, ih, List.mem_cons]

/-- in a strictly increasing list the position of a value grows with the value -/
theorem idxOf_lt_of_sorted (u : List Rat) (hu : u.Pairwise (· < ·)) (a b : Rat) (ha : a ∈ u) (hb : b ∈ u) (hab : a < b) :
    u.idxOf a < u.idxOf b := by
  have hnd : u.Nodup := hu.imp (fun h => ne_of_lt h)
  obtain ⟨i, hi, rfl⟩ := List.getElem_of_mem ha
  obtain ⟨j, hj, rfl⟩ := List.getElem_of_mem hb
  rw [hnd.idxOf_getElem i hi, hnd.idxOf_getElem j hj]
  by_contra hc
  have hji : j ≤ i := by omega
  rcases Nat.lt_or_eq_of_le hji with hlt | heq
  · have := (List.pairwise_iff_getElem.mp hu) j i hj hi hlt
    exact absurd hab (not_lt.mpr (le_of_lt this))
  · subst heq; exact absurd hab (lt_irrefl _)

/-- **tiles stored in raster order carry lexicographically increasing slide index vectors**: `row`, `col` = position of a tile
    in the total pixel matrix (the first two coordinates), `extra` = the remaining ones (x, y, z), `ur`, `uc`, `ue` the
    unique-value tables; `ord` = the visited tiles in the order of the loop -/
theorem slide_dims_sorted (t : SegType) (segs ord : List Nat) (hs : SegsOK t segs)
    (row col : Nat → Rat) (extra : Nat → List Rat) (ur uc : List Rat) (ue : List (List Rat))
    (hur : ur.Pairwise (· < ·)) (huc : uc.Pairwise (· < ·))
    (hmr : ∀ p ∈ ord, row p ∈ ur) (hmc : ∀ p ∈ ord, col p ∈ uc)
    (hraster : ord.Pairwise (fun p q => row p < row q ∨ (row p = row q ∧ col p < col q))) :
    (cells t segs ord).Pairwise (fun c d =>
      lexLt (slideDimIndexValues (ur :: uc :: ue) c.1 (row c.2 :: col c.2 :: extra c.2))
            (slideDimIndexValues (ur :: uc :: ue) d.1 (row d.2 :: col d.2 :: extra d.2)) = true) := by
  have hpos : ∀ sg : Option Nat, ∀ p q, p ∈ ord → q ∈ ord → (row p < row q ∨ (row p = row q ∧ col p < col q)) →
      lexLt (slideDimIndexValues (ur :: uc :: ue) sg (row p :: col p :: extra p))
            (slideDimIndexValues (ur :: uc :: ue) sg (row q :: col q :: extra q)) = true := by
    intro sg p q hp hq h
    have key : lexLt ((ur.idxOf (row p) + 1) :: (uc.idxOf (col p) + 1) :: List.zipWith (fun u v => u.idxOf v + 1) ue (extra p))
        ((ur.idxOf (row q) + 1) :: (uc.idxOf (col q) + 1) :: List.zipWith (fun u v => u.idxOf v + 1) ue (extra q)) = true := by
      rcases h with h | ⟨h1, h2⟩
      · exact lexLt_cons_lt _ _ _ _ (by have := idxOf_lt_of_sorted ur hur _ _ (hmr p hp) (hmr q hq) h; omega)
      · rw [h1]
        exact lexLt_cons_eq _ _ _ (lexLt_cons_lt _ _ _ _
          (by have := idxOf_lt_of_sorted uc huc _ _ (hmc p hp) (hmc q hq) h2; omega))
    unfold slideDimIndexValues
    cases sg with
    | none => simpa [segPrefix, List.zipWith] using key
    | some s => simp only [segPrefix, List.zipWith, List.cons_append, List.nil_append]; exact lexLt_cons_eq _ _ _ key
  unfold cells
  rw [List.pairwise_flatMap]
  constructor
  · intro sg _
    rw [List.pairwise_map]
    exact hraster.imp_of_mem (fun {p q} hp hq h => hpos sg p q hp hq h)
  · unfold segmentsIterable
    by_cases ht : t = .labelmap
    · simp [ht]
    · simp only [ht, ↓reduceIte]
      rw [List.pairwise_map]
      have hlt : segs.Pairwise (· < ·) := by
        rw [hs.consec ht]
        exact List.pairwise_lt_range' 1
      apply hlt.imp
      intro a b hab x hx y hy
      obtain ⟨p, _, rfl⟩ := List.mem_map.mp hx
      obtain ⟨q, _, rfl⟩ := List.mem_map.mp hy
      unfold slideDimIndexValues
      simp only [segPrefix, List.cons_append, List.nil_append]
      exact lexLt_cons_lt _ _ _ _ hab

/-- the tiles of a grid with `nC` tiles per row, visited in increasing order, are in raster order of their (row, column)
    positions in the total pixel matrix -/
theorem raster_of_increasing (ord : List Nat) (nC tr tc : Nat) (hnC : 0 < nC) (htr : 0 < tr) (htc : 0 < tc)
    (hord : ord.Pairwise (· < ·)) :
    ord.Pairwise (fun p q =>
      (((p / nC * tr + 1 : Nat) : Rat) < ((q / nC * tr + 1 : Nat) : Rat)) ∨
      ((((p / nC * tr + 1 : Nat) : Rat) = ((q / nC * tr + 1 : Nat) : Rat)) ∧
        (((p % nC * tc + 1 : Nat) : Rat) < ((q % nC * tc + 1 : Nat) : Rat)))) := by
  apply hord.imp
  intro p q hpq
  have hdiv : p / nC ≤ q / nC := Nat.div_le_div_right (Nat.le_of_lt hpq)
  rcases Nat.lt_or_eq_of_le hdiv with hlt | heq
  · left
    have : p / nC * tr + 1 < q / nC * tr + 1 := by
      have := Nat.mul_lt_mul_of_pos_right hlt htr
      omega
    exact_mod_cast this
  · right
    refine ⟨by rw [heq], ?_⟩
    have h1 : p / nC * nC + p % nC = p := Nat.div_add_mod' p nC
    have h2 : q / nC * nC + q % nC = q := Nat.div_add_mod' q nC
    have hm : p % nC < q % nC := by rw [heq] at h1; omega
    have : p % nC * tc + 1 < q % nC * tc + 1 := by
      have := Nat.mul_lt_mul_of_pos_right hm htc
      omega
    exact_mod_cast this

end HdVerif.SegEncodeLemmas
