import HdVerif.Proofs.AffineRound
import HdVerif.Proofs.AffineImage
set_option linter.unusedSimpArgs false
namespace HdVerif.Affine

theorem imgToImgAffine_eval (P Q : Plane) (hP : P.Valid) (hQ : Q.Valid) :
    ∃ mi, (Q.fwd 1).m.inv = .ok mi ∧
      imgToImgAffine P.posL P.oriL P.ps Q.posL Q.oriL Q.ps
        = (if 1 - rabs (P.nrm.dot Q.nrm) ≤ eqTol ∧ rabs ((P.pos.sub Q.pos).dot P.nrm) < eqTol
           then .ok ((((Aff.shift (vecOfTriple Gen.pixToImCorrection)).comp (Aff.mk mi (mi.mulVec Q.pos).neg)).comp (P.fwd 1)).comp
                      (Aff.shift (vecOfTriple Gen.imToPixCorrection)))
           else .error .value) := by
  obtain ⟨mi, hmi, hinv⟩ := invAffine_eval Q hQ (sbs := 1) one_ne_zero
  refine ⟨mi, hmi, ?_⟩
  have hfwd : affineFromAttributes P.posL P.oriL P.ps 1 ['R', 'D'] false true = .ok (P.fwd 1) := by
    have := affineFromAttributes_eval P hP.hr hP.hc (cv := ('R', 'D')) (Or.inl rfl) false true 1
    simp only at this
    rw [this, ← fwd_eq_frame]; rfl
  simp only [imgToImgAffine, ofList_posL, ofList_oriL, areCoplanar_iff, hfwd, hinv, bind, Except.bind, pure, Except.pure]
  by_cases h : 1 - rabs (P.nrm.dot Q.nrm) ≤ eqTol ∧ rabs ((P.pos.sub Q.pos).dot P.nrm) < eqTol
  · rw [if_pos h, decide_eq_true h]; rfl
  · rw [if_neg h, decide_eq_false h]; rfl

/-- both directions of the image-to-image transformer between two valid planes in the same plane exist and undo each other -/
theorem imgToImg_roundtrip (P Q : Plane) (hP : P.Valid) (hQ : Q.Valid) (hn : P.nrm.dot P.nrm = 1) (h : SamePlane P Q) :
    ∃ ab ba, imgToImgAffine P.posL P.oriL P.ps Q.posL Q.oriL Q.ps = .ok ab ∧
      imgToImgAffine Q.posL Q.oriL Q.ps P.posL P.oriL P.ps = .ok ba ∧
      ∀ x y : Rat, ∃ x' y', ab.apply ⟨x, y, 0⟩ = ⟨x', y', 0⟩ ∧ ba.apply ⟨x', y', 0⟩ = ⟨x, y, 0⟩ := by
  obtain ⟨mq, hmq, hab⟩ := imgToImgAffine_eval P Q hP hQ
  obtain ⟨mp, hmp, hba⟩ := imgToImgAffine_eval Q P hQ hP
  rw [if_pos (h.accepted hn)] at hab
  rw [if_pos (h.symm.accepted (h.unit hn))] at hba
  refine ⟨_, _, hab, hba, fun x y => ?_⟩
  obtain ⟨b1, hb1, hc1⟩ := imgToImg_conjugates_pixToPix hab
  obtain ⟨b2, hb2, hc2⟩ := imgToImg_conjugates_pixToPix hba
  obtain ⟨mq', hmq', hb1'⟩ := pixToPixAffine_eval P Q hP hQ
  obtain ⟨mp', hmp', hb2'⟩ := pixToPixAffine_eval Q P hQ hP
  rw [hmq] at hmq'; cases hmq'
  rw [hmp] at hmp'; cases hmp'
  rw [if_pos (h.accepted hn), hb1] at hb1'
  rw [if_pos (h.symm.accepted (h.unit hn)), hb2] at hb2'
  cases hb1'; cases hb2'
  obtain ⟨x', y', h1, h2⟩ := p2p_roundtrip hP hQ h hmp hmq (x - 1 / 2) (y - 1 / 2)
  refine ⟨x' + 1 / 2, y' + 1 / 2, ?_, ?_⟩
  · rw [hc1, h1]; simp [V3.add]
  · rw [hc2]
    have e : (⟨x' + 1 / 2 - 1 / 2, y' + 1 / 2 - 1 / 2, 0⟩ : V3) = ⟨x', y', 0⟩ := by
      simp only [V3.mk.injEq]; refine ⟨?_, ?_, trivial⟩ <;> ring
    rw [e, h2]
    simp only [V3.add, V3.mk.injEq]; refine ⟨?_, ?_, ?_⟩ <;> ring

/-- the regenerated call specs are consistent: argument width + stacked constant rows = 4 (the 4×4 affine applies), at most 3 rows
returned, the tested column exists and is the one that is cut, integer-only exactly for the two pixel-index classes -/
theorem callSpecs_consistent :
    ∀ s ∈ [Gen.pixToRefCallSpec, Gen.refToPixCallSpec, Gen.pixToPixCallSpec, Gen.imgToRefCallSpec, Gen.refToImgCallSpec,
            Gen.imgToImgCallSpec],
      CallSpec.width s + (CallSpec.pad s).length = 4 ∧ (CallSpec.pad s).getLast? = some 1 ∧ CallSpec.keep s ≤ 3 ∧
      (∀ col thr k, CallSpec.drop s = some (col, thr, k) → col < CallSpec.keep s ∧ k = col ∧ thr = 1 / 2) ∧
      (CallSpec.intOnly s = true ↔ (s = Gen.pixToRefCallSpec ∨ s = Gen.pixToPixCallSpec)) := by
  intro s hs
  simp only [List.mem_cons, List.mem_nil_iff, or_false] at hs
  rcases hs with rfl | rfl | rfl | rfl | rfl | rfl <;>
    simp [CallSpec.width, CallSpec.pad, CallSpec.keep, CallSpec.drop, CallSpec.intOnly, Gen.pixToRefCallSpec, Gen.refToPixCallSpec,
      Gen.pixToPixCallSpec, Gen.imgToRefCallSpec, Gen.refToImgCallSpec, Gen.imgToImgCallSpec]

/-- the regenerated lookup tables of `_get_spatial_information` are consistent: every functional group is looked up in the shared
groups FIRST and in the frame's own item second; the total pixel matrix reads the shared groups only; the four `for_image`
constructors hand the same position, orientation and pixel spacing on, the inverse ones also the slice spacing, with the same default -/
theorem spatialTables_consistent :
    (∀ e ∈ Gen.spatialLookups, e.2 = ['s', 'f']) ∧ Gen.spatialLookups.map (·.1) =
      ["PixelMeasuresSequence", "PlaneOrientationSequence", "PlanePositionSequence", "PlanePositionSlideSequence"] ∧
    Gen.totalMatrixMeasuresLookup = ['s'] ∧ Gen.tiledFullHasNoFrameGroups = true ∧
    (∀ (a b c : List Rat) (d : Option Rat), Gen.pixToRefForImage a b c d = (a, b, c, none) ∧ Gen.imgToRefForImage a b c d = (a, b, c, none)) ∧
    (∀ (a b c : List Rat) (d : Rat), Gen.refToPixForImage a b c d = (a, b, c, some d) ∧ Gen.refToImgForImage a b c d = (a, b, c, some d)) ∧
    Gen.refToPixForImageDefaultSliceSpacing = 1 ∧ Gen.refToImgForImageDefaultSliceSpacing = 1 ∧
    Gen.iterDefaultSliceSpacing = 1 ∧ Gen.iterDefaultZ = Gen.totalMatrixDefaultZ ∧ Gen.iterDefaultFocalPlanes = 1 ∧
    Gen.iterLoopNest = ["channel", "slice_index", "tile"] := by
  refine ⟨by decide, by decide, rfl, rfl, fun _ _ _ _ => ⟨rfl, rfl⟩, fun _ _ _ _ => ⟨rfl, rfl⟩, by norm_num [Gen.refToPixForImageDefaultSliceSpacing],
    by norm_num [Gen.refToImgForImageDefaultSliceSpacing], by norm_num [Gen.iterDefaultSliceSpacing], rfl, rfl, rfl⟩

/-- the channel does not enter the spatial information of a TILED_FULL frame -/
theorem spatialInfo_channel_independent {ds : ImageDs} {tf : TiledFull} {P : Plane} {z sbs : Option Rat} (h : TiledSlide ds tf P z sbs)
    (ch ch' pl tr tc : Nat) (hch : ch < tf.channels) (hch' : ch' < tf.channels) (hpl : pl < tf.npl) (htr : tr < tf.ntr) (htc : tc < tf.ntc) :
    getSpatialInformation ds (some (tf.frameNumber ch pl tr tc)) false = getSpatialInformation ds (some (tf.frameNumber ch' pl tr tc)) false := by
  rw [spatialInfo_tiled_frame h ch pl tr tc hch hpl htr htc, spatialInfo_tiled_frame h ch' pl tr tc hch' hpl htr htc]

/-- **frame → total pixel matrix as a pixel-to-pixel transformer** (first focal plane, any channel, any tile): `for_images(ds, ds,
frame_number_from = f, for_total_pixel_matrix_to = True)` exists and maps pixel `(c, r)` of the frame to pixel `(tc·Columns + c,
tr·Rows + r)` of the total pixel matrix, slice index exactly 0 -/
theorem forImages_frame_to_total {ds : ImageDs} {tf : TiledFull} {P : Plane} {z sbs : Option Rat} (h : TiledSlide ds tf P z sbs)
    (hP : P.Valid) (hn : P.nrm.dot P.nrm = 1) (u : String) (hu : ds.frameOfReference = some u)
    (ch tr tc : Nat) (hch : ch < tf.channels) (hpl : 0 < tf.npl) (htr : tr < tf.ntr) (htc : tc < tf.ntc) :
    ∃ a, pixToPixForImages ds ds (some (tf.frameNumber ch 0 tr tc)) none false true = .ok a ∧
      ∀ c r : Rat, a.apply ⟨c, r, 0⟩ = ⟨(((tc : Int) * tf.cols : Int) : Rat) + c, (((tr : Int) * tf.rows : Int) : Rat) + r, 0⟩ := by
  have hinfo := spatialInfo_tiled_frame h ch 0 tr tc hch hpl htr htc
  have htot := spatialInfo_total h none
  set v0 : V3 := ⟨(((tc : Int) * tf.cols : Int) : Rat), (((tr : Int) * tf.rows : Int) : Rat), 0⟩ with hv0
  set posf := ((P.lift (((0 : Nat) : Rat) * sbs.getD 1)).fwd 1).apply v0 with hposf
  have hposf' : posf = (P.fwd 1).apply v0 := by
    rw [hposf, Plane.lift_fwd_apply]
    generalize (P.fwd 1).apply v0 = w
    cases w; simp [V3.add]
  let Q : Plane := Plane.mk posf P.o P.sr P.sc
  have hQ : Q.Valid := ⟨hP.hr, hP.hc, hP.hn⟩
  have hsame : SamePlane Q P := by
    refine ⟨Or.inl rfl, ?_⟩
    show posf.dot P.nrm = P.pos.dot P.nrm
    rw [hposf', V3.dot_comm, hv0, fwd_in_plane, V3.dot_comm]
  obtain ⟨mi, hmi, hev⟩ := pixToPixAffine_eval Q P hQ hP
  rw [if_pos (hsame.accepted (by show P.nrm.dot P.nrm = 1; exact hn))] at hev
  have hc := (forImages_eq_constructor ds ds u hu hu (some (tf.frameNumber ch 0 tr tc)) none false true _ _ hinfo htot).1
  refine ⟨(Aff.mk mi (mi.mulVec P.pos).neg).comp (Q.fwd 1), ?_, ?_⟩
  · rw [hc]
    simp only [← hposf, V3.toList_eq_posL posf P.o P.sr P.sc]
    exact hev
  · intro c r
    rw [Aff.comp_apply]
    have e : (Q.fwd 1).apply ⟨c, r, 0⟩ = (P.fwd 1).apply ⟨v0.x + c, v0.y + r, 0⟩ := by
      show (Plane.fwd ⟨posf, P.o, P.sr, P.sc⟩ 1).apply ⟨c, r, 0⟩ = _
      rw [hposf']
      obtain ⟨⟨px, py, pz⟩, ⟨⟨a1, a2, a3⟩, ⟨b1, b2, b3⟩⟩, sr, sc⟩ := P
      simp only [Plane.fwd, Aff.apply, M3.mulVec, V3.smul, V3.add, Plane.nrm, V3.cross, V3.mk.injEq]
      refine ⟨?_, ?_, ?_⟩ <;> ring
    rw [e]
    have := Aff.inv_apply_left hmi P.pos ⟨v0.x + c, v0.y + r, 0⟩
    simp only [Plane.fwd] at this ⊢
    exact this

/-- the same for image coordinates: `ImageToImageTransformer.for_images(frame → total pixel matrix)` shifts by the same integers -/
theorem forImages_frame_to_total_image {ds : ImageDs} {tf : TiledFull} {P : Plane} {z sbs : Option Rat} (h : TiledSlide ds tf P z sbs)
    (hP : P.Valid) (hn : P.nrm.dot P.nrm = 1) (u : String) (hu : ds.frameOfReference = some u)
    (ch tr tc : Nat) (hch : ch < tf.channels) (hpl : 0 < tf.npl) (htr : tr < tf.ntr) (htc : tc < tf.ntc) :
    ∃ a, imgToImgForImages ds ds (some (tf.frameNumber ch 0 tr tc)) none false true = .ok a ∧
      ∀ x y : Rat, a.apply ⟨x, y, 0⟩ = ⟨(((tc : Int) * tf.cols : Int) : Rat) + x, (((tr : Int) * tf.rows : Int) : Rat) + y, 0⟩ := by
  have hinfo := spatialInfo_tiled_frame h ch 0 tr tc hch hpl htr htc
  have htot := spatialInfo_total h none
  set v0 : V3 := ⟨(((tc : Int) * tf.cols : Int) : Rat), (((tr : Int) * tf.rows : Int) : Rat), 0⟩ with hv0
  set posf := ((P.lift (((0 : Nat) : Rat) * sbs.getD 1)).fwd 1).apply v0 with hposf
  have hposf' : posf = (P.fwd 1).apply v0 := by
    rw [hposf, Plane.lift_fwd_apply]
    generalize (P.fwd 1).apply v0 = w
    cases w; simp [V3.add]
  let Q : Plane := Plane.mk posf P.o P.sr P.sc
  have hQ : Q.Valid := ⟨hP.hr, hP.hc, hP.hn⟩
  have hsame : SamePlane Q P := by
    refine ⟨Or.inl rfl, ?_⟩
    show posf.dot P.nrm = P.pos.dot P.nrm
    rw [hposf', V3.dot_comm, hv0, fwd_in_plane, V3.dot_comm]
  have hacc := hsame.accepted (by show P.nrm.dot P.nrm = 1; exact hn)
  obtain ⟨mi, hmi, hev⟩ := imgToImgAffine_eval Q P hQ hP
  rw [if_pos hacc] at hev
  obtain ⟨mi', hmi', hevp⟩ := pixToPixAffine_eval Q P hQ hP
  rw [if_pos hacc] at hevp
  rw [hmi] at hmi'; cases hmi'
  have hc := (forImages_eq_constructor ds ds u hu hu (some (tf.frameNumber ch 0 tr tc)) none false true _ _ hinfo htot).2
  obtain ⟨b, hb, hconj⟩ := imgToImg_conjugates_pixToPix hev
  rw [hevp] at hb
  cases hb
  refine ⟨(((Aff.shift (vecOfTriple Gen.pixToImCorrection)).comp (Aff.mk mi (mi.mulVec P.pos).neg)).comp (Q.fwd 1)).comp
      (Aff.shift (vecOfTriple Gen.imToPixCorrection)), ?_, ?_⟩
  · rw [hc]
    simp only [← hposf, V3.toList_eq_posL posf P.o P.sr P.sc]
    exact hev
  · intro x y
    rw [hconj, Aff.comp_apply]
    have e : (Q.fwd 1).apply ⟨x - 1 / 2, y - 1 / 2, 0⟩ = (P.fwd 1).apply ⟨v0.x + (x - 1 / 2), v0.y + (y - 1 / 2), 0⟩ := by
      show (Plane.fwd ⟨posf, P.o, P.sr, P.sc⟩ 1).apply ⟨x - 1 / 2, y - 1 / 2, 0⟩ = _
      rw [hposf']
      obtain ⟨⟨px, py, pz⟩, ⟨⟨a1, a2, a3⟩, ⟨b1, b2, b3⟩⟩, sr, sc⟩ := P
      simp only [Plane.fwd, Aff.apply, M3.mulVec, V3.smul, V3.add, Plane.nrm, V3.cross, V3.mk.injEq]
      refine ⟨?_, ?_, ?_⟩ <;> ring
    rw [e]
    have := Aff.inv_apply_left hmi P.pos ⟨v0.x + (x - 1 / 2), v0.y + (y - 1 / 2), 0⟩
    simp only [Plane.fwd] at this ⊢
    rw [this]
    simp only [V3.add, V3.mk.injEq, hv0]
    refine ⟨?_, ?_, ?_⟩ <;> ring

end HdVerif.Affine
