import HdVerif.Model.CodingStore
import HdVerif.Proofs.Coding
/-! C17: lemmas on dicts / sets keyed by coded concepts and on histories over the object store. -/
namespace HdVerif.Coding
open HdVerif HdVerif.Gen

abbrev Key := Option String × Option String × Option String

/-- the hash of a well-formed object: `h (scheme ++ value)` -/
def hashVal (h : String → Int) (o : Obj) : Int :=
  h ((specScheme o).getD "" ++ (specValue o).getD "")

theorem hashOf_wf (h : String → Int) (o : Obj) (hw : o.wf) : hashOf h o = .ok (hashVal h o) := by
  obtain ⟨s, hs⟩ := wf_scheme_some o hw
  obtain ⟨v, hv⟩ := wf_value_some o hw
  simp [hashOf, hashInput_spec o hw s v hs hv, hashVal, hs, hv]

/-- what a dict sees of a key: its hash and its normalised identity -/
def sig (h : String → Int) (retired : String → String → Option String) (o : Obj) : Int × Key :=
  (hashVal h o, key retired o)

variable {β : Type}

/-- the entry answers the query `q` = (hash, normalised key) -/
def hit (retired : String → String → Option String) (q : Int × Key) (e : Entry β) : Bool :=
  decide ((e.hash, key retired e.key) = q)

def pFind (retired : String → String → Option String) (q : Int × Key) : PyDict β → Option β
  | [] => none
  | e :: rest => if hit retired q e then some e.val else pFind retired q rest

def pSet (retired : String → String → Option String) (q : Int × Key) (k : Obj) (v : β) : PyDict β → PyDict β
  | [] => [⟨q.1, k, v⟩]
  | e :: rest => if hit retired q e then { e with val := v } :: rest else e :: pSet retired q k v rest

def pDel (retired : String → String → Option String) (q : Int × Key) : PyDict β → Option (PyDict β)
  | [] => none
  | e :: rest => if hit retired q e then some rest else
    match pDel retired q rest with
    | none => none
    | some r => some (e :: r)

/-- every stored key is well-formed and stored with its own hash -/
def PyDict.WF (h : String → Int) (d : PyDict β) : Prop := ∀ e ∈ d, e.key.wf ∧ e.hash = hashVal h e.key

def hits (retired : String → String → Option String) (q : Int × Key) (d : PyDict β) : Nat :=
  (d.filter (hit retired q)).length

/-- no two entries can answer the same query (so the probe order cannot be observed) -/
def PyDict.distinct (retired : String → String → Option String) (d : PyDict β) : Prop := ∀ q, hits retired q d ≤ 1

theorem hit_iff (retired : String → String → Option String) (hk : Int) (kk : Key) (e : Entry β) :
    hit retired (hk, kk) e = true ↔ e.hash = hk ∧ key retired e.key = kk := by
  simp [hit]

/-! #### the executable operations are the pure ones on well-formed dicts -/

theorem pyGetH_pure (h : String → Int) (retired : String → String → Option String) (hk : Int) (k : Obj) (hkw : k.wf)
    (d : PyDict β) (hd : d.WF h) :
    pyGetH retired hk k d = .ok (pFind retired (hk, key retired k) d) := by
  induction d with
  | nil => rfl
  | cons e rest ih =>
    have he := hd e (by simp)
    have hr : PyDict.WF h rest := fun x hx => hd x (by simp [hx])
    simp only [pyGetH, pFind]
    by_cases h1 : e.hash = hk
    · simp only [h1, if_true, objEq_key retired e.key k he.1 hkw]
      by_cases h2 : key retired e.key = key retired k
      · have : hit retired (hk, key retired k) e = true := (hit_iff retired hk _ e).mpr ⟨h1, h2⟩
        simp [h2, this]
      · have : hit retired (hk, key retired k) e = false := by
          rw [Bool.eq_false_iff]; intro hh; exact h2 ((hit_iff retired hk _ e).mp hh).2
        simp [h2, this, ih hr]
    · have : hit retired (hk, key retired k) e = false := by
        rw [Bool.eq_false_iff]; intro hh; exact h1 ((hit_iff retired hk _ e).mp hh).1
      simp [h1, this, ih hr]

theorem pySetH_pure (h : String → Int) (retired : String → String → Option String) (hk : Int) (k : Obj) (hkw : k.wf) (v : β)
    (d : PyDict β) (hd : d.WF h) :
    pySetH retired hk k v d = .ok (pSet retired (hk, key retired k) k v d) := by
  induction d with
  | nil => rfl
  | cons e rest ih =>
    have he := hd e (by simp)
    have hr : PyDict.WF h rest := fun x hx => hd x (by simp [hx])
    simp only [pySetH, pSet]
    by_cases h1 : e.hash = hk
    · simp only [h1, if_true, objEq_key retired e.key k he.1 hkw]
      by_cases h2 : key retired e.key = key retired k
      · have : hit retired (hk, key retired k) e = true := (hit_iff retired hk _ e).mpr ⟨h1, h2⟩
        simp [h2, this]
      · have : hit retired (hk, key retired k) e = false := by
          rw [Bool.eq_false_iff]; intro hh; exact h2 ((hit_iff retired hk _ e).mp hh).2
        simp [h2, this, ih hr]
    · have : hit retired (hk, key retired k) e = false := by
        rw [Bool.eq_false_iff]; intro hh; exact h1 ((hit_iff retired hk _ e).mp hh).1
      simp [h1, this, ih hr]

theorem pyDelH_pure (h : String → Int) (retired : String → String → Option String) (hk : Int) (k : Obj) (hkw : k.wf)
    (d : PyDict β) (hd : d.WF h) :
    pyDelH retired hk k d = .ok (pDel retired (hk, key retired k) d) := by
  induction d with
  | nil => rfl
  | cons e rest ih =>
    have he := hd e (by simp)
    have hr : PyDict.WF h rest := fun x hx => hd x (by simp [hx])
    simp only [pyDelH, pDel]
    by_cases h1 : e.hash = hk
    · simp only [h1, if_true, objEq_key retired e.key k he.1 hkw]
      by_cases h2 : key retired e.key = key retired k
      · have : hit retired (hk, key retired k) e = true := (hit_iff retired hk _ e).mpr ⟨h1, h2⟩
        simp [h2, this]
      · have : hit retired (hk, key retired k) e = false := by
          rw [Bool.eq_false_iff]; intro hh; exact h2 ((hit_iff retired hk _ e).mp hh).2
        simp only [h2, decide_false, this, ih hr]
        cases pDel retired (hk, key retired k) rest <;> simp
    · have : hit retired (hk, key retired k) e = false := by
        rw [Bool.eq_false_iff]; intro hh; exact h1 ((hit_iff retired hk _ e).mp hh).1
      simp only [h1, if_false, this, ih hr]
      cases pDel retired (hk, key retired k) rest <;> simp

/-! #### the pure operations -/

theorem hit_setval (retired : String → String → Option String) (q : Int × Key) (e : Entry β) (v : β) :
    hit retired q { e with val := v } = hit retired q e := rfl

theorem pFind_pSet (retired : String → String → Option String) (q q' : Int × Key) (k : Obj) (v : β)
    (hq : key retired k = q.2) (d : PyDict β) :
    pFind retired q' (pSet retired q k v d) = if q' = q then some v else pFind retired q' d := by
  induction d with
  | nil =>
    have : ((q.1, key retired k) : Int × Key) = q := by rw [hq]
    by_cases h : q' = q
    · subst h; simp [pSet, pFind, hit, this]
    · have : ¬ ((q.1, key retired k) : Int × Key) = q' := by rw [this]; exact fun x => h x.symm
      simp [pSet, pFind, hit, h, this]
  | cons e rest ih =>
    simp only [pSet]
    by_cases h1 : hit retired q e = true
    · simp only [h1, if_true, pFind, hit_setval]
      by_cases h : q' = q
      · subst h; simp [h1]
      · have : hit retired q' e = false := by
          rw [Bool.eq_false_iff]; intro hh
          simp only [hit, decide_eq_true_eq] at h1 hh
          exact h (hh.symm.trans h1)
        simp [this, h]
    · have h1' : hit retired q e = false := by simpa using h1
      simp only [h1', Bool.false_eq_true, if_false, pFind]
      by_cases h2 : hit retired q' e = true
      · have : q' ≠ q := by
          intro hh; subst hh; rw [h2] at h1'; cases h1'
        simp [h2, this]
      · have h2' : hit retired q' e = false := by simpa using h2
        simp only [h2', Bool.false_eq_true, if_false, ih]

theorem pSet_WF (h : String → Int) (retired : String → String → Option String) (q : Int × Key) (k : Obj) (v : β)
    (hkw : k.wf) (hq : q.1 = hashVal h k) (d : PyDict β) (hd : d.WF h) : (pSet retired q k v d).WF h := by
  induction d with
  | nil =>
    intro e he
    simp only [pSet, List.mem_singleton] at he
    subst he
    exact ⟨hkw, hq⟩
  | cons e rest ih =>
    have he := hd e (by simp)
    have hr : PyDict.WF h rest := fun x hx => hd x (by simp [hx])
    simp only [pSet]
    split
    · intro x hx
      simp only [List.mem_cons] at hx
      rcases hx with rfl | hx
      · exact he
      · exact hr x hx
    · intro x hx
      simp only [List.mem_cons] at hx
      rcases hx with rfl | hx
      · exact he
      · exact ih hr x hx

theorem hits_pSet (retired : String → String → Option String) (q q' : Int × Key) (k : Obj) (v : β)
    (hq : key retired k = q.2) (d : PyDict β) :
    hits retired q' (pSet retired q k v d) =
      if q' = q then (if hits retired q d = 0 then 1 else hits retired q d) else hits retired q' d := by
  induction d with
  | nil =>
    have : ((q.1, key retired k) : Int × Key) = q := by rw [hq]
    by_cases h : q' = q
    · subst h; simp [pSet, hits, hit, this]
    · have : ¬ ((q.1, key retired k) : Int × Key) = q' := by rw [this]; exact fun x => h x.symm
      simp [pSet, hits, hit, h, this]
  | cons e rest ih =>
    simp only [pSet]
    by_cases h1 : hit retired q e = true
    · simp only [h1, if_true]
      by_cases h : q' = q
      · subst h
        simp [hits, List.filter, hit_setval, h1]
      · have : hit retired q' e = false := by
          rw [Bool.eq_false_iff]; intro hh
          simp only [hit, decide_eq_true_eq] at h1 hh
          exact h (hh.symm.trans h1)
        simp [hits, List.filter, hit_setval, this, h]
    · have h1' : hit retired q e = false := by simpa using h1
      simp only [h1', Bool.false_eq_true, if_false]
      by_cases h2 : hit retired q' e = true
      · have hne : q' ≠ q := by
          intro hh; subst hh; rw [h2] at h1'; cases h1'
        have := ih
        simp only [hits, hne, if_false] at this ⊢
        simp [List.filter, h2, this]
      · have h2' : hit retired q' e = false := by simpa using h2
        have := ih
        simp only [hits] at this ⊢
        by_cases h : q' = q
        · subst h
          simp only [if_true] at this ⊢
          simp [List.filter, h2', this]
        · simp only [h, if_false] at this ⊢
          simp [List.filter, h2', this]

theorem pSet_distinct (retired : String → String → Option String) (q : Int × Key) (k : Obj) (v : β)
    (hq : key retired k = q.2) (d : PyDict β) (hd : d.distinct retired) : (pSet retired q k v d).distinct retired := by
  intro q'
  rw [hits_pSet retired q q' k v hq d]
  by_cases h : q' = q
  · subst h
    have := hd q'
    simp only [if_true]
    split <;> omega
  · simp only [h, if_false]; exact hd q'

theorem length_pSet (retired : String → String → Option String) (q : Int × Key) (k : Obj) (v : β) (d : PyDict β) :
    (pSet retired q k v d).length = d.length + (if hits retired q d = 0 then 1 else 0) := by
  induction d with
  | nil => simp [pSet, hits]
  | cons e rest ih =>
    simp only [pSet]
    by_cases h1 : hit retired q e = true
    · simp [h1, hits, List.filter]
    · have h1' : hit retired q e = false := by simpa using h1
      have hh : hits retired q (e :: rest) = hits retired q rest := by simp [hits, List.filter, h1']
      simp only [h1', Bool.false_eq_true, if_false, List.length_cons, ih, hh]
      omega

theorem pFind_none_iff (retired : String → String → Option String) (q : Int × Key) (d : PyDict β) :
    pFind retired q d = none ↔ hits retired q d = 0 := by
  induction d with
  | nil => simp [pFind, hits]
  | cons e rest ih =>
    by_cases h1 : hit retired q e = true
    · simp [pFind, hits, List.filter, h1]
    · have h1' : hit retired q e = false := by simpa using h1
      simp only [pFind, h1', Bool.false_eq_true, if_false, ih, hits, List.filter]

theorem pDel_spec (retired : String → String → Option String) (q q' : Int × Key) (d : PyDict β) (hd : d.distinct retired) :
    match pDel retired q d with
    | none => hits retired q d = 0
    | some d' => hits retired q d = 1 ∧ d'.length + 1 = d.length ∧
        pFind retired q' d' = (if q' = q then none else pFind retired q' d) ∧
        (∀ q'', hits retired q'' d' ≤ hits retired q'' d) ∧ (∀ e ∈ d', e ∈ d) := by
  induction d with
  | nil => show hits retired q ([] : PyDict β) = 0; rfl
  | cons e rest ih =>
    have hr : PyDict.distinct retired rest := by
      intro q''
      have := hd q''
      simp only [hits, List.filter] at this ⊢
      split at this <;> (try simp only [List.length_cons] at this) <;> omega
    simp only [pDel]
    by_cases h1 : hit retired q e = true
    · simp only [h1, if_true]
      have hq0 : hits retired q rest = 0 := by
        have := hd q
        simp only [hits, List.filter, h1, List.length_cons] at this ⊢
        omega
      refine ⟨by simp [hits, List.filter, h1] at hq0 ⊢; exact hq0, by simp, ?_, ?_, fun x hx => by simp [hx]⟩
      · by_cases h : q' = q
        · subst h
          simp only [if_true]
          exact (pFind_none_iff retired q' rest).mpr hq0
        · have : hit retired q' e = false := by
            rw [Bool.eq_false_iff]; intro hh
            simp only [hit, decide_eq_true_eq] at h1 hh
            exact h (hh.symm.trans h1)
          simp [pFind, this, h]
      · intro q''
        simp only [hits, List.filter]
        split <;> simp
    · have h1' : hit retired q e = false := by simpa using h1
      simp only [h1', Bool.false_eq_true, if_false]
      have ih' := ih hr
      cases hdel : pDel retired q rest with
      | none =>
        rw [hdel] at ih'
        simp only at ih' ⊢
        simpa [hits, List.filter, h1'] using ih'
      | some r =>
        rw [hdel] at ih'
        obtain ⟨g1, g2, g3, g4, g5⟩ := ih'
        refine ⟨by simpa [hits, List.filter, h1'] using g1, by simp [g2], ?_, ?_, ?_⟩
        · simp only [pFind]
          by_cases h2 : hit retired q' e = true
          · have : q' ≠ q := by
              intro hh; subst hh; rw [h2] at h1'; cases h1'
            simp [h2, this]
          · have h2' : hit retired q' e = false := by simpa using h2
            simp only [h2', Bool.false_eq_true, if_false, g3]
        · intro q''
          have := g4 q''
          simp only [hits, List.filter] at this ⊢
          split <;> simp <;> omega
        · intro x hx
          simp only [List.mem_cons] at hx ⊢
          rcases hx with rfl | hx
          · left; rfl
          · right; exact g5 x hx

/-! #### histories on the object store -/

theorem setAttr_length (h : Heap) (r : Nat) (k v : String) : (setAttr h r k v).length = h.length := by
  unfold setAttr; split <;> simp

theorem setAttr_other (h : Heap) (r j : Nat) (k v : String) (hj : j ≠ r) : (setAttr h r k v)[j]? = h[j]? := by
  unfold setAttr
  split
  · rfl
  · rw [List.getElem?_set_ne (Ne.symm hj)]

/-- one step: the store only grows, and every existing object other than the one written through is untouched -/
theorem stepH_frame (h : Heap) (op : HOp) (h' : Heap) (out : Option Nat) (hs : stepH h op = .ok (h', out)) :
    h.length ≤ h'.length ∧ (∀ j, j < h.length → op.target ≠ some j → h'[j]? = h[j]?) ∧
    (∀ r, out = some r → r < h'.length) := by
  cases op with
  | new v s m ver =>
    simp only [stepH] at hs
    split at hs
    · cases hs
    · cases hs
      refine ⟨by simp, fun j hj _ => by rw [List.getElem?_append_left hj], fun r hr => by cases hr; simp⟩
  | fromCode v s m ver =>
    simp only [stepH] at hs
    split at hs
    · cases hs
    · cases hs
      refine ⟨by simp, fun j hj _ => by rw [List.getElem?_append_left hj], fun r hr => by cases hr; simp⟩
    · cases hs
  | fromConcept r =>
    simp only [stepH] at hs
    split at hs
    · cases hs
    · rename_i cell hc
      split at hs
      · split at hs
        · cases hs
        · cases hs
          refine ⟨Nat.le_refl _, fun _ _ _ => rfl, fun r' hr' => ?_⟩
          cases hr'
          rcases Nat.lt_or_ge r h.length with hl | hl
          · exact hl
          · rw [List.getElem?_eq_none hl] at hc; cases hc
      · cases hs
  | fromDataset r copy =>
    simp only [stepH] at hs
    split at hs
    · cases hs
    · rename_i h2 r2 hfd
      cases hs
      cases hc : h[r]? with
      | none => simp [fromDataset, hc] at hfd
      | some cell =>
        have hlt : r < h.length := by
          rcases Nat.lt_or_ge r h.length with hl | hl
          · exact hl
          · rw [List.getElem?_eq_none hl] at hc; cases hc
        by_cases hacc : acceptable cell
        · rw [fromDataset_ok h r copy cell hc hacc] at hfd
          cases copy
          · simp only [Bool.false_eq_true, if_false, Except.ok.injEq, Prod.mk.injEq] at hfd
            obtain ⟨rfl, rfl⟩ := hfd
            refine ⟨by simp, fun j _ hne => ?_, fun r' hr' => by cases hr'; simpa using hlt⟩
            have : j ≠ r := by
              intro hh; apply hne; simp [HOp.target, hh]
            rw [List.getElem?_set_ne (Ne.symm this)]
          · simp only [if_true, Except.ok.injEq, Prod.mk.injEq] at hfd
            obtain ⟨rfl, rfl⟩ := hfd
            refine ⟨by simp, fun j hj _ => by rw [List.getElem?_append_left hj], fun r' hr' => by cases hr'; simp⟩
        · rw [fromDataset_err h r copy cell hc hacc] at hfd; cases hfd
  | deepcopy r =>
    simp only [stepH] at hs
    split at hs
    · cases hs
    · cases hs
      refine ⟨by simp, fun j hj _ => by rw [List.getElem?_append_left hj], fun r hr => by cases hr; simp⟩
  | set r k v =>
    simp only [stepH] at hs
    split at hs
    · cases hs
    · cases hs
      refine ⟨by rw [setAttr_length]; exact Nat.le_refl _, fun j _ hne => ?_, fun r hr => by cases hr⟩
      have : j ≠ r := by
        intro hh; apply hne; simp [HOp.target, hh]
      exact setAttr_other h r j k v this
  | del r k =>
    simp only [stepH] at hs
    split at hs
    · cases hs
    · split at hs
      · cases hs
        refine ⟨by simp, fun j _ hne => ?_, fun r hr => by cases hr⟩
        have : j ≠ r := by
          intro hh; apply hne; simp [HOp.target, hh]
        rw [List.getElem?_set_ne (Ne.symm this)]
      · cases hs

/-- a whole history: an object that no step writes through is at the end what it was at the start -/
theorem runH_frame (ops : List HOp) : ∀ (h : Heap) (j : Nat), j < h.length → (∀ op ∈ ops, op.target ≠ some j) →
    (runH h ops).1[j]? = h[j]? ∧ h.length ≤ (runH h ops).1.length := by
  induction ops with
  | nil => intro h j _ _; exact ⟨rfl, Nat.le_refl _⟩
  | cons op rest ih =>
    intro h j hj hall
    simp only [runH]
    cases hs : stepH h op with
    | error e =>
      simp only
      exact ih h j hj (fun o ho => hall o (by simp [ho]))
    | ok p =>
      obtain ⟨h', out⟩ := p
      simp only
      obtain ⟨hlen, hfr, _⟩ := stepH_frame h op h' out hs
      have h1 := ih h' j (by omega) (fun o ho => hall o (by simp [ho]))
      refine ⟨?_, by omega⟩
      rw [h1.1]
      exact hfr j hj (hall op (by simp))

/-! #### strings through a written file -/

theorem dropWhile_eq_self (p : Char → Bool) (l : List Char) :
    l.dropWhile p = l ↔ ∀ c, l.head? = some c → p c = false := by
  cases l with
  | nil => simp
  | cons c cs =>
    simp only [List.dropWhile_cons, List.head?_cons, Option.some.injEq, forall_eq']
    by_cases h : p c = true
    · simp only [h, if_true]
      constructor
      · intro he
        have := (List.dropWhile_sublist (l := cs) p).length_le
        rw [he] at this
        simp only [List.length_cons] at this
        omega
      · intro hh; cases hh
    · simp [h]

/-- nothing is stripped exactly when the string does not end in a character of the set -/
theorem stripTrailingBy_eq_self (p : Char → Bool) (s : String) :
    stripTrailingBy p s = s ↔ ∀ c, s.toList.getLast? = some c → p c = false := by
  unfold stripTrailingBy
  rw [← String.toList_inj, String.toList_ofList, List.reverse_eq_iff, dropWhile_eq_self, List.head?_reverse]

theorem stripTrailingBy_length_le (p : Char → Bool) (s : String) : (stripTrailingBy p s).toList.length ≤ s.toList.length := by
  unfold stripTrailingBy
  rw [String.toList_ofList, List.length_reverse]
  have := (List.dropWhile_sublist (l := s.toList.reverse) p).length_le
  simpa using this

/-- stripping can only give back a string of the same length when it strips nothing -/
theorem stripTrailingBy_same_length (p : Char → Bool) (s : String)
    (h : (stripTrailingBy p s).toList.length = s.toList.length) : stripTrailingBy p s = s := by
  unfold stripTrailingBy at h ⊢
  rw [String.toList_ofList, List.length_reverse] at h
  have hs := List.dropWhile_sublist (l := s.toList.reverse) p
  have := hs.eq_of_length (by simpa using h)
  rw [this, List.reverse_reverse, String.ofList_toList]

theorem map_repertoire_eq_self (l : List Char) : l.map toDefaultRepertoire = l ↔ ∀ c ∈ l, c.val < 256 := by
  induction l with
  | nil => simp
  | cons c cs ih =>
    simp only [List.map_cons, List.cons.injEq, ih, List.mem_cons, forall_eq_or_imp]
    constructor
    · rintro ⟨h1, h2⟩
      refine ⟨?_, h2⟩
      unfold toDefaultRepertoire at h1
      by_cases hc : c.val < 256
      · exact hc
      · simp only [hc, if_false] at h1
        exfalso; apply hc; rw [← h1]; decide
    · rintro ⟨h1, h2⟩
      exact ⟨by simp [toDefaultRepertoire, h1], h2⟩

/-- **a string survives the file unchanged exactly when every character is in the default repertoire and it does not end
in a character the reader strips from that attribute** -/
theorem readBack_eq_self (kw : String) (s : String) :
    readBack kw s = s ↔ (∀ c ∈ s.toList, c.val < 256) ∧ (∀ c, s.toList.getLast? = some c → stripSet kw c = false) := by
  unfold readBack
  constructor
  · intro h
    have hlen : (stripTrailingBy (stripSet kw) (String.ofList (s.toList.map toDefaultRepertoire))).toList.length =
        (String.ofList (s.toList.map toDefaultRepertoire)).toList.length := by
      rw [h, String.toList_ofList, List.length_map]
    have h2 := stripTrailingBy_same_length _ _ hlen
    rw [h2] at h
    have h3 : s.toList.map toDefaultRepertoire = s.toList := by
      have := congrArg String.toList h
      rwa [String.toList_ofList] at this
    refine ⟨(map_repertoire_eq_self s.toList).mp h3, ?_⟩
    have h4 := (stripTrailingBy_eq_self (stripSet kw) _).mp h2
    rw [String.toList_ofList, h3] at h4
    exact h4
  · rintro ⟨h1, h2⟩
    have h3 := (map_repertoire_eq_self s.toList).mpr h1
    rw [h3, String.ofList_toList]
    exact (stripTrailingBy_eq_self (stripSet kw) s).mpr h2

theorem get_fileRoundTrip (d : DS) (k : String) : DS.get (fileRoundTrip d) k = (DS.get d k).map (readBack k) := by
  induction d with
  | nil => rfl
  | cons e rest ih =>
    obtain ⟨a, b⟩ := e
    simp only [DS.get, fileRoundTrip, List.map_cons, List.lookup] at ih ⊢
    by_cases h : k = a
    · subst h; simp
    · have : (k == a) = false := by simpa using h
      simp [this, ih]

/-! #### specification vocabulary for dict histories -/

/-- the value of the LAST insertion of the history whose key lands in the slot of `k'` -/
def lastMatch {β : Type} (h : String → Int) (retired : String → String → Option String) (k' : Obj) : List (Obj × β) → Option β
  | [] => none
  | (k, v) :: rest => match lastMatch h retired k' rest with
    | some w => some w
    | none => if sig h retired k' = sig h retired k then some v else none

theorem pySet_pure {β : Type} (h : String → Int) (retired : String → String → Option String) (d : PyDict β) (hd : d.WF h)
    (k : Obj) (hk : k.wf) (v : β) :
    pySet h retired d k v = .ok (pSet retired (sig h retired k) k v d) := by
  simp only [pySet, hashOf_wf h k hk, pySetH_pure h retired _ k hk v d hd, sig]

theorem pyGet_pure {β : Type} (h : String → Int) (retired : String → String → Option String) (d : PyDict β) (hd : d.WF h)
    (k : Obj) (hk : k.wf) :
    pyGet h retired d k = .ok (pFind retired (sig h retired k) d) := by
  simp only [pyGet, hashOf_wf h k hk, pyGetH_pure h retired _ k hk d hd, sig]

theorem pyDel_pure {β : Type} (h : String → Int) (retired : String → String → Option String) (d : PyDict β) (hd : d.WF h)
    (k : Obj) (hk : k.wf) :
    pyDel h retired d k = .ok (pDel retired (sig h retired k) d) := by
  simp only [pyDel, hashOf_wf h k hk, pyDelH_pure h retired _ k hk d hd, sig]

/-- the concept the constructor builds and the `Code` with the same value, scheme and version (any meaning) land in the
same dict slot -/
theorem sig_built (h : String → Int) (retired : String → String → Option String) (v s m m' : String) (ver : Option String) :
    sig h retired (.concept (builtDS (stdKeyword v) v s m ver)) = sig h retired (.code ⟨some v, some s, some m', ver⟩) := by
  rcases stdKeyword_cases v with hk | hk | hk <;> rw [hk] <;> cases ver <;>
    simp [sig, hashVal, key, specValue, specScheme, specVersion, builtDS, DS.get, List.lookup]

theorem runH_length (ops : List HOp) : ∀ (h : Heap), h.length ≤ (runH h ops).1.length := by
  induction ops with
  | nil => intro h; exact Nat.le_refl _
  | cons op rest ih =>
    intro h
    simp only [runH]
    cases hs : stepH h op with
    | error e => exact ih h
    | ok p =>
      obtain ⟨h', out⟩ := p
      exact Nat.le_trans (stepH_frame h op h' out hs).1 (ih h')

end HdVerif.Coding

namespace HdVerif.Coding
open HdVerif HdVerif.Gen

/-! #### `copy.copy` -/

/-- no step re-points an existing object -/
theorem sstep_objs (s : OStore) (op : SOp) (a : Nat) (ha : a < s.objs.length) : (sstep s op).objs[a]? = s.objs[a]? := by
  cases op with
  | shallow o =>
    simp only [sstep]
    split
    · rfl
    · simp [List.getElem?_append_left ha]
  | deep o =>
    simp only [sstep]
    split
    · rfl
    · simp [List.getElem?_append_left ha]
  | set o k v =>
    simp only [sstep]
    split <;> rfl
  | del o k =>
    simp only [sstep]
    split <;> rfl

theorem sstep_objs_length (s : OStore) (op : SOp) : s.objs.length ≤ (sstep s op).objs.length := by
  cases op with
  | shallow o => simp only [sstep]; split <;> simp
  | deep o => simp only [sstep]; split <;> simp
  | set o k v => simp only [sstep]; split <;> simp
  | del o k => simp only [sstep]; split <;> simp

theorem srun_objs (ops : List SOp) : ∀ (s : OStore) (a : Nat), a < s.objs.length → (srun s ops).objs[a]? = s.objs[a]? := by
  induction ops with
  | nil => intro s a _; rfl
  | cons op rest ih =>
    intro s a ha
    simp only [srun, List.foldl_cons]
    have := ih (sstep s op) a (Nat.lt_of_lt_of_le ha (sstep_objs_length s op))
    simp only [srun] at this
    rw [this, sstep_objs s op a ha]

end HdVerif.Coding
