import HdVerif.Proofs.SegTiles
/-! C01, tiled masks: **casting the whole matrix and cutting it into tiles afterwards (what the source does) is cutting first
and casting the tiles (what `buildTiled` does)**.  The checks of `_check_and_cast_pixel_array` look at pixel values only --
a maximum, the existence of a pixel with some property, a per-pixel conversion -- and the padding of edge tiles adds only
background, which none of them notices. -/
namespace HdVerif.SegEncodeLemmas
open HdVerif HdVerif.Gen HdVerif.SegEncode

/-! ## the tiles as one map over the index lists -/

/-- the position lists of all tiles, row-major -/
def tileIdxs (R C tr tc : Nat) : List (List (Option Nat)) :=
  (List.range (tilesAlong R tr)).flatMap fun k => (List.range (tilesAlong C tc)).map fun l => tileIdx R C tr tc k l

theorem tilesOf_eq_map {α} (z : α) (R C tr tc : Nat) (px : List α) :
    tilesOf z R C tr tc px = (tileIdxs R C tr tc).map (gatherL z px) := by
  unfold tilesOf tileIdxs
  rw [List.map_flatMap]
  apply List.flatMap_congr
  intro k _
  rw [List.map_map]
  rfl

/-- a tile holds pixels of the matrix and background, nothing else -/
theorem mem_gatherL {α} (z : α) (px : List α) (idx : List (Option Nat)) (v : α) (h : v ∈ gatherL z px idx) :
    v = z ∨ v ∈ px := by
  unfold gatherL at h
  obtain ⟨o, _, rfl⟩ := List.mem_map.mp h
  cases o with
  | none => left; rfl
  | some i =>
    simp only [pick, List.getD_eq_getElem?_getD]
    by_cases hi : i < px.length
    · right; rw [List.getElem?_eq_getElem hi]; exact List.getElem_mem hi
    · left; rw [List.getElem?_eq_none (by omega)]; rfl

/-- every pixel of the matrix is in some tile -/
theorem mem_tiles_of_mem {α} (z : α) (R C tr tc : Nat) (htr : 1 ≤ tr) (htc : 1 ≤ tc) (px : List α) (hlen : px.length = R * C)
    (v : α) (hv : v ∈ px) : ∃ tile ∈ tilesOf z R C tr tc px, v ∈ tile := by
  obtain ⟨i, hi, rfl⟩ := List.getElem_of_mem hv
  have hC : 0 < C := by
    rcases Nat.eq_zero_or_pos C with h | h
    · rw [h, Nat.mul_zero] at hlen; omega
    · exact h
  have hr : i / C < R := by
    rw [Nat.div_lt_iff_lt_mul hC]; rw [hlen] at hi; exact hi
  have hc : i % C < C := Nat.mod_lt _ hC
  have hk := div_lt_tilesAlong R tr (i / C) htr hr
  have hl := div_lt_tilesAlong C tc (i % C) htc hc
  refine ⟨gatherL z px (tileIdx R C tr tc (i / C / tr) (i % C / tc)), ?_, ?_⟩
  · exact List.mem_of_getElem? (tilesOf_getElem? z R C tr tc px _ _ hk hl)
  · have h1 := tileIdx_covers R C tr tc (i / C) (i % C) htr htc hr hc
    have h2 := gatherL_getElem? z px _ _ _ h1
    have e : i / C * C + i % C = i := Nat.div_add_mod' i C
    rw [e] at h2
    have : pick z px (some i) = px[i] := by
      simp [pick, List.getD_eq_getElem?_getD, List.getElem?_eq_getElem hi]
    rw [this] at h2
    exact List.mem_of_getElem? h2

theorem tilesOf_ne_nil {α} (z : α) (R C tr tc : Nat) (hR : 1 ≤ R) (hC : 1 ≤ C) (htr : 1 ≤ tr) (htc : 1 ≤ tc) (px : List α) :
    tilesOf z R C tr tc px ≠ [] := by
  intro h
  have := tilesOf_length z R C tr tc px
  rw [h] at this
  have h1 : 0 < tilesAlong R tr := Nat.lt_of_le_of_lt (Nat.zero_le _) (div_lt_tilesAlong R tr 0 htr (by omega))
  have h2 : 0 < tilesAlong C tc := Nat.lt_of_le_of_lt (Nat.zero_le _) (div_lt_tilesAlong C tc 0 htc (by omega))
  have h3 : 0 < tilesAlong R tr * tilesAlong C tc := Nat.mul_pos h1 h2
  simp only [List.length_nil] at this
  omega

theorem tile_length {α} (z : α) (R C tr tc : Nat) (px : List α) (tile : List α) (h : tile ∈ tilesOf z R C tr tc px) :
    tile.length = tr * tc := by
  rw [tilesOf_eq_map] at h
  obtain ⟨idx, hidx, rfl⟩ := List.mem_map.mp h
  unfold tileIdxs at hidx
  obtain ⟨k, _, hm⟩ := List.mem_flatMap.mp hidx
  obtain ⟨l, _, rfl⟩ := List.mem_map.mp hm
  unfold gatherL tileIdx
  rw [List.length_map, length_flatMap_range_map]

/-! ## what the checks see is the same -/

/-- "some pixel has property `q`" -- for a property background does not have -/
theorem any_tiles {α} (z : α) (R C tr tc : Nat) (htr : 1 ≤ tr) (htc : 1 ≤ tc) (px : List α) (hlen : px.length = R * C)
    (q : α → Bool) (hz : q z = false) :
    (tilesOf z R C tr tc px).any (fun pl => pl.any q) = px.any q := by
  rw [Bool.eq_iff_iff]
  simp only [List.any_eq_true]
  constructor
  · rintro ⟨tile, ht, v, hv, hq⟩
    rw [tilesOf_eq_map] at ht
    obtain ⟨idx, _, rfl⟩ := List.mem_map.mp ht
    rcases mem_gatherL z px idx v hv with rfl | hm
    · rw [hz] at hq; cases hq
    · exact ⟨v, hm, hq⟩
  · rintro ⟨v, hv, hq⟩
    obtain ⟨tile, ht, hvt⟩ := mem_tiles_of_mem z R C tr tc htr htc px hlen v hv
    exact ⟨tile, ht, v, hvt, hq⟩

/-- the largest value of a measure `f` over all pixels -- background measuring 0 -/
theorem listMax_tiles {α} (z : α) (R C tr tc : Nat) (htr : 1 ≤ tr) (htc : 1 ≤ tc) (px : List α) (hlen : px.length = R * C)
    (f : α → Nat) (hz : f z = 0) :
    listMax ((tilesOf z R C tr tc px).map fun pl => listMax (pl.map f)) = listMax (px.map f) := by
  apply Nat.le_antisymm
  · apply listMax_le
    intro m hm
    obtain ⟨tile, ht, rfl⟩ := List.mem_map.mp hm
    apply listMax_le
    intro w hw
    obtain ⟨v, hv, rfl⟩ := List.mem_map.mp hw
    rw [tilesOf_eq_map] at ht
    obtain ⟨idx, _, rfl⟩ := List.mem_map.mp ht
    rcases mem_gatherL z px idx v hv with rfl | hmem
    · rw [hz]; exact Nat.zero_le _
    · exact le_listMax _ _ (List.mem_map.mpr ⟨v, hmem, rfl⟩)
  · apply listMax_le
    intro w hw
    obtain ⟨v, hv, rfl⟩ := List.mem_map.mp hw
    obtain ⟨tile, ht, hvt⟩ := mem_tiles_of_mem z R C tr tc htr htc px hlen v hv
    have h1 : f v ≤ listMax (tile.map f) := le_listMax _ _ (List.mem_map.mpr ⟨v, hvt, rfl⟩)
    have h2 : listMax (tile.map f) ≤ listMax ((tilesOf z R C tr tc px).map fun pl => listMax (pl.map f)) :=
      le_listMax _ _ (List.mem_map.mpr ⟨tile, ht, rfl⟩)
    omega

/-- a per-pixel conversion commutes with cutting -/
theorem tilesOf_map {α β} (f : α → β) (z : α) (z' : β) (hz : f z = z') (R C tr tc : Nat) (px : List α) :
    (tilesOf z R C tr tc px).map (·.map f) = tilesOf z' R C tr tc (px.map f) := by
  rw [tilesOf_eq_map, tilesOf_eq_map, List.map_map]
  apply List.map_congr_left
  intro idx _
  exact gatherL_map f z z' hz px idx

theorem mapE_gatherL {α β ε} (f : α → Except ε β) (z : α) (z' : β) (hz : f z = .ok z') (px : List α) (r : List β)
    (h : mapE f px = .ok r) (idx : List (Option Nat)) : mapE f (gatherL z px idx) = .ok (gatherL z' r idx) := by
  obtain ⟨hl, hall⟩ := mapE_ok_inv f px r h
  unfold gatherL
  rw [mapE_map]
  apply mapE_ok_of_forall
  intro o _
  cases o with
  | none => exact hz
  | some i =>
    simp only [pick, List.getD_eq_getElem?_getD]
    by_cases hi : i < px.length
    · have hi' : i < r.length := by omega
      rw [List.getElem?_eq_getElem hi, List.getElem?_eq_getElem hi']
      exact hall i hi hi'
    · have h1 : px[i]? = none := List.getElem?_eq_none (by omega)
      have h2 : r[i]? = none := List.getElem?_eq_none (by omega)
      rw [h1, h2]
      exact hz

/-- a per-pixel conversion that can fail commutes with cutting, too -/
theorem mapE_tilesOf {α β ε} (f : α → Except ε β) (z : α) (z' : β) (hz : f z = .ok z') (R C tr tc : Nat) (px : List α)
    (r : List β) (h : mapE f px = .ok r) :
    mapE (fun pl => mapE f pl) (tilesOf z R C tr tc px) = .ok (tilesOf z' R C tr tc r) := by
  rw [tilesOf_eq_map, tilesOf_eq_map, mapE_map]
  apply mapE_ok_of_forall
  intro idx _
  exact mapE_gatherL f z z' hz px r h idx

/-! ## `castMask` commutes with cutting -/

theorem listMax_singleton (a : Nat) : listMax [a] = a := by simp [listMax]

theorem planeSizes_tiles_ok {α} (z : α) (R C tr tc : Nat) (htr : 1 ≤ tr) (htc : 1 ≤ tc) (px : List α) :
    ((tilesOf z R C tr tc px).map (·.length)).any (· == 0) = false := by
  rw [List.any_eq_false]
  intro n hn
  obtain ⟨tile, ht, rfl⟩ := List.mem_map.mp hn
  rw [tile_length z R C tr tc px tile ht]
  have : 0 < tr * tc := Nat.mul_pos (by omega) (by omega)
  simp; omega

theorem castMask_inv (segs : List Nat) (t : SegType) (m : Mask) (r : Mask × Overlap) (h : castMask segs t m = .ok r) :
    chanOk segs.length m = true ∧ m.numPlanes ≠ 0 ∧ (∀ sz ∈ m.planeSizes, sz ≠ 0) ∧
      ∃ r0, castValues segs t m = .ok r0 ∧ castLabelmap segs t r0 = .ok r := by
  unfold castMask at h
  split at h
  · cases h
  · rename_i hchan
    split at h
    · cases h
    · rename_i hempty
      refine ⟨by simpa using hchan, fun hc => hempty (Or.inl hc), ?_, ?_⟩
      · intro sz hsz hc
        apply hempty; right
        exact List.any_eq_true.mpr ⟨sz, hsz, by simp [hc]⟩
      · cases hv : castValues segs t m with
        | error e => rw [hv] at h; cases h
        | ok r0 => rw [hv] at h; exact ⟨r0, rfl, h⟩

theorem castMask_of (segs : List Nat) (t : SegType) (m : Mask) (r0 : Mask × Overlap) (hchan : chanOk segs.length m = true)
    (hnp : m.numPlanes ≠ 0) (hsz : ∀ sz ∈ m.planeSizes, sz ≠ 0) (hv : castValues segs t m = .ok r0) :
    castMask segs t m = castLabelmap segs t r0 := by
  unfold castMask
  rw [if_neg (by simpa using hchan)]
  rw [if_neg]
  · rw [hv]
  · rintro (hc | hc)
    · exact hnp hc
    · obtain ⟨sz, hm, hz⟩ := List.any_eq_true.mp hc
      exact hsz sz hm (by simpa using hz)

theorem tiles_sizes_ne_zero {α} (z : α) (R C tr tc : Nat) (htr : 1 ≤ tr) (htc : 1 ≤ tc) (px : List α) :
    ∀ sz ∈ (tilesOf z R C tr tc px).map (·.length), sz ≠ 0 := by
  intro sz hsz
  obtain ⟨tile, ht, rfl⟩ := List.mem_map.mp hsz
  rw [tile_length z R C tr tc px tile ht]
  exact Nat.ne_of_gt (Nat.mul_pos (by omega) (by omega))

theorem tiles_length_ne_zero {α} (z : α) (R C tr tc : Nat) (hR : 1 ≤ R) (hC : 1 ≤ C) (htr : 1 ≤ tr) (htc : 1 ≤ tc)
    (px : List α) : (tilesOf z R C tr tc px).length ≠ 0 :=
  fun h => tilesOf_ne_nil z R C tr tc hR hC htr htc px (List.length_eq_zero_iff.mp h)

/-- label-map style integers -/
theorem castMask_tiles_intLabel (segs : List Nat) (t : SegType) (R C tr tc : Nat) (hR : 1 ≤ R) (hC : 1 ≤ C) (htr : 1 ≤ tr)
    (htc : 1 ≤ tc) (p0 : List Nat) (hlen : p0.length = R * C) (r : Mask × Overlap)
    (hcm : castMask segs t (.intLabel [p0]) = .ok r) :
    castMask segs t (.intLabel (tilesOf 0 R C tr tc p0)) = .ok (tileMask R C tr tc r.1, r.2) := by
  have hund : undescribed segs (tilesOf 0 R C tr tc p0) = undescribed segs [p0] := by
    unfold undescribed
    simp only []
    have h1 : listMax ((tilesOf 0 R C tr tc p0).map listMax) = listMax ([p0].map listMax) := by
      have := listMax_tiles 0 R C tr tc htr htc p0 hlen (fun v => v) rfl
      simp only [List.map_id'] at this
      simp only [List.map_cons, List.map_nil, listMax_singleton]
      exact this
    have h2 : (tilesOf 0 R C tr tc p0).any (fun pl => pl.any (fun v => decide (¬ v ∈ 0 :: segs)))
        = [p0].any (fun pl => pl.any (fun v => decide (¬ v ∈ 0 :: segs))) := by
      rw [any_tiles 0 R C tr tc htr htc p0 hlen _ (by simp)]
      simp
    rw [h1, h2]
  obtain ⟨_, _, _, r0, hv, hl⟩ := castMask_inv segs t _ r hcm
  simp only [castValues] at hv
  split at hv
  · cases hv
  · rename_i hu
    simp only [Except.ok.injEq] at hv
    subst hv
    rw [castMask_of segs t (.intLabel (tilesOf 0 R C tr tc p0)) (.intLabel (tilesOf 0 R C tr tc p0), .no) rfl
      (tiles_length_ne_zero 0 R C tr tc hR hC htr htc p0) (tiles_sizes_ne_zero 0 R C tr tc htr htc p0)
      (by simp only [castValues, hund, hu, Bool.false_eq_true, ↓reduceIte])]
    unfold castLabelmap at hl ⊢
    by_cases ht : t = .labelmap
    · simp only [ht, ↓reduceIte, reduceCtorEq, Except.ok.injEq] at hl ⊢
      subst hl
      simp [tileMask]
    · simp only [ht, ↓reduceIte, Except.ok.injEq] at hl ⊢
      subst hl
      simp [tileMask]

theorem any_tiles_single {α} (z : α) (R C tr tc : Nat) (htr : 1 ≤ tr) (htc : 1 ≤ tc) (px : List α) (hlen : px.length = R * C)
    (q : α → Bool) (hz : q z = false) :
    (tilesOf z R C tr tc px).any (fun pl => pl.any q) = [px].any (fun pl => pl.any q) := by
  rw [any_tiles z R C tr tc htr htc px hlen q hz]
  simp

/-- what `castLabelmap` does with anything but a stack of integers that does not overlap -/
theorem castLabelmap_label (segs : List Nat) (t : SegType) (a : Mask) (hns : ∀ ps, a ≠ .intStack ps) :
    castLabelmap segs t (a, .no) = .ok (a, .no) := by
  unfold castLabelmap
  cases a with
  | intStack ps => exact absurd rfl (hns ps)
  | intLabel ps => by_cases ht : t = .labelmap <;> simp [ht]
  | fltLabel ps => by_cases ht : t = .labelmap <;> simp [ht]
  | fltStack ps => by_cases ht : t = .labelmap <;> simp [ht]

/-- 2-D/3-D floats -/
theorem castMask_tiles_fltLabel (segs : List Nat) (t : SegType) (R C tr tc : Nat) (hR : 1 ≤ R) (hC : 1 ≤ C) (htr : 1 ≤ tr)
    (htc : 1 ≤ tc) (p0 : List Rat) (hlen : p0.length = R * C) (r : Mask × Overlap)
    (hcm : castMask segs t (.fltLabel [p0]) = .ok r) :
    castMask segs t (.fltLabel (tilesOf 0 R C tr tc p0)) = .ok (tileMask R C tr tc r.1, r.2) := by
  have h1 := any_tiles_single (0 : Rat) R C tr tc htr htc p0 hlen (fun x => decide (x < 0 ∨ 1 < x)) (by simp)
  have h2 := any_tiles_single (0 : Rat) R C tr tc htr htc p0 hlen (fun x => decide (0 < x ∧ x < 1)) (by simp)
  have h3 := any_tiles_single (0 : Rat) R C tr tc htr htc p0 hlen (fun x => decide (x = 1)) (by simp)
  obtain ⟨_, _, _, r0, hv, hl⟩ := castMask_inv segs t _ r hcm
  have hnp := tiles_length_ne_zero (0 : Rat) R C tr tc hR hC htr htc p0
  have hsz := tiles_sizes_ne_zero (0 : Rat) R C tr tc htr htc p0
  simp only [castValues] at hv
  split at hv
  · cases hv
  rename_i hr
  by_cases ht : t = .fractional
  · simp only [ht, ↓reduceIte] at hv
    split at hv
    · cases hv
    rename_i hone
    simp only [Except.ok.injEq] at hv
    subst hv
    rw [castLabelmap_label segs t _ (by intro ps hc; cases hc)] at hl
    simp only [Except.ok.injEq] at hl
    subst hl
    rw [castMask_of segs t (.fltLabel (tilesOf 0 R C tr tc p0)) (.fltLabel (tilesOf 0 R C tr tc p0), .no) rfl hnp hsz
      (by simp only [castValues, h1, hr, ht, hone, Bool.false_eq_true, ↓reduceIte])]
    rw [castLabelmap_label segs t _ (by intro ps hc; cases hc)]
    simp [tileMask]
  · simp only [ht, ↓reduceIte] at hv
    split at hv
    · cases hv
    rename_i hb
    split at hv
    · cases hv
    rename_i hd
    simp only [Except.ok.injEq] at hv
    subst hv
    rw [castLabelmap_label segs t _ (by intro ps hc; cases hc)] at hl
    simp only [Except.ok.injEq] at hl
    subst hl
    rw [castMask_of segs t (.fltLabel (tilesOf 0 R C tr tc p0))
      (.intLabel ((tilesOf 0 R C tr tc p0).map (·.map ratToNat)), .no) rfl hnp hsz
      (by simp only [castValues, h1, h2, h3, hr, ht, hb, hd, Bool.false_eq_true, ↓reduceIte])]
    rw [castLabelmap_label segs t _ (by intro ps hc; cases hc)]
    simp only [tileMask, List.map_cons, List.map_nil, List.headD_cons]
    rw [tilesOf_map ratToNat 0 0 ratToNat_zero]

/-! ### stacks: the background pixel is one zero per channel -/

theorem zeroLike_mem {α} (z : α) (px : List (List α)) (v : α) (h : v ∈ zeroLike z px) : v = z := by
  unfold zeroLike at h
  obtain ⟨_, _, rfl⟩ := List.mem_map.mp h
  rfl

theorem zeroLike_length {α} (z : α) (px : List (List α)) (n : Nat) (hne : px ≠ []) (h : ∀ ch ∈ px, ch.length = n) :
    (zeroLike z px).length = n := by
  obtain ⟨p0, t, rfl⟩ := List.exists_cons_of_ne_nil hne
  simp [zeroLike, h p0 (by simp)]

theorem listMax_zeroLike (px : List (List Nat)) : listMax (zeroLike 0 px) = 0 :=
  listMax_zero _ (fun v hv => zeroLike_mem 0 px v hv)

theorem sumNat_zeroLike (px : List (List Nat)) : sumNat (zeroLike 0 px) = 0 := by
  rw [sumNat_eq]
  apply List.sum_eq_zero
  intro v hv
  exact zeroLike_mem 0 px v hv

theorem combinePixel_zeroLike (segs : List Nat) (px : List (List Nat)) : combinePixel segs (zeroLike 0 px) = .ok 0 := by
  unfold combinePixel
  rw [stackLabel_zero _ (fun v hv => zeroLike_mem 0 px v hv)]
  rfl

theorem chanOk_tiles_int (n R C tr tc : Nat) (q0 : List (List Nat)) (hne : q0 ≠ [])
    (h : chanOk n (.intStack [q0]) = true) : chanOk n (.intStack (tilesOf (zeroLike 0 q0) R C tr tc q0)) = true := by
  have hq : ∀ ch ∈ q0, ch.length = n := fun ch hc => chanOk_int n [q0] h q0 (by simp) ch hc
  simp only [chanOk, List.all_eq_true]
  intro tile ht ch hch
  rw [tilesOf_eq_map] at ht
  obtain ⟨idx, _, rfl⟩ := List.mem_map.mp ht
  rcases mem_gatherL _ q0 idx ch hch with rfl | hm
  · simpa using zeroLike_length 0 q0 n hne hq
  · simpa using hq ch hm

theorem chanOk_tiles_flt (n R C tr tc : Nat) (q0 : List (List Rat)) (hne : q0 ≠ [])
    (h : chanOk n (.fltStack [q0]) = true) : chanOk n (.fltStack (tilesOf (zeroLike 0 q0) R C tr tc q0)) = true := by
  have hq : ∀ ch ∈ q0, ch.length = n := fun ch hc => chanOk_flt n [q0] h q0 (by simp) ch hc
  simp only [chanOk, List.all_eq_true]
  intro tile ht ch hch
  rw [tilesOf_eq_map] at ht
  obtain ⟨idx, _, rfl⟩ := List.mem_map.mp ht
  rcases mem_gatherL _ q0 idx ch hch with rfl | hm
  · simpa using zeroLike_length 0 q0 n hne hq
  · simpa using hq ch hm

theorem stackMax_tiles (R C tr tc : Nat) (htr : 1 ≤ tr) (htc : 1 ≤ tc) (q0 : List (List Nat)) (hlen : q0.length = R * C) :
    listMax ((tilesOf (zeroLike 0 q0) R C tr tc q0).map fun pl => listMax (pl.map listMax))
      = listMax ([q0].map fun pl => listMax (pl.map listMax)) := by
  rw [listMax_tiles _ R C tr tc htr htc q0 hlen listMax (listMax_zeroLike q0)]
  simp [listMax_singleton]

theorem overlap_tiles (n R C tr tc : Nat) (htr : 1 ≤ tr) (htc : 1 ≤ tc) (q0 : List (List Nat)) (hlen : q0.length = R * C) :
    overlapOfStack n (tilesOf (zeroLike 0 q0) R C tr tc q0) = overlapOfStack n [q0] := by
  unfold overlapOfStack
  rw [stackMax_tiles R C tr tc htr htc q0 hlen]
  rw [any_tiles_single _ R C tr tc htr htc q0 hlen (fun ch => decide (sumNat ch > 1)) (by simp [sumNat_zeroLike])]

theorem castLabelmap_tiles_stack (segs : List Nat) (t : SegType) (R C tr tc : Nat) (q0 : List (List Nat)) (ov : Overlap)
    (r : Mask × Overlap) (h : castLabelmap segs t (.intStack [q0], ov) = .ok r) :
    castLabelmap segs t (.intStack (tilesOf (zeroLike 0 q0) R C tr tc q0), ov) = .ok (tileMask R C tr tc r.1, r.2) := by
  unfold castLabelmap at h ⊢
  by_cases ht : t = .labelmap
  · simp only [ht, ↓reduceIte] at h ⊢
    by_cases hov : ov = .yes
    · simp only [hov, ↓reduceIte, reduceCtorEq] at h
    · simp only [hov, ↓reduceIte] at h ⊢
      simp only [mapE] at h
      cases hq : mapE (combinePixel segs) q0 with
      | error e => rw [hq] at h; simp at h
      | ok lab0 =>
        rw [hq] at h
        simp only [Except.ok.injEq] at h
        subst h
        rw [mapE_tilesOf (combinePixel segs) _ 0 (combinePixel_zeroLike segs q0) R C tr tc q0 lab0 hq]
        simp [tileMask]
  · simp only [ht, ↓reduceIte, Except.ok.injEq] at h ⊢
    subst h
    simp [tileMask]

/-- stacked integers -/
theorem castMask_tiles_intStack (segs : List Nat) (t : SegType) (R C tr tc : Nat) (hR : 1 ≤ R) (hC : 1 ≤ C) (htr : 1 ≤ tr)
    (htc : 1 ≤ tc) (p0 : List (List Nat)) (hlen : p0.length = R * C) (r : Mask × Overlap)
    (hcm : castMask segs t (.intStack [p0]) = .ok r) :
    castMask segs t (.intStack (tilesOf (zeroLike 0 p0) R C tr tc p0)) = .ok (tileMask R C tr tc r.1, r.2) := by
  have hne : p0 ≠ [] := by
    intro h; rw [h] at hlen; simp at hlen
    have : 0 < R * C := Nat.mul_pos (by omega) (by omega)
    omega
  obtain ⟨hchan, _, _, r0, hv, hl⟩ := castMask_inv segs t _ r hcm
  simp only [castValues] at hv
  split at hv
  · cases hv
  rename_i hmax
  simp only [Except.ok.injEq] at hv
  subst hv
  rw [castMask_of segs t (.intStack (tilesOf (zeroLike 0 p0) R C tr tc p0))
    (.intStack (tilesOf (zeroLike 0 p0) R C tr tc p0), overlapOfStack segs.length [p0])
    (chanOk_tiles_int _ R C tr tc p0 hne hchan) (tiles_length_ne_zero _ R C tr tc hR hC htr htc p0)
    (tiles_sizes_ne_zero _ R C tr tc htr htc p0)
    (by simp only [castValues, stackMax_tiles R C tr tc htr htc p0 hlen, hmax, ↓reduceIte,
          overlap_tiles _ R C tr tc htr htc p0 hlen])]
  exact castLabelmap_tiles_stack segs t R C tr tc p0 _ r hl

theorem zeroLike_map_ratToNat (q0 : List (List Rat)) :
    (zeroLike (0 : Rat) q0).map ratToNat = zeroLike 0 (q0.map (·.map ratToNat)) := by
  unfold zeroLike
  cases q0 with
  | nil => rfl
  | cons a t =>
    simp only [List.headD_cons, List.map_map, List.map_cons]
    apply List.ext_getElem <;> simp [ratToNat_zero]

/-- stacked floats -/
theorem castMask_tiles_fltStack (segs : List Nat) (t : SegType) (R C tr tc : Nat) (hR : 1 ≤ R) (hC : 1 ≤ C) (htr : 1 ≤ tr)
    (htc : 1 ≤ tc) (p0 : List (List Rat)) (hlen : p0.length = R * C) (r : Mask × Overlap)
    (hcm : castMask segs t (.fltStack [p0]) = .ok r) :
    castMask segs t (.fltStack (tilesOf (zeroLike 0 p0) R C tr tc p0)) = .ok (tileMask R C tr tc r.1, r.2) := by
  have hne : p0 ≠ [] := by
    intro h; rw [h] at hlen; simp at hlen
    have : 0 < R * C := Nat.mul_pos (by omega) (by omega)
    omega
  have hz : ∀ (q : Rat → Bool), q 0 = false → (zeroLike (0 : Rat) p0).any q = false := by
    intro q hq
    rw [List.any_eq_false]
    intro x hx
    rw [zeroLike_mem 0 p0 x hx, hq]; simp
  have h1 := any_tiles_single (zeroLike (0 : Rat) p0) R C tr tc htr htc p0 hlen
    (fun ch => ch.any fun x => decide (x < 0 ∨ 1 < x)) (hz _ (by simp))
  have h2 := any_tiles_single (zeroLike (0 : Rat) p0) R C tr tc htr htc p0 hlen
    (fun ch => ch.any fun x => decide (0 < x ∧ x < 1)) (hz _ (by simp))
  obtain ⟨hchan, _, _, r0, hv, hl⟩ := castMask_inv segs t _ r hcm
  have hchanT := chanOk_tiles_flt _ R C tr tc p0 hne hchan
  have hnp := tiles_length_ne_zero (zeroLike (0 : Rat) p0) R C tr tc hR hC htr htc p0
  have hsz := tiles_sizes_ne_zero (zeroLike (0 : Rat) p0) R C tr tc htr htc p0
  simp only [castValues] at hv
  split at hv
  · cases hv
  rename_i hr
  by_cases ht : t = .fractional
  · simp only [ht, ↓reduceIte, Except.ok.injEq] at hv
    subst hv
    rw [castMask_of segs t (.fltStack (tilesOf (zeroLike 0 p0) R C tr tc p0))
      (.fltStack (tilesOf (zeroLike 0 p0) R C tr tc p0), if segs.length = 1 then Overlap.no else Overlap.undefined)
      hchanT hnp hsz (by simp only [castValues, h1, hr, ht, ↓reduceIte, Bool.false_eq_true])]
    subst ht
    simp only [castLabelmap, reduceCtorEq, ↓reduceIte, Except.ok.injEq] at hl ⊢
    subst hl
    simp [tileMask]
  · simp only [ht, ↓reduceIte] at hv
    split at hv
    · cases hv
    rename_i hb
    simp only [Except.ok.injEq] at hv
    subst hv
    have hmap : (tilesOf (zeroLike (0 : Rat) p0) R C tr tc p0).map (·.map (·.map ratToNat))
        = tilesOf (zeroLike 0 (p0.map (·.map ratToNat))) R C tr tc (p0.map (·.map ratToNat)) :=
      tilesOf_map (·.map ratToNat) _ _ (zeroLike_map_ratToNat p0) R C tr tc p0
    have hlen' : (p0.map (·.map ratToNat)).length = R * C := by simpa using hlen
    rw [castMask_of segs t (.fltStack (tilesOf (zeroLike 0 p0) R C tr tc p0))
      (.intStack (tilesOf (zeroLike 0 (p0.map (·.map ratToNat))) R C tr tc (p0.map (·.map ratToNat))),
        overlapOfStack segs.length [p0.map (·.map ratToNat)])
      hchanT hnp hsz
      (by simp only [castValues, h1, h2, hr, hb, ht, ↓reduceIte, hmap, Bool.false_eq_true,
            overlap_tiles _ R C tr tc htr htc _ hlen'])]
    simp only [List.map_cons, List.map_nil] at hl
    exact castLabelmap_tiles_stack segs t R C tr tc _ _ r hl

/-! ### ... and a matrix that is refused is refused tile-wise, with the same kind of error -/

theorem mapE_error_of_mem {α β ε} (f : α → Except ε β) (l : List α) (e : ε) (hall : ∀ a ∈ l, ∀ e', f a = .error e' → e' = e)
    (a : α) (ha : a ∈ l) (e0 : ε) (hf : f a = .error e0) : mapE f l = .error e := by
  induction l with
  | nil => cases ha
  | cons b t ih =>
    simp only [mapE]
    cases hb : f b with
    | error e' => rw [hall b (by simp) e' hb]
    | ok v =>
      have hat : a ∈ t := by
        rcases List.mem_cons.mp ha with rfl | h
        · rw [hf] at hb; cases hb
        · exact h
      rw [ih (fun c hc => hall c (List.mem_cons_of_mem _ hc)) hat]

theorem mapE_error_inv {α β ε} (f : α → Except ε β) (l : List α) (e : ε) (h : mapE f l = .error e) :
    ∃ a ∈ l, f a = .error e := by
  induction l with
  | nil => cases h
  | cons b t ih =>
    simp only [mapE] at h
    cases hb : f b with
    | error e' => rw [hb] at h; simp only [Except.error.injEq] at h; exact ⟨b, by simp, by rw [hb, h]⟩
    | ok v =>
      rw [hb] at h
      cases ht : mapE f t with
      | error e' =>
        rw [ht] at h; simp only [Except.error.injEq] at h
        obtain ⟨a, ha, hfa⟩ := ih (by rw [ht, h])
        exact ⟨a, List.mem_cons_of_mem _ ha, hfa⟩
      | ok vs => rw [ht] at h; cases h

theorem combinePixel_error_kind (segs : List Nat) (ch : List Nat) (e : ErrKind) (h : combinePixel segs ch = .error e) :
    e = .index := by
  unfold combinePixel at h
  split at h
  · cases h
  · simp only [Except.error.injEq] at h; exact h.symm

/-- `castLabelmap` on a stack of integers fails for the tiles if it fails for the matrix (same kind) -/
theorem castLabelmap_tiles_stack_error (segs : List Nat) (t : SegType) (R C tr tc : Nat) (htr : 1 ≤ tr) (htc : 1 ≤ tc)
    (q0 : List (List Nat)) (hlen : q0.length = R * C) (ov : Overlap) (e : ErrKind)
    (h : castLabelmap segs t (.intStack [q0], ov) = .error e) :
    castLabelmap segs t (.intStack (tilesOf (zeroLike 0 q0) R C tr tc q0), ov) = .error e := by
  unfold castLabelmap at h ⊢
  by_cases ht : t = .labelmap
  · simp only [ht, ↓reduceIte] at h ⊢
    by_cases hov : ov = .yes
    · simp only [hov, ↓reduceIte] at h ⊢; exact h
    · simp only [hov, ↓reduceIte] at h ⊢
      simp only [mapE] at h
      cases hq : mapE (combinePixel segs) q0 with
      | ok lab0 => rw [hq] at h; simp at h
      | error e0 =>
        rw [hq] at h
        simp only [Except.error.injEq] at h
        subst h
        obtain ⟨ch, hch, hfc⟩ := mapE_error_inv _ q0 e0 hq
        have hk := combinePixel_error_kind segs ch e0 hfc
        obtain ⟨tile, htile, hct⟩ := mem_tiles_of_mem (zeroLike 0 q0) R C tr tc htr htc q0 hlen ch hch
        have hinner : mapE (combinePixel segs) tile = .error e0 :=
          mapE_error_of_mem _ tile e0 (fun a _ e' he' => by rw [combinePixel_error_kind segs a e' he', hk]) ch hct e0 hfc
        rw [mapE_error_of_mem (fun pl => mapE (combinePixel segs) pl) _ e0
          (fun pl _ e' he' => by
            obtain ⟨a, _, hfa⟩ := mapE_error_inv _ pl e' he'
            rw [combinePixel_error_kind segs a e' hfa, hk]) tile htile e0 hinner]
  · simp only [ht, ↓reduceIte] at h
    cases h

theorem castMask_error_inv (segs : List Nat) (t : SegType) (m : Mask) (e : ErrKind) (hnp : m.numPlanes ≠ 0)
    (hsz : ∀ sz ∈ m.planeSizes, sz ≠ 0) (h : castMask segs t m = .error e) :
    (chanOk segs.length m = false ∧ e = .value) ∨
    (chanOk segs.length m = true ∧ castValues segs t m = .error e) ∨
    (chanOk segs.length m = true ∧ ∃ r0, castValues segs t m = .ok r0 ∧ castLabelmap segs t r0 = .error e) := by
  unfold castMask at h
  split at h
  · rename_i hc
    left
    simp only [Except.error.injEq] at h
    exact ⟨by simpa using hc, h.symm⟩
  · rename_i hc
    have hc' : chanOk segs.length m = true := by simpa using hc
    split at h
    · rename_i he
      exfalso
      rcases he with h0 | h0
      · exact hnp h0
      · obtain ⟨sz, hm, hz⟩ := List.any_eq_true.mp h0
        exact hsz sz hm (by simpa using hz)
    · right
      cases hv : castValues segs t m with
      | error e' =>
        rw [hv] at h
        simp only [Except.error.injEq] at h
        left; exact ⟨hc', by rw [h]⟩
      | ok r0 => rw [hv] at h; right; exact ⟨hc', r0, rfl, h⟩

theorem castMask_of_error (segs : List Nat) (t : SegType) (m : Mask) (e : ErrKind) (hchan : chanOk segs.length m = true)
    (hnp : m.numPlanes ≠ 0) (hsz : ∀ sz ∈ m.planeSizes, sz ≠ 0) (hv : castValues segs t m = .error e) :
    castMask segs t m = .error e := by
  unfold castMask
  rw [if_neg (by simpa using hchan)]
  rw [if_neg]
  · rw [hv]
  · rintro (hc | hc)
    · exact hnp hc
    · obtain ⟨sz, hm, hz⟩ := List.any_eq_true.mp hc
      exact hsz sz hm (by simpa using hz)

theorem castMask_chan_error (segs : List Nat) (t : SegType) (m : Mask) (hchan : chanOk segs.length m = false) :
    castMask segs t m = .error .value := by
  unfold castMask
  rw [if_pos (by simp [hchan])]

theorem one_plane_ok (R C : Nat) (hR : 1 ≤ R) (hC : 1 ≤ C) (m : Mask) (hnp : m.numPlanes = 1)
    (hsz : ∀ sz ∈ m.planeSizes, sz = R * C) : m.numPlanes ≠ 0 ∧ ∀ sz ∈ m.planeSizes, sz ≠ 0 := by
  refine ⟨by omega, fun sz h => ?_⟩
  rw [hsz sz h]
  exact Nat.ne_of_gt (Nat.mul_pos (by omega) (by omega))

/-- a refused matrix is refused tile-wise, with the same kind of error -/
theorem castMask_tileMask_error (segs : List Nat) (t : SegType) (R C tr tc : Nat) (hR : 1 ≤ R) (hC : 1 ≤ C) (htr : 1 ≤ tr)
    (htc : 1 ≤ tc) (m : Mask) (hnp : m.numPlanes = 1) (hsz : ∀ sz ∈ m.planeSizes, sz = R * C) (e : ErrKind)
    (hcm : castMask segs t m = .error e) : castMask segs t (tileMask R C tr tc m) = .error e := by
  obtain ⟨hnp0, hsz0⟩ := one_plane_ok R C hR hC m hnp hsz
  cases m with
  | intLabel ps =>
    obtain ⟨p0, rfl⟩ := List.length_eq_one_iff.mp hnp
    have hlen : p0.length = R * C := hsz _ (by simp [Mask.planeSizes])
    have hund : undescribed segs (tilesOf 0 R C tr tc p0) = undescribed segs [p0] := by
      unfold undescribed
      simp only []
      have h1 : listMax ((tilesOf 0 R C tr tc p0).map listMax) = listMax ([p0].map listMax) := by
        have := listMax_tiles 0 R C tr tc htr htc p0 hlen (fun v => v) rfl
        simp only [List.map_id'] at this
        simp only [List.map_cons, List.map_nil, listMax_singleton]
        exact this
      rw [h1, any_tiles_single 0 R C tr tc htr htc p0 hlen (fun v => decide (¬ v ∈ 0 :: segs)) (by simp)]
    show castMask segs t (.intLabel (tilesOf 0 R C tr tc p0)) = .error e
    rcases castMask_error_inv segs t _ e hnp0 hsz0 hcm with ⟨hc, _⟩ | ⟨_, hv⟩ | ⟨_, r0, hv, hl⟩
    · simp [chanOk] at hc
    · simp only [castValues] at hv
      split at hv
      · rename_i hu
        simp only [Except.error.injEq] at hv
        subst hv
        exact castMask_of_error segs t _ _ rfl (tiles_length_ne_zero 0 R C tr tc hR hC htr htc p0)
          (tiles_sizes_ne_zero 0 R C tr tc htr htc p0) (by simp only [castValues, hund, hu, ↓reduceIte])
      · cases hv
    · simp only [castValues] at hv
      split at hv
      · cases hv
      · simp only [Except.ok.injEq] at hv
        subst hv
        rw [castLabelmap_label segs t _ (by intro ps hc; cases hc)] at hl
        cases hl
  | fltLabel ps =>
    obtain ⟨p0, rfl⟩ := List.length_eq_one_iff.mp hnp
    have hlen : p0.length = R * C := hsz _ (by simp [Mask.planeSizes])
    have h1 := any_tiles_single (0 : Rat) R C tr tc htr htc p0 hlen (fun x => decide (x < 0 ∨ 1 < x)) (by simp)
    have h2 := any_tiles_single (0 : Rat) R C tr tc htr htc p0 hlen (fun x => decide (0 < x ∧ x < 1)) (by simp)
    have h3 := any_tiles_single (0 : Rat) R C tr tc htr htc p0 hlen (fun x => decide (x = 1)) (by simp)
    have hcv : ∀ e', castValues segs t (.fltLabel [p0]) = .error e' →
        castValues segs t (.fltLabel (tilesOf 0 R C tr tc p0)) = .error e' := by
      intro e' hv
      simp only [castValues, h1, h2, h3] at hv ⊢
      split at hv
      · rename_i hr; simp only [hr, ↓reduceIte]; exact hv
      rename_i hr
      simp only [hr, ↓reduceIte]
      by_cases ht : t = .fractional
      · simp only [ht, ↓reduceIte] at hv ⊢
        split at hv
        · rename_i h1'; simp only [h1', ↓reduceIte]; exact hv
        · cases hv
      · simp only [ht, ↓reduceIte] at hv ⊢
        split at hv
        · rename_i hb; simp only [hb, ↓reduceIte]; exact hv
        rename_i hb
        simp only [hb, ↓reduceIte]
        split at hv
        · rename_i hd; simp only [hd, ↓reduceIte]; exact hv
        · cases hv
    show castMask segs t (.fltLabel (tilesOf 0 R C tr tc p0)) = .error e
    rcases castMask_error_inv segs t _ e hnp0 hsz0 hcm with ⟨hc, _⟩ | ⟨_, hv⟩ | ⟨_, r0, hv, hl⟩
    · simp [chanOk] at hc
    · exact castMask_of_error segs t _ _ rfl (tiles_length_ne_zero (0 : Rat) R C tr tc hR hC htr htc p0)
        (tiles_sizes_ne_zero (0 : Rat) R C tr tc htr htc p0) (hcv e hv)
    · exfalso
      simp only [castValues] at hv
      split at hv
      · cases hv
      split at hv
      · split at hv
        · cases hv
        · simp only [Except.ok.injEq] at hv; subst hv
          rw [castLabelmap_label segs t _ (by intro ps hc; cases hc)] at hl; cases hl
      · split at hv
        · cases hv
        split at hv
        · cases hv
        · simp only [Except.ok.injEq] at hv; subst hv
          rw [castLabelmap_label segs t _ (by intro ps hc; cases hc)] at hl; cases hl
  | intStack ps =>
    obtain ⟨p0, rfl⟩ := List.length_eq_one_iff.mp hnp
    have hlen : p0.length = R * C := hsz _ (by simp [Mask.planeSizes])
    have hne : p0 ≠ [] := by
      intro h; rw [h] at hlen; simp at hlen
      have : 0 < R * C := Nat.mul_pos (by omega) (by omega)
      omega
    show castMask segs t (.intStack (tilesOf (zeroLike 0 p0) R C tr tc p0)) = .error e
    rcases castMask_error_inv segs t _ e hnp0 hsz0 hcm with ⟨hc, he⟩ | ⟨hc, hv⟩ | ⟨hc, r0, hv, hl⟩
    · subst he
      apply castMask_chan_error
      simp only [chanOk, List.all_cons, List.all_nil, Bool.and_true] at hc
      obtain ⟨ch, hch, hbad⟩ := List.all_eq_false.mp hc
      obtain ⟨tile, htile, hct⟩ := mem_tiles_of_mem (zeroLike 0 p0) R C tr tc htr htc p0 hlen ch hch
      simp only [chanOk]
      rw [List.all_eq_false]
      exact ⟨tile, htile, by rw [Bool.not_eq_true, List.all_eq_false]; exact ⟨ch, hct, hbad⟩⟩
    · simp only [castValues] at hv
      split at hv
      · rename_i hmax
        simp only [Except.error.injEq] at hv
        subst hv
        exact castMask_of_error segs t _ _ (chanOk_tiles_int _ R C tr tc p0 hne hc)
          (tiles_length_ne_zero _ R C tr tc hR hC htr htc p0) (tiles_sizes_ne_zero _ R C tr tc htr htc p0)
          (by simp only [castValues, stackMax_tiles R C tr tc htr htc p0 hlen, hmax, ↓reduceIte])
      · cases hv
    · simp only [castValues] at hv
      split at hv
      · cases hv
      rename_i hmax
      simp only [Except.ok.injEq] at hv
      subst hv
      rw [castMask_of segs t (.intStack (tilesOf (zeroLike 0 p0) R C tr tc p0))
        (.intStack (tilesOf (zeroLike 0 p0) R C tr tc p0), overlapOfStack segs.length [p0])
        (chanOk_tiles_int _ R C tr tc p0 hne hc) (tiles_length_ne_zero _ R C tr tc hR hC htr htc p0)
        (tiles_sizes_ne_zero _ R C tr tc htr htc p0)
        (by simp only [castValues, stackMax_tiles R C tr tc htr htc p0 hlen, hmax, ↓reduceIte,
              overlap_tiles _ R C tr tc htr htc p0 hlen])]
      exact castLabelmap_tiles_stack_error segs t R C tr tc htr htc p0 hlen _ e hl
  | fltStack ps =>
    obtain ⟨p0, rfl⟩ := List.length_eq_one_iff.mp hnp
    have hlen : p0.length = R * C := hsz _ (by simp [Mask.planeSizes])
    have hne : p0 ≠ [] := by
      intro h; rw [h] at hlen; simp at hlen
      have : 0 < R * C := Nat.mul_pos (by omega) (by omega)
      omega
    have hz : ∀ (q : Rat → Bool), q 0 = false → (zeroLike (0 : Rat) p0).any q = false := by
      intro q hq
      rw [List.any_eq_false]
      intro x hx
      rw [zeroLike_mem 0 p0 x hx, hq]; simp
    have h1 := any_tiles_single (zeroLike (0 : Rat) p0) R C tr tc htr htc p0 hlen
      (fun ch => ch.any fun x => decide (x < 0 ∨ 1 < x)) (hz _ (by simp))
    have h2 := any_tiles_single (zeroLike (0 : Rat) p0) R C tr tc htr htc p0 hlen
      (fun ch => ch.any fun x => decide (0 < x ∧ x < 1)) (hz _ (by simp))
    have hnpT := tiles_length_ne_zero (zeroLike (0 : Rat) p0) R C tr tc hR hC htr htc p0
    have hszT := tiles_sizes_ne_zero (zeroLike (0 : Rat) p0) R C tr tc htr htc p0
    show castMask segs t (.fltStack (tilesOf (zeroLike 0 p0) R C tr tc p0)) = .error e
    rcases castMask_error_inv segs t _ e hnp0 hsz0 hcm with ⟨hc, he⟩ | ⟨hc, hv⟩ | ⟨hc, r0, hv, hl⟩
    · subst he
      apply castMask_chan_error
      simp only [chanOk, List.all_cons, List.all_nil, Bool.and_true] at hc
      obtain ⟨ch, hch, hbad⟩ := List.all_eq_false.mp hc
      obtain ⟨tile, htile, hct⟩ := mem_tiles_of_mem (zeroLike 0 p0) R C tr tc htr htc p0 hlen ch hch
      simp only [chanOk]
      rw [List.all_eq_false]
      exact ⟨tile, htile, by rw [Bool.not_eq_true, List.all_eq_false]; exact ⟨ch, hct, hbad⟩⟩
    · have hchanT := chanOk_tiles_flt _ R C tr tc p0 hne hc
      apply castMask_of_error segs t _ _ hchanT hnpT hszT
      simp only [castValues, h1, h2] at hv ⊢
      split at hv
      · rename_i hr; simp only [hr, ↓reduceIte]; exact hv
      rename_i hr
      simp only [hr, ↓reduceIte]
      by_cases ht : t = .fractional
      · simp only [ht, ↓reduceIte] at hv; cases hv
      · simp only [ht, ↓reduceIte] at hv ⊢
        split at hv
        · rename_i hb; simp only [hb, ↓reduceIte]; exact hv
        · cases hv
    · have hchanT := chanOk_tiles_flt _ R C tr tc p0 hne hc
      simp only [castValues] at hv
      split at hv
      · cases hv
      rename_i hr
      by_cases ht : t = .fractional
      · simp only [ht, ↓reduceIte, Except.ok.injEq] at hv
        subst hv
        subst ht
        simp [castLabelmap] at hl
      · simp only [ht, ↓reduceIte] at hv
        split at hv
        · cases hv
        rename_i hb
        simp only [Except.ok.injEq] at hv
        subst hv
        have hmap : (tilesOf (zeroLike (0 : Rat) p0) R C tr tc p0).map (·.map (·.map ratToNat))
            = tilesOf (zeroLike 0 (p0.map (·.map ratToNat))) R C tr tc (p0.map (·.map ratToNat)) :=
          tilesOf_map (·.map ratToNat) _ _ (zeroLike_map_ratToNat p0) R C tr tc p0
        have hlen' : (p0.map (·.map ratToNat)).length = R * C := by simpa using hlen
        rw [castMask_of segs t (.fltStack (tilesOf (zeroLike 0 p0) R C tr tc p0))
          (.intStack (tilesOf (zeroLike 0 (p0.map (·.map ratToNat))) R C tr tc (p0.map (·.map ratToNat))),
            overlapOfStack segs.length [p0.map (·.map ratToNat)])
          hchanT hnpT hszT
          (by simp only [castValues, h1, h2, hr, hb, ht, ↓reduceIte, hmap, Bool.false_eq_true,
                overlap_tiles _ R C tr tc htr htc _ hlen'])]
        simp only [List.map_cons, List.map_nil] at hl
        exact castLabelmap_tiles_stack_error segs t R C tr tc htr htc _ hlen' _ e hl

/-- **Casting the matrix and cutting it afterwards is cutting first and casting the tiles** -- with the same
    `SegmentsOverlap`. -/
theorem castMask_tileMask (segs : List Nat) (t : SegType) (R C tr tc : Nat) (hR : 1 ≤ R) (hC : 1 ≤ C) (htr : 1 ≤ tr)
    (htc : 1 ≤ tc) (m : Mask) (hnp : m.numPlanes = 1) (hsz : ∀ sz ∈ m.planeSizes, sz = R * C) (arr : Mask) (ov : Overlap)
    (hcm : castMask segs t m = .ok (arr, ov)) :
    castMask segs t (tileMask R C tr tc m) = .ok (tileMask R C tr tc arr, ov) := by
  cases m with
  | intLabel ps =>
    obtain ⟨p0, rfl⟩ := List.length_eq_one_iff.mp hnp
    exact castMask_tiles_intLabel segs t R C tr tc hR hC htr htc p0 (hsz _ (by simp [Mask.planeSizes])) _ hcm
  | fltLabel ps =>
    obtain ⟨p0, rfl⟩ := List.length_eq_one_iff.mp hnp
    exact castMask_tiles_fltLabel segs t R C tr tc hR hC htr htc p0 (hsz _ (by simp [Mask.planeSizes])) _ hcm
  | intStack ps =>
    obtain ⟨p0, rfl⟩ := List.length_eq_one_iff.mp hnp
    exact castMask_tiles_intStack segs t R C tr tc hR hC htr htc p0 (hsz _ (by simp [Mask.planeSizes])) _ hcm
  | fltStack ps =>
    obtain ⟨p0, rfl⟩ := List.length_eq_one_iff.mp hnp
    exact castMask_tiles_fltStack segs t R C tr tc hR hC htr htc p0 (hsz _ (by simp [Mask.planeSizes])) _ hcm

/-! ## the two orders give the same constructor -/

theorem tileMask_planeSizes (R C tr tc : Nat) (m : Mask) : ∀ sz ∈ (tileMask R C tr tc m).planeSizes, sz = tr * tc := by
  intro sz hsz
  cases m <;> simp only [tileMask, Mask.planeSizes] at hsz <;>
    (obtain ⟨tile, ht, rfl⟩ := List.mem_map.mp hsz; exact tile_length _ R C tr tc _ tile ht)

/-- **`buildTiled` (cut, then cast) is the constructor in the source's order (cast, then cut)** -- the same object or the
    same refusal, for every matrix and tile size -/
theorem buildTiled_eq_src (codec : Option Codec) (R C tr tc : Nat) (hR : 1 ≤ R) (hC : 1 ≤ C) (htr : 1 ≤ tr) (htc : 1 ≤ tc)
    (t : SegType) (segs : List Nat) (mfv : Nat) (omt : Bool) (m : Mask) :
    buildTiled codec R C tr tc t segs mfv omt m = buildTiledSrc codec R C tr tc t segs mfv omt m := by
  unfold buildTiled buildTiledSrc
  by_cases hnp : m.numPlanes ≠ 1
  · rw [if_pos hnp, if_pos hnp]
  rw [if_neg hnp, if_neg hnp]
  have hnp1 : m.numPlanes = 1 := by simpa using hnp
  by_cases hsz : (m.planeSizes.any (· != R * C)) = true
  · rw [if_pos hsz, if_pos hsz]
  rw [if_neg hsz, if_neg hsz]
  have hsz' : ∀ sz ∈ m.planeSizes, sz = R * C := by
    intro sz hm
    by_contra hc
    exact hsz (List.any_eq_true.mpr ⟨sz, hm, by simpa using hc⟩)
  unfold build
  cases hca : checkArgs codec t segs mfv with
  | error e => rfl
  | ok bits =>
    simp only
    have h1 : ¬ ((tileMask R C tr tc m).numPlanes ≠ (List.range (tileMask R C tr tc m).numPlanes).length) := by simp
    have h2 : ¬ (((tileMask R C tr tc m).planeSizes.any fun x => x != tr * tc) = true) := by
      intro hc
      obtain ⟨sz, hm, hne⟩ := List.any_eq_true.mp hc
      rw [tileMask_planeSizes R C tr tc m sz hm] at hne
      simp at hne
    cases hcm : castMask segs t m with
    | error e =>
      rw [castMask_tileMask_error segs t R C tr tc hR hC htr htc m hnp1 hsz' e hcm]
    | ok r =>
      obtain ⟨arr, ov⟩ := r
      rw [castMask_tileMask segs t R C tr tc hR hC htr htc m hnp1 hsz' arr ov hcm]
      simp only [h1, h2, ↓reduceIte]
      rw [tileMask_numPlanes, tileMask_numPlanes]
      simp only [Bool.false_eq_true, ↓reduceIte]
      cases storedFrames (tileMask R C tr tc arr) segs t mfv omt (List.range (tilesAlong R tr * tilesAlong C tc)) with
      | error e => rfl
      | ok frames =>
        simp only
        cases encodePixelData codec tr tc bits (frames.map (·.px)) <;> rfl

/-- a tiled object can only be built from a matrix the pixel checks accept -/
theorem castMask_of_buildTiled (codec : Option Codec) (R C tr tc : Nat) (hR : 1 ≤ R) (hC : 1 ≤ C) (htr : 1 ≤ tr) (htc : 1 ≤ tc)
    (t : SegType) (segs : List Nat) (mfv : Nat) (omt : Bool) (m : Mask) (o : SegObj)
    (hb : buildTiled codec R C tr tc t segs mfv omt m = .ok o) : ∃ arr ov, castMask segs t m = .ok (arr, ov) := by
  rw [buildTiled_eq_src codec R C tr tc hR hC htr htc] at hb
  unfold buildTiledSrc at hb
  split at hb
  · cases hb
  split at hb
  · cases hb
  split at hb
  · cases hb
  split at hb
  · cases hb
  rename_i r hcm
  exact ⟨r.1, r.2, hcm⟩

/-- (10d) without a separate hypothesis on the matrix -/
theorem tiled_roundtrip' (codec : Option Codec) (hcodec : ∀ c, codec = some c → ∀ x, c.dec (c.enc x) = x)
    (R C tr tc : Nat) (hR : 1 ≤ R) (hC : 1 ≤ C) (htr : 1 ≤ tr) (htc : 1 ≤ tc) (t : SegType) (segs : List Nat) (mfv : Nat)
    (omt : Bool) (m : Mask) (o : SegObj) (hb : buildTiled codec R C tr tc t segs mfv omt m = .ok o) :
    ∃ mpl out, m.plane? 0 = some mpl ∧
      readBySource codec o (List.range (tilesAlong R tr * tilesAlong C tc)) .assertEmpty = .ok out ∧
      ∀ j (hj : j < segs.length), ∃ e, expectedPlane t mfv j segs[j] mpl = some e ∧
        ∀ r c, r < R → c < C →
          ((out[(r / tr) * tilesAlong C tc + c / tc]?.bind (·[j]?)).bind (·[(r % tr) * tc + c % tc]?))
            = some (e.getD (r * C + c) 0) := by
  obtain ⟨arr, ov, hcm⟩ := castMask_of_buildTiled codec R C tr tc hR hC htr htc t segs mfv omt m o hb
  exact tiled_roundtrip codec hcodec R C tr tc htr htc t segs mfv omt m arr ov hcm o hb

/-! ## the assembled matrix -/

theorem expectedPlane_length (t : SegType) (mfv j s : Nat) (pl : Plane) (e : List Nat)
    (h : expectedPlane t mfv j s pl = some e) : e.length = pl.size := by
  cases pl with
  | intLabel px => simp only [expectedPlane, Option.some.injEq] at h; subst h; simp [Plane.size]
  | fltLabel px =>
    simp only [expectedPlane] at h
    split at h <;> (simp only [Option.some.injEq] at h; subst h; simp [Plane.size])
  | intStack px =>
    simp only [expectedPlane] at h
    cases ha : chanO j px with
    | none => rw [ha] at h; cases h
    | some a =>
      rw [ha] at h
      simp only [Option.map_some, Option.some.injEq] at h
      subst h
      simp [Plane.size, (mapO_spec _ px a ha).1]
  | fltStack px =>
    simp only [expectedPlane] at h
    cases ha : chanO j px with
    | none => rw [ha] at h; split at h <;> cases h
    | some a =>
      rw [ha] at h
      split at h <;> (simp only [Option.map_some, Option.some.injEq] at h; subst h; simp [Plane.size, (mapO_spec _ px a ha).1])

theorem plane_size_mem (m : Mask) (p : Nat) (pl : Plane) (h : m.plane? p = some pl) : pl.size ∈ m.planeSizes := by
  cases m with
  | intLabel ps =>
    obtain ⟨px, hq, rfl⟩ := plane_intLabel ps p pl h
    exact List.mem_map.mpr ⟨px, List.mem_of_getElem? hq, rfl⟩
  | intStack ps =>
    obtain ⟨px, hq, rfl⟩ := plane_intStack ps p pl h
    exact List.mem_map.mpr ⟨px, List.mem_of_getElem? hq, rfl⟩
  | fltLabel ps =>
    obtain ⟨px, hq, rfl⟩ := plane_fltLabel ps p pl h
    exact List.mem_map.mpr ⟨px, List.mem_of_getElem? hq, rfl⟩
  | fltStack ps =>
    obtain ⟨px, hq, rfl⟩ := plane_fltStack ps p pl h
    exact List.mem_map.mpr ⟨px, List.mem_of_getElem? hq, rfl⟩

/-- **the matrix put together from the tile frames is the expectation for the whole matrix** -/
theorem tiled_assembled (codec : Option Codec) (hcodec : ∀ c, codec = some c → ∀ x, c.dec (c.enc x) = x)
    (R C tr tc : Nat) (hR : 1 ≤ R) (hC : 1 ≤ C) (htr : 1 ≤ tr) (htc : 1 ≤ tc) (t : SegType) (segs : List Nat) (mfv : Nat)
    (omt : Bool) (m : Mask) (o : SegObj) (hb : buildTiled codec R C tr tc t segs mfv omt m = .ok o) :
    ∃ mpl out, m.plane? 0 = some mpl ∧
      readBySource codec o (List.range (tilesAlong R tr * tilesAlong C tc)) .assertEmpty = .ok out ∧
      ∀ j (hj : j < segs.length), ∃ e, expectedPlane t mfv j segs[j] mpl = some e ∧ e.length = R * C ∧
        assembleTPM out R C tr tc j = e.map some := by
  obtain ⟨mpl, out, hmpl, hout, hall⟩ := tiled_roundtrip' codec hcodec R C tr tc hR hC htr htc t segs mfv omt m o hb
  have hsz : ∀ sz ∈ m.planeSizes, sz = R * C := by
    unfold buildTiled at hb
    split at hb
    · cases hb
    split at hb
    · cases hb
    rename_i hs
    intro sz hm
    by_contra hc
    exact hs (List.any_eq_true.mpr ⟨sz, hm, by simpa using hc⟩)
  refine ⟨mpl, out, hmpl, hout, ?_⟩
  intro j hj
  obtain ⟨e, he, hpix⟩ := hall j hj
  have hlen : e.length = R * C := by
    rw [expectedPlane_length t mfv j segs[j] mpl e he]
    exact hsz _ (plane_size_mem m 0 mpl hmpl)
  refine ⟨e, he, hlen, ?_⟩
  apply List.ext_getElem?
  intro i
  by_cases hi : i < R * C
  · have hCpos : 0 < C := by omega
    have hr : i / C < R := by rw [Nat.div_lt_iff_lt_mul hCpos]; exact hi
    have hc : i % C < C := Nat.mod_lt _ hCpos
    have e1 : i / C * C + i % C = i := Nat.div_add_mod' i C
    have h1 := getElem?_flatMap_range_map R C
      (fun r c => ((out[(r / tr) * tilesAlong C tc + c / tc]?.bind (·[j]?)).bind (·[(r % tr) * tc + c % tc]?)))
      (i / C) (i % C) hr hc
    rw [e1] at h1
    unfold assembleTPM
    rw [h1, hpix (i / C) (i % C) hr hc, e1, List.getElem?_map]
    have hi' : i < e.length := by omega
    simp [List.getD_eq_getElem?_getD, List.getElem?_eq_getElem hi']
  · have h1 : (assembleTPM out R C tr tc j).length = R * C := by
      unfold assembleTPM; exact length_flatMap_range_map _ _ _
    rw [List.getElem?_eq_none (by omega), List.getElem?_eq_none (by simp; omega)]

end HdVerif.SegEncodeLemmas
