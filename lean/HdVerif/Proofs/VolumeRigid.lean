import HdVerif.Proofs.VolumeOrientAll
import HdVerif.Proofs.VolumeAccess
/-! C08 (round 2, later): rigidity — a position-preserving bijection of the voxels that keeps the affine's columns is the
identity; consequences: pairs of rearrangements, `to_patient_orientation` there and back. -/
namespace HdVerif.VolLemmas
open HdVerif HdVerif.Gen HdVerif.Vol

theorem pos_add_index (g : Geom) (a j : I3) :
    g.pos ⟨a.i0 + j.i0, a.i1 + j.i1, a.i2 + j.i2⟩ =
      (g.pos a).add ((V3.smul j.i0 g.c0).add ((V3.smul j.i1 g.c1).add (V3.smul j.i2 g.c2))) := by
  apply V3.ext' <;> simp [Geom.pos, V3.add, V3.smul] <;> ring

/-- **rigidity**: a step that keeps every voxel at its place, loses none and creates none, and whose result has the columns
of the input, is the identity — same shape, same translation, index map the identity -/
theorem rigid_of_same_cols {g : Geom} {r : GStep} (ho : g.Orth) (hp : g.Pos) (s : StepOk g r) (nn : NoNew g r) (on : Onto g r)
    (h0 : r.1.c0 = g.c0) (h1 : r.1.c1 = g.c1) (h2 : r.1.c2 = g.c2) : r.1 = g ∧ ∀ j, r.2 j = j := by
  -- the index map is a translation
  have htr : ∀ j, r.2 j = ⟨(r.2 ⟨0, 0, 0⟩).i0 + j.i0, (r.2 ⟨0, 0, 0⟩).i1 + j.i1, (r.2 ⟨0, 0, 0⟩).i2 + j.i2⟩ := by
    intro j
    apply pos_injective ho
    rw [← s.position j, pos_add_index, ← s.position ⟨0, 0, 0⟩]
    apply V3.ext' <;> simp [Geom.pos, V3.add, V3.smul, h0, h1, h2] <;> ring
  have hp' := s.shape
  obtain ⟨a0, a1, a2⟩ := hp
  obtain ⟨b0, b1, b2⟩ := hp'
  -- the origin of the result is a voxel of the input, and the origin of the input is shown by a voxel of the result
  have z1 := nn ⟨0, 0, 0⟩ (by rw [inRange_iff]; exact ⟨⟨le_refl _, b0⟩, ⟨le_refl _, b1⟩, ⟨le_refl _, b2⟩⟩)
  rw [inRange_iff] at z1
  obtain ⟨j, hj, hjz⟩ := on ⟨0, 0, 0⟩ (by rw [inRange_iff]; exact ⟨⟨le_refl _, a0⟩, ⟨le_refl _, a1⟩, ⟨le_refl _, a2⟩⟩)
  rw [inRange_iff] at hj
  rw [htr j] at hjz
  simp only [I3.mk.injEq] at hjz
  have f0 : r.2 ⟨0, 0, 0⟩ = ⟨0, 0, 0⟩ := by
    apply I3.ext' <;> simp only <;> omega
  have hid : ∀ j, r.2 j = j := by
    intro j; rw [htr j, f0]; cases j; simp
  -- shapes
  have l1 := nn ⟨r.1.n0 - 1, r.1.n1 - 1, r.1.n2 - 1⟩ (by rw [inRange_iff]; simp only; omega)
  rw [hid, inRange_iff] at l1
  obtain ⟨k, hk, hkz⟩ := on ⟨g.n0 - 1, g.n1 - 1, g.n2 - 1⟩ (by rw [inRange_iff]; simp only; omega)
  rw [hid] at hkz
  subst hkz
  rw [inRange_iff] at hk
  simp only at l1 hk
  refine ⟨?_, hid⟩
  have ht : r.1.t = g.t := by
    have := s.position ⟨0, 0, 0⟩
    rw [f0] at this
    have e1 : r.1.pos ⟨0, 0, 0⟩ = r.1.t := by apply V3.ext' <;> simp [Geom.pos, V3.add, V3.smul]
    have e2 : g.pos ⟨0, 0, 0⟩ = g.t := by apply V3.ext' <;> simp [Geom.pos, V3.add, V3.smul]
    rw [e1, e2] at this; exact this
  cases hr : r.1 with
  | mk c0 c1 c2 t n0 n1 n2 =>
    rw [hr] at h0 h1 h2 ht l1 hk
    cases g with
    | mk d0 d1 d2 u m0 m1 m2 =>
      simp only at h0 h1 h2 ht l1 hk
      simp only [Geom.mk.injEq]
      refine ⟨h0, h1, h2, ht, by omega, by omega, by omega⟩

/-- two operations that neither select nor add voxels: if the result has the columns of the input, the pair is the identity -/
theorem rearranging_pair_identity (sz : AxMap → Int) (hsz : SzOk sz) {coord : Coord} {g : Geom} {op1 op2 : SOp} {r1 r2 : GStep}
    (ho : g.Orth) (hp : g.Pos) (k1 : op1.rearranges = true) (k2 : op2.rearranges = true)
    (e1 : op1.applyG sz coord g = .ok r1) (e2 : op2.applyG sz coord r1.1 = .ok r2)
    (h0 : r2.1.c0 = g.c0) (h1 : r2.1.c1 = g.c1) (h2 : r2.1.c2 = g.c2) : r2.1 = g ∧ ∀ j, r1.2 (r2.2 j) = j := by
  simp only [SOp.rearranges, Bool.and_eq_true] at k1 k2
  obtain ⟨s1, n1, _⟩ := applyG_sound sz hsz hp e1
  obtain ⟨s2, n2, _⟩ := applyG_sound sz hsz s1.shape e2
  have o1 := applyG_onto sz hsz hp k1.2 e1
  have o2 := applyG_onto sz hsz s1.shape k2.2 e2
  exact rigid_of_same_cols (r := (r2.1, fun j => r1.2 (r2.2 j))) ho hp (StepOk.comp s1 s2) (NoNew.comp (n1 k1.1) (n2 k2.1))
    (Onto.comp o1 o2) h0 h1 h2

/-- a signed copy of a vector on patient axis `d'` that lies on patient axis `d`: the two letters are on the same axis, and if
they are the same letter the sign is `+` -/
theorem onAxis_signed_inv {v : V3} {d d' : Dir} (b : Bool) (hv : OnAxis v d') (h : OnAxis (V3.smul (if b then -1 else 1) v) d) :
    d'.row = d.row ∧ (d' = d → b = false) := by
  obtain ⟨s', hs', rfl⟩ := hv
  obtain ⟨s, hs, he⟩ := h
  simp only [V3.smul, V3.mk.injEq] at he
  obtain ⟨ex, ey, ez⟩ := he
  cases b <;> cases d <;> cases d' <;> simp [unitVec, Dir.row] at ex ey ez ⊢ <;> linarith

theorem toOrientation_onAxis (sz : AxMap → Int) {g : Geom} {cur des : Orient} (hc : cur ∈ allOrients) (hd : des ∈ allOrients)
    (hp : g.Pos) (h0 : OnAxis g.c0 cur.1) (h1 : OnAxis g.c1 cur.2.1) (h2 : OnAxis g.c2 cur.2.2) :
    ∃ (r : GStep) (qa : Ax → Ax) (fl : Ax → Bool), toOrientationG sz .patient g (orientChars des) = .ok r ∧
      (∀ a, r.1.col a = V3.smul (if fl a then -1 else 1) (g.col (qa a))) ∧ (∀ a, OnAxis (r.1.col a) (orientGet des a)) := by
  have rc := List.all_eq_true.mp allOrients_rows cur hc
  simp only [decide_eq_true_eq] at rc
  have hcl : closest g = cur := closest_onAxis h0 h1 h2 rc
  obtain ⟨r, q, f0, f1, f2, hr, _, c0, c1, c2, e0, e1, e2⟩ := toPatientOrientation_all sz hd hp
  rw [hcl] at e0 e1 e2
  refine ⟨r, fun a => match a with | .a0 => q.1 | .a1 => q.2.1 | .a2 => q.2.2,
    fun a => match a with | .a0 => f0 | .a1 => f1 | .a2 => f2, hr, ?_, ?_⟩
  · intro a; cases a <;> simp only [Geom.col] <;> assumption
  · intro a
    cases a
    · simp only [Geom.col, orientGet]; rw [c0, ← e0]; exact onAxis_signed (col_onAxis h0 h1 h2 q.1) f0
    · simp only [Geom.col, orientGet]; rw [c1, ← e1]; exact onAxis_signed (col_onAxis h0 h1 h2 q.2.1) f1
    · simp only [Geom.col, orientGet]; rw [c2, ← e2]; exact onAxis_signed (col_onAxis h0 h1 h2 q.2.2) f2

theorem orth_of_onAxis {g : Geom} {cur : Orient} (hc : cur ∈ allOrients)
    (h0 : OnAxis g.c0 cur.1) (h1 : OnAxis g.c1 cur.2.1) (h2 : OnAxis g.c2 cur.2.2) : g.Orth := by
  have rc := List.all_eq_true.mp allOrients_rows cur hc
  simp only [decide_eq_true_eq] at rc
  obtain ⟨s0, p0, e0⟩ := h0
  obtain ⟨s1, p1, e1⟩ := h1
  obtain ⟨s2, p2, e2⟩ := h2
  obtain ⟨a, b, c⟩ := cur
  have n0 : s0 * s0 ≠ 0 := ne_of_gt (mul_pos p0 p0)
  have n1 : s1 * s1 ≠ 0 := ne_of_gt (mul_pos p1 p1)
  have n2 : s2 * s2 ≠ 0 := ne_of_gt (mul_pos p2 p2)
  simp only at e0 e1 e2 rc
  cases a <;> cases b <;> cases c <;> simp [Dir.row] at rc <;>
    simp [Geom.Orth, e0, e1, e2, V3.dot, V3.smul, unitVec, n0, n1, n2]

theorem smul_sign_sign (b c : Bool) (v : V3) :
    V3.smul (if b then -1 else 1) (V3.smul (if c then -1 else 1) v) = V3.smul (if (b != c) then -1 else 1) v := by
  cases b <;> cases c <;> apply V3.ext' <;> simp [V3.smul]

/-- **to_patient_orientation there and back = identity** (axis-aligned geometries): re-orienting to any of the 48 orientations
and then back to the original one gives the original geometry, and every voxel its original index -/
theorem toOrientation_roundtrip (sz : AxMap → Int) (hsz : SzOk sz) {g : Geom} {cur des : Orient} (hc : cur ∈ allOrients)
    (hd : des ∈ allOrients) (hp : g.Pos) (h0 : OnAxis g.c0 cur.1) (h1 : OnAxis g.c1 cur.2.1) (h2 : OnAxis g.c2 cur.2.2) :
    ∃ r1 r2, toOrientationG sz .patient g (orientChars des) = .ok r1 ∧
      toOrientationG sz .patient r1.1 (orientChars cur) = .ok r2 ∧ r2.1 = g ∧ ∀ j, r1.2 (r2.2 j) = j := by
  have rc := List.all_eq_true.mp allOrients_rows cur hc
  simp only [decide_eq_true_eq] at rc
  obtain ⟨r1, q1, f1, e1, c1, a1⟩ := toOrientation_onAxis sz hc hd hp h0 h1 h2
  have s1 := (toOrientationG_sound sz hsz hp e1).1
  obtain ⟨r2, q2, f2, e2, c2, a2⟩ := toOrientation_onAxis sz hd hc s1.shape (a1 .a0) (a1 .a1) (a1 .a2)
  refine ⟨r1, r2, e1, e2, ?_⟩
  have hcol : ∀ k, r2.1.col k = g.col k := by
    intro k
    have hk : r2.1.col k = V3.smul (if (f2 k != f1 (q2 k)) then -1 else 1) (g.col (q1 (q2 k))) := by
      rw [c2 k, c1 (q2 k), smul_sign_sign]
    have hon := a2 k
    rw [hk] at hon
    obtain ⟨hrow, hsame⟩ := onAxis_signed_inv _ (col_onAxis h0 h1 h2 (q1 (q2 k))) hon
    have hb : q1 (q2 k) = k := by
      obtain ⟨r01, r02, r12⟩ := rc
      generalize q1 (q2 k) = b at hrow
      cases b <;> cases k <;> simp only [orientGet] at hrow <;>
        first | rfl | (exact absurd hrow r01) | (exact absurd hrow.symm r01) | (exact absurd hrow r02) |
          (exact absurd hrow.symm r02) | (exact absurd hrow r12) | (exact absurd hrow.symm r12)
    rw [hb] at hk hsame
    rw [hk, hsame rfl]
    apply V3.ext' <;> simp [V3.smul]
  have ho := orth_of_onAxis hc h0 h1 h2
  have e1' : (SOp.toOrientation (orientChars des)).applyG sz .patient g = .ok r1 := e1
  have e2' : (SOp.toOrientation (orientChars cur)).applyG sz .patient r1.1 = .ok r2 := e2
  exact rearranging_pair_identity sz hsz ho hp rfl rfl e1' e2' (hcol .a0) (hcol .a1) (hcol .a2)

/-- a sequence of spatial operations on a geometry: the final geometry and the composed index map (final index ↦ original) -/
def runSteps (sz : AxMap → Int) (coord : Coord) : Geom → List SOp → Except ErrKind GStep
  | g, [] => .ok (g, id)
  | g, op :: rest => do
    let r1 ← op.applyG sz coord g
    let r2 ← runSteps sz coord r1.1 rest
    pure (r2.1, fun j => r1.2 (r2.2 j))

theorem runSteps_sound (sz : AxMap → Int) (hsz : SzOk sz) (coord : Coord) (ops : List SOp) :
    ∀ {g : Geom} {r : GStep}, g.Pos → (∀ op ∈ ops, SOp.rearranges op = true) → runSteps sz coord g ops = .ok r →
      StepOk g r ∧ NoNew g r ∧ Onto g r := by
  induction ops with
  | nil =>
    intro g r hp _ h
    simp only [runSteps, Except.ok.injEq] at h
    subst h
    exact ⟨stepOk_id hp, noNew_id g, onto_id g⟩
  | cons op rest ih =>
    intro g r hp hall h
    simp only [runSteps] at h
    obtain ⟨r1, e1, h⟩ := bind_ok.mp h
    obtain ⟨r2, e2, h⟩ := bind_ok.mp h
    simp only [pure, Except.pure, Except.ok.injEq] at h
    subst h
    have k := hall op (List.mem_cons_self ..)
    simp only [SOp.rearranges, Bool.and_eq_true] at k
    obtain ⟨s1, n1, _⟩ := applyG_sound sz hsz hp e1
    have o1 := applyG_onto sz hsz hp k.2 e1
    obtain ⟨s2, n2, o2⟩ := ih s1.shape (fun o ho => hall o (List.mem_cons_of_mem _ ho)) e2
    exact ⟨StepOk.comp s1 s2, NoNew.comp (n1 k.1) n2, Onto.comp o1 o2⟩

/-- **any composition of rearrangements after which the affine has the columns of the input is the identity** -/
theorem runSteps_rigid (sz : AxMap → Int) (hsz : SzOk sz) (coord : Coord) (ops : List SOp) {g : Geom} {r : GStep}
    (ho : g.Orth) (hp : g.Pos) (hall : ∀ op ∈ ops, SOp.rearranges op = true) (h : runSteps sz coord g ops = .ok r)
    (h0 : r.1.c0 = g.c0) (h1 : r.1.c1 = g.c1) (h2 : r.1.c2 = g.c2) : r.1 = g ∧ ∀ j, r.2 j = j := by
  obtain ⟨s, n, o⟩ := runSteps_sound sz hsz coord ops hp hall h
  exact rigid_of_same_cols ho hp s n o h0 h1 h2


end HdVerif.VolLemmas
