import HdVerif.Model.Bits
namespace HdVerif.Bits

theorem bitsOf_length (n k : Nat) : (bitsOf n k).length = k := by
  induction k generalizing n with
  | zero => rfl
  | succ k ih => simp [bitsOf, ih]

/-- unpacking the byte of ≤ k bits returns the bits padded with false -/
theorem bitsOf_byteOf (bs : List Bool) (k : Nat) (h : bs.length ≤ k) :
    bitsOf (byteOf bs) k = bs ++ List.replicate (k - bs.length) false := by
  induction k generalizing bs with
  | zero =>
    cases bs with
    | nil => rfl
    | cons b bs => simp at h
  | succ k ih =>
    cases bs with
    | nil =>
      simp only [byteOf, bitsOf, List.length_nil, Nat.sub_zero, List.nil_append, List.replicate_succ]
      have := ih [] (by simp)
      simp only [byteOf, List.length_nil, Nat.sub_zero, List.nil_append] at this
      simp [this]
    | cons b bs =>
      simp only [List.length_cons] at h
      have hk : bs.length ≤ k := by omega
      simp only [byteOf, bitsOf, List.length_cons, List.cons_append]
      have h1 : ((if b then 1 else 0) + 2 * byteOf bs) % 2 = (if b then 1 else 0) := by
        cases b <;> simp <;> omega
      have h2 : ((if b then 1 else 0) + 2 * byteOf bs) / 2 = byteOf bs := by
        cases b <;> simp <;> omega
      rw [h2, ih bs hk]
      have : k + 1 - (bs.length + 1) = k - bs.length := by omega
      rw [this]
      cases b <;> simp [h1]

theorem pack_nil : pack [] = [] := by
  rw [pack]; simp

theorem pack_cons_ne (bs : List Bool) (h : bs ≠ []) :
    pack bs = byteOf (bs.take 8) :: pack (bs.drop 8) := by
  rw [pack]; simp [h]

/-- packing an aligned prefix distributes over append -/
theorem pack_append_aligned (a b : List Bool) (h : a.length % 8 = 0) :
    pack (a ++ b) = pack a ++ pack b := by
  induction hn : a.length / 8 generalizing a with
  | zero =>
    have : a.length = 0 := by omega
    have : a = [] := List.length_eq_zero_iff.mp this
    subst this; simp [pack_nil]
  | succ n ih =>
    have hlen : 8 ≤ a.length := by omega
    have hne : a ≠ [] := by intro h0; subst h0; simp at hlen
    have hne2 : a ++ b ≠ [] := by simp [hne]
    rw [pack_cons_ne _ hne2, pack_cons_ne _ hne]
    have ht : (a ++ b).take 8 = a.take 8 := by
      rw [List.take_append_of_le_length hlen]
    have hd : (a ++ b).drop 8 = a.drop 8 ++ b := by
      rw [List.drop_append_of_le_length hlen]
    rw [ht, hd]
    have := ih (a.drop 8) (by simp; omega) (by simp; omega)
    rw [this]; simp

/-- unpack ∘ pack returns the bits followed by zero padding to a byte boundary -/
theorem unpack_pack (bs : List Bool) :
    ∃ pad, unpack (pack bs) = bs ++ List.replicate pad false ∧ pad < 8 ∧ (bs.length + pad) % 8 = 0 := by
  induction hn : bs.length using Nat.strongRecOn generalizing bs with
  | _ n ih =>
    subst hn
    by_cases h : bs = []
    · subst h; exact ⟨0, by simp [pack_nil, unpack], by omega, by simp⟩
    · rw [pack_cons_ne _ h]
      by_cases h8 : bs.length ≤ 8
      · -- last byte
        have hd : bs.drop 8 = [] := by simp [List.drop_eq_nil_iff, h8]
        have ht : bs.take 8 = bs := by simp [List.take_of_length_le h8]
        rw [hd, ht, pack_nil]
        refine ⟨8 - bs.length, ?_, ?_, ?_⟩
        · simp [unpack, bitsOf_byteOf bs 8 h8]
        · have : 0 < bs.length := List.length_pos_iff.mpr h
          omega
        · omega
      · have hlt : (bs.drop 8).length < bs.length := by
          have : 0 < bs.length := List.length_pos_iff.mpr h
          simp; omega
        obtain ⟨pad, hp, hlt8, hmod⟩ := ih _ hlt (bs.drop 8) rfl
        refine ⟨pad, ?_, hlt8, ?_⟩
        · have htl : (bs.take 8).length ≤ 8 := by simp; omega
          have htl8 : (bs.take 8).length = 8 := by simp; omega
          simp only [unpack, List.flatMap_cons] at hp ⊢
          rw [hp, bitsOf_byteOf _ 8 htl, htl8]
          simp
          rw [← List.append_assoc, List.take_append_drop]
        · simp at hmod; omega



theorem foldl_carry (fs : List (List Bool)) (out : List Nat) (rem : List Bool) :
    let r := fs.foldl (loopStep true) (out, rem)
    r.1 ++ pack r.2 = out ++ pack (rem ++ fs.flatten) := by
  induction fs generalizing out rem with
  | nil => simp
  | cons f fs ih =>
    simp only [List.foldl_cons, List.flatten_cons]
    have := ih (out ++ pack ((rem ++ f).take (8 * ((rem ++ f).length / 8))))
               ((rem ++ f).drop (8 * ((rem ++ f).length / 8)))
    simp only [loopStep, ↓reduceIte] at this ⊢
    rw [this]
    have hk : ((rem ++ f).take (8 * ((rem ++ f).length / 8))).length % 8 = 0 := by
      rw [List.length_take]
      have : 8 * ((rem ++ f).length / 8) ≤ (rem ++ f).length := Nat.mul_div_le _ _
      rw [Nat.min_eq_left this]; omega
    rw [List.append_assoc, ← pack_append_aligned _ _ hk, ← List.append_assoc (List.take _ _),
        List.take_append_drop, List.append_assoc]

theorem pack_of_empty_rem (r : List Nat × List Bool) :
    (if r.2.length > 0 then r.1 ++ pack r.2 else r.1) = r.1 ++ pack r.2 := by
  split
  · rfl
  · have : r.2 = [] := by
      apply List.length_eq_zero_iff.mp; omega
    simp [this, pack_nil]

/-- with the carry branch active the loop emits exactly the packing of the concatenated frames -/
theorem packLoop_carry (g : Nat → Bool) (n : Nat) (hg : g n = true) (frames : List (List Bool)) :
    packLoop g n frames = pack frames.flatten := by
  unfold packLoop
  rw [hg, pack_of_empty_rem]
  have := foldl_carry frames [] []
  simpa using this

/-- with the per-frame branch the result is the same whenever frames are whole bytes -/
theorem foldl_nocarry (fs : List (List Bool)) (n : Nat) (hn : n % 8 = 0) (hlen : ∀ f ∈ fs, f.length = n)
    (out : List Nat) :
    fs.foldl (loopStep false) (out, []) = (out ++ pack fs.flatten, []) := by
  induction fs generalizing out with
  | nil => simp [pack_nil]
  | cons f fs ih =>
    simp only [List.foldl_cons, List.flatten_cons, loopStep]
    have hf : f.length % 8 = 0 := by rw [hlen f (by simp)]; exact hn
    have := ih (fun g hg => hlen g (by simp [hg])) (out ++ pack f)
    simp only [Bool.false_eq_true, ↓reduceIte] at this ⊢
    rw [this, pack_append_aligned _ _ hf, List.append_assoc]

theorem packLoop_nocarry (g : Nat → Bool) (n : Nat) (hg : g n = false) (hn : n % 8 = 0)
    (frames : List (List Bool)) (hlen : ∀ f ∈ frames, f.length = n) :
    packLoop g n frames = pack frames.flatten := by
  unfold packLoop
  rw [hg, foldl_nocarry frames n hn hlen []]
  simp


theorem unpack_length (bytes : List Nat) : (unpack bytes).length = 8 * bytes.length := by
  induction bytes with
  | nil => rfl
  | cons b bs ih => simp [unpack, List.flatMap_cons, bitsOf_length] at ih ⊢; omega

theorem unpack_append (a b : List Nat) : unpack (a ++ b) = unpack a ++ unpack b := by
  simp [unpack]

theorem unpack_drop (bytes : List Nat) (s : Nat) : unpack (bytes.drop s) = (unpack bytes).drop (8 * s) := by
  induction s generalizing bytes with
  | zero => simp
  | succ s ih =>
    cases bytes with
    | nil => simp [unpack]
    | cons b bs =>
      have h8 : (bitsOf b 8).length = 8 := bitsOf_length b 8
      simp only [List.drop_succ_cons, ih]
      show _ = (unpack ([b] ++ bs)).drop _
      rw [unpack_append]
      have hl : (unpack [b]).length = 8 := by simp [unpack, h8]
      have : 8 * (s + 1) = (unpack [b]).length + 8 * s := by omega
      rw [this, ← List.drop_drop, List.drop_append_length]

theorem unpack_take (bytes : List Nat) (m : Nat) : unpack (bytes.take m) = (unpack bytes).take (8 * m) := by
  induction m generalizing bytes with
  | zero => simp [unpack]
  | succ m ih =>
    cases bytes with
    | nil => simp [unpack]
    | cons b bs =>
      have h8 : (bitsOf b 8).length = 8 := bitsOf_length b 8
      simp only [List.take_succ_cons]
      show unpack ([b] ++ bs.take m) = (unpack ([b] ++ bs)).take _
      rw [unpack_append, unpack_append, ih]
      have hl : (unpack [b]).length = 8 := by simp [unpack, h8]
      rw [List.take_append, List.take_of_length_le (l := unpack [b]) (by omega), hl]
      congr 2

/-- frame i of a flattened list of equal-length frames -/
theorem flatten_drop_take {α} (frames : List (List α)) (n : Nat) (hlen : ∀ f ∈ frames, f.length = n)
    (i : Nat) (hi : i < frames.length) :
    (frames.flatten.drop (i * n)).take n = frames[i] := by
  induction frames generalizing i with
  | nil => simp at hi
  | cons f fs ih =>
    have hf : f.length = n := hlen f (by simp)
    cases i with
    | zero => simp [List.take_append_of_le_length (by omega : n ≤ f.length), ← hf]
    | succ i =>
      simp only [List.flatten_cons, List.getElem_cons_succ]
      have : (i + 1) * n = f.length + i * n := by rw [hf, Nat.succ_mul]; omega
      rw [this, ← List.drop_drop, List.drop_append_length]
      exact ih (fun g hg => hlen g (by simp [hg])) i (by simpa using hi)

theorem flatten_length {α} (frames : List (List α)) (n : Nat) (hlen : ∀ f ∈ frames, f.length = n) :
    frames.flatten.length = frames.length * n := by
  induction frames with
  | nil => simp
  | cons f fs ih =>
    simp only [List.flatten_cons, List.length_append, List.length_cons]
    rw [ih (fun g hg => hlen g (by simp [hg])), hlen f (by simp), Nat.succ_mul]; omega

end HdVerif.Bits
