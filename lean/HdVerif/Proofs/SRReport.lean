import HdVerif.Model.SRReport
/-! Helper lemmas for C16. -/
namespace HdVerif.SRReportLemmas
open HdVerif HdVerif.SRReport

/-! ## the query loop is a document-order filter -/

theorem queryLoop_spec (k : Kind) (f : Filters) : ∀ (gs : List Group) (i : Nat) (l : List Nat),
    queryLoop k f gs i = .ok l →
      (∀ g ∈ gs, ∃ b, keep k g f = .ok b) ∧
      l.Pairwise (· < ·) ∧
      (∀ j, j ∈ l ↔ i ≤ j ∧ ∃ g, gs[j - i]? = some g ∧ keep k g f = .ok true)
  | [], i, l, h => by
    simp only [queryLoop, Except.ok.injEq] at h
    subst h
    simp
  | g :: rest, i, l, h => by
    unfold queryLoop at h
    cases hk : keep k g f with
    | error x => simp [hk] at h
    | ok b =>
      simp only [hk] at h
      cases hr : queryLoop k f rest (i + 1) with
      | error x => simp [hr] at h
      | ok l' =>
        simp only [hr, Except.ok.injEq] at h
        obtain ⟨ih1, ih2, ih3⟩ := queryLoop_spec k f rest (i + 1) l' hr
        have hge : ∀ j ∈ l', i + 1 ≤ j := fun j hj => ((ih3 j).mp hj).1
        have shift : ∀ j, i + 1 ≤ j → (g :: rest)[j - i]? = rest[j - (i + 1)]? := by
          intro j hj
          have : j - i = (j - (i + 1)) + 1 := by omega
          rw [this, List.getElem?_cons_succ]
        refine ⟨?_, ?_, ?_⟩
        · intro g' hg'
          rcases List.mem_cons.mp hg' with e | e
          · subst e; exact ⟨b, hk⟩
          · exact ih1 g' e
        · subst h
          cases b
          · simpa using ih2
          · simp only [if_true, List.pairwise_cons]
            exact ⟨fun j hj => by have := hge j hj; omega, ih2⟩
        · intro j
          subst h
          cases b
          · simp only [Bool.false_eq_true, if_false, ih3 j]
            constructor
            · rintro ⟨hj, g', hg', hkeep⟩
              exact ⟨by omega, g', by rw [shift j hj]; exact hg', hkeep⟩
            · rintro ⟨hj, g', hg', hkeep⟩
              by_cases hji : j = i
              · subst hji
                simp only [Nat.sub_self, List.getElem?_cons_zero, Option.some.injEq] at hg'
                subst hg'
                rw [hk] at hkeep
                cases hkeep
              · have hj' : i + 1 ≤ j := by omega
                exact ⟨hj', g', by rw [← shift j hj']; exact hg', hkeep⟩
          · simp only [if_true, List.mem_cons, ih3 j]
            constructor
            · rintro (e | ⟨hj, g', hg', hkeep⟩)
              · subst e
                exact ⟨Nat.le_refl _, g, by simp, hk⟩
              · exact ⟨by omega, g', by rw [shift j hj]; exact hg', hkeep⟩
            · rintro ⟨hj, g', hg', hkeep⟩
              by_cases hji : j = i
              · exact Or.inl hji
              · have hj' : i + 1 ≤ j := by omega
                exact Or.inr ⟨hj', g', by rw [← shift j hj']; exact hg', hkeep⟩

/-- the loop fails exactly when some group cannot be decided -/
theorem queryLoop_ok_of_all (k : Kind) (f : Filters) : ∀ (gs : List Group) (i : Nat),
    (∀ g ∈ gs, ∃ b, keep k g f = .ok b) → ∃ l, queryLoop k f gs i = .ok l
  | [], i, _ => ⟨[], rfl⟩
  | g :: rest, i, h => by
    obtain ⟨b, hb⟩ := h g (by simp)
    obtain ⟨l, hl⟩ := queryLoop_ok_of_all k f rest (i + 1) (fun g' hg' => h g' (by simp [hg']))
    exact ⟨if b then i :: l else l, by simp [queryLoop, hb, hl]⟩

/-! ## items that are no ROI reference are inert -/

/-- value types of the items that precede the ROI reference in a constructed container -/
def inertVt (vt : String) : Prop := vt = "TEXT" ∨ vt = "UIDREF" ∨ vt = "CODE" ∨ vt = "NUM"

/-- an item that is no ROI reference whatever its name: inert value type, or the real-world-value-map reference -/
def InertItem (it : GItem) : Prop := inertVt it.vt ∨ (it.vt = "COMPOSITE" ∧ it.name = cRwvm)

theorem roiCountStep_inert (name vt : String) (a b c d e : Int) (h : inertVt vt) :
    Gen.roiCountStep name vt a b c d e = .ok (a, b, c, d, e) := by
  unfold Gen.roiCountStep
  rcases h with h | h | h | h <;> subst h <;> simp

theorem roiCountStep_inertItem (it : GItem) (a b c d e : Int) (h : InertItem it) :
    Gen.roiCountStep it.name it.vt a b c d e = .ok (a, b, c, d, e) := by
  rcases h with h | ⟨h1, h2⟩
  · exact roiCountStep_inert _ _ _ _ _ _ _ h
  · rw [h1, h2]; simp [Gen.roiCountStep, cRwvm]

theorem countLoop_append_inert : ∀ (pre rest : List GItem) (c : Int × Int × Int × Int × Int),
    (∀ it ∈ pre, InertItem it) → countLoop (pre ++ rest) c = countLoop rest c
  | [], rest, c, _ => rfl
  | it :: pre, rest, (a, b, c, d, e), h => by
    simp only [List.cons_append, countLoop]
    rw [roiCountStep_inertItem it a b c d e (h it (by simp))]
    exact countLoop_append_inert pre rest _ (fun x hx => h x (by simp [hx]))

theorem lookup_some_mem {β} (k : String) : ∀ (l : List (String × β)) (v : β), l.lookup k = some v → (k, v) ∈ l
  | [], _, h => by simp [List.lookup] at h
  | (k', v') :: rest, v, h => by
    by_cases hk : k = k'
    · subst hk
      simp [List.lookup] at h
      subst h
      simp
    · have : (k == k') = false := by simpa using hk
      simp only [List.lookup, this] at h
      exact List.mem_cons_of_mem _ (lookup_some_mem k rest v h)

theorem table_inert (vt : String) (h : inertVt vt) : ∀ row ∈ Gen.refTypeValueTypes, row.2.contains vt = false := by
  intro row hrow
  simp only [Gen.refTypeValueTypes, List.mem_cons, List.not_mem_nil, or_false] at hrow
  rcases h with h | h | h | h <;> subst h <;> rcases hrow with r | r | r | r | r <;> subst r <;> decide

/-- every allowed reference type has a row in the value-type table (no `KeyError` in `_get_roi_reference_items`) -/
def Covered (allowed : List String) : Prop := ∀ n, allowed.contains n = true → (Gen.refTypeValueTypes.lookup n).isSome = true

theorem covered_planar : Covered Gen.planarAllowedRefTypes := by
  intro n hn
  simp only [Gen.planarAllowedRefTypes, List.contains_cons, List.contains_nil, Bool.or_false, Bool.or_eq_true, beq_iff_eq] at hn
  rcases hn with h | h | h <;> subst h <;> decide

theorem covered_volumetric : Covered Gen.volumetricAllowedRefTypes := by
  intro n hn
  simp only [Gen.volumetricAllowedRefTypes, List.contains_cons, List.contains_nil, Bool.or_false, Bool.or_eq_true, beq_iff_eq] at hn
  rcases hn with h | h | h | h <;> subst h <;> decide

theorem roiRefLoop_append_inert (allowed : List String) (hcov : Covered allowed) :
    ∀ (pre rest : List GItem) (rt : Option String) (acc : List GItem),
    (∀ it ∈ pre, InertItem it) → roiRefLoop allowed (pre ++ rest) rt acc = roiRefLoop allowed rest rt acc
  | [], _, _, _, _ => rfl
  | it :: pre, rest, rt, acc, h => by
    have ih := roiRefLoop_append_inert allowed hcov pre rest rt acc (fun x hx => h x (by simp [hx]))
    simp only [List.cons_append, roiRefLoop]
    split
    · exact ih
    · split
      · split
        · rename_i hc _ hl
          have := hcov it.name hc
          rw [hl] at this
          cases this
        · rename_i hc vts hl
          rcases h it (by simp) with hin | ⟨_, hname⟩
          · have := table_inert it.vt hin _ (lookup_some_mem _ _ _ hl)
            simp only at this
            simp only [this, Bool.false_eq_true, if_false]
            exact ih
          · rw [hname] at hl
            have : Gen.refTypeValueTypes.lookup cRwvm = none := by decide
            rw [this] at hl
            cases hl
      · exact ih

/-! ## the constructed container: inert prefix ++ ROI reference items -/

/-- everything the constructors put before the ROI reference -/
def preItems (p : Params) : List GItem :=
  [{ name := cTrackingId, vt := "TEXT", rel := "HAS OBS CONTEXT", value := p.trackingId },
   { name := cTrackingUid, vt := "UIDREF", rel := "HAS OBS CONTEXT", value := p.trackingUid }] ++
  p.ctxA ++
  optItem cFindingCategory "CODE" "CONTAINS" p.findingCategory ++
  optItem cFinding "CODE" "CONTAINS" p.findingType ++
  optItem cMethod "CODE" "CONTAINS" p.method ++
  p.sites.map (fun s => { name := cFindingSite, vt := "CODE", rel := "HAS CONCEPT MOD", value := s }) ++
  p.ctxB ++
  p.measurements.map (fun x => { name := x.1, vt := "NUM", rel := "CONTAINS", value := x.2 }) ++
  p.evaluations.map (fun x => { name := x.1, vt := "CODE", rel := "CONTAINS", value := x.2 }) ++
  optItem cGeometricPurpose "CODE" "CONTAINS" p.purpose

/-- what the optional context parts of a group (session, algorithm identification, time point context, real world value
map) consist of: TEXT items, CODE / NUM items with relationship HAS OBS CONTEXT, the COMPOSITE real-world-value-map
reference — none under a name the library uses for something else -/
def ContextItemOK (it : GItem) : Prop :=
  (it.vt = "TEXT" ∨ ((it.vt = "CODE" ∨ it.vt = "NUM") ∧ it.rel = "HAS OBS CONTEXT") ∨ (it.vt = "COMPOSITE" ∧ it.name = cRwvm)) ∧
  fixedNames.contains it.name = false ∧ it.sound = true

theorem contextItemOK_iff (it : GItem) : contextItemOK it = true ↔ ContextItemOK it := by
  unfold contextItemOK ContextItemOK
  simp only [Bool.and_eq_true, Bool.or_eq_true, beq_iff_eq, Bool.not_eq_true', or_assoc, and_assoc]

def ContextOK (p : Params) : Prop := (∀ it ∈ p.ctxA, ContextItemOK it) ∧ (∀ it ∈ p.ctxB, ContextItemOK it)

theorem contextItem_inert (it : GItem) (h : ContextItemOK it) : InertItem it := by
  rcases h.1 with h | ⟨h | h, _⟩ | h
  · exact Or.inl (Or.inl h)
  · exact Or.inl (Or.inr (Or.inr (Or.inl h)))
  · exact Or.inl (Or.inr (Or.inr (Or.inr h)))
  · exact Or.inr h

theorem mkItems_eq (p : Params) : mkItems p = preItems p ++ refItems p.ref := rfl

theorem optItem_inert (name rel : String) (v : Option String) : ∀ it ∈ optItem name "CODE" rel v, inertVt it.vt := by
  intro it h
  cases v with
  | none => simp [optItem] at h
  | some x => simp [optItem] at h; subst h; exact Or.inr (Or.inr (Or.inl rfl))

theorem preItems_inert (p : Params) (hctx : ContextOK p) : ∀ it ∈ preItems p, InertItem it := by
  intro it h
  simp only [preItems, List.mem_append, List.mem_cons, List.not_mem_nil, or_false, List.mem_map] at h
  rcases h with (((((((((h | h) | h) | h) | h) | h) | ⟨s, _, h⟩) | h) | ⟨x, _, h⟩) | ⟨x, _, h⟩) | h
  · subst h; exact Or.inl (Or.inl rfl)
  · subst h; exact Or.inl (Or.inr (Or.inl rfl))
  · exact contextItem_inert it (hctx.1 it h)
  · exact Or.inl (optItem_inert _ _ _ it h)
  · exact Or.inl (optItem_inert _ _ _ it h)
  · exact Or.inl (optItem_inert _ _ _ it h)
  · subst h; exact Or.inl (Or.inr (Or.inr (Or.inl rfl)))
  · exact contextItem_inert it (hctx.2 it h)
  · subst h; exact Or.inl (Or.inr (Or.inr (Or.inr rfl)))
  · subst h; exact Or.inl (Or.inr (Or.inr (Or.inl rfl)))
  · exact Or.inl (optItem_inert _ _ _ it h)

/-! ### counting -/

/-- the five counters a constructed reference produces -/
def counts : RoiRef → (Int × Int × Int × Int × Int)
  | .region2d _ _ | .region3d _ => (1, 0, 0, 0, 0)
  | .segframe _ _ => (0, 0, 0, 1, 0)
  | .regions2d rs => (rs.length, 0, 0, 0, 0)
  | .segment _ _ _ => (0, 0, 1, 0, 0)
  | .surface _ n _ _ => (0, n, 0, 0, 0)
  | .regionInSpace _ => (0, 0, 0, 0, 1)
  | .images _ => (0, 0, 0, 0, 0)

theorem countLoop_srcItems (l : List Ref) (rest : List GItem) (c : Int × Int × Int × Int × Int) :
    countLoop (srcItems l ++ rest) c = countLoop rest c := by
  induction l generalizing c with
  | nil => rfl
  | cons x xs ih =>
    obtain ⟨a, b, c', d, e⟩ := c
    simp only [srcItems, List.map_cons, List.cons_append, countLoop]
    have : Gen.roiCountStep cSourceImageForSegmentation "IMAGE" a b c' d e = .ok (a, b, c', d, e) := by
      simp [Gen.roiCountStep, cSourceImageForSegmentation]
    simp only [this]
    exact ih _

theorem countLoop_seriesItems (u : Option String) (c : Int × Int × Int × Int × Int) :
    countLoop (seriesItems u) c = .ok c := by
  obtain ⟨a, b, c', d, e⟩ := c
  cases u with
  | none => rfl
  | some x => simp [seriesItems, countLoop, Gen.roiCountStep]

theorem countLoop_regions (rs : List (String × Ref)) (a b c d e : Int) :
    countLoop (rs.map (fun x => ({ name := cImageRegion, vt := "SCOORD", rel := "CONTAINS", graphic := x.1, kids := [srcKid x.2], hasSeq := true } : GItem)))
      (a, b, c, d, e) = .ok (a + rs.length, b, c, d, e) := by
  induction rs generalizing a with
  | nil => simp [countLoop]
  | cons x xs ih =>
    simp only [List.map_cons, countLoop]
    have : Gen.roiCountStep cImageRegion "SCOORD" a b c d e = .ok (a + 1, b, c, d, e) := by
      simp [Gen.roiCountStep, cImageRegion]
    simp only [this, ih]
    simp only [List.length_cons, Except.ok.injEq, Prod.mk.injEq, and_true]
    omega

theorem countLoop_replicate (gr : String) (n : Nat) (rest : List GItem) (a b c d e : Int) :
    countLoop (List.replicate n ({ name := cVolumeSurface, vt := "SCOORD3D", rel := "CONTAINS", graphic := gr } : GItem) ++ rest)
      (a, b, c, d, e) = countLoop rest (a, b + n, c, d, e) := by
  induction n generalizing b with
  | zero => simp
  | succ n ih =>
    simp only [List.replicate_succ, List.cons_append, countLoop]
    have : Gen.roiCountStep cVolumeSurface "SCOORD3D" a b c d e = .ok (a, b + 1, c, d, e) := by
      simp [Gen.roiCountStep, cVolumeSurface]
    simp only [this, ih]
    congr 1
    simp only [Prod.mk.injEq, true_and, and_true]
    omega

theorem countLoop_images (l : List Ref) (c : Int × Int × Int × Int × Int) :
    countLoop (l.map (fun s => ({ name := cSource, vt := "IMAGE", rel := "CONTAINS", ref := some s } : GItem))) c = .ok c := by
  induction l generalizing c with
  | nil => rfl
  | cons x xs ih =>
    obtain ⟨a, b, c', d, e⟩ := c
    simp only [List.map_cons, countLoop]
    have : Gen.roiCountStep cSource "IMAGE" a b c' d e = .ok (a, b, c', d, e) := by
      simp [Gen.roiCountStep, cSource]
    simp only [this]
    exact ih _

theorem countLoop_refItems (r : RoiRef) : countLoop (refItems r) (0, 0, 0, 0, 0) = .ok (counts r) := by
  cases r with
  | region2d gr s => simp [refItems, countLoop, counts, Gen.roiCountStep, cImageRegion]
  | region3d gr => simp [refItems, countLoop, counts, Gen.roiCountStep, cImageRegion]
  | segframe seg s =>
    simp [refItems, countLoop, counts, Gen.roiCountStep, cReferencedSegmentationFrame, cSourceImageForSegmentation]
  | regions2d rs =>
    simp only [refItems, counts]
    rw [countLoop_regions]
    simp
  | segment seg srcs ser =>
    simp only [refItems, counts, List.cons_append, List.nil_append, countLoop]
    have : Gen.roiCountStep cReferencedSegment "IMAGE" 0 0 0 0 0 = .ok (0, 0, 1, 0, 0) := by
      simp [Gen.roiCountStep, cReferencedSegment]
    simp only [this]
    rw [countLoop_srcItems, countLoop_seriesItems]
  | surface gr n srcs ser =>
    simp only [refItems, counts, List.append_assoc]
    rw [countLoop_replicate, countLoop_srcItems, countLoop_seriesItems]
    simp
  | regionInSpace r => simp [refItems, countLoop, counts, Gen.roiCountStep, cRegionInSpace]
  | images srcs =>
    simp only [refItems, counts]
    exact countLoop_images _ _

theorem countRoi_constructed (p : Params) (hctx : ContextOK p) : countRoi (mkGroup p) = .ok (counts p.ref) := by
  have hg : Gen.roiCountGuard "CONTAINER" cMeasurementGroup = .ok true := by
    simp [Gen.roiCountGuard, cMeasurementGroup]
  simp only [countRoi, hg, mkGroup, mkItems_eq]
  rw [countLoop_append_inert _ _ _ (preItems_inert p hctx)]
  exact countLoop_refItems p.ref

/-! ### kind -/

theorem containsPlanar_constructed (p : Params) (hctx : ContextOK p) : containsPlanar (mkGroup p) = .ok (contentKind .planar p.ref) := by
  simp only [containsPlanar, countRoi_constructed p hctx]
  cases p.ref with
  | regions2d rs =>
    simp only [counts, contentKind, Gen.containsPlanarRois]
    by_cases h : rs.length = 1
    · have hi : (rs.length : Int) = 1 := by omega
      simp [h, hi]
    · have hi : (rs.length : Int) ≠ 1 := by omega
      simp [h, hi]
  | surface gr n srcs ser =>
    simp only [counts, contentKind, Gen.containsPlanarRois]
    simp
  | _ => simp [counts, contentKind, Gen.containsPlanarRois]

theorem containsVolumetric_constructed (p : Params) (hctx : ContextOK p) : containsVolumetric (mkGroup p) = .ok (contentKind .volumetric p.ref) := by
  simp only [containsVolumetric, countRoi_constructed p hctx]
  cases p.ref with
  | regions2d rs =>
    simp only [counts, contentKind, Gen.containsVolumetricRois]
    by_cases h : rs.length > 1
    · have hi : (1 : Int) < (rs.length : Int) := by omega
      simp [h, hi]
    · have hi : ¬ (1 : Int) < (rs.length : Int) := by omega
      have hle : (rs.length : Int) ≤ 1 := by omega
      simp [h, hi, hle]
  | surface gr n srcs ser =>
    simp only [counts, contentKind, Gen.containsVolumetricRois]
    by_cases h : n > 0
    · have hi : (0 : Int) < (n : Int) := by omega
      simp [h, hi]
    · have hi : ¬ (0 : Int) < (n : Int) := by omega
      have hle : (n : Int) ≤ 0 := by omega
      simp [h, hi, hle]
  | _ => simp [counts, contentKind, Gen.containsVolumetricRois]

theorem contentKind_image (r : RoiRef) : contentKind .image r = !(contentKind .planar r || contentKind .volumetric r) := by
  cases r with
  | regions2d rs =>
    simp only [contentKind]
    cases rs with
    | nil => simp
    | cons x xs => cases xs <;> simp
  | surface gr n srcs ser => cases n <;> simp [contentKind]
  | _ => simp [contentKind]

theorem templateId_inj (a b : Kind) : (a.templateId == b.templateId) = (a == b) := by
  cases a <;> cases b <;> decide

theorem isKind_constructed (k : Kind) (p : Params) (hctx : ContextOK p) : isKind k (mkGroup p) = .ok (specKind k p) := by
  unfold isKind specKind
  cases ht : p.template
  · simp only [mkGroup, ht, Bool.false_eq_true, if_false]
    cases k with
    | planar => exact containsPlanar_constructed p hctx
    | volumetric => exact containsVolumetric_constructed p hctx
    | image =>
      have h1 := containsPlanar_constructed p hctx
      have h2 := containsVolumetric_constructed p hctx
      simp only [mkGroup, ht, Bool.false_eq_true, if_false] at h1 h2
      simp only [h1, h2, contentKind_image]
  · simp only [mkGroup, ht, if_true, templateId_inj]

/-! ### the three common filters -/

/-- names of evaluations (CODE items with arbitrary names) must not be names the library reserves -/
def CleanNames (p : Params) : Prop := ∀ e ∈ p.evaluations, reservedCodeNames.contains e.1 = false

theorem refItems_shape (r : RoiRef) : ∀ it ∈ refItems r, it.rel = "CONTAINS" ∧ it.vt ≠ "CODE" ∧ it.vt ≠ "NUM" ∧ it.vt ≠ "TEXT" := by
  intro it h
  cases r with
  | region2d gr s => simp [refItems] at h; subst h; simp
  | region3d gr => simp [refItems] at h; subst h; simp
  | segframe seg s => simp [refItems] at h; rcases h with h | h <;> subst h <;> simp
  | regions2d rs => simp [refItems] at h; obtain ⟨a, b, _, h⟩ := h; subst h; simp
  | segment seg srcs ser =>
    simp only [refItems, srcItems, List.mem_append, List.mem_cons, List.not_mem_nil, or_false, List.mem_map] at h
    rcases h with (h | ⟨x, _, h⟩) | h
    · subst h; simp
    · subst h; simp
    · cases ser with
      | none => simp [seriesItems] at h
      | some u => simp [seriesItems] at h; subst h; simp
  | surface gr n srcs ser =>
    simp only [refItems, srcItems, List.mem_append, List.mem_replicate, List.mem_map] at h
    rcases h with (⟨_, h⟩ | ⟨x, _, h⟩) | h
    · subst h; simp
    · subst h; simp
    · cases ser with
      | none => simp [seriesItems] at h
      | some u => simp [seriesItems] at h; subst h; simp
  | regionInSpace r => simp [refItems] at h; subst h; simp
  | images srcs => simp [refItems] at h; obtain ⟨x, _, h⟩ := h; subst h; simp

theorem any_false_of_forall {α} (l : List α) (q : α → Bool) (h : ∀ x ∈ l, q x = false) : l.any q = false := by
  rw [List.any_eq_false]
  intro x hx
  simp [h x hx]

theorem ctx_any_false (l : List GItem) (hl : ∀ it ∈ l, ContextItemOK it) (nm : String) (hn : fixedNames.contains nm = true)
    (q : GItem → Bool) : l.any (fun it => it.name == nm && q it) = false := by
  apply any_false_of_forall
  intro it hit
  have h1 := (hl it hit).2.1
  have : (it.name == nm) = false := by
    apply beq_eq_false_iff_ne.mpr
    intro e
    rw [e] at h1
    rw [h1] at hn
    cases hn
  simp [this]

theorem containsCode_finding (p : Params) (v : String) (hc : CleanNames p) (hctx : ContextOK p) :
    containsCode (mkGroup p) cFinding v "CONTAINS" = (p.findingType == some v) := by
  simp only [containsCode, mkGroup, mkItems_eq, preItems, List.any_append]
  have h5 : (refItems p.ref).any (fun it => it.name == cFinding && it.vt == "CODE" && it.rel == "CONTAINS" && it.value == v) = false := by
    apply any_false_of_forall
    intro it hit
    have := (refItems_shape p.ref it hit).2.1
    simp [this]
  have h4 : (optItem cGeometricPurpose "CODE" "CONTAINS" p.purpose).any
      (fun it => it.name == cFinding && it.vt == "CODE" && it.rel == "CONTAINS" && it.value == v) = false := by
    cases p.purpose <;> simp [optItem, cGeometricPurpose, cFinding]
  have h3 : (p.evaluations.map (fun x => ({ name := x.1, vt := "CODE", rel := "CONTAINS", value := x.2 } : GItem))).any
      (fun it => it.name == cFinding && it.vt == "CODE" && it.rel == "CONTAINS" && it.value == v) = false := by
    apply any_false_of_forall
    intro it hit
    obtain ⟨x, hx, rfl⟩ := List.mem_map.mp hit
    have := hc x hx
    simp only [reservedCodeNames, List.contains_cons, Bool.or_eq_false_iff] at this
    simp [this.1]
  have h2 : (p.measurements.map (fun x => ({ name := x.1, vt := "NUM", rel := "CONTAINS", value := x.2 } : GItem))).any
      (fun it => it.name == cFinding && it.vt == "CODE" && it.rel == "CONTAINS" && it.value == v) = false := by
    apply any_false_of_forall
    intro it hit
    obtain ⟨x, _, rfl⟩ := List.mem_map.mp hit
    simp
  have h1 : (p.sites.map (fun s => ({ name := cFindingSite, vt := "CODE", rel := "HAS CONCEPT MOD", value := s } : GItem))).any
      (fun it => it.name == cFinding && it.vt == "CODE" && it.rel == "CONTAINS" && it.value == v) = false := by
    apply any_false_of_forall
    intro it hit
    obtain ⟨x, _, rfl⟩ := List.mem_map.mp hit
    simp
  have h0 : (optItem cFindingCategory "CODE" "CONTAINS" p.findingCategory).any
      (fun it => it.name == cFinding && it.vt == "CODE" && it.rel == "CONTAINS" && it.value == v) = false := by
    cases p.findingCategory <;> simp [optItem, cFindingCategory, cFinding]
  have h0' : (optItem cMethod "CODE" "CONTAINS" p.method).any
      (fun it => it.name == cFinding && it.vt == "CODE" && it.rel == "CONTAINS" && it.value == v) = false := by
    cases p.method <;> simp [optItem, cMethod, cFinding]
  have hA := ctx_any_false p.ctxA hctx.1 cFinding (by decide) (fun it => it.vt == "CODE" && it.rel == "CONTAINS" && it.value == v)
  have hB := ctx_any_false p.ctxB hctx.2 cFinding (by decide) (fun it => it.vt == "CODE" && it.rel == "CONTAINS" && it.value == v)
  simp only [Bool.and_assoc] at hA hB ⊢
  simp only [Bool.and_assoc] at h0 h0' h1 h2 h3 h4 h5
  rw [h0, h0', h1, h2, h3, h4, h5, hA, hB]
  cases hf : p.findingType with
  | none => simp [optItem]
  | some x => simp [optItem]

theorem containsCode_site (p : Params) (v : String) (hctx : ContextOK p) :
    containsCode (mkGroup p) cFindingSite v "HAS CONCEPT MOD" = p.sites.contains v := by
  simp only [containsCode, mkGroup, mkItems_eq, preItems, List.any_append]
  have h5 : (refItems p.ref).any (fun it => it.name == cFindingSite && it.vt == "CODE" && it.rel == "HAS CONCEPT MOD" && it.value == v) = false := by
    apply any_false_of_forall
    intro it hit
    have := (refItems_shape p.ref it hit).2.1
    simp [this]
  have hopt : ∀ (nm : String) (o : Option String), (optItem nm "CODE" "CONTAINS" o).any
      (fun it => it.name == cFindingSite && it.vt == "CODE" && it.rel == "HAS CONCEPT MOD" && it.value == v) = false := by
    intro nm o
    cases o <;> simp [optItem]
  have h3 : (p.evaluations.map (fun x => ({ name := x.1, vt := "CODE", rel := "CONTAINS", value := x.2 } : GItem))).any
      (fun it => it.name == cFindingSite && it.vt == "CODE" && it.rel == "HAS CONCEPT MOD" && it.value == v) = false := by
    apply any_false_of_forall
    intro it hit
    obtain ⟨x, _, rfl⟩ := List.mem_map.mp hit
    simp
  have h2 : (p.measurements.map (fun x => ({ name := x.1, vt := "NUM", rel := "CONTAINS", value := x.2 } : GItem))).any
      (fun it => it.name == cFindingSite && it.vt == "CODE" && it.rel == "HAS CONCEPT MOD" && it.value == v) = false := by
    apply any_false_of_forall
    intro it hit
    obtain ⟨x, _, rfl⟩ := List.mem_map.mp hit
    simp
  have hs : ∀ l : List String, (l.map (fun s => ({ name := cFindingSite, vt := "CODE", rel := "HAS CONCEPT MOD", value := s } : GItem))).any
      (fun it => it.name == cFindingSite && it.vt == "CODE" && it.rel == "HAS CONCEPT MOD" && it.value == v) = l.contains v := by
    intro l
    induction l with
    | nil => simp
    | cons s ss ih =>
      simp only [List.map_cons, List.any_cons, ih, List.contains_cons]
      simp only [beq_self_eq_true, Bool.true_and]
      by_cases h : s = v
      · subst h; simp
      · have h' : ¬ v = s := fun e => h e.symm
        have e1 : (s == v) = false := beq_eq_false_iff_ne.mpr h
        have e2 : (v == s) = false := beq_eq_false_iff_ne.mpr h'
        rw [e1, e2]
  have hA := ctx_any_false p.ctxA hctx.1 cFindingSite (by decide) (fun it => it.vt == "CODE" && it.rel == "HAS CONCEPT MOD" && it.value == v)
  have hB := ctx_any_false p.ctxB hctx.2 cFindingSite (by decide) (fun it => it.vt == "CODE" && it.rel == "HAS CONCEPT MOD" && it.value == v)
  simp only [Bool.and_assoc] at hA hB h2 h3 h5 hs hopt ⊢
  rw [hopt, hopt, hopt, hopt, h2, h3, h5, hs, hA, hB]
  simp [cTrackingId, cTrackingUid, cFindingSite]

theorem containsUidref_tracking (p : Params) (v : String) (hctx : ContextOK p) :
    containsUidref (mkGroup p) cTrackingUid v "HAS OBS CONTEXT" = (p.trackingUid == v) := by
  simp only [containsUidref, mkGroup, mkItems_eq, preItems, List.any_append]
  have h5 : (refItems p.ref).any (fun it => it.name == cTrackingUid && it.vt == "UIDREF" && it.rel == "HAS OBS CONTEXT" && it.value == v) = false := by
    apply any_false_of_forall
    intro it hit
    have := (refItems_shape p.ref it hit).1
    simp [this]
  have hopt : ∀ (nm : String) (o : Option String), (optItem nm "CODE" "CONTAINS" o).any
      (fun it => it.name == cTrackingUid && it.vt == "UIDREF" && it.rel == "HAS OBS CONTEXT" && it.value == v) = false := by
    intro nm o
    cases o <;> simp [optItem]
  have hmap : ∀ {α} (l : List α) (g : α → GItem), (∀ x, (g x).vt ≠ "UIDREF") → (l.map g).any
      (fun it => it.name == cTrackingUid && it.vt == "UIDREF" && it.rel == "HAS OBS CONTEXT" && it.value == v) = false := by
    intro α l g hg
    apply any_false_of_forall
    intro it hit
    obtain ⟨x, _, rfl⟩ := List.mem_map.mp hit
    simp [hg x]
  have hA := ctx_any_false p.ctxA hctx.1 cTrackingUid (by decide) (fun it => it.vt == "UIDREF" && it.rel == "HAS OBS CONTEXT" && it.value == v)
  have hB := ctx_any_false p.ctxB hctx.2 cTrackingUid (by decide) (fun it => it.vt == "UIDREF" && it.rel == "HAS OBS CONTEXT" && it.value == v)
  simp only [Bool.and_assoc] at hA hB h5 hopt hmap ⊢
  rw [hopt, hopt, hopt, hopt, hmap _ _ (by intro x; simp), hmap _ _ (by intro x; simp), hmap _ _ (by intro x; simp), h5, hA, hB]
  simp [cTrackingId, cTrackingUid]

theorem commonMatches_constructed (p : Params) (f : Filters) (hc : CleanNames p) (hctx : ContextOK p) :
    commonMatches (mkGroup p) f = specCommon p f := by
  unfold commonMatches specCommon optEq
  cases f.findingType <;> cases f.findingSite <;> cases f.trackingUid <;>
    simp [containsCode_finding _ _ hc hctx, containsCode_site _ _ hctx, containsUidref_tracking _ _ hctx]

/-! ### the ROI reference items of a constructed container -/

theorem roiRefLoop_skip (allowed : List String) (it : GItem) (rest : List GItem) (rt : Option String) (acc : List GItem)
    (h : allowed.contains it.name = false) : roiRefLoop allowed (it :: rest) rt acc = roiRefLoop allowed rest rt acc := by
  simp only [roiRefLoop, h, Bool.false_eq_true, if_false]
  split <;> rfl

theorem roiRefLoop_srcItems (allowed : List String) (h : allowed.contains cSourceImageForSegmentation = false)
    (l : List Ref) (rest : List GItem) (rt : Option String) (acc : List GItem) :
    roiRefLoop allowed (srcItems l ++ rest) rt acc = roiRefLoop allowed rest rt acc := by
  induction l with
  | nil => rfl
  | cons x xs ih =>
    simp only [srcItems, List.map_cons, List.cons_append]
    rw [roiRefLoop_skip _ _ _ _ _ (by simpa using h)]
    exact ih

theorem roiRefLoop_seriesItems (allowed : List String) (h : allowed.contains cSourceSeriesForSegmentation = false)
    (u : Option String) (rt : Option String) (acc : List GItem) :
    roiRefLoop allowed (seriesItems u) rt acc = .ok (rt, acc) := by
  cases u with
  | none => rfl
  | some x =>
    simp only [seriesItems]
    rw [roiRefLoop_skip _ _ _ _ _ (by simpa using h)]
    rfl

def regionItem (x : String × Ref) : GItem :=
  { name := cImageRegion, vt := "SCOORD", rel := "CONTAINS", graphic := x.1, kids := [srcKid x.2], hasSeq := true }

def surfaceItem (gr : String) : GItem := { name := cVolumeSurface, vt := "SCOORD3D", rel := "CONTAINS", graphic := gr }

theorem roiRefLoop_regions (allowed : List String) (h : allowed.contains cImageRegion = true) :
    ∀ (rs : List (String × Ref)) (acc : List GItem),
      roiRefLoop allowed (rs.map regionItem) (some cImageRegion) acc = .ok (some cImageRegion, acc ++ rs.map regionItem)
  | [], acc => by simp [roiRefLoop]
  | x :: xs, acc => by
    have hl : Gen.refTypeValueTypes.lookup cImageRegion = some ["SCOORD", "SCOORD3D"] := by decide
    simp only [List.map_cons, roiRefLoop, regionItem, h, hl]
    have := roiRefLoop_regions allowed h xs (acc ++ [regionItem x])
    simp only [regionItem] at this
    simp [cImageRegion, cVolumeSurface] at this ⊢
    exact this

theorem roiRefLoop_surfaces (gr : String) (rest : List GItem) :
    ∀ (n : Nat) (acc : List GItem),
      roiRefLoop Gen.volumetricAllowedRefTypes (List.replicate n (surfaceItem gr) ++ rest) (some cVolumeSurface) acc
        = roiRefLoop Gen.volumetricAllowedRefTypes rest (some cVolumeSurface) (acc ++ List.replicate n (surfaceItem gr))
  | 0, acc => by simp
  | n + 1, acc => by
    have hl : Gen.refTypeValueTypes.lookup cVolumeSurface = some ["SCOORD3D"] := by decide
    have ha : Gen.volumetricAllowedRefTypes.contains cVolumeSurface = true := by decide
    simp only [List.replicate_succ, List.cons_append, roiRefLoop, surfaceItem, ha, hl]
    have := roiRefLoop_surfaces gr rest n (acc ++ [surfaceItem gr])
    simp only [surfaceItem] at this
    simp [cImageRegion, cVolumeSurface] at this ⊢
    exact this

theorem roiRefLoop_constructed (p : Params) (hctx : ContextOK p) (allowed : List String) (hcov : Covered allowed) :
    roiRefLoop allowed (mkGroup p).items none [] = roiRefLoop allowed (refItems p.ref) none [] := by
  simp only [mkGroup, mkItems_eq]
  exact roiRefLoop_append_inert allowed hcov _ _ _ _ (preItems_inert p hctx)

def region3dItem (gr : String) : GItem := { name := cImageRegion, vt := "SCOORD3D", rel := "CONTAINS", graphic := gr }
def segframeItem (seg : Ref) : GItem := { name := cReferencedSegmentationFrame, vt := "IMAGE", rel := "CONTAINS", ref := some seg }
def segmentItem (seg : Ref) : GItem := { name := cReferencedSegment, vt := "IMAGE", rel := "CONTAINS", ref := some seg }
def risItem (r : Ref) : GItem := { name := cRegionInSpace, vt := "COMPOSITE", rel := "CONTAINS", ref := some r }

/-- what `_get_planar_roi_reference_item` finds in a container constructed with a reference a planar query can meet -/
def planarFound : RoiRef → Option (String × GItem)
  | .region2d gr s => some (cImageRegion, regionItem (gr, s))
  | .region3d gr => some (cImageRegion, region3dItem gr)
  | .segframe seg _ => some (cReferencedSegmentationFrame, segframeItem seg)
  | .regionInSpace r => some (cRegionInSpace, risItem r)
  | .regions2d [x] => some (cImageRegion, regionItem x)
  | _ => none

theorem planarRefItem_constructed (p : Params) (hctx : ContextOK p) (t : String) (it : GItem) (h : planarFound p.ref = some (t, it)) :
    planarRefItem (mkGroup p) = .ok (t, it) := by
  unfold planarRefItem roiRefItems
  rw [roiRefLoop_constructed p hctx _ covered_planar]
  cases hr : p.ref with
  | region2d gr s =>
    rw [hr] at h; simp only [planarFound, Option.some.injEq, Prod.mk.injEq] at h; obtain ⟨rfl, rfl⟩ := h
    simp [refItems, roiRefLoop, regionItem, Gen.planarAllowedRefTypes, Gen.refTypeValueTypes, cImageRegion, List.lookup]
  | region3d gr =>
    rw [hr] at h; simp only [planarFound, Option.some.injEq, Prod.mk.injEq] at h; obtain ⟨rfl, rfl⟩ := h
    simp [refItems, roiRefLoop, region3dItem, Gen.planarAllowedRefTypes, Gen.refTypeValueTypes, cImageRegion, List.lookup]
  | segframe seg s =>
    rw [hr] at h; simp only [planarFound, Option.some.injEq, Prod.mk.injEq] at h; obtain ⟨rfl, rfl⟩ := h
    simp [refItems, roiRefLoop, segframeItem, Gen.planarAllowedRefTypes, Gen.refTypeValueTypes, cReferencedSegmentationFrame,
      cSourceImageForSegmentation, List.lookup]
  | regionInSpace r =>
    rw [hr] at h; simp only [planarFound, Option.some.injEq, Prod.mk.injEq] at h; obtain ⟨rfl, rfl⟩ := h
    simp [refItems, roiRefLoop, risItem, Gen.planarAllowedRefTypes, Gen.refTypeValueTypes, cRegionInSpace, List.lookup]
  | regions2d rs =>
    rw [hr] at h
    match rs, h with
    | [x], h =>
      simp only [planarFound, Option.some.injEq, Prod.mk.injEq] at h; obtain ⟨rfl, rfl⟩ := h
      simp [refItems, roiRefLoop, regionItem, Gen.planarAllowedRefTypes, Gen.refTypeValueTypes, cImageRegion, List.lookup]
  | segment seg srcs ser => rw [hr] at h; simp [planarFound] at h
  | surface gr n srcs ser => rw [hr] at h; simp [planarFound] at h
  | images srcs => rw [hr] at h; simp [planarFound] at h

/-- what `_get_volumetric_roi_reference_items` finds in a container constructed with a reference a volumetric query can meet -/
def volumetricFound : RoiRef → Option (String × List GItem)
  | .regions2d (x :: xs) => some (cImageRegion, (x :: xs).map regionItem)
  | .segment seg _ _ => some (cReferencedSegment, [segmentItem seg])
  | .surface gr (n + 1) _ _ => some (cVolumeSurface, List.replicate (n + 1) (surfaceItem gr))
  | .regionInSpace r => some (cRegionInSpace, [risItem r])
  | _ => none

theorem volumetricRefItems_constructed (p : Params) (hctx : ContextOK p) (t : String) (its : List GItem) (h : volumetricFound p.ref = some (t, its)) :
    roiRefItems (mkGroup p) Gen.volumetricAllowedRefTypes = .ok (t, its) ∧ its ≠ [] := by
  unfold roiRefItems
  rw [roiRefLoop_constructed p hctx _ covered_volumetric]
  have hsrc : Gen.volumetricAllowedRefTypes.contains cSourceImageForSegmentation = false := by decide
  have hser : Gen.volumetricAllowedRefTypes.contains cSourceSeriesForSegmentation = false := by decide
  cases hr : p.ref with
  | region2d gr s => rw [hr] at h; simp [volumetricFound] at h
  | region3d gr => rw [hr] at h; simp [volumetricFound] at h
  | segframe seg s => rw [hr] at h; simp [volumetricFound] at h
  | regionInSpace r =>
    rw [hr] at h; simp only [volumetricFound, Option.some.injEq, Prod.mk.injEq] at h; obtain ⟨rfl, rfl⟩ := h
    simp [refItems, roiRefLoop, risItem, Gen.volumetricAllowedRefTypes, Gen.refTypeValueTypes, cRegionInSpace, List.lookup]
  | regions2d rs =>
    rw [hr] at h
    match rs, h with
    | x :: xs, h =>
      simp only [volumetricFound, Option.some.injEq, Prod.mk.injEq] at h; obtain ⟨rfl, rfl⟩ := h
      have ha : Gen.volumetricAllowedRefTypes.contains cImageRegion = true := by decide
      have hl : Gen.refTypeValueTypes.lookup cImageRegion = some ["SCOORD", "SCOORD3D"] := by decide
      have hstep := roiRefLoop_regions Gen.volumetricAllowedRefTypes ha xs [regionItem x]
      have hmap : (List.map (fun x => ({ name := cImageRegion, vt := "SCOORD", rel := "CONTAINS", graphic := x.1, kids := [srcKid x.2], hasSeq := true } : GItem)) xs)
          = xs.map regionItem := rfl
      simp only [refItems, List.map_cons, roiRefLoop, ha, hl, hmap]
      simp only [regionItem] at hstep
      simp [cImageRegion, regionItem] at hstep ⊢
      rw [hstep]
  | segment seg srcs ser =>
    rw [hr] at h; simp only [volumetricFound, Option.some.injEq, Prod.mk.injEq] at h; obtain ⟨rfl, rfl⟩ := h
    have ha : Gen.volumetricAllowedRefTypes.contains cReferencedSegment = true := by decide
    have hl : Gen.refTypeValueTypes.lookup cReferencedSegment = some ["IMAGE"] := by decide
    simp only [refItems, List.cons_append, List.nil_append, roiRefLoop, ha, hl]
    simp only [show (("CONTAINS" : String) != "CONTAINS") = false by decide, Bool.false_eq_true, if_false,
      show (["IMAGE"] : List String).contains "IMAGE" = true by decide, if_true]
    rw [roiRefLoop_srcItems _ hsrc, roiRefLoop_seriesItems _ hser]
    simp [segmentItem]
  | surface gr n srcs ser =>
    rw [hr] at h
    match n, h with
    | n + 1, h =>
      simp only [volumetricFound, Option.some.injEq, Prod.mk.injEq] at h; obtain ⟨rfl, rfl⟩ := h
      have ha : Gen.volumetricAllowedRefTypes.contains cVolumeSurface = true := by decide
      have hl : Gen.refTypeValueTypes.lookup cVolumeSurface = some ["SCOORD3D"] := by decide
      have hrep : List.replicate (n + 1) ({ name := cVolumeSurface, vt := "SCOORD3D", rel := "CONTAINS", graphic := gr } : GItem)
          = surfaceItem gr :: List.replicate n (surfaceItem gr) := by simp [List.replicate_succ, surfaceItem]
      simp only [refItems, hrep, List.cons_append, List.append_assoc, roiRefLoop, surfaceItem, ha, hl]
      simp only [show (("CONTAINS" : String) != "CONTAINS") = false by decide, Bool.false_eq_true, if_false,
        show (["SCOORD3D"] : List String).contains "SCOORD3D" = true by decide, if_true]
      have := roiRefLoop_surfaces gr (srcItems srcs ++ seriesItems ser) n [surfaceItem gr]
      simp only [surfaceItem] at this
      simp only [List.nil_append]
      rw [this, roiRefLoop_srcItems _ hsrc, roiRefLoop_seriesItems _ hser]
      simp [List.replicate_succ]
  | images srcs => rw [hr] at h; simp [volumetricFound] at h

/-! ### the ROI-reference filters -/

theorem containsImage_constructed (p : Params) (hctx : ContextOK p) (name rel : String) (cls inst : Option String) :
    containsImage (mkGroup p) name rel cls inst =
      (refItems p.ref).any (fun it => it.name == name && it.vt == "IMAGE" && it.rel == rel && refMatches it.ref cls inst) := by
  simp only [containsImage, mkGroup, mkItems_eq, List.any_append]
  have : (preItems p).any (fun it => it.name == name && it.vt == "IMAGE" && it.rel == rel && refMatches it.ref cls inst) = false := by
    apply any_false_of_forall
    intro it hit
    rcases preItems_inert p hctx it hit with (h | h | h | h) | ⟨h, _⟩ <;> simp [h]
  rw [this, Bool.false_or]

theorem any_srcItems (l : List Ref) (cls inst : Option String) :
    (srcItems l).any (fun it => it.name == cSourceImageForSegmentation && it.vt == "IMAGE" && it.rel == "CONTAINS" && refMatches it.ref cls inst)
      = l.any (fun r => refMatches (some r) cls inst) := by
  induction l with
  | nil => rfl
  | cons x xs ih =>
    simp only [srcItems, List.map_cons, List.any_cons] at ih ⊢
    rw [ih]
    simp

theorem any_seriesItems (u : Option String) (name rel : String) (cls inst : Option String) :
    (seriesItems u).any (fun it => it.name == name && it.vt == "IMAGE" && it.rel == rel && refMatches it.ref cls inst) = false := by
  cases u <;> simp [seriesItems]

theorem optEq_some (f : Option String) (t : String) :
    optEq f (some t) = (match f with | none => true | some r => t == r) := by
  cases f with
  | none => rfl
  | some r => simp [optEq]

theorem needsRef_false (f : Filters) (h : f.needsRef = false) :
    f.referenceType = none ∧ f.graphic = none ∧ f.cls = none ∧ f.inst = none := by
  unfold Filters.needsRef at h
  cases h1 : f.referenceType <;> cases h2 : f.graphic <;> cases h3 : f.cls <;> cases h4 : f.inst <;> simp_all

theorem specFilters_noRef (k : Kind) (p : Params) (f : Filters) (h : f.needsRef = false) :
    specFilters k p f = specCommon p f := by
  obtain ⟨h1, h2, h3, h4⟩ := needsRef_false f h
  unfold specFilters specUid Filters.hasUid
  cases k <;> simp [h1, h2, h3, h4, optEq]

theorem pairBeq (a : Bool) (b : String) (gt : Bool × String) : (some (a, b) == some gt) = (a == gt.1 && b == gt.2) := by
  obtain ⟨x, y⟩ := gt
  by_cases h : (a, b) = (x, y)
  · cases h; simp
  · have e : (some (a, b) == some (x, y)) = false :=
      beq_eq_false_iff_ne.mpr (by intro e; exact h (Option.some.inj e))
    rw [e]
    simp only [Prod.mk.injEq, not_and] at h
    by_cases h1 : a = x
    · have h2 : (b == y) = false := beq_eq_false_iff_ne.mpr (h h1)
      simp [h2]
    · have h2 : (a == x) = false := beq_eq_false_iff_ne.mpr h1
      simp [h2]

theorem and_congr3 {a b c b' c' : Bool} (h1 : b = b') (h2 : c = c') : (a && b && c) = (a && b' && c') := by
  rw [h1, h2]

theorem pairBeq' (a : Bool) (b : String) (gt : Bool × String) : (gt == (a, b)) = (gt.1 == a && gt.2 == b) := by
  obtain ⟨x, y⟩ := gt
  rfl

theorem graphic_single (a : Bool) (gr : String) (it : GItem) (hvt : it.vt = if a then "SCOORD" else "SCOORD3D")
    (hg : it.graphic = gr) (gt : Bool × String) : graphicMatches it gt = [(a, gr)].contains gt := by
  obtain ⟨x, y⟩ := gt
  simp only [graphicMatches, List.contains_cons, List.contains_nil, Bool.or_false, hvt, hg]
  by_cases h : gr = y
  · subst h; cases a <;> cases x <;> simp
  · have h' : ¬ y = gr := fun e => h e.symm
    have e1 : (gr == y) = false := beq_eq_false_iff_ne.mpr h
    have e2 : ∀ b : Bool, ((b, y) == (b, gr)) = false := fun b =>
      beq_eq_false_iff_ne.mpr (by intro e; exact h' (Prod.mk.inj e).2)
    cases a <;> cases x <;> simp [e1, e2]

theorem graphic_entry_eq (a : Bool) (gr : String) (it : GItem) (hvt : it.vt = if a then "SCOORD" else "SCOORD3D")
    (hg : it.graphic = gr) (gt : Bool × String) :
    (it.vt == (if gt.1 then "SCOORD" else "SCOORD3D") && it.graphic == gt.2) = (gt == (a, gr)) := by
  obtain ⟨x, y⟩ := gt
  simp only [hvt, hg]
  by_cases h : gr = y
  · subst h; cases a <;> cases x <;> simp
  · have h' : ¬ y = gr := fun e => h e.symm
    have e1 : (gr == y) = false := beq_eq_false_iff_ne.mpr h
    have e2 : ∀ b c : Bool, ((b, y) == (c, gr)) = false := fun b c =>
      beq_eq_false_iff_ne.mpr (by intro e; exact h' (Prod.mk.inj e).2)
    simp [e1, e2]

theorem volGraphic_map {α} (mk : α → GItem) (a : Bool) (gof : α → String)
    (h1 : ∀ x, (mk x).vt = if a then "SCOORD" else "SCOORD3D") (h2 : ∀ x, (mk x).graphic = gof x) (gt : Bool × String) :
    ∀ l : List α, volGraphicMatches (l.map mk) gt = (l.map (fun x => (a, gof x))).contains gt := by
  intro l
  induction l with
  | nil => rfl
  | cons x xs ih =>
    unfold volGraphicMatches at ih ⊢
    simp only [List.map_cons, List.any_cons, List.contains_cons, ih, graphic_entry_eq a (gof x) (mk x) (h1 x) (h2 x) gt]

theorem volGraphic_replicate (it : GItem) (a : Bool) (gr : String) (hvt : it.vt = if a then "SCOORD" else "SCOORD3D")
    (hg : it.graphic = gr) (gt : Bool × String) :
    ∀ n : Nat, volGraphicMatches (List.replicate n it) gt = (List.replicate n (a, gr)).contains gt := by
  intro n
  induction n with
  | zero => rfl
  | succ n ih =>
    unfold volGraphicMatches at ih ⊢
    simp only [List.replicate_succ, List.any_cons, List.contains_cons, ih, graphic_entry_eq a gr it hvt hg gt]

theorem volGraphic_other (it : GItem) (h1 : it.vt ≠ "SCOORD") (h2 : it.vt ≠ "SCOORD3D") (gt : Bool × String) :
    volGraphicMatches [it] gt = false := by
  unfold volGraphicMatches
  cases hg : gt.1 <;> simp [h1, h2]

theorem planarKeepP_constructed (p : Params) (f : Filters) (hc : CleanNames p) (hctx : ContextOK p) (t : String) (it : GItem)
    (h : planarFound p.ref = some (t, it)) : planarKeepP (mkGroup p) f = .ok (specFilters .planar p f) := by
  unfold planarKeepP planarUidP
  cases hn : f.needsRef
  · simp only [Bool.not_false, if_true, commonMatches_constructed p f hc hctx, specFilters_noRef _ p f hn]
  · simp only [Bool.not_true, Bool.false_eq_true, if_false, planarRefItem_constructed p hctx t it h,
      commonMatches_constructed p f hc hctx, containsImage_constructed p hctx]
    unfold specFilters specUid
    simp only [Except.ok.injEq]
    cases hr : p.ref with
    | region2d gr s =>
      rw [hr] at h; simp only [planarFound, Option.some.injEq, Prod.mk.injEq] at h; obtain ⟨rfl, rfl⟩ := h
      simp only [RoiRef.refType, RoiRef.graphics, RoiRef.instances, optEq_some, refItems]
      refine and_congr3 ?_ ?_
      · cases f.graphic with
        | none => rfl
        | some gt =>
          exact graphic_single true gr _ rfl rfl gt
      · cases f.hasUid <;> simp [regionItem, kidsContainImage, srcKid, cImageRegion, cReferencedSegmentationFrame, cRegionInSpace]
    | region3d gr =>
      rw [hr] at h; simp only [planarFound, Option.some.injEq, Prod.mk.injEq] at h; obtain ⟨rfl, rfl⟩ := h
      simp only [RoiRef.refType, RoiRef.graphics, RoiRef.instances, optEq_some, refItems]
      refine and_congr3 ?_ ?_
      · cases f.graphic with
        | none => rfl
        | some gt =>
          exact graphic_single false gr _ rfl rfl gt
      · cases f.hasUid <;> simp [region3dItem, cImageRegion, cReferencedSegmentationFrame, cRegionInSpace]
    | segframe seg s =>
      rw [hr] at h; simp only [planarFound, Option.some.injEq, Prod.mk.injEq] at h; obtain ⟨rfl, rfl⟩ := h
      simp only [RoiRef.refType, RoiRef.graphics, RoiRef.instances, optEq_some, refItems]
      refine and_congr3 ?_ ?_
      · cases f.graphic with
        | none => rfl
        | some gt =>
          simp only [graphicMatches, segframeItem]
          cases gt.1 <;> simp
      · cases f.hasUid <;> simp [segframeItem, cImageRegion, cReferencedSegmentationFrame, cRegionInSpace, cSourceImageForSegmentation]
    | regionInSpace r =>
      rw [hr] at h; simp only [planarFound, Option.some.injEq, Prod.mk.injEq] at h; obtain ⟨rfl, rfl⟩ := h
      simp only [RoiRef.refType, RoiRef.graphics, RoiRef.instances, optEq_some, refItems]
      refine and_congr3 ?_ ?_
      · cases f.graphic with
        | none => rfl
        | some gt =>
          simp only [graphicMatches, risItem]
          cases gt.1 <;> simp
      · cases f.hasUid <;> simp [risItem, cImageRegion, cReferencedSegmentationFrame, cRegionInSpace, cSourceImageForSegmentation]
    | regions2d rs =>
      rw [hr] at h
      match rs, h with
      | [x], h =>
        simp only [planarFound, Option.some.injEq, Prod.mk.injEq] at h; obtain ⟨rfl, rfl⟩ := h
        obtain ⟨gr, s⟩ := x
        simp only [RoiRef.refType, RoiRef.graphics, RoiRef.instances, optEq_some, refItems]
        refine and_congr3 ?_ ?_
        · cases f.graphic with
          | none => rfl
          | some gt =>
            exact graphic_single true gr _ rfl rfl gt
        · cases f.hasUid <;> simp [regionItem, kidsContainImage, srcKid, cImageRegion, cReferencedSegmentationFrame, cRegionInSpace]
    | segment seg srcs ser => rw [hr] at h; simp [planarFound] at h
    | surface gr n srcs ser => rw [hr] at h; simp [planarFound] at h
    | images srcs => rw [hr] at h; simp [planarFound] at h

theorem any_regions (rs : List (String × Ref)) (cls inst : Option String) :
    (rs.map regionItem).any (fun it => it.vt == "SCOORD" && kidsContainImage it cls inst)
      = (rs.map (·.2)).any (fun r => refMatches (some r) cls inst) := by
  induction rs with
  | nil => rfl
  | cons x xs ih =>
    simp only [List.map_cons, List.any_cons, ih]
    simp [regionItem, kidsContainImage, srcKid]

theorem volumetricKeepP_constructed (p : Params) (f : Filters) (hc : CleanNames p) (hctx : ContextOK p) (t : String) (its : List GItem)
    (h : volumetricFound p.ref = some (t, its)) : volumetricKeepP (mkGroup p) f = .ok (specFilters .volumetric p f) := by
  unfold volumetricKeepP volumetricUidP
  cases hn : f.needsRef
  · simp only [Bool.not_false, if_true, commonMatches_constructed p f hc hctx, specFilters_noRef _ p f hn]
  · obtain ⟨hfound, hne⟩ := volumetricRefItems_constructed p hctx t its h
    simp only [Bool.not_true, Bool.false_eq_true, if_false, hfound]
    cases hits : its with
    | nil => exact absurd hits hne
    | cons first more =>
      simp only [commonMatches_constructed p f hc hctx, containsImage_constructed p hctx]
      unfold specFilters specUid
      simp only [Except.ok.injEq]
      rw [hits] at h
      cases hr : p.ref with
      | regions2d rs =>
        rw [hr] at h
        match rs, h with
        | x :: xs, h =>
          simp only [volumetricFound, Option.some.injEq, Prod.mk.injEq, List.map_cons, List.cons.injEq] at h
          obtain ⟨rfl, rfl, rfl⟩ := h
          obtain ⟨gr, s⟩ := x
          simp only [RoiRef.refType, RoiRef.graphics, RoiRef.instances, optEq_some, refItems]
          refine and_congr3 ?_ ?_
          · cases f.graphic with
            | none => rfl
            | some gt =>
              exact volGraphic_map regionItem true (·.1) (fun _ => rfl) (fun _ => rfl) gt ((gr, s) :: xs)
          · cases f.hasUid
            · simp
            · have := any_regions ((gr, s) :: xs) f.cls f.inst
              simp only [List.map_cons] at this
              simp only [if_true, this]
              simp [cImageRegion, cReferencedSegment, cRegionInSpace]
      | segment seg srcs ser =>
        rw [hr] at h
        simp only [volumetricFound, Option.some.injEq, Prod.mk.injEq, List.cons.injEq] at h
        obtain ⟨rfl, rfl, rfl⟩ := h
        simp only [RoiRef.refType, RoiRef.graphics, RoiRef.instances, optEq_some, refItems]
        refine and_congr3 ?_ ?_
        · cases f.graphic with
          | none => rfl
          | some gt =>
            exact volGraphic_other (segmentItem seg) (by simp [segmentItem]) (by simp [segmentItem]) gt
        · cases f.hasUid
          · simp
          · simp only [if_true, List.any_append, any_srcItems, any_seriesItems, List.any_cons, List.any_nil]
            simp [segmentItem, cImageRegion, cReferencedSegment, cRegionInSpace, cSourceImageForSegmentation]
      | surface gr n srcs ser =>
        rw [hr] at h
        match n, h with
        | n + 1, h =>
          simp only [volumetricFound, Option.some.injEq, Prod.mk.injEq, List.replicate_succ, List.cons.injEq] at h
          obtain ⟨rfl, rfl, rfl⟩ := h
          simp only [RoiRef.refType, RoiRef.graphics, RoiRef.instances, optEq_some, refItems]
          refine and_congr3 ?_ ?_
          · cases f.graphic with
            | none => rfl
            | some gt =>
              exact volGraphic_replicate (surfaceItem gr) false gr rfl rfl gt (n + 1)
          · cases f.hasUid <;> simp [surfaceItem, cImageRegion, cReferencedSegment, cRegionInSpace, cVolumeSurface]
      | regionInSpace r =>
        rw [hr] at h
        simp only [volumetricFound, Option.some.injEq, Prod.mk.injEq, List.cons.injEq] at h
        obtain ⟨rfl, rfl, rfl⟩ := h
        simp only [RoiRef.refType, RoiRef.graphics, RoiRef.instances, optEq_some, refItems]
        refine and_congr3 ?_ ?_
        · cases f.graphic with
          | none => rfl
          | some gt =>
            exact volGraphic_other (risItem r) (by simp [risItem]) (by simp [risItem]) gt
        · cases f.hasUid <;> simp [risItem, cImageRegion, cReferencedSegment, cRegionInSpace, cSourceImageForSegmentation]
      | region2d gr s => rw [hr] at h; simp [volumetricFound] at h
      | region3d gr => rw [hr] at h; simp [volumetricFound] at h
      | segframe seg s => rw [hr] at h; simp [volumetricFound] at h
      | images srcs => rw [hr] at h; simp [volumetricFound] at h

theorem any_sourceImages (l : List Ref) (cls inst : Option String) :
    (l.map (fun s => ({ name := cSource, vt := "IMAGE", rel := "CONTAINS", ref := some s } : GItem))).any
      (fun it => it.name == cSource && it.vt == "IMAGE" && it.rel == "CONTAINS" && refMatches it.ref cls inst)
      = l.any (fun r => refMatches (some r) cls inst) := by
  induction l with
  | nil => rfl
  | cons x xs ih =>
    simp only [List.map_cons, List.any_cons, ih]
    simp

theorem imageKeepP_constructed (p : Params) (f : Filters) (hc : CleanNames p) (hctx : ContextOK p) (srcs : List Ref) (h : p.ref = .images srcs) :
    imageKeepP (mkGroup p) f = .ok (specFilters .image p f) := by
  unfold imageKeepP specFilters specUid
  simp only [commonMatches_constructed p f hc hctx, containsImage_constructed p hctx, h, refItems, RoiRef.instances, Except.ok.injEq]
  congr 1
  cases f.hasUid
  · rfl
  · simp only [if_true, any_sourceImages]

/-! ### one group, any query -/

theorem planarFound_of_kind (p : Params) (hcons : p.consistent = true) (hk : specKind .planar p = true) :
    ∃ t it, planarFound p.ref = some (t, it) := by
  unfold specKind at hk
  unfold Params.consistent at hcons
  cases ht : p.template
  · simp only [ht, Bool.false_eq_true, if_false] at hk
    cases hr : p.ref with
    | regions2d rs =>
      rw [hr] at hk
      simp only [contentKind, beq_iff_eq] at hk
      match rs, hk with
      | [x], _ => exact ⟨_, _, rfl⟩
    | region2d gr s => exact ⟨_, _, rfl⟩
    | region3d gr => exact ⟨_, _, rfl⟩
    | segframe seg s => exact ⟨_, _, rfl⟩
    | regionInSpace r => exact ⟨_, _, rfl⟩
    | segment seg srcs ser => rw [hr] at hk; simp [contentKind] at hk
    | surface gr n srcs ser => rw [hr] at hk; simp [contentKind] at hk
    | images srcs => rw [hr] at hk; simp [contentKind] at hk
  · simp only [ht, if_true, beq_iff_eq] at hk
    rw [hk] at hcons
    cases hr : p.ref with
    | region2d gr s => exact ⟨_, _, rfl⟩
    | region3d gr => exact ⟨_, _, rfl⟩
    | segframe seg s => exact ⟨_, _, rfl⟩
    | regionInSpace r => exact ⟨_, _, rfl⟩
    | regions2d rs => rw [hr] at hcons; simp at hcons
    | segment seg srcs ser => rw [hr] at hcons; simp at hcons
    | surface gr n srcs ser => rw [hr] at hcons; simp at hcons
    | images srcs => rw [hr] at hcons; simp at hcons

theorem volumetricFound_of_kind (p : Params) (hcons : p.consistent = true) (hk : specKind .volumetric p = true) :
    ∃ t its, volumetricFound p.ref = some (t, its) := by
  unfold specKind at hk
  unfold Params.consistent at hcons
  cases ht : p.template
  · simp only [ht, Bool.false_eq_true, if_false] at hk
    cases hr : p.ref with
    | regions2d rs =>
      rw [hr] at hk
      simp only [contentKind, decide_eq_true_eq] at hk
      match rs, hk with
      | x :: xs, _ => exact ⟨_, _, rfl⟩
    | surface gr n srcs ser =>
      rw [hr] at hk
      simp only [contentKind, decide_eq_true_eq] at hk
      match n, hk with
      | n + 1, _ => exact ⟨_, _, rfl⟩
    | segment seg srcs ser => exact ⟨_, _, rfl⟩
    | regionInSpace r => exact ⟨_, _, rfl⟩
    | region2d gr s => rw [hr] at hk; simp [contentKind] at hk
    | region3d gr => rw [hr] at hk; simp [contentKind] at hk
    | segframe seg s => rw [hr] at hk; simp [contentKind] at hk
    | images srcs => rw [hr] at hk; simp [contentKind] at hk
  · simp only [ht, if_true, beq_iff_eq] at hk
    rw [hk] at hcons
    cases hr : p.ref with
    | regions2d rs =>
      rw [hr] at hcons
      match rs, hcons with
      | x :: xs, _ => exact ⟨_, _, rfl⟩
    | surface gr n srcs ser =>
      rw [hr] at hcons
      simp only [decide_eq_true_eq] at hcons
      match n, hcons with
      | n + 1, _ => exact ⟨_, _, rfl⟩
    | segment seg srcs ser => exact ⟨_, _, rfl⟩
    | regionInSpace r => exact ⟨_, _, rfl⟩
    | region2d gr s => rw [hr] at hcons; simp at hcons
    | region3d gr => rw [hr] at hcons; simp at hcons
    | segframe seg s => rw [hr] at hcons; simp at hcons
    | images srcs => rw [hr] at hcons; simp at hcons

theorem images_of_kind (p : Params) (hcons : p.consistent = true) (hk : specKind .image p = true) :
    ∃ srcs, p.ref = .images srcs := by
  unfold specKind at hk
  unfold Params.consistent at hcons
  cases hr : p.ref with
  | images srcs => exact ⟨srcs, rfl⟩
  | _ =>
    rw [hr] at hcons hk
    cases hkind : p.kind <;> cases ht : p.template <;> simp_all [contentKind]

/-- **One constructed group against one query**: the loop body decides exactly `kind ∧ every filter`, both read
off the construction parameters. -/
theorem keepP_constructed (k : Kind) (p : Params) (f : Filters) (hcons : p.consistent = true) (hc : CleanNames p) (hctx : ContextOK p) :
    keepP k (mkGroup p) f = .ok (specKind k p && specFilters k p f) := by
  unfold keepP
  rw [isKind_constructed k p hctx]
  cases hk : specKind k p
  · rfl
  · simp only [Bool.true_and]
    cases k with
    | planar =>
      obtain ⟨t, it, h⟩ := planarFound_of_kind p hcons hk
      exact planarKeepP_constructed p f hc hctx t it h
    | volumetric =>
      obtain ⟨t, its, h⟩ := volumetricFound_of_kind p hcons hk
      exact volumetricKeepP_constructed p f hc hctx t its h
    | image =>
      obtain ⟨srcs, h⟩ := images_of_kind p hcons hk
      exact imageKeepP_constructed p f hc hctx srcs h

/-! ### sound groups: the error arms for malformed stored items do not fire -/

theorem sound_parts (it : GItem) (h : it.sound = true) :
    (it.vt = "SCOORD" → Gen.srGraphicTypes2D.contains it.graphic = true ∧ it.hasSeq = true) ∧
    (it.vt = "SCOORD3D" → Gen.srGraphicTypes3D.contains it.graphic = true) ∧
    ((it.vt = "IMAGE" ∨ it.vt = "COMPOSITE") → it.ref.isSome = true) ∧
    (∀ k ∈ it.kids, (k.vt = "IMAGE" ∨ k.vt = "COMPOSITE") → k.ref.isSome = true) ∧
    it.convertible = true := by
  unfold GItem.sound at h
  simp only [Bool.and_eq_true, Bool.or_eq_true, Bool.not_eq_true', beq_eq_false_iff_ne, ne_eq] at h
  obtain ⟨⟨h1, h2⟩, h3⟩ := h
  have h3' := h3
  unfold GItem.convertible at h3
  simp only [Bool.and_eq_true, Bool.or_eq_true, Bool.not_eq_true', Bool.or_eq_false_iff, beq_eq_false_iff_ne, ne_eq,
    List.all_eq_true] at h3
  refine ⟨?_, ?_, ?_, ?_, h3'⟩
  · intro hv
    rcases h1 with h1 | h1
    · exact absurd hv h1
    · exact h1
  · intro hv
    rcases h2 with h2 | h2
    · exact absurd hv h2
    · exact h2
  · intro hv
    rcases h3.1 with ⟨a, b⟩ | h
    · rcases hv with hv | hv
      · exact absurd hv a
      · exact absurd hv b
    · exact h
  · intro k hk hv
    have := h3.2 k hk
    unfold Kid.sound at this
    simp only [Bool.or_eq_true, Bool.not_eq_true', Bool.or_eq_false_iff, beq_eq_false_iff_ne, ne_eq] at this
    rcases this with ⟨a, b⟩ | h
    · rcases hv with hv | hv
      · exact absurd hv a
      · exact absurd hv b
    · exact h

theorem imageLoop_ok (cls inst : Option String) : ∀ l : List (Option Ref), (∀ r ∈ l, r.isSome = true) →
    imageLoop cls inst l = .ok (l.any (fun r => refMatches r cls inst)) := by
  intro l
  induction l with
  | nil => intro _; rfl
  | cons r rs ih =>
    intro h
    cases r with
    | none =>
      have := h none (List.mem_cons_self ..)
      cases this
    | some r =>
      simp only [imageLoop, List.any_cons]
      cases hm : refMatches (some r) cls inst
      · rw [ih (fun x hx => h x (List.mem_cons_of_mem _ hx))]
        simp
      · simp

theorem any_filter_map {α β} (l : List α) (q : α → Bool) (g : α → β) (r : β → Bool) :
    ((l.filter q).map g).any r = l.any (fun x => q x && r (g x)) := by
  induction l with
  | nil => rfl
  | cons x xs ih =>
    cases h : q x <;> simp [List.filter_cons, h, ih]

theorem containsImageE_sound (g : Group) (hs : g.sound = true) (name rel : String) (cls inst : Option String) :
    containsImageE g name rel cls inst = .ok (containsImage g name rel cls inst) := by
  unfold containsImageE containsImage
  rw [imageLoop_ok, any_filter_map]
  intro r hr
  simp only [List.mem_map, List.mem_filter, Bool.and_eq_true, beq_iff_eq] at hr
  obtain ⟨it, ⟨hit, ⟨⟨_, hv⟩, _⟩⟩, rfl⟩ := hr
  unfold Group.sound at hs
  exact (sound_parts it (List.all_eq_true.mp hs it hit)).2.2.1 (Or.inl hv)

theorem kidsContainImageE_sound (it : GItem) (hs : it.sound = true) (hv : it.vt = "SCOORD") (cls inst : Option String) :
    kidsContainImageE it cls inst = .ok (kidsContainImage it cls inst) := by
  obtain ⟨h1, _, _, h4, _⟩ := sound_parts it hs
  unfold kidsContainImageE kidsContainImage
  simp only [(h1 hv).2, Bool.not_true, Bool.false_eq_true, if_false]
  rw [imageLoop_ok, any_filter_map]
  intro r hr
  simp only [List.mem_map, List.mem_filter, Bool.and_eq_true, beq_iff_eq] at hr
  obtain ⟨k, ⟨hk, ⟨hkv, _⟩⟩, rfl⟩ := hr
  exact h4 k hk (Or.inl hkv)

theorem regionsLoop_sound (cls inst : Option String) : ∀ items : List GItem, (∀ it ∈ items, it.sound = true) →
    regionsLoop cls inst items = .ok (items.any (fun it => it.vt == "SCOORD" && kidsContainImage it cls inst)) := by
  intro items
  induction items with
  | nil => intro _; rfl
  | cons it rest ih =>
    intro h
    have ih' := ih (fun x hx => h x (List.mem_cons_of_mem _ hx))
    unfold regionsLoop
    by_cases hv : it.vt = "SCOORD"
    · simp only [hv, beq_self_eq_true, if_true, kidsContainImageE_sound it (h it (List.mem_cons_self ..)) hv, ih', List.any_cons,
        Bool.true_and]
    · have hb : (it.vt == "SCOORD") = false := beq_eq_false_iff_ne.mpr hv
      simp only [hb, Bool.false_eq_true, if_false, ih', List.any_cons, Bool.false_and, Bool.false_or]

theorem graphicRead_ok (a : Bool) (g : String) (h : (if a then Gen.srGraphicTypes2D else Gen.srGraphicTypes3D).contains g = true) :
    graphicRead a g = .ok g := by
  unfold graphicRead
  simp only [h, if_true]

theorem sound_graphic (it : GItem) (hs : it.sound = true) (a : Bool) (hv : it.vt = if a then "SCOORD" else "SCOORD3D") :
    (if a then Gen.srGraphicTypes2D else Gen.srGraphicTypes3D).contains it.graphic = true := by
  obtain ⟨h1, h2, _⟩ := sound_parts it hs
  cases a
  · exact h2 hv
  · exact (h1 hv).1

theorem graphicEntry_sound (it : GItem) (hs : it.sound = true) (gt : Bool × String) :
    graphicEntry it gt = .ok (graphicMatches it gt) := by
  unfold graphicEntry graphicMatches
  by_cases hv : it.vt = (if gt.1 then "SCOORD" else "SCOORD3D")
  · rw [if_pos (by simp [hv]), graphicRead_ok gt.1 it.graphic (sound_graphic it hs gt.1 hv)]
    cases hg : gt.1 <;> simp [hg] at hv ⊢ <;> simp [hv]
  · have hb : (it.vt == (if gt.1 then "SCOORD" else "SCOORD3D")) = false := beq_eq_false_iff_ne.mpr hv
    rw [if_neg (by simp [hb])]
    cases hg : gt.1 <;> simp [hg] at hb ⊢ <;> simp [hb]

theorem graphicReadAll_sound (a : Bool) : ∀ items : List GItem, (∀ it ∈ items, it.sound = true) →
    ∃ l, graphicReadAll a items = .ok l ∧
      ∀ y, l.contains y = items.any (fun it => it.vt == (if a then "SCOORD" else "SCOORD3D") && it.graphic == y) := by
  intro items
  induction items with
  | nil => intro _; exact ⟨[], rfl, fun _ => rfl⟩
  | cons it rest ih =>
    intro h
    obtain ⟨l, hl, hc⟩ := ih (fun x hx => h x (List.mem_cons_of_mem _ hx))
    unfold graphicReadAll
    by_cases hv : it.vt = (if a then "SCOORD" else "SCOORD3D")
    · refine ⟨it.graphic :: l, ?_, ?_⟩
      · rw [if_pos (by simp [hv]), graphicRead_ok a it.graphic (sound_graphic it (h it (List.mem_cons_self ..)) a hv), hl]
      · intro y
        have hb : (it.vt == (if a then "SCOORD" else "SCOORD3D")) = true := by simp [hv]
        simp only [List.contains_cons, List.any_cons, hc y, hb, Bool.true_and]
        rw [BEq.comm]
    · have hb : (it.vt == (if a then "SCOORD" else "SCOORD3D")) = false := beq_eq_false_iff_ne.mpr hv
      refine ⟨l, ?_, ?_⟩
      · rw [if_neg (by simp [hb]), hl]
      · intro y
        simp only [List.any_cons, hc y, hb, Bool.false_and, Bool.false_or]

theorem volGraphicEntry_sound (items : List GItem) (hs : ∀ it ∈ items, it.sound = true) (gt : Bool × String) :
    volGraphicEntry items gt = .ok (volGraphicMatches items gt) := by
  obtain ⟨l, hl, hc⟩ := graphicReadAll_sound gt.1 items hs
  unfold volGraphicEntry volGraphicMatches
  rw [hl]
  simp only [hc gt.2]

/-- what the ROI search collects: items of the container, all under the reference type found, each of a value type the
table lists for that type -/
def RefInv (items : List GItem) (rt : Option String) (acc : List GItem) : Prop :=
  ∀ x ∈ acc, x ∈ items ∧ rt = some x.name ∧ ∃ vts, Gen.refTypeValueTypes.lookup x.name = some vts ∧ vts.contains x.vt = true

theorem roiRefLoop_inv (allowed : List String) (items : List GItem) :
    ∀ (l : List GItem) (rt : Option String) (acc : List GItem) (rt' : Option String) (out : List GItem),
      (∀ x ∈ l, x ∈ items) → RefInv items rt acc → roiRefLoop allowed l rt acc = .ok (rt', out) → RefInv items rt' out := by
  intro l
  induction l with
  | nil =>
    intro rt acc rt' out _ hinv h
    simp only [roiRefLoop, Except.ok.injEq, Prod.mk.injEq] at h
    obtain ⟨rfl, rfl⟩ := h
    exact hinv
  | cons it rest ih =>
    intro rt acc rt' out hmem hinv h
    have hrest : ∀ x ∈ rest, x ∈ items := fun x hx => hmem x (List.mem_cons_of_mem _ hx)
    have hit : it ∈ items := hmem it (List.mem_cons_self ..)
    unfold roiRefLoop at h
    split at h
    · exact ih rt acc rt' out hrest hinv h
    · split at h
      · split at h
        · cases h
        · rename_i vts hlk
          split at h
          · rename_i hvt
            split at h
            · -- first reference item
              refine ih (some it.name) (acc ++ [it]) rt' out hrest ?_ h
              intro x hx
              rcases List.mem_append.mp hx with hx | hx
              · have := (hinv x hx).2.1
                cases this
              · have : x = it := by simpa using hx
                subst this
                exact ⟨hit, rfl, vts, hlk, hvt⟩
            · rename_i t
              split at h
              · cases h
              · rename_i hname
                split at h
                · cases h
                · refine ih (some t) (acc ++ [it]) rt' out hrest ?_ h
                  have hn : it.name = t := by simpa using hname
                  intro x hx
                  rcases List.mem_append.mp hx with hx | hx
                  · exact hinv x hx
                  · have : x = it := by simpa using hx
                    subst this
                    exact ⟨hit, by rw [hn], vts, hlk, hvt⟩
          · exact ih rt acc rt' out hrest hinv h
      · exact ih rt acc rt' out hrest hinv h

theorem roiRefItems_inv (g : Group) (allowed : List String) (t : String) (its : List GItem)
    (h : roiRefItems g allowed = .ok (t, its)) :
    ∀ x ∈ its, x ∈ g.items ∧ x.name = t ∧ ∃ vts, Gen.refTypeValueTypes.lookup t = some vts ∧ vts.contains x.vt = true := by
  unfold roiRefItems at h
  split at h
  · cases h
  · rename_i t' first more hloop
    simp only [Except.ok.injEq, Prod.mk.injEq] at h
    obtain ⟨rfl, rfl⟩ := h
    intro x hx
    obtain ⟨h1, h2, vts, h3, h4⟩ := roiRefLoop_inv allowed g.items g.items none [] (some t') (first :: more) (fun _ hx => hx)
      (fun _ hx => by cases hx) hloop x hx
    have hn : x.name = t' := (Option.some.inj h2).symm
    exact ⟨h1, hn, vts, by rw [← hn]; exact h3, h4⟩
  · cases h

theorem refItemUid_sound (names : List String) (t : String) (it : GItem) (f : Filters)
    (h : names.contains t = true → it.ref.isSome = true) :
    refItemUid names t it f = .ok (names.contains t && refMatches it.ref f.cls f.inst) := by
  unfold refItemUid
  cases hc : names.contains t
  · simp
  · have := h hc
    cases hr : it.ref with
    | none => rw [hr] at this; cases this
    | some r => simp

theorem convertible_of_sound (g : Group) (hs : g.sound = true) : g.convertible = true := by
  unfold Group.sound at hs
  unfold Group.convertible
  exact List.all_eq_true.mpr (fun it hit => (sound_parts it (List.all_eq_true.mp hs it hit)).2.2.2.2)

theorem convertKept_of_convertible (g : Group) (h : g.convertible = true) (r : Except ErrKind Bool) : convertKept g r = r := by
  cases r with
  | error x => rfl
  | ok b => cases b <;> simp [convertKept, h]

theorem planarKeep_sound (g : Group) (hs : g.sound = true) (f : Filters) : planarKeep g f = planarKeepP g f := by
  unfold planarKeep planarKeepP
  cases hn : f.needsRef
  · rfl
  · simp only [Bool.not_true, Bool.false_eq_true, if_false]
    cases hp : planarRefItem g with
    | error x => rfl
    | ok ti =>
      obtain ⟨t, it⟩ := ti
      -- the item found is an item of the container, of a value type the table lists for its reference type
      have hfound : it ∈ g.items ∧ it.name = t ∧ ∃ vts, Gen.refTypeValueTypes.lookup t = some vts ∧ vts.contains it.vt = true := by
        unfold planarRefItem at hp
        split at hp
        · cases hp
        · rename_i t' it' hr
          simp only [Except.ok.injEq, Prod.mk.injEq] at hp
          obtain ⟨rfl, rfl⟩ := hp
          exact roiRefItems_inv g _ _ _ hr it' (List.mem_cons_self ..)
        · cases hp
      obtain ⟨hmem, _, vts, hlk, hvt⟩ := hfound
      have hsi : it.sound = true := List.all_eq_true.mp hs it hmem
      have huid : planarUid g t it f = .ok (planarUidP g t it f) := by
        unfold planarUid planarUidP
        rw [refItemUid_sound, containsImageE_sound g hs]
        · by_cases hv : it.vt = "SCOORD"
          · have hb : (it.vt == "SCOORD") = true := by simp [hv]
            rw [kidsContainImageE_sound it hsi hv]
            cases h1 : (t == cImageRegion) <;> cases h2 : (t == cReferencedSegmentationFrame) <;>
              simp only [hb, Bool.and_true, Bool.true_and, Bool.false_and, Bool.or_false, if_true, if_false, Bool.false_eq_true]
          · have hb : (it.vt == "SCOORD") = false := beq_eq_false_iff_ne.mpr hv
            cases h1 : (t == cImageRegion) <;> cases h2 : (t == cReferencedSegmentationFrame) <;>
              simp only [hb, Bool.and_true, Bool.true_and, Bool.false_and, Bool.and_false, Bool.or_false, if_true, if_false,
                Bool.false_eq_true]
        · intro hc
          apply (sound_parts it hsi).2.2.1
          simp only [List.contains_cons, List.contains_nil, Bool.or_false, Bool.or_eq_true, beq_iff_eq] at hc
          rcases hc with rfl | rfl
          · have : vts = ["IMAGE"] := by
              have e : Gen.refTypeValueTypes.lookup cReferencedSegmentationFrame = some ["IMAGE"] := by decide
              rw [e] at hlk; exact (Option.some.inj hlk).symm
            subst this
            left; simpa using hvt
          · have : vts = ["COMPOSITE"] := by
              have e : Gen.refTypeValueTypes.lookup cRegionInSpace = some ["COMPOSITE"] := by decide
              rw [e] at hlk; exact (Option.some.inj hlk).symm
            subst this
            right; simpa using hvt
      cases f.graphic with
      | none =>
        cases f.hasUid
        · simp only [Bool.false_eq_true, if_false, Bool.and_true]
        · simp only [if_true, huid]
      | some gt =>
        simp only [graphicEntry_sound it hsi gt]
        cases f.hasUid
        · simp only [Bool.false_eq_true, if_false, Bool.and_true]
        · simp only [if_true, huid]

theorem volumetricKeep_sound (g : Group) (hs : g.sound = true) (f : Filters) : volumetricKeep g f = volumetricKeepP g f := by
  unfold volumetricKeep volumetricKeepP
  cases hn : f.needsRef
  · rfl
  · simp only [Bool.not_true, Bool.false_eq_true, if_false]
    cases hp : roiRefItems g Gen.volumetricAllowedRefTypes with
    | error x => rfl
    | ok ti =>
      obtain ⟨t, its⟩ := ti
      cases its with
      | nil => rfl
      | cons first more =>
        have hinv := roiRefItems_inv g _ _ _ hp
        have hsall : ∀ it ∈ first :: more, it.sound = true := fun it hit => List.all_eq_true.mp hs it (hinv it hit).1
        obtain ⟨_, _, vts, hlk, hvt⟩ := hinv first (List.mem_cons_self ..)
        have huid : volumetricUid g t first (first :: more) f = .ok (volumetricUidP g t first (first :: more) f) := by
          unfold volumetricUid volumetricUidP
          rw [refItemUid_sound, containsImageE_sound g hs, regionsLoop_sound _ _ _ hsall]
          · cases h1 : (t == cImageRegion) <;> cases h2 : (t == cReferencedSegment) <;>
              simp only [Bool.and_true, Bool.true_and, Bool.false_and, Bool.or_false, if_true, if_false, Bool.false_eq_true]
          · intro hc
            apply (sound_parts first (hsall first (List.mem_cons_self ..))).2.2.1
            simp only [List.contains_cons, List.contains_nil, Bool.or_false, Bool.or_eq_true, beq_iff_eq] at hc
            rcases hc with rfl | rfl
            · have : vts = ["IMAGE"] := by
                have e : Gen.refTypeValueTypes.lookup cReferencedSegment = some ["IMAGE"] := by decide
                rw [e] at hlk; exact (Option.some.inj hlk).symm
              subst this
              left; simpa using hvt
            · have : vts = ["COMPOSITE"] := by
                have e : Gen.refTypeValueTypes.lookup cRegionInSpace = some ["COMPOSITE"] := by decide
                rw [e] at hlk; exact (Option.some.inj hlk).symm
              subst this
              right; simpa using hvt
        cases f.graphic with
        | none =>
          cases f.hasUid
          · simp only [Bool.false_eq_true, if_false, Bool.and_true]
          · simp only [if_true, huid]
        | some gt =>
          simp only [volGraphicEntry_sound _ hsall gt]
          cases f.hasUid
          · simp only [Bool.false_eq_true, if_false, Bool.and_true]
          · simp only [if_true, huid]

theorem imageKeep_sound (g : Group) (hs : g.sound = true) (f : Filters) : imageKeep g f = imageKeepP g f := by
  unfold imageKeep imageKeepP
  cases f.hasUid
  · simp
  · simp only [if_true, containsImageE_sound g hs]

/-- **On a sound group the loop body is the loop body without the malformed-item arms.** -/
theorem keep_sound (k : Kind) (g : Group) (f : Filters) (hs : g.sound = true) : keep k g f = keepP k g f := by
  have hc := convertible_of_sound g hs
  unfold keep keepP
  cases isKind k g with
  | error x => rfl
  | ok b =>
    cases b
    · rfl
    · cases k with
      | planar => simp only [planarKeep_sound g hs, convertKept_of_convertible g hc]
      | volumetric => simp only [volumetricKeep_sound g hs, convertKept_of_convertible g hc]
      | image =>
        simp only [imageKeep_sound g hs, imageKeepP, hc, if_true]

/-- plain items (TEXT, UIDREF, CODE, NUM without children) are sound -/
theorem sound_plain (it : GItem) (hv : inertVt it.vt) (hk : it.kids = []) : it.sound = true := by
  unfold GItem.sound GItem.convertible
  rcases hv with h | h | h | h <;> simp [h, hk]

theorem graphic2d_ne_empty (g : String) (h : g ∈ Gen.srGraphicTypes2D) : ¬ g = "" := by
  intro e; subst e; revert h; decide

theorem graphic3d_ne_empty (g : String) (h : g ∈ Gen.srGraphicTypes3D) : ¬ g = "" := by
  intro e; subst e; revert h; decide

theorem refItems_sound (p : Params) (hg : p.graphicsValid = true) : ∀ it ∈ refItems p.ref, it.sound = true := by
  unfold Params.graphicsValid at hg
  intro it hit
  cases hr : p.ref with
  | region2d gr s =>
    rw [hr] at hit hg
    simp only [refItems, List.mem_cons, List.not_mem_nil, or_false] at hit
    subst hit
    have hg' : gr ∈ Gen.srGraphicTypes2D := by simpa using hg
    simp [GItem.sound, GItem.convertible, Kid.sound, srcKid, hg', graphic2d_ne_empty gr hg']
  | region3d gr =>
    rw [hr] at hit hg
    simp only [refItems, List.mem_cons, List.not_mem_nil, or_false] at hit
    subst hit
    have hg' : gr ∈ Gen.srGraphicTypes3D := by simpa using hg
    simp [GItem.sound, GItem.convertible, hg', graphic3d_ne_empty gr hg']
  | segframe seg s =>
    rw [hr] at hit
    simp only [refItems, List.mem_cons, List.not_mem_nil, or_false] at hit
    rcases hit with rfl | rfl <;> simp [GItem.sound, GItem.convertible]
  | regions2d rs =>
    rw [hr] at hit hg
    simp only [refItems, List.mem_map] at hit
    obtain ⟨x, hx, rfl⟩ := hit
    have := List.all_eq_true.mp hg x hx
    have hg' : x.1 ∈ Gen.srGraphicTypes2D := by simpa using this
    simp [GItem.sound, GItem.convertible, Kid.sound, srcKid, hg', graphic2d_ne_empty x.1 hg']
  | segment seg srcs ser =>
    rw [hr] at hit
    simp only [refItems, srcItems, seriesItems, List.mem_append, List.mem_cons, List.not_mem_nil, or_false, List.mem_map] at hit
    rcases hit with (rfl | ⟨x, _, rfl⟩) | h
    · simp [GItem.sound, GItem.convertible]
    · simp [GItem.sound, GItem.convertible]
    · cases ser with
      | none => simp [seriesItems] at h
      | some u => simp [seriesItems] at h; subst h; simp [GItem.sound, GItem.convertible]
  | surface gr n srcs ser =>
    rw [hr] at hit hg
    simp only [refItems, srcItems, List.mem_append, List.mem_map] at hit
    rcases hit with (h | ⟨x, _, rfl⟩) | h
    · have := (List.mem_replicate.mp h).2
      subst this
      have hg' : gr ∈ Gen.srGraphicTypes3D := by simpa using hg
      simp [GItem.sound, GItem.convertible, hg', graphic3d_ne_empty gr hg']
    · simp [GItem.sound, GItem.convertible]
    · cases ser with
      | none => simp [seriesItems] at h
      | some u => simp [seriesItems] at h; subst h; simp [GItem.sound, GItem.convertible]
  | regionInSpace r =>
    rw [hr] at hit
    simp only [refItems, List.mem_cons, List.not_mem_nil, or_false] at hit
    subst hit
    simp [GItem.sound, GItem.convertible]
  | images srcs =>
    rw [hr] at hit
    simp only [refItems, List.mem_map] at hit
    obtain ⟨x, _, rfl⟩ := hit
    simp [GItem.sound, GItem.convertible]

theorem optItem_sound (name rel : String) (v : Option String) : ∀ it ∈ optItem name "CODE" rel v, it.sound = true := by
  intro it h
  cases v with
  | none => simp [optItem] at h
  | some x => simp [optItem] at h; subst h; simp [GItem.sound, GItem.convertible]

/-- a group the constructors build is sound -/
theorem mkGroup_sound (p : Params) (hg : p.graphicsValid = true) (hctx : ContextOK p) : (mkGroup p).sound = true := by
  unfold Group.sound
  apply List.all_eq_true.mpr
  intro it hit
  simp only [mkGroup, mkItems_eq, List.mem_append] at hit
  rcases hit with h | h
  · simp only [preItems, List.mem_append, List.mem_cons, List.not_mem_nil, or_false, List.mem_map] at h
    rcases h with (((((((((h | h) | h) | h) | h) | h) | ⟨s, _, h⟩) | h) | ⟨x, _, h⟩) | ⟨x, _, h⟩) | h
    · subst h; simp [GItem.sound, GItem.convertible]
    · subst h; simp [GItem.sound, GItem.convertible]
    · exact (hctx.1 it h).2.2
    · exact optItem_sound _ _ _ it h
    · exact optItem_sound _ _ _ it h
    · exact optItem_sound _ _ _ it h
    · subst h; simp [GItem.sound, GItem.convertible]
    · exact (hctx.2 it h).2.2
    · subst h; simp [GItem.sound, GItem.convertible]
    · subst h; simp [GItem.sound, GItem.convertible]
    · exact optItem_sound _ _ _ it h
  · exact refItems_sound p hg it h

/-- **One constructed group against one query**: the loop body (with every error arm) decides exactly `kind ∧ every
filter`, both read off the construction parameters. -/
theorem keep_constructed (k : Kind) (p : Params) (f : Filters) (hcons : p.consistent = true) (hg : p.graphicsValid = true)
    (hc : CleanNames p) (hctx : ContextOK p) :
    keep k (mkGroup p) f = .ok (specKind k p && specFilters k p f) := by
  rw [keep_sound k _ f (mkGroup_sound p hg hctx)]
  exact keepP_constructed k p f hcons hc hctx

/-! ### accessors of a constructed container -/

theorem filter_nil_of_forall {α} (l : List α) (q : α → Bool) (h : ∀ x ∈ l, q x = false) : l.filter q = [] := by
  rw [List.filter_eq_nil_iff]
  intro x hx
  simp [h x hx]

theorem filter_optItem_other (nm nm' vt' rel : String) (o : Option String) (h : (nm == nm') = false) :
    (optItem nm "CODE" rel o).filter (fun it => it.name == nm' && it.vt == vt') = [] := by
  cases o with
  | none => rfl
  | some v => simp [optItem, h]

theorem filter_refItems_vt (r : RoiRef) (nm vt : String) (h : vt = "CODE" ∨ vt = "NUM" ∨ vt = "TEXT") :
    (refItems r).filter (fun it => it.name == nm && it.vt == vt) = [] := by
  apply filter_nil_of_forall
  intro it hit
  obtain ⟨_, h1, h2, h3⟩ := refItems_shape r it hit
  rcases h with h | h | h <;> subst h <;> simp [h1, h2, h3]

theorem trackingUid_constructed (p : Params) : trackingUidOf (mkGroup p) = some p.trackingUid := by
  simp [trackingUidOf, valuesOf, mkGroup, mkItems, List.filter_cons, cTrackingUid, cTrackingId]

theorem trackingId_constructed (p : Params) : trackingIdOf (mkGroup p) = some p.trackingId := by
  simp [trackingIdOf, valuesOf, mkGroup, mkItems, List.filter_cons, cTrackingUid, cTrackingId]

theorem filter_evaluations_reserved (p : Params) (hc : CleanNames p) (nm : String) (hn : reservedCodeNames.contains nm = true) :
    (p.evaluations.map (fun x => ({ name := x.1, vt := "CODE", rel := "CONTAINS", value := x.2 } : GItem))).filter
      (fun it => it.name == nm && it.vt == "CODE") = [] := by
  apply filter_nil_of_forall
  intro it hit
  obtain ⟨x, hx, rfl⟩ := List.mem_map.mp hit
  have h1 := hc x hx
  have : (x.1 == nm) = false := by
    apply beq_eq_false_iff_ne.mpr
    intro e
    rw [e] at h1
    rw [h1] at hn
    cases hn
  simp [this]

theorem filter_measurements_code (p : Params) (nm : String) :
    (p.measurements.map (fun x => ({ name := x.1, vt := "NUM", rel := "CONTAINS", value := x.2 } : GItem))).filter
      (fun it => it.name == nm && it.vt == "CODE") = [] := by
  apply filter_nil_of_forall
  intro it hit
  obtain ⟨x, _, rfl⟩ := List.mem_map.mp hit
  simp

theorem filter_sites_other (p : Params) (nm : String) (h : (cFindingSite == nm) = false) :
    (p.sites.map (fun s => ({ name := cFindingSite, vt := "CODE", rel := "HAS CONCEPT MOD", value := s } : GItem))).filter
      (fun it => it.name == nm && it.vt == "CODE") = [] := by
  apply filter_nil_of_forall
  intro it hit
  obtain ⟨x, _, rfl⟩ := List.mem_map.mp hit
  simp [h]

theorem filter_ctx_other (l : List GItem) (hl : ∀ it ∈ l, ContextItemOK it) (nm vt : String) (hn : fixedNames.contains nm = true) :
    l.filter (fun it => it.name == nm && it.vt == vt) = [] := by
  apply filter_nil_of_forall
  intro it hit
  have h1 := (hl it hit).2.1
  have : (it.name == nm) = false := by
    apply beq_eq_false_iff_ne.mpr
    intro e
    rw [e] at h1
    rw [h1] at hn
    cases hn
  simp [this]

theorem findingType_constructed (p : Params) (hc : CleanNames p) (hctx : ContextOK p) : findingTypeOf (mkGroup p) = p.findingType := by
  simp only [findingTypeOf, valuesOf, mkGroup, mkItems_eq, preItems, List.filter_append]
  rw [filter_refItems_vt _ _ _ (Or.inl rfl), filter_optItem_other cGeometricPurpose cFinding _ _ _ (by decide),
    filter_evaluations_reserved p hc cFinding (by decide), filter_measurements_code, filter_sites_other p cFinding (by decide),
    filter_optItem_other cMethod cFinding _ _ _ (by decide), filter_optItem_other cFindingCategory cFinding _ _ _ (by decide),
    filter_ctx_other p.ctxA hctx.1 cFinding "CODE" (by decide), filter_ctx_other p.ctxB hctx.2 cFinding "CODE" (by decide)]
  cases p.findingType <;> simp [optItem, cTrackingId, cTrackingUid, cFinding]

theorem findingCategory_constructed (p : Params) (hc : CleanNames p) (hctx : ContextOK p) :
    findingCategoryOf (mkGroup p) = p.findingCategory := by
  simp only [findingCategoryOf, valuesOf, mkGroup, mkItems_eq, preItems, List.filter_append]
  rw [filter_refItems_vt _ _ _ (Or.inl rfl), filter_optItem_other cGeometricPurpose cFindingCategory _ _ _ (by decide),
    filter_evaluations_reserved p hc cFindingCategory (by decide), filter_measurements_code,
    filter_sites_other p cFindingCategory (by decide), filter_optItem_other cMethod cFindingCategory _ _ _ (by decide),
    filter_optItem_other cFinding cFindingCategory _ _ _ (by decide),
    filter_ctx_other p.ctxA hctx.1 cFindingCategory "CODE" (by decide), filter_ctx_other p.ctxB hctx.2 cFindingCategory "CODE" (by decide)]
  cases p.findingCategory <;> simp [optItem, cTrackingId, cTrackingUid, cFindingCategory]

theorem method_constructed (p : Params) (hc : CleanNames p) (hctx : ContextOK p) : methodOf (mkGroup p) = p.method := by
  simp only [methodOf, valuesOf, mkGroup, mkItems_eq, preItems, List.filter_append]
  rw [filter_refItems_vt _ _ _ (Or.inl rfl), filter_optItem_other cGeometricPurpose cMethod _ _ _ (by decide),
    filter_evaluations_reserved p hc cMethod (by decide), filter_measurements_code,
    filter_sites_other p cMethod (by decide), filter_optItem_other cFinding cMethod _ _ _ (by decide),
    filter_optItem_other cFindingCategory cMethod _ _ _ (by decide),
    filter_ctx_other p.ctxA hctx.1 cMethod "CODE" (by decide), filter_ctx_other p.ctxB hctx.2 cMethod "CODE" (by decide)]
  cases p.method <;> simp [optItem, cTrackingId, cTrackingUid, cMethod]

theorem findingSites_constructed (p : Params) (hc : CleanNames p) (hctx : ContextOK p) : findingSitesOf (mkGroup p) = p.sites := by
  simp only [findingSitesOf, valuesOf, mkGroup, mkItems_eq, preItems, List.filter_append]
  rw [filter_refItems_vt _ _ _ (Or.inl rfl), filter_optItem_other cGeometricPurpose cFindingSite _ _ _ (by decide),
    filter_evaluations_reserved p hc cFindingSite (by decide), filter_measurements_code,
    filter_optItem_other cMethod cFindingSite _ _ _ (by decide),
    filter_optItem_other cFinding cFindingSite _ _ _ (by decide), filter_optItem_other cFindingCategory cFindingSite _ _ _ (by decide),
    filter_ctx_other p.ctxA hctx.1 cFindingSite "CODE" (by decide), filter_ctx_other p.ctxB hctx.2 cFindingSite "CODE" (by decide)]
  have : (p.sites.map (fun s => ({ name := cFindingSite, vt := "CODE", rel := "HAS CONCEPT MOD", value := s } : GItem))).filter
      (fun it => it.name == cFindingSite && it.vt == "CODE") =
      p.sites.map (fun s => ({ name := cFindingSite, vt := "CODE", rel := "HAS CONCEPT MOD", value := s } : GItem)) := by
    rw [List.filter_eq_self]
    intro it hit
    obtain ⟨x, _, rfl⟩ := List.mem_map.mp hit
    simp
  rw [this]
  simp [cTrackingId, cTrackingUid, cFindingSite, List.filter_cons, Function.comp_def]

/-- context items are never measurements or evaluations: their NUM / CODE items are observation context -/
theorem filter_ctx_contains (l : List GItem) (hl : ∀ it ∈ l, ContextItemOK it) (vt : String) (hv : vt = "NUM" ∨ vt = "CODE")
    (q : GItem → Bool) : l.filter (fun it => it.vt == vt && it.rel == "CONTAINS" && q it) = [] := by
  apply filter_nil_of_forall
  intro it hit
  rcases (hl it hit).1 with h | ⟨_, h⟩ | ⟨h, _⟩
  · rcases hv with hv | hv <;> subst hv <;> simp [h]
  · simp [h]
  · rcases hv with hv | hv <;> subst hv <;> simp [h]

theorem measurements_constructed (p : Params) (hctx : ContextOK p) : measurementsOf (mkGroup p) = p.measurements := by
  simp only [measurementsOf, mkGroup, mkItems_eq, preItems, List.filter_append]
  have hopt : ∀ (nm : String) (o : Option String), (optItem nm "CODE" "CONTAINS" o).filter (fun it => it.vt == "NUM" && it.rel == "CONTAINS") = [] := by
    intro nm o; cases o <;> simp [optItem]
  have href : (refItems p.ref).filter (fun it => it.vt == "NUM" && it.rel == "CONTAINS") = [] := by
    apply filter_nil_of_forall
    intro it hit
    simp [(refItems_shape p.ref it hit).2.2.1]
  have hev : (p.evaluations.map (fun x => ({ name := x.1, vt := "CODE", rel := "CONTAINS", value := x.2 } : GItem))).filter
      (fun it => it.vt == "NUM" && it.rel == "CONTAINS") = [] := by
    apply filter_nil_of_forall; intro it hit; obtain ⟨x, _, rfl⟩ := List.mem_map.mp hit; simp
  have hs : (p.sites.map (fun s => ({ name := cFindingSite, vt := "CODE", rel := "HAS CONCEPT MOD", value := s } : GItem))).filter
      (fun it => it.vt == "NUM" && it.rel == "CONTAINS") = [] := by
    apply filter_nil_of_forall; intro it hit; obtain ⟨x, _, rfl⟩ := List.mem_map.mp hit; simp
  have hm : (p.measurements.map (fun x => ({ name := x.1, vt := "NUM", rel := "CONTAINS", value := x.2 } : GItem))).filter
      (fun it => it.vt == "NUM" && it.rel == "CONTAINS") = p.measurements.map (fun x => ({ name := x.1, vt := "NUM", rel := "CONTAINS", value := x.2 } : GItem)) := by
    rw [List.filter_eq_self]; intro it hit; obtain ⟨x, _, rfl⟩ := List.mem_map.mp hit; simp
  have hA := filter_ctx_contains p.ctxA hctx.1 "NUM" (Or.inl rfl) (fun _ => true)
  have hB := filter_ctx_contains p.ctxB hctx.2 "NUM" (Or.inl rfl) (fun _ => true)
  simp only [Bool.and_true] at hA hB
  rw [hopt, hopt, hopt, hopt, href, hev, hs, hm, hA, hB]
  simp [List.filter_cons, List.map_map, Function.comp_def]

theorem evaluations_constructed (p : Params) (hc : CleanNames p) (hctx : ContextOK p) : evaluationsOf (mkGroup p) = p.evaluations := by
  simp only [evaluationsOf, mkGroup, mkItems_eq, preItems, List.filter_append]
  have hopt : ∀ (nm : String) (o : Option String), reservedCodeNames.contains nm = true →
      (optItem nm "CODE" "CONTAINS" o).filter (fun it => it.vt == "CODE" && it.rel == "CONTAINS" && !reservedCodeNames.contains it.name) = [] := by
    intro nm o h
    have hmem : nm ∈ reservedCodeNames := by simpa using h
    cases o <;> simp [optItem, hmem]
  have href : (refItems p.ref).filter (fun it => it.vt == "CODE" && it.rel == "CONTAINS" && !reservedCodeNames.contains it.name) = [] := by
    apply filter_nil_of_forall
    intro it hit
    simp [(refItems_shape p.ref it hit).2.1]
  have hm : (p.measurements.map (fun x => ({ name := x.1, vt := "NUM", rel := "CONTAINS", value := x.2 } : GItem))).filter
      (fun it => it.vt == "CODE" && it.rel == "CONTAINS" && !reservedCodeNames.contains it.name) = [] := by
    apply filter_nil_of_forall; intro it hit; obtain ⟨x, _, rfl⟩ := List.mem_map.mp hit; simp
  have hs : (p.sites.map (fun s => ({ name := cFindingSite, vt := "CODE", rel := "HAS CONCEPT MOD", value := s } : GItem))).filter
      (fun it => it.vt == "CODE" && it.rel == "CONTAINS" && !reservedCodeNames.contains it.name) = [] := by
    apply filter_nil_of_forall; intro it hit; obtain ⟨x, _, rfl⟩ := List.mem_map.mp hit
    simp
  have hev : (p.evaluations.map (fun x => ({ name := x.1, vt := "CODE", rel := "CONTAINS", value := x.2 } : GItem))).filter
      (fun it => it.vt == "CODE" && it.rel == "CONTAINS" && !reservedCodeNames.contains it.name) =
      p.evaluations.map (fun x => ({ name := x.1, vt := "CODE", rel := "CONTAINS", value := x.2 } : GItem)) := by
    rw [List.filter_eq_self]; intro it hit; obtain ⟨x, hx, rfl⟩ := List.mem_map.mp hit
    have : ¬ x.1 ∈ reservedCodeNames := by simpa using hc x hx
    simp [this]
  have hA := filter_ctx_contains p.ctxA hctx.1 "CODE" (Or.inr rfl) (fun it => !reservedCodeNames.contains it.name)
  have hB := filter_ctx_contains p.ctxB hctx.2 "CODE" (Or.inr rfl) (fun it => !reservedCodeNames.contains it.name)
  rw [hopt _ _ (by decide), hopt _ _ (by decide), hopt _ _ (by decide), hopt _ _ (by decide), href, hm, hs, hev, hA, hB]
  simp [List.filter_cons, List.map_map, Function.comp_def]

/-- names of measurements and evaluations must not be ROI reference type names (the `reference_type` accessor
looks at names only) -/
def CleanRefNames (p : Params) (allowed : List String) : Prop :=
  (∀ m ∈ p.measurements, allowed.contains m.1 = false) ∧ (∀ e ∈ p.evaluations, allowed.contains e.1 = false)

theorem find?_append_none {α} (l r : List α) (q : α → Bool) (h : ∀ x ∈ l, q x = false) : (l ++ r).find? q = r.find? q := by
  induction l with
  | nil => rfl
  | cons x xs ih =>
    simp only [List.cons_append, List.find?_cons, h x (by simp)]
    exact ih (fun y hy => h y (by simp [hy]))

theorem referenceType_constructed (p : Params) (allowed : List String)
    (hfix : allowed.contains cTrackingId = false ∧ allowed.contains cTrackingUid = false ∧ allowed.contains cFindingCategory = false ∧
            allowed.contains cFinding = false ∧ allowed.contains cMethod = false ∧ allowed.contains cFindingSite = false ∧
            allowed.contains cGeometricPurpose = false)
    (hsub : ∀ n, allowed.contains n = true → fixedNames.contains n = true)
    (hc : CleanRefNames p allowed) (hctx : ContextOK p) :
    referenceTypeOf (mkGroup p) allowed = ((refItems p.ref).find? (fun it => allowed.contains it.name)).map (·.name) := by
  simp only [referenceTypeOf, mkGroup, mkItems_eq]
  rw [find?_append_none]
  intro it hit
  simp only [preItems, List.mem_append, List.mem_cons, List.not_mem_nil, or_false, List.mem_map] at hit
  obtain ⟨h1, h2, h3, h4, h4', h5, h6⟩ := hfix
  have hctxItem : ∀ it, ContextItemOK it → allowed.contains it.name = false := by
    intro it hok
    cases hcon : allowed.contains it.name with
    | false => rfl
    | true =>
      have := hsub it.name hcon
      rw [hok.2.1] at this
      cases this
  rcases hit with (((((((((h | h) | h) | h) | h) | h) | ⟨s, _, h⟩) | h) | ⟨x, hx, h⟩) | ⟨x, hx, h⟩) | h
  · subst h; exact h1
  · subst h; exact h2
  · exact hctxItem it (hctx.1 it h)
  · cases hfc : p.findingCategory with
    | none => rw [hfc] at h; simp [optItem] at h
    | some v => rw [hfc] at h; simp [optItem] at h; subst h; exact h3
  · cases hft : p.findingType with
    | none => rw [hft] at h; simp [optItem] at h
    | some v => rw [hft] at h; simp [optItem] at h; subst h; exact h4
  · cases hm : p.method with
    | none => rw [hm] at h; simp [optItem] at h
    | some v => rw [hm] at h; simp [optItem] at h; subst h; exact h4'
  · subst h; exact h5
  · exact hctxItem it (hctx.2 it h)
  · subst h; exact hc.1 x hx
  · subst h; exact hc.2 x hx
  · cases hp : p.purpose with
    | none => rw [hp] at h; simp [optItem] at h
    | some v => rw [hp] at h; simp [optItem] at h; subst h; exact h6

end HdVerif.SRReportLemmas
