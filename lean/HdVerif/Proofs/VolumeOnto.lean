import HdVerif.Proofs.Volume
import Mathlib.Tactic.LinearCombination
/-! C08: injectivity of the affine on indices, and completeness (no voxel is lost) of the rearranging / padding operations. -/
namespace HdVerif.VolLemmas
open HdVerif HdVerif.Gen HdVerif.Vol

/-- a scaled orthogonal affine maps distinct indices to distinct positions -/
theorem pos_injective {g : Geom} (ho : g.Orth) {i j : I3} (h : g.pos i = g.pos j) : i = j := by
  obtain ⟨o1, o2, o3, o4, o5, o6⟩ := ho
  simp only [Geom.pos, V3.add, V3.smul, V3.mk.injEq] at h
  obtain ⟨hx, hy, hz⟩ := h
  simp only [V3.dot] at o1 o2 o3 o4 o5 o6
  have e0 : ((i.i0 : Rat) - j.i0) * (g.c0.x * g.c0.x + g.c0.y * g.c0.y + g.c0.z * g.c0.z) = 0 := by
    linear_combination g.c0.x * hx + g.c0.y * hy + g.c0.z * hz - ((i.i1 : Rat) - j.i1) * o1 - ((i.i2 : Rat) - j.i2) * o2
  have e1 : ((i.i1 : Rat) - j.i1) * (g.c1.x * g.c1.x + g.c1.y * g.c1.y + g.c1.z * g.c1.z) = 0 := by
    linear_combination g.c1.x * hx + g.c1.y * hy + g.c1.z * hz - ((i.i0 : Rat) - j.i0) * o1 - ((i.i2 : Rat) - j.i2) * o3
  have e2 : ((i.i2 : Rat) - j.i2) * (g.c2.x * g.c2.x + g.c2.y * g.c2.y + g.c2.z * g.c2.z) = 0 := by
    linear_combination g.c2.x * hx + g.c2.y * hy + g.c2.z * hz - ((i.i0 : Rat) - j.i0) * o2 - ((i.i1 : Rat) - j.i1) * o3
  have f0 : (i.i0 : Rat) = j.i0 := by
    rcases mul_eq_zero.mp e0 with h | h
    · linarith
    · exact absurd h o4
  have f1 : (i.i1 : Rat) = j.i1 := by
    rcases mul_eq_zero.mp e1 with h | h
    · linarith
    · exact absurd h o5
  have f2 : (i.i2 : Rat) = j.i2 := by
    rcases mul_eq_zero.mp e2 with h | h
    · linarith
    · exact absurd h o6
  cases i; cases j
  simp only [I3.mk.injEq]
  exact ⟨by exact_mod_cast f0, by exact_mod_cast f1, by exact_mod_cast f2⟩


/-- every voxel of the input is shown by some voxel of the result -/
def Onto (g : Geom) (r : GStep) : Prop := ∀ i, g.inRange i = true → ∃ j, r.1.inRange j = true ∧ r.2 j = i

theorem Onto.comp {g : Geom} {r1 r2 : GStep} (h1 : Onto g r1) (h2 : Onto r1.1 r2) :
    Onto g (r2.1, fun j => r1.2 (r2.2 j)) := by
  intro i hi
  obtain ⟨k, hk, ek⟩ := h1 i hi
  obtain ⟨j, hj, ej⟩ := h2 k hk
  exact ⟨j, hj, by simp only [ej, ek]⟩

theorem onto_id (g : Geom) : Onto g (g, id) := fun i hi => ⟨i, hi, rfl⟩

theorem flipItems_valid {axes : List Int} {items : List Item} (h : flipItems axes = .ok items) :
    (decide (axes.length > 3) || axes.any (fun a => !validAxis a)) = false := by
  simp only [flipItems] at h
  split at h
  · cases h
  · rename_i hv; simpa using hv

theorem flipG_onto (sz : AxMap → Int) (hsz : SzOk sz) {g : Geom} {axes : List Int} {r : GStep} (hp : g.Pos)
    (h : flipG sz g axes = .ok r) : Onto g r := by
  have hv : (decide (axes.length > 3) || axes.any (fun a => !validAxis a)) = false := by
    simp only [flipG] at h
    obtain ⟨items, hi, _⟩ := bind_ok.mp h
    exact flipItems_valid hi
  rw [flipG_spec sz g axes hp hv] at h
  simp only [Except.ok.injEq] at h
  subst h
  intro i hi
  rw [inRange_iff] at hi
  obtain ⟨⟨a0, a1⟩, ⟨b0, b1⟩, ⟨c0, c1⟩⟩ := hi
  refine ⟨⟨if axes.contains 0 then g.n0 - 1 - i.i0 else i.i0, if axes.contains 1 then g.n1 - 1 - i.i1 else i.i1,
    if axes.contains 2 then g.n2 - 1 - i.i2 else i.i2⟩, ?_, ?_⟩
  · rw [inRange_iff]
    have s0 : sz (flipMap (axes.contains 0) g.n0) = g.n0 := by
      rw [hsz _ (by simp only [flipMap]; split <;> rfl)]; simp only [flipMap]; split <;> rfl
    have s1 : sz (flipMap (axes.contains 1) g.n1) = g.n1 := by
      rw [hsz _ (by simp only [flipMap]; split <;> rfl)]; simp only [flipMap]; split <;> rfl
    have s2 : sz (flipMap (axes.contains 2) g.n2) = g.n2 := by
      rw [hsz _ (by simp only [flipMap]; split <;> rfl)]; simp only [flipMap]; split <;> rfl
    simp only [Geom.remap, s0, s1, s2]
    refine ⟨?_, ?_, ?_⟩ <;> split <;> omega
  · cases i
    simp only [remapSrc, flipMap, I3.mk.injEq]
    refine ⟨?_, ?_, ?_⟩ <;> split <;> simp

theorem permSrc_onto (p : Perm) (hp : PermValid p) (i : I3) : permSrc p ⟨i.get p.1, i.get p.2.1, i.get p.2.2⟩ = i := by
  obtain ⟨a, b, c⟩ := p
  obtain ⟨h1, h2, h3⟩ := hp
  cases i
  cases a <;> cases b <;> cases c <;> simp at h1 h2 h3 <;> simp [permSrc, I3.get]

theorem permuteG_onto {g : Geom} {p : List Int} {r : GStep} (h : permuteG g p = .ok r) : Onto g r := by
  simp only [permuteG] at h
  obtain ⟨q, hq, h⟩ := bind_ok.mp h
  simp only [pure, Except.pure, Except.ok.injEq] at h
  subst h
  have hv := permOfList_valid hq
  intro i hi
  refine ⟨⟨i.get q.1, i.get q.2.1, i.get q.2.2⟩, ?_, permSrc_onto q hv i⟩
  rw [inRange_permute g q hv, permSrc_onto q hv i]; exact hi

theorem swapG_onto {g : Geom} {a b : Int} {r : GStep} (h : swapG g a b = .ok r) : Onto g r := by
  simp only [swapG] at h
  obtain ⟨p, _, h⟩ := bind_ok.mp h
  exact permuteG_onto h

theorem padFullG_onto (sz : AxMap → Int) (hsz : SzOk sz) (g : Geom) {full : FullPad} {r : GStep}
    (hf : 0 ≤ full.1.1 ∧ 0 ≤ full.1.2 ∧ 0 ≤ full.2.1.1 ∧ 0 ≤ full.2.1.2 ∧ 0 ≤ full.2.2.1 ∧ 0 ≤ full.2.2.2)
    (h : padFullG sz g full = .ok r) : Onto g r := by
  obtain ⟨f0, f1, f2, f3, f4, f5⟩ := hf
  simp only [padFullG] at h
  obtain ⟨m0, e0, h⟩ := bind_ok.mp h
  obtain ⟨m1, e1, h⟩ := bind_ok.mp h
  obtain ⟨m2, e2, h⟩ := bind_ok.mp h
  simp only [pure, Except.pure, Except.ok.injEq] at h
  subst h
  rw [padAxis_ok e0, padAxis_ok e1, padAxis_ok e2]
  intro i hi
  rw [inRange_iff] at hi
  obtain ⟨⟨a0, a1⟩, ⟨b0, b1⟩, ⟨c0, c1⟩⟩ := hi
  refine ⟨⟨i.i0 + full.1.1, i.i1 + full.2.1.1, i.i2 + full.2.2.1⟩, ?_, ?_⟩
  · rw [inRange_iff]
    have s0 : sz ⟨-full.1.1, 1, g.n0 + full.1.1 + full.1.2, g.n0 + full.1.1 + full.1.2, -full.1.1, 1⟩
        = g.n0 + full.1.1 + full.1.2 := hsz _ rfl
    have s1 : sz ⟨-full.2.1.1, 1, g.n1 + full.2.1.1 + full.2.1.2, g.n1 + full.2.1.1 + full.2.1.2, -full.2.1.1, 1⟩
        = g.n1 + full.2.1.1 + full.2.1.2 := hsz _ rfl
    have s2 : sz ⟨-full.2.2.1, 1, g.n2 + full.2.2.1 + full.2.2.2, g.n2 + full.2.2.1 + full.2.2.2, -full.2.2.1, 1⟩
        = g.n2 + full.2.2.1 + full.2.2.2 := hsz _ rfl
    simp only [Geom.remap, s0, s1, s2]
    omega
  · cases i
    simp only [remapSrc, I3.mk.injEq]
    omega

theorem padG_onto (sz : AxMap → Int) (hsz : SzOk sz) {g : Geom} {w : PadWidth} {r : GStep}
    (h : padG sz g w = .ok r) : Onto g r := by
  simp only [padG] at h
  obtain ⟨full, hf, h⟩ := bind_ok.mp h
  exact padFullG_onto sz hsz g (fullPadWidth_nonneg hf) h

theorem padToG_onto (sz : AxMap → Int) (hsz : SzOk sz) {g : Geom} {s : List Int} {r : GStep}
    (h : padToG sz g s = .ok r) : Onto g r := by
  simp only [padToG] at h
  obtain ⟨w, _, h⟩ := bind_ok.mp h
  exact padG_onto sz hsz h

theorem flipIfAny_onto (sz : AxMap → Int) (hsz : SzOk sz) {g : Geom} {flips : List Int} {r : GStep} (hp : g.Pos)
    (h : flipIfAny sz g flips = .ok r) : Onto g r := by
  simp only [flipIfAny] at h
  split at h
  · simp only [Except.ok.injEq] at h; subst h; exact onto_id g
  · exact flipG_onto sz hsz hp h

theorem toOrientationG_onto (sz : AxMap → Int) (hsz : SzOk sz) {coord : Coord} {g : Geom} {o : List Char} {r : GStep}
    (hp : g.Pos) (h : toOrientationG sz coord g o = .ok r) : Onto g r := by
  simp only [toOrientationG] at h
  split at h
  · cases h
  · simp only [pure, Except.pure] at h
    obtain ⟨des, _, h⟩ := bind_ok.mp h
    obtain ⟨⟨perm, flips⟩, _, h⟩ := bind_ok.mp h
    dsimp only at h
    obtain ⟨⟨g1, f1⟩, h1, h⟩ := bind_ok.mp h
    dsimp only at h
    obtain ⟨⟨g2, f2⟩, h2, h⟩ := bind_ok.mp h
    simp only [Except.ok.injEq] at h
    subst h
    exact Onto.comp (flipIfAny_onto sz hsz hp h1) (permuteG_onto h2)

theorem ensureHandednessG_onto (sz : AxMap → Int) (hsz : SzOk sz) {g : Geom} {hd : String} {fa : Option Int}
    {sa : Option (List Int)} {r : GStep} (hp : g.Pos) (h : ensureHandednessG sz g hd fa sa = .ok r) : Onto g r := by
  unfold ensureHandednessG at h
  split at h
  · cases h
  · split at h
    · cases h
    · split at h
      · simp only [Except.ok.injEq] at h; subst h; exact onto_id g
      · split at h
        · exact flipG_onto sz hsz hp h
        · exact swapG_onto h
        · cases h
        · cases h

theorem applyG_onto (sz : AxMap → Int) (hsz : SzOk sz) {coord : Coord} {g : Geom} {op : SOp} {r : GStep} (hp : g.Pos)
    (hk : SOp.keepsAll op = true) (h : op.applyG sz coord g = .ok r) : Onto g r := by
  cases op with
  | getitem items => simp [SOp.keepsAll] at hk
  | cropTo s => simp [SOp.keepsAll] at hk
  | padOrCropTo s o => simp [SOp.keepsAll] at hk
  | flip axes => exact flipG_onto sz hsz hp h
  | permute p => exact permuteG_onto h
  | swap a b => exact swapG_onto h
  | pad w o => exact padG_onto sz hsz h
  | padTo s o => exact padToG_onto sz hsz h
  | toOrientation o => exact toOrientationG_onto sz hsz hp h
  | ensureHandedness hd fa sa => exact ensureHandednessG_onto sz hsz hp h
  | copy => simp only [SOp.applyG, Except.ok.injEq] at h; subst h; exact onto_id g


/-- provenance of a volume operation that is not `pad_or_crop`: the index map of the geometry operation, cut to the input -/
theorem applyVol_prov {coord : Coord} {v : Vol} {op : SOp} {w : VStep} (hk : SOp.keepsAll op = true)
    (h : op.applyVol coord v = .ok w) :
    ∃ r, op.applyG AxMap.alen coord v.geom = .ok r ∧ w.1.geom = r.1 ∧ w.2 = provOf v.geom r.2 := by
  have generic : ∀ {op : SOp},
      (do let r ← op.applyG AxMap.alen coord v.geom; pure (v.reindex r) : Except ErrKind VStep) = .ok w →
      ∃ r, op.applyG AxMap.alen coord v.geom = .ok r ∧ w.1.geom = r.1 ∧ w.2 = provOf v.geom r.2 := by
    intro op h
    obtain ⟨r, hr, h⟩ := bind_ok.mp h
    simp only [pure, Except.pure, Except.ok.injEq] at h
    subst h
    exact ⟨r, hr, rfl, rfl⟩
  cases op with
  | getitem items => simp [SOp.keepsAll] at hk
  | cropTo s => simp [SOp.keepsAll] at hk
  | padOrCropTo s o => simp [SOp.keepsAll] at hk
  | pad wd o =>
    simp only [SOp.applyVol] at h
    obtain ⟨_, _, h⟩ := bind_ok.mp h
    obtain ⟨r, hr, h⟩ := bind_ok.mp h
    simp only [Vol.padStep] at h
    obtain ⟨⟨a, b⟩, _, h⟩ := bind_ok.mp h
    simp only [pure, Except.pure, Except.ok.injEq] at h
    subst h
    exact ⟨r, hr, rfl, rfl⟩
  | padTo s o =>
    simp only [SOp.applyVol] at h
    obtain ⟨wd, hw, h⟩ := bind_ok.mp h
    obtain ⟨_, _, h⟩ := bind_ok.mp h
    obtain ⟨r, hr, h⟩ := bind_ok.mp h
    simp only [Vol.padStep] at h
    obtain ⟨⟨a, b⟩, _, h⟩ := bind_ok.mp h
    simp only [pure, Except.pure, Except.ok.injEq] at h
    subst h
    refine ⟨r, ?_, rfl, rfl⟩
    simp only [SOp.applyG, padToG, hw, bind, Except.bind]
    exact hr
  | flip axes => exact generic h
  | permute p => exact generic h
  | swap a b => exact generic h
  | toOrientation o => exact generic h
  | ensureHandedness hd fa sa => exact generic h
  | copy => exact generic h

theorem applyVol_onto {coord : Coord} {v : Vol} {op : SOp} {w : VStep} (hp : v.geom.Pos) (hk : SOp.keepsAll op = true)
    (h : op.applyVol coord v = .ok w) (i : I3) (hi : v.geom.inRange i = true) :
    ∃ j, w.1.geom.inRange j = true ∧ w.2 j = some i := by
  obtain ⟨r, hr, hg, hprov⟩ := applyVol_prov hk h
  obtain ⟨j, hj, ej⟩ := applyG_onto AxMap.alen szOk_alen hp hk hr i hi
  refine ⟨j, by rw [hg]; exact hj, ?_⟩
  rw [hprov]
  simp only [provOf, ej, hi, if_true]

/-! ## a volume and its geometry twin are refused alike -/

/-- a cropping operation on a volume is the geometry operation (array shape) followed by re-indexing the array -/
theorem applyVol_cropping {coord : Coord} {v : Vol} {op : SOp} (hc : SOp.cropping op = true) :
    op.applyVol coord v = (do let r ← op.applyG AxMap.alen coord v.geom; pure (v.reindex r)) := by
  cases op <;> first | rfl | (simp [SOp.cropping] at hc)

/-- a volume refuses a cropping operation exactly when its geometry-only twin does -/
theorem cropping_accepted_alike {coord : Coord} {v : Vol} {op : SOp} (hp : v.geom.Pos) (hc : SOp.cropping op = true) :
    (∃ w, op.applyVol coord v = .ok w) ↔ (∃ r, op.applyGeom coord v.geom = .ok r) := by
  rw [applyVol_cropping hc]
  constructor
  · rintro ⟨w, h⟩
    obtain ⟨r, hr, _⟩ := bind_ok.mp h
    exact ⟨r, (applyG_sound AxMap.alen szOk_alen hp hr).2.2 AxMap.size szOk_size⟩
  · rintro ⟨r, h⟩
    have := (applyG_sound AxMap.size szOk_size hp h).2.2 AxMap.alen szOk_alen
    exact ⟨v.reindex r, by rw [this]; rfl⟩

theorem padArray_constant_ok (v : Vol) (f : I3 → I3) {o : PadOpts} (hm : o.mode = "CONSTANT" ∨ o.mode = "EDGE") :
    ∃ x, padArray v f o = .ok x := by
  unfold padArray
  rcases hm with hm | hm
  · have : PadMode.parse o.mode = some .constant := by rw [hm]; decide
    rw [this, padPerChannel_eq this]
    exact ⟨_, rfl⟩
  · have : PadMode.parse o.mode = some .edge := by rw [hm]; decide
    rw [this, padPerChannel_eq this]
    exact ⟨_, rfl⟩

/-- `pad` with CONSTANT or EDGE: the volume is refused exactly when the geometry-only twin is -/
theorem pad_accepted_alike {coord : Coord} {v : Vol} {wd : PadWidth} {o : PadOpts} (hp : v.geom.Pos)
    (hm : o.mode = "CONSTANT" ∨ o.mode = "EDGE") :
    (∃ w, (SOp.pad wd o).applyVol coord v = .ok w) ↔ (∃ r, (SOp.pad wd o).applyGeom coord v.geom = .ok r) := by
  have hcm : checkMode o = .ok () := by
    unfold checkMode
    rcases hm with hm | hm <;> rw [hm] <;> rfl
  constructor
  · rintro ⟨w, h⟩
    simp only [SOp.applyVol] at h
    obtain ⟨_, _, h⟩ := bind_ok.mp h
    obtain ⟨r, hr, _⟩ := bind_ok.mp h
    exact ⟨r, (padG_sound AxMap.alen szOk_alen hp hr).2 AxMap.size szOk_size⟩
  · rintro ⟨r, h⟩
    have hr : padG AxMap.alen v.geom wd = .ok r := (padG_sound AxMap.size szOk_size hp h).2 AxMap.alen szOk_alen
    obtain ⟨x, hx⟩ := padArray_constant_ok v r.2 hm
    refine ⟨({ v with geom := r.1, arr := x.1, isInt := x.2 }, provOf v.geom r.2), ?_⟩
    simp only [SOp.applyVol, hcm, hr, bind, Except.bind, Vol.padStep, hx, pure, Except.pure]


/-! ## store: independence of freshly allocated results -/

theorem writeBuf_other (s : Store) (b c k : Nat) (x : Rat) (h : c ≠ b) : (writeBuf s b k x)[c]? = s[c]? := by
  induction s generalizing b c with
  | nil => simp [writeBuf]
  | cons buf rest ih =>
    cases b with
    | zero =>
      cases c with
      | zero => exact absurd rfl h
      | succ c => simp [writeBuf]
    | succ b =>
      cases c with
      | zero => simp [writeBuf]
      | succ c => simp only [writeBuf, List.getElem?_cons_succ]; exact ih b c (by omega)

theorem writeBuf_same_len (s : Store) (b k : Nat) (x : Rat) : (writeBuf s b k x).length = s.length := by
  induction s generalizing b with
  | nil => simp [writeBuf]
  | cons buf rest ih => cases b <;> simp [writeBuf, ih]

/-- a result living in a freshly allocated buffer is independent: editing it in place leaves every buffer that existed
before the operation (in particular the input's) exactly as it was -/
theorem fresh_independent (s : Store) (own given : Nat) (contents : List Rat) (r : Nat)
    (hr : resultBuffer .fresh s own given = some r) (k : Nat) (x : Rat) (b : Nat) (hb : b < s.length) :
    (writeBuf (storeAfter .fresh s contents) r k x)[b]? = s[b]? := by
  simp only [resultBuffer, Option.some.injEq] at hr
  subst hr
  rw [writeBuf_other _ _ _ _ _ (by omega)]
  simp [storeAfter, List.getElem?_append_left hb]

/-- a view lives in the input's buffer: an in-place edit of the result IS an edit of the input (numpy view semantics) -/
theorem view_aliases (s : Store) (own given : Nat) : resultBuffer .view s own given = some own ∧ storeAfter .view s [] = s :=
  ⟨rfl, rfl⟩


end HdVerif.VolLemmas
