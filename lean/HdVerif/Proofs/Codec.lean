import HdVerif.Model.Codec
import HdVerif.Proofs.Bits
import HdVerif.Proofs.RatFloor
import Mathlib.Tactic.Ring
import Mathlib.Tactic.Linarith
import Mathlib.Tactic.Positivity
import Mathlib.Tactic.NormNum
/-! Helper lemmas for C07.

1. `encodeFrameRoute` (translated from `encode_frame`) accepts exactly `AcceptSpec` -- both directions,
   for all inputs.  The translated definition is a flat chain `if pc₁ then t₁ else if pc₂ then t₂ …` over
   `let`-bound atoms; the chain is peeled one terminal at a time (`peel_chain`), every leaf is closed by
   propositional reasoning over the atoms followed by `grind` over their definitions.
2. little-endian cells and two's complement round-trip; bit packing round-trips. -/
namespace HdVerif.Codec
open HdVerif HdVerif.Bits HdVerif.Gen

/-! ### peeling translated chains -/

theorem peel_err {α : Type} {c : Prop} [Decidable c] {e : ErrKind} {rest : Except ErrKind α} {r : α}
    (h : (if c then Except.error e else rest) = Except.ok r) : ¬ c ∧ rest = Except.ok r := by
  by_cases hc : c
  · rw [if_pos hc] at h; cases h
  · rw [if_neg hc] at h; exact ⟨hc, h⟩

theorem peel_ok {α : Type} {c : Prop} [Decidable c] {v : α} {rest : Except ErrKind α} {r : α}
    (h : (if c then Except.ok v else rest) = Except.ok r) : (c ∧ v = r) ∨ (¬ c ∧ rest = Except.ok r) := by
  by_cases hc : c
  · rw [if_pos hc] at h; exact Or.inl ⟨hc, Except.ok.inj h⟩
  · rw [if_neg hc] at h; exact Or.inr ⟨hc, h⟩

theorem peel_err' {α : Type} {c : Prop} [Decidable c] {e' e : ErrKind} {rest : Except ErrKind α}
    (h : (if c then Except.error e' else rest) = Except.error e) : c ∨ (¬ c ∧ rest = Except.error e) := by
  by_cases hc : c
  · exact Or.inl hc
  · rw [if_neg hc] at h; exact Or.inr ⟨hc, h⟩

theorem peel_ok' {α : Type} {c : Prop} [Decidable c] {v : α} {e : ErrKind} {rest : Except ErrKind α}
    (h : (if c then Except.ok v else rest) = Except.error e) : ¬ c ∧ rest = Except.error e := by
  by_cases hc : c
  · rw [if_pos hc] at h; cases h
  · rw [if_neg hc] at h; exact ⟨hc, h⟩

/-- `h : chain = .ok r`: walk down the chain; at every `.ok v` terminal run `tac` with `hc : pc`,
    `hv : v = r` and the negated path conditions of all earlier terminals in context. -/
macro "peel_chain " h:ident hc:ident hv:ident " => " tac:tacticSeq : tactic => `(tactic|
  (repeat (first
     | (replace $h := peel_err $h
        have hneg := ($h).1
        replace $h := ($h).2)
     | (replace $h := peel_ok $h
        rcases $h:ident with ⟨$hc:ident, $hv:ident⟩ | ⟨hneg, $h:ident⟩
        · ($tac)))
   first | (exfalso; cases $h:ident; done) | skip))

/-- `h : chain = .error e`: the same for the refusing terminals (`hc : pc`). -/
macro "peel_chain_err " h:ident hc:ident " => " tac:tacticSeq : tactic => `(tactic|
  (repeat (first
     | (replace $h := peel_ok' $h
        have hneg := ($h).1
        replace $h := ($h).2)
     | (replace $h := peel_err' $h
        rcases $h:ident with $hc:ident | ⟨hneg, $h:ident⟩
        · ($tac)))))

/-- close a leaf: (1) a copy of the leaf's own path condition as propositions over the inputs,
    (2) the earlier (negated) path conditions simplified with the truth values the leaf fixes,
    (3) atoms -> propositions, specification unfolded, case split on `ndim > 2`, `grind`. -/
macro "close_leaf " nd:term:max bs:term:max hc:ident : tactic => `(tactic|
  first
  | (exfalso; simp only [Bool.and_eq_true, Bool.not_eq_true'] at $hc:ident; grind)
  | (
   have hcU := $hc
   try simp +zetaDelta only [Bool.not_eq_true', Bool.not_eq_false', Bool.or_eq_true, Bool.or_eq_false_iff,
     Bool.and_eq_true, Bool.and_eq_false_imp, beq_iff_eq, bne_iff_ne, beq_eq_false_iff_ne, bne_eq_false_iff_eq,
     decide_eq_true_eq, decide_eq_false_iff_not, fmod_pos _ 8 (by omega), fdiv_pos _ 8 (by omega), Bool.not_not, Bool.beq_eq_decide_eq,
     decide_eq_decide, Bool.not_eq_true, Bool.not_eq_false] at hcU
   try simp only [Bool.and_eq_true, Bool.not_eq_true', Bool.not_eq_true, not_and] at *
   try simp only [$hc:ident, eq_self, Bool.true_eq_false, Bool.false_eq_true, and_true, true_and, and_false, false_and,
     true_implies, false_implies, implies_true, not_true_eq_false, not_false_eq_true, and_self] at *
   try simp +zetaDelta only [Bool.not_eq_true', Bool.not_eq_false', Bool.or_eq_true, Bool.or_eq_false_iff,
     Bool.and_eq_true, Bool.and_eq_false_imp, beq_iff_eq, bne_iff_ne, beq_eq_false_iff_ne, bne_eq_false_iff_eq,
     decide_eq_true_eq, decide_eq_false_iff_not, fmod_pos _ 8 (by omega), fdiv_pos _ 8 (by omega), Bool.not_not, Bool.beq_eq_decide_eq,
     decide_eq_decide, Bool.not_eq_true, Bool.not_eq_false] at *
   try simp only [AcceptSpec, Common, ShapeOK, NativeOK, StoredRange, BaselineOK, RleOK, JpegFamilyOK, Req.spp, monoPI, knownPI, requiredPI,
     jpegBaseline, rle, jpegLs, jpegLsNear, j2k, j2kLossless] at *
   try generalize (2 : Int) ^ ($bs - 1).toNat = P1 at *
   try generalize (2 : Int) ^ ($bs).toNat = P2 at *
   by_cases hnd : $nd > 2 <;>
     try simp only [hnd, if_true, if_false, Int.mul_one, not_true_eq_false, not_false_eq_true, true_and, false_and,
       true_implies, false_implies, and_true] at * <;> grind (splits := 60)))

/-- the preparation part of `close_leaf` alone (used for other translated chains, e.g. C19): afterwards the
    context holds the leaf's path condition `hcU` and the earlier negated path conditions as propositions
    over the inputs -/
macro "prep_leaf " hc:ident : tactic => `(tactic|
  (have hcU := $hc
   try simp +zetaDelta only [Bool.not_eq_true', Bool.not_eq_false', Bool.or_eq_true, Bool.or_eq_false_iff,
     Bool.and_eq_true, Bool.and_eq_false_imp, beq_iff_eq, bne_iff_ne, beq_eq_false_iff_ne, bne_eq_false_iff_eq,
     decide_eq_true_eq, decide_eq_false_iff_not, fmod_pos _ 8 (by omega), fdiv_pos _ 8 (by omega), Bool.not_not, Bool.beq_eq_decide_eq,
     decide_eq_decide, Bool.not_eq_true, Bool.not_eq_false] at hcU
   try simp only [Bool.and_eq_true, Bool.not_eq_true', Bool.not_eq_true, not_and] at *
   try simp only [$hc:ident, eq_self, Bool.true_eq_false, Bool.false_eq_true, and_true, true_and, and_false, false_and,
     true_implies, false_implies, implies_true, not_true_eq_false, not_false_eq_true, and_self] at *
   try simp +zetaDelta only [Bool.not_eq_true', Bool.not_eq_false', Bool.or_eq_true, Bool.or_eq_false_iff,
     Bool.and_eq_true, Bool.and_eq_false_imp, beq_iff_eq, bne_iff_ne, beq_eq_false_iff_ne, bne_eq_false_iff_eq,
     decide_eq_true_eq, decide_eq_false_iff_not, fmod_pos _ 8 (by omega), fdiv_pos _ 8 (by omega), Bool.not_not, Bool.beq_eq_decide_eq,
     decide_eq_decide, Bool.not_eq_true, Bool.not_eq_false] at *))

set_option maxRecDepth 8000

/-! ### `encode_frame` accepts exactly `AcceptSpec` -/

theorem route_sound_none (ts : String) (ba bs : Int) (pi : String) (pr : Int) (s0 s1 s2 nd : Int) (k : String)
    (isz : Int) (nm : String) (mx mn : Int) (v : Int × Int × Int × Int × Int × Int × Int)
    (h : encodeFrameRoute ts ba bs pi pr none s0 s1 s2 nd k isz nm mx mn = .ok v) :
    AcceptSpec ⟨ts, ba, bs, pi, pr, none, s0, s1, s2, nd, k, isz, nm, mx, mn⟩ v.1 ∧
    HandOff ⟨ts, ba, bs, pi, pr, none, s0, s1, s2, nd, k, isz, nm, mx, mn⟩ v := by
  unfold encodeFrameRoute at h
  simp -zeta only [] at h
  extract_lets at h
  peel_chain h hc hv =>
    subst hv
    refine ⟨?_, ?_⟩
    · close_leaf nd bs hc
    · simp +zetaDelta only [HandOff, Req.spp, decide_eq_true_eq, Bool.and_eq_true, Bool.not_eq_true', decide_eq_false_iff_not] at * <;>
        first | rfl | (split <;> first | rfl | omega | contradiction)

theorem route_sound_some (ts : String) (ba bs : Int) (pi : String) (pr pc : Int) (s0 s1 s2 nd : Int) (k : String)
    (isz : Int) (nm : String) (mx mn : Int) (v : Int × Int × Int × Int × Int × Int × Int)
    (h : encodeFrameRoute ts ba bs pi pr (some pc) s0 s1 s2 nd k isz nm mx mn = .ok v) :
    AcceptSpec ⟨ts, ba, bs, pi, pr, some pc, s0, s1, s2, nd, k, isz, nm, mx, mn⟩ v.1 ∧
    HandOff ⟨ts, ba, bs, pi, pr, some pc, s0, s1, s2, nd, k, isz, nm, mx, mn⟩ v := by
  unfold encodeFrameRoute at h
  simp -zeta only [] at h
  extract_lets at h
  peel_chain h hc hv =>
    subst hv
    refine ⟨?_, ?_⟩
    · close_leaf nd bs hc
    · simp +zetaDelta only [HandOff, Req.spp, decide_eq_true_eq, Bool.and_eq_true, Bool.not_eq_true', decide_eq_false_iff_not] at * <;>
        first | rfl | (split <;> first | rfl | omega | contradiction)

theorem routeFull_sound (q : Req) (v : Int × Int × Int × Int × Int × Int × Int) (h : q.routeFull = .ok v) :
    AcceptSpec q v.1 ∧ HandOff q v := by
  obtain ⟨ts, ba, bs, pi, pr, planar, s0, s1, s2, nd, k, isz, nm, mx, mn⟩ := q
  cases planar with
  | none => exact route_sound_none _ _ _ _ _ _ _ _ _ _ _ _ _ _ _ h
  | some pc => exact route_sound_some _ _ _ _ _ _ _ _ _ _ _ _ _ _ _ _ h

theorem route_of_full (q : Req) (r : Int) : q.route = .ok r ↔ ∃ v, q.routeFull = .ok v ∧ v.1 = r := by
  unfold Req.route
  cases h : q.routeFull with
  | error e => simp
  | ok v => simp

theorem route_sound (q : Req) (r : Int) (h : q.route = .ok r) : AcceptSpec q r := by
  obtain ⟨v, hv, rfl⟩ := (route_of_full q r).mp h
  exact (routeFull_sound q v hv).1

/-! the converse: a request satisfying `AcceptSpec` is never refused -/

/-- the fall-through terminal of a chain (`.error .other` after all path conditions failed) -/
macro "close_fallthrough " nd:term:max bs:term:max : tactic => `(tactic|
  (try simp only [Bool.and_eq_true, Bool.not_eq_true', Bool.not_eq_true, not_and] at *
   try simp +zetaDelta only [Bool.not_eq_true', Bool.not_eq_false', Bool.or_eq_true, Bool.or_eq_false_iff,
     Bool.and_eq_true, Bool.and_eq_false_imp, beq_iff_eq, bne_iff_ne, beq_eq_false_iff_ne, bne_eq_false_iff_eq,
     decide_eq_true_eq, decide_eq_false_iff_not, fmod_pos _ 8 (by omega), fdiv_pos _ 8 (by omega), Bool.not_not, Bool.beq_eq_decide_eq,
     decide_eq_decide, Bool.not_eq_true, Bool.not_eq_false] at *
   try simp only [AcceptSpec, Common, ShapeOK, NativeOK, StoredRange, BaselineOK, RleOK, JpegFamilyOK, Req.spp, monoPI, knownPI, requiredPI,
     jpegBaseline, rle, jpegLs, jpegLsNear, j2k, j2kLossless] at *
   try generalize (2 : Int) ^ ($bs - 1).toNat = P1 at *
   try generalize (2 : Int) ^ ($bs).toNat = P2 at *
   by_cases hnd : $nd > 2 <;>
     simp only [hnd, if_true, if_false, Int.mul_one, not_true_eq_false, not_false_eq_true, true_and, false_and,
       true_implies, false_implies, and_true] at * <;> grind (splits := 60)))

theorem route_not_refused_none (ts : String) (ba bs : Int) (pi : String) (pr : Int) (s0 s1 s2 nd : Int) (k : String)
    (isz : Int) (nm : String) (mx mn : Int) (r : Int) (e : ErrKind)
    (hs : AcceptSpec ⟨ts, ba, bs, pi, pr, none, s0, s1, s2, nd, k, isz, nm, mx, mn⟩ r)
    (h : encodeFrameRoute ts ba bs pi pr none s0 s1 s2 nd k isz nm mx mn = .error e) : False := by
  unfold encodeFrameRoute at h
  simp -zeta only [] at h
  extract_lets at h
  peel_chain_err h hc =>
    close_leaf nd bs hc
  close_fallthrough nd bs

set_option maxHeartbeats 1600000 in
theorem route_not_refused_some (ts : String) (ba bs : Int) (pi : String) (pr pc : Int) (s0 s1 s2 nd : Int) (k : String)
    (isz : Int) (nm : String) (mx mn : Int) (r : Int) (e : ErrKind)
    (hs : AcceptSpec ⟨ts, ba, bs, pi, pr, some pc, s0, s1, s2, nd, k, isz, nm, mx, mn⟩ r)
    (h : encodeFrameRoute ts ba bs pi pr (some pc) s0 s1 s2 nd k isz nm mx mn = .error e) : False := by
  unfold encodeFrameRoute at h
  simp -zeta only [] at h
  extract_lets at h
  peel_chain_err h hc =>
    close_leaf nd bs hc
  close_fallthrough nd bs


/-- the specification determines the route -/
theorem acceptSpec_functional (q : Req) (r r' : Int) (h : AcceptSpec q r) (h' : AcceptSpec q r') : r = r' := by
  obtain ⟨ts, ba, bs, pi, pr, planar, s0, s1, s2, nd, k, isz, nm, mx, mn⟩ := q
  simp only [AcceptSpec, Common, ShapeOK, NativeOK, BaselineOK, RleOK, JpegFamilyOK, Req.spp, monoPI, knownPI, requiredPI,
     jpegBaseline, rle, jpegLs, jpegLsNear, j2k, j2kLossless] at *
  grind (splits := 60)

theorem routeFull_complete (q : Req) (r : Int) (hs : AcceptSpec q r) :
    q.routeFull = .ok (r, q.rows, q.cols, q.spp, q.ba, q.bs, q.pr) := by
  cases hr : q.routeFull with
  | ok v =>
    obtain ⟨ha, hh⟩ := routeFull_sound q v hr
    have := acceptSpec_functional q r v.1 hs ha
    unfold HandOff at hh
    obtain ⟨v1, v2⟩ := v
    simp only at this hh
    rw [this, hh]
  | error e =>
    exfalso
    obtain ⟨ts, ba, bs, pi, pr, planar, s0, s1, s2, nd, k, isz, nm, mx, mn⟩ := q
    cases planar with
    | none => exact route_not_refused_none _ _ _ _ _ _ _ _ _ _ _ _ _ _ _ _ hs hr
    | some pc => exact route_not_refused_some _ _ _ _ _ _ _ _ _ _ _ _ _ _ _ _ _ hs hr

theorem route_complete (q : Req) (r : Int) (hs : AcceptSpec q r) : q.route = .ok r :=
  (route_of_full q r).mpr ⟨_, routeFull_complete q r hs, rfl⟩

/-- **`encode_frame` accepts exactly the specified requests, routes them as specified, and hands the codec the
    request's own rows, columns, samples, bits allocated, bits stored and pixel representation.** -/
theorem routeFull_iff (q : Req) (v : Int × Int × Int × Int × Int × Int × Int) :
    q.routeFull = .ok v ↔ AcceptSpec q v.1 ∧ HandOff q v := by
  constructor
  · exact routeFull_sound q v
  · rintro ⟨hs, hh⟩
    rw [routeFull_complete q v.1 hs]
    unfold HandOff at hh
    obtain ⟨v1, v2⟩ := v
    simp only at hh
    rw [hh]

theorem route_iff (q : Req) (r : Int) : q.route = .ok r ↔ AcceptSpec q r :=
  ⟨route_sound q r, route_complete q r⟩

/-! ### little-endian cells, two's complement, unused-bit correction -/

theorem leBytes_length (k v : Nat) : (leBytes k v).length = k := by
  induction k generalizing v with
  | zero => rfl
  | succ k ih => simp [leBytes, ih]

theorem ofLeBytes_leBytes (k v : Nat) (h : v < 256 ^ k) : ofLeBytes (leBytes k v) = v := by
  induction k generalizing v with
  | zero =>
    have : v = 0 := by simpa using h
    subst this; rfl
  | succ k ih =>
    simp only [leBytes, ofLeBytes]
    have : v / 256 < 256 ^ k := by
      rw [Nat.div_lt_iff_lt_mul (by norm_num)]
      rw [Nat.pow_succ] at h; exact h
    rw [ih _ this]; omega

theorem pow256 (n : Nat) : 256 ^ n = 2 ^ (8 * n) := by
  rw [show (256 : Nat) = 2 ^ 8 by norm_num, ← Nat.pow_mul]

theorem toUnsigned_cast (bits : Nat) (v : Int) : ((toUnsigned bits v : Nat) : Int) = v % (2 : Int) ^ bits := by
  unfold toUnsigned
  have hp : (0 : Int) < (2 : Int) ^ bits := by positivity
  exact Int.toNat_of_nonneg (Int.emod_nonneg v (ne_of_gt hp))

theorem toUnsigned_lt (bits : Nat) (v : Int) : toUnsigned bits v < 2 ^ bits := by
  have hp : (0 : Int) < (2 : Int) ^ bits := by positivity
  have h2 := Int.emod_lt_of_pos v hp
  rw [← toUnsigned_cast] at h2
  exact_mod_cast h2

/-- a value that fits `stored ≤ 8*nbytes` bits survives cell encoding, decoding and the unused-bit correction -/
theorem cell_roundtrip (nbytes stored : Nat) (signed : Bool) (v : Int) (h1 : 1 ≤ stored) (h2 : stored ≤ 8 * nbytes)
    (hv : if signed then -(2 : Int) ^ (stored - 1) ≤ v ∧ v < (2 : Int) ^ (stored - 1) else 0 ≤ v ∧ v < (2 : Int) ^ stored) :
    maskStored signed stored (ofLeBytes (leBytes nbytes (toUnsigned (8 * nbytes) v))) = v := by
  rw [ofLeBytes_leBytes _ _ (by rw [pow256]; exact toUnsigned_lt _ _)]
  unfold maskStored
  simp only []
  -- the low `stored` bits of the cell, as an integer
  have hdvd : ((2 : Int) ^ stored) ∣ (2 : Int) ^ (8 * nbytes) := pow_dvd_pow 2 h2
  have hm : (((toUnsigned (8 * nbytes) v) % 2 ^ stored : Nat) : Int) = v % (2 : Int) ^ stored := by
    push_cast
    rw [toUnsigned_cast, Int.emod_emod_of_dvd _ hdvd]
  have hP : (2 : Int) ^ stored = 2 * (2 : Int) ^ (stored - 1) := by
    have : stored = (stored - 1) + 1 := by omega
    conv_lhs => rw [this, pow_succ]
    ring
  have hpos : (0 : Int) < (2 : Int) ^ (stored - 1) := by positivity
  cases signed with
  | false =>
    simp only [Bool.false_eq_true, ↓reduceIte] at hv ⊢
    rw [hm, Int.emod_eq_of_lt hv.1 hv.2]
  | true =>
    simp only [↓reduceIte] at hv ⊢
    unfold toSigned
    generalize hPP : (2 : Int) ^ (stored - 1) = P at *
    by_cases hneg : 0 ≤ v
    · have e : v % (2 : Int) ^ stored = v := Int.emod_eq_of_lt hneg (by rw [hP]; omega)
      have hlt : 2 * ((toUnsigned (8 * nbytes) v) % 2 ^ stored) < 2 ^ stored := by
        have : (2 : Int) * (((toUnsigned (8 * nbytes) v) % 2 ^ stored : Nat) : Int) < (2 : Int) ^ stored := by
          rw [hm, e, hP]; omega
        exact_mod_cast this
      rw [if_pos hlt, hm, e]
    · have e : v % (2 : Int) ^ stored = v + (2 : Int) ^ stored := by
        rw [← Int.add_emod_right]
        exact Int.emod_eq_of_lt (by rw [hP]; omega) (by omega)
      have hge : ¬ 2 * ((toUnsigned (8 * nbytes) v) % 2 ^ stored) < 2 ^ stored := by
        intro hlt
        have : (2 : Int) * (((toUnsigned (8 * nbytes) v) % 2 ^ stored : Nat) : Int) < (2 : Int) ^ stored := by
          exact_mod_cast hlt
        rw [hm, e, hP] at this; omega
      rw [if_neg hge, hm, e]; ring

theorem decodeCells_encodeCells (nbytes stored : Nat) (signed : Bool) (h1 : 1 ≤ stored) (h2 : stored ≤ 8 * nbytes)
    (xs : List Int) (tail : List Nat)
    (hx : ∀ v ∈ xs, if signed then -(2 : Int) ^ (stored - 1) ≤ v ∧ v < (2 : Int) ^ (stored - 1) else 0 ≤ v ∧ v < (2 : Int) ^ stored) :
    decodeCells nbytes signed stored xs.length (encodeCells nbytes xs ++ tail) = xs := by
  induction xs with
  | nil => rfl
  | cons x xs ih =>
    simp only [encodeCells, List.flatMap_cons, List.length_cons, decodeCells, List.append_assoc]
    have hl := leBytes_length nbytes (toUnsigned (8 * nbytes) x)
    rw [List.take_append_of_le_length (by omega), List.take_of_length_le (by omega),
        List.drop_append_of_le_length (by omega), List.drop_of_length_le (by omega), List.nil_append]
    rw [cell_roundtrip nbytes stored signed x h1 h2 (hx x (by simp))]
    have := ih (fun v hv => hx v (by simp [hv]))
    simp only [encodeCells] at this
    rw [this]

theorem encodeCells_length (nbytes : Nat) (xs : List Int) : (encodeCells nbytes xs).length = xs.length * nbytes := by
  induction xs with
  | nil => simp [encodeCells]
  | cons x xs ih =>
    simp only [encodeCells, List.flatMap_cons, List.length_append, List.length_cons] at ih ⊢
    rw [ih, leBytes_length]; ring


/-! ### single bits -/

theorem bitSlice_zero (rows cols s : Int) : bitSlice 0 rows cols s = .ok (0, rows * cols * s) := by
  unfold bitSlice
  have h0 : Rat.floor 0 = 0 := by simpa using Rat.floor_intCast 0
  simp [h0]

theorem slice_zero {α} (l : List α) (n : Nat) : slice l 0 (n : Int) = .ok (l.take n) := by
  unfold slice pySlice
  have : ¬ ((0 : Int) < 0 ∨ (n : Int) < 0) := by omega
  simp

/-- unpacking what was packed and keeping as many bits as were packed gives the bits back -/
theorem take_unpack_pack (bs : List Bool) : (unpack (pack bs)).take bs.length = bs := by
  obtain ⟨pad, h, _, _⟩ := unpack_pack bs
  rw [h, List.take_left']
  rfl

/-- ... also when further bytes (padding) follow -/
theorem take_unpack_pack_tail (bs : List Bool) (tail : List Nat) :
    (unpack (pack bs ++ tail)).take bs.length = bs := by
  rw [unpack_append, List.take_append_of_le_length]
  · exact take_unpack_pack bs
  · obtain ⟨pad, h, _, _⟩ := unpack_pack bs
    rw [h]; simp

theorem padEven_eq (l : List Nat) : ∃ tail, padEven l = l ++ tail := by
  unfold padEven
  split
  · exact ⟨[0], rfl⟩
  · exact ⟨[], by simp⟩

theorem packBits_ok (xs : List Int) (h : ∀ v ∈ xs, v = 0 ∨ v = 1) :
    packBits xs = .ok (padEven (pack (xs.map (fun v => v == 1)))) := by
  unfold packBits
  have : xs.all (fun v => v == 0 || v == 1) = true := by
    rw [List.all_eq_true]; intro v hv
    rcases h v hv with h | h <;> simp [h]
  simp [this]

theorem bits_back (xs : List Int) (h : ∀ v ∈ xs, v = 0 ∨ v = 1) :
    (xs.map (fun v => v == 1)).map (fun b => if b then (1 : Int) else 0) = xs := by
  induction xs with
  | nil => rfl
  | cons x xs ih =>
    simp only [List.map_cons]
    rw [ih (fun v hv => h v (by simp [hv]))]
    rcases h x (by simp) with h | h <;> simp [h]


/-! ### smallest / largest sample, fitting the stored bits -/

theorem foldl_max_ge (l : List Int) (a : Int) : a ≤ l.foldl Max.max a ∧ ∀ v ∈ l, v ≤ l.foldl Max.max a := by
  induction l generalizing a with
  | nil => simp
  | cons b l ih =>
    simp only [List.foldl_cons, List.mem_cons]
    obtain ⟨h1, h2⟩ := ih (Max.max a b)
    refine ⟨le_trans (le_max_left a b) h1, ?_⟩
    intro v hv
    rcases hv with rfl | hv
    · exact le_trans (le_max_right a v) h1
    · exact h2 v hv

theorem foldl_min_le (l : List Int) (a : Int) : l.foldl Min.min a ≤ a ∧ ∀ v ∈ l, l.foldl Min.min a ≤ v := by
  induction l generalizing a with
  | nil => simp
  | cons b l ih =>
    simp only [List.foldl_cons, List.mem_cons]
    obtain ⟨h1, h2⟩ := ih (Min.min a b)
    refine ⟨le_trans h1 (min_le_left a b), ?_⟩
    intro v hv
    rcases hv with rfl | hv
    · exact le_trans h1 (min_le_right a v)
    · exact h2 v hv

theorem le_frame_max (x : Frame) (v : Int) (hv : v ∈ x.data) : v ≤ x.max := by
  unfold Frame.max
  cases hd : x.data with
  | nil => rw [hd] at hv; simp at hv
  | cons a l =>
    rw [hd] at hv
    simp only [List.mem_cons] at hv
    rcases hv with rfl | hv
    · exact (foldl_max_ge l v).1
    · exact (foldl_max_ge l a).2 v hv

theorem frame_min_le (x : Frame) (v : Int) (hv : v ∈ x.data) : x.min ≤ v := by
  unfold Frame.min
  cases hd : x.data with
  | nil => rw [hd] at hv; simp at hv
  | cons a l =>
    rw [hd] at hv
    simp only [List.mem_cons] at hv
    rcases hv with rfl | hv
    · exact (foldl_min_le l v).1
    · exact (foldl_min_le l a).2 v hv

/-- smallest and largest sample within the stored range ⇒ every sample fits -/
theorem fits_of_storedRange (p : Params) (x : Frame) (hbs : 1 ≤ p.bitsStored)
    (h : StoredRange p.pixelRepresentation p.bitsStored x.min x.max) : FitsStored p x := by
  intro v hv
  have h1 := frame_min_le x v hv
  have h2 := le_frame_max x v hv
  have e : (p.bitsStored - 1).toNat = p.bitsStored.toNat - 1 := by omega
  unfold StoredRange at h
  rw [e] at h
  by_cases hp : p.pixelRepresentation = 1
  · simp only [hp, ↓reduceIte] at h ⊢; omega
  · simp only [hp, ↓reduceIte] at h ⊢; omega

/-- all bits stored: the dtype's own range is the stored range -/
theorem fits_of_dtype (p : Params) (x : Frame) (hwf : x.WF)
    (hk : x.dtype.kind = "b" ∨ x.dtype.kind = "u" ∨ x.dtype.kind = "i")
    (hsz : (x.dtype.itemsize : Int) * 8 = p.bitsStored) (hsg : x.dtype.kind = "i" ↔ p.pixelRepresentation = 1) :
    FitsStored p x := by
  intro v hv
  obtain ⟨hlo, hhi⟩ := hwf.2 v hv
  have p8 : (2 : Int) ^ (8 : Int).toNat = 256 := by decide
  have p7 : (2 : Int) ^ ((8 : Int).toNat - 1) = 128 := by decide
  have p16 : (2 : Int) ^ (16 : Int).toNat = 65536 := by decide
  have p15 : (2 : Int) ^ ((16 : Int).toNat - 1) = 32768 := by decide
  have p32 : (2 : Int) ^ (32 : Int).toNat = 4294967296 := by decide
  have p31 : (2 : Int) ^ ((32 : Int).toNat - 1) = 2147483648 := by decide
  have p64 : (2 : Int) ^ (64 : Int).toNat = 18446744073709551616 := by decide
  have p63 : (2 : Int) ^ ((64 : Int).toNat - 1) = 9223372036854775808 := by decide
  cases hd : x.dtype <;> rw [hd] at hk hsz hsg hlo hhi <;>
    simp only [DType.kind, DType.itemsize, DType.lo, DType.hi] at hk hsz hsg hlo hhi <;>
    (try simp at hk) <;>
    (first
      | (have hp : ¬ p.pixelRepresentation = 1 := by
           intro h1; have := hsg.mpr h1; simp at this
         rw [← hsz]; simp only [hp, ↓reduceIte]; norm_num; omega)
      | (have hp : p.pixelRepresentation = 1 := by simpa using hsg
         rw [← hsz]; simp only [hp, ↓reduceIte]; norm_num; omega))


/-! ### glue -/

theorem Req.of_spp (p : Params) (x : Frame) : (Req.of p x).spp = (x.spp : Int) := by
  unfold Req.of Req.spp Frame.ndim Frame.shape2 Frame.spp
  cases x.samples <;> simp

theorem encodeRoute_eq (p : Params) (x : Frame) : encodeRoute p x = (Req.of p x).route := rfl

/-- decode side: a native 1-bit request goes to the bit-unpacking branch whatever else is given -/
theorem decodeRoute_bits (s : Int) (pi : String) (pr : Int) (pc : Option Int) :
    decodeFrameRoute false 1 s pi pr pc = .ok 1 := by
  unfold decodeFrameRoute
  cases pc <;> simp

theorem decodeRoute_pydicom (enc : Bool) (ba s : Int) (pi : String) (pr : Int) (pc : Option Int)
    (hba : enc = true ∨ ba ≠ 1) (hpr : pr = 0 ∨ pr = 1) (hpi : knownPI pi)
    (hpc : s > 1 → pc = some 0 ∨ pc = some 1) :
    decodeFrameRoute enc ba s pi pr pc = .ok (if enc then 3 else 2) := by
  unfold decodeFrameRoute knownPI monoPI at *
  cases pc with
  | none =>
    simp only []
    have hs : ¬ s > 1 := by intro h; have := hpc h; simp at this
    cases enc <;> grind
  | some v =>
    simp only []
    cases enc <;> grind


/-! ### accepted frames decode to themselves -/

theorem accepted_native (p : Params) (x : Frame) (r : Int) (h : encodeRoute p x = .ok r)
    (hts : p.ts ∈ nativeSyntaxes) :
    Common (Req.of p x) ∧ NativeOK (Req.of p x) r := by
  have hs := route_sound (Req.of p x) r (by rw [← encodeRoute_eq]; exact h)
  obtain ⟨hc, hr⟩ := hs
  refine ⟨hc, ?_⟩
  have hts' : (Req.of p x).ts = "1.2.840.10008.1.2" ∨ (Req.of p x).ts = "1.2.840.10008.1.2.1" := by
    simpa [nativeSyntaxes, Req.of] using hts
  rcases hr with hr | hr | hr | hr
  · exact hr
  · exfalso; unfold BaselineOK jpegBaseline at hr; rcases hts' with h1 | h1 <;> simp [h1] at hr
  · exfalso; unfold RleOK rle at hr; rcases hts' with h1 | h1 <;> simp [h1] at hr
  · exfalso; unfold JpegFamilyOK jpegLs jpegLsNear j2k j2kLossless at hr
    rcases hts' with h1 | h1 <;> simp [h1] at hr

theorem isEncapsulated_native (ts : String) (h : ts ∈ nativeSyntaxes) : isEncapsulated ts = false := by
  simp [nativeSyntaxes] at h
  rcases h with h | h <;> subst h <;> rfl

theorem encodeRouteFull_eq (p : Params) (x : Frame) : encodeRouteFull p x = (Req.of p x).routeFull := rfl

/-- unfolding `encodeFrame` along an accepted route; on the codec routes the encoder is handed exactly the
    request's parameters and the frame's shape (hand-off part of `routeFull_iff`) -/
theorem encodeFrame_ok (c : CodecImpl) (p : Params) (x : Frame) (bytes : List Nat)
    (h : encodeFrame c p x = .ok bytes) :
    ∃ r, encodeRoute p x = .ok r ∧
      ((r = 1 ∧ packBits x.data = .ok bytes) ∨ (r ≠ 1 ∧ r = 2 ∧ bytes = encodeCells x.dtype.itemsize x.data) ∨
       (r ≠ 1 ∧ r ≠ 2 ∧ c.enc p x.rows x.cols x.spp x = .ok bytes)) := by
  unfold encodeFrame at h
  cases hv : encodeRouteFull p x with
  | error e => rw [hv] at h; simp [bind, Except.bind] at h
  | ok v =>
    rw [hv] at h
    simp only [bind, Except.bind] at h
    have hr : encodeRoute p x = .ok v.1 := by unfold encodeRoute; rw [hv]
    refine ⟨v.1, hr, ?_⟩
    obtain ⟨_, hh⟩ := routeFull_sound (Req.of p x) v (by rw [← encodeRouteFull_eq]; exact hv)
    unfold HandOff at hh
    rw [Req.of_spp] at hh
    simp only [Req.of] at hh
    by_cases h1 : v.1 = 1
    · simp [h1] at h; exact Or.inl ⟨h1, h⟩
    · by_cases h2 : v.1 = 2
      · simp [h2] at h; exact Or.inr (Or.inl ⟨h1, h2, h.symm⟩)
      · simp only [h1, h2, ↓reduceIte] at h
        refine Or.inr (Or.inr ⟨h1, h2, ?_⟩)
        obtain ⟨v1, v2, v3, v4, v5, v6, v7⟩ := v
        simp only [Prod.mk.injEq] at hh
        obtain ⟨rfl, rfl, rfl, rfl, rfl, rfl⟩ := hh
        exact h

/-- what `encode_frame` accepts, Rows and Columns can describe -/
theorem shapeInRange_of_shapeOK (p : Params) (x : Frame) (h : ShapeOK (Req.of p x)) : shapeInRange x.rows x.cols = true := by
  obtain ⟨_, h1, h2, h3, h4⟩ := h
  simp only [Req.of] at h1 h2 h3 h4
  unfold shapeInRange
  simp only [decide_eq_true_eq]
  omega

/-- **single bits**: an accepted native 1-bit frame decodes to itself (index 0 = a stand-alone frame) -/
theorem native_bits_roundtrip (c : CodecImpl) (conv : List Int → List Int) (p : Params) (x : Frame) (bytes : List Nat)
    (hwf : x.WF) (hts : p.ts ∈ nativeSyntaxes) (hba : p.bitsAllocated = 1)
    (henc : encodeFrame c p x = .ok bytes) :
    decodeFrame c conv p x.rows x.cols x.spp bytes = .ok x.data ∧
    pydicomOneBit x.rows x.cols x.spp bytes = .ok x.data := by
  obtain ⟨r, hr, hb⟩ := encodeFrame_ok c p x bytes henc
  obtain ⟨hcm, hn⟩ := accepted_native p x r hr hts
  have hsir := shapeInRange_of_shapeOK p x hcm.1
  have hr1 : r = 1 := by
    obtain ⟨_, _, h3⟩ := hn
    rcases h3 with h3 | h3
    · exact h3.2.2
    · exact absurd hba h3.1
  subst hr1
  have hpk : packBits x.data = .ok bytes := by
    rcases hb with hb | hb | hb
    · exact hb.2
    · exact absurd rfl hb.1
    · exact absurd rfl hb.1
  -- the content is binary, otherwise `pack_bits` had refused
  have hbin : ∀ v ∈ x.data, v = 0 ∨ v = 1 := by
    unfold packBits at hpk
    split at hpk
    · rename_i hall
      rw [List.all_eq_true] at hall
      intro v hv; have := hall v hv; simpa using this
    · cases hpk
  rw [packBits_ok _ hbin] at hpk
  obtain ⟨tail, htail⟩ := padEven_eq (pack (x.data.map (fun v => v == 1)))
  have hbytes : bytes = pack (x.data.map (fun v => v == 1)) ++ tail := by
    rw [← htail]; exact (Except.ok.inj hpk).symm
  have hlen : (x.data.map (fun v => v == 1)).length = x.rows * x.cols * x.spp := by
    rw [List.length_map]; exact hwf.1
  constructor
  · unfold decodeFrame
    rw [isEncapsulated_native _ hts, hba, decodeRoute_bits]
    simp only [bind, Except.bind, ↓reduceIte]
    have e : ((x.rows : Int) * (x.cols : Int) * (x.spp : Int)) = ((x.rows * x.cols * x.spp : Nat) : Int) := by push_cast; rfl
    rw [bitSlice_zero, e]
    simp only []
    rw [slice_zero, hbytes, ← hlen, take_unpack_pack_tail]
    simp only [↓reduceIte]
    rw [bits_back _ hbin]
  · unfold pydicomOneBit
    simp only []
    have hl : ¬ 8 * bytes.length < x.rows * x.cols * x.spp := by
      rw [hbytes, ← unpack_length, ← hlen, unpack_append]
      obtain ⟨pad, h, _, _⟩ := unpack_pack (x.data.map (fun v => v == 1))
      rw [h]; simp
    rw [if_neg (by rw [hsir]; decide), if_neg hl, hbytes, ← hlen, take_unpack_pack_tail, bits_back _ hbin]

theorem decodedDType_of (d : DType) (ba pr : Int) (hk : d.kind = "b" ∨ d.kind = "u" ∨ d.kind = "i")
    (hsz : (d.itemsize : Int) * 8 = ba) :
    ∃ dt, decodedDType ba pr = .ok dt ∧ dt.itemsize = d.itemsize := by
  subst hsz
  by_cases hp : pr = 1 <;> cases d <;> simp [DType.kind] at hk <;> simp [DType.itemsize, decodedDType, hp]

/-- every accepted request has 1 or 3 samples per pixel (each family's own check) -/
theorem spp_of_accepted (p : Params) (x : Frame) (r : Int) (h : AcceptSpec (Req.of p x) r) : x.spp = 1 ∨ x.spp = 3 := by
  obtain ⟨_, hc⟩ := h
  have hspp := Req.of_spp p x
  simp only [NativeOK, BaselineOK, RleOK, JpegFamilyOK, hspp] at hc
  have : (x.spp : Int) = 1 ∨ (x.spp : Int) = 3 := by
    rcases hc with h | h | h | h
    · rcases h.2.1 with h1 | h1
      · exact Or.inl h1.1
      · exact Or.inr h1.1
    · rcases h.2.2.2.2.1 with h1 | h1
      · exact Or.inl h1.1
      · exact Or.inr h1.1
    · exact h.2.1
    · rcases h.2.2.1 with h1 | h1
      · exact Or.inl h1.1
      · exact Or.inr h1.1
  rcases this with h1 | h3
  · left; exact_mod_cast h1
  · right; exact_mod_cast h3

/-- **cells**: an accepted native frame with >= 8 bits allocated whose values fit the stored bits decodes to
    itself -- for every shape, every supported dtype and every content.  (YBR photometric
    interpretations excluded: pydicom converts them to RGB on the way out, see `ybr_full_*`.) -/
theorem native_cells_decode (c : CodecImpl) (conv : List Int → List Int) (p : Params) (x : Frame) (bytes : List Nat)
    (hwf : x.WF) (hts : p.ts ∈ nativeSyntaxes) (hba : p.bitsAllocated ≠ 1) (hmul : p.bitsAllocated % 8 = 0)
    (henc : encodeFrame c p x = .ok bytes) :
    FitsStored p x ∧
    decodeFrame c conv p x.rows x.cols x.spp bytes = .ok (if convertsColour p.pi x.spp then conv x.data else x.data) ∧
    pydicomNative conv p x.rows x.cols x.spp bytes = .ok (if convertsColour p.pi x.spp then conv x.data else x.data) := by
  obtain ⟨r, hr, hb⟩ := encodeFrame_ok c p x bytes henc
  obtain ⟨hcm, hn⟩ := accepted_native p x r hr hts
  obtain ⟨hshape, hplanar, hpr, hpi, hbs1, hbs2⟩ := hcm
  obtain ⟨_, hspp, h3⟩ := hn
  rw [Req.of_spp] at hspp
  simp only [Req.of] at hplanar hpr hpi hbs1 hbs2 hspp h3
  obtain ⟨_, hkind, hsz', hsg, hrange, hr2⟩ : p.bitsAllocated ≠ 1 ∧ (x.dtype.kind = "b" ∨ x.dtype.kind = "u" ∨ x.dtype.kind = "i") ∧
      (x.dtype.itemsize : Int) = (p.bitsAllocated + 7) / 8 ∧ (x.dtype.kind = "i" ↔ p.pixelRepresentation = 1) ∧
      (p.bitsStored < p.bitsAllocated → StoredRange p.pixelRepresentation p.bitsStored x.min x.max) ∧ r = 2 := by
    rcases h3 with h3 | h3
    · exact absurd h3.1 hba
    · exact h3
  have hsz : (x.dtype.itemsize : Int) * 8 = p.bitsAllocated := by omega
  subst hr2
  -- every sample fits the stored bits: checked against min / max when fewer bits are stored, else by the dtype
  have hfit : FitsStored p x := by
    by_cases hlt : p.bitsStored < p.bitsAllocated
    · exact fits_of_storedRange p x hbs1 (hrange hlt)
    · have heq : p.bitsStored = p.bitsAllocated := by omega
      exact fits_of_dtype p x hwf hkind (by rw [heq]; exact hsz) hsg
  have hbytes : bytes = encodeCells x.dtype.itemsize x.data := by
    rcases hb with hb | hb | hb
    · exact absurd hb.1 (by decide)
    · exact hb.2.2
    · exact absurd rfl hb.2.1
  obtain ⟨dt, hdt, hdsz⟩ := decodedDType_of x.dtype p.bitsAllocated p.pixelRepresentation hkind hsz
  have hroute : decodeFrameRoute false p.bitsAllocated (x.spp : Int) p.pi p.pixelRepresentation p.planar = .ok 2 := by
    have := decodeRoute_pydicom false p.bitsAllocated (x.spp : Int) p.pi p.pixelRepresentation p.planar
      (Or.inr hba) hpr hpi (by
        intro hs
        rcases hspp with hspp | hspp
        · omega
        · exact Or.inl hspp.2.2)
    simpa using this
  have hpyd : pydicomNative conv p x.rows x.cols x.spp bytes = .ok (if convertsColour p.pi x.spp then conv x.data else x.data) := by
    unfold pydicomNative
    rw [hdt]
    simp only [bind, Except.bind, hdsz]
    have hlen : bytes.length = x.rows * x.cols * x.spp * x.dtype.itemsize := by
      rw [hbytes, encodeCells_length, hwf.1]
    have hs13 : ¬ (x.spp ≠ 1 ∧ x.spp ≠ 3) := by
      rcases hspp with h1 | h3
      · have : x.spp = 1 := by exact_mod_cast h1.1
        omega
      · have : x.spp = 3 := by exact_mod_cast h3.1
        omega
    rw [if_neg hs13, if_neg (by rw [shapeInRange_of_shapeOK p x hshape]; decide), if_neg (by omega), if_neg (by omega)]
    -- an accepted native colour frame is colour-by-pixel: no plane re-ordering on the way back
    have hnp : ¬ (x.spp > 1 ∧ p.planar = some 1) := by
      rintro ⟨hgt, hpl⟩
      rcases hspp with hspp | hspp
      · have : (x.spp : Int) = 1 := hspp.1
        omega
      · rw [hspp.2.2] at hpl; cases hpl
    rw [if_neg hnp]
    have hst1 : 1 ≤ p.bitsStored.toNat := by omega
    have hst2 : p.bitsStored.toNat ≤ 8 * x.dtype.itemsize := by omega
    have := decodeCells_encodeCells x.dtype.itemsize p.bitsStored.toNat (p.pixelRepresentation == 1) hst1 hst2 x.data []
      (by
        intro v hv
        have hf := hfit v hv
        by_cases hp : p.pixelRepresentation = 1
        · simp only [hp, ↓reduceIte, beq_self_eq_true] at hf ⊢; exact hf
        · have hp' : (p.pixelRepresentation == 1) = false := by simpa using hp
          simp only [hp, ↓reduceIte, hp', Bool.false_eq_true] at hf ⊢; exact hf)
    rw [List.append_nil, hwf.1] at this
    rw [hbytes, this]
  refine ⟨hfit, ?_, hpyd⟩
  unfold decodeFrame
  rw [isEncapsulated_native _ hts, hroute]
  simp only [bind, Except.bind]
  have h21 : ¬ ((2 : Int) = 1) := by decide
  simp only [h21, ↓reduceIte]
  exact hpyd

theorem spp_gt_one_ndim (x : Frame) (h : (x.spp : Int) > 1) : (x.ndim : Int) > 2 := by
  unfold Frame.spp at h; unfold Frame.ndim
  cases hs : x.samples <;> simp [hs] at h ⊢

/-- **encapsulated syntaxes**: whatever `encode_frame` hands to a lossless codec and the codec accepts comes
    back from `decode_frame` unchanged (RLE, JPEG-LS lossless, JPEG 2000 lossless; again without the
    YBR -> RGB conversion pydicom applies on decoding). -/
theorem encapsulated_decode (c : CodecImpl) (D : Params → Prop) (hc : c.LosslessOn D) (conv : List Int → List Int)
    (p : Params) (x : Frame) (bytes : List Nat) (hts : isEncapsulated p.ts = true) (hD : D p)
    (henc : encodeFrame c p x = .ok bytes) :
    decodeFrame c conv p x.rows x.cols x.spp bytes = .ok (if convertsColour p.pi x.spp then conv x.data else x.data) := by
  obtain ⟨r, hr, hb⟩ := encodeFrame_ok c p x bytes henc
  have hs := route_sound (Req.of p x) r (by rw [← encodeRoute_eq]; exact hr)
  obtain ⟨⟨hshape, hplanar, hpr, hpi, _, _⟩, hcases⟩ := hs
  simp only [Req.of] at hplanar hpr hpi
  have hnn : ¬ NativeOK (Req.of p x) r := by
    intro hn
    have : p.ts ∈ nativeSyntaxes := by
      rcases hn.1 with h | h <;> simp [Req.of] at h <;> simp [nativeSyntaxes, h]
    rw [isEncapsulated_native _ this] at hts; cases hts
  have hcodec : c.enc p x.rows x.cols x.spp x = .ok bytes := by
    rcases hb with hb | hb | hb
    · exfalso
      obtain ⟨h1, _⟩ := hb; subst h1
      rcases hcases with h | h | h | h
      · exact hnn h
      · exact absurd h.2.2.2.2.2 (by decide)
      · exact absurd h.2.2 (by decide)
      · rcases h.2.2.2.2 with h4 | h4
        · exact absurd h4.2.2.2 (by decide)
        · exact absurd h4.2 (by decide)
    · exfalso
      obtain ⟨_, h2, _⟩ := hb; subst h2
      rcases hcases with h | h | h | h
      · exact hnn h
      · exact absurd h.2.2.2.2.2 (by decide)
      · exact absurd h.2.2 (by decide)
      · rcases h.2.2.2.2 with h4 | h4
        · exact absurd h4.2.2.2 (by decide)
        · exact absurd h4.2 (by decide)
    · exact hb.2.2
  have hroute : decodeFrameRoute true p.bitsAllocated (x.spp : Int) p.pi p.pixelRepresentation p.planar = .ok 3 := by
    have := decodeRoute_pydicom true p.bitsAllocated (x.spp : Int) p.pi p.pixelRepresentation p.planar
      (Or.inl rfl) hpr hpi (fun hs => hplanar (spp_gt_one_ndim x hs))
    simpa using this
  unfold decodeFrame
  rw [hts, hroute]
  simp only [bind, Except.bind]
  have h31 : ¬ ((3 : Int) = 1) := by decide
  have h32 : ¬ ((3 : Int) = 2) := by decide
  simp only [h31, h32, ↓reduceIte]
  have hs13 : ¬ (x.spp ≠ 1 ∧ x.spp ≠ 3) := by
    have := spp_of_accepted p x r (route_sound (Req.of p x) r (by rw [← encodeRoute_eq]; exact hr))
    omega
  rw [if_neg hs13, if_neg (by rw [shapeInRange_of_shapeOK p x hshape]; decide), hc p x bytes hD hcodec]



/-! ### representability, refusal -/

theorem kind_int_iff (d : DType) : (d.kind = "b" ∨ d.kind = "u" ∨ d.kind = "i") ↔ d.isInt = true := by
  cases d <;> simp [DType.kind, DType.isInt]

theorem kind_signed_iff (d : DType) : d.kind = "i" ↔ d.signed = true := by
  cases d <;> simp [DType.kind, DType.signed]

theorem ndim_three_iff (x : Frame) : ((x.ndim : Int) > 2) ↔ x.ndim = 3 := by
  unfold Frame.ndim; cases x.samples <;> simp

/-- accepted (by any syntax but RLE, whose checks are pydicom's) ⇒ representable -/
theorem representable_of_accepted (p : Params) (x : Frame) (r : Int) (h : encodeRoute p x = .ok r)
    (hrle : p.ts ≠ rle) (hal : p.bitsAllocated = 1 ∨ p.bitsAllocated % 8 = 0) : Representable p x := by
  have hs := route_sound (Req.of p x) r (by rw [← encodeRoute_eq]; exact h)
  obtain ⟨⟨hshape, hplanar, hpr, hpi, hbs1, hbs2⟩, hcases⟩ := hs
  have hspp := Req.of_spp p x
  have hk := kind_int_iff x.dtype
  have hsg := kind_signed_iff x.dtype
  have hnd := ndim_three_iff x
  simp only [Req.of] at hplanar hpr hpi hbs1 hbs2
  simp only [NativeOK, BaselineOK, RleOK, JpegFamilyOK, hspp] at hcases
  simp only [Req.of] at hcases
  have hsamp : x.spp = 1 ∨ x.spp = 3 := by
    rcases hcases with h | h | h | h
    · rcases h.2.1 with h1 | h1 <;> omega
    · rcases h.2.2.2.2.1 with h1 | h1 <;> omega
    · exact absurd h.1 hrle
    · rcases h.2.2.1 with h1 | h1 <;> omega
  have hnat : p.ts ∈ nativeSyntaxes → (p.ts = "1.2.840.10008.1.2" ∨ p.ts = "1.2.840.10008.1.2.1") := by
    intro h; simpa [nativeSyntaxes] using h
  constructor
  · exact hsamp
  · intro h1
    unfold monochromePIs
    simp only [monoPI, requiredPI, jpegBaseline, rle, jpegLs, jpegLsNear, j2k, j2kLossless] at hcases hrle
    grind
  · intro h3
    unfold monochromePIs
    simp only [monoPI, requiredPI, jpegBaseline, rle, jpegLs, jpegLsNear, j2k, j2kLossless] at hcases hrle
    grind
  · intro h3
    exact hplanar (hnd.mpr h3)
  · exact ⟨hbs1, hbs2⟩
  · exact hal
  · exact hpr
  · intro hn hba
    have := hnat hn
    simp only [monoPI, requiredPI, jpegBaseline, rle, jpegLs, jpegLsNear, j2k, j2kLossless] at hcases hrle
    grind
  · intro hn hba
    have := hnat hn
    simp only [monoPI, requiredPI, jpegBaseline, rle, jpegLs, jpegLsNear, j2k, j2kLossless] at hcases hrle
    have key : ((x.rows : Int) * (x.cols : Int) * (x.spp : Int)) % 8 = 0 := by grind
    have e : ((x.rows : Int) * (x.cols : Int) * (x.spp : Int)) = ((x.rows * x.cols * x.spp : Nat) : Int) := by push_cast; rfl
    rw [e] at key
    exact_mod_cast key
  · intro hn hba hlt
    have := hnat hn
    simp only [monoPI, requiredPI, jpegBaseline, rle, jpegLs, jpegLsNear, j2k, j2kLossless] at hcases hrle
    grind

/-- a bits-allocated value other than 1, 8, 16, 32, 64 cannot be decoded (pydicom refuses the data set) -/
theorem pydicomNative_refuses_allocated (conv : List Int → List Int) (p : Params) (rows cols samples : Nat) (bytes : List Nat)
    (h : p.bitsAllocated ≠ 1 ∧ p.bitsAllocated ≠ 8 ∧ p.bitsAllocated ≠ 16 ∧ p.bitsAllocated ≠ 32 ∧ p.bitsAllocated ≠ 64) :
    pydicomNative conv p rows cols samples bytes = .error .value := by
  unfold pydicomNative decodedDType
  simp [h.1, h.2.1, h.2.2.1, h.2.2.2.1, h.2.2.2.2, bind, Except.bind]

/-- refused exactly when no route satisfies the specification -/
theorem refused_iff (p : Params) (x : Frame) :
    (∃ e, encodeRoute p x = .error e) ↔ ¬ ∃ r, AcceptSpec (Req.of p x) r := by
  constructor
  · rintro ⟨e, he⟩ ⟨r, hs⟩
    have := route_complete (Req.of p x) r hs
    rw [← encodeRoute_eq, he] at this; cases this
  · intro hn
    cases hr : encodeRoute p x with
    | error e => exact ⟨e, rfl⟩
    | ok r => exact absurd ⟨r, route_sound (Req.of p x) r (by rw [← encodeRoute_eq]; exact hr)⟩ hn

/-- a refused request yields no bytes at all -/
theorem encodeFrame_refused (c : CodecImpl) (p : Params) (x : Frame) (e : ErrKind) (h : encodeRoute p x = .error e) :
    encodeFrame c p x = .error e := by
  unfold encodeRoute at h
  unfold encodeFrame
  cases hv : encodeRouteFull p x with
  | ok v => rw [hv] at h; cases h
  | error e' =>
    rw [hv] at h
    have : e' = e := by injection h
    subst this; rfl

end HdVerif.Codec
