import HdVerif.Model.Codec
import HdVerif.Proofs.Bits
import HdVerif.Proofs.RatFloor
/-! Helper lemmas for C07.

1. `encodeFrameRoute` (translated from `encode_frame`) accepts exactly `AcceptSpec` -- both directions,
   for all inputs.  The translated definition is a flat chain `if pc₁ then t₁ else if pc₂ then t₂ …` over
   `let`-bound atoms; the chain is peeled one terminal at a time (`peel_chain`), every leaf is closed by
   propositional reasoning over the atoms followed by `grind` over their definitions.
2. little-endian cells and two's complement round-trip; bit packing round-trips. -/
namespace HdVerif.Codec
open HdVerif HdVerif.Bits HdVerif.Gen

/-! ### peeling translated chains -/

theorem peel_err {α : Type} {c : Prop} [Decidable c] {e : ErrKind} {rest : Except ErrKind α} {r : α}
    (h : (if c then Except.error e else rest) = Except.ok r) : ¬ c ∧ rest = Except.ok r := by
  by_cases hc : c
  · rw [if_pos hc] at h; cases h
  · rw [if_neg hc] at h; exact ⟨hc, h⟩

theorem peel_ok {α : Type} {c : Prop} [Decidable c] {v : α} {rest : Except ErrKind α} {r : α}
    (h : (if c then Except.ok v else rest) = Except.ok r) : (c ∧ v = r) ∨ (¬ c ∧ rest = Except.ok r) := by
  by_cases hc : c
  · rw [if_pos hc] at h; exact Or.inl ⟨hc, Except.ok.inj h⟩
  · rw [if_neg hc] at h; exact Or.inr ⟨hc, h⟩

theorem peel_err' {α : Type} {c : Prop} [Decidable c] {e' e : ErrKind} {rest : Except ErrKind α}
    (h : (if c then Except.error e' else rest) = Except.error e) : c ∨ (¬ c ∧ rest = Except.error e) := by
  by_cases hc : c
  · exact Or.inl hc
  · rw [if_neg hc] at h; exact Or.inr ⟨hc, h⟩

theorem peel_ok' {α : Type} {c : Prop} [Decidable c] {v : α} {e : ErrKind} {rest : Except ErrKind α}
    (h : (if c then Except.ok v else rest) = Except.error e) : ¬ c ∧ rest = Except.error e := by
  by_cases hc : c
  · rw [if_pos hc] at h; cases h
  · rw [if_neg hc] at h; exact ⟨hc, h⟩

/-- `h : chain = .ok r`: walk down the chain; at every `.ok v` terminal run `tac` with `hc : pc`,
    `hv : v = r` and the negated path conditions of all earlier terminals in context. -/
macro "peel_chain " h:ident hc:ident hv:ident " => " tac:tacticSeq : tactic => `(tactic|
  (repeat (first
     | (replace $h := peel_err $h
        have hneg := ($h).1
        replace $h := ($h).2)
     | (replace $h := peel_ok $h
        rcases $h:ident with ⟨$hc:ident, $hv:ident⟩ | ⟨hneg, $h:ident⟩
        · ($tac)))
   first | (exfalso; cases $h:ident; done) | skip))

/-- `h : chain = .error e`: the same for the refusing terminals (`hc : pc`). -/
macro "peel_chain_err " h:ident hc:ident " => " tac:tacticSeq : tactic => `(tactic|
  (repeat (first
     | (replace $h := peel_ok' $h
        have hneg := ($h).1
        replace $h := ($h).2)
     | (replace $h := peel_err' $h
        rcases $h:ident with $hc:ident | ⟨hneg, $h:ident⟩
        · ($tac)))))

/-- close a leaf: (1) a copy of the leaf's own path condition as propositions over the inputs,
    (2) the earlier (negated) path conditions simplified with the truth values the leaf fixes,
    (3) atoms -> propositions, specification unfolded, case split on `ndim > 2`, `grind`. -/
macro "close_leaf " nd:term:max hc:ident : tactic => `(tactic|
  first
  | (exfalso; simp only [Bool.and_eq_true, Bool.not_eq_true'] at $hc:ident; grind)
  | (
   have hcU := $hc
   try simp +zetaDelta only [Bool.not_eq_true', Bool.not_eq_false', Bool.or_eq_true, Bool.or_eq_false_iff,
     Bool.and_eq_true, Bool.and_eq_false_imp, beq_iff_eq, bne_iff_ne, beq_eq_false_iff_ne, bne_eq_false_iff_eq,
     decide_eq_true_eq, decide_eq_false_iff_not, fmod_pos _ 8 (by omega), Bool.not_not, Bool.beq_eq_decide_eq,
     decide_eq_decide, Bool.not_eq_true, Bool.not_eq_false] at hcU
   try simp only [Bool.and_eq_true, Bool.not_eq_true', Bool.not_eq_true, not_and] at *
   try simp only [$hc:ident, eq_self, Bool.true_eq_false, Bool.false_eq_true, and_true, true_and, and_false, false_and,
     true_implies, false_implies, implies_true, not_true_eq_false, not_false_eq_true, and_self] at *
   try simp +zetaDelta only [Bool.not_eq_true', Bool.not_eq_false', Bool.or_eq_true, Bool.or_eq_false_iff,
     Bool.and_eq_true, Bool.and_eq_false_imp, beq_iff_eq, bne_iff_ne, beq_eq_false_iff_ne, bne_eq_false_iff_eq,
     decide_eq_true_eq, decide_eq_false_iff_not, fmod_pos _ 8 (by omega), Bool.not_not, Bool.beq_eq_decide_eq,
     decide_eq_decide, Bool.not_eq_true, Bool.not_eq_false] at *
   try simp only [AcceptSpec, Common, NativeOK, BaselineOK, RleOK, JpegFamilyOK, Req.spp, monoPI, knownPI, requiredPI,
     jpegBaseline, rle, jpegLs, jpegLsNear, j2k, j2kLossless] at *
   by_cases hnd : $nd > 2 <;>
     try simp only [hnd, if_true, if_false, Int.mul_one, not_true_eq_false, not_false_eq_true, true_and, false_and,
       true_implies, false_implies, and_true] at * <;> grind (splits := 60)))

set_option maxRecDepth 8000

/-! ### `encode_frame` accepts exactly `AcceptSpec` -/

theorem route_sound_none (ts : String) (ba bs : Int) (pi : String) (pr : Int) (s0 s1 s2 nd : Int) (k : String)
    (isz : Int) (nm : String) (mx : Int) (r : Int)
    (h : encodeFrameRoute ts ba bs pi pr none s0 s1 s2 nd k isz nm mx = .ok r) :
    AcceptSpec ⟨ts, ba, bs, pi, pr, none, s0, s1, s2, nd, k, isz, nm, mx⟩ r := by
  unfold encodeFrameRoute at h
  simp -zeta only [] at h
  extract_lets at h
  peel_chain h hc hv =>
    subst hv
    close_leaf nd hc

theorem route_sound_some (ts : String) (ba bs : Int) (pi : String) (pr pc : Int) (s0 s1 s2 nd : Int) (k : String)
    (isz : Int) (nm : String) (mx : Int) (r : Int)
    (h : encodeFrameRoute ts ba bs pi pr (some pc) s0 s1 s2 nd k isz nm mx = .ok r) :
    AcceptSpec ⟨ts, ba, bs, pi, pr, some pc, s0, s1, s2, nd, k, isz, nm, mx⟩ r := by
  unfold encodeFrameRoute at h
  simp -zeta only [] at h
  extract_lets at h
  peel_chain h hc hv =>
    subst hv
    close_leaf nd hc

theorem route_sound (q : Req) (r : Int) (h : q.route = .ok r) : AcceptSpec q r := by
  obtain ⟨ts, ba, bs, pi, pr, planar, s0, s1, s2, nd, k, isz, nm, mx⟩ := q
  cases planar with
  | none => exact route_sound_none _ _ _ _ _ _ _ _ _ _ _ _ _ _ h
  | some pc => exact route_sound_some _ _ _ _ _ _ _ _ _ _ _ _ _ _ _ h

/-! the converse: a request satisfying `AcceptSpec` is never refused -/

/-- the fall-through terminal of a chain (`.error .other` after all path conditions failed) -/
macro "close_fallthrough " nd:term:max : tactic => `(tactic|
  (try simp only [Bool.and_eq_true, Bool.not_eq_true', Bool.not_eq_true, not_and] at *
   try simp +zetaDelta only [Bool.not_eq_true', Bool.not_eq_false', Bool.or_eq_true, Bool.or_eq_false_iff,
     Bool.and_eq_true, Bool.and_eq_false_imp, beq_iff_eq, bne_iff_ne, beq_eq_false_iff_ne, bne_eq_false_iff_eq,
     decide_eq_true_eq, decide_eq_false_iff_not, fmod_pos _ 8 (by omega), Bool.not_not, Bool.beq_eq_decide_eq,
     decide_eq_decide, Bool.not_eq_true, Bool.not_eq_false] at *
   try simp only [AcceptSpec, Common, NativeOK, BaselineOK, RleOK, JpegFamilyOK, Req.spp, monoPI, knownPI, requiredPI,
     jpegBaseline, rle, jpegLs, jpegLsNear, j2k, j2kLossless] at *
   by_cases hnd : $nd > 2 <;>
     simp only [hnd, if_true, if_false, Int.mul_one, not_true_eq_false, not_false_eq_true, true_and, false_and,
       true_implies, false_implies, and_true] at * <;> grind (splits := 60)))

theorem route_not_refused_none (ts : String) (ba bs : Int) (pi : String) (pr : Int) (s0 s1 s2 nd : Int) (k : String)
    (isz : Int) (nm : String) (mx : Int) (r : Int) (e : ErrKind)
    (hs : AcceptSpec ⟨ts, ba, bs, pi, pr, none, s0, s1, s2, nd, k, isz, nm, mx⟩ r)
    (h : encodeFrameRoute ts ba bs pi pr none s0 s1 s2 nd k isz nm mx = .error e) : False := by
  unfold encodeFrameRoute at h
  simp -zeta only [] at h
  extract_lets at h
  peel_chain_err h hc =>
    close_leaf nd hc
  close_fallthrough nd

theorem route_not_refused_some (ts : String) (ba bs : Int) (pi : String) (pr pc : Int) (s0 s1 s2 nd : Int) (k : String)
    (isz : Int) (nm : String) (mx : Int) (r : Int) (e : ErrKind)
    (hs : AcceptSpec ⟨ts, ba, bs, pi, pr, some pc, s0, s1, s2, nd, k, isz, nm, mx⟩ r)
    (h : encodeFrameRoute ts ba bs pi pr (some pc) s0 s1 s2 nd k isz nm mx = .error e) : False := by
  unfold encodeFrameRoute at h
  simp -zeta only [] at h
  extract_lets at h
  peel_chain_err h hc =>
    close_leaf nd hc
  close_fallthrough nd


/-- the specification determines the route -/
theorem acceptSpec_functional (q : Req) (r r' : Int) (h : AcceptSpec q r) (h' : AcceptSpec q r') : r = r' := by
  obtain ⟨ts, ba, bs, pi, pr, planar, s0, s1, s2, nd, k, isz, nm, mx⟩ := q
  simp only [AcceptSpec, Common, NativeOK, BaselineOK, RleOK, JpegFamilyOK, Req.spp, monoPI, knownPI, requiredPI,
     jpegBaseline, rle, jpegLs, jpegLsNear, j2k, j2kLossless] at *
  grind (splits := 60)

theorem route_complete (q : Req) (r : Int) (hs : AcceptSpec q r) : q.route = .ok r := by
  cases hr : q.route with
  | ok r' => rw [acceptSpec_functional q r r' hs (route_sound q r' hr)]
  | error e =>
    exfalso
    obtain ⟨ts, ba, bs, pi, pr, planar, s0, s1, s2, nd, k, isz, nm, mx⟩ := q
    cases planar with
    | none => exact route_not_refused_none _ _ _ _ _ _ _ _ _ _ _ _ _ _ _ hs hr
    | some pc => exact route_not_refused_some _ _ _ _ _ _ _ _ _ _ _ _ _ _ _ _ hs hr

/-- **`encode_frame` accepts exactly the specified requests, and routes them as specified.** -/
theorem route_iff (q : Req) (r : Int) : q.route = .ok r ↔ AcceptSpec q r :=
  ⟨route_sound q r, route_complete q r⟩

end HdVerif.Codec
