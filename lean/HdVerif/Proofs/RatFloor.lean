import HdVerif.Model.Basic
import Mathlib.Tactic.Linarith
import Mathlib.Tactic.FieldSimp
import Mathlib.Tactic.Ring
import Mathlib.Tactic.Push
/-! Floor / ceiling of integer quotients over `Rat`, and Python's floor division on `Int`.
These connect what the translator emits *faithfully* (`Rat.floor (a / b)`, `Int.fdiv`) with the
integer arithmetic `omega` understands. -/
namespace HdVerif

theorem fdiv_pos (a b : Int) (hb : 0 < b) : Int.fdiv a b = a / b :=
  Int.fdiv_eq_ediv_of_nonneg a (Int.le_of_lt hb)

theorem fmod_pos (a b : Int) (hb : 0 < b) : Int.fmod a b = a % b :=
  Int.fmod_eq_emod_of_nonneg a (Int.le_of_lt hb)

theorem rat_floor_eq (x : Rat) (z : Int) (h1 : (z : Rat) ≤ x) (h2 : x < (z : Rat) + 1) : Rat.floor x = z := by
  apply Int.le_antisymm
  · have : x.floor < z + 1 := by
      rw [Rat.floor_lt_iff]; push_cast; exact h2
    omega
  · exact Rat.le_floor_iff.mpr h1

/-- `⌊k / d⌋ = k / d` (Euclidean = floor division for positive `d`) -/
theorem rat_floor_div (k d : Int) (hd : 0 < d) : Rat.floor ((k : Rat) / (d : Rat)) = k / d := by
  have hdq : (0 : Rat) < (d : Rat) := by exact_mod_cast hd
  have h1 : d * (k / d) ≤ k := Int.mul_ediv_self_le (Int.ne_of_gt hd)
  have h2 : k < d * (k / d) + d := Int.lt_mul_ediv_self_add hd
  apply rat_floor_eq
  · rw [le_div_iff₀ hdq]
    have : ((k / d : Int) : Rat) * (d : Rat) = ((d * (k / d) : Int) : Rat) := by push_cast; ring
    rw [this]; exact_mod_cast h1
  · rw [div_lt_iff₀ hdq]
    have : (((k / d : Int) : Rat) + 1) * (d : Rat) = ((d * (k / d) + d : Int) : Rat) := by push_cast; ring
    rw [this]; exact_mod_cast h2

/-- fractional part of `k/d` times `d` is `k mod d` -/
theorem rat_frac_mul (k d : Int) (hd : 0 < d) :
    ((k : Rat) / (d : Rat) - ((Rat.floor ((k : Rat) / (d : Rat)) : Int) : Rat)) * (d : Rat) = ((k % d : Int) : Rat) := by
  rw [rat_floor_div k d hd]
  have hdq : (d : Rat) ≠ 0 := by exact_mod_cast (Int.ne_of_gt hd)
  have : (k % d : Int) = k - d * (k / d) := by
    have := Int.emod_add_mul_ediv k d; omega
  rw [this]; push_cast; field_simp

theorem rat_ceil_intCast (a : Int) : Rat.ceil (a : Rat) = a := Rat.ceil_intCast a
theorem rat_floor_intCast (a : Int) : Rat.floor (a : Rat) = a := Rat.floor_intCast a

end HdVerif
