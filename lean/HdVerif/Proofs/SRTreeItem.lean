import HdVerif.Proofs.SRTree
import HdVerif.Proofs.SREvidence
/-! The two views of a content tree: `SRTree.Node` (every attribute, values opaque) and `SREvidence.Item` (value type, name,
relationship, reference).  `toItem` is the view of a data set tree that the decision core `buildSR` looks at for its
conversion step; whatever the tree model accepts, the conversion step of the document model accepts. -/
namespace HdVerif.SRTree
open HdVerif HdVerif.SREvidence HdVerif.SREvidenceLemmas

mutual
/-- the `Item` view of a tree of data sets (ids and references are not part of the view) -/
def toItem : Node → Item
  | .mk a hs ch =>
    .mk 0 ((a.lookup "ValueType").getD "") ((a.lookup "ConceptNameCodeSequence").getD Gen.srDefaultName)
      (a.lookup "RelationshipType") none hs (toItemList ch)
def toItemList : List Node → List Item
  | [] => []
  | x :: xs => toItem x :: toItemList xs
end

theorem mem_toItemList : ∀ (l : List Node) (it : Item), it ∈ toItemList l → ∃ x ∈ l, it = toItem x
  | [], it, h => by unfold toItemList at h; cases h
  | y :: ys, it, h => by
    unfold toItemList at h
    rcases List.mem_cons.mp h with h | h
    · exact ⟨y, by simp, h⟩
    · obtain ⟨x, hx, he⟩ := mem_toItemList ys it h
      exact ⟨x, List.mem_cons_of_mem _ hx, he⟩

theorem toItem_hasSeq (n : Node) : (toItem n).hasSeq = n.hasSeq := by
  obtain ⟨a, hs, ch⟩ := n
  unfold toItem
  rfl

theorem toItem_children (n : Node) : (toItem n).children = toItemList n.children := by
  obtain ⟨a, hs, ch⟩ := n
  unfold toItem
  rfl

/-- every item below the `Item` view is the view of a data set reachable in the tree -/
theorem below_toItem {r it : Item} (h : Below r it) : ∀ n : Node, r = toItem n → ∃ x, Reach n x ∧ it = toItem x := by
  induction h with
  | child hs hc =>
    intro n hn
    subst hn
    rw [toItem_hasSeq] at hs
    rw [toItem_children] at hc
    obtain ⟨x, hx, he⟩ := mem_toItemList _ _ hc
    obtain ⟨a, hs', ch⟩ := n
    simp only [Node.hasSeq] at hs
    subst hs
    exact ⟨x, Reach.child hx, he⟩
  | deeper hs hc _ ih =>
    intro n hn
    subst hn
    rw [toItem_hasSeq] at hs
    rw [toItem_children] at hc
    obtain ⟨y, hy, he⟩ := mem_toItemList _ _ hc
    obtain ⟨x, hx, hex⟩ := ih y he
    obtain ⟨a, hs', ch⟩ := n
    simp only [Node.hasSeq] at hs
    subst hs
    exact ⟨x, Reach.deeper hy hx, hex⟩

theorem toItem_vt_rel (x : Node) (r : Bool) (h : NodeOk r x.attrs) :
    Gen.srValueTypes.contains (toItem x).vt = true ∧ (r = false → (toItem x).rel.isSome = true) := by
  obtain ⟨a, hs, ch⟩ := x
  obtain ⟨vt, cls, req, hvt, hmem, hrel, _⟩ := h
  simp only [Node.attrs] at hvt hrel
  unfold toItem
  simp only [Item.vt, Item.rel, hvt, Option.getD_some]
  refine ⟨hmem, ?_⟩
  intro hr
  rcases hrel with h | h
  · rw [hr] at h; cases h
  · exact h

/-- **Refinement**: a tree the tree model accepts passes the conversion step of the document model (`convertTree`, the part
of `accepted_iff` that speaks about the shape of the tree), has a root without relationship type and of value type CONTAINER -/
theorem convertRoot_refines (n : Node) (h : ∃ n', convertRoot n = .ok n') :
    convertTree (toItem n) = .ok () ∧ (toItem n).rel = none ∧ (toItem n).vt = "CONTAINER" := by
  obtain ⟨hwf, hrel, hvt⟩ := (convertRoot_ok_iff n).mp h
  refine ⟨(convertTree_ok_iff _).mpr ⟨?_, ?_⟩, ?_, ?_⟩
  · exact (toItem_vt_rel n true (wellFormed_attrs true n hwf)).1
  · intro it hit
    obtain ⟨x, hx, he⟩ := below_toItem ((mem_descendants_iff _ _).mp hit) n rfl
    subst he
    have := toItem_vt_rel x false (wellFormed_reach hx true hwf)
    exact ⟨this.1, this.2 rfl⟩
  · obtain ⟨a, hs, ch⟩ := n
    simp only [Node.attrs] at hrel
    unfold toItem
    simp only [Item.rel]
    unfold has at hrel
    cases hl : a.lookup "RelationshipType" with
    | none => rfl
    | some v => simp [hl] at hrel
  · obtain ⟨a, hs, ch⟩ := n
    simp only [Node.attrs] at hvt
    unfold toItem
    simp only [Item.vt, hvt, Option.getD_some]

end HdVerif.SRTree
