import HdVerif.Proofs.AffineTie
import HdVerif.Generated.TC10g
set_option linter.unusedSimpArgs false
/-! Bridge for `create_affine_matrix_from_attributes` (target TC10g): its argument-length checks, the index directions it refuses and
the arguments of its `create_rotation_matrix` call are regenerated; the hand-written `affineFromAttributes` equals the twin built
from them. -/
namespace HdVerif.Affine

def needLen (k : String) : Nat := (Gen.affineArgumentLengths.lookup k).getD 0

/-- `create_affine_matrix_from_attributes` assembled from the regenerated pieces -/
def affineFromAttributesSrc (pos : List Rat) (ori : List Rat) (ps : Spacing) (sbs : Rat)
    (conv : List Char) (slicesFirst rightHanded : Bool) : Except ErrKind Aff := do
  let p ← (if pos.length = needLen "image_position" then
      (match V3.ofList pos with | some p => pure p | none => .error .value) else .error .value : Except ErrKind V3)
  let o ← (if ori.length = needLen "image_orientation" then
      (match Ori.ofList ori with | some o => pure o | none => .error .value) else .error .value : Except ErrKind Ori)
  match ps with
  | .scalar _ => .error .type
  | .seq l =>
    if l.length ≠ needLen "pixel_spacing" then .error .value
    else do
      let cv ← normConvention conv
      if Gen.affineRefusedDirections.any (fun d => cv.1 = d || cv.2 = d) then .error .value
      else do
        let c := Gen.affineRotationCall pos o ps sbs [cv.1, cv.2] slicesFirst rightHanded
        let r ← createRotation c.1 (c.2.1.getD Gen.rotationDefaultConvention) (c.2.2.1.getD Gen.rotationDefaultSlicesFirst)
          (c.2.2.2.1.getD Gen.rotationDefaultRightHanded) (c.2.2.2.2.1.getD (.scalar Gen.rotationDefaultPixelSpacing))
          (c.2.2.2.2.2.getD Gen.rotationDefaultSpacingBetweenSlices)
        pure ⟨r, p⟩

theorem ofList_len3 (pos : List Rat) :
    (if pos.length = 3 then (match V3.ofList pos with | some p => pure p | none => .error .value) else .error .value : Except ErrKind V3)
      = (match V3.ofList pos with | some p => pure p | none => .error .value) := by
  rcases pos with _ | ⟨a, _ | ⟨b, _ | ⟨c, _ | ⟨d, t⟩⟩⟩⟩ <;> simp [V3.ofList]

theorem ofList_len6 (ori : List Rat) :
    (if ori.length = 6 then (match Ori.ofList ori with | some o => pure o | none => .error .value) else .error .value : Except ErrKind Ori)
      = (match Ori.ofList ori with | some o => pure o | none => .error .value) := by
  rcases ori with _ | ⟨a, _ | ⟨b, _ | ⟨c, _ | ⟨d, _ | ⟨e, _ | ⟨f, _ | ⟨g, t⟩⟩⟩⟩⟩⟩⟩ <;> simp [Ori.ofList]

theorem affineFromAttributes_uses_source (pos ori : List Rat) (ps : Spacing) (sbs : Rat) (conv : List Char) (sf rh : Bool) :
    affineFromAttributes pos ori ps sbs conv sf rh = affineFromAttributesSrc pos ori ps sbs conv sf rh := by
  unfold affineFromAttributes affineFromAttributesSrc
  have h3 : needLen "image_position" = 3 := by decide
  have h6 : needLen "image_orientation" = 6 := by decide
  have h2 : needLen "pixel_spacing" = 2 := by decide
  rw [h3, h6, h2, ofList_len3, ofList_len6]
  cases V3.ofList pos with
  | none => rfl
  | some p =>
  cases Ori.ofList ori with
  | none => rfl
  | some o =>
  cases ps with
  | scalar s => rfl
  | seq l =>
    simp only [bind, Except.bind, pure, Except.pure]
    by_cases hl : l.length ≠ 2
    · rw [if_pos hl, if_pos hl]
    · rw [if_neg hl, if_neg hl]
      cases hn : normConvention conv with
      | error e => rfl
      | ok cv =>
        obtain ⟨hc, _⟩ := normConvention_ok hn
        simp only [Gen.affineRefusedDirections, List.any_cons, List.any_nil, Bool.or_false, Gen.affineRotationCall,
          Option.getD_some]
        subst hc
        by_cases hr : cv.1 = 'L' ∨ cv.1 = 'U' ∨ cv.2 = 'L' ∨ cv.2 = 'U'
        · have : (decide (cv.1 = 'L') || decide (cv.2 = 'L') || (decide (cv.1 = 'U') || decide (cv.2 = 'U'))) = true := by
            rcases hr with h | h | h | h <;> simp [h]
          simp only [hr, if_true, this]
        · have : (decide (cv.1 = 'L') || decide (cv.2 = 'L') || (decide (cv.1 = 'U') || decide (cv.2 = 'U'))) = false := by
            have h1 : cv.1 ≠ 'L' := fun h => hr (Or.inl h)
            have h2 : cv.1 ≠ 'U' := fun h => hr (Or.inr (Or.inl h))
            have h3 : cv.2 ≠ 'L' := fun h => hr (Or.inr (Or.inr (Or.inl h)))
            have h4 : cv.2 ≠ 'U' := fun h => hr (Or.inr (Or.inr (Or.inr h)))
            simp [h1, h2, h3, h4]
          simp only [hr, if_false, this, Bool.false_eq_true]


/-! ## `_are_images_coplanar` calls `get_normal_vector(image_orientation_x)` only: convention and handedness are that function's defaults;
`get_closest_patient_orientation` / `create_affine_matrix_from_components` pass their own `require_unit` to `_is_matrix_orthogonal` -/

/-- `_are_images_coplanar` with the normals computed under the regenerated defaults of `get_normal_vector` -/
def areCoplanarSrc (posA : V3) (oriA : Ori) (posB : V3) (oriB : Ori) : Except ErrKind Bool := do
  let cv ← normConvention Gen.normalDefaultConvention
  let na ← normalVector oriA cv Gen.normalDefaultRightHanded
  let nb ← normalVector oriB cv Gen.normalDefaultRightHanded
  if 1 - rabs (na.dot nb) > eqTol then pure false
  else
    let dist := fun (spec : Bool × Char × Char) =>
      let d := (if spec.2.1 = 'a' then posA else posB).dot (if spec.2.2 = 'a' then na else nb)
      if spec.1 then rabs d else d
    pure (decide (rabs (dist Gen.coplanarDistance.1 - dist Gen.coplanarDistance.2) < eqTol))

theorem areCoplanar_uses_source (posA : V3) (oriA : Ori) (posB : V3) (oriB : Ori) :
    areCoplanar posA oriA posB oriB = areCoplanarSrc posA oriA posB oriB := by
  have h : normConvention Gen.normalDefaultConvention = .ok ('R', 'D') := by decide
  simp only [areCoplanar, areCoplanarSrc, h, Gen.normalDefaultRightHanded, bind, Except.bind]

/-- `get_closest_patient_orientation` with the `require_unit` it passes (none = the regenerated default of `_is_matrix_orthogonal`) -/
def closestOrientationSrc (m : M3) : Except ErrKind (List Char) :=
  if !isOrthogonal m (Gen.closestRequireUnit.getD Gen.orthogonalDefaultRequireUnit) then .error .value
  else do
    let i0 := chooseAxis m.c0 []
    let i1 := chooseAxis m.c1 [i0]
    let i2 := chooseAxis m.c2 [i0, i1]
    let l0 ← letterFor m.c0 i0
    let l1 ← letterFor m.c1 i1
    let l2 ← letterFor m.c2 i2
    pure [l0, l1, l2]

theorem closestOrientation_uses_source (m : M3) : closestOrientation m = closestOrientationSrc m := rfl

/-- the direction matrix of `create_affine_matrix_from_components` is tested WITH `require_unit` (the flag the model's
`affineFromComponents` hard-codes) -/
theorem components_require_unit : Gen.componentsRequireUnit.getD Gen.orthogonalDefaultRequireUnit = true := rfl


/-! ## `_transform_affine_to_convention`: which convention each rule runs over -/

def pickConv (c : Char) (f t : List Char) : List Char := if c = 'f' then f else t

/-- `conventionPlan` assembled from the regenerated rules: the flip flags run over (iterated) and test membership in (tested); the
permutation has one entry per letter of (iterated), looked up - itself or its opposite - in (searched) -/
def conventionPlanSrc (fromC toC : List Char) : Except ErrKind (List Bool × List Nat) := do
  let f ← normOrientation fromC
  let t ← normOrientation toC
  let fr := Gen.conventionFlipRule
  let flips := (pickConv fr.1 f t).map (fun d => if fr.2.2 then !(pickConv fr.2.1 f t).contains d else (pickConv fr.2.1 f t).contains d)
  let pr := Gen.conventionPermuteRule
  let perm ← (pickConv pr.1 f t).mapM (fun d => do
    if (pickConv pr.2 f t).contains d then indexOf (pickConv pr.2 f t) d
    else do
      let d' ← opposite d
      indexOf (pickConv pr.2 f t) d')
  pure (flips, perm)

theorem conventionPlan_uses_source (fromC toC : List Char) : conventionPlan fromC toC = conventionPlanSrc fromC toC := rfl

/-- `_transform_affine_matrix` negates the flagged reference rows BEFORE it permutes them (as `applyPlan` does), and
`_transform_affine_to_convention` uses only these two of its four steps -/
theorem transformOrder_flip_before_permute :
    Gen.affineTransformOrder.idxOf "flip_reference" < Gen.affineTransformOrder.idxOf "permute_reference" ∧
    Gen.affineTransformOrder.length = 4 := by decide


/-! ## `create_rotation_matrix`: which element of `pixel_spacing` is which spacing, the positivity test -/

/-- `createRotation` with the regenerated spacing rules: the pair is read at the regenerated indices (rows, columns), a scalar serves
both, and the regenerated test decides refusal -/
def createRotationSrc (o : Ori) (conv : List Char) (slicesFirst rightHanded : Bool) (ps : Spacing) (sbs : Rat) : Except ErrKind M3 := do
  let cv ← normConvention conv
  let (sr, sc) ← (match ps with
    | .scalar s => pure (s, s)
    | .seq l => if l.length = 2 then pure (l.getD Gen.rotationSpacingIndex.1 0, l.getD Gen.rotationSpacingIndex.2 0) else .error .value
    : Except ErrKind (Rat × Rat))
  if (match Gen.rotationSpacingRefused sr sc with | .ok b => b | .error _ => true) then .error .value
  else do
    let (v0, s0) ← axisOf o sr sc cv.1
    let (v1, s1) ← axisOf o sr sc cv.2
    let n := crossOrdered Gen.rotationCrossOrder rightHanded v0 v1
    if slicesFirst == Gen.slicesFirstPutsNormalFirst then .ok ⟨V3.smul sbs n, V3.smul s0 v0, V3.smul s1 v1⟩
    else .ok ⟨V3.smul s0 v0, V3.smul s1 v1, V3.smul sbs n⟩

theorem createRotation_uses_source (o : Ori) (conv : List Char) (sf rh : Bool) (ps : Spacing) (sbs : Rat) :
    createRotation o conv sf rh ps sbs = createRotationSrc o conv sf rh ps sbs := by
  unfold createRotation createRotationSrc
  cases normConvention conv with
  | error e => rfl
  | ok cv =>
    have hz : ((0 : Rat) / 1) = 0 := by norm_num
    cases ps with
    | scalar s =>
      simp only [bind, Except.bind, pure, Except.pure, Gen.rotationSpacingRefused, hz, Bool.or_eq_true, decide_eq_true_eq]
    | seq l =>
      rcases l with _ | ⟨a, _ | ⟨b, _ | ⟨c, t⟩⟩⟩
      · rfl
      · rfl
      · simp only [bind, Except.bind, pure, Except.pure, Gen.rotationSpacingRefused, Gen.rotationSpacingIndex, hz, Bool.or_eq_true,
          decide_eq_true_eq, List.length_cons, List.length_nil, if_true, List.getD_cons_zero, List.getD_cons_succ]
      · simp [bind, Except.bind]


/-! ## the two normalisers -/

/-- `_normalize_pixel_index_convention` from the regenerated rules: length, enum members, exactly one letter of each exclusive pair -/
def normConventionSrc (c : List Char) : Except ErrKind (Char × Char) :=
  if c.length ≠ Gen.conventionLength then .error .value
  else if !(c.all fun d => Gen.pixelIndexDirections.contains d) then .error .value
  else if !(Gen.conventionExclusivePairs.all fun p => c.contains p.1 != c.contains p.2) then .error .value
  else match c with
    | [a, b] => .ok (a, b)
    | _ => .error .value

theorem normConvention_uses_source (c : List Char) : normConvention c = normConventionSrc c := by
  unfold normConvention normConventionSrc
  rcases c with _ | ⟨a, _ | ⟨b, _ | ⟨d, t⟩⟩⟩
  · rfl
  · rfl
  · simp only [List.length_cons, List.length_nil, Gen.conventionLength, ne_eq, not_true_eq_false, if_false, List.all_cons, List.all_nil,
      Bool.and_true, Gen.conventionExclusivePairs]
    cases h1 : Gen.pixelIndexDirections.contains a <;> cases h2 : Gen.pixelIndexDirections.contains b <;>
      cases h3 : ([a, b].contains 'L' != [a, b].contains 'R') <;> cases h4 : ([a, b].contains 'U' != [a, b].contains 'D') <;> simp
  · simp [Gen.conventionLength]

/-- `_normalize_patient_orientation` from the regenerated rules -/
def normOrientationSrc (c : List Char) : Except ErrKind (List Char) :=
  if c.length ≠ Gen.orientationLength then .error .value
  else if !(c.all fun d => Gen.bipedValues.contains d) then .error .value
  else if !(Gen.orientationExclusivePairs.all fun p => c.contains p.1 != c.contains p.2) then .error .value
  else .ok c

theorem normOrientation_uses_source (c : List Char) : normOrientation c = normOrientationSrc c := by
  unfold normOrientation normOrientationSrc
  rcases c with _ | ⟨a, _ | ⟨b, _ | ⟨d, _ | ⟨e, t⟩⟩⟩⟩
  · rfl
  · rfl
  · rfl
  · simp only [List.length_cons, List.length_nil, Gen.orientationLength, ne_eq, not_true_eq_false, if_false, Gen.orientationExclusivePairs,
      List.all_cons, List.all_nil, Bool.and_true]
    cases h0 : ([a, b, d].all fun x => Gen.bipedValues.contains x) <;>
      cases h3 : ([a, b, d].contains 'L' != [a, b, d].contains 'R') <;> cases h4 : ([a, b, d].contains 'A' != [a, b, d].contains 'P') <;>
      cases h5 : ([a, b, d].contains 'F' != [a, b, d].contains 'H') <;> simp <;>
      (by_cases ha : a ∈ Gen.bipedValues <;> by_cases hb : b ∈ Gen.bipedValues <;> by_cases hd : d ∈ Gen.bipedValues <;> simp [ha, hb, hd])
  · simp [Gen.orientationLength]

end HdVerif.Affine
