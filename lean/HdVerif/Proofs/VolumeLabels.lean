import HdVerif.Proofs.VolumeChannels
/-! C08 (round 2): channel descriptors follow the data over whole histories (at most two channel dimensions). -/
namespace HdVerif.VolLemmas
open HdVerif HdVerif.Gen HdVerif.Vol

/-- channel bookkeeping of the property's bound: at most two channel dimensions, one descriptor entry per dimension -/
def ChanOk (v : Vol) : Prop := v.chans.length = v.cshape.length ∧ v.cshape.length ≤ 2

theorem contains_map_fst (sel : List (Nat × Nat)) (d : Nat) : (sel.map (·.1)).contains d = (sel.lookup d).isSome := by
  induction sel with
  | nil => rfl
  | cons e rest ih =>
    obtain ⟨k, x⟩ := e
    rw [List.map_cons, List.contains_cons, ih]
    simp only [List.lookup]
    by_cases h : d = k
    · subst h; simp
    · have : (d == k) = false := by simpa using h
      simp [this]

theorem getChannel_labels {v : Vol} {w : VStep} (hok : ChanOk v) (sel : List (Nat × Nat)) (keep : Bool)
    (h : getChannelV v sel keep = .ok w) :
    ChanOk w.1 ∧ ∀ c, c.length = w.1.cshape.length → (((Op.getChannel sel keep).chanSrc v c).length = v.cshape.length ∧
      ∀ l ∈ labels w.1 c, l ∈ labels v ((Op.getChannel sel keep).chanSrc v c)) := by
  obtain ⟨hl, h2⟩ := hok
  simp only [getChannelV] at h
  split at h
  · cases h
  · split at h
    · cases h
    · cases keep
      · simp only [Bool.false_eq_true, if_false, Except.ok.injEq] at h
        subst h
        simp only [Op.chanSrc, Bool.false_eq_true, if_false, labels, ChanOk, contains_map_fst]
        match hcs : v.cshape, hch : v.chans, hl, h2 with
        | [], [], _, _ =>
          simp [List.range, List.range.loop]
          simp [expandChan, expandChan.go]
        | [a], [e0], _, _ =>
          cases s0 : sel.lookup 0 <;>
            simp [List.range, List.range.loop, s0, expandChan, expandChan.go]
          all_goals (intro c hc; rcases c with _ | ⟨x, _ | ⟨y, r⟩⟩ <;> simp at hc ⊢ <;> (try subst hc) <;> (try simp [fixChan, expandChan, expandChan.go]) <;> (try grind))
        | [a, b], [e0, e1], _, _ =>
          cases s0 : sel.lookup 0 <;> cases s1 : sel.lookup 1 <;>
            simp [List.range, List.range.loop, s0, s1, expandChan, expandChan.go]
          all_goals (intro c hc; rcases c with _ | ⟨x, _ | ⟨y, r⟩⟩ <;> simp at hc ⊢ <;> (try subst hc) <;> (try simp [fixChan, expandChan, expandChan.go]) <;> (try grind))
        | [], _ :: _, hl, _ => simp at hl
        | [_], [], hl, _ => simp at hl
        | [_], _ :: _ :: _, hl, _ => simp at hl
        | [_, _], [], hl, _ => simp at hl
        | [_, _], [_], hl, _ => simp at hl
        | [_, _], _ :: _ :: _ :: _, hl, _ => simp at hl
        | _ :: _ :: _ :: _, _, _, h2 => simp at h2
      · simp only [if_true] at h
        obtain ⟨chans, hch', h⟩ := bind_ok.mp h
        simp only [pure, Except.pure, Except.ok.injEq] at h
        subst h
        simp only [Op.chanSrc, if_true, labels, ChanOk]
        match hcs : v.cshape, hch : v.chans, hl, h2 with
        | [], [], _, _ =>
          simp only [hch, keepChans, Except.ok.injEq] at hch'
          subst hch'
          simp [keepShape]
          simp [fixChan]
        | [a], [e0], _, _ =>
          simp only [hch, keepChans] at hch'
          cases s0 : sel.lookup 0 with
          | none =>
            simp only [s0, bind, Except.bind, pure, Except.pure, Except.ok.injEq] at hch'
            subst hch'
            simp [keepShape, s0]
            intro c hc; rcases c with _ | ⟨x, _ | ⟨y, r⟩⟩ <;> simp [fixChan, s0] at hc ⊢ <;> (try subst hc) <;> (try simp [fixChan, expandChan, expandChan.go]) <;> (try grind)
          | some k =>
            cases hx : e0.2[k]? with
            | none => simp [s0, hx, bind, Except.bind] at hch'
            | some x =>
              simp only [s0, hx, bind, Except.bind, pure, Except.pure, Except.ok.injEq] at hch'
              subst hch'
              simp [keepShape, s0]
              intro c hc; rcases c with _ | ⟨x, _ | ⟨y, r⟩⟩ <;> simp [fixChan, s0] at hc ⊢ <;> (try subst hc) <;> (try simp [fixChan, expandChan, expandChan.go]) <;> (try grind)
        | [a, b], [e0, e1], _, _ =>
          simp only [hch, keepChans] at hch'
          cases s0 : sel.lookup 0 <;> cases s1 : sel.lookup 1 <;>
            simp only [s0, s1, Nat.zero_add, bind, Except.bind, pure, Except.pure] at hch'
          · simp only [Except.ok.injEq] at hch'
            subst hch'
            simp [keepShape, s0, s1]
            intro c hc; rcases c with _ | ⟨x, _ | ⟨y, r⟩⟩ <;> simp [fixChan, s0, s1] at hc ⊢ <;> (try subst hc) <;> (try simp [fixChan, expandChan, expandChan.go]) <;> (try grind)
          · rename_i k1
            cases hx : e1.2[k1]? with
            | none => simp [hx] at hch'
            | some x1 =>
              simp only [hx, Except.ok.injEq] at hch'
              subst hch'
              simp [keepShape, s0, s1]
              intro c hc; rcases c with _ | ⟨x, _ | ⟨y, r⟩⟩ <;> simp [fixChan, s0, s1] at hc ⊢ <;> (try subst hc) <;> (try simp [fixChan, expandChan, expandChan.go]) <;> (try grind)
          · rename_i k0
            cases hx : e0.2[k0]? with
            | none => simp [hx] at hch'
            | some x0 =>
              simp only [hx, Except.ok.injEq] at hch'
              subst hch'
              simp [keepShape, s0, s1]
              intro c hc; rcases c with _ | ⟨x, _ | ⟨y, r⟩⟩ <;> simp [fixChan, s0, s1] at hc ⊢ <;> (try subst hc) <;> (try simp [fixChan, expandChan, expandChan.go]) <;> (try grind)
          · rename_i k0 k1
            cases hx : e0.2[k0]? with
            | none => simp [hx] at hch'
            | some x0 =>
              cases hy : e1.2[k1]? with
              | none => simp [hx, hy] at hch'
              | some x1 =>
                simp only [hx, hy, Except.ok.injEq] at hch'
                subst hch'
                simp [keepShape, s0, s1]
                intro c hc; rcases c with _ | ⟨x, _ | ⟨y, r⟩⟩ <;> simp [fixChan, s0, s1] at hc ⊢ <;> (try subst hc) <;> (try simp [fixChan, expandChan, expandChan.go]) <;> (try grind)
        | [], _ :: _, hl, _ => simp at hl
        | [_], [], hl, _ => simp at hl
        | [_], _ :: _ :: _, hl, _ => simp at hl
        | [_, _], [], hl, _ => simp at hl
        | [_, _], [_], hl, _ => simp at hl
        | [_, _], _ :: _ :: _ :: _, hl, _ => simp at hl
        | _ :: _ :: _ :: _, _, _, h2 => simp at h2

theorem permuteChannels_labels {v : Vol} {w : VStep} (hok : ChanOk v) (p : List Int)
    (h : permuteChannelsV v p = .ok w) :
    ChanOk w.1 ∧ ∀ c, c.length = w.1.cshape.length → (((Op.permuteChannels p).chanSrc v c).length = v.cshape.length ∧
      ∀ l ∈ labels w.1 c, l ∈ labels v ((Op.permuteChannels p).chanSrc v c)) := by
  obtain ⟨hl, h2⟩ := hok
  simp only [permuteChannelsV] at h
  split at h
  · cases h
  · rename_i hv
    simp only [Bool.or_eq_true, Bool.not_eq_true', not_or, Bool.not_eq_false, ne_eq, decide_eq_true_eq, not_not,
      bne_iff_ne] at hv
    obtain ⟨hlen, hall⟩ := hv
    simp only [Except.ok.injEq] at h
    subst h
    simp only [Op.chanSrc, labels, ChanOk]
    match hcs : v.cshape, hch : v.chans, hl, h2 with
    | [], [], _, _ =>
      have : p = [] := by simpa [hcs] using hlen
      subst this
      simp
      simp [permChan, List.range, List.range.loop]
    | [a], [e0], _, _ =>
      have hl1 : p.length = 1 := by simpa [hcs] using hlen
      have h0 : p.contains (0 : Int) = true := by
        simp only [hcs, List.length_cons, List.length_nil, List.all_eq_true, List.mem_range] at hall
        simpa using hall 0 (by decide)
      match p, hl1 with
      | [q], _ =>
        have : q = 0 := by simpa [eq_comm] using h0
        subst this
        simp [permChan, findIdx, findIdx.go, List.range, List.range.loop]
        intro c hc; rcases c with _ | ⟨x, _ | ⟨y, r⟩⟩ <;> simp at hc ⊢ <;> (try subst hc) <;> (try simp [fixChan, expandChan, expandChan.go]) <;> (try grind)
    | [a, b], [e0, e1], _, _ =>
      have hl2 : p.length = 2 := by simpa [hcs] using hlen
      have h01 : p.contains (0 : Int) = true ∧ p.contains (1 : Int) = true := by
        simp only [hcs, List.length_cons, List.length_nil, List.all_eq_true, List.mem_range] at hall
        exact ⟨by simpa using hall 0 (by decide), by simpa using hall 1 (by decide)⟩
      rcases perm2_cases hl2 h01.1 h01.2 with rfl | rfl
      · simp [permChan, findIdx, findIdx.go, List.range, List.range.loop]
        intro c hc; rcases c with _ | ⟨x, _ | ⟨y, r⟩⟩ <;> simp at hc ⊢ <;> (try subst hc) <;> (try simp [fixChan, expandChan, expandChan.go]) <;> (try grind)
      · simp [permChan, findIdx, findIdx.go, List.range, List.range.loop]
        intro c hc; rcases c with _ | ⟨x, _ | ⟨y, r⟩⟩ <;> simp at hc ⊢ <;> (try subst hc) <;> (try simp [fixChan, expandChan, expandChan.go]) <;> (try grind)
    | [], _ :: _, hl, _ => simp at hl
    | [_], [], hl, _ => simp at hl
    | [_], _ :: _ :: _, hl, _ => simp at hl
    | [_, _], [], hl, _ => simp at hl
    | [_, _], [_], hl, _ => simp at hl
    | [_, _], _ :: _ :: _ :: _, hl, _ => simp at hl
    | _ :: _ :: _ :: _, _, _, h2 => simp at h2

/-- one operation of a history (not `with_array`): the labels of every cell of the result are labels of the source cell -/
theorem apply_labels {coord : Coord} {v : Vol} {op : Op} {w : VStep} (hp : v.geom.Pos) (hok : ChanOk v)
    (hw : op.isWithArray = false) (h : op.apply coord v = .ok w) :
    ChanOk w.1 ∧ ∀ c, c.length = w.1.cshape.length → ((op.chanSrc v c).length = v.cshape.length ∧
      ∀ l ∈ labels w.1 c, l ∈ labels v (op.chanSrc v c)) := by
  cases op with
  | spatial s =>
    simp only [Op.apply] at h
    obtain ⟨_, b, _, _⟩ := applyVol_sound hp h
    refine ⟨⟨by rw [b.chans, b.cshape]; exact hok.1, by rw [b.cshape]; exact hok.2⟩, fun c hc => ⟨by rw [← b.cshape]; exact hc, ?_⟩⟩
    intro l hl
    simpa only [labels, b.chans, Op.chanSrc, id] using hl
  | getChannel sel keep => exact getChannel_labels hok sel keep h
  | permuteChannels p => exact permuteChannels_labels hok p h
  | withArray shape a isInt => simp [Op.isWithArray] at hw

/-- **descriptors follow the data over whole histories** (no `with_array`; volumes with at most two channel dimensions, the
bound of the property): every (descriptor, value) label of a final channel cell is a label of the ORIGINAL cell it shows
(`historyChanSrc`), by induction over the history -/
theorem runHistory_labels {coord : Coord} (ops : List Op) : ∀ {v : Vol} {w : VStep}, v.geom.Pos → ChanOk v →
    (∀ op ∈ ops, Op.isWithArray op = false) → runHistory coord v ops = .ok w →
    ChanOk w.1 ∧ ∀ c, c.length = w.1.cshape.length → ((historyChanSrc coord v ops c).length = v.cshape.length ∧
      ∀ l ∈ labels w.1 c, l ∈ labels v (historyChanSrc coord v ops c)) := by
  induction ops with
  | nil =>
    intro v w _ hok _ h
    simp only [runHistory, Except.ok.injEq] at h
    subst h
    exact ⟨hok, fun c hc => ⟨hc, fun l hl => hl⟩⟩
  | cons op rest ih =>
    intro v w hp hok hs h
    simp only [runHistory] at h
    obtain ⟨⟨v1, p1⟩, h1, h⟩ := bind_ok.mp h
    dsimp only at h
    obtain ⟨⟨v2, p2⟩, h2, h⟩ := bind_ok.mp h
    simp only [pure, Except.pure, Except.ok.injEq] at h
    subst h
    have a1 := apply_pos hp h1
    obtain ⟨ok1, s1⟩ := apply_labels hp hok (hs op (List.mem_cons_self ..)) h1
    obtain ⟨ok2, s2⟩ := ih a1.shape ok1 (fun o ho => hs o (List.mem_cons_of_mem _ ho)) h2
    refine ⟨ok2, fun c hc => ?_⟩
    obtain ⟨l2, m2⟩ := s2 c hc
    obtain ⟨l1, m1⟩ := s1 _ l2
    simp only [historyChanSrc, h1]
    exact ⟨l1, fun l hl => m1 l (m2 l hl)⟩

end HdVerif.VolLemmas
