import HdVerif.Proofs.SegReadOrder
import Mathlib.Data.List.Perm.Subperm
import HdVerif.Model.SegReadSpec
/-! C02: `SegRead.read` (the model of the code) refines the abstract specification of `Model/SegReadSpec.lean`. -/
namespace HdVerif.SegReadLemmas
open HdVerif HdVerif.Gen HdVerif.SegRead

/-! ### small facts -/

theorem foldl_max_acc (l : List Int) (a : Int) :
    a ≤ l.foldl max a ∧ (∀ x ∈ l, x ≤ l.foldl max a) ∧ (l.foldl max a = a ∨ l.foldl max a ∈ l) := by
  induction l generalizing a with
  | nil => simp
  | cons b t ih =>
    rw [List.foldl_cons]
    obtain ⟨h1, h2, h3⟩ := ih (max a b)
    refine ⟨by omega, ?_, ?_⟩
    · intro x hx
      rcases List.mem_cons.mp hx with rfl | hx
      · omega
      · exact h2 x hx
    · rcases h3 with h | h
      · by_cases hab : a ≤ b
        · right; rw [h]; simp [Int.max_eq_right hab]
        · left; rw [h]; omega
      · right; exact List.mem_cons_of_mem _ h

/-- two different members force a length of at least two -/
theorem two_le_length_of_mem {α} (l : List α) (a b : α) (ha : a ∈ l) (hb : b ∈ l) (hab : a ≠ b) : 2 ≤ l.length := by
  match l, ha, hb with
  | [], ha, _ => cases ha
  | [x], ha, hb =>
    simp only [List.mem_singleton] at ha hb
    exact absurd (ha.trans hb.symm) hab
  | _ :: _ :: _, _, _ => simp

/-- a list of length at least two without repeats has two different members -/
theorem two_mem_of_nodup {α} (l : List α) (hnd : l.Nodup) (h : 2 ≤ l.length) : ∃ a ∈ l, ∃ b ∈ l, a ≠ b := by
  match l, hnd, h with
  | a :: b :: t, hnd, _ =>
    refine ⟨a, by simp, b, by simp, ?_⟩
    intro hab
    have := (List.nodup_cons.mp hnd).1
    exact this (by simp [hab])

/-- `effective` only ever empties the frame list -/
theorem effective_cases (st : Stored) (mode : Mode) :
    effective st mode = st ∨ effective st mode = { st with frames := [] } := by
  unfold effective
  cases mode with
  | frame uid =>
    by_cases h : st.frameSrcs.contains uid = true
    · left; simp only [h, ↓reduceIte]
    · right; simp only [h, Bool.false_eq_true, ↓reduceIte]
  | _ => left; rfl

theorem wfLabel_noframes (st : Stored) (wf : WfLabel st) : WfLabel { st with frames := [] } :=
  { type := wf.type, bits := wf.bits, bg := wf.bg, described := (by intro f hf; cases hf), fit := wf.fit }

theorem wfStack_noframes (st : Stored) (wf : WfStack st) : WfStack { st with frames := [] } :=
  { type := wf.type, unique := (by simp [framesUnique]), range := (by intro f hf; cases hf), mfv := wf.mfv, pos := wf.pos,
    len := (by intro f hf; cases hf), bits := wf.bits }

theorem wfObj_effective (st : Stored) (mode : Mode) (wf : WfObj st) : WfObj (effective st mode) := by
  rcases effective_cases st mode with h | h <;> rw [h]
  · exact wf
  · rcases wf with ⟨w, hp, _⟩ | w
    · exact Or.inl ⟨wfLabel_noframes st w, hp, by intro f hf; cases hf⟩
    · exact Or.inr (wfStack_noframes st w)

/-! ### presence = covering (BINARY / FRACTIONAL) -/

theorem present_iff_covers (st : Stored) (hnl : st.type ≠ .labelmap) (k s i : Nat) :
    present st k s i = true ↔ covers st k s i := by
  unfold present maskPlane covers
  simp only [hnl, ↓reduceIte, decide_eq_true_eq]
  rw [List.getD_eq_getElem?_getD]
  cases h : (segPlane st k s)[i]? with
  | none => simp
  | some p => simp

theorem segPlane_length (st : Stored) (wf : WfStack st) (k s : Nat) : (segPlane st k s).length = st.npix := by
  unfold segPlane
  cases h : st.frames.find? (fun f => f.key == k && f.seg == s) with
  | none => simp
  | some f => exact wf.len f (List.mem_of_find?_eq_some h)

theorem covers_lt (st : Stored) (wf : WfStack st) (k s i : Nat) (h : covers st k s i) : i < st.npix := by
  obtain ⟨p, hp, _⟩ := h
  have := (List.getElem?_eq_some_iff.mp hp).1
  rw [segPlane_length st wf] at this
  exact this

/-- the specification's pixel value is the combined value of the property statement -/
theorem combinedSpec_isCombinedValue (st : Stored) (hnl : st.type ≠ .labelmap) (segs : List Nat) (relabel : Bool) (k i : Nat) :
    IsCombinedValue st segs relabel k i (combinedSpec st segs relabel k i) := by
  unfold combinedSpec presentAt
  obtain ⟨_, h2, h3⟩ := foldl_max_acc ((segs.filter fun s => present st k s i).map (outVal segs relabel)) 0
  constructor
  · intro s hs hc
    apply h2
    exact List.mem_map.mpr ⟨s, List.mem_filter.mpr ⟨hs, (present_iff_covers st hnl k s i).mpr hc⟩, rfl⟩
  · rcases h3 with h | h
    · left; exact h
    · right
      obtain ⟨s, hs, hv⟩ := List.mem_map.mp h
      obtain ⟨hs1, hs2⟩ := List.mem_filter.mp hs
      exact ⟨s, hs1, (present_iff_covers st hnl k s i).mp hs2, hv.symm⟩

/-- no overlap in the sense of the specification ⇒ `NoOverlap` on every requested plane -/
theorem noOverlap_of_not_overlaps (st : Stored) (wf : WfStack st) (segs keys : List Nat)
    (h : overlaps st segs keys = false) : ∀ k ∈ keys, NoOverlap st segs k := by
  intro k hk s₁ h1 s₂ h2 hne i ⟨hc1, hc2⟩
  unfold overlaps at h
  rw [List.any_eq_false] at h
  have hk' := h k hk
  rw [Bool.not_eq_true, List.any_eq_false] at hk'
  have hi := hk' i (List.mem_range.mpr (covers_lt st wf k s₁ i hc1))
  have : 2 ≤ (presentAt st segs k i).length :=
    two_le_length_of_mem _ s₁ s₂
      (List.mem_filter.mpr ⟨h1, (present_iff_covers st wf.type k s₁ i).mpr hc1⟩)
      (List.mem_filter.mpr ⟨h2, (present_iff_covers st wf.type k s₂ i).mpr hc2⟩) hne
  simp at hi
  omega

/-- … and an overlap in the sense of the specification is one in the sense of the property statement -/
theorem overlap_witness (st : Stored) (hnl : st.type ≠ .labelmap) (segs keys : List Nat) (hnd : segs.Nodup)
    (h : overlaps st segs keys = true) :
    ∃ k ∈ keys, ∃ s₁ ∈ segs, ∃ s₂ ∈ segs, s₁ ≠ s₂ ∧ ∃ i, covers st k s₁ i ∧ covers st k s₂ i := by
  unfold overlaps at h
  rw [List.any_eq_true] at h
  obtain ⟨k, hk, hk'⟩ := h
  rw [List.any_eq_true] at hk'
  obtain ⟨i, _, hi⟩ := hk'
  have h2 : 2 ≤ (presentAt st segs k i).length := by simpa using hi
  obtain ⟨a, ha, b, hb, hab⟩ := two_mem_of_nodup _ (hnd.filter _) h2
  obtain ⟨ha1, ha2⟩ := List.mem_filter.mp ha
  obtain ⟨hb1, hb2⟩ := List.mem_filter.mp hb
  exact ⟨k, hk, a, ha1, b, hb1, hab, i, (present_iff_covers st hnl k a i).mp ha2, (present_iff_covers st hnl k b i).mp hb2⟩

/-! ### the four branches against the specification -/

/-- BINARY / FRACTIONAL, combined -/
theorem stackRead_combined_spec (st : Stored) (rq : Req) (d : DType) (wf : WfStack st) (hc : rq.combine = true)
    (hnd : rq.segs.Nodup) (hsub : ∀ s ∈ rq.segs, s ∈ st.segNums) (hbin : UsedBinary st rq.keys rq.segs)
    (hfr : st.type = .fractional → rq.rescale = true) (hcap : ceiling st rq ≤ d.maxVal)
    (hno : rq.skipOverlap = true ∨ overlaps st rq.segs rq.keys = false) :
    stackRead st rq d false =
      .ok (.combined (rq.keys.map fun k => (List.range st.npix).map fun i => combinedSpec st rq.segs rq.relabel k i)) := by
  have hno' : rq.skipOverlap = true ∨ ∀ k ∈ rq.keys, NoOverlap st rq.segs k := by
    rcases hno with h | h
    · exact Or.inl h
    · exact Or.inr (noOverlap_of_not_overlaps st wf _ _ h)
  rw [stackRead_combined_ok st rq d wf hc hnd hsub hbin hfr hcap hno']
  have hcapV : ∀ s ∈ rq.segs, outVal rq.segs rq.relabel s ≤ d.maxVal :=
    fun s hs => Int.le_trans (outVal_le_ceiling st rq hc s hs) hcap
  have hpos : ∀ s ∈ rq.segs, 0 < s := fun s hs => wf.pos s (hsub s hs)
  congr 2
  apply List.map_congr_left
  intro k hk
  have hbk : ∀ f ∈ st.frames, f.key = k → f.seg ∈ rq.segs → FrameBinary st.type st.mfv f :=
    fun f hf hfk hs => hbin f hf (hfk ▸ hk) hs
  have hlenM : (maxFold (absRows st rq.segs rq.relabel k) (zeros st.npix)).length = st.npix :=
    maxFold_length st.npix _ _ (rows_ok st wf rq.segs rq.relabel hnd k hsub hbk d hcapV) (by simp [zeros])
  apply List.ext_getElem
  · rw [hlenM]; simp
  · intro i h1 h2
    have hi : i < st.npix := by rw [hlenM] at h1; exact h1
    obtain ⟨v, hv, hcv⟩ := combined_pixel st wf rq.segs rq.relabel hnd k hsub hbk d hcapV i hi
    have hv' : (maxFold (absRows st rq.segs rq.relabel k) (zeros st.npix))[i] = v := by
      have := List.getElem?_eq_getElem h1
      unfold absRows at this ⊢
      rw [hv] at this
      exact (Option.some.inj this).symm
    rw [hv']
    simp only [List.getElem_map, List.getElem_range]
    exact isCombinedValue_unique st rq.segs rq.relabel k i _ _ hpos hcv
      (combinedSpec_isCombinedValue st wf.type rq.segs rq.relabel k i)

theorem rawLabels_length (st : Stored) (hlen : ∀ f ∈ st.frames, f.pix.length = st.npix) (k : Nat) :
    (rawLabels st k).length = st.npix := by
  unfold rawLabels
  cases h : (st.frames.filter (fun f => f.key == k)).getLast? with
  | none => simp
  | some f =>
    have : f ∈ st.frames.filter (fun f => f.key == k) := List.mem_of_getLast? h
    exact hlen f (List.mem_filter.mp this).1

theorem filter_eq_single (l : List Nat) (hnd : l.Nodup) (v : Nat) :
    l.filter (fun s => decide (v = s)) = if v ∈ l then [v] else [] := by
  induction l with
  | nil => simp
  | cons a t ih =>
    obtain ⟨hat, hndt⟩ := List.nodup_cons.mp hnd
    rw [List.filter_cons]
    by_cases hva : v = a
    · subst hva
      have : ¬ v ∈ t := hat
      simp [ih hndt, this]
    · have hne : ¬ a = v := fun h => hva h.symm
      simp only [hva, decide_false, Bool.false_eq_true, ↓reduceIte, ih hndt, List.mem_cons, false_or]

theorem outVal_nonneg (segs : List Nat) (relabel : Bool) (v : Nat) : 0 ≤ outVal segs relabel v := by
  unfold outVal
  split
  · split <;> omega
  · omega

/-- a label-map pixel holding `v`: the specification's value is `outVal v` -/
theorem combinedSpec_labelmap (st : Stored) (hty : st.type = .labelmap) (segs : List Nat) (hnd : segs.Nodup) (relabel : Bool)
    (k i : Nat) (v : Nat) (hv : (rawLabels st k)[i]? = some v) :
    combinedSpec st segs relabel k i = outVal segs relabel v := by
  unfold combinedSpec presentAt
  have hp : ∀ s, present st k s i = decide (v = s) := by
    intro s
    unfold present maskPlane
    simp only [hty, ↓reduceIte]
    rw [List.getD_eq_getElem?_getD, List.getElem?_map, hv]
    by_cases h : v = s <;> simp [h]
  simp only [hp]
  rw [filter_eq_single segs hnd v]
  by_cases hm : v ∈ segs
  · have := outVal_nonneg segs relabel v
    simp only [hm, ↓reduceIte, List.map_cons, List.map_nil, List.foldl_cons, List.foldl_nil]
    omega
  · simp only [hm, ↓reduceIte, List.map_nil, List.foldl_nil]
    exact (outVal_not_mem segs relabel v hm).symm

/-- LABELMAP, combined -/
theorem labelmapRead_combined_spec (st : Stored) (rq : Req) (d : DType) (wf : WfLabel st)
    (hlen : ∀ f ∈ st.frames, f.pix.length = st.npix) (hc : rq.combine = true) (hne : rq.segs ≠ []) (hnd : rq.segs.Nodup)
    (hcap : ceiling st rq ≤ d.maxVal) :
    labelmapRead st rq d =
      .ok (.combined (rq.keys.map fun k => (List.range st.npix).map fun i => combinedSpec st rq.segs rq.relabel k i)) := by
  rw [labelmapRead_combined st rq d wf hc hne (by unfold ceiling at hcap; simpa [hc] using hcap)]
  congr 2
  apply List.map_congr_left
  intro k _
  have hl := rawLabels_length st hlen k
  apply List.ext_getElem
  · simp [hl]
  · intro i h1 h2
    simp only [List.getElem_map, List.getElem_range]
    have hi : i < (rawLabels st k).length := by simpa using h1
    rw [combinedSpec_labelmap st wf.type rq.segs hnd rq.relabel k i _ (List.getElem?_eq_getElem hi)]

/-- distinct positive numbers below `n` are fewer than `n` -/
theorem length_lt_of_nodup_bounded (l : List Nat) (hnd : l.Nodup) (n : Nat) (hn : 0 < n) (h : ∀ x ∈ l, 0 < x ∧ x < n) :
    l.length < n := by
  have hsub : l ⊆ List.range' 1 (n - 1) := by
    intro x hx
    have := h x hx
    rw [List.mem_range'_1]; omega
  have := (List.subperm_of_subset hnd hsub).length_le
  simp at this
  omega

/-- LABELMAP, stacked -/
theorem labelmapRead_stacked_spec (st : Stored) (rq : Req) (d : DType) (wf : WfLabel st) (hpos : ∀ s ∈ st.segNums, 0 < s)
    (hc : rq.combine = false) (hne : rq.segs ≠ []) (hnd : rq.segs.Nodup) (hsub : ∀ s ∈ rq.segs, s ∈ st.segNums) :
    labelmapRead st rq d =
      .ok (.stacked 1 (rq.keys.map fun k => rq.segs.map fun s => (maskPlane st k s).map Int.ofNat)) := by
  have hlen : rq.segs.length < 2 ^ st.bitsStored :=
    length_lt_of_nodup_bounded rq.segs hnd _ (Nat.pos_of_ne_zero (by simp)) (fun s hs => ⟨hpos s (hsub s hs), wf.fit s (hsub s hs)⟩)
  rw [labelmapRead_stacked st rq d wf hc hne hlen]
  congr 2
  apply List.map_congr_left
  intro k _
  apply List.ext_getElem
  · simp
  · intro c h1 h2
    have hcl : c < rq.segs.length := by simpa using h1
    simp only [List.getElem_map, List.getElem_range, maskPlane, wf.type, ↓reduceIte, List.map_map]
    apply List.map_congr_left
    intro v _
    simp only [Function.comp]
    have hiff := posNat_eq_succ_iff rq.segs hnd v c
    by_cases hv : v = rq.segs[c]
    · have : posNat rq.segs v = c + 1 := hiff.mpr (by rw [List.getElem?_eq_getElem hcl, hv])
      rw [if_pos this, if_pos hv]; rfl
    · have : ¬ posNat rq.segs v = c + 1 := by
        intro h
        have := hiff.mp h
        rw [List.getElem?_eq_getElem hcl] at this
        exact hv (Option.some.inj this).symm
      rw [if_neg this, if_neg hv]; rfl

/-- BINARY / FRACTIONAL, stacked -/
theorem stackRead_stacked_spec (st : Stored) (rq : Req) (d : DType) (wf : WfStack st) (hc : rq.combine = false)
    (hcap : ceiling st rq ≤ d.maxVal) (hfl : willRescale st rq = true → d.isFloat = true) :
    stackRead st rq d (willRescale st rq) =
      .ok (.stacked (if willRescale st rq then st.mfv else 1)
        (rq.keys.map fun k => rq.segs.map fun s => (maskPlane st k s).map Int.ofNat)) := by
  rw [stackRead_stacked st rq d wf hc hcap hfl]
  simp only [maskPlane, wf.type, ↓reduceIte]

/-! ### `_get_pixels_by_seg_frame` against the specification -/

/-- what "not refused" says, reason by reason -/
def CoreAccepts (st : Stored) (rq : Req) : Prop :=
  (∀ s ∈ rq.segs, s ∈ st.segNums) ∧ rq.segs.Nodup ∧ ceiling st rq ≤ (chosenDtype st rq).maxVal ∧
  (st.type ≠ .labelmap →
    (willRescale st rq = true → (chosenDtype st rq).isFloat = true) ∧
    (st.type = .fractional → rq.combine = true → rq.rescale = true) ∧
    (rq.combine = true → nonBinaryUsed st rq.keys rq.segs = false) ∧
    (rq.combine = true → rq.skipOverlap = false → overlaps st rq.segs rq.keys = false))

theorem coreRefuses_false_iff (st : Stored) (rq : Req) : coreRefuses st rq = false ↔ CoreAccepts st rq := by
  unfold coreRefuses CoreAccepts
  have hall : (rq.segs.all fun s => st.segNums.contains s) = true ↔ ∀ s ∈ rq.segs, s ∈ st.segNums := by
    rw [List.all_eq_true]
    constructor
    · intro h s hs; simpa using h s hs
    · intro h s hs; simpa using h s hs
  by_cases h1 : ∀ s ∈ rq.segs, s ∈ st.segNums
  · have h1' := hall.mpr h1
    by_cases h2 : rq.segs.Nodup
    · by_cases h3 : ceiling st rq > (chosenDtype st rq).maxVal
      · have : ¬ ceiling st rq ≤ (chosenDtype st rq).maxVal := by omega
        simp [h1', h2, h3, this]
      · have h3' : ceiling st rq ≤ (chosenDtype st rq).maxVal := by omega
        by_cases h4 : st.type = .labelmap
        · simp [h1, h1', h2, h3, h3', h4]
        · have h4' : (st.type != SegType.labelmap) = true := by simpa using h4
          have hT : (∀ s ∈ rq.segs, s ∈ st.segNums) ↔ True := ⟨fun _ => trivial, fun _ => h1⟩
          simp only [h1', h2, h3, h4', Bool.not_true, decide_true, decide_false, Bool.false_or, Bool.true_and, hT, h3',
            true_and, ne_eq, h4, not_false_eq_true, forall_const]
          cases hw : willRescale st rq <;> cases hf : (chosenDtype st rq).isFloat <;> cases hc : rq.combine <;>
            cases hr : rq.rescale <;> cases hs : rq.skipOverlap <;> cases hn : nonBinaryUsed st rq.keys rq.segs <;>
            cases ho : overlaps st rq.segs rq.keys <;> by_cases ht : st.type = .fractional <;> simp [ht]
    · simp [h1', h2]
  · have : (rq.segs.all fun s => st.segNums.contains s) = false := by
      rw [← Bool.not_eq_true]; exact fun h => h1 (hall.mp h)
    simp [this, h1]

theorem usedBinary_of_spec (st : Stored) (wf : WfStack st) (keys segs : List Nat)
    (h : nonBinaryUsed st keys segs = false) : UsedBinary st keys segs := by
  intro f hf hk hs
  by_cases hty : st.type = .fractional
  · simp only [hty, ↓reduceIte]
    refine ⟨by have := (wf.mfv hty).1; omega, ?_⟩
    intro p hp
    unfold nonBinaryUsed at h
    have hfr : (st.type == SegType.fractional) = true := by simpa using hty
    rw [hfr, Bool.true_and, List.any_eq_false] at h
    have := h f hf
    have hk' : keys.contains f.key = true := by simpa using hk
    have hs' : segs.contains f.seg = true := by simpa using hs
    rw [hk', hs', Bool.true_and, Bool.true_and, Bool.not_eq_true, List.any_eq_false] at this
    have := this p hp
    simp at this
    by_cases h0 : p = 0
    · exact Or.inl h0
    · exact Or.inr (this h0)
  · simp only [hty, ↓reduceIte]
    intro p hp
    have := wf.range f hf p hp
    simpa [hty] using this

/-- a used FRACTIONAL frame with a value other than 0 / MaximumFractionalValue: the combination refuses -/
theorem stackRead_nonbinary_refused (st : Stored) (rq : Req) (d : DType) (hty : st.type = .fractional)
    (hc : rq.combine = true) (hnd : rq.segs.Nodup) (hr : rq.rescale = true)
    (h : nonBinaryUsed st rq.keys rq.segs = true) : ∃ e, stackRead st rq d false = .error e := by
  unfold nonBinaryUsed at h
  rw [Bool.and_eq_true, List.any_eq_true] at h
  obtain ⟨_, f, hf, hrest⟩ := h
  simp only [Bool.and_eq_true, List.any_eq_true] at hrest
  obtain ⟨⟨hk, hs⟩, p, hp, hpp⟩ := hrest
  have hk' : f.key ∈ rq.keys := by simpa using hk
  have hs' : f.seg ∈ rq.segs := by simpa using hs
  have h0 : p ≠ 0 := by simpa using hpp.1
  have h1 : p ≠ st.mfv := by simpa using hpp.2
  rw [stackRead_combined_head st rq d hc hnd (fun _ => hr)]
  have hrow : (f, outValNat rq.segs rq.relabel f.seg) ∈
      joinRows st.frames (chanTable rq.segs (remapValues rq.segs true rq.relabel)) f.key := by
    rw [mem_joinRows]
    exact ⟨hf, rfl, (mem_chan_combined rq.segs rq.relabel hnd _ _).mpr ⟨hs', outValNat_eq _ _ _ hs'⟩⟩
  obtain ⟨e, he⟩ := mapM_error_of_mem (fun k => combineRow st.type st.mfv rq.skipOverlap d st.npix
      (joinRows st.frames (chanTable rq.segs (remapValues rq.segs true rq.relabel)) k)) rq.keys
    ⟨f.key, hk', by
      unfold combineRow
      rw [hty]
      exact foldlM_error_of_mem _ _ _ ⟨_, hrow, fun a => combineStep_nonbinary st.mfv _ _ a _ ⟨p, hp, h0, h1⟩⟩⟩
  exact ⟨e, by rw [he]; rfl⟩

/-- **`_get_pixels_by_seg_frame` refines the specification**: accepted exactly when no reason for refusal applies, and then
the result is the specified array -/
theorem readCore_refines_spec (st : Stored) (wf : WfObj st) (rq : Req) (hne : rq.segs ≠ []) :
    (coreRefuses st rq = true → ∃ e, readCore st rq = .error e) ∧
    (coreRefuses st rq = false → readCore st rq = .ok (specOut st rq)) := by
  constructor
  · intro href
    have hna : ¬ CoreAccepts st rq := fun h => by
      rw [(coreRefuses_false_iff st rq).mpr h] at href; cases href
    by_cases hadm : (∀ s ∈ rq.segs, s ∈ st.segNums) ∧ rq.segs.Nodup
    swap
    · exact ⟨.value, readCore_not_admitted st rq hadm⟩
    obtain ⟨hsub, hnd⟩ := hadm
    rw [readCore_eq st rq hsub hnd]
    by_cases hcap : ceiling st rq > (chosenDtype st rq).maxVal
    · exact ⟨.value, by simp [hcap]⟩
    have hcap' : ceiling st rq ≤ (chosenDtype st rq).maxVal := by omega
    simp only [hcap, ↓reduceIte]
    by_cases hty : st.type = .labelmap
    · exact absurd ⟨hsub, hnd, hcap', fun h => absurd hty h⟩ hna
    simp only [hty, ↓reduceIte]
    have ws : WfStack st := by
      rcases wf with ⟨w, _, _⟩ | w
      · exact absurd w.type hty
      · exact w
    -- the four BINARY / FRACTIONAL reasons, in the order the code meets them
    by_cases hfl : willRescale st rq = true ∧ (chosenDtype st rq).isFloat = false
    · refine ⟨.value, ?_⟩
      unfold stackRead
      rw [stackDecision_eq]
      simp [hfl.1, hfl.2, bind, Except.bind]
    by_cases hc : rq.combine = true
    swap
    · -- stacked: nothing else can refuse
      have hc' : rq.combine = false := by simpa using hc
      exfalso
      apply hna
      refine ⟨hsub, hnd, hcap', fun _ => ⟨?_, ?_, ?_, ?_⟩⟩
      · intro hw
        cases hf : (chosenDtype st rq).isFloat
        · exact absurd ⟨hw, hf⟩ hfl
        · rfl
      · intro _ h; rw [hc'] at h; cases h
      · intro h; rw [hc'] at h; cases h
      · intro h; rw [hc'] at h; cases h
    have hw : willRescale st rq = false := by unfold willRescale; simp [hc]
    rw [hw]
    by_cases hfr : st.type = .fractional ∧ rq.rescale = false
    · refine ⟨.value, ?_⟩
      unfold stackRead
      rw [stackDecision_eq]
      simp [hc, hfr.1, hfr.2, bind, Except.bind]
    have hfr' : st.type = .fractional → rq.rescale = true := by
      intro h
      cases hr : rq.rescale
      · exact absurd ⟨h, hr⟩ hfr
      · rfl
    by_cases hnb : nonBinaryUsed st rq.keys rq.segs = true
    · have hfrac : st.type = .fractional := by
        unfold nonBinaryUsed at hnb
        rw [Bool.and_eq_true] at hnb
        simpa using hnb.1
      exact stackRead_nonbinary_refused st rq _ hfrac hc hnd (hfr' hfrac) hnb
    have hnb' : nonBinaryUsed st rq.keys rq.segs = false := by simpa using hnb
    have hbin := usedBinary_of_spec st ws rq.keys rq.segs hnb'
    by_cases hov : rq.skipOverlap = false ∧ overlaps st rq.segs rq.keys = true
    · obtain ⟨k, hk, s₁, h1, s₂, h2, hne12, i, hc1, hc2⟩ := overlap_witness st hty rq.segs rq.keys hnd hov.2
      exact ⟨.runtime, stackRead_combined_overlap st rq _ ws hc hnd hsub hbin hfr' hcap' hov.1 k hk
        (fun hno => hno s₁ h1 s₂ h2 hne12 i ⟨hc1, hc2⟩)⟩
    exfalso
    apply hna
    refine ⟨hsub, hnd, hcap', fun _ => ⟨?_, ?_, ?_, ?_⟩⟩
    · intro h; rw [hw] at h; cases h
    · intro h _; exact hfr' h
    · intro _; exact hnb'
    · intro _ hs
      cases ho : overlaps st rq.segs rq.keys
      · rfl
      · exact absurd ⟨hs, ho⟩ hov
  · intro hacc
    obtain ⟨hsub, hnd, hcap, hrest⟩ := (coreRefuses_false_iff st rq).mp hacc
    rw [readCore_eq st rq hsub hnd]
    have hcap' : ¬ ceiling st rq > (chosenDtype st rq).maxVal := by omega
    simp only [hcap', ↓reduceIte]
    unfold specOut
    rcases wf with ⟨wl, hpos, hlen⟩ | ws
    · simp only [wl.type, ↓reduceIte]
      have hw : willRescale st rq = false := by unfold willRescale; simp [wl.type]
      by_cases hc : rq.combine = true
      · simp only [hc, ↓reduceIte]
        exact labelmapRead_combined_spec st rq _ wl hlen hc hne hnd hcap
      · have hc' : rq.combine = false := by simpa using hc
        simp only [hc', Bool.false_eq_true, ↓reduceIte, hw]
        exact labelmapRead_stacked_spec st rq _ wl hpos hc' hne hnd hsub
    · obtain ⟨h1, h2, h3, h4⟩ := hrest ws.type
      simp only [ws.type, ↓reduceIte]
      by_cases hc : rq.combine = true
      · simp only [hc, ↓reduceIte]
        have hw : willRescale st rq = false := by unfold willRescale; simp [hc]
        rw [hw]
        apply stackRead_combined_spec st rq _ ws hc hnd hsub (usedBinary_of_spec st ws _ _ (h3 hc))
          (fun h => h2 h hc) hcap
        cases hs : rq.skipOverlap
        · exact Or.inr (h4 hc hs)
        · exact Or.inl rfl
      · have hc' : rq.combine = false := by simpa using hc
        simp only [hc', Bool.false_eq_true, ↓reduceIte]
        exact stackRead_stacked_spec st rq _ ws hc' hcap h1

/-! ### the entry points against the specification -/

/-- the reasons an entry point itself refuses (before `_get_pixels_by_seg_frame` runs) -/
def entrySpecRefuses (st : Stored) (mode : Mode) (a : Bool) (rq : Req) : Bool :=
  sourceIndexingRefused st mode rq.ignoreSpatial || rq.segs.isEmpty || rq.keys.isEmpty
  || (st.type != .labelmap && !st.segIndexed) || !framesUnique st || zeroFrameRequested mode rq.keys
  || (!a && missingRefused st mode rq.keys)

theorem specRefuses_eq (st : Stored) (mode : Mode) (a : Bool) (rq : Req) :
    specRefuses st mode a rq = (entrySpecRefuses st mode a rq || coreRefuses (effective st mode) rq) := rfl

theorem read_entry (st : Stored) (mode : Mode) (a : Bool) (rq : Req) :
    (entrySpecRefuses st mode a rq = true → ∃ e, SegRead.read st mode a rq = .error e) ∧
    (entrySpecRefuses st mode a rq = false → SegRead.read st mode a rq = readCore (effective st mode) rq) := by
  unfold SegRead.read entrySpecRefuses
  rw [entryRefuses_eq]
  have hsi : (decide (st.type ≠ SegType.labelmap) && !st.segIndexed) = (st.type != SegType.labelmap && !st.segIndexed) := by
    by_cases h : st.type = .labelmap <;> simp [h]
  rw [hsi]
  simp only [Bool.or_assoc]
  generalize (zeroFrameRequested mode rq.keys || (!a && missingRefused st mode rq.keys)) = z
  cases sourceIndexingRefused st mode rq.ignoreSpatial
  swap
  · exact ⟨fun _ => ⟨_, rfl⟩, fun h => by simp at h⟩
  cases rq.segs.isEmpty
  swap
  · exact ⟨fun _ => ⟨_, rfl⟩, fun h => by simp at h⟩
  cases rq.keys.isEmpty
  swap
  · exact ⟨fun _ => ⟨_, rfl⟩, fun h => by simp at h⟩
  cases (st.type != SegType.labelmap && !st.segIndexed)
  swap
  · exact ⟨fun _ => ⟨_, rfl⟩, fun h => by simp at h⟩
  cases framesUnique st
  · exact ⟨fun _ => ⟨_, rfl⟩, fun h => by simp at h⟩
  cases z
  · exact ⟨fun h => by simp at h, fun _ => rfl⟩
  · exact ⟨fun _ => ⟨_, rfl⟩, fun h => by simp at h⟩

/-- **REFINEMENT**: on a well-formed object of any of the three types, for every entry point and every request, the read is
accepted exactly when none of the listed reasons for refusal applies, and then returns the specified array. -/
theorem read_refines_spec (st : Stored) (wf : WfObj st) (mode : Mode) (a : Bool) (rq : Req) :
    (specRefuses st mode a rq = true → ∃ e, SegRead.read st mode a rq = .error e) ∧
    (specRefuses st mode a rq = false → SegRead.read st mode a rq = .ok (specOut (effective st mode) rq)) := by
  rw [specRefuses_eq]
  obtain ⟨he1, he2⟩ := read_entry st mode a rq
  cases hE : entrySpecRefuses st mode a rq with
  | true => exact ⟨fun _ => he1 hE, fun h => by simp at h⟩
  | false =>
    rw [he2 hE]
    have hne : rq.segs ≠ [] := by
      intro h
      unfold entrySpecRefuses at hE
      simp [h] at hE
    simpa using readCore_refines_spec (effective st mode) (wfObj_effective st mode wf) rq hne

end HdVerif.SegReadLemmas
