import HdVerif.Model.SRContentSeq
import HdVerif.Generated.T14v
/-! C14: three hand-written parts of `Model/SRContentSeq.lean` use exactly the expressions the current source
contains (regenerated as `Generated/T14v.lean` on every run):

* `datasetCheck` / `fromSequence`: the relationship guard of `ContentSequence._check_dataset` and the flags
  `from_sequence` hands on to it and to the constructor;
* `poolStep … (.attach i)`: the flags of the sequence that `ContentItem.__setattr__` stores for the
  `ContentSequence` attribute (arguments of that call, else the defaults of `ContentSequence.__init__`);
* `lutRemove`: the removal loops of `__setitem__` and `__delitem__` locate the entry of the name index by identity.

A change of the guard, of a forwarded flag, of a default or of the comparison breaks one of these statements. -/
namespace HdVerif.SRSeqTie
open HdVerif HdVerif.SRContentSeq

/-! ## `_check_dataset` and `from_sequence` -/

/-- the model's dataset check is the regenerated guard -/
theorem datasetCheck_eq_gen (isRoot isSr : Bool) (it : Item) :
    datasetCheck isRoot isSr it = unitOf (Gen.csCheckDatasetRel it.rel.isSome isRoot isSr) := by
  cases h : it.rel <;> cases isRoot <;> cases isSr <;> simp [datasetCheck, Gen.csCheckDatasetRel, unitOf, h]

/-- `from_sequence` written with the regenerated guard and the regenerated forwarding of the flags only -/
def fromSequenceGen (items : List Item) (isRoot isSr : Bool) : Except ErrKind Seq :=
  let fc := Gen.csFromSeqCheckFlags isRoot isSr
  let fk := Gen.csFromSeqCtorFlags isRoot isSr
  match checkAll (fun it => unitOf (Gen.csCheckDatasetRel it.rel.isSome fc.1 fc.2)) items with
  | .error e => .error e
  | .ok _ => construct items fk.1 fk.2

theorem fromSequence_eq_gen (items : List Item) (isRoot isSr : Bool) :
    fromSequence items isRoot isSr = fromSequenceGen items isRoot isSr := by
  have h : datasetCheck isRoot isSr = fun it => unitOf (Gen.csCheckDatasetRel it.rel.isSome isRoot isSr) :=
    funext (datasetCheck_eq_gen isRoot isSr)
  simp only [fromSequence, fromSequenceGen, Gen.csFromSeqCheckFlags, Gen.csFromSeqCtorFlags, h]
  cases checkAll (fun it => unitOf (Gen.csCheckDatasetRel it.rel.isSome isRoot isSr)) items <;> rfl

/-! ## the `ContentSequence` attribute setter -/

/-- assigning a pool member to the `ContentSequence` attribute of an item builds a sequence with the regenerated flags -/
theorem attach_flags (pool : List Seq) (i : Nat) :
    poolStep pool (.attach i) =
      (match pool[i % pool.length]? with
       | none => (pool, some .index)
       | some s => match construct s.items Gen.csAttachFlags.1 Gen.csAttachFlags.2 with
         | .ok q => (poolPut pool q, none)
         | .error e => (pool, some e)) := rfl

/-! ## removal from the name index -/

/-- `del l[[p(m) for m in l].index(True)]`; `none` = ValueError -/
def removeFirst (p : Item → Bool) : List Item → Option (List Item)
  | [] => none
  | x :: r => if p x then some r else (removeFirst p r).map (x :: ·)

/-- one pass of a removal loop with the comparison chosen by the regenerated flag: `m is i` or `m == i` -/
def lutRemoveGen (byIdentity : Bool) (lut : Lut) (it : Item) : Except ErrKind Lut :=
  match removeFirst (fun m => if byIdentity then decide (m = it) else m.eqv it) (lut it.name) with
  | none => .error .value
  | some l => .ok (fun n => if n = it.name then l else lut n)

theorem removeFirst_identity (it : Item) : ∀ l : List Item,
    removeFirst (fun m => decide (m = it)) l = if it ∈ l then some (l.erase it) else none
  | [] => by simp [removeFirst]
  | x :: r => by
    by_cases h : x = it
    · subst h; simp [removeFirst]
    · have h' : ¬ it = x := fun e => h e.symm
      have hb : (x == it) = false := by simpa using h
      simp only [removeFirst, h, decide_false, Bool.false_eq_true, if_false, removeFirst_identity it r,
        List.mem_cons, h', false_or, List.erase_cons, hb]
      by_cases hm : it ∈ r <;> simp [hm]

/-- the model's removal is the regenerated one, for every removal loop of the class -/
theorem lutRemove_eq_gen (lut : Lut) (it : Item) :
    ∀ p ∈ Gen.csRemoveByIdentity, lutRemove lut it = lutRemoveGen p.2 lut it := by
  have key : lutRemove lut it = lutRemoveGen true lut it := by
    simp only [lutRemove, lutRemoveGen, if_true, removeFirst_identity]
    by_cases hm : it ∈ lut it.name
    · simp only [hm, if_true]
      congr 1; funext n
      by_cases hn : n = it.name
      · subst hn; simp
      · simp [hn]
    · simp [hm]
  intro p hp
  simp only [Gen.csRemoveByIdentity, List.mem_cons, List.not_mem_nil, or_false] at hp
  rcases hp with rfl | rfl <;> exact key

end HdVerif.SRSeqTie
