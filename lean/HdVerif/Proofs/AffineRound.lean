import HdVerif.Proofs.AffinePairs
import HdVerif.Proofs.RatFloor
set_option linter.unusedSimpArgs false
namespace HdVerif.Affine

theorem floor_le' (x : Rat) : ((x.floor : Int) : Rat) ≤ x := Rat.le_floor_iff.mp (le_refl _)
theorem lt_floor_add_one' (x : Rat) : x < ((x.floor : Int) : Rat) + 1 := by
  have : x.floor < x.floor + 1 := by omega
  have := (Rat.floor_lt_iff).mp this
  push_cast at this
  exact this

/-- **rounding = nearest integer, ties to the even one** (`np.around`, Python `round`) -/
theorem roundHalfEven_spec (x : Rat) :
    rabs (x - ((roundHalfEven x : Int) : Rat)) ≤ 1 / 2 ∧
    (rabs (x - ((roundHalfEven x : Int) : Rat)) = 1 / 2 → roundHalfEven x % 2 = 0) := by
  have h1 := floor_le' x
  have h2 := lt_floor_add_one' x
  unfold roundHalfEven
  simp only
  rw [rabs_eq_abs]
  by_cases ha : x - ((x.floor : Int) : Rat) < 1 / 2
  · rw [if_pos ha]
    refine ⟨by rw [abs_le]; constructor <;> linarith, fun he => ?_⟩
    rw [abs_of_nonneg (by linarith)] at he
    linarith
  · rw [if_neg ha]
    by_cases hb : 1 / 2 < x - ((x.floor : Int) : Rat)
    · rw [if_pos hb]
      push_cast
      refine ⟨by rw [abs_le]; constructor <;> linarith, fun he => ?_⟩
      rw [abs_of_nonpos (by linarith)] at he
      linarith
    · rw [if_neg hb]
      have heq : x - ((x.floor : Int) : Rat) = 1 / 2 := le_antisymm (not_lt.mp hb) (not_lt.mp ha)
      by_cases hc : x.floor % 2 = 0
      · rw [if_pos hc]
        exact ⟨by rw [abs_le]; constructor <;> linarith, fun _ => hc⟩
      · rw [if_neg hc]
        push_cast
        refine ⟨by rw [abs_le]; constructor <;> linarith, fun _ => by omega⟩

/-- a value within less than half a unit of an integer rounds to that integer -/
theorem roundHalfEven_of_near (x : Rat) (z : Int) (h : rabs (x - (z : Rat)) < 1 / 2) : roundHalfEven x = z := by
  obtain ⟨hs, _⟩ := roundHalfEven_spec x
  rw [rabs_eq_abs] at h hs
  rw [abs_lt] at h
  rw [abs_le] at hs
  have hlt : |((roundHalfEven x : Int) : Rat) - (z : Rat)| < 1 := by
    rw [abs_lt]; constructor <;> linarith [hs.1, hs.2, h.1, h.2]
  have : |roundHalfEven x - z| < 1 := by
    have := hlt
    rw [← Int.cast_sub, ← Int.cast_abs] at this
    exact_mod_cast this
  have := Int.abs_lt_one_iff.mp this
  omega


/-! ## out-of-plane refusal in geometric terms -/

/-- the slice coordinate `ReferenceToPixelTransformer` computes: signed offset along the normal in units of `sbs · |n|²` -/
theorem refToPix_slice_coordinate (P : Plane) (h : P.Valid) {sbs : Rat} (hs : sbs ≠ 0) (v : V3) :
    ∃ p, refToPix P.posL P.oriL P.ps sbs v = .ok p ∧ p.z * sbs * P.nrm.dot P.nrm = (v.sub P.pos).dot P.nrm := by
  obtain ⟨mi, hmi, hinv⟩ := invAffine_eval P h hs
  refine ⟨_, by simp only [refToPix, hinv, bind, Except.bind, pure, Except.pure], inv_slice_coordinate P hmi v⟩

/-- **`drop_slice_index` refuses a point iff it lies more than half a slice spacing off the plane** (unit normal, positive
slice spacing): the tested quantity is the SIGNED distance `(v − position) · n` -/
theorem refToPixDrop_refused_iff (P : Plane) (h : P.Valid) (hn : P.nrm.dot P.nrm = 1) {sbs : Rat} (hs : 0 < sbs) (v : V3) :
    refToPixDrop P.posL P.oriL P.ps sbs v = .error .runtime ↔ sbs / 2 < rabs ((v.sub P.pos).dot P.nrm) := by
  obtain ⟨p, hp, hz⟩ := refToPix_slice_coordinate P h (ne_of_gt hs) v
  rw [hn, mul_one] at hz
  unfold refToPixDrop
  simp only [hp, bind, Except.bind]
  rw [← hz, rabs_eq_abs, rabs_eq_abs, abs_mul, abs_of_pos hs]
  constructor
  · intro hq
    by_cases hc : |p.z| > 1 / 2
    · nlinarith
    · rw [if_neg hc] at hq; cases hq
  · intro hq
    have hc : |p.z| > 1 / 2 := by
      by_contra hc
      have : |p.z| ≤ 1 / 2 := not_lt.mp hc
      nlinarith [abs_nonneg p.z]
    rw [if_pos hc]

/-- … and a point within half a slice is accepted, with its in-plane indices -/
theorem refToPixDrop_ok_iff (P : Plane) (h : P.Valid) (hn : P.nrm.dot P.nrm = 1) {sbs : Rat} (hs : 0 < sbs) (v : V3) :
    (∃ q, refToPixDrop P.posL P.oriL P.ps sbs v = .ok q) ↔ rabs ((v.sub P.pos).dot P.nrm) ≤ sbs / 2 := by
  have hr := refToPixDrop_refused_iff P h hn hs v
  obtain ⟨p, hp, _⟩ := refToPix_slice_coordinate P h (ne_of_gt hs) v
  constructor
  · rintro ⟨q, hq⟩
    by_contra hc
    rw [hr.mpr (not_le.mp hc)] at hq
    cases hq
  · intro hle
    unfold refToPixDrop at hr ⊢
    simp only [hp, bind, Except.bind] at hr ⊢
    by_cases hc : rabs p.z > 1 / 2
    · rw [if_pos hc] at hr
      exact absurd (hr.mp rfl) (not_lt.mpr hle)
    · rw [if_neg hc]; exact ⟨_, rfl⟩

/-! ## image-to-image is pixel-to-pixel between half-pixel shifts -/

theorem imgToImg_conjugates_pixToPix {posF oriF : List Rat} {psF : Spacing} {posT oriT : List Rat} {psT : Spacing} {a : Aff}
    (h : imgToImgAffine posF oriF psF posT oriT psT = .ok a) :
    ∃ b, pixToPixAffine posF oriF psF posT oriT psT = .ok b ∧
      ∀ x y : Rat, a.apply ⟨x, y, 0⟩ = (b.apply ⟨x - 1 / 2, y - 1 / 2, 0⟩).add ⟨1 / 2, 1 / 2, 0⟩ := by
  unfold imgToImgAffine at h
  unfold pixToPixAffine
  cases h1 : V3.ofList posF with
  | none => simp [h1, bind, Except.bind] at h
  | some pf =>
  cases h2 : V3.ofList posT with
  | none => simp [h1, h2, bind, Except.bind, pure, Except.pure] at h
  | some pt =>
  cases h3 : Ori.ofList oriF with
  | none => simp [h1, h2, h3, bind, Except.bind, pure, Except.pure] at h
  | some of' =>
  cases h4 : Ori.ofList oriT with
  | none => simp [h1, h2, h3, h4, bind, Except.bind, pure, Except.pure] at h
  | some ot =>
  cases h5 : areCoplanar pf of' pt ot with
  | error e => simp [h1, h2, h3, h4, h5, bind, Except.bind, pure, Except.pure] at h
  | ok cop =>
  cases cop with
  | false => simp [h1, h2, h3, h4, h5, bind, Except.bind, pure, Except.pure] at h
  | true =>
  cases h7 : invAffineFromAttributes posT oriT psT 1 with
  | error e => simp [h1, h2, h3, h4, h5, h7, bind, Except.bind, pure, Except.pure] at h
  | ok r2p =>
  cases h6 : affineFromAttributes posF oriF psF 1 ['R', 'D'] false true with
  | error e => simp [h1, h2, h3, h4, h5, h6, h7, bind, Except.bind, pure, Except.pure] at h
  | ok p2r =>
    simp [h1, h2, h3, h4, h5, h6, h7, bind, Except.bind, pure, Except.pure] at h
    refine ⟨r2p.comp p2r, by simp [h1, h2, h3, h4, h5, h6, h7, bind, Except.bind, pure, Except.pure], ?_⟩
    intro x y
    rw [← h]
    simp only [Aff.comp_apply, Aff.shift_apply, vecOfTriple, Gen.pixToImCorrection, Gen.imToPixCorrection]
    have e1 : (⟨x, y, 0⟩ : V3).add ⟨(-1 : Rat) / 2, (-1 : Rat) / 2, (0 : Rat) / 1⟩ = ⟨x - 1 / 2, y - 1 / 2, 0⟩ := by
      simp only [V3.add, V3.mk.injEq]; refine ⟨?_, ?_, ?_⟩ <;> ring
    have e2 : (⟨(1 : Rat) / 2, (1 : Rat) / 2, (0 : Rat) / 1⟩ : V3) = ⟨1 / 2, 1 / 2, 0⟩ := by
      simp only [V3.mk.injEq]; refine ⟨trivial, trivial, ?_⟩; ring
    rw [e1, e2]

end HdVerif.Affine
