import HdVerif.Proofs.SRContentSeq
import HdVerif.Model.SRSeqPool
/-! Lemmas for the pool with shallow copies, deep copies and pickling (C14). -/
namespace HdVerif.SRSeqPoolLemmas
open HdVerif HdVerif.SRContentSeq HdVerif.SRContentSeqLemmas HdVerif.SRSeqPool

/-- every sequence that exists is a reachable one, and every name points at a sequence that exists -/
def Ok (p : APool) : Prop := (∀ s ∈ p.slots, Reachable s) ∧ (∀ k ∈ p.members, k < p.slots.length)

theorem derive_clone {s q : Seq} (h : derive s (.clone 0) = .ok q) : construct s.items s.isRoot s.isSr = .ok q := by
  cases hc : construct s.items s.isRoot s.isSr with
  | error e => simp [derive, poolStep, hc] at h
  | ok q' => simp [derive, poolStep, poolPut, hc] at h; rw [h]

theorem derive_attach {s q : Seq} (h : derive s (.attach 0) = .ok q) : construct s.items false true = .ok q := by
  cases hc : construct s.items false true with
  | error e => simp [derive, poolStep, hc] at h
  | ok q' => simp [derive, poolStep, poolPut, hc] at h; rw [h]

theorem mem_putMember {m : List Nat} {slot k : Nat} (h : k ∈ putMember m slot) : k ∈ m ∨ k = slot := by
  unfold putMember at h
  split at h
  · simpa using h
  · exact List.mem_or_eq_of_mem_set h

theorem ok_start {s : Seq} (h : Reachable s) : Ok (start s) := by
  refine ⟨?_, ?_⟩
  · intro q hq; simp only [start, List.mem_singleton] at hq; subst hq; exact h
  · intro k hk; simp only [start, List.mem_singleton] at hk; subst hk; simp [start]

theorem slotOf_mem {p : APool} {i k : Nat} (h : slotOf p i = some k) : k ∈ p.members := by
  unfold slotOf at h
  exact List.mem_of_getElem? h

/-- a new sequence is added, a member is pointed at it -/
theorem ok_add {p : APool} (h : Ok p) {q : Seq} (hq : Reachable q) (members' : List Nat) (c : Nat)
    (hm : ∀ k ∈ members', k ∈ p.members ∨ k = p.slots.length) :
    Ok { slots := p.slots ++ [q], members := members', copies := c } := by
  refine ⟨?_, ?_⟩
  · intro s hs
    simp only [List.mem_append, List.mem_singleton] at hs
    rcases hs with hs | hs
    · exact h.1 s hs
    · subst hs; exact hq
  · intro k hk
    simp only [List.length_append, List.length_singleton]
    rcases hm k hk with hk' | hk'
    · have := h.2 k hk'; omega
    · omega

theorem apoolStep_ok {p : APool} (h : Ok p) (op : APoolOp) : Ok (apoolStep p op).1 := by
  cases op with
  | base bop =>
    cases bop with
    | on i op =>
      cases hk : slotOf p i with
      | none => simp only [apoolStep, hk]; exact h
      | some k =>
        cases hs : p.slots[k]? with
        | none => simp only [apoolStep, hk, hs]; exact h
        | some s =>
          have hr : Reachable (step s op).1 := Reachable.step op (h.1 s (List.mem_of_getElem? hs))
          simp only [apoolStep, hk, hs]
          split
          · exact ok_add h hr _ _ (fun k' hk' => by
              rcases List.mem_or_eq_of_mem_set hk' with h1 | h1
              · exact Or.inl h1
              · exact Or.inr h1)
          · refine ⟨?_, ?_⟩
            · intro q hq
              rcases List.mem_or_eq_of_mem_set hq with h1 | h1
              · exact h.1 q h1
              · subst h1; exact hr
            · intro k' hk'
              simp only [List.length_set]
              exact h.2 k' hk'
    | clone i =>
      cases hk : slotOf p i with
      | none => simp only [apoolStep, hk]; exact h
      | some k =>
        cases hs : p.slots[k]? with
        | none => simp only [apoolStep, hk, hs]; exact h
        | some s =>
          cases hd : derive s (.clone 0) with
          | error e => simp only [apoolStep, hk, hs, hd]; exact h
          | ok q =>
            simp only [apoolStep, hk, hs, hd]
            exact ok_add h (Reachable.ctor (derive_clone hd)) _ _ (fun k' hk' => mem_putMember hk')
    | attach i =>
      cases hk : slotOf p i with
      | none => simp only [apoolStep, hk]; exact h
      | some k =>
        cases hs : p.slots[k]? with
        | none => simp only [apoolStep, hk, hs]; exact h
        | some s =>
          cases hd : derive s (.attach 0) with
          | error e => simp only [apoolStep, hk, hs, hd]; exact h
          | ok q =>
            simp only [apoolStep, hk, hs, hd]
            exact ok_add h (Reachable.ctor (derive_attach hd)) _ _ (fun k' hk' => mem_putMember hk')
  | copy i =>
    cases hk : slotOf p i with
    | none => simp only [apoolStep, hk]; exact h
    | some k =>
      simp only [apoolStep, hk]
      refine ⟨h.1, ?_⟩
      intro k' hk'
      rcases mem_putMember hk' with h1 | h1
      · exact h.2 k' h1
      · subst h1; exact h.2 _ (slotOf_mem hk)
  | deepcopy i =>
    cases hk : slotOf p i with
    | none => simp only [apoolStep, hk]; exact h
    | some k =>
      cases hs : p.slots[k]? with
      | none => simp only [apoolStep, hk, hs]; exact h
      | some s =>
        simp only [apoolStep, hk, hs]
        exact ok_add h (Reachable.copied _ (h.1 s (List.mem_of_getElem? hs))) _ _ (fun k' hk' => mem_putMember hk')

theorem apoolRun_ok {p : APool} (h : Ok p) (ops : List APoolOp) : Ok (apoolRun p ops) := by
  induction ops generalizing p with
  | nil => exact h
  | cons op ops ih => exact ih (apoolStep_ok h op)

theorem mem_view {p : APool} {s : Seq} (h : s ∈ view p) : s ∈ p.slots := by
  unfold view at h
  obtain ⟨k, _, hk⟩ := List.mem_filterMap.mp h
  exact List.mem_of_getElem? hk

/-! ### a shallow copy is a second name -/

/-- an operation through one name (not one that hands back a new object) is the operation on the slot: whoever
points at that slot sees the new state, every other slot is untouched, no name is re-pointed -/
theorem on_member_updates_slot {p : APool} {a k : Nat} {s : Seq} (op : Op) (ha : slotOf p a = some k)
    (hs : p.slots[k]? = some s) (hop : rebinds op = false) :
    (apoolStep p (.base (.on a op))).1.members = p.members ∧
    (apoolStep p (.base (.on a op))).1.slots[k]? = some (step s op).1 ∧
    (apoolStep p (.base (.on a op))).2 = (step s op).2 ∧
    ∀ j, j ≠ k → (apoolStep p (.base (.on a op))).1.slots[j]? = p.slots[j]? := by
  have hlt : k < p.slots.length := (List.getElem?_eq_some_iff.mp hs).1
  have e : apoolStep p (.base (.on a op)) = ({ p with slots := p.slots.set k (step s op).1 }, (step s op).2) := by
    simp only [apoolStep, ha, hs, hop, Bool.false_and, Bool.false_eq_true, if_false]
  rw [e]
  refine ⟨rfl, ?_, rfl, fun j hj => ?_⟩
  · simp [hlt]
  · simp only [List.getElem?_set]
    rw [if_neg (fun h => hj h.symm)]

/-! ### a deep copy is an equal, independent sequence of new objects -/

theorem eqv_relabel_left (f : Nat → Nat) (y x : Item) : (relabelItem f y).eqv x = y.eqv x := rfl

theorem any_map_relabel (f : Nat → Nat) (l : List Item) (x : Item) :
    (l.map (relabelItem f)).any (fun y => y.eqv x) = l.any (fun y => y.eqv x) := by
  induction l with
  | nil => rfl
  | cons a l ih => simp only [List.map_cons, List.any_cons, ih, eqv_relabel_left]

theorem findIdx_map_relabel (f : Nat → Nat) (l : List Item) (x : Item) :
    (l.map (relabelItem f)).findIdx (fun y => y.eqv x) = l.findIdx (fun y => y.eqv x) := by
  induction l with
  | nil => rfl
  | cons a l ih => simp only [List.map_cons, List.findIdx_cons, ih, eqv_relabel_left]

/-- `index` / `in` of a deep copy answer as the original does (they compare with `==`) -/
theorem index_relabel (f : Nat → Nat) (s : Seq) (x : Item) : index (relabel f s) x = index s x := by
  unfold index relabel
  simp only [any_map_relabel, findIdx_map_relabel, List.length_map]

theorem contains_relabel (f : Nat → Nat) (s : Seq) (x : Item) : contains (relabel f s) x = contains s x := by
  unfold contains
  rw [index_relabel]

/-- `find` on a deep copy returns the copies of what `find` on the original returns, in the same order -/
theorem find_relabel {s : Seq} (h : WF s) (f : Nat → Nat) (n : Nat) :
    ∃ r r', find s n = .ok r ∧ find (relabel f s) n = .ok r' ∧ r'.items = r.items.map (relabelItem f) := by
  obtain ⟨r, h1, h2, _⟩ := find_spec h n
  obtain ⟨r', h1', h2', _⟩ := find_spec (relabel_wf h f).1 n
  exact ⟨r, r', h1, h1', by rw [h2', h2]; rfl⟩

theorem getNodes_relabel {s : Seq} (h : WF s) (f : Nat → Nat) :
    ∃ r r', getNodes s = .ok r ∧ getNodes (relabel f s) = .ok r' ∧ r'.items = r.items.map (relabelItem f) := by
  obtain ⟨r, h1, h2, _⟩ := getNodes_spec h
  obtain ⟨r', h1', h2', _⟩ := getNodes_spec (relabel_wf h f).1
  refine ⟨r, r', h1, h1', ?_⟩
  rw [h2', h2]
  show (s.items.map (relabelItem f)).filter (·.hasContent) = (s.items.filter (·.hasContent)).map (relabelItem f)
  rw [List.filter_map]
  rfl

end HdVerif.SRSeqPoolLemmas
