import HdVerif.Proofs.Ann
/-! C18: three hand-written pieces of `Model/Ann.lean` use exactly the expressions the current source contains
(regenerated in `Generated/T18.lean` / `T18s.lean` on every run):

* `indexListFrom indexListBase spans` is `[f] ++ (cumsum(spans) + c)[:-k]` with the literals `f` (`Gen.indexListBase`),
  `c` (`Gen.indexListCumsumOffset`), `k` (`Gen.indexListDropLast`) of `AnnotationGroup.__init__`;
* `encodeMeas` adds the `+ c` of `Measurements.__init__` (`Gen.measIndexBase`) and `getValues` subtracts the `- c` of
  `Measurements.get_values` (`Gen.measReadOffset`) — and the two agree;
* `sopAcceptsNumbers` accepts exactly the lists on which the loop body of the SOP class constructor
  (`Gen.sopGroupCheck`) succeeds at every position. -/
namespace HdVerif.Ann
open HdVerif HdVerif.Gen

/-! ### index list -/

/-- `np.cumsum` -/
def cumsumFrom : Int → List Int → List Int
  | _, [] => []
  | acc, s :: ss => (acc + s) :: cumsumFrom (acc + s) ss

/-- `l[:-k]` for `k ≥ 1`, `l` for `k = 0` -/
def dropLastK (k : Nat) (l : List Int) : List Int := l.take (l.length - k)

/-- the construction as the source writes it: `concatenate([array([f]), (cumsum(spans) + c)[:-k]])` -/
def sourceIndexList (spans : List Int) : List Int :=
  [indexListBase] ++ dropLastK indexListDropLast ((cumsumFrom 0 spans).map (fun x => x + indexListCumsumOffset))

theorem cumsumFrom_length (spans : List Int) : ∀ acc, (cumsumFrom acc spans).length = spans.length := by
  induction spans with
  | nil => intro _; rfl
  | cons s rest ih => intro acc; simp [cumsumFrom, ih]

theorem indexListFrom_cumsum (spans : List Int) : ∀ (acc : Int) (s0 : Int),
    indexListFrom (acc + 1) (s0 :: spans) =
      (acc + 1) :: (((cumsumFrom acc (s0 :: spans)).map (fun x => x + 1)).take (spans.length)) := by
  induction spans with
  | nil => intro acc s0; simp [indexListFrom, cumsumFrom]
  | cons s1 rest ih =>
    intro acc s0
    have := ih (acc + s0) s1
    simp only [indexListFrom, cumsumFrom, List.map_cons, List.length_cons, List.take_succ_cons] at this ⊢
    have e : acc + 1 + s0 = acc + s0 + 1 := by omega
    rw [e, this]

/-- **bridge**: the model's index list is the source's construction (for at least one annotation) -/
theorem indexList_is_source_expression (s0 : Int) (spans : List Int) :
    indexListFrom indexListBase (s0 :: spans) = sourceIndexList (s0 :: spans) := by
  have hb : indexListBase = 0 + 1 := rfl
  have hc : indexListCumsumOffset = 1 := rfl
  have hk : indexListDropLast = 1 := rfl
  unfold sourceIndexList dropLastK
  rw [hc, hk]
  rw [hb, indexListFrom_cumsum spans 0 s0]
  simp [cumsumFrom, cumsumFrom_length]

/-! ### measurement index offsets -/

/-- **bridge**: what `Measurements.__init__` adds is what `get_values` subtracts, and the model writes / reads with it -/
theorem measurement_offsets_are_source (β : Type) (cast32 : β → β) (vals : List (Option β)) (m : MeasEnc β) (il : List Int)
    (hm : m.indices = some il) :
    measReadOffset = measIndexBase ∧
    (encodeMeas cast32 vals).indices =
      (if vals.any Option.isNone then some ((positions 0 vals).map (fun (i : Nat) => (i : Int) + measIndexBase)) else none) ∧
    (∀ (n : Nat) (k : Int), measIndexGuard true (il.length : Int) (n : Int) (m.values.length : Int) = .ok k →
      getValues m n = assignAll n ((il.map (fun i => i - measReadOffset)).zip m.values) (List.replicate n none)) ∧
    (∀ (n : Nat) (e : ErrKind), measIndexGuard true (il.length : Int) (n : Int) (m.values.length : Int) = .error e → getValues m n = .error e) := by
  have h0 : measReadOffset = measIndexBase := rfl
  refine ⟨rfl, rfl, ?_, ?_⟩
  · intro n k hk
    simp only [getValues, hm, h0, Option.isSome_some, Option.getD_some, hk]
  · intro n e he
    simp only [getValues, hm, Option.isSome_some, Option.getD_some, he]

/-! ### group numbering in the SOP class constructor -/

theorem sopGroupCheck_spec (i number nCached : Int) (typeNotCached : Bool) :
    sopGroupCheck i true number nCached typeNotCached =
      if number = i + 1 then (if nCached > 0 ∧ typeNotCached = true then .error .value else .ok 0) else .error .value := by
  unfold sopGroupCheck
  by_cases h : number = i + 1 <;> by_cases h2 : nCached > 0 <;> cases typeNotCached <;> simp [h, h2]

/-- the loop of the constructor over groups at positions `off, off+1, …` -/
def sopLoop : Int → List Int → Bool
  | _, [] => true
  | i, n :: rest => (match sopGroupCheck i true n 0 false with | .ok _ => true | .error _ => false) && sopLoop (i + 1) rest

theorem sopLoop_range (numbers : List Int) : ∀ off : Nat,
    sopLoop (off : Int) numbers = decide (numbers = (List.range' off numbers.length).map (fun (i : Nat) => (i : Int) + 1)) := by
  induction numbers with
  | nil => intro off; simp [sopLoop]
  | cons n rest ih =>
    intro off
    have := ih (off + 1)
    simp only [sopLoop, sopGroupCheck_spec, List.length_cons, List.range'_succ, List.map_cons]
    have e : ((off : Int) + 1) = ((off + 1 : Nat) : Int) := by push_cast; rfl
    rw [e, this]
    by_cases h : n = ((off + 1 : Nat) : Int)
    · simp [h]
    · have h' : ¬ (n = (off : Int) + 1) := by rw [e]; exact h
      simp [h']

/-- **bridge**: the model accepts a list of group numbers iff the regenerated loop body succeeds at every position -/
theorem sopAcceptsNumbers_is_source_loop (numbers : List Int) : sopAcceptsNumbers numbers = sopLoop 0 numbers := by
  have := sopLoop_range numbers 0
  simp only [Int.natCast_zero] at this
  rw [this]
  unfold sopAcceptsNumbers
  rw [List.range_eq_range']

end HdVerif.Ann

namespace HdVerif.Ann
open HdVerif HdVerif.Gen

/-! ### the group constructor's check of every `measurements` item -/

theorem assignAll_err_index {β : Type} (n : Nat) (ps : List (Int × β)) : ∀ (acc : List (Option β)) (e : ErrKind),
    assignAll n ps acc = .error e → e = .index := by
  induction ps with
  | nil => intro acc e h; simp [assignAll] at h
  | cons p rest ih =>
    intro acc e h
    obtain ⟨i, v⟩ := p
    simp only [assignAll] at h
    split at h
    · cases h; rfl
    · exact ih _ e h

/-- `Measurements.get_values` raises nothing but IndexError -/
theorem getValues_err_index {β : Type} (m : MeasEnc β) (n : Nat) (e : ErrKind) (h : getValues m n = .error e) : e = .index := by
  unfold getValues at h
  simp only [measIndexGuard_spec] at h
  by_cases hc : (m.values.length : Int) ≠ (if m.indices.isSome = true then ((m.indices.getD []).length : Int) else (n : Int))
  · rw [if_pos hc] at h
    cases h; rfl
  · rw [if_neg hc] at h
    exact assignAll_err_index n _ _ e h

/-- **`checkMeas` is the regenerated loop body** (`Gen.measCheckPlan`: the `try / except IndexError` of the source is the
input `get_values_raises_index_error`): applied to the remembered number of values, to whether `get_values` raises, and to
the length of what it returns -/
theorem checkMeas_follows_plan {β : Type} (m : MeasEnc β) (n : Nat) :
    checkMeas m n =
      (match getValues m n with
       | .error _ => (measCheckPlan (m.numberOfValues.map (fun (k : Nat) => (k : Int))) true true (n : Int) 0).map (fun _ => ())
       | .ok vals => (measCheckPlan (m.numberOfValues.map (fun (k : Nat) => (k : Int))) false true (n : Int) (vals.length : Int)).map
           (fun _ => ())) := by
  unfold checkMeas measCheckPlan
  cases hn : m.numberOfValues with
  | none =>
    simp only [Option.map_none]
    cases hg : getValues m n with
    | error e =>
      have := getValues_err_index m n e hg
      subst this
      simp [Except.map]
    | ok vals =>
      by_cases hl : vals.length = n
      · simp [hl, Except.map]
      · have : ¬ ((vals.length : Int) = (n : Int)) := by omega
        simp [hl, this, Except.map]
  | some k =>
    simp only [Option.map_some]
    by_cases hk : k = n
    · subst hk
      cases hg : getValues m k with
      | error e =>
        have := getValues_err_index m k e hg
        subst this
        simp [Except.map]
      | ok vals =>
        by_cases hl : vals.length = k
        · simp [hl, Except.map]
        · have : ¬ ((vals.length : Int) = (k : Int)) := by omega
          simp [hl, this, Except.map]
    · have : ¬ ((k : Int) = (n : Int)) := by omega
      cases hg : getValues m n <;> simp [hk, this, Except.map]

end HdVerif.Ann

namespace HdVerif.Ann
open HdVerif HdVerif.Gen

/-! ### coordinate type of the groups handed to the SOP class constructor -/

/-- the constructor's loop over correctly numbered groups, looking at what each group was built with: `_graphic_data` holds
one entry (the group constructor's) or none (parsed group), and the instance's type is or is not its key -/
def sopTypeLoop (ct : Int) : Int → List (Option Int) → Bool
  | _, [] => true
  | i, b :: rest =>
    (match sopGroupCheck i true (i + 1) (if b.isSome then 1 else 0) (decide (b ≠ some ct)) with
     | .ok _ => true
     | .error _ => false) && sopTypeLoop ct (i + 1) rest

/-- **bridge**: the model accepts the coordinate types of the groups iff the regenerated loop body succeeds for every group -/
theorem sopAcceptsTypes_is_source_loop (ct : Int) (built : List (Option Int)) : ∀ i : Int,
    sopAcceptsTypes ct built = sopTypeLoop ct i built := by
  induction built with
  | nil => intro i; rfl
  | cons b rest ih =>
    intro i
    have := ih (i + 1)
    simp only [sopAcceptsTypes, List.all_cons] at this ⊢
    simp only [sopTypeLoop, sopGroupCheck_spec, if_true, ← this]
    cases b with
    | none => simp
    | some t => by_cases h : t = ct <;> simp [h]

end HdVerif.Ann

namespace HdVerif.Ann
open HdVerif HdVerif.Gen

/-- the constructor's second check of a group, spelled out -/
theorem sopKnownTypeCheck_spec (ct : Int) (kn : Option Int) (hz : Bool) :
    sopKnownTypeCheck ct kn hz =
      if (match kn with
          | some t => decide (t ≠ ct)
          | none => false) || (hz && decide (ct ≠ 3)) then .error .value else .ok 0 := by
  unfold sopKnownTypeCheck
  cases kn <;> grind (splits := 40)

theorem sopKnownTypeCheck_ok_iff (ct : Int) (kn : Option Int) (hz : Bool) :
    (match sopKnownTypeCheck ct kn hz with
     | .ok _ => true
     | .error _ => false) = true ↔ ((kn = none ∨ kn = some ct) ∧ (hz = true → ct = 3)) := by
  rw [sopKnownTypeCheck_spec]
  cases kn with
  | none => cases hz <;> by_cases h3 : ct = 3 <;> simp [h3]
  | some t =>
    by_cases ht : t = ct
    · subst ht
      cases hz <;> by_cases h3 : t = 3 <;> simp [h3]
    · have h1 : ¬ (some t = some ct) := fun h => ht (Option.some.inj h)
      cases hz <;> simp [ht, h1]

end HdVerif.Ann
