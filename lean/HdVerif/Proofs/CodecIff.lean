import HdVerif.Proofs.Codec
/-! C07: acceptance of `encode_frame` as an **iff** against what a pixel data element can represent (`Representable`, the
standard-side relation) plus the rules that are the syntax's / highdicom's own (`NativeScope`, `JpegLosslessScope`), and the
parameter checks of `decode_frame` as an iff; everything over the decision trees REGENERATED from the current source
(`Gen.encodeFrameRoute`, `Gen.decodeFrameRoute` via `route_iff`). -/
namespace HdVerif.Codec
open HdVerif HdVerif.Bits HdVerif.Gen

/-- what the native branch of `encode_frame` demands beyond representability: a shape Rows / Columns can describe, and
    colour frames colour-by-pixel in RGB or YBR_FULL (highdicom's own rule for native colour frames) -/
def NativeScope (p : Params) (x : Frame) : Prop :=
  1 ≤ x.rows ∧ x.rows ≤ 65535 ∧ 1 ≤ x.cols ∧ x.cols ≤ 65535 ∧
  (x.spp = 3 → (p.pi = "RGB" ∨ p.pi = "YBR_FULL") ∧ p.planar = some 0)

theorem spp_int (x : Frame) (n : Nat) : ((x.spp : Int) = (n : Int)) ↔ x.spp = n := by
  constructor
  · intro h; exact_mod_cast h
  · intro h; rw [h]

theorem mem_mono_iff (pi : String) : pi ∈ monochromePIs ↔ monoPI pi := by
  unfold monochromePIs monoPI; simp

/-- **Native syntaxes, both directions**: for a bits-allocated value the standard allows (1 or a multiple of 8),
`encode_frame` accepts a frame **iff** a pixel data element can represent it (`Representable`: samples, photometric
interpretation, planar configuration iff the array is 3-D, bits stored within allocated, pixel representation, cells as wide
and as signed as the array's items, samples within the stored bits, single bits filling whole bytes) and it is inside
`NativeScope`. -/
theorem native_accepted_iff (p : Params) (x : Frame) (hts : p.ts ∈ nativeSyntaxes)
    (hal : p.bitsAllocated = 1 ∨ p.bitsAllocated % 8 = 0) :
    (∃ r, encodeRoute p x = .ok r) ↔ (Representable p x ∧ NativeScope p x) := by
  have hnat : p.ts = "1.2.840.10008.1.2" ∨ p.ts = "1.2.840.10008.1.2.1" := by simpa [nativeSyntaxes] using hts
  have hrle : p.ts ≠ rle := by rcases hnat with h | h <;> rw [h] <;> decide
  have hspp := Req.of_spp p x
  have hk := kind_int_iff x.dtype
  have hsg := kind_signed_iff x.dtype
  have hnd := ndim_three_iff x
  constructor
  · rintro ⟨r, hr⟩
    refine ⟨representable_of_accepted p x r hr hrle hal, ?_⟩
    obtain ⟨hcm, hn⟩ := accepted_native p x r hr hts
    obtain ⟨⟨_, h1, h2, h3, h4⟩, _⟩ := hcm
    simp only [Req.of] at h1 h2 h3 h4
    refine ⟨by omega, by omega, by omega, by omega, ?_⟩
    intro h3s
    obtain ⟨_, hpi, _⟩ := hn
    rw [hspp] at hpi
    simp only [Req.of] at hpi
    rcases hpi with ⟨h1s, _⟩ | ⟨_, hpi, hpl⟩
    · exfalso; have : x.spp = 1 := by exact_mod_cast h1s
      omega
    · exact ⟨hpi, hpl⟩
  · rintro ⟨hrep, hr1, hr2, hc1, hc2, hcol⟩
    -- the route the request takes
    have key : ∃ r, AcceptSpec (Req.of p x) r := by
      by_cases hba : p.bitsAllocated = 1
      · refine ⟨1, ?_⟩
        have h8 := hrep.native_bits hts hba
        have e : ((x.rows : Int) * (x.cols : Int) * (x.spp : Int)) = ((x.rows * x.cols * x.spp : Nat) : Int) := by push_cast; rfl
        have h8' : ((x.rows : Int) * (x.cols : Int) * (x.spp : Int)) % 8 = 0 := by rw [e]; exact_mod_cast h8
        refine ⟨⟨⟨?_, ?_, ?_, ?_, ?_⟩, ?_, hrep.pixrep, ?_, hrep.stored.1, hrep.stored.2⟩, Or.inl ⟨hnat, ?_, Or.inl ⟨hba, ?_, rfl⟩⟩⟩
        · simp only [Req.of]; unfold Frame.ndim; cases x.samples <;> simp
        · simp only [Req.of]; omega
        · simp only [Req.of]; omega
        · simp only [Req.of]; omega
        · simp only [Req.of]; omega
        · intro h; simp only [Req.of] at h ⊢; exact hrep.planar (hnd.mp h)
        · simp only [Req.of]
          rcases hrep.samples with h1 | h3
          · exact Or.inl ((mem_mono_iff _).mp (hrep.pi_mono h1))
          · rcases (hcol h3).1 with h | h <;> rw [h] <;> simp [knownPI]
        · rw [hspp]; simp only [Req.of]
          rcases hrep.samples with h1 | h3
          · exact Or.inl ⟨by rw [h1]; rfl, (mem_mono_iff _).mp (hrep.pi_mono h1)⟩
          · exact Or.inr ⟨by rw [h3]; rfl, (hcol h3).1, (hcol h3).2⟩
        · rw [hspp]; simp only [Req.of]; exact h8'
      · refine ⟨2, ?_⟩
        obtain ⟨hint, hsz, hsgn⟩ := hrep.native_cells hts hba
        have hmul : p.bitsAllocated % 8 = 0 := by rcases hal with h | h; exact absurd h hba; exact h
        refine ⟨⟨⟨?_, ?_, ?_, ?_, ?_⟩, ?_, hrep.pixrep, ?_, hrep.stored.1, hrep.stored.2⟩, Or.inl ⟨hnat, ?_, Or.inr ⟨hba, ?_, ?_, ?_, ?_, rfl⟩⟩⟩
        · simp only [Req.of]; unfold Frame.ndim; cases x.samples <;> simp
        · simp only [Req.of]; omega
        · simp only [Req.of]; omega
        · simp only [Req.of]; omega
        · simp only [Req.of]; omega
        · intro h; simp only [Req.of] at h ⊢; exact hrep.planar (hnd.mp h)
        · simp only [Req.of]
          rcases hrep.samples with h1 | h3
          · exact Or.inl ((mem_mono_iff _).mp (hrep.pi_mono h1))
          · rcases (hcol h3).1 with h | h <;> rw [h] <;> simp [knownPI]
        · rw [hspp]; simp only [Req.of]
          rcases hrep.samples with h1 | h3
          · exact Or.inl ⟨by rw [h1]; rfl, (mem_mono_iff _).mp (hrep.pi_mono h1)⟩
          · exact Or.inr ⟨by rw [h3]; rfl, (hcol h3).1, (hcol h3).2⟩
        · simp only [Req.of]; exact hk.mpr hint
        · simp only [Req.of]; omega
        · simp only [Req.of]; rw [hsg]; exact hsgn
        · intro hlt; simp only [Req.of] at hlt ⊢; exact hrep.native_fits hts hba hlt
    obtain ⟨r, hs⟩ := key
    exact ⟨r, by rw [encodeRoute_eq]; exact route_complete _ r hs⟩

/-- what the JPEG-LS Lossless / JPEG 2000 Lossless branch demands beyond representability (highdicom's rules for these codecs:
    unsigned samples; monochrome frames 2-D without planar configuration, 8 or 16 bits -- JPEG 2000 also 1; colour frames
    colour-by-pixel in the codec's own colour space; JPEG 2000 at least 32 x 32, single-bit frames 0 / 1 valued) -/
def JpegLosslessScope (p : Params) (x : Frame) : Prop :=
  1 ≤ x.rows ∧ x.rows ≤ 65535 ∧ 1 ≤ x.cols ∧ x.cols ≤ 65535 ∧ p.pixelRepresentation = 0 ∧
  (x.spp = 1 → x.samples = none ∧ p.planar = none ∧
    (p.bitsAllocated = 8 ∨ p.bitsAllocated = 16 ∨ (p.ts = j2kLossless ∧ p.bitsAllocated = 1))) ∧
  (x.spp = 3 → p.planar = some 0 ∧ (p.bitsAllocated = 8 ∨ p.bitsAllocated = 16) ∧ p.pi = requiredPI p.ts) ∧
  (p.ts = j2kLossless → 32 ≤ x.rows ∧ 32 ≤ x.cols ∧
    (p.bitsAllocated = 1 → x.dtype = .bool ∨ ((x.dtype.kind = "u" ∨ x.dtype.kind = "i") ∧ 0 ≤ x.min ∧ x.max ≤ 1)))

theorem dtype_name_bool (d : DType) : d.name = "bool" ↔ d = .bool := by
  cases d <;> simp [DType.name]

/-- **JPEG-LS Lossless and JPEG 2000 Lossless, both directions**: `encode_frame`'s own checks pass **iff** the request is
representable and inside `JpegLosslessScope` (what lies behind -- the codec's own validation of dtype and content -- is the
codec law, `accepted_samples_fit_stored`). -/
theorem jpeg_lossless_accepted_iff (p : Params) (x : Frame) (hts : p.ts = jpegLs ∨ p.ts = j2kLossless) :
    (∃ r, encodeRoute p x = .ok r) ↔ (Representable p x ∧ JpegLosslessScope p x) := by
  have hspp := Req.of_spp p x
  have hnd := ndim_three_iff x
  have hnn : p.ts ∉ nativeSyntaxes := by
    rcases hts with h | h <;> rw [h] <;> decide
  have hrle : p.ts ≠ rle := by rcases hts with h | h <;> rw [h] <;> decide
  constructor
  · rintro ⟨r, hr⟩
    have hs := route_sound (Req.of p x) r (by rw [← encodeRoute_eq]; exact hr)
    obtain ⟨⟨⟨hndim, h1, h2, h3, h4⟩, hplanar, hpr, hpi, hbs1, hbs2⟩, hcases⟩ := hs
    simp only [NativeOK, BaselineOK, RleOK, JpegFamilyOK, hspp] at hcases
    simp only [Req.of] at hcases h1 h2 h3 h4 hplanar hpr hpi hbs1 hbs2 hndim
    have hal : p.bitsAllocated = 1 ∨ p.bitsAllocated % 8 = 0 := by
      simp only [jpegBaseline, rle, jpegLs, jpegLsNear, j2k, j2kLossless] at hcases hts
      grind
    refine ⟨representable_of_accepted p x r hr hrle hal, by omega, by omega, by omega, by omega, ?_, ?_, ?_, ?_⟩
    · simp only [jpegBaseline, rle, jpegLs, jpegLsNear, j2k, j2kLossless] at hcases hts; grind
    · intro h1s
      have h1i : (x.spp : Int) = 1 := by rw [h1s]; rfl
      have hpl : p.planar = none := by
        simp only [jpegBaseline, rle, jpegLs, jpegLsNear, j2k, j2kLossless] at hcases hts; grind
      refine ⟨?_, hpl, ?_⟩
      · -- a 3-D array needs a planar configuration, a monochrome JPEG frame must not have one
        cases hsm : x.samples with
        | none => rfl
        | some s =>
          exfalso
          have : (x.ndim : Int) > 2 := by unfold Frame.ndim; rw [hsm]; simp
          have := hplanar this
          rw [hpl] at this; rcases this with h | h <;> cases h
      · simp only [jpegBaseline, rle, jpegLs, jpegLsNear, j2k, j2kLossless] at hcases hts ⊢; grind
    · intro h3s
      have h3i : (x.spp : Int) = 3 := by rw [h3s]; rfl
      simp only [requiredPI, jpegBaseline, rle, jpegLs, jpegLsNear, j2k, j2kLossless] at hcases hts ⊢; grind
    · intro hj
      have hdn := dtype_name_bool x.dtype
      simp only [jpegBaseline, rle, jpegLs, jpegLsNear, j2k, j2kLossless] at hcases hts hj ⊢
      refine ⟨by grind, by grind, ?_⟩
      intro hb1
      by_cases hb : x.dtype = .bool
      · exact Or.inl hb
      · have : x.dtype.name ≠ "bool" := fun h => hb (hdn.mp h)
        right; grind
  · rintro ⟨hrep, hr1, hr2, hc1, hc2, hpr0, hmono, hcol, hj2k⟩
    have hdn := dtype_name_bool x.dtype
    have hcommon : Common (Req.of p x) := by
      refine ⟨⟨?_, ?_, ?_, ?_, ?_⟩, ?_, hrep.pixrep, ?_, hrep.stored.1, hrep.stored.2⟩
      · simp only [Req.of]; unfold Frame.ndim; cases x.samples <;> simp
      · simp only [Req.of]; omega
      · simp only [Req.of]; omega
      · simp only [Req.of]; omega
      · simp only [Req.of]; omega
      · intro h; simp only [Req.of] at h ⊢; exact hrep.planar (hnd.mp h)
      · simp only [Req.of]
        rcases hrep.samples with h1 | h3
        · exact Or.inl ((mem_mono_iff _).mp (hrep.pi_mono h1))
        · have := (hcol h3).2.2
          rcases hts with h | h <;> rw [h] at this <;> simp [requiredPI, jpegLs, j2k, j2kLossless] at this <;> rw [this] <;> simp [knownPI]
    have hroute : ∃ r, JpegFamilyOK (Req.of p x) r := by
      by_cases h41 : p.ts = j2kLossless ∧ p.bitsAllocated = 1
      · refine ⟨4, ?_⟩
        unfold JpegFamilyOK
        rw [hspp]; simp only [Req.of]
        obtain ⟨hj, hb1⟩ := h41
        obtain ⟨h32r, h32c, hcont⟩ := hj2k hj
        refine ⟨Or.inr (Or.inr (Or.inr hj)), hpr0, ?_, fun _ => ⟨by omega, by omega⟩, Or.inl ⟨hj, hb1, ?_, trivial⟩⟩
        · rcases hrep.samples with h1 | h3
          · obtain ⟨_, hpl, hba⟩ := hmono h1
            exact Or.inl ⟨by rw [h1]; rfl, hpl, (mem_mono_iff _).mp (hrep.pi_mono h1), hba⟩
          · exfalso; have := (hcol h3).2.1; omega
        · intro hnb
          rcases hcont hb1 with hb | hb
          · exact absurd (hdn.mpr hb) hnb
          · exact hb
      · refine ⟨5, ?_⟩
        unfold JpegFamilyOK
        rw [hspp]; simp only [Req.of]
        refine ⟨?_, hpr0, ?_, ?_, Or.inr ⟨h41, trivial⟩⟩
        · rcases hts with h | h
          · exact Or.inl h
          · exact Or.inr (Or.inr (Or.inr h))
        · rcases hrep.samples with h1 | h3
          · obtain ⟨_, hpl, hba⟩ := hmono h1
            exact Or.inl ⟨by rw [h1]; rfl, hpl, (mem_mono_iff _).mp (hrep.pi_mono h1), hba⟩
          · obtain ⟨hpl, hba, hpi⟩ := hcol h3
            exact Or.inr ⟨by rw [h3]; rfl, hpl, hba, hpi⟩
        · intro hj
          have hj' : p.ts = j2kLossless := by
            rcases hj with h | h
            · rcases hts with h' | h' <;> rw [h'] at h <;> simp [jpegLs, j2k, j2kLossless] at h
            · exact h
          obtain ⟨h32r, h32c, _⟩ := hj2k hj'
          exact ⟨by omega, by omega⟩
    obtain ⟨r, hs⟩ := hroute
    exact ⟨r, by rw [encodeRoute_eq]; exact route_complete _ r ⟨hcommon, Or.inr (Or.inr (Or.inr hs))⟩⟩

/-- **RLE Lossless, both directions**: `encode_frame` itself checks only the general rules and the number of samples; dtype,
cell width, photometric interpretation and content are left to pydicom's encoder (the codec law) -/
theorem rle_accepted_iff (p : Params) (x : Frame) (hts : p.ts = rle) :
    (∃ r, encodeRoute p x = .ok r) ↔ (Common (Req.of p x) ∧ (x.spp = 1 ∨ x.spp = 3)) := by
  have hspp := Req.of_spp p x
  constructor
  · rintro ⟨r, hr⟩
    obtain ⟨hc, hcases⟩ := route_sound (Req.of p x) r (by rw [← encodeRoute_eq]; exact hr)
    refine ⟨hc, ?_⟩
    simp only [NativeOK, BaselineOK, RleOK, JpegFamilyOK, hspp] at hcases
    simp only [Req.of, jpegBaseline, rle, jpegLs, jpegLsNear, j2k, j2kLossless] at hcases hts
    have : (x.spp : Int) = 1 ∨ (x.spp : Int) = 3 := by grind
    rcases this with h | h
    · left; exact_mod_cast h
    · right; exact_mod_cast h
  · rintro ⟨hc, hs⟩
    refine ⟨5, ?_⟩
    rw [encodeRoute_eq]
    refine route_complete _ 5 ⟨hc, Or.inr (Or.inr (Or.inl ⟨by simp only [Req.of]; exact hts, ?_, rfl⟩))⟩
    rw [hspp]
    rcases hs with h | h
    · left; rw [h]; rfl
    · right; rw [h]; rfl

/-! ### decode_frame's own parameter checks -/

/-- what `decode_frame` checks itself before it hands the bytes on, as a relation: the native single-bit branch takes anything;
    otherwise a known pixel representation and photometric interpretation, and a planar configuration of 0 / 1 for more
    than one sample -/
def DecodeSpec (enc : Bool) (ba s : Int) (pi : String) (pr : Int) (pc : Option Int) (r : Int) : Prop :=
  (ba = 1 ∧ enc = false ∧ r = 1) ∨
  (¬ (ba = 1 ∧ enc = false) ∧ (pr = 0 ∨ pr = 1) ∧ knownPI pi ∧ (s > 1 → pc = some 0 ∨ pc = some 1) ∧
    r = if enc then 3 else 2)

theorem decode_route_iff (enc : Bool) (ba s : Int) (pi : String) (pr : Int) (pc : Option Int) (r : Int) :
    decodeFrameRoute enc ba s pi pr pc = .ok r ↔ DecodeSpec enc ba s pi pr pc r := by
  unfold decodeFrameRoute DecodeSpec knownPI monoPI
  cases pc with
  | none => cases enc <;> simp only [] <;> grind (splits := 60)
  | some v => cases enc <;> simp only [Option.some.injEq] <;> grind (splits := 60)

/-- **Whatever `encode_frame` accepts passes `decode_frame`'s own parameter checks** with the same parameters and is
dispatched to the matching decoder: bit unpacking for native single-bit frames, pydicom's native decoder for native cells,
pydicom's encapsulated decoders otherwise -- `decode_frame` never refuses by itself what `encode_frame` produced. -/
theorem accepted_passes_decode_checks (p : Params) (x : Frame) (r : Int) (h : encodeRoute p x = .ok r) :
    decodeFrameRoute (isEncapsulated p.ts) p.bitsAllocated x.spp p.pi p.pixelRepresentation p.planar =
      .ok (if r = 1 then 1 else if r = 2 then 2 else 3) := by
  have hs := route_sound (Req.of p x) r (by rw [← encodeRoute_eq]; exact h)
  obtain ⟨⟨_, hplanar, hpr, hpi, _, _⟩, hcases⟩ := hs
  have hspp := Req.of_spp p x
  rw [decode_route_iff]
  simp only [Req.of] at hplanar hpr hpi
  have hpl : (x.spp : Int) > 1 → p.planar = some 0 ∨ p.planar = some 1 := by
    intro hgt
    apply hplanar
    unfold Frame.spp at hgt
    unfold Frame.ndim
    cases hsm : x.samples with
    | none => rw [hsm] at hgt; simp at hgt
    | some s => simp
  simp only [NativeOK, BaselineOK, RleOK, JpegFamilyOK, hspp] at hcases
  simp only [Req.of, jpegBaseline, rle, jpegLs, jpegLsNear, j2k, j2kLossless] at hcases
  unfold DecodeSpec
  rcases hcases with hc | hc | hc | hc
  · have hE : isEncapsulated p.ts = false := by rcases hc.1 with e | e <;> rw [e] <;> decide
    rw [hE]
    rcases hc.2.2 with h1 | h2
    · left; exact ⟨h1.1, rfl, by rw [h1.2.2]; rfl⟩
    · right; exact ⟨fun hh => h2.1 hh.1, hpr, hpi, hpl, by rw [h2.2.2.2.2.2]; rfl⟩
  · have hE : isEncapsulated p.ts = true := by rw [hc.1]; decide
    rw [hE]
    right; exact ⟨fun hh => absurd hh.2 (by decide), hpr, hpi, hpl, by rw [hc.2.2.2.2.2]; rfl⟩
  · have hE : isEncapsulated p.ts = true := by rw [hc.1]; decide
    rw [hE]
    right; exact ⟨fun hh => absurd hh.2 (by decide), hpr, hpi, hpl, by rw [hc.2.2]; rfl⟩
  · have hE : isEncapsulated p.ts = true := by rcases hc.1 with e | e | e | e <;> rw [e] <;> decide
    rw [hE]
    have hr45 : r = 4 ∨ r = 5 := by
      rcases hc.2.2.2.2 with h4 | h5
      · exact Or.inl h4.2.2.2
      · exact Or.inr h5.2
    right
    refine ⟨fun hh => absurd hh.2 (by decide), hpr, hpi, hpl, ?_⟩
    rcases hr45 with h4 | h5
    · rw [h4]; rfl
    · rw [h5]; rfl

end HdVerif.Codec
