import HdVerif.Proofs.Match
import HdVerif.Generated.TC09i
import HdVerif.Generated.TC09j
import HdVerif.Generated.TC09k
/-! C09: bridges between hand-written definitions of `Model/Match.lean` and expressions regenerated from the
current source of `volume.py` on every run:

* argument forwarding of the crop/pad loop of `match_geometry` (`Gen.mgPlanArgs`, TC09i): which per-axis sequence feeds
  which parameter of the translated loop body, which positions form `origin_offset`, the initial flags;
* argument forwarding of the alignment loops (`Gen.mgAlignArgs`, TC09j): whose unit vectors / spacings are `u, s`, `v, t`;
* the range tests, emptiness test, size, origin index and column factor of `_prepare_getitem_index`
  (`Gen.giCheckSlice`, `Gen.giAxis`, TC09k).

The hand-written `planAxis` / `matchPlan`, `alignAxis` / `matchAlign`, `getitemAxis` are proved to use exactly these. -/
namespace HdVerif.Match
open HdVerif HdVerif.Gen

/-! ## looking up a per-axis sequence -/

def axisVec (own other : Geom) : AxisSrc → Ax → Option V3
  | .unit .own, a => some (own.dir a)
  | .unit .other, a => some (other.dir a)
  | _, _ => none

def axisRat (own other : Geom) : AxisSrc → Ax → Option Rat
  | .spacing .own, a => some (own.spacing a)
  | .spacing .other, a => some (other.spacing a)
  | _, _ => none

def axisInt (own other : Geom) (steps : Ax → Int) : AxisSrc → Ax → Option Int
  | .shape .own, a => some (own.shape a)
  | .shape .other, a => some (other.shape a)
  | .steps, a => some (steps a)
  | _, _ => none

def posOf (own other : Geom) : GObj → V3
  | .own => own.pos
  | .other => other.pos

/-! ## crop/pad loop -/

/-- one iteration of the crop/pad loop with the forwarding described by `cfg` -/
def planAxisGen (cfg : PlanArgs) (own other : Geom) (steps : Ax → Int) (tol : Rat) (a : Ax) (rc rp : Bool) :
    Except ErrKind AxisPlan :=
  match axisVec own other cfg.offsetVec a, axisRat own other cfg.spacing a, axisInt own other steps cfg.step a,
        axisInt own other steps cfg.outShape a, axisInt own other steps cfg.inShape a with
  | some v, some sp, some st, some o, some i =>
    match mgCropPad (V3.dot v (V3.sub (posOf own other cfg.offsetFrom) (posOf own other cfg.offsetTo))) sp st o i tol rc rp with
    | .error e => .error e
    | .ok r => .ok (planOf r)
  | _, _, _, _, _ => .error .other

/-- the loop over the three axes, flags threaded from their regenerated initial values -/
def matchPlanGen (cfg : PlanArgs) (own other : Geom) (steps : Ax → Int) (tol : Rat) :
    Except ErrKind (AxisPlan × AxisPlan × AxisPlan) :=
  match planAxisGen cfg own other steps tol 0 cfg.cropInit cfg.padInit with
  | .error e => .error e
  | .ok p0 =>
  match planAxisGen cfg own other steps tol 1 p0.requiresCrop p0.requiresPad with
  | .error e => .error e
  | .ok p1 =>
  match planAxisGen cfg own other steps tol 2 p1.requiresCrop p1.requiresPad with
  | .error e => .error e
  | .ok p2 => .ok (p0, p1, p2)

/-- **bridge**: the model's per-axis plan forwards exactly what the source forwards -/
theorem planAxis_forwards_source_args (nv tgt : Geom) (steps : Ax → Int) (tol : Rat) (a : Ax) (rc rp : Bool) :
    planAxis nv tgt (steps a) tol a rc rp = planAxisGen mgPlanArgs nv tgt steps tol a rc rp := by
  simp only [planAxis, planAxisGen, mgPlanArgs, axisVec, axisRat, axisInt, posOf]
  generalize mgCropPad ((nv.dir a).dot (tgt.pos.sub nv.pos)) (nv.spacing a) (steps a) (tgt.shape a) (nv.shape a) tol rc rp = r
  cases r <;> rfl

/-- **bridge**: … and the loop threads the flags from the source's initial values -/
theorem matchPlan_forwards_source_args (nv tgt : Geom) (steps : Ax → Int) (tol : Rat) :
    matchPlan nv tgt steps tol = matchPlanGen mgPlanArgs nv tgt steps tol := by
  unfold matchPlan matchPlanGen
  simp only [planAxis_forwards_source_args]
  have hc : mgPlanArgs.cropInit = false := rfl
  have hp : mgPlanArgs.padInit = false := rfl
  rw [hc, hp]
  generalize planAxisGen mgPlanArgs nv tgt steps tol 0 false false = r0
  cases r0 with
  | error e => rfl
  | ok p0 =>
    simp only []
    generalize planAxisGen mgPlanArgs nv tgt steps tol 1 p0.requiresCrop p0.requiresPad = r1
    cases r1 with
    | error e => rfl
    | ok p1 =>
      simp only []
      generalize planAxisGen mgPlanArgs nv tgt steps tol 2 p1.requiresCrop p1.requiresPad = r2
      cases r2 <;> rfl

/-! ## alignment loops -/

/-- the translated alignment test for target axis `i` and candidate source axis `j` -/
def alignTry (cfg : AlignArgs) (own other : Geom) (i j : Ax) (tol : Rat) : Except ErrKind (Bool × Int) :=
  match axisVec own other cfg.u i, axisVec own other cfg.v j, axisRat own other cfg.s i, axisRat own other cfg.t j with
  | some u, some v, some s, some t => mgAlign (V3.dot u v) s t tol
  | _, _, _, _ => .error .other

/-- inner loop: candidates in increasing order, the first accepted one wins, none ⇒ RuntimeError -/
def alignAxisGen (cfg : AlignArgs) (own other : Geom) (i : Ax) (tol : Rat) : Except ErrKind (Ax × Int) :=
  match alignTry cfg own other i 0 tol with
  | .error e => .error e
  | .ok (true, st) => .ok (0, st)
  | .ok (false, _) =>
  match alignTry cfg own other i 1 tol with
  | .error e => .error e
  | .ok (true, st) => .ok (1, st)
  | .ok (false, _) =>
  match alignTry cfg own other i 2 tol with
  | .error e => .error e
  | .ok (true, st) => .ok (2, st)
  | .ok (false, _) => .error .runtime

/-- **bridge**: the model's inner alignment loop forwards exactly what the source forwards -/
theorem alignAxis_forwards_source_args (src tgt : Geom) (i : Ax) (tol : Rat) :
    alignAxis src (tgt.dir i) (tgt.spacing i) tol = alignAxisGen mgAlignArgs src tgt i tol := by
  have htry : ∀ j, alignTry mgAlignArgs src tgt i j tol =
      mgAlign ((tgt.dir i).dot (src.dir j)) (tgt.spacing i) (src.spacing j) tol := by
    intro j; simp only [alignTry, mgAlignArgs, axisVec, axisRat]
  unfold alignAxis alignAxisGen
  rw [htry 0, htry 1, htry 2]
  generalize mgAlign ((tgt.dir i).dot (src.dir 0)) (tgt.spacing i) (src.spacing 0) tol = r0
  generalize mgAlign ((tgt.dir i).dot (src.dir 1)) (tgt.spacing i) (src.spacing 1) tol = r1
  generalize mgAlign ((tgt.dir i).dot (src.dir 2)) (tgt.spacing i) (src.spacing 2) tol = r2
  cases r0 with
  | error e => rfl
  | ok p0 =>
    obtain ⟨b0, s0⟩ := p0
    cases b0
    · cases r1 with
      | error e => rfl
      | ok p1 =>
        obtain ⟨b1, s1⟩ := p1
        cases b1
        · cases r2 with
          | error e => rfl
          | ok p2 =>
            obtain ⟨b2, s2⟩ := p2
            cases b2 <;> rfl
        · rfl
    · rfl

/-- **bridge**: the outer loop runs over the target's axes 0, 1, 2 -/
theorem matchAlign_forwards_source_args (src tgt : Geom) (tol : Rat) :
    matchAlign src tgt tol =
      (match alignAxisGen mgAlignArgs src tgt 0 tol with
       | .error e => .error e
       | .ok a0 =>
       match alignAxisGen mgAlignArgs src tgt 1 tol with
       | .error e => .error e
       | .ok a1 =>
       match alignAxisGen mgAlignArgs src tgt 2 tol with
       | .error e => .error e
       | .ok a2 => .ok (mk3 a0.1 a1.1 a2.1, mk3 a0.2 a1.2 a2.2)) := by
  unfold matchAlign
  simp only [alignAxis_forwards_source_args]
  generalize alignAxisGen mgAlignArgs src tgt 0 tol = r0
  generalize alignAxisGen mgAlignArgs src tgt 1 tol = r1
  generalize alignAxisGen mgAlignArgs src tgt 2 tol = r2
  cases r0 with
  | error e => rfl
  | ok a0 =>
    cases r1 with
    | error e => rfl
    | ok a1 => cases r2 <;> rfl

/-! ## `_prepare_getitem_index` -/

theorem abs_if_natAbs (x : Int) : (if x < 0 then -x else x) = (x.natAbs : Int) := by
  split <;> omega

/-- **bridge**: one sliced axis of the model's `__getitem__` is the regenerated `_check_slice`, then (for a non-zero
step) the regenerated emptiness test / size / origin / column factor applied to what `slice.indices` returns -/
theorem giAxis_eq (first last step : Int) (hstep : step ≠ 0) :
    giAxis first last step =
      (if last - first = 0 || (decide (last - first < 0) != decide (step < 0)) then .error .index
       else .ok (first, step, (((last - first).natAbs : Int) - 1) / (step.natAbs : Int) + 1)) := by
  unfold giAxis
  simp only [abs_if_natAbs]
  have hpos : (0 : Int) < (step.natAbs : Int) := by omega
  rw [fdiv_pos _ _ hpos]
  have hb : (last - first == 0) = decide (last - first = 0) := by
    by_cases h : last - first = 0 <;> simp [h]
  rw [hb]
  generalize (decide (last - first = 0) || (decide (last - first < 0) != decide (step < 0))) = c
  cases c <;> rfl

theorem giCheckSlice_eq (start : Int) (stop : Option Int) (n : Int) :
    giCheckSlice (some start) stop n =
      (if (decide (start < -n) || decide (start ≥ n)) = true then .error .value
       else if stopOutOfRange stop n = true then .error .value else .ok true) := by
  unfold giCheckSlice stopOutOfRange
  rcases stop with _ | e
  · by_cases h1 : (decide (start < -n) || decide (start ≥ n)) = true <;> simp [h1]
  · by_cases h1 : (decide (start < -n) || decide (start ≥ n)) = true
    · simp [h1]
    · by_cases h2 : (decide (e < -n - 1) || decide (e > n)) = true <;> simp [h1, h2]

/-- **bridge**: one sliced axis of the model's `__getitem__` is the regenerated `_check_slice`, then (for a non-zero
step) the regenerated emptiness test / size / origin / column factor applied to what `slice.indices` returns -/
theorem getitemAxis_uses_source (s : Sl) (n : Int) :
    getitemAxis s n =
      (match giCheckSlice (some s.start) s.stop n with
       | .error e => .error e
       | .ok _ =>
         if s.step = 0 then .error .value
         else giAxis (adjustBound s.start n s.step) (lastOf s n) s.step) := by
  rw [giCheckSlice_eq]
  unfold getitemAxis
  by_cases h1 : (decide (s.start < -n) || decide (s.start ≥ n)) = true
  · rw [if_pos h1, if_pos h1]
  · rw [if_neg h1, if_neg h1]
    by_cases h2 : stopOutOfRange s.stop n = true
    · rw [if_pos h2, if_pos h2]
    · rw [if_neg h2, if_neg h2]
      simp only []
      by_cases h0 : s.step = 0
      · rw [if_pos h0, if_pos h0]
      · rw [if_neg h0, if_neg h0, giAxis_eq _ _ _ h0]

end HdVerif.Match
