import HdVerif.Model.SRTree
/-! Lemmas about the conversion of a content tree (`Model/SRTree.lean`). -/
namespace HdVerif.SRTree
open HdVerif

/-! ## one data set -/

theorem checkNode_ok_iff (r : Bool) (a : Attrs) : (∃ b, checkNode r a = .ok b) ↔ NodeOk r a := by
  unfold checkNode NodeOk
  constructor
  · rintro ⟨b, h⟩
    cases hvt : a.lookup "ValueType" with
    | none => simp [hvt] at h
    | some vt =>
      simp only [hvt] at h
      split at h
      · cases h
      rename_i hmem
      split at h
      · cases h
      rename_i hrel
      split at h
      · rename_i cls req hc hr
        split at h
        · cases h
        rename_i hall
        refine ⟨vt, cls, req, rfl, by simpa using hmem, ?_, hc, hr, ?_, ?_⟩
        · cases r <;> simp_all
        · intro kw hkw
          simp only [Bool.not_eq_true', Bool.not_eq_false] at hall
          exact List.all_eq_true.mp hall kw hkw
        · split at h
          · rename_i hn; exact Or.inl hn
          · split at h
            · rename_i ho; exact Or.inr ho
            · cases h
      · cases h
  · rintro ⟨vt, cls, req, hvt, hmem, hrel, hc, hr, hall, hname⟩
    have hall' : req.all (has a) = true := List.all_eq_true.mpr hall
    have hrel' : (!r && !has a "RelationshipType") = false := by
      rcases hrel with h | h <;> simp [h]
    simp only [hvt, hmem, hrel', hc, hr, hall', Bool.not_true, Bool.false_eq_true, if_false]
    by_cases hn : has a "ConceptNameCodeSequence" = true
    · exact ⟨false, by simp [hn]⟩
    · rcases hname with h | h
      · exact absurd h hn
      · exact ⟨true, by simp [hn]; simpa using h⟩

/-- the default name is stored exactly where the specification (`needsName`) says -/
theorem checkNode_add (r : Bool) (a : Attrs) (b : Bool) (h : checkNode r a = .ok b) : b = needsName a := by
  unfold checkNode at h
  unfold needsName
  cases hvt : a.lookup "ValueType" with
  | none => simp [hvt] at h
  | some vt =>
    simp only [hvt] at h ⊢
    split at h
    · cases h
    split at h
    · cases h
    split at h
    · rename_i cls req hc hr
      split at h
      · cases h
      simp only [hc]
      by_cases hn : has a "ConceptNameCodeSequence" = true
      · simp only [hn, if_true] at h
        cases h
        simp [hn]
      · simp only [hn, Bool.false_eq_true, if_false] at h
        split at h
        · rename_i ho
          cases h
          simp [hn]
          simpa using ho
        · cases h
    · cases h

/-! ## the whole tree -/

mutual
theorem convert_eq_named (r : Bool) : ∀ (t t' : Node), convert r t = .ok t' → t' = named t
  | .mk a hs ch, t', h => by
    unfold convert at h
    cases hc : checkNode r a with
    | error e => simp [hc] at h
    | ok add =>
      have hadd := checkNode_add r a add hc
      simp only [hc] at h
      unfold named
      cases hs with
      | false =>
        simp only [Bool.false_eq_true, if_false, Except.ok.injEq] at h
        rw [← h, hadd]
        rfl
      | true =>
        simp only [if_true] at h
        cases hl : convertList ch with
        | error e => simp [hl] at h
        | ok ch' =>
          simp only [hl, Except.ok.injEq] at h
          rw [← h, hadd, convertList_eq_named ch ch' hl]
          rfl
theorem convertList_eq_named : ∀ (l l' : List Node), convertList l = .ok l' → l' = namedList l
  | [], l', h => by
    unfold convertList at h
    cases h
    rfl
  | x :: xs, l', h => by
    unfold convertList at h
    cases hx : convert false x with
    | error e => simp [hx] at h
    | ok x' =>
      simp only [hx] at h
      cases hxs : convertList xs with
      | error e => simp [hxs] at h
      | ok xs' =>
        simp only [hxs, Except.ok.injEq] at h
        rw [← h, convert_eq_named false x x' hx, convertList_eq_named xs xs' hxs]
        rfl
end

mutual
theorem convert_ok_iff (r : Bool) : ∀ (t : Node), (∃ t', convert r t = .ok t') ↔ WellFormed r t
  | .mk a hs ch => by
    unfold convert WellFormed
    rw [← checkNode_ok_iff]
    constructor
    · rintro ⟨t', h⟩
      cases hc : checkNode r a with
      | error e => simp [hc] at h
      | ok add =>
        refine ⟨⟨add, rfl⟩, ?_⟩
        intro hhs
        simp only [hc, hhs, if_true] at h
        cases hl : convertList ch with
        | error e => simp [hl] at h
        | ok ch' => exact (convertList_ok_iff ch).mp ⟨ch', hl⟩
    · rintro ⟨⟨add, hc⟩, hch⟩
      simp only [hc]
      cases hs with
      | false => exact ⟨_, rfl⟩
      | true =>
        obtain ⟨ch', hl⟩ := (convertList_ok_iff ch).mpr (hch rfl)
        simp only [hl, if_true]
        exact ⟨_, rfl⟩
theorem convertList_ok_iff : ∀ (l : List Node), (∃ l', convertList l = .ok l') ↔ WellFormedList l
  | [] => by
    unfold convertList WellFormedList
    simp
  | x :: xs => by
    unfold convertList WellFormedList
    rw [← convert_ok_iff false x, ← convertList_ok_iff xs]
    constructor
    · rintro ⟨l', h⟩
      cases hx : convert false x with
      | error e => simp [hx] at h
      | ok x' =>
        simp only [hx] at h
        cases hxs : convertList xs with
        | error e => simp [hxs] at h
        | ok xs' => exact ⟨⟨x', rfl⟩, ⟨xs', rfl⟩⟩
    · rintro ⟨⟨x', hx⟩, ⟨xs', hxs⟩⟩
      simp only [hx, hxs]
      exact ⟨_, rfl⟩
end

/-! ## converting a converted tree again changes nothing (what the parser does to a written document) -/

theorem lookup_withName (a : Attrs) (b : Bool) (kw : String) :
    (withName a b).lookup kw =
      (a.lookup kw).or (if b && kw == "ConceptNameCodeSequence" then some Gen.srDefaultName else none) := by
  unfold withName
  cases b with
  | false => simp
  | true =>
    simp only [if_true, List.lookup_append, Bool.true_and]
    congr 1
    simp only [List.lookup]
    split <;> simp_all

theorem has_withName (a : Attrs) (b : Bool) (kw : String) :
    has (withName a b) kw = (has a kw || (b && kw == "ConceptNameCodeSequence")) := by
  unfold has
  rw [lookup_withName, Option.isSome_or]
  congr 1
  split <;> simp_all

theorem lookup_withName_of_ne (a : Attrs) (b : Bool) (kw : String) (h : kw ≠ "ConceptNameCodeSequence") :
    (withName a b).lookup kw = a.lookup kw := by
  rw [lookup_withName]
  have : (kw == "ConceptNameCodeSequence") = false := by simpa using h
  simp [this]

theorem needsName_has (a : Attrs) (h : needsName a = true) : has a "ConceptNameCodeSequence" = false := by
  unfold needsName at h
  simp only [Bool.and_eq_true, Bool.not_eq_true'] at h
  exact h.1

/-- a data set the conversion accepts is accepted again after the default name was stored, and needs no name then -/
theorem checkNode_named (r : Bool) (a : Attrs) (h : NodeOk r a) :
    checkNode r (withName a (needsName a)) = .ok false := by
  obtain ⟨vt, cls, req, hvt, hmem, hrel, hc, hr, hall, hname⟩ := h
  have hvt' : (withName a (needsName a)).lookup "ValueType" = some vt := by
    rw [lookup_withName_of_ne _ _ _ (by decide)]; exact hvt
  have hn : needsName a = (!has a "ConceptNameCodeSequence" && Gen.srOptionalNameClasses.contains cls) := by
    unfold needsName
    simp only [hvt, hc]
  have hname' : has (withName a (needsName a)) "ConceptNameCodeSequence" = true := by
    rw [has_withName, hn]
    rcases hname with h | h
    · rw [h]; rfl
    · rw [h]
      cases has a "ConceptNameCodeSequence" <;> rfl
  have hrel' : (!r && !has (withName a (needsName a)) "RelationshipType") = false := by
    rw [has_withName]
    rcases hrel with h | h <;> simp [h]
  have hall' : req.all (has (withName a (needsName a))) = true := by
    apply List.all_eq_true.mpr
    intro kw hkw
    rw [has_withName, hall kw hkw]
    rfl
  unfold checkNode
  simp only [hvt', hmem, hrel', hc, hr, hall', hname', Bool.not_true, Bool.false_eq_true, if_false, if_true]

mutual
theorem convert_named (r : Bool) : ∀ (t : Node), WellFormed r t → convert r (named t) = .ok (named t)
  | .mk a hs ch, h => by
    unfold WellFormed at h
    obtain ⟨hok, hch⟩ := h
    have hck := checkNode_named r a hok
    have hnn : withName (withName a (needsName a)) false = withName a (needsName a) := rfl
    cases hs with
    | false =>
      unfold named convert
      simp only [hck, Bool.false_eq_true, if_false, hnn]
    | true =>
      have := convertList_named ch (hch rfl)
      unfold named convert
      simp only [hck, if_true, this, hnn]
theorem convertList_named : ∀ (l : List Node), WellFormedList l → convertList (namedList l) = .ok (namedList l)
  | [], _ => by
    unfold namedList convertList
    rfl
  | x :: xs, h => by
    unfold WellFormedList at h
    unfold namedList convertList
    simp only [convert_named false x h.1, convertList_named xs h.2]
end

/-! ## the root item through the document data set -/

/-- the keywords `_SR.from_dataset` copies (without `ContentSequence`, which is the children field) -/
def rootKeys : List String :=
  (Gen.srParsedRootAttributes.map Prod.fst).filter (· != "ContentSequence")

theorem pickRoot_lookup (doc : Attrs) : ∀ (L : List (String × Bool)) (a : Attrs), pickRoot doc L = .ok a →
    ∀ kw, a.lookup kw = if ((L.map Prod.fst).filter (· != "ContentSequence")).contains kw then doc.lookup kw else none
  | [], a, h, kw => by
    unfold pickRoot at h
    cases h
    simp
  | (k, cond) :: rest, a, h, kw => by
    unfold pickRoot at h
    by_cases hcs : (k == "ContentSequence") = true
    · simp only [hcs, if_true] at h
      have := pickRoot_lookup doc rest a h kw
      have hk : (k != "ContentSequence") = false := by simp [bne, hcs]
      simpa [List.filter, hk] using this
    · simp only [hcs, Bool.false_eq_true, if_false] at h
      have hk : (k != "ContentSequence") = true := by simp [bne, hcs]
      cases hd : doc.lookup k with
      | some v =>
        simp only [hd] at h
        cases hr : pickRoot doc rest with
        | error e => simp [hr, Except.map] at h
        | ok a' =>
          simp only [hr, Except.map, Except.ok.injEq] at h
          subst h
          have ih := pickRoot_lookup doc rest a' hr kw
          simp only [List.map_cons, List.filter, hk, List.contains_cons, List.lookup_cons]
          by_cases hkk : (kw == k) = true
          · have : kw = k := by simpa using hkk
            subst this
            simp [hd]
          · simp only [hkk, Bool.false_or]
            exact ih
      | none =>
        simp only [hd] at h
        cases cond with
        | false => simp at h
        | true =>
          simp only [if_true] at h
          have ih := pickRoot_lookup doc rest a h kw
          simp only [List.map_cons, List.filter, hk, List.contains_cons]
          by_cases hkk : (kw == k) = true
          · have : kw = k := by simpa using hkk
            subst this
            simp only [BEq.rfl, Bool.true_or, if_true, hd]
            rw [ih, hd]
            split <;> rfl
          · simp only [hkk, Bool.false_or]
            exact ih

theorem pickRoot_ok (doc : Attrs) : ∀ (L : List (String × Bool)),
    (∀ kc ∈ L, kc.2 = false → kc.1 ≠ "ContentSequence" → (doc.lookup kc.1).isSome) → ∃ a, pickRoot doc L = .ok a
  | [], _ => ⟨[], rfl⟩
  | (k, cond) :: rest, h => by
    obtain ⟨a', ha'⟩ := pickRoot_ok doc rest (fun kc hkc => h kc (List.mem_cons_of_mem _ hkc))
    unfold pickRoot
    by_cases hcs : (k == "ContentSequence") = true
    · simp only [hcs, if_true]; exact ⟨a', ha'⟩
    · simp only [hcs, Bool.false_eq_true, if_false]
      cases hd : doc.lookup k with
      | some v => simp only [ha', Except.map]; exact ⟨_, rfl⟩
      | none =>
        cases cond with
        | true => simp only [if_true]; exact ⟨a', ha'⟩
        | false =>
          have := h (k, false) (List.mem_cons_self) rfl (by simpa using hcs)
          simp [hd] at this


theorem checkNode_of_named (r : Bool) (a : Attrs) (h : NodeOk r a) (hn : has a "ConceptNameCodeSequence" = true) :
    checkNode r a = .ok false := by
  obtain ⟨vt, cls, req, hvt, hmem, hrel, hc, hr, hall, _⟩ := h
  have hrel' : (!r && !has a "RelationshipType") = false := by
    rcases hrel with h | h <;> simp [h]
  have hall' : req.all (has a) = true := List.all_eq_true.mpr hall
  unfold checkNode
  simp only [hvt, hmem, hrel', hc, hr, hall', hn, Bool.not_true, Bool.false_eq_true, if_false, if_true]

/-- facts about the regenerated tables the round trip of the ROOT item rests on: the attributes the parser copies
unconditionally are the three a CONTAINER must have anyway; a CONTAINER requires `ContinuityOfContent`, is parsed by
`ContainerContentItem`, which may not lack a concept name; `RelationshipType` is not copied onto the parsed root -/
theorem root_tables :
    (∀ kc ∈ Gen.srParsedRootAttributes, kc.2 = false → kc.1 ≠ "ContentSequence" →
      kc.1 ∈ ["ValueType", "ConceptNameCodeSequence", "ContinuityOfContent"]) ∧
    Gen.srRequiredAttributes.lookup "CONTAINER" = some ["ContinuityOfContent"] ∧
    Gen.srContentItemClasses.lookup "CONTAINER" = some "ContainerContentItem" ∧
    Gen.srOptionalNameClasses.contains "ContainerContentItem" = false ∧
    Gen.srValueTypes.contains "CONTAINER" = true ∧
    rootKeys.contains "RelationshipType" = false ∧
    rootKeys.contains "ValueType" = true ∧ rootKeys.contains "ConceptNameCodeSequence" = true ∧
    rootKeys.contains "ContinuityOfContent" = true := by
  decide +kernel

/-- **The root item through the document data set and back.** -/
theorem parse_written_root (own : Attrs) (t t' : Node) (hconv : convertRoot t = .ok t') (hseq : t'.hasSeq = true)
    (hown : ∀ kw, rootKeys.contains kw = true → own.lookup kw = none) :
    ∃ p, parseDoc (writeDoc own t') = .ok p ∧ p.hasSeq = true ∧ p.children = t'.children ∧
      ∀ kw, p.attrs.lookup kw = if rootKeys.contains kw then t'.attrs.lookup kw else none := by
  obtain ⟨hT1, hT2, hT3, hT4, hT5, hT6, hT7, hT8, hT9⟩ := root_tables
  -- what the constructor's conversion established
  unfold convertRoot at hconv
  cases hc : convert true t with
  | error e => simp [hc] at hconv
  | ok t0 =>
    simp only [hc] at hconv
    unfold rootChecks at hconv
    split at hconv
    · cases hconv
    rename_i hnorel
    split at hconv
    · cases hconv
    rename_i hvt
    simp only [Except.ok.injEq] at hconv
    subst hconv
    have hwf : WellFormed true t := (convert_ok_iff true t).mp ⟨t0, hc⟩
    have hnamed := convert_eq_named true t t0 hc
    obtain ⟨a, hs, ch⟩ := t
    unfold WellFormed at hwf
    obtain ⟨hok, hch⟩ := hwf
    unfold named at hnamed
    subst hnamed
    simp only [Node.hasSeq] at hseq
    subst hseq
    simp only [Node.attrs] at hnorel hvt
    simp only [if_true]
    have hckA : checkNode true (withName a (needsName a)) = .ok false := checkNode_named true a hok
    clear hc
    generalize withName a (needsName a) = A at *
    have hvtA : A.lookup "ValueType" = some "CONTAINER" := by
      cases hl : A.lookup "ValueType" with
      | none => simp [hl] at hvt
      | some v => simpa [hl] using hvt
    have hokA : NodeOk true A := (checkNode_ok_iff true A).mp ⟨false, hckA⟩
    obtain ⟨vt, cls, req, h1, _, _, h4, h5, h6, h7⟩ := hokA
    rw [hvtA] at h1
    cases h1
    rw [hT3] at h4
    cases h4
    rw [hT2] at h5
    cases h5
    have hnameA : has A "ConceptNameCodeSequence" = true := by
      rcases h7 with h | h
      · exact h
      · rw [hT4] at h; cases h
    have hcontA : has A "ContinuityOfContent" = true := h6 _ (by simp)
    -- lookups in the document data set
    have hdoc : ∀ kw, rootKeys.contains kw = true → (own ++ A).lookup kw = A.lookup kw := by
      intro kw hkw
      rw [List.lookup_append, hown kw hkw]
      rfl
    -- the parser picks the root attributes
    have hpick : ∃ pa, pickRoot (own ++ A) Gen.srParsedRootAttributes = .ok pa := by
      apply pickRoot_ok
      intro kc hkc hm hne
      have := hT1 kc hkc hm hne
      simp only [List.mem_cons, List.mem_nil_iff, or_false] at this
      rcases this with h | h | h
      · rw [h, hdoc _ hT7, hvtA]; rfl
      · rw [h, hdoc _ hT8]; exact hnameA
      · rw [h, hdoc _ hT9]; exact hcontA
    obtain ⟨pa, hpa⟩ := hpick
    have hlook : ∀ kw, pa.lookup kw = if rootKeys.contains kw then A.lookup kw else none := by
      intro kw
      have := pickRoot_lookup (own ++ A) Gen.srParsedRootAttributes pa hpa kw
      rw [this]
      unfold rootKeys
      split
      · rename_i hk; exact hdoc kw hk
      · rfl
    have hpaok : NodeOk true pa := by
      refine ⟨"CONTAINER", "ContainerContentItem", ["ContinuityOfContent"], ?_, hT5, Or.inl rfl, hT3, hT2, ?_, Or.inl ?_⟩
      · rw [hlook, hT7]; exact hvtA
      · intro kw hkw
        simp only [List.mem_cons, List.mem_nil_iff, or_false] at hkw
        subst hkw
        unfold has
        rw [hlook, hT9]
        exact hcontA
      · unfold has
        rw [hlook, hT8]
        exact hnameA
    have hpaname : has pa "ConceptNameCodeSequence" = true := by
      unfold has
      rw [hlook, hT8]
      exact hnameA
    have hckpa := checkNode_of_named true pa hpaok hpaname
    have hchildren := convertList_named ch (hch rfl)
    refine ⟨.mk pa true (namedList ch), ?_, rfl, rfl, hlook⟩
    unfold parseDoc writeDoc
    simp only [Node.hasSeq, Node.attrs, Node.children, Bool.not_true, Bool.false_eq_true, if_false, hpa]
    unfold convertRoot convert
    simp only [hckpa, if_true, hchildren]
    have hw : withName pa false = pa := rfl
    unfold rootChecks
    have hrel : has pa "RelationshipType" = false := by
      unfold has
      rw [hlook, hT6]
      rfl
    have hvtpa : pa.lookup "ValueType" = some "CONTAINER" := by rw [hlook, hT7]; exact hvtA
    simp only [hw, Node.attrs, hrel, hvtpa, Bool.false_eq_true, if_false, bne_self_eq_false]

/-! ## unchanged trees, reachable data sets -/

mutual
/-- no reachable data set lacks a concept name where the parser would store the default one -/
def AllNamed : Node → Prop
  | .mk a hs ch => needsName a = false ∧ (hs = true → AllNamedList ch)
def AllNamedList : List Node → Prop
  | [] => True
  | x :: xs => AllNamed x ∧ AllNamedList xs
end

mutual
theorem named_eq_self : ∀ (t : Node), AllNamed t → named t = t
  | .mk a hs ch, h => by
    unfold AllNamed at h
    unfold named
    have : withName a (needsName a) = a := by rw [h.1]; rfl
    rw [this]
    cases hs with
    | false => rfl
    | true => simp only [if_true]; rw [namedList_eq_self ch (h.2 rfl)]
theorem namedList_eq_self : ∀ (l : List Node), AllNamedList l → namedList l = l
  | [], _ => by unfold namedList; rfl
  | x :: xs, h => by
    unfold AllNamedList at h
    unfold namedList
    rw [named_eq_self x h.1, namedList_eq_self xs h.2]
end

/-- `x` is reachable from `t` through content sequences (at any depth ≥ 1) -/
inductive Reach : Node → Node → Prop
  | child {a ch x} : x ∈ ch → Reach (.mk a true ch) x
  | deeper {a ch y x} : y ∈ ch → Reach y x → Reach (.mk a true ch) x

theorem wellFormedList_mem : ∀ (l : List Node) (x : Node), WellFormedList l → x ∈ l → WellFormed false x
  | [], _, _, hx => by cases hx
  | y :: ys, x, h, hx => by
    unfold WellFormedList at h
    rcases List.mem_cons.mp hx with rfl | hx
    · exact h.1
    · exact wellFormedList_mem ys x h.2 hx

theorem wellFormed_attrs (r : Bool) (t : Node) (h : WellFormed r t) : NodeOk r t.attrs := by
  obtain ⟨a, hs, ch⟩ := t
  unfold WellFormed at h
  exact h.1

/-- every data set reachable from an accepted tree is itself acceptable (below the root: with a relationship type) -/
theorem wellFormed_reach {t x : Node} (hr : Reach t x) : ∀ r, WellFormed r t → NodeOk false x.attrs := by
  induction hr with
  | child hx =>
    intro r h
    unfold WellFormed at h
    exact wellFormed_attrs false _ (wellFormedList_mem _ _ (h.2 rfl) hx)
  | deeper hy _ ih =>
    intro r h
    unfold WellFormed at h
    exact ih false (wellFormedList_mem _ _ (h.2 rfl) hy)

theorem convertRoot_ok_iff (t : Node) :
    (∃ t', convertRoot t = .ok t') ↔
      WellFormed true t ∧ has t.attrs "RelationshipType" = false ∧ t.attrs.lookup "ValueType" = some "CONTAINER" := by
  have key : ∀ a : Attrs, has (withName a (needsName a)) "RelationshipType" = has a "RelationshipType" ∧
      (withName a (needsName a)).lookup "ValueType" = a.lookup "ValueType" := by
    intro a
    refine ⟨?_, lookup_withName_of_ne _ _ _ (by decide)⟩
    rw [has_withName]
    have : ("RelationshipType" == "ConceptNameCodeSequence") = false := by decide
    simp [this]
  unfold convertRoot
  constructor
  · rintro ⟨t', h⟩
    cases hc : convert true t with
    | error e => simp [hc] at h
    | ok t0 =>
      have hwf := (convert_ok_iff true t).mp ⟨t0, hc⟩
      have hn := convert_eq_named true t t0 hc
      simp only [hc] at h
      unfold rootChecks at h
      obtain ⟨a, hs, ch⟩ := t
      subst hn
      unfold named at h
      simp only [Node.attrs] at h ⊢
      simp only [(key a).1, (key a).2] at h
      split at h
      · cases h
      rename_i h1
      split at h
      · cases h
      rename_i h2
      refine ⟨hwf, by simpa using h1, ?_⟩
      cases hl : a.lookup "ValueType" with
      | none => simp [hl] at h2
      | some v => simpa [hl] using h2
  · rintro ⟨hwf, h1, h2⟩
    obtain ⟨t0, hc⟩ := (convert_ok_iff true t).mpr hwf
    have hn := convert_eq_named true t t0 hc
    simp only [hc]
    obtain ⟨a, hs, ch⟩ := t
    subst hn
    unfold rootChecks named
    simp only [Node.attrs] at h1 h2 ⊢
    simp only [(key a).1, (key a).2, h1, h2]
    exact ⟨_, rfl⟩

theorem convertRoot_eq_named (t t' : Node) (h : convertRoot t = .ok t') : t' = named t := by
  unfold convertRoot at h
  cases hc : convert true t with
  | error e => simp [hc] at h
  | ok t0 =>
    simp only [hc] at h
    unfold rootChecks at h
    split at h
    · cases h
    split at h
    · cases h
    cases h
    exact convert_eq_named true t _ hc

end HdVerif.SRTree

namespace HdVerif.SRTree
open HdVerif

/-! ## the parsers change no value (over the regenerated table of their stores) -/

/-- every store of every content item parser (and of the helpers they call on the data set) is one of the four the model
knows: the class change, the default concept name, the conversion of the children, the re-wrap of a code sequence item -/
theorem parser_stores_known :
    (Gen.srParserStores.all fun r => ["class", "default-name", "children", "rewrap"].contains r.2.2.2.2) = true ∧
    Gen.srParserOtherCalls = [] := by
  decide +kernel

theorem unknownStores_nil (cls kw : String) : unknownStores cls kw = [] := by
  unfold unknownStores
  have h := List.all_eq_true.mp parser_stores_known.1
  have : (Gen.srParserStores.filter fun r =>
      (r.1 == cls || r.1 == "ContentItem" || r.1.startsWith "helper:") && r.2.2.1.head? == some kw &&
        !(["class", "default-name", "children", "rewrap"].contains r.2.2.2.2)) = [] := by
    apply List.filter_eq_nil_iff.mpr
    intro r hr
    have := h r hr
    simp only [this, Bool.not_true, Bool.and_false, Bool.false_eq_true, not_false_eq_true]
  rw [this]
  rfl

theorem storedAttrs_id (X : String → String → String) (a : Attrs) : storedAttrs X a = a := by
  unfold storedAttrs
  simp only [unknownStores_nil, List.foldl_nil]
  exact List.map_id' a

mutual
theorem reStore_id (X : String → String → String) : ∀ t : Node, reStore X t = t
  | .mk a hs ch => by
    unfold reStore
    rw [storedAttrs_id, reStoreList_id X ch]
theorem reStoreList_id (X : String → String → String) : ∀ l : List Node, reStoreList X l = l
  | [] => by unfold reStoreList; rfl
  | x :: xs => by
    unfold reStoreList
    rw [reStore_id X x, reStoreList_id X xs]
end

theorem convertRootT_eq (X : String → String → String) (t : Node) : convertRootT X t = convertRoot t := by
  unfold convertRootT
  cases convertRoot t with
  | error e => rfl
  | ok t' => simp [Except.map, reStore_id]

theorem parseDocT_eq (X : String → String → String) (d : Node) : parseDocT X d = parseDoc d := by
  unfold parseDocT
  cases parseDoc d with
  | error e => rfl
  | ok t' => simp [Except.map, reStore_id]

end HdVerif.SRTree
