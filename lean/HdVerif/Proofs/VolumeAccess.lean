import HdVerif.Proofs.VolumeInv
import Mathlib.Tactic.FieldSimp
/-! C08 (round 2): accessors (bridges to the symbolically executed source, T9n), the column structure of the affine over
operations and histories, and a volume as a partial map from physical points to values. -/
namespace HdVerif.VolLemmas
open HdVerif HdVerif.Gen HdVerif.Vol

/-! ## accessors: what the current source computes (T9n) is what the model says -/

theorem acc_position (sq : Rat → Rat) (g : Geom) : accPosition sq g.entry g.dim = g.t.toList := rfl

theorem acc_spacing_vectors (sq : Rat → Rat) (g : Geom) :
    accSpacingVectors sq g.entry g.dim = g.c0.toList ++ g.c1.toList ++ g.c2.toList := rfl

theorem acc_affine (sq : Rat → Rat) (g : Geom) :
    accAffine sq g.entry g.dim = [g.c0.x, g.c1.x, g.c2.x, g.t.x, g.c0.y, g.c1.y, g.c2.y, g.t.y, g.c0.z, g.c1.z, g.c2.z, g.t.z] := rfl

theorem acc_spacing (sq : Rat → Rat) (g : Geom) :
    accSpacing sq g.entry g.dim = [g.spacingWith sq .a0, g.spacingWith sq .a1, g.spacingWith sq .a2] := rfl

/-- `pixel_spacing` = (spacing of axis 1, spacing of axis 2), `spacing_between_slices` = spacing of axis 0 -/
theorem acc_pixel_spacing (sq : Rat → Rat) (g : Geom) :
    accPixelSpacing sq g.entry g.dim = [g.spacingWith sq .a1, g.spacingWith sq .a2] ∧
    accSpacingBetweenSlices sq g.entry g.dim = [g.spacingWith sq .a0] := ⟨rfl, rfl⟩

theorem acc_unit_vectors (sq : Rat → Rat) (g : Geom) :
    accUnitVectors sq g.entry g.dim = (g.unitWith sq .a0).toList ++ (g.unitWith sq .a1).toList ++ (g.unitWith sq .a2).toList := rfl

/-- `direction` (3 × 3, row-major): column `d` is `unit_vectors()[d]` -/
theorem acc_direction (sq : Rat → Rat) (g : Geom) :
    accDirection sq g.entry g.dim =
      [(g.unitWith sq .a0).x, (g.unitWith sq .a1).x, (g.unitWith sq .a2).x,
       (g.unitWith sq .a0).y, (g.unitWith sq .a1).y, (g.unitWith sq .a2).y,
       (g.unitWith sq .a0).z, (g.unitWith sq .a1).z, (g.unitWith sq .a2).z] := rfl

/-- `direction_cosines` = unit vector of axis 2 (along the rows) followed by the unit vector of axis 1 (along the columns) -/
theorem acc_direction_cosines (sq : Rat → Rat) (g : Geom) :
    accDirectionCosines sq g.entry g.dim = (g.unitWith sq .a2).toList ++ (g.unitWith sq .a1).toList := rfl

theorem acc_extent_volume (sq : Rat → Rat) (g : Geom) :
    accVoxelVolume sq g.entry g.dim = [g.spacingWith sq .a0 * g.spacingWith sq .a1 * g.spacingWith sq .a2] ∧
    accPhysicalExtent sq g.entry g.dim =
      [(g.n0 : Rat) * g.spacingWith sq .a0, (g.n1 : Rat) * g.spacingWith sq .a1, (g.n2 : Rat) * g.spacingWith sq .a2] ∧
    accPhysicalVolume sq g.entry g.dim =
      [g.spacingWith sq .a0 * g.spacingWith sq .a1 * g.spacingWith sq .a2 * ((g.n0 : Rat) * g.n1 * g.n2)] := ⟨rfl, rfl, rfl⟩

theorem acc_center (sq : Rat → Rat) (g : Geom) :
    accCenterIndices sq g.entry g.dim = [((g.n0 : Rat) - 1) / 2, ((g.n1 : Rat) - 1) / 2, ((g.n2 : Rat) - 1) / 2] ∧
    accNearestCenterIndices sq g.entry g.dim = [(g.n0 - 1) / 2, (g.n1 - 1) / 2, (g.n2 - 1) / 2] := by
  refine ⟨rfl, ?_⟩
  simp only [accNearestCenterIndices, Geom.dim, fdiv_pos _ _ (by decide : (0 : Int) < 2)]

/-- `center_position` (the source: `map_indices_to_reference` of `center_indices`, run on symbols) is the affine at the
continuous index `(n - 1) / 2` -/
theorem acc_center_position (sq : Rat → Rat) (g : Geom) : accCenterPosition sq g.entry g.dim = g.centerPosition.toList := by
  simp only [accCenterPosition, Geom.centerPosition, Geom.posR, Geom.entry, Geom.dim, V3.toList, V3.add, V3.smul,
    List.cons.injEq, and_true]
  refine ⟨?_, ?_, ?_⟩ <;> ring

theorem posR_int (g : Geom) (i : I3) : g.posR i.i0 i.i1 i.i2 = g.pos i := rfl

/-- the centre is the midpoint between the first and the last voxel -/
theorem centerPosition_midpoint (g : Geom) :
    g.centerPosition = V3.smul (1 / 2) ((g.pos ⟨0, 0, 0⟩).add (g.pos ⟨g.n0 - 1, g.n1 - 1, g.n2 - 1⟩)) := by
  apply V3.ext' <;> simp [Geom.centerPosition, Geom.posR, Geom.pos, V3.add, V3.smul] <;> ring

/-- `handedness`: the source compares the triple product of the columns with 0 and answers LEFT_HANDED when negative -/
theorem acc_handedness (g : Geom) :
    accHandednessTest g.entry = g.triple ∧ accHandednessMembers = ("LEFT_HANDED", "RIGHT_HANDED") ∧
    (g.leftHanded = true ↔ accHandednessTest g.entry < 0) := by
  have h : accHandednessTest g.entry = g.triple := by
    simp only [accHandednessTest, Geom.entry, Geom.triple, V3.cross, V3.dot]
  refine ⟨h, rfl, ?_⟩
  rw [h]; simp [Geom.leftHanded]

/-- **the accessors recompose the affine**: `spacing[d] * unit_vectors()[d]` is column `d` and `position` the translation,
whenever the square root of a column's squared length is not zero (nothing else is assumed about `sqrt`) -/
theorem recompose_eq (sq : Rat → Rat) (g : Geom) (h : ∀ d, g.spacingWith sq d ≠ 0) : g.recompose sq = g := by
  have h0 := h .a0
  have h1 := h .a1
  have h2 := h .a2
  cases g with
  | mk c0 c1 c2 t n0 n1 n2 =>
  simp only [Geom.recompose, Geom.unitWith, Geom.col, V3.smul, Geom.mk.injEq, and_true] at *
  refine ⟨?_, ?_, ?_⟩ <;> apply V3.ext' <;> simp only <;> field_simp

/-- the nearest centre index is a voxel, at most half a voxel from the exact centre -/
theorem nearest_center_in_range (n : Int) (hn : 0 < n) :
    0 ≤ (n - 1) / 2 ∧ (n - 1) / 2 < n ∧ 2 * ((n - 1) / 2) ≤ n - 1 ∧ n - 1 ≤ 2 * ((n - 1) / 2) + 1 := by omega

/-! ## column structure: every column of the result is a non-zero integer multiple of one input column -/

/-- column `d` of `r` is `k d` times column `e d` of `g`, `e` a permutation of the axes, no `k d` zero -/
def ColsFrom (g r : Geom) : Prop :=
  ∃ (e : Ax → Ax) (k : Ax → Int), Function.Injective e ∧ (∀ d, k d ≠ 0) ∧ ∀ d, r.col d = V3.smul (k d) (g.col (e d))

theorem colsFrom_refl (g : Geom) : ColsFrom g g :=
  ⟨id, fun _ => 1, fun _ _ h => h, fun _ => one_ne_zero, fun d => (smul_one_int _).symm⟩

theorem smul_smul_int (a b : Int) (v : V3) : V3.smul (a : Rat) (V3.smul (b : Rat) v) = V3.smul ((a * b : Int) : Rat) v := by
  apply V3.ext' <;> simp [V3.smul] <;> ring

theorem ColsFrom.trans {g r1 r2 : Geom} (h1 : ColsFrom g r1) (h2 : ColsFrom r1 r2) : ColsFrom g r2 := by
  obtain ⟨e1, k1, i1, z1, c1⟩ := h1
  obtain ⟨e2, k2, i2, z2, c2⟩ := h2
  refine ⟨fun d => e1 (e2 d), fun d => k2 d * k1 (e2 d), fun a b h => i2 (i1 h), fun d => Int.mul_ne_zero (z2 d) (z1 _), fun d => ?_⟩
  rw [c2 d, c1 (e2 d), smul_smul_int]

theorem colsFrom_remap (sz : AxMap → Int) (g : Geom) {m0 m1 m2 : AxMap} (h0 : m0.step ≠ 0) (h1 : m1.step ≠ 0)
    (h2 : m2.step ≠ 0) : ColsFrom g (g.remap sz m0 m1 m2) :=
  ⟨id, fun d => match d with | .a0 => m0.step | .a1 => m1.step | .a2 => m2.step, fun _ _ h => h,
    fun d => by cases d <;> assumption, fun d => by cases d <;> rfl⟩

theorem colsFrom_permute (g : Geom) (q : Perm) (hq : PermValid q) : ColsFrom g (g.permute q) := by
  refine ⟨fun d => match d with | .a0 => q.1 | .a1 => q.2.1 | .a2 => q.2.2, fun _ => 1, ?_, fun _ => one_ne_zero, ?_⟩
  · obtain ⟨a, b, c⟩ := hq
    intro x y h
    cases x <;> cases y <;> simp only at h <;> first | rfl | (exact absurd h (by assumption)) | (exact absurd h.symm (by assumption))
  · intro d
    cases d <;> simp only [Geom.permute, Geom.col] <;> exact (smul_one_int _).symm

theorem getitemG_cols (sz : AxMap → Int) {g : Geom} {items : List Item} {r : GStep} (hp : g.Pos)
    (h : getitemG sz g items = .ok r) : ColsFrom g r.1 := by
  simp only [getitemG] at h
  obtain ⟨⟨m0, m1, m2⟩, hm, h⟩ := bind_ok.mp h
  simp only [pure, Except.pure, Except.ok.injEq] at h
  subst h
  obtain ⟨s0, s1, s2⟩ := getitemMaps_sound hp hm
  exact colsFrom_remap sz g s0.1.1 s1.1.1 s2.1.1

theorem permuteG_cols {g : Geom} {p : List Int} {r : GStep} (h : permuteG g p = .ok r) : ColsFrom g r.1 := by
  simp only [permuteG] at h
  obtain ⟨q, hq, h⟩ := bind_ok.mp h
  simp only [pure, Except.pure, Except.ok.injEq] at h
  subst h
  exact colsFrom_permute g q (permOfList_valid hq)

theorem padG_cols (sz : AxMap → Int) {g : Geom} {w : PadWidth} {r : GStep} (h : padG sz g w = .ok r) : ColsFrom g r.1 := by
  simp only [padG] at h
  obtain ⟨full, _, h⟩ := bind_ok.mp h
  simp only [padFullG] at h
  obtain ⟨m0, e0, h⟩ := bind_ok.mp h
  obtain ⟨m1, e1, h⟩ := bind_ok.mp h
  obtain ⟨m2, e2, h⟩ := bind_ok.mp h
  simp only [pure, Except.pure, Except.ok.injEq] at h
  subst h
  rw [padAxis_ok e0, padAxis_ok e1, padAxis_ok e2]
  exact colsFrom_remap sz g (by simp) (by simp) (by simp)

theorem flipG_cols (sz : AxMap → Int) {g : Geom} {axes : List Int} {r : GStep} (hp : g.Pos)
    (h : flipG sz g axes = .ok r) : ColsFrom g r.1 := by
  simp only [flipG] at h
  obtain ⟨items, _, h⟩ := bind_ok.mp h
  exact getitemG_cols sz hp h

theorem swapG_cols {g : Geom} {a b : Int} {r : GStep} (h : swapG g a b = .ok r) : ColsFrom g r.1 := by
  simp only [swapG] at h
  obtain ⟨p, _, h⟩ := bind_ok.mp h
  exact permuteG_cols h

/-- every accepted spatial operation -/
theorem applyG_cols (sz : AxMap → Int) (hsz : SzOk sz) {coord : Coord} {g : Geom} {op : SOp} {r : GStep} (hp : g.Pos)
    (h : op.applyG sz coord g = .ok r) : ColsFrom g r.1 := by
  cases op with
  | getitem items => exact getitemG_cols sz hp h
  | flip axes => exact flipG_cols sz hp h
  | permute p => exact permuteG_cols h
  | swap x y => exact swapG_cols h
  | pad w o => exact padG_cols sz h
  | padTo s o =>
    simp only [SOp.applyG, padToG] at h
    obtain ⟨w, _, h⟩ := bind_ok.mp h
    exact padG_cols sz h
  | cropTo s =>
    simp only [SOp.applyG, cropToG] at h
    obtain ⟨items, _, h⟩ := bind_ok.mp h
    exact getitemG_cols sz hp h
  | padOrCropTo s o =>
    simp only [SOp.applyG, padOrCropG] at h
    obtain ⟨⟨items, w⟩, _, h⟩ := bind_ok.mp h
    dsimp only at h
    obtain ⟨⟨g1, f1⟩, h1, h⟩ := bind_ok.mp h
    dsimp only at h
    obtain ⟨⟨g2, f2⟩, h2, h⟩ := bind_ok.mp h
    simp only [pure, Except.pure, Except.ok.injEq] at h
    subst h
    have c1 : ColsFrom g g1 := getitemG_cols sz hp h1
    have c2 : ColsFrom g1 g2 := padG_cols sz h2
    exact c1.trans c2
  | toOrientation o =>
    simp only [SOp.applyG, toOrientationG] at h
    split at h
    · cases h
    · obtain ⟨des, _, h⟩ := bind_ok.mp h
      obtain ⟨⟨perm, flips⟩, _, h⟩ := bind_ok.mp h
      dsimp only at h
      obtain ⟨⟨g1, f1⟩, h1, h⟩ := bind_ok.mp h
      dsimp only at h
      obtain ⟨⟨g2, f2⟩, h2, h⟩ := bind_ok.mp h
      simp only [pure, Except.pure, Except.ok.injEq] at h
      subst h
      have c1 : ColsFrom g g1 := by
        simp only [flipIfAny] at h1
        split at h1
        · simp only [Except.ok.injEq, Prod.mk.injEq] at h1; rw [← h1.1]; exact colsFrom_refl g
        · exact flipG_cols sz hp h1
      have c2 : ColsFrom g1 g2 := permuteG_cols h2
      exact c1.trans c2
  | ensureHandedness hd fa sa =>
    simp only [SOp.applyG, ensureHandednessG] at h
    split at h
    · cases h
    · split at h
      · cases h
      · split at h
        · simp only [Except.ok.injEq] at h; subst h; exact colsFrom_refl g
        · split at h
          · exact flipG_cols sz hp h
          · exact swapG_cols h
          · cases h
          · cases h
  | copy =>
    simp only [SOp.applyG, Except.ok.injEq] at h
    subst h
    exact colsFrom_refl g

/-- consequence for the accessors: the squared spacing of axis `d` is the squared spacing of the source axis times `k²` -/
theorem colsFrom_spacingSq {g r : Geom} (h : ColsFrom g r) :
    ∃ (e : Ax → Ax) (k : Ax → Int), Function.Injective e ∧ (∀ d, k d ≠ 0) ∧
      ∀ d, r.spacingSq d = ((k d : Rat) * (k d : Rat)) * g.spacingSq (e d) := by
  obtain ⟨e, k, i, z, c⟩ := h
  refine ⟨e, k, i, z, fun d => ?_⟩
  simp only [Geom.spacingSq, c d, dot_smul]

/-! ## a volume as a partial map from physical points to values -/

theorem shows_functional {v : Vol} (ho : v.geom.Orth) {p : V3} {c : List Nat} {x y : Rat}
    (hx : v.Shows p c x) (hy : v.Shows p c y) : x = y := by
  obtain ⟨i, _, pi, rfl⟩ := hx
  obtain ⟨j, _, pj, rfl⟩ := hy
  rw [pos_injective ho (pi.trans pj.symm)]

theorem onLattice_of_step {g : Geom} {r : GStep} (h : StepOk g r) {p : V3} (hp : r.1.OnLattice p) : g.OnLattice p := by
  obtain ⟨j, rfl⟩ := hp
  exact ⟨r.2 j, (h.position j).symm⟩

/-- one spatial operation: every voxel of the result either shows an input voxel at the same physical point, or it is
a new voxel of a padding operation sitting on the input's lattice -/
theorem step_partial_map {coord : Coord} {v : Vol} {op : SOp} {w : VStep} (hp : v.geom.Pos)
    (h : op.applyVol coord v = .ok w) {p : V3} {c : List Nat} {x : Rat} (hs : w.1.Shows p c x) :
    v.Shows p c x ∨ (op.cropping = false ∧ v.geom.OnLattice p) := by
  obtain ⟨j, hj, rfl, rfl⟩ := hs
  obtain ⟨a, b, ⟨f, hf⟩, d⟩ := applyVol_sound hp h
  cases hprov : w.2 j with
  | some i =>
    obtain ⟨e1, e2⟩ := a.retained j i hprov
    exact Or.inl ⟨i, e2, e1.symm, (b.values j i hprov c).symm⟩
  | none =>
    right
    refine ⟨?_, ?_⟩
    · cases hc : op.cropping with
      | false => rfl
      | true => exact absurd hprov (d hc j hj)
    · have s := (applyG_sound AxMap.size szOk_size hp hf).1
      exact ⟨f j, (s.position j).symm⟩

/-- `pad` / `pad_to_spatial_shape`: the new voxels lie where the input had no voxel -/
theorem pad_new_points_uncovered {coord : Coord} {v : Vol} {op : SOp} {w : VStep} (hp : v.geom.Pos) (ho : v.geom.Orth)
    (hk : op.keepsAll = true) (h : op.applyVol coord v = .ok w) (j : I3) (hn : w.2 j = none) :
    ¬ v.geom.Covers (w.1.geom.pos j) := by
  obtain ⟨r, hr, hg, hprov⟩ := applyVol_prov hk h
  have s := (applyG_sound AxMap.alen szOk_alen hp hr).1
  rintro ⟨i, hi, hpos⟩
  rw [hg, s.position j] at hpos
  have := pos_injective ho hpos
  subst this
  rw [hprov] at hn
  have := provOf_none hn
  rw [hi] at this
  cases this

/-- the operations that do not select lose nothing: every voxel of the input is shown, at its physical point -/
theorem keepsAll_step_supermap {coord : Coord} {v : Vol} {op : SOp} {w : VStep} (hp : v.geom.Pos)
    (hk : op.keepsAll = true) (h : op.applyVol coord v = .ok w) {p : V3} {c : List Nat} {x : Rat} (hs : v.Shows p c x) :
    w.1.Shows p c x := by
  obtain ⟨i, hi, rfl, rfl⟩ := hs
  obtain ⟨j, hj, hprov⟩ := applyVol_onto hp hk h i hi
  obtain ⟨a, b, _, _⟩ := applyVol_sound hp h
  exact ⟨j, hj, (a.retained j i hprov).1, b.values j i hprov c⟩

/-- histories of spatial operations -/
def allSpatial (P : SOp → Bool) (ops : List Op) : Prop := ∀ op ∈ ops, ∃ s, op = .spatial s ∧ P s = true

theorem history_partial_map {coord : Coord} (ops : List Op) : ∀ {v : Vol} {w : VStep}, v.geom.Pos →
    allSpatial (fun _ => true) ops → runHistory coord v ops = .ok w → ∀ {p : V3} {c : List Nat} {x : Rat},
    w.1.Shows p c x → v.Shows p c x ∨ v.geom.OnLattice p := by
  induction ops with
  | nil =>
    intro v w _ _ h p c x hs
    simp only [runHistory, Except.ok.injEq] at h
    subst h
    exact Or.inl hs
  | cons op rest ih =>
    intro v w hp hall h p c x hs
    simp only [runHistory] at h
    obtain ⟨⟨v1, p1⟩, h1, h⟩ := bind_ok.mp h
    dsimp only at h
    obtain ⟨⟨v2, p2⟩, h2, h⟩ := bind_ok.mp h
    simp only [pure, Except.pure, Except.ok.injEq] at h
    subst h
    obtain ⟨s, rfl, _⟩ := hall op (List.mem_cons_self ..)
    simp only [Op.apply] at h1
    obtain ⟨a1, _, ⟨f, hf⟩, _⟩ := applyVol_sound hp h1
    have st := (applyG_sound AxMap.size szOk_size hp hf).1
    rcases ih a1.shape (fun o ho => hall o (List.mem_cons_of_mem _ ho)) h2 hs with h3 | h3
    · rcases step_partial_map hp h1 h3 with h4 | ⟨_, h4⟩
      · exact Or.inl h4
      · exact Or.inr h4
    · exact Or.inr (onLattice_of_step st h3)

theorem history_submap {coord : Coord} (ops : List Op) : ∀ {v : Vol} {w : VStep}, v.geom.Pos →
    allSpatial SOp.cropping ops → runHistory coord v ops = .ok w → ∀ {p : V3} {c : List Nat} {x : Rat},
    w.1.Shows p c x → v.Shows p c x := by
  induction ops with
  | nil =>
    intro v w _ _ h p c x hs
    simp only [runHistory, Except.ok.injEq] at h
    subst h
    exact hs
  | cons op rest ih =>
    intro v w hp hall h p c x hs
    simp only [runHistory] at h
    obtain ⟨⟨v1, p1⟩, h1, h⟩ := bind_ok.mp h
    dsimp only at h
    obtain ⟨⟨v2, p2⟩, h2, h⟩ := bind_ok.mp h
    simp only [pure, Except.pure, Except.ok.injEq] at h
    subst h
    obtain ⟨s, rfl, hc⟩ := hall op (List.mem_cons_self ..)
    simp only [Op.apply] at h1
    obtain ⟨a1, _, _, _⟩ := applyVol_sound hp h1
    have h3 := ih a1.shape (fun o ho => hall o (List.mem_cons_of_mem _ ho)) h2 hs
    rcases step_partial_map hp h1 h3 with h4 | ⟨h4, _⟩
    · exact h4
    · rw [hc] at h4; cases h4

theorem history_supermap {coord : Coord} (ops : List Op) : ∀ {v : Vol} {w : VStep}, v.geom.Pos →
    allSpatial SOp.keepsAll ops → runHistory coord v ops = .ok w → ∀ {p : V3} {c : List Nat} {x : Rat},
    v.Shows p c x → w.1.Shows p c x := by
  induction ops with
  | nil =>
    intro v w _ _ h p c x hs
    simp only [runHistory, Except.ok.injEq] at h
    subst h
    exact hs
  | cons op rest ih =>
    intro v w hp hall h p c x hs
    simp only [runHistory] at h
    obtain ⟨⟨v1, p1⟩, h1, h⟩ := bind_ok.mp h
    dsimp only at h
    obtain ⟨⟨v2, p2⟩, h2, h⟩ := bind_ok.mp h
    simp only [pure, Except.pure, Except.ok.injEq] at h
    subst h
    obtain ⟨s, rfl, hk⟩ := hall op (List.mem_cons_self ..)
    simp only [Op.apply] at h1
    obtain ⟨a1, _, _, _⟩ := applyVol_sound hp h1
    exact ih a1.shape (fun o ho => hall o (List.mem_cons_of_mem _ ho)) h2 (keepsAll_step_supermap hp hk h1 hs)

/-- geometry of a history: column structure -/
theorem history_cols {coord : Coord} (ops : List Op) : ∀ {v : Vol} {w : VStep}, v.geom.Pos →
    runHistory coord v ops = .ok w → ColsFrom v.geom w.1.geom := by
  induction ops with
  | nil =>
    intro v w _ h
    simp only [runHistory, Except.ok.injEq] at h
    subst h
    exact colsFrom_refl _
  | cons op rest ih =>
    intro v w hp h
    simp only [runHistory] at h
    obtain ⟨⟨v1, p1⟩, h1, h⟩ := bind_ok.mp h
    dsimp only at h
    obtain ⟨⟨v2, p2⟩, h2, h⟩ := bind_ok.mp h
    simp only [pure, Except.pure, Except.ok.injEq] at h
    subst h
    have a1 := apply_pos hp h1
    have c2 := ih a1.shape h2
    refine ColsFrom.trans ?_ c2
    cases op with
    | spatial s =>
      simp only [Op.apply] at h1
      obtain ⟨_, _, ⟨f, hf⟩, _⟩ := applyVol_sound hp h1
      exact applyG_cols AxMap.size szOk_size hp hf
    | getChannel sel keep =>
      rw [(nonspatial_geom (fun s => by simp) h1).1]; exact colsFrom_refl _
    | permuteChannels p =>
      rw [(nonspatial_geom (fun s => by simp) h1).1]; exact colsFrom_refl _
    | withArray shape a isInt =>
      rw [(nonspatial_geom (fun s => by simp) h1).1]; exact colsFrom_refl _

end HdVerif.VolLemmas
