import HdVerif.Model.EncapBytes
import HdVerif.Proofs.Offsets
import HdVerif.Proofs.OffsetsTie
import HdVerif.Proofs.FrameAccess
/-! C05: the byte-level reader of encapsulated pixel data (`Model/EncapBytes.lean`) REFINES the fragment-level
bookkeeping of `Model/Offsets.lean`: on the PS3.5 A.4 encoding of a fragment list, reading tags / lengths / data from
the bytes and walking the items is what the fragment-level loops do (induction over the item list), and a stream that is
cut off or continues with a foreign tag is refused.  Core Lean only. -/
namespace HdVerif.EncapBytes
open HdVerif HdVerif.Offsets HdVerif.Gen

theorem readAt_shift (pre s : Bytes) (k n : Nat) : readAt (pre ++ s) (pre.length + k) n = readAt s k n := by
  unfold readAt
  rw [List.drop_append, List.drop_eq_nil_of_le (by omega)]
  simp

theorem readAt_prefix_take (x y : Bytes) (n : Nat) (h : n ≤ x.length) : readAt (x ++ y) 0 n = x.take n := by
  unfold readAt
  simp [List.take_append_of_le_length h]

theorem readAt_prefix (x y : Bytes) : readAt (x ++ y) 0 x.length = x := by
  rw [readAt_prefix_take x y _ (Nat.le_refl _)]; simp

theorem leBytes_length (k n : Nat) : (leBytes k n).length = k := by
  induction k generalizing n with
  | zero => rfl
  | succ k ih => simp [leBytes, ih]

theorem leVal_leBytes (k n : Nat) : leVal (leBytes k n) = n % 256 ^ k := by
  induction k generalizing n with
  | zero => simp [leBytes, leVal, Nat.mod_one]
  | succ k ih =>
    simp only [leBytes, leVal, ih]
    rw [Nat.pow_succ', Nat.mod_mul]

theorem leVal_leBytes4 (n : Nat) (h : n < 4294967296) : leVal (leBytes 4 n) = n := by
  rw [leVal_leBytes]; exact Nat.mod_eq_of_lt (by norm_num; exact h)

theorem readTag_item (pre rest : Bytes) : readTag (pre ++ (itemTag ++ rest)) pre.length = .ok .item := by
  unfold readTag
  have : readAt (pre ++ (itemTag ++ rest)) pre.length 4 = itemTag := by
    have := readAt_shift pre (itemTag ++ rest) 0 4
    rw [Nat.add_zero] at this
    rw [this]; exact readAt_prefix itemTag rest
  simp only [this]; decide

theorem readTag_delim (pre rest : Bytes) : readTag (pre ++ (delimTag ++ rest)) pre.length = .ok .delim := by
  unfold readTag
  have : readAt (pre ++ (delimTag ++ rest)) pre.length 4 = delimTag := by
    have := readAt_shift pre (delimTag ++ rest) 0 4
    rw [Nat.add_zero] at this
    rw [this]; exact readAt_prefix delimTag rest
  simp only [this]; decide

theorem readUL_at (pre x rest : Bytes) (hx : x.length = 4) : readUL (pre ++ (x ++ rest)) pre.length = .ok (leVal x) := by
  unfold readUL
  have : readAt (pre ++ (x ++ rest)) pre.length 4 = x := by
    have := readAt_shift pre (x ++ rest) 0 4
    rw [Nat.add_zero] at this
    rw [this, ← hx]; exact readAt_prefix x rest
  simp [this, hx]

theorem botStepB_eq (f : Frag) (X : Bytes) (pos : Nat) (acc : List Nat × List Nat) (h : 2 ≤ f.length → X = f.take 2) :
    botStepB f.length X pos acc = botStepGen f pos acc := by
  by_cases h2 : 2 ≤ f.length
  · rw [h h2]; rfl
  · have h01 : f.length = 0 ∨ f.length = 1 := by omega
    have : botLengthCheck (f.length : Int) = .error .other := by
      rcases h01 with h | h <;> rw [h] <;> decide
    simp [botStepB, botStepGen, this, bind, Except.bind]

theorem botStepGen_ok (f : Frag) (pos : Nat) (acc : List Nat × List Nat) (p : Nat) (a : List Nat × List Nat)
    (h : botStepGen f pos acc = .ok (p, a)) : p = pos + 8 + f.length := by
  unfold botStepGen at h
  simp only [bind, Except.bind, botOffset, botNextPosition] at h
  cases hc : botLengthCheck (f.length : Int) with
  | error e => simp [hc] at h
  | ok v =>
    simp only [hc] at h
    injection h with h
    have := congrArg Prod.fst h
    simp at this
    omega

theorem encItem_length (f : Frag) : (encItem f).length = 8 + f.length := by
  simp [encItem, itemTag, leBytes_length]; omega

/-- **refinement of the `_build_bot` loop**: on the encoding of a fragment list (followed by anything) the byte-level
    loop does what the fragment-level loop does, and continues behind the last item -/
theorem botLoopB_enc (fs : List Frag) (hlen : ∀ f ∈ fs, f.length < 4294967296) (pre t : Bytes) (fuel : Nat)
    (acc : List Nat × List Nat) (hf : fs.length < fuel) :
    botLoopB (pre ++ (encItems fs ++ t)) fuel pre.length acc =
      match botLoop fs pre.length acc with
      | .error e => .error e
      | .ok a => botLoopB (pre ++ (encItems fs ++ t)) (fuel - fs.length) (pre.length + streamSize fs) a := by
  induction fs generalizing pre fuel acc with
  | nil => obtain ⟨a, b⟩ := acc; simp [botLoop, encItems, streamSize]
  | cons f fs ih =>
    cases fuel with
    | zero => simp at hf
    | succ fuel =>
      have hfl := hlen f (by simp)
      have hb : pre ++ (encItems (f :: fs) ++ t)
          = pre ++ (itemTag ++ (leBytes 4 f.length ++ (f ++ (encItems fs ++ t)))) := by
        simp [encItems, encItem, List.append_assoc]
      have htag : readTag (pre ++ (encItems (f :: fs) ++ t)) pre.length = .ok .item := by
        rw [hb]; exact readTag_item pre _
      have hul : readUL (pre ++ (encItems (f :: fs) ++ t)) (pre.length + 4) = .ok f.length := by
        have e : pre ++ (itemTag ++ (leBytes 4 f.length ++ (f ++ (encItems fs ++ t))))
            = (pre ++ itemTag) ++ (leBytes 4 f.length ++ (f ++ (encItems fs ++ t))) := by simp [List.append_assoc]
        rw [hb, e]
        have hl : (pre ++ itemTag).length = pre.length + 4 := by simp [itemTag]
        rw [← hl, readUL_at _ _ _ (leBytes_length 4 _), leVal_leBytes4 _ hfl]
      have h2 : 2 ≤ f.length → readAt (pre ++ (encItems (f :: fs) ++ t)) (pre.length + 8) 2 = f.take 2 := by
        intro h
        have e : pre ++ (itemTag ++ (leBytes 4 f.length ++ (f ++ (encItems fs ++ t))))
            = (pre ++ itemTag ++ leBytes 4 f.length) ++ (f ++ (encItems fs ++ t)) := by simp [List.append_assoc]
        have hl : (pre ++ itemTag ++ leBytes 4 f.length).length = pre.length + 8 := by simp [itemTag, leBytes_length]
        rw [hb, e]
        have := readAt_shift (pre ++ itemTag ++ leBytes 4 f.length) (f ++ (encItems fs ++ t)) 0 2
        rw [hl] at this
        rw [this, readAt_prefix_take _ _ _ h]
      rw [botLoopB, htag, hul]
      simp only []
      rw [botStepB_eq f _ pre.length acc h2, botLoop_cons]
      cases hs : botStepGen f pre.length acc with
      | error e => rfl
      | ok pa =>
        obtain ⟨p, a⟩ := pa
        have hp := botStepGen_ok f pre.length acc p a hs
        simp only []
        have hb2 : pre ++ (encItems (f :: fs) ++ t) = (pre ++ encItem f) ++ (encItems fs ++ t) := by
          simp [encItems, List.append_assoc]
        have hl2 : (pre ++ encItem f).length = p := by rw [List.length_append, encItem_length, hp]; omega
        rw [hb2, hp, ← hp, ← hl2, ih (fun g hg => hlen g (by simp [hg])) (pre ++ encItem f) fuel a (by simpa using hf)]
        have e1 : fuel + 1 - (f :: fs).length = fuel - fs.length := by simp
        have e2 : pre.length + streamSize (f :: fs) = (pre ++ encItem f).length + streamSize fs := by
          rw [List.length_append, encItem_length]; simp [streamSize]; omega
        rw [e1, e2]

theorem encItems_length (fs : List Frag) : (encItems fs).length = streamSize fs := by
  induction fs with
  | nil => rfl
  | cons f fs ih => simp [encItems, streamSize, encItem_length, ih]

theorem length_le_streamSize (fs : List Frag) : fs.length ≤ streamSize fs := by
  induction fs with
  | nil => simp
  | cons f fs ih => simp [streamSize]; omega

/-- a well-terminated stream: the byte-level loop IS the fragment-level loop -/
theorem botLoopB_stream (fs : List Frag) (hlen : ∀ f ∈ fs, f.length < 4294967296) (pre rest : Bytes) (fuel : Nat)
    (acc : List Nat × List Nat) (hf : fs.length < fuel) :
    botLoopB (pre ++ (encItems fs ++ (delimiter ++ rest))) fuel pre.length acc = botLoop fs pre.length acc := by
  rw [botLoopB_enc fs hlen pre _ fuel acc hf]
  cases botLoop fs pre.length acc with
  | error e => rfl
  | ok a =>
    simp only []
    obtain ⟨k, hk⟩ : ∃ k, fuel - fs.length = k + 1 := ⟨fuel - fs.length - 1, by omega⟩
    have hb : pre ++ (encItems fs ++ (delimiter ++ rest)) = (pre ++ encItems fs) ++ (delimTag ++ ([0, 0, 0, 0] ++ rest)) := by
      simp [delimiter, List.append_assoc]
    have hl : (pre ++ encItems fs).length = pre.length + streamSize fs := by simp [encItems_length]
    rw [hk, hb, ← hl, botLoopB, readTag_delim]

/-- `_build_bot` on the bytes of a delimited fragment stream is `_build_bot` on the fragments -/
theorem buildBotB_stream (fs : List Frag) (hlen : ∀ f ∈ fs, f.length < 4294967296) (rest : Bytes) (n : Nat) :
    buildBotB (encItems fs ++ (delimiter ++ rest)) n = buildBot fs n := by
  unfold buildBotB buildBot
  have hf : fs.length < (encItems fs ++ (delimiter ++ rest)).length + 1 := by
    have := length_le_streamSize fs
    simp [encItems_length]; omega
  have := botLoopB_stream fs hlen [] rest _ ([], []) hf
  simp only [List.nil_append, List.length_nil] at this
  rw [this]

/-- a stream that ends without a sequence delimiter (truncated file) or continues with anything that is neither an item
    nor the delimiter is REFUSED, whatever the fragments are -/
theorem botLoopB_refuses_bad_tail (fs : List Frag) (hlen : ∀ f ∈ fs, f.length < 4294967296) (pre t : Bytes) (fuel : Nat)
    (acc : List Nat × List Nat) (hf : fs.length < fuel)
    (hbad : readAt t 0 4 ≠ itemTag ∧ readAt t 0 4 ≠ delimTag) :
    ∃ e, botLoopB (pre ++ (encItems fs ++ t)) fuel pre.length acc = .error e := by
  rw [botLoopB_enc fs hlen pre t fuel acc hf]
  cases botLoop fs pre.length acc with
  | error e => exact ⟨e, rfl⟩
  | ok a =>
    simp only []
    obtain ⟨k, hk⟩ : ∃ k, fuel - fs.length = k + 1 := ⟨fuel - fs.length - 1, by omega⟩
    have hb : pre ++ (encItems fs ++ t) = (pre ++ encItems fs) ++ t := by simp [List.append_assoc]
    have hl : (pre ++ encItems fs).length = pre.length + streamSize fs := by simp [encItems_length]
    have hr : readAt ((pre ++ encItems fs) ++ t) (pre ++ encItems fs).length 4 = readAt t 0 4 := by
      have := readAt_shift (pre ++ encItems fs) t 0 4
      rwa [Nat.add_zero] at this
    rw [hk, hb, ← hl, botLoopB]
    unfold readTag
    simp only [hr]
    by_cases h4 : (readAt t 0 4).length ≠ 4
    · simp [h4]
    · simp only [h4, ↓reduceIte, hbad.1, hbad.2]
      exact ⟨_, rfl⟩

/-- **refinement of the fragment walk of `read_frame_raw`**: on a delimited encoded stream the byte-level loop returns
    the fragments the fragment-level loop returns (tag read first, stop test, length, data, running count) -/
theorem readLoopB_stream (fs : List Frag) (hlen : ∀ f ∈ fs, f.length < 4294967296) (pre rest : Bytes) (fuel : Nat)
    (n stopAt : Int) (acc : List Frag) (hf : fs.length < fuel) :
    readLoopB (pre ++ (encItems fs ++ (delimiter ++ rest))) fuel pre.length n stopAt acc = .ok (readLoop fs n stopAt acc) := by
  induction fs generalizing pre fuel n acc with
  | nil =>
    obtain ⟨k, rfl⟩ : ∃ k, fuel = k + 1 := ⟨fuel - 1, by simp at hf; omega⟩
    have hb : pre ++ (encItems [] ++ (delimiter ++ rest)) = pre ++ (delimTag ++ ([0, 0, 0, 0] ++ rest)) := by
      simp [encItems, delimiter, List.append_assoc]
    rw [hb, readLoopB, readTag_delim]
    simp [readLoop]
  | cons f fs ih =>
    obtain ⟨fuel, rfl⟩ : ∃ k, fuel = k + 1 := ⟨fuel - 1, by simp at hf; omega⟩
    have hfl := hlen f (by simp)
    have hb : pre ++ (encItems (f :: fs) ++ (delimiter ++ rest))
        = pre ++ (itemTag ++ (leBytes 4 f.length ++ (f ++ (encItems fs ++ (delimiter ++ rest))))) := by
      simp [encItems, encItem, List.append_assoc]
    have htag : readTag (pre ++ (encItems (f :: fs) ++ (delimiter ++ rest))) pre.length = .ok .item := by
      rw [hb]; exact readTag_item pre _
    have hul : readUL (pre ++ (encItems (f :: fs) ++ (delimiter ++ rest))) (pre.length + 4) = .ok f.length := by
      have e : pre ++ (itemTag ++ (leBytes 4 f.length ++ (f ++ (encItems fs ++ (delimiter ++ rest)))))
          = (pre ++ itemTag) ++ (leBytes 4 f.length ++ (f ++ (encItems fs ++ (delimiter ++ rest)))) := by simp [List.append_assoc]
      rw [hb, e]
      have hl : (pre ++ itemTag).length = pre.length + 4 := by simp [itemTag]
      rw [← hl, readUL_at _ _ _ (leBytes_length 4 _), leVal_leBytes4 _ hfl]
    have hdata : readAt (pre ++ (encItems (f :: fs) ++ (delimiter ++ rest))) (pre.length + 8) f.length = f := by
      have e : pre ++ (itemTag ++ (leBytes 4 f.length ++ (f ++ (encItems fs ++ (delimiter ++ rest)))))
          = (pre ++ itemTag ++ leBytes 4 f.length) ++ (f ++ (encItems fs ++ (delimiter ++ rest))) := by simp [List.append_assoc]
      have hl : (pre ++ itemTag ++ leBytes 4 f.length).length = pre.length + 8 := by simp [itemTag, leBytes_length]
      rw [hb, e]
      have := readAt_shift (pre ++ itemTag ++ leBytes 4 f.length) (f ++ (encItems fs ++ (delimiter ++ rest))) 0 f.length
      rw [hl] at this
      rw [this, readAt_prefix]
    rw [readLoopB, htag, readLoop_cons]
    simp only []
    by_cases hn : n = stopAt
    · simp [hn]
    · simp only [hn, ↓reduceIte, ne_eq, not_true_eq_false, hul, hdata]
      simp only [readAdvance]
      have hb2 : pre ++ (encItems (f :: fs) ++ (delimiter ++ rest)) = (pre ++ encItem f) ++ (encItems fs ++ (delimiter ++ rest)) := by
        simp [encItems, List.append_assoc]
      have hl2 : (pre ++ encItem f).length = pre.length + 8 + f.length := by
        rw [List.length_append, encItem_length]; omega
      rw [hb2, ← hl2, ih (fun g hg => hlen g (by simp [hg])) (pre ++ encItem f) fuel _ _ (by simpa using hf)]
      simp

theorem encItems_append (a b : List Frag) : encItems (a ++ b) = encItems a ++ encItems b := by
  induction a with
  | nil => rfl
  | cons f fs ih => simp [encItems, ih, List.append_assoc]

theorem seekFrag_split (fs : List Frag) (pos t : Nat) (r : List Frag) (h : seekFrag fs pos t = .ok r) :
    ∃ pfx, fs = pfx ++ r ∧ pos + streamSize pfx = t := by
  induction fs generalizing pos with
  | nil =>
    unfold seekFrag at h
    by_cases hp : pos = t
    · simp [hp] at h; exact ⟨[], by simp [h], by simp [streamSize, hp]⟩
    · simp [hp] at h
  | cons f fs ih =>
    unfold seekFrag at h
    by_cases hp : pos = t
    · simp [hp] at h; exact ⟨[], by simp [h], by simp [streamSize, hp]⟩
    · simp only [hp, ↓reduceIte] at h
      by_cases hlt : pos < t
      · simp only [hlt, ↓reduceIte] at h
        obtain ⟨pfx, h1, h2⟩ := ih _ h
        exact ⟨f :: pfx, by simp [h1], by simp [streamSize]; omega⟩
      · simp [hlt] at h

/-- **`read_frame_raw` on bytes = `read_frame_raw` on fragments** whenever the table entry is an item boundary -/
theorem readFrameRawB_stream (fs : List Frag) (hlen : ∀ f ∈ fs, f.length < 4294967296) (rest : Bytes)
    (table : List Nat) (i off : Nat) (r : List Frag) (ht : table[i]? = some off) (hs : seekFrag fs 0 off = .ok r) :
    readFrameRawB (encItems fs ++ (delimiter ++ rest)) table i = readFrameRaw fs table i := by
  obtain ⟨pfx, hfs, hoff⟩ := seekFrag_split fs 0 off r hs
  have hj : ((i : Int) + 1).toNat = i + 1 := by omega
  have hpos : ((0 : Int) + (off : Int)).toNat = off := by omega
  unfold readFrameRawB readFrameRaw
  simp only [ht, readNextEntry, readStart, readSeekPosition, readStopAt, readStopAtLast, hj, hpos, hs, bind, Except.bind]
  have hb : encItems fs ++ (delimiter ++ rest) = encItems pfx ++ (encItems r ++ (delimiter ++ rest)) := by
    rw [hfs, encItems_append, List.append_assoc]
  have hl : (encItems pfx).length = off := by rw [encItems_length]; omega
  have hfuel : r.length < (encItems fs ++ (delimiter ++ rest)).length + 1 := by
    have h1 := length_le_streamSize fs
    have h2 : r.length ≤ fs.length := by rw [hfs]; simp
    simp [encItems_length]; omega
  have key : ∀ s : Int, readLoopB (encItems fs ++ (delimiter ++ rest)) ((encItems fs ++ (delimiter ++ rest)).length + 1) off 0 s []
      = .ok (readLoop r 0 s []) := by
    intro s
    have := readLoopB_stream r (fun g hg => hlen g (by rw [hfs]; simp [hg])) (encItems pfx) rest
      ((encItems fs ++ (delimiter ++ rest)).length + 1) 0 s [] hfuel
    rw [hl, ← hb] at this
    exact this
  cases table[i + 1]? with
  | none => simp only [key]
  | some nxt => simp only [key]

theorem leWords_enc (k : Nat) (hk : 0 < k) (es : List Nat) (hs : ∀ e ∈ es, e < 256 ^ k) (fuel : Nat) (hf : es.length ≤ fuel) :
    leWords k fuel (es.map (leBytes k)).flatten = some es := by
  induction es generalizing fuel with
  | nil => cases fuel <;> simp [leWords]
  | cons e es ih =>
    obtain ⟨fuel, rfl⟩ : ∃ f, fuel = f + 1 := ⟨fuel - 1, by simp at hf; omega⟩
    have hl := leBytes_length k e
    have hne : (List.map (leBytes k) (e :: es)).flatten ≠ [] := by
      intro h
      have := congrArg List.length h
      simp [hl] at this
      omega
    have ht : ((List.map (leBytes k) (e :: es)).flatten).take k = leBytes k e := by
      simp only [List.map_cons, List.flatten_cons]
      exact List.take_left' hl
    have hd : ((List.map (leBytes k) (e :: es)).flatten).drop k = (es.map (leBytes k)).flatten := by
      simp only [List.map_cons, List.flatten_cons]
      exact List.drop_left' hl
    have hk0 : k ≠ 0 := by omega
    rw [leWords]
    simp only [hne, ↓reduceIte, ht, hl, hd, ne_eq, not_true_eq_false, hk0, or_self]
    rw [ih (fun x hx => hs x (by simp [hx])) fuel (by simpa using hf), leVal_leBytes, Nat.mod_eq_of_lt (hs e (by simp))]
    rfl

theorem encBot_body_length (es : List Nat) : ((es.map (leBytes 4)).flatten).length = 4 * es.length := by
  induction es with
  | nil => rfl
  | cons e es ih => simp [leBytes_length, ih]; omega

/-- `parse_basic_offsets` on an encoded Basic Offset Table item returns its entries and the position behind it -/
theorem parseBot_enc (es : List Nat) (rest : Bytes) (hn : 4 * es.length < 4294967296) (hs : ∀ e ∈ es, e < 4294967296) :
    parseBot (encBot es ++ rest) = .ok (es, 8 + 4 * es.length) := by
  unfold parseBot
  have hb : encBot es ++ rest = [] ++ (itemTag ++ (leBytes 4 (4 * es.length) ++ ((es.map (leBytes 4)).flatten ++ rest))) := by
    simp [encBot, List.append_assoc]
  have htag : readTag (encBot es ++ rest) 0 = .ok .item := by
    rw [hb]; exact readTag_item [] _
  have hul : readUL (encBot es ++ rest) 4 = .ok (4 * es.length) := by
    have e : encBot es ++ rest = itemTag ++ (leBytes 4 (4 * es.length) ++ ((es.map (leBytes 4)).flatten ++ rest)) := by
      simp [encBot, List.append_assoc]
    have hl : itemTag.length = 4 := rfl
    have h := readUL_at itemTag (leBytes 4 (4 * es.length)) ((es.map (leBytes 4)).flatten ++ rest) (leBytes_length 4 _)
    rw [hl] at h
    rw [e, h, leVal_leBytes4 _ hn]
  have hbody : readAt (encBot es ++ rest) 8 (4 * es.length) = (es.map (leBytes 4)).flatten := by
    have e : encBot es ++ rest = (itemTag ++ leBytes 4 (4 * es.length)) ++ ((es.map (leBytes 4)).flatten ++ rest) := by
      simp [encBot, List.append_assoc]
    have hl : (itemTag ++ leBytes 4 (4 * es.length)).length = 8 := by simp [itemTag, leBytes_length]
    have := readAt_shift (itemTag ++ leBytes 4 (4 * es.length)) ((es.map (leBytes 4)).flatten ++ rest) 0 (4 * es.length)
    rw [hl] at this
    rw [e, this, ← encBot_body_length es, readAt_prefix]
  have h4 : ¬ (4 * es.length % 4 ≠ 0) := by omega
  simp only [htag, hul, bind, Except.bind, ne_eq, not_true_eq_false, ↓reduceIte, h4, hbody, encBot_body_length]
  rw [leWords_enc 4 (by omega) es (by intro e he; have := hs e he; norm_num; exact this) _ (by omega)]

theorem encBot_length (es : List Nat) : (encBot es).length = 8 + 4 * es.length := by
  unfold encBot
  rw [List.length_append, List.length_append, encBot_body_length, leBytes_length]
  simp [itemTag]

/-- **`_get_bot` on bytes = `_get_bot` on fragments**, for a stream with at least one fragment; the first frame starts
    right behind the Basic Offset Table item -/
theorem getBotB_stream (stored : List Nat) (fs0 : List Frag) (hne : fs0 ≠ []) (rest : Bytes) (n : Nat)
    (hlen : ∀ f ∈ fs0, f.length < 4294967296)
    (hn : 4 * stored.length < 4294967296) (hs : ∀ e ∈ stored, e < 4294967296) :
    getBotB (encBot stored ++ (encItems fs0 ++ (delimiter ++ rest))) n
      = (match getBot stored fs0 n with
         | .ok t => .ok (t, 8 + 4 * stored.length)
         | .error e => .error e) := by
  obtain ⟨f0, fs, rfl⟩ : ∃ f0 fs, fs0 = f0 :: fs := by
    cases fs0 with
    | nil => exact absurd rfl hne
    | cons a b => exact ⟨a, b, rfl⟩
  unfold getBotB
  rw [parseBot_enc stored _ hn hs]
  simp only [bind, Except.bind]
  have htag : readTag (encBot stored ++ (encItems (f0 :: fs) ++ (delimiter ++ rest))) (8 + 4 * stored.length) = .ok .item := by
    have e : encItems (f0 :: fs) ++ (delimiter ++ rest) = itemTag ++ (leBytes 4 f0.length ++ (f0 ++ (encItems fs ++ (delimiter ++ rest)))) := by
      simp [encItems, encItem, List.append_assoc]
    rw [e, ← encBot_length stored]
    exact readTag_item _ _
  have hdrop : (encBot stored ++ (encItems (f0 :: fs) ++ (delimiter ++ rest))).drop (8 + 4 * stored.length)
      = encItems (f0 :: fs) ++ (delimiter ++ rest) := List.drop_left' (encBot_length stored)
  rw [htag]
  simp only [ne_eq, not_true_eq_false, ↓reduceIte, hdrop, buildBotB_stream (f0 :: fs) hlen rest n, getBotChoice, getBot]
  by_cases h : stored.length = n
  · have : ((stored.length : Int) != (n : Int)) = false := by simp; omega
    simp [h, this]
  · have : ((stored.length : Int) != (n : Int)) = true := by simp; omega
    simp only [this, ↓reduceIte, h, ne_eq, not_false_eq_true]
    cases buildBot (f0 :: fs) n <;> rfl

/-- `_read_eot` on an encoded table: the entries, refused unless there is one per frame -/
theorem readEot_enc (es : List Nat) (n : Nat) (hs : ∀ e ∈ es, e < 18446744073709551616) :
    readEot (encEot es) n = if es.length = n then .ok es else .error .value := by
  unfold readEot encEot eotWordBytes
  have hl : ((es.map (leBytes 8)).flatten).length = 8 * es.length := by
    induction es with
    | nil => rfl
    | cons e es ih => simp [leBytes_length, ih (fun x hx => hs x (by simp [hx]))]; omega
  rw [leWords_enc 8 (by omega) es (by intro e he; have := hs e he; norm_num; exact this) _ (by rw [hl]; omega)]
  simp only [eotLengthCheck]
  by_cases h : es.length = n
  · have : ((es.length : Int) != (n : Int)) = false := by simp; omega
    simp [h, this]
  · have : ((es.length : Int) != (n : Int)) = true := by simp; omega
    simp [h, this]

/-! ### native pixel data in the file -/

open HdVerif.Bits HdVerif.FrameAccess HdVerif.FrameAccessLemmas

theorem nativeHeader_length (implicit : Bool) (vr : Bytes) (len : Nat) (hvr : 2 ≤ vr.length) :
    (nativeHeader implicit vr len).length = if implicit then 8 else 12 := by
  cases implicit <;> simp [nativeHeader, leBytes_length, List.length_take]; omega

/-- **native pixel data, file level = value level**: with the element header in front of the value (8 bytes under implicit VR, 12
    under explicit VR: the regenerated `nativeFirstFrameOffset`) reading a frame at the remembered file position is slicing the
    value - whenever the offset-table entry and the read length are not negative (they are products and quotients of sizes) -/
theorem lazy_native_file_eq (pre value : Bytes) (implicit : Bool) (vr : Bytes) (hvr : 2 ≤ vr.length)
    (rows cols samples bits n : Int) (pi : String) (idx i bpf off len : Int)
    (h1 : lazyIndexGuard idx n = .ok i) (h2 : lazyBytesPerFrame (rows * cols * samples) bits pi rows cols = .ok bpf)
    (h3 : (if bits = 1 then lazyOffsetBit i (rows * cols * samples) else lazyOffsetByte i bpf) = .ok off)
    (h4 : lazyReadLength i off bits (rows * cols * samples) bpf = .ok len) (ho : 0 ≤ off) (hl : 0 ≤ len) :
    lazyRawNativeFile (pre ++ (nativeHeader implicit vr value.length ++ value)) pre.length implicit rows cols samples bits n pi idx
      = lazyRaw value rows cols samples bits n pi idx := by
  have hh := nativeHeader_length implicit vr value.length hvr
  have hpos : ((pre.length : Int) + (if implicit then (4 : Int) + 4 else 4 + 2 + 2 + 4) + off).toNat
      = (pre ++ nativeHeader implicit vr value.length).length + off.toNat := by
    rw [List.length_append, hh]; cases implicit <;> simp <;> omega
  have hneg : ¬ ((pre.length : Int) + (if implicit then (4 : Int) + 4 else 4 + 2 + 2 + 4) + off < 0 ∨ len < 0) := by
    cases implicit <;> simp <;> omega
  have e : pre ++ (nativeHeader implicit vr value.length ++ value) = (pre ++ nativeHeader implicit vr value.length) ++ value := by
    simp [List.append_assoc]
  have hneg2 : ¬ (off < 0 ∨ off + len < 0) := by omega
  have hlen : (off + len).toNat - off.toNat = len.toNat := by omega
  unfold lazyRawNativeFile lazyRaw
  by_cases hb : bits = 1
  · subst hb
    simp only [↓reduceIte] at h3
    simp only [bind, Except.bind, h1, h2, ↓reduceIte, h3, h4, nativeFirstFrameOffset, readSeekPosition, hneg, hpos]
    rw [e, readAt_shift]
    unfold slice
    simp only [hneg2, ↓reduceIte]
    unfold readAt pySlice
    rw [hlen]
  · simp only [hb, ↓reduceIte] at h3
    simp only [bind, Except.bind, h1, h2, hb, ↓reduceIte, h3, h4, nativeFirstFrameOffset, readSeekPosition, hneg, hpos]
    rw [e, readAt_shift]
    unfold slice
    simp only [hneg2, ↓reduceIte]
    unfold readAt pySlice
    rw [hlen]

end HdVerif.EncapBytes

namespace HdVerif.Offsets

/-- the `_build_bot` loop succeeds ONLY on streams whose items all have an even, non-zero length -/
theorem botLoop_ok_wf (fs : List Frag) (pos : Nat) (acc r : List Nat × List Nat) (h : botLoop fs pos acc = .ok r) :
    WellFormed fs := by
  induction fs generalizing pos acc with
  | nil => intro f hf; simp at hf
  | cons f fs ih =>
    obtain ⟨a, b⟩ := acc
    unfold botLoop at h
    by_cases h1 : f.length % 2 = 1
    · simp [h1] at h
    · by_cases h2 : f.length = 0
      · simp [h2] at h
      · simp only [h1, h2, ↓reduceIte] at h
        have hw := ih _ _ h
        intro g hg
        rcases List.mem_cons.mp hg with rfl | hg
        · exact ⟨by omega, h2⟩
        · exact hw g hg

/-- **which streams `_build_bot` accepts, and with what** (complete characterisation): every item length even and
    non-zero, and either exactly `n` fragments carry a start marker (table = their offsets) or, failing that, there are
    exactly `n` fragments (table = all offsets).  Everything else is refused. -/
theorem buildBot_ok_iff (fs : List Frag) (n : Nat) (t : List Nat) :
    buildBot fs n = .ok t ↔
      WellFormed fs ∧
        (((markedFrom 0 fs).length = n ∧ t = markedFrom 0 fs) ∨
         ((markedFrom 0 fs).length ≠ n ∧ fs.length = n ∧ t = offsetsFrom 0 fs)) := by
  constructor
  · intro h
    unfold buildBot at h
    cases hl : botLoop fs 0 ([], []) with
    | error e => simp [hl, bind, Except.bind] at h
    | ok r =>
      have hw := botLoop_ok_wf fs 0 _ r hl
      refine ⟨hw, ?_⟩
      rw [botLoop_spec fs hw] at h
      simp only [bind, Except.bind, List.nil_append] at h
      by_cases h1 : (markedFrom 0 fs).length = n
      · simp only [h1, ↓reduceIte] at h
        injection h with h
        exact Or.inl ⟨h1, h.symm⟩
      · simp only [h1, ↓reduceIte, offsetsFrom_length] at h
        by_cases h2 : fs.length = n
        · simp only [h2, ↓reduceIte] at h
          injection h with h
          exact Or.inr ⟨h1, h2, h.symm⟩
        · simp [h2] at h
  · rintro ⟨hw, h⟩
    unfold buildBot
    rw [botLoop_spec fs hw]
    simp only [bind, Except.bind, List.nil_append]
    rcases h with ⟨h1, rfl⟩ | ⟨h1, h2, rfl⟩
    · simp [h1]
    · simp [h1, h2, offsetsFrom_length]

end HdVerif.Offsets
