import HdVerif.Model.Aliasing
import HdVerif.Generated.T20alias_image
/-! C20: every converter program regenerated from `image` passes the analysis (one kernel evaluation per source file, so the
files build in parallel and are cached separately; see `Props/C20.lean` for what this means). -/
namespace HdVerif.C20Tables
open HdVerif.Aliasing HdVerif.Gen

set_option maxRecDepth 1000000 in
theorem alias_image_ok : (alias_image.all converterOk) = true := by decide +kernel

end HdVerif.C20Tables
