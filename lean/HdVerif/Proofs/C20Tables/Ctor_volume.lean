import HdVerif.Model.Aliasing
import HdVerif.Generated.T20ctor_volume
/-! C20: every constructor program regenerated from `volume` passes the analysis (one kernel evaluation per source file, so the
files build in parallel and are cached separately; see `Props/C20.lean` for what this means). -/
namespace HdVerif.C20Tables
open HdVerif.Aliasing HdVerif.Gen

set_option maxRecDepth 1000000 in
theorem ctor_volume_ok : (ctor_volume.all constructorOk) = true := by decide +kernel

end HdVerif.C20Tables
