import HdVerif.Model.Aliasing
import HdVerif.Generated.T20alias_ann_content
/-! C20: every converter program regenerated from `ann_content` passes the analysis (one kernel evaluation per source file, so the
files build in parallel and are cached separately; see `Props/C20.lean` for what this means). -/
namespace HdVerif.C20Tables
open HdVerif.Aliasing HdVerif.Gen

set_option maxRecDepth 1000000 in
theorem alias_ann_content_ok : (alias_ann_content.all converterOk) = true := by decide +kernel

end HdVerif.C20Tables
