import HdVerif.Model.Aliasing
import HdVerif.Generated.T20neg
/-! C20: negative tests of the alias-flow extractor.  `Generated/T20neg.lean` holds what the extractor of this run makes of a
committed corpus of synthetic constructors (`translate/tests_C20/corpus.py`): 170 that write an argument in some run (the
witnesses of the second-round audit among them) and 21 twins that write nothing the caller can see.  One kernel evaluation. -/
namespace HdVerif.C20Tables
open HdVerif.Aliasing HdVerif.Gen

set_option maxRecDepth 1000000 in
theorem corpus_ok :
    (negCorpus.all fun e => wellFormed e && !neverWritesInputs e) = true ∧ (twinCorpus.all constructorOk) = true ∧
      twinRefused = [] ∧ 150 ≤ negCorpus.length ∧ 15 ≤ twinCorpus.length := by decide +kernel

end HdVerif.C20Tables
