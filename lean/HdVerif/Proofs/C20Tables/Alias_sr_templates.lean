import HdVerif.Model.Aliasing
import HdVerif.Generated.T20alias_sr_templates
/-! C20: every converter program regenerated from `sr_templates` passes the analysis (one kernel evaluation per source file, so the
files build in parallel and are cached separately; see `Props/C20.lean` for what this means). -/
namespace HdVerif.C20Tables
open HdVerif.Aliasing HdVerif.Gen

set_option maxRecDepth 1000000 in
theorem alias_sr_templates_ok : (alias_sr_templates.all converterOk) = true := by decide +kernel

end HdVerif.C20Tables
